(* Proofs about the EventLog model (glow/event_log.go). *)
From Coq Require Import ZArith List Bool Permutation Sorted Lia.
From GCA Require Import EventLog.
Import ListNotations.
Open Scope Z_scope.

(* ---- lines ---------------------------------------------------------------- *)
Lemma line_eqb_eq a b : line_eqb a b = true <-> a = b.
Proof.
  revert b; induction a as [|x a IH]; intros [|y b]; cbn [line_eqb]; try (split; congruence).
  rewrite andb_true_iff, IH. split.
  - intros [H1 H2]. apply Byte.byte_dec_bl in H1. congruence.
  - intros H; injection H as -> ->. split; auto. now apply Byte.byte_dec_lb.
Qed.

Lemma line_eqb_refl a : line_eqb a a = true.
Proof. now apply line_eqb_eq. Qed.

Lemma existsb_line x ks : existsb (line_eqb x) ks = true <-> In x ks.
Proof.
  rewrite existsb_exists. split.
  - intros (y & Hy & E). apply line_eqb_eq in E. congruence.
  - intros H. exists x. split; auto. apply line_eqb_refl.
Qed.

Lemma has_line_In k es : has_line k es = true <-> In k (lines es).
Proof.
  unfold has_line, lines. rewrite existsb_exists, in_map_iff. split.
  - intros (e & He & E). apply line_eqb_eq in E. eauto.
  - intros (e & E & He). exists e. split; auto. apply line_eqb_eq; auto.
Qed.

Lemma Zlen_nonneg {A} (l : list A) : 0 <= Zlen l.
Proof. unfold Zlen; lia. Qed.

(* ---- generic list facts --------------------------------------------------- *)
Lemma Permutation_filter {A} (f : A -> bool) l l' :
  Permutation l l' -> Permutation (filter f l) (filter f l').
Proof.
  induction 1; cbn [filter]; auto.
  - destruct (f x); auto.
  - destruct (f x), (f y); auto. apply perm_swap.
  - eauto using Permutation_trans.
Qed.

Lemma filter_all_true {A} (f : A -> bool) l : (forall x, In x l -> f x = true) -> filter f l = l.
Proof.
  induction l as [|a l IH]; intros H; cbn [filter]; auto.
  rewrite (H a (or_introl eq_refl)). f_equal. apply IH. intros; apply H; now right.
Qed.

Lemma filter_all_false {A} (f : A -> bool) l : (forall x, In x l -> f x = false) -> filter f l = [].
Proof.
  induction l as [|a l IH]; intros H; cbn [filter]; auto.
  rewrite (H a (or_introl eq_refl)). apply IH. intros; apply H; now right.
Qed.

Lemma NoDup_app_disjoint {A} (a b : list A) x : NoDup (a ++ b) -> In x a -> In x b -> False.
Proof.
  induction a as [|y a IH]; cbn; intros ND Ha Hb; [easy|].
  inversion ND as [|? ? Hy ND']; subst. destruct Ha as [->|Ha].
  - apply Hy, in_or_app; now right.
  - eauto.
Qed.

Lemma NoDup_snoc {A} (l : list A) x : NoDup l -> ~ In x l -> NoDup (l ++ [x]).
Proof.
  intros ND Hx. apply (Permutation_NoDup (l := x :: l)).
  - apply Permutation_cons_append.
  - now constructor.
Qed.

Lemma StronglySorted_map {A B} (R : B -> B -> Prop) (f : A -> B) l :
  StronglySorted (fun a b => R (f a) (f b)) l -> StronglySorted R (map f l).
Proof.
  induction 1 as [|a l SS IH F]; cbn [map]; constructor; auto.
  rewrite Forall_forall in *. intros y Hy. apply in_map_iff in Hy as (z & <- & Hz). auto.
Qed.

(* ---- total_len, lines ----------------------------------------------------- *)
Lemma total_len_cons e a : total_len (e :: a) = Zlen (e_line e) + total_len a.
Proof. reflexivity. Qed.

Lemma total_len_app a b : total_len (a ++ b) = total_len a + total_len b.
Proof.
  induction a as [|e a IH]; [reflexivity|].
  change ((e :: a) ++ b) with (e :: (a ++ b)). rewrite !total_len_cons, IH. lia.
Qed.

Lemma total_len_nonneg es : 0 <= total_len es.
Proof. induction es as [|e a IH]; [cbn; lia|]. rewrite total_len_cons. pose proof (Zlen_nonneg (e_line e)). lia. Qed.

Lemma total_len_perm a b : Permutation a b -> total_len a = total_len b.
Proof. induction 1; rewrite ?total_len_cons in *; lia. Qed.

Lemma total_len_filter_split f es :
  total_len es = total_len (filter f es) + total_len (filter (fun e => negb (f e)) es).
Proof.
  induction es as [|e a IH]; [reflexivity|]. cbn [filter]. rewrite total_len_cons.
  destruct (f e); cbn [negb]; rewrite total_len_cons; lia.
Qed.

Lemma total_len_firstn_skipn n es : total_len es = total_len (firstn n es) + total_len (skipn n es).
Proof. rewrite <- total_len_app, firstn_skipn. reflexivity. Qed.

Lemma lines_cut cut es : lines (map (cut_entry cut) es) = lines es.
Proof. unfold lines. rewrite map_map. reflexivity. Qed.

Lemma total_len_cut cut es : total_len (map (cut_entry cut) es) = total_len es.
Proof. induction es as [|e a IH]; [reflexivity|]. cbn [map]. rewrite !total_len_cons, IH. reflexivity. Qed.

Lemma lines_filter_incl f es x : In x (lines (filter f es)) -> In x (lines es).
Proof.
  unfold lines. rewrite !in_map_iff. intros (e & E & He). apply filter_In in He as [He _]. eauto.
Qed.

Lemma NoDup_lines_filter f es : NoDup (lines es) -> NoDup (lines (filter f es)).
Proof.
  induction es as [|e a IH]; cbn [filter lines map]; intros ND; [constructor|].
  inversion ND as [|? ? Hn ND']; subst. destruct (f e); auto.
  cbn [map]. constructor; auto. intros H. apply Hn. eapply lines_filter_incl; eauto.
Qed.

Lemma lines_add_update now k es : lines (add_update now k es) = lines es.
Proof.
  unfold lines, add_update. rewrite map_map. apply map_ext. intros e. now destruct (line_eqb (e_line e) k).
Qed.

Lemma total_len_add_update now k es : total_len (add_update now k es) = total_len es.
Proof.
  induction es as [|e a IH]; [reflexivity|]. cbn [add_update map]. fold (add_update now k a).
  rewrite !total_len_cons, IH. now destruct (line_eqb (e_line e) k).
Qed.

(* ---- the invariant -------------------------------------------------------- *)
Record Inv (c : cfg) (st : logger) : Prop := {
  inv_nodup : NoDup (lines (l_entries st));
  inv_size : l_size st = 2 * total_len (l_entries st);
  inv_upd : Forall (fun e => has_upd e = true) (l_entries st);
  inv_bound : l_size st <= Z.max 0 (c_max c);
  inv_trunc : Forall (fun e => Zlen (e_line e) <= c_maxline c) (l_entries st)
}.

Lemma inv_init c : Inv c init.
Proof. constructor; cbn; try constructor; lia. Qed.

Lemma expire_entries c st now :
  l_entries (expire c st now) = filter has_upd (map (cut_entry (now - c_expiry c)) (l_entries st)).
Proof. reflexivity. Qed.

Lemma expire_inv c st now : Inv c st -> Inv c (expire c st now).
Proof.
  intros [ND SZ UP BD TR]. set (cut := now - c_expiry c).
  assert (Hsplit := total_len_filter_split has_upd (map (cut_entry cut) (l_entries st))).
  rewrite total_len_cut in Hsplit.
  pose proof (total_len_nonneg (filter (fun e => negb (has_upd e)) (map (cut_entry cut) (l_entries st)))) as Hd.
  constructor; unfold expire, expire_gen; cbn [l_entries l_size]; fold cut.
  - apply NoDup_lines_filter. now rewrite lines_cut.
  - lia.
  - apply Forall_forall. intros e He. now apply filter_In in He.
  - lia.
  - apply Forall_forall. intros e He. apply filter_In in He as [He _].
    apply in_map_iff in He as (e0 & <- & He0). rewrite Forall_forall in TR. exact (TR e0 He0).
Qed.

(* ---- the order of last updates ------------------------------------------- *)
Definition key_ok (p : Z * entry) : Prop := last_opt (e_upd (snd p)) = Some (fst p).
Definition key_le (a b : Z * entry) : Prop := fst a <= fst b.

Lemma has_upd_last e : has_upd e = true -> exists k, last_opt (e_upd e) = Some k.
Proof.
  unfold has_upd. induction (e_upd e) as [|x l IH]; [discriminate|]. intros _.
  destruct l as [|y l]; [now exists x|]. cbn [last_opt]. apply IH. reflexivity.
Qed.

Lemma last_has_upd e k : last_opt (e_upd e) = Some k -> has_upd e = true.
Proof. unfold has_upd. destruct (e_upd e); [discriminate|reflexivity]. Qed.

Lemma keyed_ok es : Forall (fun e => has_upd e = true) es ->
  exists k, keyed es = Ok k /\ map snd k = es /\ Forall key_ok k.
Proof.
  induction 1 as [|e a He _ IH]; [exists []; cbn; auto|].
  destruct IH as (k & Hk & M & F). destruct (has_upd_last e He) as (x & Hx).
  exists ((x, e) :: k). cbn [keyed]. rewrite Hx, Hk. cbn [map snd]. rewrite M. repeat split; auto.
Qed.

Lemma keyed_inv es k : keyed es = Ok k -> map snd k = es /\ Forall key_ok k.
Proof.
  revert k; induction es as [|e a IH]; cbn [keyed]; intros k H.
  - injection H as <-. cbn; auto.
  - destruct (last_opt (e_upd e)) as [x|] eqn:Hx; [|discriminate].
    destruct (keyed a) as [ka|]; [|discriminate]. injection H as <-.
    destruct (IH ka eq_refl) as [M F]. cbn [map snd]. rewrite M. split; auto.
Qed.

Lemma insert_sorted_perm x l : Permutation (insert_sorted x l) (x :: l).
Proof.
  induction l as [|y r IH]; cbn [insert_sorted]; auto.
  destruct (fst y <=? fst x); auto.
  eapply Permutation_trans; [apply perm_skip, IH|apply perm_swap].
Qed.

Lemma sort_keyed_perm l : Permutation (sort_keyed l) l.
Proof.
  induction l as [|x r IH]; cbn [sort_keyed fold_right]; auto.
  fold (sort_keyed r). eapply Permutation_trans; [apply insert_sorted_perm|auto].
Qed.

Lemma insert_sorted_sorted x l : StronglySorted key_le l -> StronglySorted key_le (insert_sorted x l).
Proof.
  induction 1 as [|y r SS IH F]; cbn [insert_sorted]; [repeat constructor|].
  destruct (Z.leb_spec (fst y) (fst x)) as [L|L].
  - constructor; auto. eapply Permutation_Forall; [symmetry; apply insert_sorted_perm|].
    constructor; auto.
  - constructor; [constructor; auto|]. constructor; [unfold key_le; lia|].
    eapply Forall_impl; [|exact F]. unfold key_le; intros; lia.
Qed.

Lemma sort_keyed_sorted l : StronglySorted key_le (sort_keyed l).
Proof.
  induction l as [|x r IH]; cbn [sort_keyed fold_right]; [constructor|].
  now apply insert_sorted_sorted.
Qed.

Lemma keyed_sorted_entries l : StronglySorted key_le l -> Forall key_ok l ->
  StronglySorted entry_le (map snd l).
Proof.
  intros SS F. apply StronglySorted_map. induction SS as [|a r SS IH Fa]; [constructor|].
  inversion F as [|? ? Ka Fr]; subst. constructor; auto.
  rewrite Forall_forall in *. intros b Hb. exists (fst a), (fst b).
  repeat split; auto. apply Fr; auto. apply Fa; auto.
Qed.

Lemma update_order_spec tb es : tb_ok tb -> Forall (fun e => has_upd e = true) es ->
  exists order, update_order tb es = Ok order /\ Permutation order es /\ StronglySorted entry_le order.
Proof.
  intros Htb F. assert (F' : Forall (fun e => has_upd e = true) (tb es))
    by (eapply Permutation_Forall; [symmetry; apply Htb|exact F]).
  destruct (keyed_ok _ F') as (k & Hk & M & KO).
  exists (map snd (sort_keyed k)). unfold update_order. rewrite Hk. split; [reflexivity|]. split.
  - eapply Permutation_trans; [apply Permutation_map, sort_keyed_perm|]. rewrite M. apply Htb.
  - apply keyed_sorted_entries; [apply sort_keyed_sorted|].
    eapply Permutation_Forall; [symmetry; apply sort_keyed_perm|exact KO].
Qed.

Lemma update_order_inv tb es order : tb_ok tb -> update_order tb es = Ok order ->
  Permutation order es /\ StronglySorted entry_le order.
Proof.
  intros Htb H. unfold update_order in H. destruct (keyed (tb es)) as [k|] eqn:Hk; [|discriminate].
  injection H as <-. destruct (keyed_inv _ _ Hk) as [M KO]. split.
  - eapply Permutation_trans; [apply Permutation_map, sort_keyed_perm|]. rewrite M. apply Htb.
  - apply keyed_sorted_entries; [apply sort_keyed_sorted|].
    eapply Permutation_Forall; [symmetry; apply sort_keyed_perm|exact KO].
Qed.

(* ---- the eviction loop ---------------------------------------------------- *)
Lemma evict_count_spec need max order : forall size,
  size = 2 * total_len order -> need <= max ->
  exists n, evict_count need max size order = Ok (n, 2 * total_len (skipn n order)) /\
    (n <= length order)%nat /\
    need + 2 * total_len (skipn n order) <= max /\
    (forall m, (m < n)%nat -> need + 2 * total_len (skipn m order) > max).
Proof.
  induction order as [|e r IH]; intros size Hs Hn; cbn [evict_count].
  - cbn in Hs. subst size. destruct (Z.gtb_spec (need + 0) max) as [G|G]; [lia|].
    exists 0%nat. cbn. repeat split; auto; try lia; try (intros m Hm; lia).
  - rewrite total_len_cons in Hs. destruct (Z.gtb_spec (need + size) max) as [G|G].
    + destruct (IH (size - 2 * Zlen (e_line e))) as (n & E & L & Fit & Min); [lia|lia|].
      rewrite E. exists (S n). cbn [skipn length]. repeat split; auto; try lia.
      intros [|m] Hm; cbn [skipn]; [rewrite total_len_cons; lia|]. apply Min; lia.
    + exists 0%nat. cbn [skipn length]. rewrite total_len_cons.
      repeat split; try lia; try (intros m Hm; lia); try (f_equal; f_equal; lia).
Qed.

(* delete(l.logs, oldest.line) for a prefix of the order leaves the rest of the order *)
Lemma remove_lines_nil es : remove_lines [] es = es.
Proof. unfold remove_lines. apply filter_all_true. reflexivity. Qed.

Lemma remove_prefix_eq n order : NoDup (lines order) ->
  remove_lines (lines (firstn n order)) order = skipn n order.
Proof.
  intros ND. unfold remove_lines.
  set (f := fun e : entry => negb (existsb (line_eqb (e_line e)) (lines (firstn n order)))).
  rewrite <- (firstn_skipn n order) at 1. rewrite filter_app.
  rewrite filter_all_false, filter_all_true; [reflexivity| |]; subst f; cbv beta.
  - intros e He. apply negb_true_iff. destruct (existsb _ _) eqn:E; auto.
    apply existsb_line in E. exfalso.
    rewrite <- (firstn_skipn n order) in ND. unfold lines in ND. rewrite map_app in ND.
    eapply NoDup_app_disjoint; [exact ND|exact E|]. apply in_map; auto.
  - intros e He. apply negb_false_iff, existsb_line. unfold lines. now apply in_map.
Qed.

Lemma remove_prefix_perm n order es : Permutation order es -> NoDup (lines es) ->
  Permutation (remove_lines (lines (firstn n order)) es) (skipn n order).
Proof.
  intros P ND. rewrite <- (remove_prefix_eq n order).
  - unfold remove_lines. apply Permutation_filter. now symmetry.
  - eapply Permutation_NoDup; [|exact ND]. unfold lines. apply Permutation_map. now symmetry.
Qed.

(* ---- truncation ----------------------------------------------------------- *)
Lemma truncate_spec c l : 0 <= c_maxline c ->
  truncate c l = Ok (cut_line c l) /\ Zlen (cut_line c l) <= c_maxline c.
Proof.
  intros H. unfold truncate, cut_line, Zlen.
  destruct (Z.gtb_spec (Z.of_nat (length l)) (c_maxline c)) as [G|G].
  - destruct (Z.ltb_spec (c_maxline c) 0) as [L|L]; [lia|]. split; auto. rewrite firstn_length. lia.
  - rewrite firstn_all2 by lia. split; auto.
Qed.

Lemma truncate_len c l k : truncate c l = Ok k -> Zlen k <= c_maxline c.
Proof.
  unfold truncate, Zlen. destruct (Z.gtb_spec (Z.of_nat (length l)) (c_maxline c)) as [G|G].
  - destruct (Z.ltb_spec (c_maxline c) 0) as [L|L]; [discriminate|]. intros H; injection H as <-.
    rewrite firstn_length. lia.
  - intros H; injection H as <-. lia.
Qed.

Lemma truncate_negative c l : c_maxline c < 0 -> truncate c l = Panic.
Proof.
  intros H. unfold truncate. pose proof (Zlen_nonneg l).
  destruct (Z.gtb_spec (Zlen l) (c_maxline c)) as [G|G]; [|lia].
  destruct (Z.ltb_spec (c_maxline c) 0) as [L|L]; [reflexivity|lia].
Qed.

(* ---- Printf, case by case ------------------------------------------------- *)
Definition stored (c : cfg) (st : logger) (now : Z) (key : line) (order : list entry) (n : nat) : logger :=
  {| l_entries := remove_lines (lines (firstn n order)) (l_entries (expire c st now)) ++ [new_entry now key];
     l_size := 2 * total_len (skipn n order) + 2 * Zlen key |}.

Inductive printf_case (c : cfg) (st : logger) (now : Z) (key : line) (tb : tie_break) : outcome logger -> Prop :=
| PC_unstorable : 2 * Zlen key > c_max c ->
    printf_case c st now key tb (Ok (expire c st now))
| PC_known : 2 * Zlen key <= c_max c -> In key (lines (l_entries (expire c st now))) ->
    printf_case c st now key tb
      (Ok {| l_entries := add_update now key (l_entries (expire c st now)); l_size := l_size (expire c st now) |})
| PC_new order n : 2 * Zlen key <= c_max c -> ~ In key (lines (l_entries (expire c st now))) ->
    Permutation order (l_entries (expire c st now)) -> StronglySorted entry_le order ->
    (n <= length order)%nat ->
    2 * Zlen key + 2 * total_len (skipn n order) <= c_max c ->
    (forall m, (m < n)%nat -> 2 * Zlen key + 2 * total_len (skipn m order) > c_max c) ->
    (n = 0%nat \/ update_order tb (l_entries (expire c st now)) = Ok order) ->
    printf_case c st now key tb (Ok (stored c st now key order n)).

Lemma printf_cases c st now l tb key : Inv c st -> tb_ok tb -> truncate c l = Ok key ->
  printf_case c st now key tb (printf c st now l tb).
Proof.
  intros I Htb Ht. pose proof (expire_inv c st now I) as I1.
  unfold printf, printf_gen. fold (expire c st now). rewrite Ht.
  destruct (Z.gtb_spec (2 * Zlen key) (c_max c)) as [G|G]; [apply PC_unstorable; lia|].
  destruct (has_line key (l_entries (expire c st now))) eqn:HL.
  { apply PC_known; auto. now apply has_line_In. }
  assert (Hnot : ~ In key (lines (l_entries (expire c st now)))).
  { intros H. apply has_line_In in H. congruence. }
  destruct (update_order_spec tb _ Htb (inv_upd _ _ I1)) as (order & Ho & P & SS).
  pose proof (inv_size _ _ I1) as SZ. rewrite (total_len_perm _ _ (Permutation_sym P)) in SZ.
  destruct (evict_count_spec (2 * Zlen key) (c_max c) order _ SZ G) as (n & E & L & Fit & Min).
  destruct (Z.gtb_spec (2 * Zlen key + l_size (expire c st now)) (c_max c)) as [G2|G2].
  - rewrite Ho, E.
    replace (2 * total_len (skipn n order) + 2 * Zlen key) with (l_size (stored c st now key order n)) by reflexivity.
    change (Ok {| l_entries := ?a; l_size := l_size (stored c st now key order n) |})
      with (Ok (stored c st now key order n)).
    eapply PC_new; eauto.
  - assert (n = 0%nat) as ->.
    { destruct n as [|n]; auto. specialize (Min 0%nat ltac:(lia)). cbn [skipn] in Min. lia. }
    replace (Ok _) with (Ok (stored c st now key order 0)).
    + eapply PC_new; eauto.
    + unfold stored. cbn [firstn lines map skipn]. rewrite remove_lines_nil. f_equal. f_equal. lia.
Qed.

Lemma new_entry_not_in (key : line) es : ~ In key (lines es) -> forall f, ~ In key (lines (filter f es)).
Proof. intros H f Hf. apply H. eapply lines_filter_incl; eauto. Qed.

Lemma printf_case_inv c st now key tb r : Inv c st -> Zlen key <= c_maxline c ->
  printf_case c st now key tb r -> exists st', r = Ok st' /\ Inv c st'.
Proof.
  intros I Hk PC. pose proof (expire_inv c st now I) as [ND SZ UP BD TR].
  destruct PC as [G|G Hin|order n G Hnot P SS L Fit Min _].
  - eexists; split; [reflexivity|]. now constructor.
  - eexists; split; [reflexivity|]. constructor; cbn [l_entries l_size].
    + now rewrite lines_add_update.
    + now rewrite total_len_add_update.
    + apply Forall_forall. intros e He. unfold add_update in He. apply in_map_iff in He as (e0 & <- & He0).
      rewrite Forall_forall in UP. destruct (line_eqb (e_line e0) key); [|now apply UP].
      unfold has_upd; cbn. now destruct (e_upd e0).
    + exact BD.
    + apply Forall_forall. intros e He. unfold add_update in He. apply in_map_iff in He as (e0 & <- & He0).
      rewrite Forall_forall in TR. specialize (TR e0 He0). now destruct (line_eqb (e_line e0) key).
  - eexists; split; [reflexivity|].
    pose proof (remove_prefix_perm n order _ P ND) as RP.
    constructor; unfold stored; cbn [l_entries l_size].
    + unfold lines. rewrite map_app. cbn [map]. apply NoDup_snoc.
      * now apply NoDup_lines_filter.
      * now apply new_entry_not_in.
    + rewrite total_len_app, (total_len_perm _ _ RP).
      change (total_len [new_entry now key]) with (Zlen key + 0). lia.
    + apply Forall_app. split; [|repeat constructor].
      apply Forall_forall. intros e He. apply filter_In in He as [He _]. rewrite Forall_forall in UP; auto.
    + lia.
    + apply Forall_app. split; [|repeat constructor; auto].
      apply Forall_forall. intros e He. apply filter_In in He as [He _]. rewrite Forall_forall in TR; auto.
Qed.

Lemma printf_inv c st now l tb st' : Inv c st -> tb_ok tb -> printf c st now l tb = Ok st' -> Inv c st'.
Proof.
  intros I Htb H. destruct (truncate c l) as [key|] eqn:Ht.
  - pose proof (printf_cases c st now l tb key I Htb Ht) as PC.
    destruct (printf_case_inv _ _ _ _ _ _ I (truncate_len _ _ _ Ht) PC) as (st2 & E & I2). congruence.
  - unfold printf, printf_gen in H. rewrite Ht in H. discriminate.
Qed.

Lemma printf_total c st now l tb : Inv c st -> tb_ok tb -> 0 <= c_maxline c ->
  exists st', printf c st now l tb = Ok st' /\ Inv c st'.
Proof.
  intros I Htb Hm. destruct (truncate_spec c l Hm) as [Ht Hl].
  pose proof (printf_cases c st now l tb _ I Htb Ht) as PC.
  destruct (printf_case_inv _ _ _ _ _ _ I Hl PC) as (st2 & E & I2). eauto.
Qed.

(* ---- DumpLogEntries ------------------------------------------------------- *)
Definition entry_out (e : entry) : line * list Z := (e_line e, e_upd e).

Lemma dump_spec c st now tb : Inv c st -> tb_ok tb ->
  exists order, dump c st now tb = Ok (expire c st now, map entry_out order) /\
    Permutation order (l_entries (expire c st now)) /\ StronglySorted entry_le order.
Proof.
  intros I Htb. pose proof (expire_inv c st now I) as I1.
  destruct (update_order_spec tb _ Htb (inv_upd _ _ I1)) as (order & Ho & P & SS).
  exists order. unfold dump, dump_gen. fold (expire c st now). rewrite Ho. auto.
Qed.

(* ---- steps and runs ------------------------------------------------------- *)
Lemma step_total c st o : Inv c st -> op_ok o -> 0 <= c_maxline c ->
  exists st' d, step c st o = Ok (st', d) /\ Inv c st'.
Proof.
  intros I Ho Hm. destruct o as [now l tb|now|now tb]; unfold step, step_gen.
  - destruct (printf_total c st now l tb I Ho Hm) as (st' & E & I'). fold (printf c st now l tb).
    rewrite E. eauto.
  - do 2 eexists. split; [reflexivity|]. now apply expire_inv.
  - destruct (dump_spec c st now tb I Ho) as (order & E & _). fold (dump c st now tb). rewrite E.
    do 2 eexists. split; [reflexivity|]. now apply expire_inv.
Qed.

Lemma step_inv c st o st' d : Inv c st -> op_ok o -> step c st o = Ok (st', d) -> Inv c st'.
Proof.
  intros I Ho. destruct o as [now l tb|now|now tb]; unfold step, step_gen.
  - fold (printf c st now l tb). destruct (printf c st now l tb) as [s|] eqn:E; [|discriminate].
    intros H; injection H as <- <-. eapply printf_inv; eauto.
  - intros H; injection H as <- <-. now apply expire_inv.
  - destruct (dump_spec c st now tb I Ho) as (order & E & _). fold (dump c st now tb). rewrite E.
    intros H; injection H as <- <-. now apply expire_inv.
Qed.

Lemma run_inv c ops : forall st st', Inv c st -> Forall op_ok ops -> run c st ops = Ok st' -> Inv c st'.
Proof.
  induction ops as [|o r IH]; intros st st' I F; cbn [run run_gen].
  - intros H; injection H as <-. exact I.
  - inversion F as [|? ? Ho Fr]; subst. fold (step c st o).
    destruct (step c st o) as [[s d]|] eqn:E; [|discriminate]. fold (run c s r).
    apply IH; auto. eapply step_inv; eauto.
Qed.

Lemma run_total c ops : forall st, Inv c st -> Forall op_ok ops -> 0 <= c_maxline c ->
  exists st', run c st ops = Ok st'.
Proof.
  induction ops as [|o r IH]; intros st I F Hm; cbn [run run_gen]; [eauto|].
  inversion F as [|? ? Ho Fr]; subst. fold (step c st o).
  destruct (step_total c st o I Ho Hm) as (s & d & E & I'). rewrite E. fold (run c s r). auto.
Qed.

(* ---- statements of C18 ---------------------------------------------------- *)
Lemma accounting_exact c ops st : Forall op_ok ops -> run c init ops = Ok st ->
  l_size st = 2 * total_len (l_entries st) /\ NoDup (lines (l_entries st)).
Proof. intros F H. destruct (run_inv c ops _ _ (inv_init c) F H); auto. Qed.

Lemma bounded c ops st : Forall op_ok ops -> run c init ops = Ok st ->
  2 * total_len (l_entries st) <= Z.max 0 (c_max c) /\ l_size st <= Z.max 0 (c_max c).
Proof. intros F H. destruct (run_inv c ops _ _ (inv_init c) F H) as [? SZ ? BD ?]. lia. Qed.

Lemma no_panic c ops : 0 <= c_maxline c -> Forall op_ok ops -> run c init ops <> Panic.
Proof. intros Hm F. destruct (run_total c ops _ (inv_init c) F Hm) as (st & ->). discriminate. Qed.

Lemma negative_line_limit_panics c st now l tb : c_maxline c < 0 -> printf c st now l tb = Panic.
Proof. intros H. unfold printf, printf_gen. now rewrite truncate_negative. Qed.

Lemma truncated c ops st : Forall op_ok ops -> run c init ops = Ok st ->
  Forall (fun e => Zlen (e_line e) <= c_maxline c) (l_entries st).
Proof. intros F H. now destruct (run_inv c ops _ _ (inv_init c) F H). Qed.

Lemma last_opt_snoc l x : last_opt (l ++ [x]) = Some x.
Proof.
  induction l as [|y l IH]; [reflexivity|]. cbn [app last_opt].
  destruct (l ++ [x]) eqn:E; [destruct l; discriminate|]. exact IH.
Qed.

Lemma newest_kept c ops st now l tb : Forall op_ok ops -> run c init ops = Ok st -> tb_ok tb ->
  0 <= c_maxline c -> 2 * Zlen (cut_line c l) <= c_max c ->
  exists st' e, printf c st now l tb = Ok st' /\ In e (l_entries st') /\
    e_line e = cut_line c l /\ last_opt (e_upd e) = Some now.
Proof.
  intros F H Htb Hm Hfit. pose proof (run_inv c ops _ _ (inv_init c) F H) as I.
  destruct (truncate_spec c l Hm) as [Ht Hl].
  pose proof (printf_cases c st now l tb _ I Htb Ht) as PC.
  inversion PC as [G E|G Hin E|order n G Hnot P SS L Fit Min _ E]; [lia| |].
  - apply in_map_iff in Hin as (e0 & E0 & He0).
    eexists. exists {| e_line := e_line e0; e_upd := e_upd e0 ++ [now] |}. split; [reflexivity|].
    cbn [l_entries e_line e_upd]. repeat split; auto using last_opt_snoc.
    unfold add_update. apply in_map_iff. exists e0. split; auto.
    rewrite E0, line_eqb_refl. reflexivity.
  - eexists. exists (new_entry now (cut_line c l)). split; [reflexivity|].
    unfold stored; cbn [l_entries]. repeat split; auto. apply in_or_app. right. now left.
Qed.

Lemma reuse c ops st now l tb : Forall op_ok ops -> run c init ops = Ok st -> tb_ok tb ->
  0 <= c_maxline c ->
  let st1 := expire c st now in
  let key := cut_line c l in
  l_size st1 = 2 * total_len (l_entries st1) /\
  (~ In key (lines (l_entries st1)) ->
   2 * Zlen key <= c_max c - 2 * total_len (l_entries st1) ->
   printf c st now l tb =
     Ok {| l_entries := l_entries st1 ++ [new_entry now key]; l_size := l_size st1 + 2 * Zlen key |}).
Proof.
  intros F H Htb Hm st1 key. pose proof (run_inv c ops _ _ (inv_init c) F H) as I.
  pose proof (expire_inv c st now I) as I1. split; [apply (inv_size _ _ I1)|].
  intros Hnot Hfit. destruct (truncate_spec c l Hm) as [Ht Hl].
  pose proof (inv_size _ _ I1) as SZ. pose proof (total_len_nonneg (l_entries st1)) as NN.
  fold st1 in SZ.
  unfold printf, printf_gen. fold (expire c st now). fold st1. rewrite Ht. fold key.
  destruct (Z.gtb_spec (2 * Zlen key) (c_max c)) as [G|G]; [lia|].
  destruct (has_line key (l_entries st1)) eqn:HL; [apply has_line_In in HL; contradiction|].
  destruct (Z.gtb_spec (2 * Zlen key + l_size st1) (c_max c)) as [G2|G2]; [lia|]. reflexivity.
Qed.

Lemma evict_minimal_oldest c ops st now l tb st' : Forall op_ok ops -> run c init ops = Ok st ->
  tb_ok tb -> 0 <= c_maxline c ->
  let st1 := expire c st now in
  let key := cut_line c l in
  printf c st now l tb = Ok st' -> ~ In key (lines (l_entries st1)) -> 2 * Zlen key <= c_max c ->
  exists order n,
    Permutation order (l_entries st1) /\ StronglySorted entry_le order /\ (n <= length order)%nat /\
    Permutation (l_entries st') (skipn n order ++ [new_entry now key]) /\
    l_entries st' = remove_lines (lines (firstn n order)) (l_entries st1) ++ [new_entry now key] /\
    2 * Zlen key + 2 * total_len (skipn n order) <= c_max c /\
    (forall m, (m < n)%nat -> 2 * Zlen key + 2 * total_len (skipn m order) > c_max c).
Proof.
  intros F H Htb Hm st1 key Hp Hnot Hfit. pose proof (run_inv c ops _ _ (inv_init c) F H) as I.
  pose proof (expire_inv c st now I) as I1.
  destruct (truncate_spec c l Hm) as [Ht Hl].
  pose proof (printf_cases c st now l tb _ I Htb Ht) as PC. rewrite Hp in PC.
  inversion PC as [G E|G Hin E|order n G Hnot' P SS L Fit Min _ E]; [fold key in G; lia|contradiction|].
  subst st'. exists order, n. unfold stored; cbn [l_entries]. repeat split; auto.
  apply Permutation_app_tail. apply remove_prefix_perm; auto. apply (inv_nodup _ _ I1).
Qed.

Lemma dump_sorted c ops st now tb : Forall op_ok ops -> run c init ops = Ok st -> tb_ok tb ->
  exists out, dump c st now tb = Ok (expire c st now, out) /\
    Permutation out (map entry_out (l_entries (expire c st now))) /\
    StronglySorted dump_le out.
Proof.
  intros F H Htb. pose proof (run_inv c ops _ _ (inv_init c) F H) as I.
  destruct (dump_spec c st now tb I Htb) as (order & E & P & SS).
  exists (map entry_out order). repeat split; auto using Permutation_map.
  apply StronglySorted_map. exact SS.
Qed.

(* ---- time: update lists are ascending, the last update is the latest ------ *)
Definition upd_ok (t : Z) (ups : list Z) : Prop := StronglySorted Z.le ups /\ Forall (fun u => u <= t) ups.
Definition TInv (t : Z) (st : logger) : Prop := Forall (fun e => upd_ok t (e_upd e)) (l_entries st).

Definition end_time (t0 : Z) (ops : list op) : Z := fold_left (fun _ o => op_time o) ops t0.

Lemma drop_before_sorted cut ups : StronglySorted Z.le ups -> StronglySorted Z.le (drop_before cut ups).
Proof.
  induction 1 as [|t r SS IH F]; cbn [drop_before]; [constructor|].
  destruct (t <? cut); auto. now constructor.
Qed.

Lemma drop_before_Forall (P : Z -> Prop) cut ups : Forall P ups -> Forall P (drop_before cut ups).
Proof.
  induction 1 as [|t r Ht F IH]; cbn [drop_before]; [constructor|].
  destruct (t <? cut); auto.
Qed.

Lemma drop_before_filter cut ups : StronglySorted Z.le ups ->
  drop_before cut ups = filter (fun u => negb (u <? cut)) ups.
Proof.
  induction 1 as [|t r SS IH F]; cbn [drop_before filter]; [reflexivity|].
  destruct (Z.ltb_spec t cut) as [L|L]; cbn [negb]; [exact IH|].
  f_equal. symmetry. apply filter_all_true. intros u Hu. rewrite Forall_forall in F.
  specialize (F u Hu). apply negb_true_iff. apply Z.ltb_ge. lia.
Qed.

Lemma StronglySorted_snoc l x : StronglySorted Z.le l -> Forall (fun u => u <= x) l ->
  StronglySorted Z.le (l ++ [x]).
Proof.
  induction 1 as [|a r SS IH F]; intros B; cbn [app]; [repeat constructor|].
  inversion B as [|? ? Ba Br]; subst. constructor; auto.
  apply Forall_app. split; auto.
Qed.

Lemma upd_ok_weaken t t' ups : t <= t' -> upd_ok t ups -> upd_ok t' ups.
Proof. intros L [S B]. split; auto. eapply Forall_impl; [|exact B]. intros; cbv beta in *; lia. Qed.

Lemma TInv_weaken t t' st : t <= t' -> TInv t st -> TInv t' st.
Proof. intros L T. eapply Forall_impl; [|exact T]. intros e. now apply upd_ok_weaken. Qed.

Lemma expire_TInv c st now t : TInv t st -> TInv t (expire c st now).
Proof.
  intros T. unfold TInv. rewrite expire_entries. apply Forall_forall. intros e He.
  apply filter_In in He as [He _]. apply in_map_iff in He as (e0 & <- & He0).
  unfold TInv in T. rewrite Forall_forall in T. destruct (T e0 He0) as [S B].
  split; cbn [cut_entry e_upd]; auto using drop_before_sorted, drop_before_Forall.
Qed.

Lemma printf_case_TInv c st now key tb r t st' : TInv t st -> t <= now ->
  printf_case c st now key tb r -> r = Ok st' -> TInv now st'.
Proof.
  intros T L PC E. pose proof (TInv_weaken _ _ _ L (expire_TInv c st now t T)) as T1.
  unfold TInv in *. rewrite Forall_forall in T1.
  destruct PC as [G|G Hin|order n G Hnot P SS Ln Fit Min _]; injection E as <-; cbn [l_entries].
  - now apply Forall_forall.
  - apply Forall_forall. intros e He. unfold add_update in He. apply in_map_iff in He as (e0 & <- & He0).
    destruct (T1 e0 He0) as [S B]. destruct (line_eqb (e_line e0) key); [|split; auto].
    cbn [e_upd]. split.
    + now apply StronglySorted_snoc.
    + apply Forall_app. split; auto. repeat constructor. lia.
  - unfold stored; cbn [l_entries]. apply Forall_app. split.
    + apply Forall_forall. intros e He. apply filter_In in He as [He _]. auto.
    + repeat constructor. cbn. lia.
Qed.

Lemma step_TInv c st o st' d t : Inv c st -> op_ok o -> TInv t st -> t <= op_time o ->
  step c st o = Ok (st', d) -> TInv (op_time o) st'.
Proof.
  intros I Ho T L. destruct o as [now l tb|now|now tb]; unfold step, step_gen; cbn [op_time] in *.
  - fold (printf c st now l tb). destruct (printf c st now l tb) as [s|] eqn:E; [|discriminate].
    intros H; injection H as <- <-. destruct (truncate c l) as [key|] eqn:Ht.
    + pose proof (printf_cases c st now l tb key I Ho Ht) as PC. rewrite E in PC.
      exact (printf_case_TInv c st now key tb (Ok s) t s T L PC eq_refl).
    + unfold printf, printf_gen in E. rewrite Ht in E. discriminate.
  - intros H; injection H as <- <-. apply (TInv_weaken t); auto. now apply expire_TInv.
  - destruct (dump_spec c st now tb I Ho) as (order & E & _). fold (dump c st now tb). rewrite E.
    intros H; injection H as <- <-. apply (TInv_weaken t); auto. now apply expire_TInv.
Qed.

Lemma run_TInv c ops : forall st st' t, Inv c st -> Forall op_ok ops -> TInv t st ->
  nondecreasing_from t ops -> run c st ops = Ok st' -> TInv (end_time t ops) st'.
Proof.
  induction ops as [|o r IH]; intros st st' t I F T ND; cbn [run run_gen end_time fold_left].
  - intros H; injection H as <-. exact T.
  - inversion F as [|? ? Ho Fr]; subst. destruct ND as [L ND]. fold (step c st o).
    destruct (step c st o) as [[s d]|] eqn:E; [|discriminate]. fold (run c s r).
    fold (end_time (op_time o) r). apply IH; eauto using step_inv, step_TInv.
Qed.

Lemma last_opt_max l k : StronglySorted Z.le l -> last_opt l = Some k -> Forall (fun u => u <= k) l.
Proof.
  induction 1 as [|a r SS IH F]; [constructor|]. cbn [last_opt]. destruct r as [|b r'].
  - intros H; injection H as <-. repeat constructor. lia.
  - intros H. specialize (IH H). constructor; auto.
    inversion F as [|? ? Hab _]; subst. inversion IH; subst. lia.
Qed.

Lemma updates_sorted c ops st t0 : Forall op_ok ops -> nondecreasing_from t0 ops ->
  run c init ops = Ok st ->
  Forall (fun e => StronglySorted Z.le (e_upd e) /\
                   Forall (fun u => u <= end_time t0 ops) (e_upd e) /\
                   forall k, last_opt (e_upd e) = Some k -> Forall (fun u => u <= k) (e_upd e))
         (l_entries st).
Proof.
  intros F ND H. assert (T0 : TInv t0 init) by constructor.
  pose proof (run_TInv c ops _ _ _ (inv_init c) F T0 ND H) as T.
  eapply Forall_impl; [|exact T]. intros e [S B]. repeat split; auto. intros k. now apply last_opt_max.
Qed.

(* with ascending update lists ExpireLogs removes exactly the stamps before now - expiry *)
Definition cut_entry_exact (cut : Z) (e : entry) : entry :=
  {| e_line := e_line e; e_upd := filter (fun u => negb (u <? cut)) (e_upd e) |}.

Lemma expire_exact c ops st t0 now : Forall op_ok ops -> nondecreasing_from t0 ops ->
  run c init ops = Ok st ->
  l_entries (expire c st now) = filter has_upd (map (cut_entry_exact (now - c_expiry c)) (l_entries st)).
Proof.
  intros F ND H. pose proof (updates_sorted c ops st t0 F ND H) as U. rewrite expire_entries.
  f_equal. apply map_ext_in. intros e He. rewrite Forall_forall in U. destruct (U e He) as [S _].
  unfold cut_entry, cut_entry_exact. f_equal. now apply drop_before_filter.
Qed.

(* ---- ties: with pairwise different last updates the order does not depend on the tie-break *)
Lemma keyed_perm a b : Permutation a b -> forall ka, keyed a = Ok ka ->
  exists kb, keyed b = Ok kb /\ Permutation ka kb.
Proof.
  induction 1 as [|x l l' P IH|x y l|l l' l'' P1 IH1 P2 IH2]; intros ka H.
  - exists ka. auto.
  - cbn [keyed] in *. destruct (last_opt (e_upd x)) as [k|]; [|discriminate].
    destruct (keyed l) as [kl|]; [|discriminate]. injection H as <-.
    destruct (IH kl eq_refl) as (kb & -> & Pk). eauto.
  - cbn [keyed] in *. destruct (last_opt (e_upd y)) as [ky|]; [|discriminate].
    destruct (last_opt (e_upd x)) as [kx|]; [|discriminate].
    destruct (keyed l) as [kl|]; [|discriminate]. injection H as <-.
    eexists; split; [reflexivity|apply perm_swap].
  - destruct (IH1 ka H) as (k' & H' & Pk'). destruct (IH2 k' H') as (k'' & H'' & Pk'').
    exists k''. split; auto. eapply Permutation_trans; eauto.
Qed.

Lemma sorted_unique (l1 : list (Z * entry)) : forall l2,
  StronglySorted key_le l1 -> StronglySorted key_le l2 -> Permutation l1 l2 ->
  NoDup (map fst l1) -> l1 = l2.
Proof.
  induction l1 as [|a r1 IH]; intros l2 S1 S2 P ND.
  - apply Permutation_nil in P. auto.
  - destruct l2 as [|b r2]; [apply Permutation_sym, Permutation_nil in P; discriminate|].
    inversion S1 as [|? ? S1' F1]; subst. inversion S2 as [|? ? S2' F2]; subst.
    cbn [map] in ND. inversion ND as [|? ? Hn ND']; subst.
    assert (E : a = b).
    { pose proof (Permutation_in a P (or_introl eq_refl)) as [Ha|Ha]; auto.
      pose proof (Permutation_in b (Permutation_sym P) (or_introl eq_refl)) as [Hb|Hb]; auto.
      rewrite Forall_forall in F1, F2. pose proof (F1 b Hb) as L1. pose proof (F2 a Ha) as L2.
      unfold key_le in *. exfalso. apply Hn. replace (fst a) with (fst b) by lia. now apply in_map. }
    subst b. f_equal. apply IH; auto. eapply Permutation_cons_inv; eauto.
Qed.

Lemma key_ok_map k : Forall key_ok k ->
  map (fun p => Some (fst p)) k = map (fun e => last_opt (e_upd e)) (map snd k).
Proof.
  induction 1 as [|p k Hp F IH]; [reflexivity|]. cbn [map]. rewrite IH. unfold key_ok in Hp. now rewrite Hp.
Qed.

Lemma tie_break_irrelevant tb1 tb2 es : tb_ok tb1 -> tb_ok tb2 ->
  NoDup (map (fun e => last_opt (e_upd e)) es) ->
  update_order tb1 es = update_order tb2 es.
Proof.
  intros H1 H2 ND. assert (P12 : Permutation (tb1 es) (tb2 es)).
  { eapply Permutation_trans; [apply H1|apply Permutation_sym, H2]. }
  unfold update_order. destruct (keyed (tb1 es)) as [k1|] eqn:E1.
  - destruct (keyed_perm _ _ P12 _ E1) as (k2 & E2 & Pk). rewrite E2. f_equal. f_equal.
    apply sorted_unique; auto using sort_keyed_sorted.
    + eapply Permutation_trans; [apply sort_keyed_perm|].
      eapply Permutation_trans; [exact Pk|apply Permutation_sym, sort_keyed_perm].
    + destruct (keyed_inv _ _ E1) as [M KO].
      apply (Permutation_NoDup (l := map fst k1)); [apply Permutation_map, Permutation_sym, sort_keyed_perm|].
      apply (NoDup_map_inv Some). rewrite map_map. rewrite (key_ok_map _ KO), M.
      eapply Permutation_NoDup; [|exact ND]. apply Permutation_map, Permutation_sym, H1.
  - destruct (keyed (tb2 es)) as [k2|] eqn:E2; auto.
    destruct (keyed_perm _ _ (Permutation_sym P12) _ E2) as (k1 & E1' & _). congruence.
Qed.

(* ---- the code before the repair: ExpireLogs left the counter alone -------- *)
Lemma tb_id_ok : tb_ok tb_id.
Proof. intros l. apply Permutation_refl. Qed.

Lemma old_expiry_refuted : exists c ops,
  0 <= c_maxline c /\ Forall op_ok ops /\ nondecreasing_from 0 ops /\ run_gen false c init ops = Panic.
Proof.
  exists {| c_expiry := 3; c_max := 16; c_maxline := 8 |},
    [OPrintf 2 (repeat Byte.x41 8) tb_id; OPrintf 8 (repeat Byte.x42 8) tb_id].
  split; [cbn; lia|]. split; [repeat constructor; apply tb_id_ok|].
  split; [cbn; lia|]. vm_compute. reflexivity.
Qed.
