(* Model of the report loop of client/reports.go:
     launchSendReports      (start-up: save every record, send nothing)
     threadedSendReports    (one tick: save, then send what is newer than latestRecord)
     staticSendReport       (sign + serialize; the datagram)
   and of the retransmission arithmetic of threadedSyncWithServer
     (load the uint32 from the history, uint64(int32(x)), staticSendReport).
   Definitions only; proofs are in ClientReports_lemmas.v. *)
From Coq Require Import ZArith List Bool.
From GCA Require Import Wrap Bytes Codec ClientHistory.
Import ListNotations.
Open Scope Z_scope.

(* EnergyRecord{Timeslot uint32, Energy uint64} *)
Record erec := { rc_ts : Z; rc_en : Z }.

Definition erec_ok (r : erec) : Prop := is_u32 (rc_ts r) /\ is_u64 (rc_en r).

(* the readings for which uint64(int32(uint32(e))) = e: they fit 32 signed bits
   (two's complement in the uint64) *)
Definition fits32 (e : Z) : Prop := u64 (i32 (u32 e)) = e.
Definition fits32b (e : Z) : bool := u64 (i32 (u32 e)) =? e.

(* what the device puts on the wire: (timeslot, power) of a signed report *)
Definition emission := (Z * Z)%type.

Record cstate := { cs_hist : history; cs_latest : Z }.

Section Loop.
  Variable origin : Z.                   (* c.staticHistoryOffset *)

  (* ---- one record of one tick:
        err := c.staticSaveReading(record.Timeslot, uint32(record.Energy)); if err != nil { continue }
        if record.Timeslot > latestRecord { c.staticSendReport(gcas, record) }
     state threaded through the loop: history, emissions so far, accepted saves so far *)
  Definition tick_rec (latest : Z) (st : history * list emission * list (Z * Z)) (r : erec)
    : history * list emission * list (Z * Z) :=
    let '(h, out, acc) := st in
    match save_reading h origin (rc_ts r) (u32 (rc_en r)) with
    | Err => (h, out, acc)
    | Ok h' => (h', (if latest <? rc_ts r then out ++ [(rc_ts r, rc_en r)] else out),
                acc ++ [(rc_ts r, u32 (rc_en r))])
    end.

  (* second loop of the tick: every record (saved or not) advances latestRecord *)
  Definition bump_latest (latest : Z) (recs : list erec) : Z :=
    fold_left (fun l r => if l <? rc_ts r then rc_ts r else l) recs latest.

  (* ---- start-up: save; on success advance latestRecord; nothing is sent *)
  Definition startup_rec (st : history * Z * list (Z * Z)) (r : erec) : history * Z * list (Z * Z) :=
    let '(h, latest, acc) := st in
    match save_reading h origin (rc_ts r) (u32 (rc_en r)) with
    | Err => (h, latest, acc)
    | Ok h' => (h', (if latest <? rc_ts r then rc_ts r else latest), acc ++ [(rc_ts r, u32 (rc_en r))])
    end.

  (* ---- retransmission of one slot during a sync:
        powerOutput, err := c.staticLoadReading(slot); if err != nil || powerOutput < 2 { continue }
        Energy: uint64(int32(powerOutput)) *)
  Definition sync_resend (h : history) (t : Z) : option emission :=
    match load_reading h origin t with
    | Err => None
    | Ok x => if x <? 2 then None else Some (t, u64 (i32 x))
    end.

  (* ---- events of a device's life.  An unreadable energy file is [Tick []] / [Restart []]. *)
  Inductive ev :=
  | Tick (recs : list erec)        (* one iteration of threadedSendReports on these records *)
  | Restart (recs : list erec)     (* process restart: launchSendReports on these records; latestRecord starts at 0 *)
  | Resend (t : Z).                (* the sync loop retransmits slot t (slot chosen by the server's reply) *)

  Record trace := { tr_st : cstate; tr_out : list emission; tr_acc : list (Z * Z) }.

  Definition step (x : trace) (e : ev) : trace :=
    match e with
    | Tick recs =>
        let '(h, out, acc) :=
          fold_left (tick_rec (cs_latest (tr_st x))) recs (cs_hist (tr_st x), tr_out x, tr_acc x) in
        {| tr_st := {| cs_hist := h; cs_latest := bump_latest (cs_latest (tr_st x)) recs |};
           tr_out := out; tr_acc := acc |}
    | Restart recs =>
        let '(h, latest, acc) := fold_left startup_rec recs (cs_hist (tr_st x), 0, tr_acc x) in
        {| tr_st := {| cs_hist := h; cs_latest := latest |}; tr_out := tr_out x; tr_acc := acc |}
    | Resend t =>
        match sync_resend (cs_hist (tr_st x)) t with
        | Some e => {| tr_st := tr_st x; tr_out := tr_out x ++ [e]; tr_acc := tr_acc x |}
        | None => x
        end
    end.

  Definition run (h0 : history) (evs : list ev) : trace :=
    fold_left step evs {| tr_st := {| cs_hist := h0; cs_latest := 0 |}; tr_out := []; tr_acc := [] |}.

  (* the first accepted non-zero reading of a slot *)
  Fixpoint first_accepted (acc : list (Z * Z)) (t : Z) : option Z :=
    match acc with
    | [] => None
    | (t', v) :: acc' => if (t' =? t) && negb (v =? 0) then Some v else first_accepted acc' t
    end.

  Definition ev_ok (e : ev) : Prop :=
    match e with
    | Tick recs | Restart recs => Forall erec_ok recs
    | Resend t => is_u32 t
    end.
  Definition ev_fits (e : ev) : Prop :=
    match e with
    | Tick recs | Restart recs => Forall (fun r => fits32 (rc_en r)) recs
    | Resend _ => True
    end.
End Loop.

(* ---- the datagram: staticSendReport ------------------------------------- *)
Section Wire.
  Variable sign : bytes -> bytes.        (* glow.Sign(_, c.staticPrivKey): a function of the message *)
  Variable short_id : Z.                 (* c.shortID *)

  Definition datagram (e : emission) : bytes :=
    let r := {| r_id := short_id; r_ts := fst e; r_p := snd e; r_sig := [] |} in
    report_serialize {| r_id := short_id; r_ts := fst e; r_p := snd e;
                        r_sig := sign (report_signing_bytes r) |}.

  (* reading the fields back from the 80 bytes on the wire *)
  Definition dg_slot (d : bytes) : Z := le_dec (slice 4 4 d).
  Definition dg_power (d : bytes) : Z := le_dec (slice 8 8 d).

  Definition datagrams (origin : Z) (h0 : history) (evs : list ev) : list bytes :=
    map datagram (tr_out (run origin h0 evs)).
End Wire.
