#!/bin/sh
# Offline setup: build the harness, regenerate coq/gen from /repo, build the whole Coq development (full .vo).
set -e
cd "$(dirname "$0")"
export GOFLAGS=-mod=mod GOPROXY=off GOSUMDB=off GOTOOLCHAIN=local
mkdir -p .build coq/gen evidence replay
cp /repo/go.sum harness/go.sum
(cd harness && go build -tags verif -o ../.build/vh_prod ./cmd/vh && go build -tags "test verif" -o ../.build/vh_test ./cmd/vh)
G=$(mktemp -d)
./.build/vh_prod -out "$G" consts >/dev/null
./.build/vh_test -out "$G" consts >/dev/null
for t in layouts skeletons; do ./.build/vh_test -out "$G" $t >/dev/null 2>&1 || true; done
for f in "$G"/*.v; do cmp -s "$f" coq/gen/$(basename "$f") || cp "$f" coq/gen/; done
rm -rf "$G"
./mkcoqproject.sh
cd coq
timeout 3000 make -j16 2>&1 | grep -v '^Warning' | tail -5
echo setup done
