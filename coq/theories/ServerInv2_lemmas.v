(* Preservation of the server invariant by every operation except restart, and
   absence of Panic outcomes from invariant states. *)
From Coq Require Import ZArith List Bool Lia.
From GCA Require Import Wrap Bytes Bytes_lemmas Codec Amap Amap_lemmas Timeslot Timeslot_lemmas Server ServerInv ServerC01_lemmas ServerInv_lemmas.
Import ListNotations.
Open Scope Z_scope.
Set Default Proof Using "Type".
Notation length := List.length.

Section InvV.
  Variable verify : bytes -> bytes -> bytes -> bool.

  (* ---------------------------------------------------------- datagrams *)
  Lemma udp_inv st now d :
    MemInv (mm st) ->
    MemInv (mm (fst (udp_receive verify st now d))) /\ snd (udp_receive verify st now d) = Quiet.
  Proof.
    intros I. unfold udp_receive.
    destruct (Nat.ltb (length d) 80); [split; [exact I | reflexivity]|].
    unfold handle_report, parse_report.
    destruct (report_decode (firstn 80 d)) as [r|] eqn:D; [|split; [exact I | reflexivity]].
    destruct (zget (r_id r) (equipment (mm st))) as [a|] eqn:Q; [|split; [exact I | reflexivity]].
    destruct (verify (a_key a) (report_signing_bytes r) (r_sig r)); [|split; [exact I | reflexivity]].
    destruct (negb (accept_go accept_half (r_ts r) now)); [split; [exact I | reflexivity]|].
    destruct (Z.eqb_spec (r_p r) 0) as [P0|P0]; cbn [orb]; [split; [exact I | reflexivity]|].
    destruct (r_p r =? 1); [split; [exact I | reflexivity]|].
    apply report_decode_some in D. destruct D as (_ & _ & Hts & _).
    apply (integrate_inv st r a I Q P0). lia.
  Qed.

  (* ---------------------------------------------------------- registration *)
  Lemma register_inv st k s :
    MemInv (mm st) ->
    MemInv (mm (fst (register verify st k s))) /\ snd (register verify st k s) <> Panic.
  Proof.
    intros I. unfold register.
    destruct (gca_avail (mm st)); [split; [exact I | discriminate]|].
    destruct (negb (verify (tempkey (mm st)) (reg_signing_bytes k) s)); [split; [exact I | discriminate]|].
    cbn [fst snd mm]. split; [|discriminate].
    destruct I. constructor; cbn [with_gca offset history equipment reports impact bans index gca_avail]; try assumption.
    discriminate.
  Qed.

End InvV.

Section InvE.
  (* ---------------------------------------------------------- equipment *)
  Lemma add_device_inv m0 a :
    MemInv m0 -> gca_avail m0 = true -> zget (a_id a) (equipment m0) = None -> zin (a_id a) (bans m0) = false ->
    MemInv (add_device m0 a).
  Proof.
    intros [Hlo Hhi Hoh Hht Hdr Hdi Hb Hid Hw Hix Hng] Hg Hn Hnb.
    constructor; cbn [add_device offset history equipment reports impact bans index gca_avail]; try assumption.
    - intros id. rewrite !zmem_zset, Hdr. reflexivity.
    - intros id. rewrite !zmem_zset, Hdi. reflexivity.
    - intros id B. rewrite zget_zset. destruct (Z.eqb_spec id (a_id a)) as [->|N]; [congruence | apply Hb; exact B].
    - intros id a' G. rewrite zget_zset in G. destruct (Z.eqb_spec id (a_id a)) as [->|N];
        [inversion G; reflexivity | apply Hid; exact G].
    - intros id w G. rewrite zget_zset in G. destruct (Z.eqb_spec id (a_id a)) as [->|N].
      + inversion G; subst. intros i r Gi. cbn in Gi. discriminate.
      + apply Hw; exact G.
    - intros k id G. rewrite bget_bset in G. rewrite zget_zset.
      destruct (bytes_eqb k (a_key a)) eqn:E.
      + inversion G; subst id. rewrite Z.eqb_refl. exists a. split; [reflexivity|].
        apply bytes_eqb_eq in E. congruence.
      + destruct (Hix _ _ G) as (a' & Ga & Ka). destruct (Z.eqb_spec id (a_id a)) as [->|N].
        * congruence.
        * exists a'. split; assumption.
    - congruence.
  Qed.

  Lemma ban_device_inv m0 id cur :
    MemInv m0 -> gca_avail m0 = true -> zget id (equipment m0) = Some cur ->
    MemInv (ban_device m0 id cur).
  Proof.
    intros [Hlo Hhi Hoh Hht Hdr Hdi Hb Hid Hw Hix Hng] Hg Hc.
    constructor; cbn [ban_device offset history equipment reports impact bans index gca_avail]; try assumption.
    - intros i. rewrite !zmem_zdel, Hdr. reflexivity.
    - intros i. rewrite !zmem_zdel, Hdi. reflexivity.
    - intros i B. rewrite zget_zdel. destruct (Z.eqb_spec i id) as [->|N]; [reflexivity|].
      apply Hb. unfold zin in *. cbn [existsb] in B. destruct (Z.eqb_spec i id); [contradiction | exact B].
    - intros i a' G. rewrite zget_zdel in G. destruct (i =? id); [discriminate | apply Hid; exact G].
    - intros i w G. rewrite zget_zdel in G. destruct (i =? id); [discriminate | apply Hw; exact G].
    - intros k i G.
      assert (G0 : bget k (index m0) = Some i /\ ~ (i = id)).
      { destruct (bget (a_key cur) (index m0)) as [j|] eqn:J.
        - destruct (Z.eqb_spec j id) as [->|Nj].
          + rewrite bget_bdel in G. destruct (bytes_eqb k (a_key cur)) eqn:E; [discriminate|].
            split; [exact G|]. intros ->. destruct (Hix _ _ G) as (a' & Ga & Ka).
            rewrite Hc in Ga. inversion Ga; subst a'. rewrite Ka, bytes_eqb_refl in E. discriminate.
          + split; [exact G|]. intros ->. destruct (Hix _ _ G) as (a' & Ga & Ka).
            rewrite Hc in Ga. inversion Ga; subst a'. subst k. rewrite J in G. inversion G. contradiction.
        - split; [exact G|]. intros ->. destruct (Hix _ _ G) as (a' & Ga & Ka).
          rewrite Hc in Ga. inversion Ga; subst a'. subst k. rewrite J in G. discriminate. }
      destruct G0 as [G0 Ni]. destruct (Hix _ _ G0) as (a' & Ga & Ka).
      exists a'. split; [|exact Ka]. rewrite zget_zdel. destruct (Z.eqb_spec i id); [contradiction | exact Ga].
    - congruence.
  Qed.

End InvE.

Section InvA.
  Variable verify : bytes -> bytes -> bytes -> bool.
  Lemma authorize_inv st a :
    MemInv (mm st) ->
    MemInv (mm (fst (authorize verify st a))) /\ snd (authorize verify st a) <> Panic.
  Proof.
    intros I. unfold authorize.
    destruct (gca_avail (mm st)) eqn:Hg; cbn [negb]; [|split; [exact I | discriminate]].
    destruct (negb (verify (gca (mm st)) (auth_signing_bytes a) (a_sig a))); [split; [exact I | discriminate]|].
    unfold save_equipment.
    destruct (zin (a_id a) (bans (mm st))) eqn:B; [split; [exact I | discriminate]|].
    destruct (zget (a_id a) (equipment (mm st))) as [cur|] eqn:Q.
    - destruct (auth_go_eq cur a); [split; [exact I | discriminate]|].
      destruct (d_auths (dd st)); [|split; [exact I | discriminate]].
      cbn [fst snd mm]. split; [apply ban_device_inv; assumption | discriminate].
    - destruct (d_auths (dd st)); [|split; [exact I | discriminate]].
      cbn [fst snd mm]. split; [apply add_device_inv; assumption | discriminate].
  Qed.

End InvA.

Lemma nth_error_snoc {A} (l : list A) x k y :
  nth_error (l ++ [x]) k = Some y ->
  (nth_error l k = Some y) \/ (k = length l /\ y = x).
Proof.
  intros H. destruct (Nat.lt_ge_cases k (length l)) as [L|G].
  - rewrite nth_error_app1 in H by exact L. left; exact H.
  - rewrite nth_error_app2 in H by exact G.
    destruct (k - length l)%nat as [|n] eqn:E.
    + cbn in H. inversion H. right. split; [lia | reflexivity].
    + cbn in H. destruct n; discriminate.
Qed.


Section InvS.
  Variable sign : bytes -> bytes -> bytes.
  Variable stats_sb : list devstat -> Z -> bytes.
  (* ---------------------------------------------------------- statistics, rotation *)
  Lemma build_devs_ok m0 x l :
    (forall id w, In (id, w) l -> zmem id (impact m0) = true) ->
    exists ds, build_devs m0 x l = Some ds.
  Proof.
    induction l as [|[id w] l IH]; intros H; cbn [build_devs]; [eauto|].
    assert (Hi : zmem id (impact m0) = true) by (apply (H id w); left; reflexivity).
    apply zmem_true_get in Hi. destruct Hi as [rt Hr]. rewrite Hr.
    destruct IH as [ds Hds]; [intros i w' I'; apply (H i w'); right; exact I'|].
    rewrite Hds. eauto.
  Qed.

  Lemma build_stats_no_panic m0 tso : MemInv m0 -> build_stats sign stats_sb m0 tso <> BPanic.
  Proof.
    intros I. unfold build_stats.
    destruct (negb (tso mod week_len =? 0)); [discriminate|].
    destruct (tso <? offset m0); [discriminate|].
    destruct (u32 (offset m0 + week_len) <? tso); [discriminate|].
    destruct (build_devs_ok m0 (if tso =? u32 (offset m0 + week_len) then week_len else 0) (zsort (reports m0))) as [ds E].
    - intros id w H. apply (proj1 (In_zsort _ _)) in H. apply In_zmem in H.
      rewrite (i_dom_imp _ I), <- (i_dom_rep _ I). exact H.
    - rewrite E. discriminate.
  Qed.

  Lemma build_stats_at_offset m0 : MemInv m0 ->
    exists s, build_stats sign stats_sb m0 (offset m0) = BOk s /\ st_tso s = offset m0.
  Proof.
    intros I. pose proof (build_stats_no_panic m0 (offset m0) I) as NP.
    unfold build_stats in *. destruct I as [Hlo Hhi Hoh _ _ _ _ _ _ _ _].
    assert (M : offset m0 mod week_len = 0).
    { rewrite Hoh. unfold week_len. rewrite Z.mul_comm. apply Z.mod_mul. lia. }
    rewrite M in *. cbn [Z.eqb negb] in *.
    rewrite Z.ltb_irrefl in *.
    rewrite (u32_id (offset m0 + week_len)) in * by (unfold is_u32, week_len; lia).
    destruct (Z.ltb_spec (offset m0 + week_len) (offset m0)) as [L|L]; [unfold week_len in L; lia|].
    destruct (build_devs m0 _ (zsort (reports m0))) as [ds|]; [|congruence].
    eexists. split; [reflexivity | reflexivity].
  Qed.

  Lemma stats_query_inv st tso :
    MemInv (mm st) -> 0 <= tso ->
    fst (stats_query sign stats_sb st tso) = st /\ snd (stats_query sign stats_sb st tso) <> Panic.
  Proof.
    intros I Ht. unfold stats_query.
    destruct (Z.eqb_spec (tso mod week_len) 0) as [M|M]; cbn [negb]; [|split; [reflexivity | discriminate]].
    destruct (Z.ltb_spec tso (offset (mm st))) as [L|L].
    - destruct (nth_error (history (mm st)) (Z.to_nat (tso / week_len))) eqn:N; [split; [reflexivity | discriminate]|].
      exfalso. apply nth_error_None in N. rewrite (i_off_hist _ I) in L. unfold week_len in *.
      assert (tso / 2016 < Z.of_nat (length (history (mm st)))) by (apply Z.div_lt_upper_bound; lia).
      assert (0 <= tso / 2016) by (apply Z.div_pos; lia). lia.
    - pose proof (build_stats_no_panic (mm st) tso I) as NP.
      destruct (build_stats sign stats_sb (mm st) tso); [split; [reflexivity | discriminate] | split; [reflexivity | discriminate] | congruence].
  Qed.

  Lemma rotate_inv st :
    MemInv (mm st) -> offset (mm st) + week_len <= 2^32 - 8192 ->
    MemInv (mm (fst (rotate sign stats_sb st))) /\ snd (rotate sign stats_sb st) = Quiet /\
    offset (mm (fst (rotate sign stats_sb st))) = offset (mm st) + week_len.
  Proof.
    intros I Hb. unfold rotate.
    destruct (build_stats_at_offset (mm st) I) as (s & E & Ts). rewrite E. cbn [fst snd mm].
    destruct I as [Hlo Hhi Hoh Hht Hdr Hdi Hbn Hid Hw Hix Hng].
    assert (U : u32 (offset (mm st) + week_len) = offset (mm st) + week_len)
      by (apply u32_id; unfold is_u32, week_len in *; lia).
    split; [|split; [reflexivity | cbn [offset]; exact U]].
    constructor; cbn [offset history equipment reports impact bans index gca_avail]; try assumption; rewrite ?U.
    - unfold week_len in *; lia.
    - exact Hb.
    - rewrite app_length. cbn [length]. rewrite Hoh. unfold week_len. lia.
    - intros k y N. apply nth_error_snoc in N. destruct N as [N|[-> ->]]; [apply Hht; exact N|].
      rewrite Ts. exact Hoh.
    - intros id. rewrite zmem_map_val. apply Hdr.
    - intros id. rewrite zmem_map_val. apply Hdi.
    - intros id w G. rewrite zget_map_val in G. apply option_map_some in G. destruct G as (w0 & G0 & ->). intros i r Gi. rewrite zget_shift in Gi.
      destruct (Z.leb_spec 0 i) as [P|P]; [|discriminate].
      destruct (Hw _ _ G0 _ _ Gi) as (R1 & R2 & R3 & R4). unfold window_len, week_len in *.
      repeat split; lia.
    - intros Hg. destruct (Hng Hg) as (E1 & E2 & E3 & E4 & E5). rewrite E3, E4. repeat split; assumption.
  Qed.

  Lemma rotation_exact_eq st : MemInv (mm st) -> offset (mm st) + week_len <= 2^32 - 8192 ->
    exists s, rotate sign stats_sb st =
      ({| mm := {| equipment := equipment (mm st); index := index (mm st); bans := bans (mm st);
                   reports := map (fun p => (fst p, shift_window (snd p))) (reports (mm st));
                   impact := map (fun p => (fst p, shift_window (snd p))) (impact (mm st));
                   offset := offset (mm st) + week_len; history := history (mm st) ++ [s];
                   gca := gca (mm st); gca_avail := gca_avail (mm st); tempkey := tempkey (mm st);
                   skeys := skeys (mm st) |};
          dd := disk_append_stats (dd st) s |}, Quiet).
  Proof.
    intros I Hb. destruct (build_stats_at_offset (mm st) I) as (s & E & Ts).
    exists s. unfold rotate. rewrite E.
    rewrite (u32_id (offset (mm st) + week_len)) by (pose proof (i_off_lo _ I); unfold is_u32, week_len in *; lia).
    reflexivity.
  Qed.

  Lemma rotate_tick_inv st now :
    MemInv (mm st) -> clock_ok now ->
    MemInv (mm (fst (rotate_tick sign stats_sb st now))) /\ snd (rotate_tick sign stats_sb st now) = Quiet.
  Proof.
    intros I C. unfold rotate_tick, rotate_trigger.
    pose proof (i_off_lo _ I). pose proof (i_off_hi _ I). unfold clock_ok in C.
    rewrite (i64_id now) by (unfold is_i64; lia). rewrite (i64_id (offset (mm st))) by (unfold is_i64; lia).
    destruct (Z.ltb_spec 3200 (now - offset (mm st))) as [T|T]; [|split; [exact I | reflexivity]].
    destruct (rotate_inv st I) as (I' & Q & _); [unfold week_len; lia|]. split; assumption.
  Qed.

  Lemma catch_up_inv fuel : forall st now,
    MemInv (mm st) -> clock_ok now ->
    (now - offset (mm st) < catchup_bound + week_len * Z.of_nat fuel) ->
    MemInv (mm (fst (catch_up sign stats_sb fuel st now))) /\ snd (catch_up sign stats_sb fuel st now) = Quiet /\
    now - offset (mm (fst (catch_up sign stats_sb fuel st now))) < catchup_bound.
  Proof.
    induction fuel as [|f IH]; intros st now I C F; cbn [catch_up];
      pose proof (i_off_lo _ I) as Hlo; pose proof (i_off_hi _ I) as Hhi; unfold clock_ok in C;
      rewrite (i64_id now) by (unfold is_i64; lia); rewrite (i64_id (offset (mm st))) by (unfold is_i64; lia);
      destruct (Z.ltb_spec (now - offset (mm st)) catchup_bound) as [L|L].
    - split; [exact I | split; [reflexivity | exact L]].
    - exfalso. unfold catchup_bound, week_len in *. lia.
    - split; [exact I | split; [reflexivity | exact L]].
    - destruct (rotate_inv st I) as (I' & Q & O); [unfold catchup_bound, week_len in *; lia|].
      destruct (rotate sign stats_sb st) as [st' o] eqn:R. cbn [fst snd] in *. subst o.
      apply IH; [exact I' | exact C|]. rewrite O. unfold week_len in *. lia.
  Qed.

End InvS.

Section InvI.
  (* ---------------------------------------------------------- impact *)
  Lemma impact_inv st id ts v :
    MemInv (mm st) ->
    MemInv (mm (fst (impact_write st id ts v))) /\ snd (impact_write st id ts v) = Quiet.
  Proof.
    intros I. unfold impact_write.
    destruct ((offset (mm st) <=? ts) && (u32 (ts - offset (mm st)) <? window_len)); [|split; [exact I | reflexivity]].
    destruct (zget id (impact (mm st))) as [rt|] eqn:Q; [|split; [exact I | reflexivity]].
    cbn [fst snd set_mem mm]. split; [|reflexivity].
    destruct I as [Hlo Hhi Hoh Hht Hdr Hdi Hbn Hid Hw Hix Hng].
    constructor; cbn [with_impact offset history equipment reports impact bans index gca_avail]; try assumption.
    - intros i. rewrite zmem_zset, <- Hdi. destruct (Z.eqb_spec i id) as [->|N]; cbn [orb]; [|reflexivity].
      symmetry. eapply zget_zmem; exact Q.
    - intros Hg. destruct (Hng Hg) as (_ & _ & _ & E4 & _). rewrite E4 in Q. discriminate.
  Qed.
End InvI.
