(* How the disk and the archive invariant evolve along histories (for C14). *)
From Coq Require Import ZArith List Bool Lia.
From GCA Require Import Wrap Bytes Bytes_lemmas Codec Amap Amap_lemmas Timeslot Server ServerInv ServerInv_lemmas ServerInv2_lemmas
                        ServerC02_lemmas ServerDisk ServerDisk_lemmas ServerDiskInv_lemmas ServerRestart_lemmas
                        ServerReach_lemmas ServerFull_lemmas ServerC01_lemmas Archive.
Import ListNotations.
Open Scope Z_scope.
Set Default Proof Using "Type".
Notation length := List.length.

Lemma first_auth_app id al l : first_auth id (al ++ l) = match first_auth id al with Some x => Some x | None => first_auth id l end.
Proof. induction al as [|a al IH]; cbn [app first_auth]; [reflexivity|]. destruct (a_id a =? id); [reflexivity | exact IH]. Qed.
Lemma first_auth_In id al x : first_auth id al = Some x -> In x al /\ a_id x = id.
Proof.
  induction al as [|a al IH]; cbn [first_auth]; [discriminate|].
  destruct (Z.eqb_spec (a_id a) id) as [E|E]; intros H.
  - inversion H; subst x. split; [left; reflexivity | exact E].
  - destruct (IH H) as [I1 I2]. split; [right; exact I1 | exact I2].
Qed.
Lemma first_auth_none id al : (forall x, In x al -> a_id x <> id) -> first_auth id al = None.
Proof.
  induction al as [|a al IH]; intros H; cbn [first_auth]; [reflexivity|].
  destruct (Z.eqb_spec (a_id a) id) as [E|E]; [exfalso; apply (H a); [left; reflexivity | exact E]|].
  apply IH. intros x Hx. apply H. right; exact Hx.
Qed.

Definition grows {A} (o o' : option (list A)) : Prop := exists l suf, o = Some l /\ o' = Some (l ++ suf).
Lemma grows_refl {A} (l : list A) : grows (Some l) (Some l).
Proof. exists l, []. rewrite app_nil_r. split; reflexivity. Qed.
Lemma grows_trans {A} (a b c : option (list A)) : grows a b -> grows b c -> grows a c.
Proof.
  intros (l1 & s1 & -> & ->) (l2 & s2 & E & ->). inversion E; subst l2.
  exists l1, (s1 ++ s2). rewrite app_assoc. split; reflexivity.
Qed.

Record evolves (st st' : state) : Prop := {
  v_auths : grows (d_auths (dd st)) (d_auths (dd st'));
  v_reports : grows (d_reports (dd st)) (d_reports (dd st'));
  v_stats : grows (d_stats (dd st)) (d_stats (dd st'));
  v_gca : forall k, d_gca (dd st) = Some k -> d_gca (dd st') = Some k;
  v_temp : d_temp (dd st') = d_temp (dd st);
  v_keys : d_keys (dd st') = d_keys (dd st);
  v_skeys : skeys (mm st') = skeys (mm st);
  v_gcam : gca_avail (mm st) = true -> gca_avail (mm st') = true /\ gca (mm st') = gca (mm st)
}.

Lemma evolves_trans a b c : evolves a b -> evolves b c -> evolves a c.
Proof.
  intros [A1 A2 A3 A4 A5 A6 A7 A8] [B1 B2 B3 B4 B5 B6 B7 B8]. constructor.
  - eapply grows_trans; eassumption.
  - eapply grows_trans; eassumption.
  - eapply grows_trans; eassumption.
  - intros k H. apply B4, A4, H.
  - congruence.
  - congruence.
  - congruence.
  - intros G. destruct (A8 G) as [G1 K1]. destruct (B8 G1) as [G2 K2]. split; [exact G2 | congruence].
Qed.

Section Evolve.
  Variable verify : bytes -> bytes -> bytes -> bool.
  Variable sign : bytes -> bytes -> bytes.
  Variable stats_sb : list devstat -> Z -> bytes.
  Local Notation ArchInv := (ArchInv verify sign stats_sb).

  Lemma disk_somes st : DiskInv verify st ->
    exists al rl, d_auths (dd st) = Some al /\ d_reports (dd st) = Some rl /\ d_stats (dd st) = Some (history (mm st)).
  Proof.
    intros [Kk Kt Kg Kgl Kgz Ks (al & Da & _) Kf (rl & Drl & _)]. exists al, rl. repeat split; assumption.
  Qed.

  Lemma evolves_refl st : DiskInv verify st -> evolves st st.
  Proof.
    intros D. destruct (disk_somes st D) as (al & rl & Da & Dr & Ds).
    constructor; try reflexivity; try (intros; assumption).
    - rewrite Da. apply grows_refl.
    - rewrite Dr. apply grows_refl.
    - rewrite Ds. apply grows_refl.
    - intros G. split; [exact G | reflexivity].
  Qed.

  (* ---- a recorded report *)
  Lemma integrate_arch st r a :
    Inv verify st -> ArchInv st ->
    zget (r_id r) (equipment (mm st)) = Some a -> verify (a_key a) (report_signing_bytes r) (r_sig r) = true ->
    evolves st (fst (integrate st r)) /\ ArchInv (fst (integrate st r)).
  Proof.
    intros [I D] A Qa V.
    pose proof (i_off_lo _ I) as Hlo. pose proof (i_off_hi _ I) as Hhi.
    assert (Qw : exists w, zget (r_id r) (reports (mm st)) = Some w).
    { apply zmem_true_get. rewrite (i_dom_rep _ I). eapply zget_zmem; exact Qa. }
    destruct Qw as [w Qw].
    rewrite (integrate_dev st r w a) by (try assumption; unfold window_len; lia).
    destruct (dev_records (offset (mm st)) w r); cbn [fst]; [|split; [apply evolves_refl; exact D | exact A]].
    destruct (disk_somes st D) as (al & rl & Da & Dr & Ds).
    split.
    - constructor; cbn [mm dd with_reports disk_append_report d_keys d_temp d_gca d_auths d_reports d_stats skeys gca gca_avail];
        try reflexivity; try (intros; assumption).
      + rewrite Da. apply grows_refl.
      + rewrite Dr. exists rl, [r]. split; reflexivity.
      + rewrite Ds. apply grows_refl.
      + intros G. split; [exact G | reflexivity].
    - destruct A as [A1 A2 A3 A4 A5].
      constructor; cbn [mm dd with_reports disk_append_report d_keys d_temp d_gca d_auths d_reports d_stats skeys equipment bans history];
        try assumption.
      intros al' rl' x Ea Er Hx. rewrite Dr in Er. inversion Er; subst rl'.
      apply in_app_or in Hx. destruct Hx as [Hx|[<-|[]]]; [apply (A3 al' rl x Ea Dr Hx)|].
      exists a. split; [apply (A1 al' _ _ Ea Qa) | exact V].
  Qed.

  Lemma udp_arch st now d : Inv verify st -> ArchInv st ->
    evolves st (fst (udp_receive verify st now d)) /\ ArchInv (fst (udp_receive verify st now d)).
  Proof.
    intros I A. pose proof (evolves_refl st (proj2 I)) as R. unfold udp_receive.
    destruct (Nat.ltb (length d) 80); [split; assumption|].
    unfold handle_report, parse_report.
    destruct (report_decode (firstn 80 d)) as [r|]; [|split; assumption].
    destruct (zget (r_id r) (equipment (mm st))) as [a|] eqn:Q; [|split; assumption].
    destruct (verify (a_key a) (report_signing_bytes r) (r_sig r)) eqn:V; [|split; assumption].
    destruct (negb _); [split; assumption|]. destruct (_ || _); [split; assumption|].
    apply (integrate_arch st r a I A Q V).
  Qed.

  (* ---- registration *)
  Lemma register_arch st k s : Inv verify st -> ArchInv st ->
    evolves st (fst (register verify st k s)) /\ ArchInv (fst (register verify st k s)).
  Proof.
    intros [I D] A. pose proof (evolves_refl st D) as R. unfold register.
    destruct (gca_avail (mm st)) eqn:G; [split; assumption|]. destruct (negb _); [split; assumption|]. cbn [fst].
    destruct (disk_somes st D) as (al & rl & Da & Dr & Ds).
    split.
    - constructor; cbn [mm dd with_gca disk_set_gca d_keys d_temp d_gca d_auths d_reports d_stats skeys gca gca_avail]; try reflexivity.
      + rewrite Da. apply grows_refl.
      + rewrite Dr. apply grows_refl.
      + rewrite Ds. apply grows_refl.
      + intros k0 H. rewrite (k_gca _ _ D), G in H. discriminate.
      + intros G'. congruence.
    - destruct A as [A1 A2 A3 A4 A5].
      constructor; cbn [mm dd with_gca disk_set_gca d_keys d_temp d_gca d_auths d_reports d_stats skeys equipment bans history]; assumption.
  Qed.

  (* ---- equipment *)
  Lemma authorize_arch st a : Inv verify st -> ArchInv st ->
    evolves st (fst (authorize verify st a)) /\ ArchInv (fst (authorize verify st a)).
  Proof.
    intros [I D] A. pose proof (evolves_refl st D) as R. unfold authorize.
    destruct (negb (gca_avail (mm st))); [split; assumption|]. destruct (negb (verify _ _ _)); [split; assumption|].
    unfold save_equipment. destruct (zin (a_id a) (bans (mm st))) eqn:B; [split; assumption|].
    destruct (disk_somes st D) as (al & rl & Da & Dr & Ds).
    destruct A as [A1 A2 A3 A4 A5].
    destruct (zget (a_id a) (equipment (mm st))) as [cur|] eqn:Q.
    - destruct (auth_go_eq cur a); [split; [exact R | constructor; assumption]|]. rewrite Da. cbn [fst].
      split.
      + constructor; cbn [mm dd ban_device disk_append_auth d_keys d_temp d_gca d_auths d_reports d_stats skeys gca gca_avail];
          rewrite ?Da; try reflexivity; try (intros; assumption).
        * exists al, [a]. split; reflexivity.
        * rewrite Dr. apply grows_refl.
        * rewrite Ds. apply grows_refl.
        * intros G. split; [exact G | reflexivity].
      + constructor; cbn [mm dd ban_device disk_append_auth d_keys d_temp d_gca d_auths d_reports d_stats skeys equipment bans history];
          rewrite ?Da; try assumption.
        * intros al' id x Ea Qe. inversion Ea; subst al'. rewrite zget_zdel in Qe.
          destruct (id =? a_id a); [discriminate|]. rewrite first_auth_app, (A1 al id x Da Qe). reflexivity.
        * intros al' x Ea Hx. inversion Ea; subst al'. apply in_app_or in Hx.
          destruct (Z.eq_dec (a_id x) (a_id a)) as [E|N].
          -- right. rewrite E. unfold zin. cbn [existsb]. rewrite Z.eqb_refl. reflexivity.
          -- destruct Hx as [Hx|[<-|[]]]; [|contradiction].
             destruct (A2 al x Da Hx) as [M|M]; [left; rewrite zmem_zdel; apply Z.eqb_neq in N; rewrite N; exact M|].
             right. unfold zin in *. cbn [existsb]. rewrite M. apply orb_true_r.
        * intros al' rl' x Ea Er Hx. inversion Ea; subst al'. destruct (A3 al rl' x Da Er Hx) as (y & Fy & Vy).
          exists y. split; [rewrite first_auth_app, Fy; reflexivity | exact Vy].
    - rewrite Da. cbn [fst].
      assert (Fresh : first_auth (a_id a) al = None).
      { apply first_auth_none. intros x Hx E. destruct (A2 al x Da Hx) as [M|M]; rewrite E in M.
        - unfold zmem in M. rewrite Q in M. discriminate.
        - congruence. }
      split.
      + constructor; cbn [mm dd add_device disk_append_auth d_keys d_temp d_gca d_auths d_reports d_stats skeys gca gca_avail];
          rewrite ?Da; try reflexivity; try (intros; assumption).
        * exists al, [a]. split; reflexivity.
        * rewrite Dr. apply grows_refl.
        * rewrite Ds. apply grows_refl.
        * intros G. split; [exact G | reflexivity].
      + constructor; cbn [mm dd add_device disk_append_auth d_keys d_temp d_gca d_auths d_reports d_stats skeys equipment bans history];
          rewrite ?Da; try assumption.
        * intros al' id x Ea Qe. inversion Ea; subst al'. rewrite zget_zset in Qe. rewrite first_auth_app.
          destruct (Z.eqb_spec id (a_id a)) as [->|N].
          -- inversion Qe; subst x. rewrite Fresh. cbn [first_auth]. rewrite Z.eqb_refl. reflexivity.
          -- rewrite (A1 al id x Da Qe). reflexivity.
        * intros al' x Ea Hx. inversion Ea; subst al'. apply in_app_or in Hx. destruct Hx as [Hx|[<-|[]]].
          -- destruct (A2 al x Da Hx) as [M|M]; [left; rewrite zmem_zset, M; apply orb_true_r | right; exact M].
          -- left. rewrite zmem_zset, Z.eqb_refl. reflexivity.
        * intros al' rl' x Ea Er Hx. inversion Ea; subst al'. destruct (A3 al rl' x Da Er Hx) as (y & Fy & Vy).
          exists y. split; [rewrite first_auth_app, Fy; reflexivity | exact Vy].
  Qed.

  (* ---- rotation *)
  Lemma rotate_arch st : Inv verify st -> ArchInv st -> offset (mm st) + week_len <= 2^32 - 8192 ->
    evolves st (fst (rotate sign stats_sb st)) /\ ArchInv (fst (rotate sign stats_sb st)).
  Proof.
    intros [I D] A Hb.
    destruct (build_stats_at_offset sign stats_sb (mm st) I) as (s & B & _).
    assert (Sg : st_sig s = sign (stats_sb (st_devs s) (st_tso s)) (snd (skeys (mm st)))).
    { clear - B. unfold build_stats in B. destruct (negb _); [discriminate|]. destruct (_ <? _); [discriminate|]. destruct (_ <? _); [discriminate|].
      destruct (build_devs _ _ _); [|discriminate]. inversion B; subst s. reflexivity. }
    unfold rotate. rewrite B. cbn [fst].
    destruct (disk_somes st D) as (al & rl & Da & Dr & Ds).
    split.
    - constructor; cbn [mm dd disk_append_stats d_keys d_temp d_gca d_auths d_reports d_stats skeys gca gca_avail]; try reflexivity; try (intros; assumption).
      + rewrite Da. apply grows_refl.
      + rewrite Dr. apply grows_refl.
      + rewrite Ds. exists (history (mm st)), [s]. split; reflexivity.
      + intros G. split; [exact G | reflexivity].
    - destruct A as [A1 A2 A3 A4 A5].
      constructor; cbn [mm dd disk_append_stats d_keys d_temp d_gca d_auths d_reports d_stats skeys equipment bans history]; try assumption.
      intros x Hx. apply in_app_or in Hx. destruct Hx as [Hx|[<-|[]]]; [apply A4; exact Hx | exact Sg].
  Qed.

  Lemma catch_up_arch k : forall st now, Inv verify st -> ArchInv st -> clock_ok now ->
    evolves st (fst (catch_up sign stats_sb k st now)) /\ ArchInv (fst (catch_up sign stats_sb k st now)).
  Proof.
    induction k as [|k IH]; intros st now [I D] A C; cbn [catch_up];
      pose proof (i_off_lo _ I) as Hlo; pose proof (i_off_hi _ I) as Hhi; unfold clock_ok in C;
      rewrite (i64_id now) by (unfold is_i64; lia); rewrite (i64_id (offset (mm st))) by (unfold is_i64; lia);
      destruct (Z.ltb_spec (now - offset (mm st)) catchup_bound) as [L|L]; cbn [fst];
      try (split; [apply evolves_refl; exact D | exact A]).
    assert (Hb : offset (mm st) + week_len <= 2 ^ 32 - 8192) by (unfold catchup_bound, week_len in *; lia).
    destruct (rotate_arch st (conj I D) A Hb) as [E1 A1].
    destruct (rotate_inv sign stats_sb st I Hb) as (I' & Q & O).
    pose proof (rotate_disk verify sign stats_sb st I D Hb) as D'.
    destruct (rotate sign stats_sb st) as [st' o] eqn:R. cbn [fst snd] in *. subst o.
    destruct (IH st' now (conj I' D') A1 C) as [E2 A2]. split; [eapply evolves_trans; eassumption | exact A2].
  Qed.

  (* ---- every operation *)
  Theorem step_arch st o : Inv verify st -> ArchInv st -> op_ok o ->
    evolves st (fst (step verify sign stats_sb st o)) /\ ArchInv (fst (step verify sign stats_sb st o)).
  Proof.
    intros I A K. destruct o as [now d|k s|a|tso|now|id ts v|fresh now]; cbn [step op_ok] in *.
    - apply udp_arch; assumption.
    - apply register_arch; assumption.
    - apply authorize_arch; assumption.
    - destruct (stats_query_inv sign stats_sb st tso (proj1 I) K) as [E _]. rewrite E. split; [apply evolves_refl, (proj2 I) | exact A].
    - unfold rotate_tick, rotate_trigger. destruct I as [I D].
      pose proof (i_off_lo _ I). pose proof (i_off_hi _ I). unfold clock_ok in K.
      rewrite (i64_id now) by (unfold is_i64; lia). rewrite (i64_id (offset (mm st))) by (unfold is_i64; lia).
      destruct (Z.ltb_spec 3200 (now - offset (mm st))) as [T|T]; [|split; [apply evolves_refl; exact D | exact A]].
      apply rotate_arch; [split; assumption | exact A | unfold week_len; lia].
    - unfold impact_write. destruct (_ && _); [|split; [apply evolves_refl, (proj2 I) | exact A]].
      destruct (zget id (impact (mm st))); [|split; [apply evolves_refl, (proj2 I) | exact A]]. cbn [fst set_mem].
      destruct (disk_somes st (proj2 I)) as (al & rl & Da & Dr & Ds). destruct A as [A1 A2 A3 A4 A5]. split.
      + constructor; cbn [set_mem mm dd with_impact skeys gca gca_avail]; try reflexivity; try (intros; assumption).
        * rewrite Da. apply grows_refl.
        * rewrite Dr. apply grows_refl.
        * rewrite Ds. apply grows_refl.
        * intros G. split; [exact G | reflexivity].
      + constructor; cbn [set_mem mm dd with_impact skeys equipment bans history]; assumption.
    - destruct I as [I D].
      destruct (load_spec_full verify st fresh I D) as (st1 & L & ME & I1 & D1 & K1 & K2 & K3 & K4 & K5 & rl & re & Dr & Dr1 & Sub).
      unfold restart. rewrite L.
      destruct (disk_somes st D) as (al & rl0 & Da & Dr0 & Ds). rewrite Dr in Dr0. inversion Dr0; subst rl0.
      destruct ME as [M1 M2 M3 M4 M5 M6 M7 M8 M9 M10 M11]. destruct A as [A1 A2 A3 A4 A5].
      assert (E1 : evolves st st1).
      { constructor; try congruence.
        - rewrite K4, Da. apply grows_refl.
        - rewrite Dr, Dr1. exists rl, re. split; reflexivity.
        - rewrite K5, Ds. apply grows_refl.
        - intros G. split; congruence. }
      assert (AI1 : ArchInv st1).
      { constructor.
        - intros al' id x Ea Qe. rewrite K4 in Ea. rewrite M7 in Qe. apply (A1 al' id x Ea Qe).
        - intros al' x Ea Hx. rewrite K4 in Ea. destruct (A2 al' x Ea Hx) as [M|M];
            [left; unfold zmem in *; rewrite M7; exact M | right; rewrite M9; exact M].
        - intros al' rl' x Ea Er Hx. rewrite K4 in Ea. rewrite Dr1 in Er. inversion Er; subst rl'.
          apply (A3 al' rl x Ea Dr). apply in_app_or in Hx. destruct Hx as [Hx|Hx]; [exact Hx | apply Sub; exact Hx].
        - intros x Hx. rewrite M2 in Hx. rewrite M6. apply A4; exact Hx.
        - rewrite M6. exact A5. }
      destruct (catch_up_arch (catchup_fuel now) st1 now (conj I1 D1) AI1 K) as [E2 A2'].
      split; [eapply evolves_trans; eassumption | exact A2'].
  Qed.

  Theorem run_arch ops : forall st, Inv verify st -> ArchInv st -> Forall op_ok ops ->
    evolves st (run verify sign stats_sb st ops) /\ ArchInv (run verify sign stats_sb st ops) /\ Inv verify (run verify sign stats_sb st ops).
  Proof.
    induction ops as [|o ops IH]; intros st I A F.
    - split; [apply evolves_refl, (proj2 I) | split; assumption].
    - inversion F as [|? ? K F']; subst. rewrite run_cons.
      destruct (step_arch st o I A K) as [E1 A1]. destruct (step_inv verify sign stats_sb st o I K) as [I1 _].
      destruct (IH _ I1 A1 F') as (E2 & A2 & I2). split; [eapply evolves_trans; eassumption | split; assumption].
  Qed.
End Evolve.
