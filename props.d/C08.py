# C08 -- see DESIGN.md section 5
PROP = {
    "props_v": "Props/C08.v",
    "extra_v": ["ServerRun.v"],
    "gen_bins": [],
    "gen_obligations": [],
    "suites": [("test", "lossy")],
    "assumptions": [
        "the device's signatures verify under its authorized key and are 64 bytes (hypotheses of c08_recovers; real secp256k1 in the harness); glow.Sign is a function of the message (deterministic RFC 6979 signing, checked on every run by comparing retransmissions with originals)",
        "readings that fit 32 signed bits (outside: finding K2, recorded under C09)",
        "the final round carries no migration order (that round is C17's subject); the real network is replaced by a scripted relay on loopback",
    ],
}
TEXT = {
    "text": "Coq theorems: (recovery) from ANY server state satisfying the invariant -- whatever subset/order/duplication of the device's datagrams was delivered before -- after one fault-free sync round (server bitfield -> the client's resend loop with its uint32 arithmetic -> every retransmission delivered) the server holds a record for every slot of its window that is still acceptable, not newer than the device's latest reading, and for which the device's history holds a reading >= 2; (identity) all datagrams a device ever emits for one slot are the same 80 bytes (readings fitting 32 signed bits); (harmlessness) delivering a report again changes nothing in any slot state, so a slot that only saw copies of one report is banned only by the capacity rule. Harness: a real client reports through a scripted UDP relay (drop/duplicate/reorder) to a real server, then the real threadedSyncWithServer runs one round against the real TCP endpoint (optionally with a dead second server), retransmissions are compared byte for byte with the originals and delivered, and the server snapshot is checked; the same round is evaluated in the model (HResend hop). Added after seeded-change rounds: server window at offset 0 / several weeks on / rotating between originals and sync round, device installed before / at / after the window start, retransmissions delivered when the clock reads exactly slot+432, every sync reply received while rotations run must be a snapshot.",
    "note": "Trusted: Coq kernel+vm_compute, harness, loopback network. Crypto is a parameter of the theorems.",
    "technique": "Coq proof (composition of the client resend loop with the server step: induction over the retransmission list, frame + monotonicity of occupied slots) + differential correspondence with real client and server + oracle",
}
