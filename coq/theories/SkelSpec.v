(* SkelSpec.v -- the hand-written classification tables of (T4) and the derivation of the callee
   contracts.  Definitions only.

   What is TRUSTED here: which mutex guards which field (taken from the README's rule "the mutex protects
   all fields of the object unless the field is static", with "effectively static" fields listed
   explicitly and RE-CHECKED against the writers the translator finds), and the explicit exemption list.
   What is NOT trusted: the contract table.  [derive] computes a contract (kind, constructor context,
   may block, may panic) for every function from the README's naming convention and the skeletons;
   whatever it computes, the checker then verifies every body against its own contract and every call
   site against the callee's contract, so a wrong derivation can only make the check fail. *)
From Coq Require Import String List Bool Arith.
From GCA Require Import Skel.
Import ListNotations.
Open Scope string_scope.
Open Scope list_scope.

(* ------------------------------------------------------------------ field classification *)

(* server.GCAServer: one mutex [mu]; the nested AuthorizedServers object has its own [gcaServers.mu] *)
Definition server_fields : list (string * fclass) := [
  ("equipment", FGuard "mu"); ("equipmentShortID", FGuard "mu"); ("equipmentBans", FGuard "mu");
  ("equipmentImpactRate", FGuard "mu"); ("equipmentMigrations", FGuard "mu");
  ("equipmentReports", FGuard "mu"); ("equipmentReportsOffset", FGuard "mu");
  ("equipmentStatsHistory", FGuard "mu"); ("equipmentHistoryOffset", FGuard "mu");
  ("recentEquipmentAuths", FGuard "mu"); ("recentReports", FGuard "mu");
  ("gcaPubkey", FGuard "mu"); ("gcaPubkeyAvailable", FGuard "mu"); ("gcaTempKey", FGuard "mu");
  ("gcaServers.servers", FGuard "gcaServers.mu");
  (* static after construction (written only in constructor context: re-checked, see static_writers_ok) *)
  ("staticPrivateKey", FStatic); ("staticPublicKey", FStatic); ("baseDir", FStatic); ("logger", FStatic);
  ("httpServer", FStatic); ("httpPort", FStatic); ("mux", FStatic); ("udpPort", FStatic);
  ("tcpPort", FStatic); ("tg", FStatic); ("ApiArchiveRateLimiter", FStatic)
].
Definition server_mutexes : list string := ["mu"; "gcaServers.mu"].

(* client.Client: one mutex [mu] *)
Definition client_fields : list (string * fclass) := [
  ("gcaPubKey", FGuard "mu"); ("gcaServers", FGuard "mu"); ("primaryServer", FGuard "mu");
  ("shortID", FGuard "mu");
  ("staticBaseDir", FStatic); ("staticHistoryFile", FStatic); ("staticHistoryOffset", FStatic);
  ("staticPubKey", FStatic); ("staticPrivKey", FStatic);
  ("energyMultiplier", FStatic); ("energyDivider", FStatic);   (* written only by the constructor *)
  ("EventLog", FStatic); ("tg", FStatic)
].
Definition client_mutexes : list string := ["mu"].

(* EXEMPTIONS -- unguarded reads that are tolerated, by (function, field).  Visible on purpose.
   client.shortID is read by the two static functions below without c.mu while a GCA migration
   (threadedSyncWithServer, under c.mu) may write it.  This is an observation OUTSIDE the given
   properties (DESIGN.md section 6, "observations"); it is listed here instead of being silently
   ignored.  Emptying this list makes the client obligations report the two reads. *)
Definition client_exempt : list (string * string) := [
  ("Client.staticSendReport", "shortID");
  ("Client.staticServerSync", "shortID")
].
Definition server_exempt : list (string * string) := [].

(* ------------------------------------------------------------------ contract derivation *)

Fixpoint outside (p : stmt -> bool) (t : stmt) : bool :=     (* p holds somewhere outside goroutine bodies *)
  p t || match t with
         | Seq a b | Choice a b => outside p a || outside p b
         | Block b | Loop _ b => outside p b
         | _ => false
         end.

Fixpoint calls_out (t : stmt) : list string :=
  match t with
  | Call g => [g]
  | Seq a b | Choice a b => calls_out a ++ calls_out b
  | Block b | Loop _ b => calls_out b
  | _ => []
  end.

Fixpoint accesses_out (t : stmt) : list string :=
  match t with
  | Read f | Write f => [f]
  | Seq a b | Choice a b => accesses_out a ++ accesses_out b
  | Block b | Loop _ b => accesses_out b
  | _ => []
  end.

Definition is_lockop (t : stmt) : bool :=
  match t with Lock _ | Unlock _ | DeferUnlock _ => true | _ => false end.
Definition is_io (t : stmt) : bool := match t with NetIO _ | BlockingRead _ => true | _ => false end.
Definition is_panic (t : stmt) : bool := match t with Panic => true | _ => false end.

Section Derive.
Variable fields : list (string * fclass).
Variable exempt : list (string * string).

Definition guards_touched (name : string) (t : stmt) : list string :=
  flat_map (fun f => match assoc f fields with
                     | Some (FGuard m) => if pair_mem name f exempt then [] else [m]
                     | _ => [] end) (accesses_out t).

Definition kind_fixed (r : rawfn) : bool :=
  match r_naming r with NPlain => outside is_lockop (r_body r) | _ => true end.

Definition kind0 (r : rawfn) : kind :=
  match r_naming r with
  | NStatic => KStatic
  | NNew => KNew
  | NManaged | NThreaded | NLaunch | NExported | NHandler => KFree
  | NPlain => if outside is_lockop (r_body r) then KFree else KStatic
  end.

Definition callee_kinds (T : list (string * contract)) (t : stmt) : list kind :=
  flat_map (fun g => match assoc g T with Some c => [c_kind c] | None => [] end) (calls_out t).

Fixpoint first_held (l : list kind) : option string :=
  match l with [] => None | KHeld m :: _ => Some m | _ :: l' => first_held l' end.

Definition step_kind (T : list (string * contract)) (r : rawfn) : kind :=
  if kind_fixed r then kind0 r
  else match guards_touched (r_name r) (r_body r) with
       | m :: _ => KHeld m                       (* README default: called with the mutex held *)
       | [] =>
           let ks := callee_kinds T (r_body r) in
           match first_held ks with
           | Some m => KHeld m
           | None => if existsb (fun k => match k with KFree | KNew => true | _ => false end) ks
                     then KFree else KStatic      (* touches nothing guarded: effectively static *)
           end
       end.

Definition callee_flag (T : list (string * contract)) (p : contract -> bool) (t : stmt) : bool :=
  existsb (fun g => match assoc g T with Some c => p c | None => false end) (calls_out t).

Definition step (T : list (string * contract)) (r : rawfn) : string * contract :=
  (r_name r,
   {| c_kind := step_kind T r;
      c_ctor := r_ctor r;
      c_blocks := outside is_io (r_body r) || callee_flag T c_blocks (r_body r);
      c_panics := outside is_panic (r_body r) || callee_flag T c_panics (r_body r) |}).

Definition table0 (raws : list rawfn) : list (string * contract) :=
  map (fun r => (r_name r, {| c_kind := kind0 r; c_ctor := r_ctor r; c_blocks := false; c_panics := false |})) raws.

Fixpoint iterate (n : nat) (raws : list rawfn) (T : list (string * contract)) : list (string * contract) :=
  match n with O => T | S n' => iterate n' raws (map (step T) raws) end.

Definition derive_rounds : nat := 12.

Definition derive (raws : list rawfn) : list fn :=
  let T := iterate derive_rounds raws (table0 raws) in
  map (fun r => {| f_name := r_name r; f_recv := r_recv r; f_naming := r_naming r;
                   f_con := match assoc (r_name r) T with
                            | Some c => c
                            | None => {| c_kind := kind0 r; c_ctor := false; c_blocks := true; c_panics := true |}
                            end;
                   f_body := r_body r |}) raws.

End Derive.

(* ------------------------------------------------------------------ environments *)

Record mode := { m_netio : bool; m_panic : bool; m_deadline : bool }.
Definition strict : mode := {| m_netio := true; m_panic := true; m_deadline := true |}.

Definition mk_env (fields : list (string * fclass)) (exempt : list (string * string)) (fns : list fn)
                  (scope : list string) (md : mode) : env :=
  {| e_fields := fields; e_exempt := exempt; e_fns := fns; e_scope := scope;
     e_netio := m_netio md; e_panic := m_panic md; e_deadline := m_deadline md |}.

Definition names (fns : list fn) : list string := map f_name fns.
Definition without (bad : list string) (l : list string) : list string :=
  filter (fun n => negb (mem_str n bad)) l.

(* ------------------------------------------------------------------ re-checks of the emitted facts *)

(* every field the object type declares is classified (a new field fails the check until classified) *)
Definition fields_covered (fields : list (string * fclass)) (mutexes declared : list string) : bool :=
  forallb (fun f => mem_str f mutexes || match assoc f fields with Some _ => true | None => false end) declared.

Definition fn_ctor (fns : list fn) (g : string) : bool :=
  match find_fn fns g with Some f => c_ctor (f_con f) | None => false end.

(* "effectively static": a static field is written only in constructor context, never in a goroutine *)
Definition static_writers_ok (fields : list (string * fclass)) (fns : list fn)
                             (writers : list (string * string * bool)) : bool :=
  forallb (fun w => match w with
                    | (f, g, sp) => match assoc f fields with
                                    | Some FStatic => negb sp && fn_ctor fns g
                                    | Some (FGuard _) => true
                                    | None => false
                                    end end) writers.

(* the translator's "reachable only from the constructor" facts are closed under the call graph:
   every caller of a constructor-context function is constructor context and calls it outside goroutine
   bodies; a constructor-context function that is not itself a constructor has a caller and an
   unexported name (the translator only marks those) *)
Definition is_new (fns : list fn) (g : string) : bool :=
  match find_fn fns g with Some f => match f_naming f with NNew => true | _ => false end | None => false end.

Definition ctor_facts_ok (fns : list fn) (edges : list (string * string * bool)) : bool :=
  forallb (fun e => match e with
                    | (a, b, sp) => if fn_ctor fns b && negb (is_new fns b)
                                    then fn_ctor fns a && negb sp else true end) edges
  && forallb (fun f => if c_ctor (f_con f) && negb (is_new fns (f_name f))
                       then existsb (fun e => match e with (_, b, _) => String.eqb b (f_name f) end) edges
                       else true) fns.

(* README naming convention vs what the code does (information for the report, not an obligation):
   functions with the static prefix must be KStatic -- that IS enforced, by their contract being fixed -- ;
   here: unexported, unprefixed functions that take a lock themselves (README: these should carry the managed prefix) *)
Definition convention_deviations (fns : list fn) : list string :=
  flat_map (fun f => match f_naming f, c_kind (f_con f) with
                     | NPlain, KFree => if outside is_lockop (f_body f) then [f_name f] else []
                     | _, _ => [] end) fns.

Definition pair_eqb (a b : nat * nat) : bool := Nat.eqb (fst a) (fst b) && Nat.eqb (snd a) (snd b).

(* C07: registration is one critical section *)
Definition register_shape (fns : list fn) (name saver : string) (m avail : string) : bool :=
  match find_fn fns name, find_fn fns saver with
  | Some f, Some g =>
      match one_section m (f_body f) with
      | Some rest => mentions (is_read avail) rest && mentions (is_call saver) rest
                     && negb (mentions (is_write avail) rest)
      | None => false
      end
      && match c_kind (f_con g) with KHeld m' => String.eqb m m' | _ => false end
      && mentions (is_write avail) (f_body g) && lock_free (f_body g)
  | _, _ => false
  end.

(* the only writers of a field, by name *)
Definition writers_of (writers : list (string * string * bool)) (f : string) : list string :=
  flat_map (fun w => match w with (f', g, _) => if String.eqb f f' then [g] else [] end) writers.

Definition subset (a b : list string) : bool := forallb (fun x => mem_str x b) a.

(* functions that contain a blocking read on a connection *)
Definition readers (fns : list fn) : list string :=
  flat_map (fun f => if mentions is_bread (f_body f) then [f_name f] else []) fns.
