package client

import "sync"

type Client struct {
	shortID uint32
	mu      sync.Mutex
}

// EXPECT VUnbalancedReturn: the D9 shape.
func (c *Client) threadedSync() bool {
	for i := 0; i < 5; i++ {
		c.mu.Lock()
		if c.shortID == 0 {
			return false
		}
		c.mu.Unlock()
	}
	return true
}
