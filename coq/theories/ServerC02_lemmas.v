(* C02: one report per device-timeslot; equivocation or over-capacity bans the slot. *)
From Coq Require Import ZArith List Bool Lia Permutation.
From GCA Require Import Wrap Bytes Bytes_lemmas Codec Amap Amap_lemmas Timeslot Server ServerInv ServerInv_lemmas.
Import ListNotations.
Open Scope Z_scope.
Set Default Proof Using "Type".
Notation length := List.length.

Lemma report_eqb_eq a b : report_eqb a b = true <-> a = b.
Proof.
  unfold report_eqb. destruct a as [i1 t1 p1 s1], b as [i2 t2 p2 s2]; cbn [r_id r_ts r_p r_sig].
  split.
  - intros H. repeat (apply andb_prop in H; destruct H as [H ?]).
    apply Z.eqb_eq in H. repeat match goal with X : (_ =? _) = true |- _ => apply Z.eqb_eq in X end.
    match goal with X : bytes_eqb _ _ = true |- _ => apply bytes_eqb_eq in X end. congruence.
  - intros E; inversion E; subst. rewrite !Z.eqb_refl, bytes_eqb_refl. reflexivity.
Qed.
Lemma report_eqb_refl a : report_eqb a a = true.
Proof. apply report_eqb_eq; reflexivity. Qed.
Lemma report_eqb_sym a b : report_eqb a b = report_eqb b a.
Proof.
  destruct (report_eqb a b) eqn:E1, (report_eqb b a) eqn:E2; try reflexivity.
  - apply report_eqb_eq in E1. subst. rewrite report_eqb_refl in E2. discriminate.
  - apply report_eqb_eq in E2. subst. rewrite report_eqb_refl in E1. discriminate.
Qed.

(* the slot transition that integrateReport performs, as a pure function of the slot *)
Definition slot_step (cap : Z) (cur r : report) : report :=
  if r_p cur =? 1 then cur
  else if report_eqb cur r then cur
  else let c1 := if r_p cur =? 0 then r else set_p cur 1 in
       if overcap cap (r_p r) then set_p c1 1 else c1.

(* the property's rule, over the LIST of valid reports delivered for one device-slot:
   none -> 0; all identical and within capacity -> that value; otherwise -> 1 *)
Definition slot_spec (cap : Z) (rs : list report) : Z :=
  match rs with
  | [] => 0
  | r0 :: _ => if existsb (fun r => overcap cap (r_p r)) rs || negb (forallb (report_eqb r0) rs)
               then 1 else r_p r0
  end.

Definition valid_power (r : report) : Prop := r_p r <> 0 /\ r_p r <> 1.

Lemma slot_step_banned cap cur r : r_p cur = 1 -> slot_step cap cur r = cur.
Proof. unfold slot_step. intros ->. reflexivity. Qed.

Lemma fold_banned cap rs : forall cur, r_p cur = 1 -> fold_left (slot_step cap) rs cur = cur.
Proof.
  induction rs as [|r rs IH]; intros cur H; cbn [fold_left]; [reflexivity|].
  rewrite slot_step_banned by exact H. apply IH; exact H.
Qed.

(* invariant of a non-empty run: either the slot is banned and the spec says 1, or the slot
   holds the first report, all reports so far equal it, and none exceeded capacity *)
Lemma fold_spec cap r0 : valid_power r0 ->
  forall rs, Forall valid_power rs ->
  forall seen, Forall valid_power seen ->
  let cur := fold_left (slot_step cap) seen (slot_step cap blank_report r0) in
  ((r_p cur = 1 /\ slot_spec cap (r0 :: seen) = 1) \/
   (cur = r0 /\ slot_spec cap (r0 :: seen) = r_p r0 /\
    existsb (fun r => overcap cap (r_p r)) (r0 :: seen) = false /\
    forallb (report_eqb r0) (r0 :: seen) = true)) ->
  r_p (fold_left (slot_step cap) rs cur) = slot_spec cap (r0 :: seen ++ rs).
Proof.
  intros V0 rs. induction rs as [|r rs IH]; intros Vrs seen Vseen cur H.
  - rewrite app_nil_r. cbn [fold_left]. destruct H as [[B S]|[E [S _]]]; [congruence | subst cur; rewrite E; congruence].
  - inversion Vrs as [|? ? Vr Vrs']; subst.
    replace (r0 :: seen ++ r :: rs) with (r0 :: (seen ++ [r]) ++ rs) by (rewrite <- app_assoc; reflexivity).
    cbn [fold_left].
    assert (Hcur : slot_step cap cur r = fold_left (slot_step cap) (seen ++ [r]) (slot_step cap blank_report r0)).
    { rewrite fold_left_app. reflexivity. }
    rewrite Hcur. apply IH; [exact Vrs' | apply Forall_app; split; [exact Vseen | constructor; [exact Vr | constructor]]|].
    rewrite <- Hcur.
    destruct H as [[B S]|(E & S & NoOver & AllEq)].
    + left. split; [rewrite slot_step_banned by exact B; exact B|].
      unfold slot_spec in *. cbn [existsb forallb] in *. rewrite existsb_app, forallb_app.
      cbn [existsb forallb].
      destruct (overcap cap (r_p r0)); cbn [orb] in *; [reflexivity|].
      destruct (existsb (fun r1 => overcap cap (r_p r1)) seen); cbn [orb] in *; [reflexivity|].
      rewrite report_eqb_refl in *. cbn [andb] in *.
      destruct (forallb (report_eqb r0) seen); cbn [andb negb orb] in *.
      * destruct V0 as [_ N1]. congruence.
      * rewrite orb_true_r. reflexivity.
    + rewrite E. unfold slot_step.
      destruct V0 as [N0 N1]. destruct (Z.eqb_spec (r_p r0) 1) as [X|_]; [contradiction|].
      unfold slot_spec. cbn [existsb forallb] in *. rewrite existsb_app, forallb_app. cbn [existsb forallb].
      apply orb_false_elim in NoOver. destruct NoOver as [O0 Os]. rewrite O0, Os. cbn [orb].
      rewrite report_eqb_refl in *. cbn [andb] in *. rewrite AllEq. cbn [andb].
      destruct (report_eqb r0 r) eqn:Er.
      * apply report_eqb_eq in Er. subst r. right. rewrite O0. cbn. repeat split; reflexivity.
      * left. cbn [andb negb orb]. rewrite orb_true_r. split; [|reflexivity].
        destruct (Z.eqb_spec (r_p r0) 0) as [X|_]; [contradiction|].
        destruct (overcap cap (r_p r)); reflexivity.
Qed.

Theorem slot_refines cap rs : Forall valid_power rs ->
  r_p (fold_left (slot_step cap) rs blank_report) = slot_spec cap rs.
Proof.
  destruct rs as [|r0 rs]; intros V; [reflexivity|].
  inversion V as [|? ? V0 Vrs]; subst. cbn [fold_left].
  apply (fold_spec cap r0 V0 rs Vrs [] (Forall_nil _)). cbn [fold_left].
  unfold slot_step. change (r_p blank_report) with 0. cbn [Z.eqb].
  destruct V0 as [N0 N1].
  assert (B : report_eqb blank_report r0 = false).
  { destruct (report_eqb blank_report r0) eqn:E; [|reflexivity]. apply report_eqb_eq in E. subst r0. cbn in N0. contradiction. }
  rewrite B. unfold slot_spec. cbn [existsb forallb]. rewrite report_eqb_refl. cbn [andb negb orb].
  rewrite orb_false_r.
  destruct (overcap cap (r_p r0)); [left; split; reflexivity | right; repeat split; reflexivity].
Qed.

(* after a delivery the slot is banned or holds exactly that report *)
Lemma slot_step_result cap cur r : r_p (slot_step cap cur r) = 1 \/ slot_step cap cur r = r.
Proof.
  unfold slot_step. destruct (Z.eqb_spec (r_p cur) 1) as [E|E]; [left; exact E|].
  destruct (report_eqb cur r) eqn:Q; [right; apply report_eqb_eq; exact Q|].
  destruct (overcap cap (r_p r)); [left; reflexivity|].
  destruct (r_p cur =? 0); [right; reflexivity | left; reflexivity].
Qed.

(* delivering a report again right after it was delivered changes nothing, whatever the slot held *)
Theorem slot_step_idem cap cur r : slot_step cap (slot_step cap cur r) r = slot_step cap cur r.
Proof.
  destruct (slot_step_result cap cur r) as [B|E].
  - apply slot_step_banned. exact B.
  - rewrite E. unfold slot_step. destruct (r_p r =? 1); [reflexivity|]. rewrite report_eqb_refl. reflexivity.
Qed.

(* corollaries *)
Theorem replay_idempotent cap r n : valid_power r ->
  r_p (fold_left (slot_step cap) (repeat r (S n)) blank_report) = if overcap cap (r_p r) then 1 else r_p r.
Proof.
  intros V. rewrite slot_refines by (apply Forall_forall; intros x H; apply repeat_spec in H; subst; exact V).
  unfold slot_spec. cbn [repeat existsb forallb]. rewrite report_eqb_refl. cbn [andb].
  assert (F : forallb (report_eqb r) (repeat r n) = true).
  { apply forallb_forall. intros x H. apply repeat_spec in H. subst. apply report_eqb_refl. }
  rewrite F. cbn [negb]. rewrite orb_false_r.
  destruct (overcap cap (r_p r)) eqn:O; cbn [orb]; [reflexivity|].
  assert (E : existsb (fun r1 => overcap cap (r_p r1)) (repeat r n) = false).
  { destruct (existsb _ (repeat r n)) eqn:X; [|reflexivity]. apply existsb_exists in X. destruct X as [x [H Hx]].
    apply repeat_spec in H. subst. congruence. }
  rewrite E. reflexivity.
Qed.

Theorem ban_absorbing cap rs cur : r_p cur = 1 -> fold_left (slot_step cap) rs cur = cur.
Proof. exact (fold_banned cap rs cur). Qed.

Lemma all_eq_perm r0 r0' l l' : Permutation (r0 :: l) (r0' :: l') ->
  forallb (report_eqb r0) (r0 :: l) = forallb (report_eqb r0') (r0' :: l').
Proof.
  intros P.
  destruct (forallb (report_eqb r0) (r0 :: l)) eqn:A, (forallb (report_eqb r0') (r0' :: l')) eqn:B; try reflexivity.
  - exfalso. rewrite forallb_forall in A.
    assert (In r0' (r0 :: l)) by (eapply Permutation_in; [apply Permutation_sym; exact P | left; reflexivity]).
    apply A in H. apply report_eqb_eq in H. subst r0'.
    assert (forallb (report_eqb r0) (r0 :: l') = true); [|congruence].
    apply forallb_forall. intros x Hx. apply A. eapply Permutation_in; [apply Permutation_sym; exact P | exact Hx].
  - exfalso. rewrite forallb_forall in B.
    assert (In r0 (r0' :: l')) by (eapply Permutation_in; [exact P | left; reflexivity]).
    apply B in H. apply report_eqb_eq in H. subst r0'.
    assert (forallb (report_eqb r0) (r0 :: l) = true); [|congruence].
    apply forallb_forall. intros x Hx. apply B. eapply Permutation_in; [exact P | exact Hx].
Qed.

Lemma existsb_perm {A} (f : A -> bool) l l' : Permutation l l' -> existsb f l = existsb f l'.
Proof.
  intros P. destruct (existsb f l) eqn:E, (existsb f l') eqn:E'; try reflexivity; exfalso.
  - apply existsb_exists in E. destruct E as [x [I Fx]].
    assert (existsb f l' = true); [|congruence]. apply existsb_exists. exists x. split; [eapply Permutation_in; eassumption | exact Fx].
  - apply existsb_exists in E'. destruct E' as [x [I Fx]].
    assert (existsb f l = true); [|congruence]. apply existsb_exists. exists x. split; [eapply Permutation_in; [apply Permutation_sym|]; eassumption | exact Fx].
Qed.

Theorem spec_order_independent cap rs rs' : Permutation rs rs' -> slot_spec cap rs = slot_spec cap rs'.
Proof.
  intros P. destruct rs as [|r0 l], rs' as [|r0' l'].
  - reflexivity.
  - apply Permutation_nil in P. discriminate.
  - apply Permutation_sym, Permutation_nil in P. discriminate.
  - unfold slot_spec. rewrite (existsb_perm _ _ _ P), (all_eq_perm _ _ _ _ P).
    destruct (existsb _ (r0' :: l') || negb (forallb (report_eqb r0') (r0' :: l'))) eqn:X; [reflexivity|].
    apply orb_false_elim in X. destruct X as [_ X]. apply negb_false_iff in X.
    rewrite forallb_forall in X.
    assert (In r0 (r0' :: l')) by (eapply Permutation_in; [exact P | left; reflexivity]).
    apply X in H. apply report_eqb_eq in H. congruence.
Qed.

Theorem order_independent cap rs rs' : Forall valid_power rs -> Permutation rs rs' ->
  r_p (fold_left (slot_step cap) rs blank_report) = r_p (fold_left (slot_step cap) rs' blank_report).
Proof.
  intros V P. rewrite !slot_refines; [apply spec_order_independent; exact P | | exact V].
  apply Forall_forall. intros x H. rewrite Forall_forall in V. apply V. eapply Permutation_in; [apply Permutation_sym; exact P | exact H].
Qed.

(* ---- the server's integrateReport performs exactly slot_step on the addressed slot
        and touches nothing else (other slots, other devices, every other table) *)
Definition same_tables (m1 m2 : mem) : Prop :=
  equipment m1 = equipment m2 /\ index m1 = index m2 /\ bans m1 = bans m2 /\ impact m1 = impact m2 /\
  offset m1 = offset m2 /\ history m1 = history m2 /\ gca m1 = gca m2 /\ gca_avail m1 = gca_avail m2 /\
  tempkey m1 = tempkey m2 /\ skeys m1 = skeys m2.

Theorem integrate_slot st r w a :
  0 <= offset (mm st) -> offset (mm st) + 4032 < 2^32 ->
  zget (r_id r) (reports (mm st)) = Some w ->
  zget (r_id r) (equipment (mm st)) = Some a ->
  offset (mm st) <= r_ts r < offset (mm st) + 4032 ->
  let idx := r_ts r - offset (mm st) in
  let st' := fst (integrate st r) in
  snd (integrate st r) = Quiet /\
  same_tables (mm st') (mm st) /\
  (forall id, id <> r_id r -> zget id (reports (mm st')) = zget id (reports (mm st))) /\
  exists w', zget (r_id r) (reports (mm st')) = Some w' /\
             getslot idx w' = slot_step (a_cap a) (getslot idx w) r /\
             (forall i, i <> idx -> getslot i w' = getslot i w).
Proof.
  intros Hlo Hhi Qw Qa Rng idx st'. subst st'. unfold integrate, window_len.
  destruct (Z.ltb_spec (r_ts r) (offset (mm st))) as [L|L]; [lia|].
  rewrite (u32_id (offset (mm st) + 4032)) by (unfold is_u32; lia).
  destruct (Z.leb_spec (offset (mm st) + 4032) (r_ts r)) as [G|G]; [lia|].
  rewrite (u32_id (r_ts r - offset (mm st))) by (unfold is_u32; lia).
  rewrite Qw. destruct (Z.leb_spec 4032 (r_ts r - offset (mm st))) as [B|B]; [lia|].
  fold idx. rewrite Qa. unfold slot_step.
  assert (T : same_tables (mm st) (mm st)) by (repeat split).
  destruct (r_p (getslot idx w) =? 1) eqn:B1.
  { cbn [fst snd]. repeat split; try reflexivity. exists w. rewrite Qw. repeat split; reflexivity. }
  destruct (report_eqb (getslot idx w) r) eqn:Dup.
  { cbn [fst snd]. repeat split; try reflexivity. exists w. rewrite Qw. repeat split; reflexivity. }
  cbn [fst snd mm with_reports reports]. split; [reflexivity|]. split; [repeat split|].
  split; [intros id N; apply zget_zset_other; exact N|].
  eexists. split; [apply zget_zset_same|].
  destruct (r_p (getslot idx w) =? 0) eqn:Z0; destruct (overcap (a_cap a) (r_p r)) eqn:O.
  - split; [rewrite !getslot_set, Z.eqb_refl; reflexivity|].
    intros i N. rewrite !getslot_set. destruct (Z.eqb_spec i idx); [contradiction | reflexivity].
  - split; [rewrite getslot_set, Z.eqb_refl; reflexivity|].
    intros i N. rewrite getslot_set. destruct (Z.eqb_spec i idx); [contradiction | reflexivity].
  - split; [rewrite !getslot_set, Z.eqb_refl; reflexivity|].
    intros i N. rewrite !getslot_set. destruct (Z.eqb_spec i idx); [contradiction | reflexivity].
  - split; [rewrite getslot_set, Z.eqb_refl; reflexivity|].
    intros i N. rewrite getslot_set. destruct (Z.eqb_spec i idx); [contradiction | reflexivity].
Qed.

(* the capacity rule as the property states it: non-negative (p <= 2^63-1) and above 135% *)
Theorem overcap_rule cap p : 0 <= cap -> 0 <= p < 2^64 ->
  overcap cap p = true <-> (p <= 2^63 - 1 /\ 100 * p > 135 * cap - (135 * cap) mod 100 /\ p > cap * 135 / 100).
Proof.
  intros Hc Hp. unfold overcap, max_capacity_buffer.
  rewrite andb_true_iff, Z.ltb_lt, Z.leb_le.
  pose proof (Z.div_mod (cap * 135) 100 ltac:(lia)). pose proof (Z.mod_pos_bound (cap * 135) 100 ltac:(lia)).
  replace (135 * cap) with (cap * 135) by lia. split; intros; lia.
Qed.
