#!/bin/sh
# usage: seedtest.sh <patch file> <check id> [more check ids]   -- applies the patch to a scratch worktree of /repo and runs the checks in sandbox mode
P="$1"; shift
WT=/tmp/seedwt-$$
git -C /repo worktree add -q "$WT" HEAD || exit 2
if ! git -C "$WT" apply "$P"; then echo "PATCH DOES NOT APPLY"; git -C /repo worktree remove --force "$WT"; exit 2; fi
for c in "$@"; do
  echo "== $c on $(basename $(dirname $(dirname $P)))/$(basename $P)"
  VERIF_REPO="$WT" /verif/check "$c" 2>&1 | grep -E "VIOLATION|KNOWN|^OK|^FAIL|ERROR|violation:|no longer" | cut -c1-260 | head -8
done
H=$(python3 -c "import hashlib,sys;print(hashlib.sha1(sys.argv[1].encode()).hexdigest()[:10])" "$WT")
rm -rf /tmp/verif-sandbox/$H
git -C /repo worktree remove --force "$WT"
