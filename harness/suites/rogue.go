//go:build test && verif

package suites

// C11 (suite "rogue"): whatever a server sends or does, the client does not
// panic, holds no lock when a sync round returns, never selects a banned
// server, never forgets a ban, and keeps reporting.
//
//  A. sweep over length prefixes 0..65535 with unsigned bodies;
//  B. a rogue *authorized* server: arbitrary contents correctly signed with
//     the contacted server's key (lengths around every field boundary of the
//     reply), genuine replies mutated and re-signed;
//  C. client histories: 1..6 scripted servers, per-round behaviours (refuse,
//     reset, short, bad signature, stale, wrong device, bad inner signature,
//     success, delayed success), all-banned / all-failed configurations,
//     restarts in between (also used by migrate.go);
//  D. liveness of a real client (NewClient, reporting loop running) whose only
//     server is down: readings keep arriving at a UDP sink, sync is retried.
//
// Minimised past failures are kept in corpus/C11 and run first.

import (
	"bytes"
	"encoding/binary"
	"encoding/json"
	"fmt"
	"net"
	"os"
	"path/filepath"
	"sort"
	"strings"
	"sync"
	"time"

	"github.com/glowlabs-org/gca-backend/client"
	"github.com/glowlabs-org/gca-backend/glow"
	"github.com/glowlabs-org/gca-backend/server"
	"verifharness/core"
)

func init() { core.Register("rogue", rogueSuite) }

// ---------------------------------------------------------------- client histories (shared with migrate.go)

type fakeSrv struct {
	key  keyPair
	peer *scriptPeer // nil: nothing listens on port (dial refused)
	port uint16
}

// behaviour of one server for one round
type beh struct {
	kind   string
	act    peerAction
	stream []byte // what the client receives before the connection ends (nil for refuse)
	valid  bool   // an honest client must accept this reply
	// when valid: what the reply carries
	servers []server.AuthorizedServer
	mig     *server.EquipmentMigration
}

type histRun struct {
	rng    *core.RNG
	tab    *sigTab
	cd     *clientDir
	c      *client.Client
	gca    keyPair
	id     uint32
	fakes  map[glow.PublicKey]*fakeSrv
	order  []glow.PublicKey // creation order of fakes
	ops    []string         // Gallina hops
	desc   []interface{}
	files0 string
	dead   bool // the history cannot continue (panic, wedged lock, refused restart)
	tag    string
	// results are collected per history (histories run concurrently) and merged by the suite
	counts         map[string]int
	fails          []core.Failure
	newGCAs        map[glow.PublicKey]keyPair
	prop           string // "C11" | "C17": which property's clauses the oracle judges
	lastOrderEmpty bool   // the last adopted migration order had an empty server list
	plain          bool   // accepted replies repeat the client's list unchanged (deterministic scenarios)
}

func (h *histRun) count(c string) { h.counts[c]++ }

// oracle clauses that belong to C17 only (the rogue suite of C11 does not judge them)
var c17Only = map[string]bool{"entry-altered": true, "banned-entry-rewritten": true, "identity-changed": true, "migration-list": true,
	"entered-unsigned": true, "ban-dropped": true, "migration-ban-lost": true, "persist-mismatch": true, "restart-differs": true, "restart-refused-empty-server-list": true}

func (h *histRun) fail(what, key string, replay interface{}) {
	if h.prop == "C11" && c17Only[key] {
		return
	}
	h.fails = append(h.fails, core.Failure{What: what, Key: key, Replay: replay})
}
func (h *histRun) mergeInto(res *core.Result) {
	for k, v := range h.counts {
		res.Distribution[k] += v
	}
	for _, f := range h.fails {
		res.Fail(f.What, f.Key, f.Replay)
	}
}

func newHistRun(rng *core.RNG, tag string) *histRun {
	return &histRun{rng: rng, tab: &sigTab{}, fakes: map[glow.PublicKey]*fakeSrv{}, gca: newKey(), id: uint32(rng.Range(1, 1<<20)), tag: tag,
		counts: map[string]int{}, newGCAs: map[glow.PublicKey]keyPair{}}
}

func (h *histRun) addFake(listen bool) (*fakeSrv, error) {
	f := &fakeSrv{key: newKey()}
	if listen {
		p, err := newScriptPeer(func(int) peerAction { return peerAction{kind: actReset} })
		if err != nil {
			return nil, err
		}
		f.peer, f.port = p, p.port
	} else {
		f.port = deadPort()
	}
	h.fakes[f.key.pub] = f
	h.order = append(h.order, f.key.pub)
	return f, nil
}
func (h *histRun) entryFor(f *fakeSrv, banned bool) client.GCAServer {
	return client.GCAServer{Banned: banned, Location: "127.0.0.1", HttpPort: 9, TcpPort: f.port, UdpPort: 9}
}
func (h *histRun) signedEntry(gca keyPair, f *fakeSrv, banned bool) server.AuthorizedServer {
	return mkAS(h.tab, gca, f.key.pub, banned, "127.0.0.1", 9, f.port, 9)
}
func (h *histRun) cleanup() {
	if h.c != nil {
		stopClient(h.c)
		h.c = nil
	}
	for _, f := range h.fakes {
		if f.peer != nil {
			f.peer.close()
		}
	}
	if h.cd != nil {
		os.RemoveAll(h.cd.dir)
	}
}

// a client whose mutex is held cannot be stopped (its own Close would be fine, but a
// wedged reporting loop never ends): stop in the background and move on
func stopClient(c *client.Client) {
	done := make(chan struct{})
	go func() { c.VerifSyncStop(); close(done) }()
	select {
	case <-done:
	case <-time.After(2 * time.Second):
	}
}

func stateMap(st client.VerifClientState) map[glow.PublicKey]client.GCAServer {
	m := map[glow.PublicKey]client.GCAServer{}
	for _, e := range st.Servers {
		m[e.Key] = e.Server
	}
	return m
}

// start writes the client directory and performs the first load
func (h *histRun) start(initial map[glow.PublicKey]client.GCAServer) error {
	cd, err := writeClientDir("verif-"+h.tag, newKey(), h.gca.pub, h.id, initial)
	if err != nil {
		return err
	}
	h.cd = cd
	h.files0 = cd.filesG()
	h.load()
	return nil
}

// load = restart: the loading steps of NewClient (hook without the reporting loop)
func (h *histRun) load() {
	var before *client.VerifClientState
	if h.c != nil {
		st := client.VerifState(h.c)
		before = &st
		stopClient(h.c)
		h.c = nil
	}
	c, err, pan := client.VerifSyncLoadClient(h.cd.dir)
	h.count("hist.load")
	d := map[string]interface{}{"op": "load"}
	if pan != "" {
		h.fail("client panics while loading its files: "+pan, "load-panic", map[string]interface{}{"history": h.tag, "files": h.cd.filesG()})
		h.dead = true
		d["panic"] = pan
		h.desc = append(h.desc, d)
		return
	}
	if err != nil {
		d["error"] = err.Error()
		h.desc = append(h.desc, d)
		h.ops = append(h.ops, fmt.Sprintf("HLoad [] false %s 0 [] %s", core.Hex(nil), core.Hex(nil)))
		h.count("hist.load.refused")
		if before != nil {
			key := "restart-refused"
			if len(before.Servers) == 0 && h.lastOrderEmpty {
				key = "restart-refused-empty-server-list" // K7: the adopted order itself named no server
			}
			h.fail("client does not restart from the files it persisted: "+err.Error(), key, map[string]interface{}{"history": h.tag, "desc": h.desc})
		}
		h.dead = true
		return
	}
	h.c = c
	st := client.VerifState(c)
	ord := append([]glow.PublicKey{st.PrimaryServer}, sortedKeys(stateMap(st))...)
	h.ops = append(h.ops, fmt.Sprintf("HLoad %s true %s %d %s %s", keysG(ord), core.Hex(st.GCAPubKey[:]), st.ShortID, gsMapG(st.Servers), core.Hex(st.PrimaryServer[:])))
	d["servers"] = len(st.Servers)
	h.desc = append(h.desc, d)
	// oracle: a restart resumes with the same identity and list, and a usable primary
	if before != nil {
		if before.GCAPubKey != st.GCAPubKey || before.ShortID != st.ShortID || !sameMap(stateMap(*before), stateMap(st)) {
			h.fail("state after restart differs from the state before it", "restart-differs", map[string]interface{}{"history": h.tag, "desc": h.desc})
		}
		am := stateMap(st)
		for k, g := range stateMap(*before) {
			if g2, ok := am[k]; g.Banned && (!ok || !g2.Banned) {
				h.fail("the client forgot across a restart that a server is banned", "unban", map[string]interface{}{"history": h.tag, "desc": h.desc})
			}
		}
	}
	if g, ok := stateMap(st)[st.PrimaryServer]; ok && g.Banned {
		h.fail("start-up selected a banned primary server", "selected-banned", map[string]interface{}{"history": h.tag})
	}
}

func sameMap(a, b map[glow.PublicKey]client.GCAServer) bool {
	if len(a) != len(b) {
		return false
	}
	for k, v := range a {
		if w, ok := b[k]; !ok || w != v {
			return false
		}
	}
	return true
}

// round runs one sync round with the given behaviour per server key
func (h *histRun) round(plan map[glow.PublicKey]beh, label string) {
	if h.dead || h.c == nil {
		return
	}
	before := client.VerifState(h.c)
	bmap := stateMap(before)
	filesBefore := [3][]byte{h.cd.file(client.GCAPubKeyFile), h.cd.file(client.ShortIDFile), h.cd.file(client.GCAServerMapFile)}
	for k, f := range h.fakes {
		if f.peer == nil {
			continue
		}
		b, ok := plan[k]
		if !ok {
			b = beh{kind: "reset", act: peerAction{kind: actReset}, stream: []byte{}}
			plan[k] = b
		}
		act := b.act
		f.peer.setScript(func(int) peerAction { return act })
	}
	h.c.VerifTakeSyncTrace()
	now := time.Now().Unix()
	ok, pan := client.VerifSyncRound(h.c, 0)
	trace := h.c.VerifTakeSyncTrace()
	free := client.VerifTryLock(h.c)
	after := client.VerifState(h.c)
	amap := stateMap(after)
	h.count("hist.round")
	h.count("round." + label)

	// ---- model input: what each contacted server did
	keys := sortedKeys(bmap)
	var atts []string
	var kinds []string
	anyValid := false
	var accepted *beh
	for _, k := range trace {
		ord := append([]glow.PublicKey{k}, keys...)
		out := "ODialFail"
		kind := "refuse"
		if f, okf := h.fakes[k]; okf && f.peer != nil {
			b := plan[k]
			out = "(OClosed " + core.Hex(b.stream) + ")"
			kind = b.kind
			if b.valid {
				anyValid = true
				bb := b
				accepted = &bb
			}
		}
		kinds = append(kinds, kind)
		h.count("attempt." + kind)
		atts = append(atts, core.Tuple(keysG(ord), out, core.Z(now)))
	}
	for len(atts) < 5 { // had the model wanted another attempt, it would contact somebody
		atts = append(atts, core.Tuple(keysG(keys), "ODialFail", core.Z(now)))
	}
	result := "RFalse"
	if ok {
		result = "RTrue"
	}
	if pan != "" {
		result = "RPanic"
	}
	fg, fi, fm := h.cd.file(client.GCAPubKeyFile), h.cd.file(client.ShortIDFile), h.cd.file(client.GCAServerMapFile)
	h.ops = append(h.ops, fmt.Sprintf("HRound %s (%s, %s, %d, %s, %s, %s, %s, %s, %s, %s)", core.List(atts), result, core.Hex(after.GCAPubKey[:]), after.ShortID,
		gsMapG(after.Servers), core.Hex(after.PrimaryServer[:]), core.Bool(free), keysG(trace), core.Hex(fg), core.Hex(fi), core.Hex(fm)))
	d := map[string]interface{}{"op": "round", "label": label, "contacted": kinds, "result": result, "lock_free": free, "servers_before": len(bmap), "servers_after": len(amap)}
	h.desc = append(h.desc, d)
	replay := map[string]interface{}{"history": h.tag, "steps": h.desc}

	// ---- property oracle, on the implementation's behaviour alone
	if pan != "" {
		h.fail("client panics during a sync round: "+pan, "client-panic:"+panicClass(pan), replay)
		h.dead = true
	}
	if !free {
		h.fail("client mutex still held after the sync round returned ("+label+")", "lock-held", replay)
		h.dead = true
	}
	for _, k := range trace {
		g, known := bmap[k]
		if !known || g.Banned {
			h.fail("sync round selected a banned or unknown server", "selected-banned", replay)
		}
	}
	if pan == "" {
		if ok != anyValid {
			h.fail(fmt.Sprintf("sync round returned %v although valid-reply-seen=%v", ok, anyValid), "accept-mismatch", replay)
		}
		if !ok {
			if after.GCAPubKey != before.GCAPubKey || after.ShortID != before.ShortID || !sameMap(bmap, amap) ||
				!bytes.Equal(fg, filesBefore[0]) || !bytes.Equal(fi, filesBefore[1]) || !bytes.Equal(fm, filesBefore[2]) {
				h.fail("client state or files changed although no reply was accepted", "frame", replay)
			}
		}
	}
	migrated := after.GCAPubKey != before.GCAPubKey || after.ShortID != before.ShortID
	if migrated {
		h.count("round.migrated")
		if accepted == nil || accepted.mig == nil || accepted.mig.NewGCA != after.GCAPubKey || accepted.mig.NewShortID != after.ShortID {
			h.fail("client changed its GCA / short id without a valid migration order for it", "identity-changed", replay)
		} else {
			want := map[glow.PublicKey]bool{}
			for _, s := range accepted.mig.NewServers {
				want[s.PublicKey] = true
			}
			if len(accepted.mig.NewServers) == 0 {
				h.count("round.migrated-to-empty-list")
			}
			for k := range amap {
				if !want[k] {
					h.fail("after a migration the list contains a server that is not in the order", "migration-list", replay)
				}
			}
			if len(amap) != len(want) {
				h.fail("after a migration the list is not the order's list", "migration-list", replay)
			}
			for _, s := range accepted.mig.NewServers {
				if g, ok := amap[s.PublicKey]; s.Banned && ok && !g.Banned {
					h.fail("a server that the adopted migration order lists as banned is not banned in the client's new list", "migration-ban-lost", replay)
					break
				}
			}
			h.lastOrderEmpty = len(accepted.mig.NewServers) == 0
		}
	} else {
		for k, g := range bmap {
			g2, still := amap[k]
			if still && g2 != g && g.Banned && g2.Banned {
				h.fail("the address of an already banned entry was rewritten by a later GCA-signed ban record for the same key", "banned-entry-rewritten", replay)
			} else if !still || (g2 != g && !(g2.Banned && !g.Banned)) {
				h.fail("an existing server entry was altered other than by becoming banned", "entry-altered", replay)
			}
			if g.Banned && (!still || !g2.Banned) {
				h.fail("the client forgot that a server is banned", "unban", replay)
			}
		}
		for k := range amap {
			if _, old := bmap[k]; old {
				continue
			}
			found := false
			if accepted != nil {
				for _, s := range accepted.servers {
					if s.PublicKey == k {
						found = true
					}
				}
			}
			if !found {
				h.fail("a server entered the client's list without appearing in an accepted, GCA-signed list", "entered-unsigned", replay)
			}
		}
		// a GCA-signed ban in the accepted list is adopted, also for a server the client has never listed
		// (otherwise that server's old authorization, replayed later, makes it usable: the ban reverted)
		if accepted != nil {
			for _, sv := range accepted.servers {
				if g2, in := amap[sv.PublicKey]; sv.Banned && (!in || !g2.Banned) {
					h.fail("a GCA-signed ban record in an accepted server list was not adopted by the client", "ban-dropped", replay)
					break
				}
			}
		}
	}
	// persisted = adopted
	if pan == "" && free {
		dm, derr := client.UntrustedDeserializeGCAServerMap(fm)
		var gid uint32
		if len(fi) >= 4 {
			gid = binary.LittleEndian.Uint32(fi)
		}
		if derr != nil || !sameMap(dm, amap) || !bytes.Equal(fg, after.GCAPubKey[:]) || len(fi) != 4 || gid != after.ShortID {
			h.fail("files on disk differ from the state the client adopted", "persist-mismatch", replay)
		}
	}
	if migrated && accepted != nil && accepted.mig != nil {
		if g, okk := h.newGCAs[accepted.mig.NewGCA]; okk {
			h.gca = g
		}
		h.id = after.ShortID
	}
}

func panicClass(p string) string {
	switch {
	case strings.Contains(p, "slice bounds out of range"):
		return "slice-bounds"
	case strings.Contains(p, "index out of range"):
		return "index"
	}
	f := strings.Fields(p)
	if len(f) > 3 {
		f = f[:3]
	}
	return strings.Join(f, "-")
}

func (h *histRun) gallina() string {
	return core.Tuple(core.Hex(h.cd.dev.pub[:]), h.tab.gallina(), h.files0, core.List(h.ops))
}

// ---- reply construction for a scripted server
func (h *histRun) baseSpec(now int64) replySpec {
	var bf [504]byte
	for i := range bf {
		bf[i] = 0xff // the server "has everything": no re-sends
	}
	return replySpec{devKey: h.cd.dev.pub, offset: 0, bitfield: bf, unixTime: uint64(now)}
}

// knownList returns GCA-signed entries for the servers the client knows (a subset), plus extras
func (h *histRun) listFor(known map[glow.PublicKey]client.GCAServer, extra []server.AuthorizedServer, banKey *glow.PublicKey) []server.AuthorizedServer {
	var l []server.AuthorizedServer
	for _, k := range sortedKeys(known) {
		f, ok := h.fakes[k]
		if !ok {
			continue
		}
		if !h.plain && h.rng.Chance(25) {
			continue
		}
		g := known[k]
		ban := g.Banned
		if banKey != nil && *banKey == k {
			ban = true
		}
		if !h.plain && g.Banned && h.rng.Chance(50) {
			ban = false // an un-ban attempt, validly signed: must be ignored
			h.count("reply.unban-attempt")
		}
		e := h.signedEntry(h.gca, f, ban)
		if !h.plain && h.rng.Chance(20) { // same key, changed ports: must be ignored unless it is a ban
			e = mkAS(h.tab, h.gca, k, ban, "127.0.0.2", 10, f.port, 10)
			h.count("reply.changed-ports")
		}
		l = append(l, e)
	}
	return append(l, extra...)
}

func (h *histRun) mkBeh(kind string, f *fakeSrv, known map[glow.PublicKey]client.GCAServer) beh {
	now := time.Now().Unix()
	spec := h.baseSpec(now)
	send := func(stream []byte) beh {
		return beh{kind: kind, act: peerAction{kind: actSend, data: stream}, stream: stream}
	}
	switch kind {
	case "reset":
		return beh{kind: kind, act: peerAction{kind: actReset}, stream: []byte{}}
	case "refusal-byte": // the server's answer to an unknown short id
		return send([]byte{0})
	case "short":
		spec.servers = h.listFor(known, nil, nil)
		w := signedWire(h.tab, spec.content(), f.key)
		return send(w[:h.rng.Range(0, len(w)-1)])
	case "badsig":
		spec.servers = h.listFor(known, nil, nil)
		other := newKey()
		return send(signedWire(&sigTab{}, spec.content(), other))
	case "stale", "future":
		if kind == "stale" {
			spec.unixTime = uint64(now - 86400 - int64(h.rng.Range(100, 100000)))
		} else {
			spec.unixTime = uint64(now + 86400 + int64(h.rng.Range(100, 100000)))
		}
		return send(signedWire(h.tab, spec.content(), f.key))
	case "wrongdev":
		spec.devKey = newKey().pub
		return send(signedWire(h.tab, spec.content(), f.key))
	case "badsrvsig":
		stranger := newKey()
		extra, _ := h.addFake(false)
		spec.servers = append(h.listFor(known, nil, nil), h.signedEntry(stranger, extra, false))
		return send(signedWire(h.tab, spec.content(), f.key))
	case "badsrvsig-known": // entries for keys the client ALREADY knows, same ban flag, other address, not signed by the GCA
		stranger := newKey()
		for _, k := range sortedKeys(known) {
			fk, ok := h.fakes[k]
			if !ok {
				continue
			}
			spec.servers = append(spec.servers, mkAS(h.tab, stranger, k, known[k].Banned, "127.0.0.7", 21, fk.port, 22))
		}
		if len(spec.servers) == 0 {
			spec.servers = []server.AuthorizedServer{mkAS(h.tab, stranger, f.key.pub, false, "127.0.0.7", 21, f.port, 22)}
		}
		return send(signedWire(h.tab, spec.content(), f.key))
	case "badinner-known": // a genuine order of the current GCA whose new servers are keys the client already knows, NOT signed by the new GCA
		ng := newKey()
		var ns []server.AuthorizedServer
		for _, k := range sortedKeys(known) {
			if fk, ok := h.fakes[k]; ok {
				ns = append(ns, mkAS(h.tab, h.gca, k, known[k].Banned, "127.0.0.1", 9, fk.port, 9)) // signed by the OLD GCA
			}
		}
		m := mkMig(h.tab, h.gca, h.cd.dev.pub, ng.pub, uint32(h.rng.Range(1, 1<<30)), ns)
		return send(signedWire(h.tab, spec.withMigration(m).content(), f.key))
	case "badlen": // rogue server: the list region is cut in the middle of an entry, correctly signed
		spec.servers = h.listFor(known, nil, nil)
		if len(spec.servers) == 0 {
			spec.servers = []server.AuthorizedServer{h.signedEntry(h.gca, f, false)}
		}
		full := spec.content()
		cut := h.rng.Range(1, len(asWire(spec.servers[len(spec.servers)-1]))-1)
		content := append(append([]byte{}, full[:len(full)-72-cut]...), full[len(full)-72:]...)
		return send(signedWire(h.tab, content, f.key))
	case "rogue-short": // rogue server: a correctly signed reply that is too short to hold the fixed fields
		n := []int{8, 72, 100, 475, 476, 511, 512, 611, 612, 640, 647}[h.rng.Intn(11)]
		content := h.rng.Bytes(n)
		if n >= 8 {
			binary.LittleEndian.PutUint64(content[n-8:], uint64(now))
		}
		if n >= 32 {
			copy(content, h.cd.dev.pub[:])
		}
		return send(signedWire(h.tab, content, f.key))
	case "garbage":
		n := h.rng.Range(0, 900)
		return send(frame(h.rng.Bytes(n)))
	case "tiny":
		n := h.rng.Range(0, 71)
		return send(frame(h.rng.Bytes(n)))
	case "badmig": // a migration order signed by somebody who is not the current GCA
		ng := newKey()
		nf, _ := h.addFake(true)
		m := mkMig(h.tab, newKey(), h.cd.dev.pub, ng.pub, uint32(h.rng.Range(1, 1<<20)), []server.AuthorizedServer{h.signedEntry(ng, nf, false)})
		return send(signedWire(h.tab, spec.withMigration(m).content(), f.key))
	case "migrate", "migrate0", "samegca", "badinner", "foreign-order", "selfsigned":
		ng := newKey()
		if kind == "samegca" {
			ng = h.gca // an order that names the current GCA: nothing to migrate, the list is merged
		}
		k := h.rng.Range(1, 4)
		if kind == "migrate0" {
			k = 0
		}
		var ns []server.AuthorizedServer
		for j := 0; j < k; j++ {
			nf, _ := h.addFake(j == 0 || h.rng.Chance(50))
			signer := ng
			if kind == "badinner" && j == k-1 {
				signer = h.gca // signed by the OLD GCA: not acceptable for the new list
			}
			ns = append(ns, h.signedEntry(signer, nf, j > 0 && h.rng.Chance(20)))
		}
		forced := strings.Contains(h.tag, "-chain") // the scripted chain histories always carry both constructions
		if kind == "migrate" && (h.rng.Chance(50) || forced) {
			// the new GCA re-authorizes servers the client already knows (the usual migration: the GCA replaces
			// its key and keeps its servers); their old entries say nothing about the new list
			var re []server.AuthorizedServer
			for _, kk := range sortedKeys(known) {
				if fk, ok := h.fakes[kk]; ok && (h.rng.Chance(70) || forced) {
					re = append(re, h.signedEntry(ng, fk, known[kk].Banned))
				}
			}
			if h.rng.Bool() {
				ns = append(re, ns...)
			} else {
				ns = append(ns, re...)
			}
			h.count("order.known-servers")
		}
		if kind == "migrate" && (h.rng.Chance(30) || forced) { // a ban followed by the older, unbanned authorization of the same key: the ban stands
			x := newKey().pub
			ns = append(ns, mkAS(h.tab, ng, x, true, "127.0.0.4", 4, 5, 6), mkAS(h.tab, ng, x, false, "127.0.0.4", 4, 5, 6))
			h.count("order.ban-then-older-entry")
		}
		if kind == "migrate" && h.rng.Chance(30) && k > 0 { // duplicate key inside the order: first entry wins unless the later one is a ban
			ns = append(ns, mkAS(h.tab, ng, ns[0].PublicKey, h.rng.Bool(), "127.0.0.3", 1, 2, 3))
		}
		eq := h.cd.dev.pub
		if kind == "foreign-order" {
			eq = newKey().pub // a genuine order of the current GCA, but for another device
		}
		outer := h.gca
		if kind == "selfsigned" {
			outer = ng // the order is signed by the NEW GCA itself instead of the current one
		}
		m := mkMig(h.tab, outer, eq, ng.pub, uint32(h.rng.Range(1, 1<<30)), ns)
		b := send(signedWire(h.tab, spec.withMigration(m).content(), f.key))
		switch kind {
		case "migrate", "migrate0":
			b.valid, b.mig = true, &m
			h.newGCAs[ng.pub] = ng
		case "samegca":
			b.valid, b.servers = true, ns
		}
		return b
	case "ban-then-move": // bans every other server; for servers already banned, a ban record with another address
		for _, k := range sortedKeys(known) {
			fk, ok := h.fakes[k]
			if !ok || k == f.key.pub {
				continue
			}
			if known[k].Banned {
				spec.servers = append(spec.servers, mkAS(h.tab, h.gca, k, true, "127.0.0.9", 11, fk.port, 12))
			} else {
				spec.servers = append(spec.servers, h.signedEntry(h.gca, fk, true))
			}
		}
		b := send(signedWire(h.tab, spec.content(), f.key))
		b.valid, b.servers = true, spec.servers
		return b
	case "success", "delayed", "early":
		var extra []server.AuthorizedServer
		if !h.plain && h.rng.Chance(40) {
			nf, _ := h.addFake(h.rng.Chance(60))
			extra = append(extra, h.signedEntry(h.gca, nf, h.rng.Chance(25)))
			h.count("reply.new-server")
		}
		if !h.plain && h.rng.Chance(30) {
			// a banned server the client has never heard of, with a location of boundary length (255 bytes is
			// the longest the reply can carry): recorded and saved like any other
			n := []int{255, 254, 0, 1, 255}[h.rng.Intn(5)]
			extra = append(extra, mkAS(h.tab, h.gca, newKey().pub, true, strings.Repeat("l", n), 1, 2, 3))
			h.count("reply.location-boundary")
		}
		var banKey *glow.PublicKey
		if !h.plain && h.rng.Chance(35) {
			ks := sortedKeys(known)
			k := ks[h.rng.Intn(len(ks))]
			banKey = &k
			h.count("reply.ban")
		}
		spec.servers = h.listFor(known, extra, banKey)
		w := signedWire(h.tab, spec.content(), f.key)
		b := send(w)
		b.valid, b.servers = true, spec.servers
		if kind == "delayed" {
			b.act = peerAction{kind: actDelayed, data: w, delay: 120 * time.Millisecond}
		}
		if kind == "early" {
			b.act = peerAction{kind: actEarly, data: w}
		}
		return b
	}
	panic("unknown behaviour " + kind)
}

var failKinds = []string{"reset", "refusal-byte", "short", "badsig", "stale", "future", "wrongdev", "badsrvsig", "badsrvsig-known", "badinner-known", "badlen", "rogue-short", "garbage", "tiny", "badmig"}
var okKinds = []string{"success", "success", "delayed", "early"}

// ---------------------------------------------------------------- the suite

type rogueCorpus struct {
	Kind string `json:"kind"`
	N    int    `json:"n"`
	Sent int    `json:"sent"`
}

func rogueSuite(seed uint64, tier, outDir string) (*core.Result, error) {
	res := core.NewResult("rogue", seed, tier)
	rng := core.NewRNG(seed)
	thorough := tier == "thorough"

	// ---- corpus first
	var corpus []rogueCorpus
	if root := os.Getenv("VERIF_ROOT"); root != "" {
		files, _ := filepath.Glob(filepath.Join(root, "corpus", "C11", "*.json"))
		sort.Strings(files)
		for _, f := range files {
			b, err := os.ReadFile(f)
			if err != nil {
				continue
			}
			var c rogueCorpus
			if json.Unmarshal(b, &c) == nil && c.Kind != "" {
				corpus = append(corpus, c)
				res.Count("corpus")
			}
		}
	}

	// ================= A. length-prefix sweep, unsigned bodies
	peer, err := newScriptPeer(nil)
	if err != nil {
		return nil, err
	}
	defer peer.close()
	dev, srvKey, gcaKey := newKey(), newKey(), newKey()
	pc := client.VerifSyncIdentityClient(dev.pub, 7)
	var sweep []string
	doSweep := func(n, sent int, fill byte, tm int64, class string) {
		var body []byte
		if sent < 72 {
			body = bytes.Repeat([]byte{fill}, sent)
		} else {
			body = bytes.Repeat([]byte{fill}, sent-72)
			body = binary.LittleEndian.AppendUint64(body, uint64(tm))
			body = append(body, bytes.Repeat([]byte{fill}, 64)...)
		}
		stream := make([]byte, 2, 2+len(body))
		binary.LittleEndian.PutUint16(stream, uint16(n))
		stream = append(stream, body...)
		o := parseVia(res, peer, pc, stream, srvKey.pub, gcaKey.pub)
		res.Count(class)
		desc := map[string]interface{}{"kind": "prefix-sweep", "length_prefix": n, "bytes_sent": sent, "fill": fill, "time": tm, "outcome": o.canon()}
		res.Case(desc, fmt.Sprint("sw", n, sent, fill, tm == o.now), o.panicked == "" && n != sent)
		sweep = append(sweep, core.Tuple(core.Z(int64(n)), core.Z(int64(sent)), core.Z(int64(fill)), core.Z(tm), core.Z(o.now), o.gallina()))
		if o.panicked != "" {
			res.Fail(fmt.Sprintf("client panics on a reply with length prefix %d (%d bytes sent, no valid signature needed): %s", n, sent, o.panicked),
				"parse-panic:"+panicClass(o.panicked), desc)
		}
		if o.ok {
			res.Fail("unsigned reply accepted", "unsigned-accepted", desc)
		}
	}
	for _, c := range corpus {
		if c.Kind == "prefix" {
			doSweep(c.N, c.Sent, 0xab, time.Now().Unix(), "sweep.corpus")
		}
	}
	edges := []int{0, 1, 2, 3, 7, 8, 63, 64, 65, 71, 72, 73, 135, 136, 137, 539, 540, 541, 571, 572, 575, 576, 577, 675, 676, 677, 711, 712, 713, 1000, 32767, 32768, 65463, 65464, 65535}
	for _, n := range edges {
		doSweep(n, n, byte(rng.U64()), time.Now().Unix(), "sweep.edge")
		doSweep(n, n, 0, time.Now().Unix(), "sweep.edge")
		if n > 0 {
			doSweep(n, rng.Intn(n), byte(rng.U64()), time.Now().Unix(), "sweep.short-read")
		}
		doSweep(n, n, 0xff, time.Now().Unix()-200000, "sweep.stale")
	}
	if thorough {
		for n := 0; n <= 65535; n++ {
			if n%8 == 0 || n < 1500 {
				doSweep(n, n, byte(n), time.Now().Unix(), "sweep.all")
			}
		}
	} else {
		for i := 0; i < 150; i++ {
			n := rng.Intn(65536)
			if rng.Chance(50) {
				n = rng.Intn(800)
			}
			doSweep(n, n, byte(rng.U64()), time.Now().Unix(), "sweep.random")
		}
	}
	for off := 0; off < len(sweep); off += 900 {
		end := off + 900
		if end > len(sweep) {
			end = len(sweep)
		}
		keys := core.Tuple(core.Hex(dev.pub[:]), core.Hex(srvKey.pub[:]), core.Hex(gcaKey.pub[:]))
		if err := res.CasesFile(outDir, fmt.Sprintf("cases_sweep_%d", off/900), syncImports, "swcase", sweep[off:end], "sw_mismatches "+modelMinLen+" "+keys); err != nil {
			return nil, err
		}
	}

	// ================= B. rogue authorized server: arbitrary contents, correctly signed
	tab := &sigTab{}
	var bases, pcases []string // pcases[i] is the tail of the case whose base is bases[i]
	addBase := func(stream []byte, t *sigTab) int {
		bases = append(bases, core.Tuple(core.Hex(dev.pub[:]), core.Hex(srvKey.pub[:]), core.Hex(gcaKey.pub[:]), core.Hex(stream), t.gallina()))
		return len(bases) - 1
	}
	runSigned := func(stream []byte, t *sigTab, class string, desc map[string]interface{}) parseObs {
		o := parseVia(res, peer, pc, stream, srvKey.pub, gcaKey.pub)
		addBase(stream, t)
		res.Count(class)
		desc["outcome"] = o.canon()
		if len(o.canon()) > 80 {
			desc["outcome"] = o.canon()[:80]
		}
		res.Case(desc, fmt.Sprint(class, desc["n"], o.canon()), true)
		pcases = append(pcases, core.Tuple("MNone", core.Z(o.now), o.gallina()))
		if o.panicked != "" {
			res.Fail(fmt.Sprintf("client panics on a correctly signed reply of %v bytes from a rogue authorized server: %s", desc["n"], o.panicked),
				"parse-panic:"+panicClass(o.panicked), desc)
		}
		return o
	}
	signedRandom := func(n int, zero bool, class string) {
		if n < 64 {
			return
		}
		content := rng.Bytes(n - 64)
		if zero {
			content = make([]byte, n-64)
		}
		if len(content) >= 8 {
			binary.LittleEndian.PutUint64(content[len(content)-8:], uint64(time.Now().Unix()))
		}
		if len(content) >= 32 && rng.Chance(80) {
			copy(content, dev.pub[:])
		}
		t := &sigTab{}
		stream := signedWire(t, content, srvKey)
		o := runSigned(stream, t, class, map[string]interface{}{"kind": "rogue-signed", "n": n, "zero_fill": zero})
		if o.ok && n < 712 {
			// fields overlap: the reply cannot be a genuine one
			res.Fail(fmt.Sprintf("client accepts a %d-byte reply, shorter than the fixed fields of the format (712)", n), "short-accepted", map[string]interface{}{"n": n})
		}
	}
	for _, c := range corpus {
		if c.Kind == "rogue-signed" {
			signedRandom(c.N, true, "rogue.corpus")
		}
	}
	for _, n := range []int{64, 71, 72, 73, 100, 135, 136, 539, 540, 541, 571, 572, 575, 576, 577, 600, 675, 676, 677, 700, 711, 712, 713, 745, 746, 815, 816, 817, 900} {
		signedRandom(n, false, "rogue.edge-random")
		signedRandom(n, true, "rogue.edge-zero")
	}
	nb := 60
	if thorough {
		nb = 1500
	}
	for i := 0; i < nb; i++ {
		signedRandom(rng.Range(64, 1100), rng.Chance(30), "rogue.random-length")
	}
	// genuine-looking replies, content mutated, re-signed with the contacted server's real key
	gcaK := keyPair{gcaKey.pub, gcaKey.priv}
	nm := 80
	if thorough {
		nm = 2500
	}
	for i := 0; i < nm; i++ {
		t := tab.clone()
		spec := replySpec{devKey: dev.pub, offset: uint32(rng.Intn(5000)), unixTime: uint64(time.Now().Unix())}
		copy(spec.bitfield[:], rng.Bytes(504))
		for j, ns := 0, rng.Intn(4); j < ns; j++ {
			loc := string(bytes.Repeat([]byte{'a' + byte(j)}, []int{0, 1, 9, 254, 255}[rng.Intn(5)]))
			spec.servers = append(spec.servers, mkAS(t, gcaK, newKey().pub, rng.Chance(30), loc, uint16(rng.U64()), uint16(rng.U64()), uint16(rng.U64())))
		}
		content := spec.content()
		class := "rogue.resigned-intact"
		switch rng.Intn(7) {
		case 0: // intact
		case 1: // one random byte of the list region changed
			if len(content) > 712-64 {
				p := 576 + rng.Intn(len(content)-576-72)
				content[p] ^= byte(1 + rng.Intn(255))
				class = "rogue.resigned-list-byte"
			}
		case 2: // a location length byte changed
			if len(spec.servers) > 0 {
				content[576+33] = byte(rng.U64())
				class = "rogue.resigned-loclen"
			}
		case 3: // list region cut
			if len(content) > 712-64 {
				cut := rng.Range(1, len(content)-576-72)
				content = append(append([]byte{}, content[:len(content)-72-cut]...), content[len(content)-72:]...)
				class = "rogue.resigned-cut"
			}
		case 4: // junk inserted in the list region
			ins := rng.Bytes(rng.Range(1, 200))
			content = append(append(append([]byte{}, content[:len(content)-72]...), ins...), content[len(content)-72:]...)
			class = "rogue.resigned-junk"
		case 5: // non-blank new GCA without a valid order
			copy(content[540:], rng.Bytes(32))
			class = "rogue.resigned-newgca"
		case 6: // any byte anywhere
			content[rng.Intn(len(content))] ^= byte(1 + rng.Intn(255))
			class = "rogue.resigned-any-byte"
		}
		stream := signedWire(t, content, srvKey)
		runSigned(stream, t, class, map[string]interface{}{"kind": "rogue-resigned", "n": len(content) + 64, "class": class})
	}
	for off := 0; off < len(pcases); off += 300 {
		end := off + 300
		if end > len(pcases) {
			end = len(pcases)
		}
		// re-index the bases of this shard
		var sb, sc []string
		for i := off; i < end; i++ {
			sb = append(sb, bases[i])
			sc = append(sc, "("+core.Nat(i-off)+", "+pcases[i][1:])
		}
		if err := res.CasesFile(outDir, fmt.Sprintf("cases_roguesigned_%d", off/300), syncImports, "pcase", sc, "pc_mismatches "+modelMinLen+" "+core.List(sb)); err != nil {
			return nil, err
		}
	}

	// ================= C. client histories
	nh := 24
	if thorough {
		nh = 560
	}
	type job struct {
		idx  int
		rng  *core.RNG
		kind string
	}
	var jobs []job
	forced := []string{"single-down", "all-banned", "all-failed", "six-servers", "six-late-failures", "all-kinds", "mixed"}
	for _, c := range corpus {
		if c.Kind == "round-single-down" {
			forced = append([]string{"single-down"}, forced...)
		}
	}
	for i := 0; i < nh; i++ {
		k := "mixed"
		if i < len(forced) {
			k = forced[i]
		}
		jobs = append(jobs, job{i, rng.Fork(), k})
	}
	results := make([]*histRun, len(jobs))
	var wg sync.WaitGroup
	sem := make(chan struct{}, 8)
	var firstErr error
	var emu sync.Mutex
	for _, j := range jobs {
		wg.Add(1)
		sem <- struct{}{}
		go func(j job) {
			defer wg.Done()
			defer func() { <-sem }()
			h := newHistRun(j.rng, fmt.Sprintf("rogue%d-%s", j.idx, j.kind))
			h.prop = "C11"
			if err := runRogueHistory(h, j.kind, thorough); err != nil {
				emu.Lock()
				if firstErr == nil {
					firstErr = err
				}
				emu.Unlock()
			}
			results[j.idx] = h
		}(j)
	}
	wg.Wait()
	if firstErr != nil {
		return nil, firstErr
	}
	var hitems []string
	for _, h := range results {
		nontrivial := false
		for _, d := range h.desc {
			if m, ok := d.(map[string]interface{}); ok && m["result"] == "RTrue" {
				nontrivial = true
			}
		}
		h.mergeInto(res)
		res.Case(map[string]interface{}{"kind": "client-history", "name": h.tag, "steps": h.desc}, h.gallina(), nontrivial)
		res.Evaluations += len(h.desc) - 1 // every load / round of the history is compared with the model
		hitems = append(hitems, h.gallina())
		h.cleanup()
	}
	for off := 0; off < len(hitems); off += 12 {
		end := off + 12
		if end > len(hitems) {
			end = len(hitems)
		}
		if err := res.CasesFile(outDir, fmt.Sprintf("cases_roguehist_%d", off/12), syncImports, "hcase", hitems[off:end], "h_mismatches "+modelVersion); err != nil {
			return nil, err
		}
	}

	// ================= D. liveness of a real client whose only server is down
	if err := rogueLiveness(res); err != nil {
		return nil, err
	}
	// ================= E. two overlapping sync rounds of a real client, one of them on a server that gets banned meanwhile
	if err := rogueOverlap(res); err != nil {
		return nil, err
	}
	if err := rogueStaleCandidates(res); err != nil {
		return nil, err
	}
	if err := roguePersistOrder(res); err != nil {
		return nil, err
	}

	res.Required = append(res.Required, "sweep.edge", "sweep.short-read", "sweep.stale", "rogue.edge-random", "rogue.edge-zero", "rogue.random-length",
		"round.single-down", "round.all-banned", "round.all-failed", "round.six-servers", "round.six-late-failures", "attempt.refuse", "attempt.reset", "attempt.short",
		"attempt.badsig", "attempt.stale", "attempt.future", "attempt.wrongdev", "attempt.badsrvsig", "attempt.badlen", "attempt.rogue-short",
		"attempt.garbage", "attempt.tiny", "attempt.badmig", "attempt.refusal-byte", "attempt.success", "attempt.delayed", "attempt.early", "hist.load", "liveness.report-after-failed-sync", "liveness.sync-retried", "persist-order.trial")
	res.Rule = "A: every length prefix edge (0..65535) with unsigned bodies, short reads; B: contents of 64..1100 bytes correctly signed by the contacted server (random / zero), genuine replies mutated in the list region and re-signed; C: client histories over 1..6 scripted servers with per-round behaviours and restarts (non-trivial = at least one accepted reply, distinct by full transcript); D: real client with the reporting loop and a dead / resetting / never-answering server; E: real client, two overlapping sync rounds (slow server banned by the fast one meanwhile)"
	return res, nil
}

// one history of the rogue suite
func runRogueHistory(h *histRun, kind string, thorough bool) error {
	rng := h.rng
	n := rng.Range(1, 5)
	switch kind {
	case "single-down":
		n = 1
	case "six-servers", "six-late-failures":
		n = 6
	case "all-kinds":
		n = 1
	}
	initial := map[glow.PublicKey]client.GCAServer{}
	for i := 0; i < n; i++ {
		listen := rng.Chance(75)
		banned := rng.Chance(20)
		switch kind {
		case "single-down":
			listen, banned = false, false
		case "all-banned":
			banned = true
		case "all-failed":
			banned = false
		case "six-servers":
			listen, banned = i == 0 || rng.Chance(50), false
		case "six-late-failures":
			listen, banned = true, false
		case "all-kinds":
			listen, banned = true, false
		}
		f, err := h.addFake(listen)
		if err != nil {
			return err
		}
		initial[f.key.pub] = h.entryFor(f, banned)
	}
	if err := h.start(initial); err != nil {
		return err
	}
	rounds := rng.Range(3, 6)
	allKinds := append(append([]string{}, failKinds...), "success", "delayed", "early")
	if kind == "all-kinds" {
		rounds = len(allKinds)
		h.plain = true
	}
	for r := 0; r < rounds && !h.dead; r++ {
		known := stateMap(client.VerifState(h.c))
		plan := map[glow.PublicKey]beh{}
		label := kind
		for _, k := range sortedKeys(known) {
			f, ok := h.fakes[k]
			if !ok || f.peer == nil {
				continue
			}
			bk := failKinds[rng.Intn(len(failKinds))]
			if rng.Chance(35) {
				bk = okKinds[rng.Intn(len(okKinds))]
			}
			if kind == "all-failed" && r == 0 {
				bk = failKinds[rng.Intn(len(failKinds))]
			}
			if kind == "all-kinds" {
				bk = allKinds[r]
				if k != h.order[0] {
					bk = "reset"
				}
			}
			if kind == "six-late-failures" {
				// every server answers, and every reply is refused by one of the LAST checks (entries not signed by
				// the GCA, orders not signed by the current GCA): the round makes all its attempts, none succeeds
				bk = []string{"badsrvsig", "badmig", "badsrvsig-known", "badinner-known", "badinner"}[rng.Intn(5)]
			}
			if kind == "six-servers" && r == 0 {
				bk = "reset"
				if k == h.order[0] {
					bk = "success"
				}
			}
			plan[k] = h.mkBeh(bk, f, known)
		}
		if r > 0 && kind != "single-down" {
			label = "mixed"
		}
		h.round(plan, label)
		if !h.dead && rng.Chance(30) && kind != "all-kinds" {
			h.load()
		}
	}
	if !h.dead {
		h.load()
	}
	return nil
}

// D: a real client (NewClient, reporting loop running) whose only server does not
// answer on TCP.  After the failed sync the client must still emit new readings
// and must try to sync again.
func rogueLiveness(res *core.Result) error {
	sink, err := net.ListenUDP("udp", &net.UDPAddr{IP: net.ParseIP("127.0.0.1"), Port: 0})
	if err != nil {
		return err
	}
	defer sink.Close()
	var mu sync.Mutex
	got := map[uint32]bool{}
	go func() {
		buf := make([]byte, 200)
		for {
			n, _, err := sink.ReadFromUDP(buf)
			if err != nil {
				return
			}
			if n == 80 {
				mu.Lock()
				got[binary.LittleEndian.Uint32(buf[4:8])] = true
				mu.Unlock()
			}
		}
	}()
	// the TCP side: a peer that resets every connection, and counts them
	peer, err := newScriptPeer(func(int) peerAction { return peerAction{kind: actReset} })
	if err != nil {
		return err
	}
	defer peer.close()
	for _, mode := range []string{"dial-refused", "reset", "hang"} {
		srv := newKey()
		tcp := deadPort()
		if mode == "reset" {
			tcp = peer.port
			peer.setScript(func(int) peerAction { return peerAction{kind: actReset} })
		}
		if mode == "hang" { // the first connection is accepted, its request read, and never answered; later ones are reset
			tcp = peer.port
			peer.setScript(func(k int) peerAction {
				if k == 0 {
					return peerAction{kind: actDelayed, delay: 7 * time.Second}
				}
				return peerAction{kind: actReset}
			})
		}
		udpPort := uint16(sink.LocalAddr().(*net.UDPAddr).Port)
		cd, err := writeClientDir("verif-live-"+mode, newKey(), newKey().pub, 3, map[glow.PublicKey]client.GCAServer{
			srv.pub: {Location: "127.0.0.1", HttpPort: 9, TcpPort: tcp, UdpPort: udpPort}})
		if err != nil {
			return err
		}
		// last successful sync long ago: the loop syncs at its first opportunity
		os.WriteFile(filepath.Join(cd.dir, client.LastSyncFile), []byte("1"), 0644)
		mu.Lock()
		got = map[uint32]bool{}
		mu.Unlock()
		c, err := client.NewClient(cd.dir)
		if err != nil {
			return fmt.Errorf("liveness client does not start: %v", err)
		}
		tick := time.Duration(client.VerifConsts()["sendReportTimeMs"]) * time.Millisecond
		write := func(slots ...uint32) {
			s := "timestamp,energy (mWh)\n"
			for _, ts := range slots {
				s += fmt.Sprintf("%d,%d\n", int64(glow.GenesisTime)+int64(ts)*300, 5000+ts)
			}
			tmp := filepath.Join(cd.dir, "energy.tmp")
			os.WriteFile(tmp, []byte(s), 0644)
			os.Rename(tmp, filepath.Join(cd.dir, client.EnergyFile))
		}
		waitFor := func(ts uint32, d time.Duration) bool {
			dl := time.Now().Add(d)
			for time.Now().Before(dl) {
				mu.Lock()
				ok := got[ts]
				mu.Unlock()
				if ok {
					return true
				}
				time.Sleep(10 * time.Millisecond)
			}
			return false
		}
		write(1)
		first := waitFor(1, 40*tick)
		// the first sync round starts one tick after start-up and gives up after at most 5 attempts
		time.Sleep(12 * tick)
		write(1, 2)
		second := waitFor(2, 60*tick)
		res.Count("liveness.report-after-failed-sync")
		desc := map[string]interface{}{"kind": "liveness", "server": mode, "reading_before_sync_arrived": first, "reading_after_failed_sync_arrived": second}
		res.Case(desc, "live"+mode, true)
		if first && !second {
			res.Fail("after a failed sync round ("+mode+") the client stops emitting reports: the reading of the next timeslot never reaches the server",
				"reporting-stopped", desc)
		}
		if mode == "reset" || mode == "hang" {
			// sync is retried: several rounds within a few seconds while the status is "failed" -- also while
			// an earlier attempt is still waiting for a server that never answers
			dl := time.Now().Add(100 * tick)
			rounds := 0
			for time.Now().Before(dl) {
				peer.mu.Lock()
				rounds = peer.hits
				peer.mu.Unlock()
				if rounds >= 3 {
					break
				}
				time.Sleep(20 * time.Millisecond)
			}
			res.Count("liveness.sync-retried")
			if rounds < 3 {
				res.Fail("the client does not try to sync again after a failed round ("+mode+")", "sync-not-retried", map[string]interface{}{"connections": rounds, "server": mode})
			}
		} else {
			res.Count("liveness.sync-retried")
		}
		done := make(chan struct{})
		go func() { c.Close(); close(done) }()
		select {
		case <-done:
		case <-time.After(3 * time.Second):
			res.Count("liveness.close-hangs")
		}
		os.RemoveAll(cd.dir)
	}
	return nil
}

// E: two sync rounds of a real client overlap.  Server X answers slowly (a correct reply that does not
// mention its own ban), server Y answers at once and its GCA-signed list bans X.  Whatever the order in
// which the two rounds finish, the client must not end up with X -- which it knows to be banned -- as
// the server it reports to.  The first server a round contacts is the client's random choice: the
// scenario is repeated until X was contacted first (otherwise the rounds do not overlap on X).
func rogueOverlap(res *core.Result) error {
	tab := &sigTab{}
	for attempt := 0; attempt < 8; attempt++ {
		gca, dev, kx, ky := newKey(), newKey(), newKey(), newKey()
		sinkX, err := net.ListenUDP("udp", &net.UDPAddr{IP: net.ParseIP("127.0.0.1"), Port: 0})
		if err != nil {
			return err
		}
		sinkY, err := net.ListenUDP("udp", &net.UDPAddr{IP: net.ParseIP("127.0.0.1"), Port: 0})
		if err != nil {
			sinkX.Close()
			return err
		}
		ux, uy := uint16(sinkX.LocalAddr().(*net.UDPAddr).Port), uint16(sinkY.LocalAddr().(*net.UDPAddr).Port)
		var mu sync.Mutex
		var toX, toXlate int
		var banLearnt time.Time
		go func() {
			buf := make([]byte, 200)
			for {
				n, _, err := sinkX.ReadFromUDP(buf)
				if err != nil {
					return
				}
				if n == 80 {
					mu.Lock()
					toX++
					if !banLearnt.IsZero() && time.Since(banLearnt) > 700*time.Millisecond {
						toXlate++
					}
					mu.Unlock()
				}
			}
		}()
		var px, py *scriptPeer
		reply := func(self keyPair, banX bool) []byte {
			spec := replySpec{devKey: dev.pub, unixTime: uint64(time.Now().Unix())}
			spec.servers = []server.AuthorizedServer{
				mkAS(tab, gca, kx.pub, banX, "127.0.0.1", 9, px.port, ux),
				mkAS(tab, gca, ky.pub, false, "127.0.0.1", 9, py.port, uy)}
			return signedWire(tab, spec.content(), self)
		}
		px, err = newScriptPeer(func(int) peerAction { return peerAction{kind: actReset} })
		if err != nil {
			return err
		}
		py, err = newScriptPeer(func(int) peerAction { return peerAction{kind: actReset} })
		if err != nil {
			px.close()
			return err
		}
		var firstX, firstY time.Time
		px.setScript(func(k int) peerAction {
			if firstX.IsZero() {
				firstX = time.Now()
			}
			return peerAction{kind: actDelayed, delay: 450 * time.Millisecond, data: reply(kx, false)}
		})
		py.setScript(func(k int) peerAction {
			if firstY.IsZero() {
				firstY = time.Now()
			}
			mu.Lock()
			if banLearnt.IsZero() {
				banLearnt = time.Now()
			}
			mu.Unlock()
			return peerAction{kind: actSend, data: reply(ky, true)}
		})
		cd, err := writeClientDir("verif-overlap", dev, gca.pub, 3, map[glow.PublicKey]client.GCAServer{
			kx.pub: {Location: "127.0.0.1", HttpPort: 9, TcpPort: px.port, UdpPort: ux},
			ky.pub: {Location: "127.0.0.1", HttpPort: 9, TcpPort: py.port, UdpPort: uy}})
		if err != nil {
			return err
		}
		os.WriteFile(filepath.Join(cd.dir, client.LastSyncFile), []byte("1"), 0644)
		c, err := client.NewClient(cd.dir)
		if err != nil {
			return fmt.Errorf("overlap client does not start: %v", err)
		}
		// readings keep arriving, so the loop keeps reporting to its primary server
		stop := make(chan struct{})
		go func() {
			for ts := uint32(1); ; ts++ {
				select {
				case <-stop:
					return
				default:
				}
				sRows := "timestamp,energy (mWh)\n"
				for k := uint32(1); k <= ts; k++ {
					sRows += fmt.Sprintf("%d,%d\n", int64(glow.GenesisTime)+int64(k)*300, 5000+k)
				}
				tmp := filepath.Join(cd.dir, "energy.tmp")
				os.WriteFile(tmp, []byte(sRows), 0644)
				os.Rename(tmp, filepath.Join(cd.dir, client.EnergyFile))
				time.Sleep(70 * time.Millisecond)
			}
		}()
		time.Sleep(2200 * time.Millisecond)
		close(stop)
		var st client.VerifClientState
		locked := !client.VerifTryLock(c)
		if !locked {
			st = client.VerifState(c)
		}
		done := make(chan struct{})
		go func() { c.Close(); close(done) }()
		select {
		case <-done:
		case <-time.After(3 * time.Second):
		}
		sinkX.Close()
		sinkY.Close()
		px.close()
		py.close()
		os.RemoveAll(cd.dir)
		xFirst := !firstX.IsZero() && (firstY.IsZero() || firstX.Before(firstY))
		if !xFirst || firstY.IsZero() || locked {
			res.Discarded++
			continue // the rounds did not overlap on X this time
		}
		res.Count("overlap.judged")
		knowsBan := false
		for _, e := range st.Servers {
			if e.Key == kx.pub && e.Server.Banned {
				knowsBan = true
			}
		}
		mu.Lock()
		late := toXlate
		mu.Unlock()
		desc := map[string]interface{}{"kind": "overlapping-rounds", "knows_x_banned": knowsBan, "primary_is_x": st.PrimaryServer == kx.pub, "reports_to_x_after_ban": late}
		res.Case(desc, fmt.Sprint("overlap", attempt), true)
		if knowsBan && st.PrimaryServer == kx.pub {
			res.Fail("after two overlapping sync rounds the client reports to a server it knows to be banned (the slow round, answered by the banned server itself, selected it again)", "selected-banned-after-overlap", desc)
		}
		return nil
	}
	return nil
}

// F: two sync rounds of a real client overlap; the slow server of the first round finally FAILS, and by
// then the second round has learnt (from the fast server's GCA-signed list) that server O is banned.
// The first round's next attempt must not contact O.  Repeated until the first round really started
// on the slow server; a round that moves on to the fast server instead of O proves nothing, so up to
// three judged repetitions.
func rogueStaleCandidates(res *core.Result) error {
	tab := &sigTab{}
	judged := 0
	for attempt := 0; attempt < 16 && judged < 6; attempt++ {
		gca, dev, kx, ky, ko := newKey(), newKey(), newKey(), newKey(), newKey()
		var mu sync.Mutex
		var banLearnt time.Time
		var oAfterBan int
		var firstX, firstY time.Time
		var px, py, po *scriptPeer
		list := func(banO bool) []server.AuthorizedServer {
			return []server.AuthorizedServer{
				mkAS(tab, gca, kx.pub, false, "127.0.0.1", 9, px.port, 9),
				mkAS(tab, gca, ky.pub, false, "127.0.0.1", 9, py.port, 9),
				mkAS(tab, gca, ko.pub, banO, "127.0.0.1", 9, po.port, 9)}
		}
		var err error
		if px, err = newScriptPeer(func(int) peerAction { return peerAction{kind: actReset} }); err != nil {
			return err
		}
		if py, err = newScriptPeer(func(int) peerAction { return peerAction{kind: actReset} }); err != nil {
			px.close()
			return err
		}
		if po, err = newScriptPeer(func(int) peerAction { return peerAction{kind: actReset} }); err != nil {
			px.close()
			py.close()
			return err
		}
		px.setScript(func(k int) peerAction { // slow, and what finally comes is not a reply
			mu.Lock()
			if firstX.IsZero() {
				firstX = time.Now()
			}
			mu.Unlock()
			return peerAction{kind: actDelayed, delay: 400 * time.Millisecond, data: frame([]byte("not a sync reply"))}
		})
		py.setScript(func(k int) peerAction {
			mu.Lock()
			if firstY.IsZero() {
				firstY = time.Now()
			}
			if banLearnt.IsZero() {
				banLearnt = time.Now()
			}
			mu.Unlock()
			spec := replySpec{devKey: dev.pub, unixTime: uint64(time.Now().Unix()), servers: list(true)}
			return peerAction{kind: actSend, data: signedWire(tab, spec.content(), ky)}
		})
		po.setScript(func(k int) peerAction {
			mu.Lock()
			if !banLearnt.IsZero() && time.Since(banLearnt) > 150*time.Millisecond {
				oAfterBan++
			}
			mu.Unlock()
			return peerAction{kind: actReset}
		})
		cd, err := writeClientDir("verif-stale", dev, gca.pub, 3, map[glow.PublicKey]client.GCAServer{
			kx.pub: {Location: "127.0.0.1", HttpPort: 9, TcpPort: px.port, UdpPort: 9},
			ky.pub: {Location: "127.0.0.1", HttpPort: 9, TcpPort: py.port, UdpPort: 9},
			ko.pub: {Location: "127.0.0.1", HttpPort: 9, TcpPort: po.port, UdpPort: 9}})
		if err != nil {
			return err
		}
		c, err, pan := client.VerifSyncLoadClient(cd.dir)
		if err != nil || pan != "" {
			return fmt.Errorf("stale-candidates client does not load: %v %s", err, pan)
		}
		var wg sync.WaitGroup
		wg.Add(2)
		go func() { defer wg.Done(); client.VerifSyncRound(c, 1) }()
		go func() {
			defer wg.Done()
			// the second round starts once the first one is waiting on the slow server; it is repeated until it
			// has been to the fast server (it may try the slow or the doomed one first)
			for i := 0; i < 40; i++ {
				mu.Lock()
				x, y := firstX, firstY
				mu.Unlock()
				if !y.IsZero() {
					return
				}
				if x.IsZero() {
					time.Sleep(5 * time.Millisecond)
					continue
				}
				client.VerifSyncRound(c, 1)
			}
		}()
		wg.Wait()
		time.Sleep(100 * time.Millisecond)
		c.VerifSyncStop()
		c.VerifSyncForget()
		px.close()
		py.close()
		po.close()
		os.RemoveAll(cd.dir)
		mu.Lock()
		ok := !firstX.IsZero() && !firstY.IsZero() && firstX.Before(firstY) && firstY.Sub(firstX) < 300*time.Millisecond
		after := oAfterBan
		mu.Unlock()
		if !ok {
			res.Discarded++
			continue
		}
		judged++
		res.Count("stale-candidates.judged")
		desc := map[string]interface{}{"kind": "overlapping-rounds-stale-candidates", "connections_to_banned_server_after_the_ban_was_learnt": after}
		res.Case(desc, fmt.Sprint("stale", attempt), true)
		if after > 0 {
			res.Fail("a sync round that had started before the client learnt (in an overlapping round) that a server is banned went on to contact that server after its own server failed", "contacted-banned-after-overlap", desc)
			return nil
		}
	}
	return nil
}

// G: several sync rounds of one client finish at the same time, each having learnt another ban.  What the
// client holds in memory afterwards must be what is on disk (a restart must not forget a ban).
func roguePersistOrder(res *core.Result) error {
	tab := &sigTab{}
	for trial := 0; trial < 60; trial++ {
		gca, dev := newKey(), newKey()
		const n = 6
		var peers []*scriptPeer
		var skeys, vkeys []keyPair
		for i := 0; i < n; i++ {
			p, err := newScriptPeer(func(int) peerAction { return peerAction{kind: actReset} })
			if err != nil {
				return err
			}
			peers = append(peers, p)
			skeys = append(skeys, newKey())
			vkeys = append(vkeys, newKey())
		}
		known := map[glow.PublicKey]client.GCAServer{}
		for i := 0; i < n; i++ {
			known[skeys[i].pub] = client.GCAServer{Location: "127.0.0.1", HttpPort: 9, TcpPort: peers[i].port, UdpPort: 9}
			known[vkeys[i].pub] = client.GCAServer{Location: "127.0.0.1", HttpPort: 9, TcpPort: deadPort(), UdpPort: 9, Banned: false}
		}
		for i := 0; i < n; i++ {
			i := i
			peers[i].setScript(func(int) peerAction {
				spec := replySpec{devKey: dev.pub, unixTime: uint64(time.Now().Unix())}
				spec.servers = []server.AuthorizedServer{mkAS(tab, gca, vkeys[i].pub, true, "127.0.0.1", 9, 9, 9)} // this server knows one ban
				return peerAction{kind: actSend, data: signedWire(tab, spec.content(), skeys[i])}
			})
		}
		cd, err := writeClientDir("verif-persist", dev, gca.pub, 3, known)
		if err != nil {
			return err
		}
		c, err, pan := client.VerifSyncLoadClient(cd.dir)
		if err != nil || pan != "" {
			return fmt.Errorf("persist-order client does not load: %v %s", err, pan)
		}
		var wg sync.WaitGroup
		start := make(chan struct{})
		for g := 0; g < 8; g++ {
			wg.Add(1)
			go func() { defer wg.Done(); <-start; client.VerifSyncRound(c, 1) }()
		}
		close(start)
		wg.Wait()
		mem := map[glow.PublicKey]bool{}
		if client.VerifTryLock(c) {
			for _, e := range client.VerifState(c).Servers {
				if e.Server.Banned {
					mem[e.Key] = true
				}
			}
		}
		c.VerifSyncStop()
		c.VerifSyncForget()
		c2, err2, pan2 := client.VerifSyncLoadClient(cd.dir)
		disk := map[glow.PublicKey]bool{}
		if err2 == nil && pan2 == "" {
			for _, e := range client.VerifState(c2).Servers {
				if e.Server.Banned {
					disk[e.Key] = true
				}
			}
			c2.VerifSyncStop()
			c2.VerifSyncForget()
		}
		for _, p := range peers {
			p.close()
		}
		os.RemoveAll(cd.dir)
		res.Count("persist-order.trial")
		lost := 0
		for k := range mem {
			if !disk[k] {
				lost++
			}
		}
		if err2 != nil || pan2 != "" {
			res.Fail(fmt.Sprintf("after eight sync rounds finishing together the client cannot be restarted: %v %s", err2, pan2), "persist-order-unloadable", map[string]interface{}{"trial": trial})
			return nil
		}
		if lost > 0 {
			res.Fail(fmt.Sprintf("after eight sync rounds finishing together the client knows %d banned servers, but its server file holds only %d of those bans: a restart forgets %d", len(mem), len(mem)-lost, lost), "ban-lost-on-disk", map[string]interface{}{"trial": trial, "bans_in_memory": len(mem), "bans_lost": lost})
			return nil
		}
	}
	return nil
}
