(* Skel.v -- (T4) lock / IO skeleton language, all-paths semantics and the reflective checker.
   Definitions only; the soundness proofs are in Skel_lemmas.v.

   A function body of packages server/ and client/ is translated (harness/suites/skeletons.go) into a
   [stmt].  [exec] is the path semantics: every branch choice, any number of loop iterations, defers run
   at return and at panic, calls run the callee's skeleton (or, for callees outside the chosen scope, are
   assumed to honour their declared contract), spawned goroutine bodies run from "no lock held".
   Discipline violations are outcomes ([Viol v]) of the semantics, never stuck states.
   [post] is an abstract interpreter over the finite lock-state space with a CHECKED loop fixpoint;
   [check_fn] / [check_scope] are what the generated obligations evaluate by [vm_compute]. *)
From Coq Require Import String List Bool Arith.
Import ListNotations.
Open Scope string_scope.
Open Scope list_scope.

(* ------------------------------------------------------------------ syntax *)

Inductive stmt : Type :=
| Skip
| Lock (m : string) | Unlock (m : string) | DeferUnlock (m : string)
| Read (f : string) | Write (f : string)
| Call (g : string)                 (* CallHeld / CallManaged / CallStatic: the class is the callee's contract *)
| BlockingRead (c : string) | SetDeadline (c : string)
| NetIO (w : string)                (* network I/O, sleeps, accepts: anything that may block for long;
                                       w is a label for diagnosis, e.g. "conn.Write" *)
| Seq (a b : stmt)
| Choice (a b : stmt)               (* if / switch / select: any branch *)
| Block (b : stmt)                  (* switch / select body: catches Break *)
| Loop (inf : bool) (b : stmt)      (* any number of iterations; inf = "for {" without a condition *)
| Return | Break | Continue | Panic
| Spawn (b : stmt)                  (* go statement, tg.Launch / OnStop / AfterStop closure, method value *)
| Unknown (s : string).             (* not understood by the translator: always a violation *)

Inductive kind :=
| KStatic                (* touches only immutable state, takes no lock; callable in any lock state *)
| KFree                  (* entered with no lock held (managed, threaded, launch, exported, handlers) *)
| KHeld (m : string)     (* entered with m held by the caller (or while the object is still exclusive) *)
| KNew.                  (* constructor: creates the object, starts in the exclusive state *)

Record contract := { c_kind : kind; c_ctor : bool; c_blocks : bool; c_panics : bool }.

Inductive naming := NStatic | NManaged | NThreaded | NLaunch | NExported | NHandler | NNew | NPlain.

Record fn := { f_name : string; f_recv : string; f_naming : naming; f_con : contract; f_body : stmt }.

(* what the translator emits per function: the contract is derived in SkelSpec.v *)
Record rawfn := { r_name : string; r_recv : string; r_naming : naming; r_ctor : bool; r_body : stmt }.

Notation "a ;; b" := (Seq a b) (at level 61, right associativity).

Inductive fclass := FGuard (m : string) | FStatic.

Record env := {
  e_fields : list (string * fclass);      (* field classification (SkelSpec.v)                          *)
  e_exempt : list (string * string);      (* (function, field): unguarded READ tolerated, explicit list *)
  e_fns    : list fn;                     (* the program                                                *)
  e_scope  : list string;                 (* functions whose bodies are executed at calls; the others   *)
                                          (*   are assumed to honour their contract                     *)
  e_netio  : bool;                        (* strict: blocking I/O while holding a mutex is a violation  *)
  e_panic  : bool;                        (* strict: leaving a function by panic with a lock is a violation
                                             (otherwise it is the terminal outcome [Die])               *)
  e_deadline : bool                       (* strict: BlockingRead c needs an earlier SetDeadline c      *)
}.

(* ------------------------------------------------------------------ states and outcomes *)

Inductive hold :=
| HExcl                              (* object not yet shared (constructor context) *)
| HFree                              (* no mutex held *)
| HHeld (m : string) (own : bool)    (* m held; own = acquired by this function (else by the caller) *)
| HStat.                             (* inside a static function: locks and guarded state are off limits *)

Record st := { hold_of : hold; defers : list string; dls : list string }.

Definition init (h : hold) : st := {| hold_of := h; defers := []; dls := [] |}.
Definition set_hold (s : st) (h : hold) : st := {| hold_of := h; defers := defers s; dls := dls s |}.

Inductive vkind :=
| VSelfDeadlock | VStack | VUnlockNotHeld | VUnlockBorrowed | VLockInStatic
| VAccess | VStaticWrite | VUnknownField
| VCallUnknown | VCallCtorOnly | VCallUndeclaredBlocking | VCallFreeWhileHeld | VCallFromStatic
| VCallHeldWithout | VCallNew
| VNetIOHeld | VUndeclaredBlocking
| VUnbalancedReturn | VUnbalancedPanic | VDeferredUnlock | VDeadline | VUnknownStmt | VStray.

Record violation := { v_kind : vkind; v_what : string; v_fn : string }.

Inductive res :=
| Norm (s : st) | Brk (s : st) | Cont (s : st) | Ret (s : st) | Pan (s : st)
| Die                                (* process death: panic with a lock held in non-strict mode *)
| Viol (v : violation).

(* outcome of a whole function / goroutine body after its defers ran *)
Inductive ures := UOk | UPanic | UDie | UViol (v : violation).

(* ------------------------------------------------------------------ boolean equalities *)

Definition vk_code (k : vkind) : nat :=
  match k with
  | VSelfDeadlock => 0 | VStack => 1 | VUnlockNotHeld => 2 | VUnlockBorrowed => 3 | VLockInStatic => 4
  | VAccess => 5 | VStaticWrite => 6 | VUnknownField => 7
  | VCallUnknown => 8 | VCallCtorOnly => 9 | VCallUndeclaredBlocking => 10 | VCallFreeWhileHeld => 11
  | VCallFromStatic => 12 | VCallHeldWithout => 13 | VCallNew => 14
  | VNetIOHeld => 15 | VUndeclaredBlocking => 16
  | VUnbalancedReturn => 17 | VUnbalancedPanic => 18 | VDeferredUnlock => 19 | VDeadline => 20
  | VUnknownStmt => 21 | VStray => 22
  end.

Definition viol_eqb (a b : violation) : bool :=
  Nat.eqb (vk_code (v_kind a)) (vk_code (v_kind b)) && String.eqb (v_what a) (v_what b)
  && String.eqb (v_fn a) (v_fn b).

Definition hold_eqb (a b : hold) : bool :=
  match a, b with
  | HExcl, HExcl | HFree, HFree | HStat, HStat => true
  | HHeld m o, HHeld m' o' => String.eqb m m' && Bool.eqb o o'
  | _, _ => false
  end.

Fixpoint strs_eqb (a b : list string) : bool :=
  match a, b with
  | [], [] => true
  | x :: a', y :: b' => String.eqb x y && strs_eqb a' b'
  | _, _ => false
  end.

Definition st_eqb (a b : st) : bool :=
  hold_eqb (hold_of a) (hold_of b) && strs_eqb (defers a) (defers b) && strs_eqb (dls a) (dls b).

Definition res_eqb (a b : res) : bool :=
  match a, b with
  | Norm x, Norm y | Brk x, Brk y | Cont x, Cont y | Ret x, Ret y | Pan x, Pan y => st_eqb x y
  | Die, Die => true
  | Viol v, Viol w => viol_eqb v w
  | _, _ => false
  end.

Definition mem_str (x : string) (l : list string) : bool := existsb (String.eqb x) l.
Definition mem_st (x : st) (l : list st) : bool := existsb (st_eqb x) l.
Definition mem_res (x : res) (l : list res) : bool := existsb (res_eqb x) l.

Fixpoint dedup_res (l : list res) : list res :=
  match l with
  | [] => []
  | x :: l' => let d := dedup_res l' in if mem_res x d then d else x :: d
  end.

Fixpoint add_sts (new : list st) (acc : list st) : list st :=
  match new with
  | [] => acc
  | x :: n' => if mem_st x acc then add_sts n' acc else add_sts n' (acc ++ [x])
  end.

(* ------------------------------------------------------------------ tables *)

Fixpoint assoc {A} (k : string) (l : list (string * A)) : option A :=
  match l with
  | [] => None
  | (k', a) :: l' => if String.eqb k k' then Some a else assoc k l'
  end.

Fixpoint find_fn (l : list fn) (g : string) : option fn :=
  match l with
  | [] => None
  | f :: l' => if String.eqb g (f_name f) then Some f else find_fn l' g
  end.

Definition pair_mem (a b : string) (l : list (string * string)) : bool :=
  existsb (fun p => String.eqb a (fst p) && String.eqb b (snd p)) l.

Record ctx := { cx_name : string; cx_ctor : bool; cx_blocks : bool }.

Definition ctx_of (f : fn) : ctx :=
  {| cx_name := f_name f; cx_ctor := c_ctor (f_con f); cx_blocks := c_blocks (f_con f) |}.
(* a goroutine started by the function: not constructor context, free to block *)
Definition spawn_ctx (cx : ctx) : ctx := {| cx_name := cx_name cx; cx_ctor := false; cx_blocks := true |}.

Definition is_held (h : hold) : bool := match h with HHeld _ _ => true | _ => false end.
Definition is_static_kind (k : kind) : bool := match k with KStatic => true | _ => false end.
Definition is_new_kind (k : kind) : bool := match k with KNew => true | _ => false end.

(* the lock states a function of a given kind is checked from *)
Definition entries (k : kind) : list hold :=
  match k with
  | KStatic => [HStat]
  | KFree => [HFree]
  | KHeld m => [HHeld m false; HExcl]
  | KNew => [HExcl]
  end.

Section WithEnv.
Variable E : env.

Definition mkv (k : vkind) (what : string) (cx : ctx) : violation :=
  {| v_kind := k; v_what := what; v_fn := cx_name cx |}.

Definition field_class (f : string) : option fclass := assoc f (e_fields E).
Definition in_scope (f : fn) : bool := mem_str (f_name f) (e_scope E).

(* ------------------------------------------------------------------ atomic steps *)

Definition do_lock (cx : ctx) (m : string) (s : st) : res :=
  match hold_of s with
  | HFree | HExcl => Norm (set_hold s (HHeld m true))
  | HHeld m' _ => if String.eqb m m' then Viol (mkv VSelfDeadlock m cx) else Viol (mkv VStack m cx)
  | HStat => Viol (mkv VLockInStatic m cx)
  end.

Definition do_unlock (cx : ctx) (m : string) (s : st) : res :=
  match hold_of s with
  | HHeld m' own =>
      if String.eqb m m' then (if own then Norm (set_hold s HFree) else Viol (mkv VUnlockBorrowed m cx))
      else Viol (mkv VUnlockNotHeld m cx)
  | _ => Viol (mkv VUnlockNotHeld m cx)
  end.

Definition do_defer (m : string) (s : st) : res :=
  Norm {| hold_of := hold_of s; defers := m :: defers s; dls := dls s |}.

Definition guard_ok (h : hold) (m : string) : bool :=
  match h with HExcl => true | HHeld m' _ => String.eqb m m' | _ => false end.

Definition do_access (cx : ctx) (w : bool) (f : string) (s : st) : res :=
  match field_class f with
  | None => Viol (mkv VUnknownField f cx)
  | Some FStatic => if w && negb (cx_ctor cx) then Viol (mkv VStaticWrite f cx) else Norm s
  | Some (FGuard m) =>
      if guard_ok (hold_of s) m || (negb w && pair_mem (cx_name cx) f (e_exempt E)) then Norm s
      else Viol (mkv VAccess f cx)
  end.

Definition do_netio (cx : ctx) (what : string) (s : st) : res :=
  if negb (cx_blocks cx) then Viol (mkv VUndeclaredBlocking what cx)
  else if e_netio E && is_held (hold_of s) then Viol (mkv VNetIOHeld what cx)
  else Norm s.

Definition do_bread (cx : ctx) (c : string) (s : st) : res :=
  match do_netio cx c s with
  | Norm _ => if e_deadline E && negb (mem_str c (dls s)) then Viol (mkv VDeadline c cx) else Norm s
  | r => r
  end.

Definition do_setdl (c : string) (s : st) : res :=
  Norm {| hold_of := hold_of s; defers := defers s;
          dls := if mem_str c (dls s) then dls s else c :: dls s |}.

(* a goroutine body that touches nothing but immutable state does not end the exclusive phase *)
Fixpoint inert (s : stmt) : bool :=
  match s with
  | Skip | NetIO _ | Return | Break | Continue | Panic | BlockingRead _ | SetDeadline _ => true
  | Lock _ | Unlock _ | DeferUnlock _ | Unknown _ => false
  | Read f | Write f => match field_class f with Some FStatic => true | _ => false end
  | Call g => match find_fn (e_fns E) g with
              | Some f => is_static_kind (c_kind (f_con f)) | None => false end
  | Seq a b | Choice a b => inert a && inert b
  | Block b | Loop _ b | Spawn b => inert b
  end.

Definition spawned (b : stmt) (s : st) : st :=
  match hold_of s with
  | HExcl => if inert b then s else set_hold s HFree
  | _ => s
  end.

(* ------------------------------------------------------------------ calls *)

(* Is the call admissible in this state?  If so: callee, the callee's entry lock state, and the
   caller's state after the call returns. *)
Definition call_entry (cx : ctx) (g : string) (s : st) : violation + (fn * hold * st) :=
  match find_fn (e_fns E) g with
  | None => inl (mkv VCallUnknown g cx)
  | Some f =>
      let c := f_con f in
      if c_ctor c && negb (is_new_kind (c_kind c)) && negb (cx_ctor cx) then inl (mkv VCallCtorOnly g cx)
      else if c_blocks c && negb (cx_blocks cx) then inl (mkv VCallUndeclaredBlocking g cx)
      else if c_blocks c && e_netio E && is_held (hold_of s) then inl (mkv VNetIOHeld g cx)
      else match c_kind c, hold_of s with
           | KStatic, _ => inr (f, HStat, s)
           | KFree, HFree => inr (f, HFree, s)
           | KFree, HExcl => inr (f, HFree, set_hold s HFree)      (* the object is published *)
           | KFree, HHeld _ _ => inl (mkv VCallFreeWhileHeld g cx)
           | KFree, HStat => inl (mkv VCallFromStatic g cx)
           | KHeld m, HHeld m' _ =>
               if String.eqb m m' then inr (f, HHeld m false, s) else inl (mkv VCallHeldWithout g cx)
           | KHeld _, HExcl => inr (f, HExcl, s)
           | KHeld _, HStat => inl (mkv VCallFromStatic g cx)
           | KHeld _, HFree => inl (mkv VCallHeldWithout g cx)
           | KNew, HFree | KNew, HExcl => inr (f, HExcl, s)        (* another, fresh object *)
           | KNew, _ => inl (mkv VCallNew g cx)
           end
  end.

Fixpoint unwind (cx : ctx) (ds : list string) (h : hold) : violation + hold :=
  match ds with
  | [] => inr h
  | m :: ds' =>
      match h with
      | HHeld m' true => if String.eqb m m' then unwind cx ds' HFree else inl (mkv VDeferredUnlock m cx)
      | _ => inl (mkv VDeferredUnlock m cx)
      end
  end.

Definition hold_label (h : hold) : string :=
  match h with HExcl => "exclusive" | HFree => "no lock held" | HStat => "static"
             | HHeld m _ => m ++ " held" end.

(* exit lock state vs entry lock state *)
Definition exit_ok (k : kind) (e h : hold) : bool :=
  hold_eqb e h || (is_new_kind k && hold_eqb e HExcl && hold_eqb h HFree).

(* end of a function / goroutine body: run the defers, compare the lock state with the entry state *)
Definition finish (cx : ctx) (k : kind) (e : hold) (r : res) : ures :=
  match r with
  | Norm s | Ret s =>
      match unwind cx (defers s) (hold_of s) with
      | inl v => UViol v
      | inr h => if exit_ok k e h then UOk else UViol (mkv VUnbalancedReturn (hold_label h) cx)
      end
  | Pan s =>
      match unwind cx (defers s) (hold_of s) with
      | inl v => UViol v
      | inr h => if exit_ok k e h then UPanic
                 else if e_panic E then UViol (mkv VUnbalancedPanic (hold_label h) cx) else UDie
      end
  | Brk _ | Cont _ => UViol (mkv VStray "" cx)
  | Die => UDie
  | Viol v => UViol v
  end.

Definition after_call (sa : st) (u : ures) : res :=
  match u with UOk => Norm sa | UPanic => Pan sa | UDie => Die | UViol v => Viol v end.

(* what a callee outside the scope is assumed to do *)
Definition assumed (f : fn) : list ures :=
  UOk :: (if c_panics (f_con f) then [UPanic] else []) ++ (if e_panic E then [] else [UDie]).

Definition unbreak (r : res) : res := match r with Brk s => Norm s | _ => r end.
Definition is_norm (r : res) : bool := match r with Norm _ => true | _ => false end.
Definition next_iter (r : res) : option st := match r with Norm s | Cont s => Some s | _ => None end.
Definition is_abort (r : res) : bool :=
  match r with Ret _ | Pan _ | Die | Viol _ => true | _ => false end.

(* ------------------------------------------------------------------ path semantics *)

Inductive exec : ctx -> stmt -> st -> res -> Prop :=
| E_Skip cx s : exec cx Skip s (Norm s)
| E_Lock cx m s : exec cx (Lock m) s (do_lock cx m s)
| E_Unlock cx m s : exec cx (Unlock m) s (do_unlock cx m s)
| E_Defer cx m s : exec cx (DeferUnlock m) s (do_defer m s)
| E_Read cx f s : exec cx (Read f) s (do_access cx false f s)
| E_Write cx f s : exec cx (Write f) s (do_access cx true f s)
| E_NetIO cx w s : exec cx (NetIO w) s (do_netio cx w s)
| E_BRead cx c s : exec cx (BlockingRead c) s (do_bread cx c s)
| E_SetDl cx c s : exec cx (SetDeadline c) s (do_setdl c s)
| E_Return cx s : exec cx Return s (Ret s)
| E_Break cx s : exec cx Break s (Brk s)
| E_Continue cx s : exec cx Continue s (Cont s)
| E_Panic cx s : exec cx Panic s (Pan s)
| E_Unknown cx t s : exec cx (Unknown t) s (Viol (mkv VUnknownStmt t cx))
| E_SeqNorm cx a b s s1 r : exec cx a s (Norm s1) -> exec cx b s1 r -> exec cx (Seq a b) s r
| E_SeqAbort cx a b s r : exec cx a s r -> is_norm r = false -> exec cx (Seq a b) s r
| E_ChoiceL cx a b s r : exec cx a s r -> exec cx (Choice a b) s r
| E_ChoiceR cx a b s r : exec cx b s r -> exec cx (Choice a b) s r
| E_Block cx b s r : exec cx b s r -> exec cx (Block b) s (unbreak r)
| E_LoopExit cx b s : exec cx (Loop false b) s (Norm s)
| E_LoopIter cx inf b s r1 s1 r :
    exec cx b s r1 -> next_iter r1 = Some s1 -> exec cx (Loop inf b) s1 r -> exec cx (Loop inf b) s r
| E_LoopBreak cx inf b s s1 : exec cx b s (Brk s1) -> exec cx (Loop inf b) s (Norm s1)
| E_LoopAbort cx inf b s r : exec cx b s r -> is_abort r = true -> exec cx (Loop inf b) s r
| E_CallBad cx g s v : call_entry cx g s = inl v -> exec cx (Call g) s (Viol v)
| E_CallRun cx g s f e sa rb :
    call_entry cx g s = inr (f, e, sa) -> in_scope f = true ->
    exec (ctx_of f) (f_body f) (init e) rb ->
    exec cx (Call g) s (after_call sa (finish (ctx_of f) (c_kind (f_con f)) e rb))
| E_CallAssumed cx g s f e sa u :
    call_entry cx g s = inr (f, e, sa) -> in_scope f = false -> In u (assumed f) ->
    exec cx (Call g) s (after_call sa u)
| E_SpawnViol cx b s rb v :
    exec (spawn_ctx cx) b (init HFree) rb -> finish (spawn_ctx cx) KFree HFree rb = UViol v ->
    exec cx (Spawn b) s (Viol v)
| E_Spawn cx b s : exec cx (Spawn b) s (Norm (spawned b s)).

(* one complete run of function f entered in lock state e *)
Definition fn_run (f : fn) (e : hold) (u : ures) : Prop :=
  exists rb, exec (ctx_of f) (f_body f) (init e) rb /\ u = finish (ctx_of f) (c_kind (f_con f)) e rb.

(* ------------------------------------------------------------------ abstract interpreter *)

(* the violating step is reported and, for diagnosis only, the path is continued as if it had been legal
   (a superset of the real outcomes: harmless for soundness, and [check] rejects on the Viol anyway) *)
Definition recov (r : res) (s : st) : list res :=
  match r with Viol _ => [r; Norm s] | _ => [r] end.

Fixpoint seq_all (k : st -> option (list res)) (l : list res) : option (list res) :=
  match l with
  | [] => Some []
  | r :: l' =>
      match seq_all k l' with
      | None => None
      | Some R' =>
          match r with
          | Norm s => match k s with None => None | Some R => Some (R ++ R') end
          | _ => Some (r :: R')
          end
      end
  end.

Fixpoint heads (l : list res) : list st :=
  match l with
  | [] => []
  | Norm s :: l' | Cont s :: l' => s :: heads l'
  | _ :: l' => heads l'
  end.

Fixpoint round (body : st -> option (list res)) (W : list st) : option (list st) :=
  match W with
  | [] => Some []
  | s :: W' =>
      match body s, round body W' with
      | Some L, Some H => Some (heads L ++ H)
      | _, _ => None
      end
  end.

Fixpoint grow (body : st -> option (list res)) (fuel : nat) (W : list st) : option (list st) :=
  match fuel with
  | O => Some W
  | S fuel' =>
      match round body W with
      | None => None
      | Some H => let W' := add_sts H W in
                  if Nat.eqb (length W') (length W) then Some W else grow body fuel' W'
      end
  end.

(* the loop-head set is closed under one more iteration: CHECKED, not trusted to the fuel *)
Definition closed (body : st -> option (list res)) (W : list st) : bool :=
  forallb (fun s => match body s with
                    | Some L => forallb (fun h => mem_st h W) (heads L)
                    | None => false end) W.

Fixpoint loop_exits (l : list res) : list res :=
  match l with
  | [] => []
  | Norm _ :: l' | Cont _ :: l' => loop_exits l'
  | Brk s :: l' => Norm s :: loop_exits l'
  | r :: l' => r :: loop_exits l'
  end.

Definition loop_out (inf : bool) (body : st -> option (list res)) (W : list st) : list res :=
  (if inf then [] else map Norm W) ++
  flat_map (fun s => match body s with Some L => loop_exits L | None => [] end) W.

Definition loop_fuel : nat := 24.

Definition unit_viols (cx : ctx) (k : kind) (e : hold) (l : list res) : list res :=
  flat_map (fun r => match finish cx k e r with UViol v => [Viol v] | _ => [] end) l.

Fixpoint post (cx : ctx) (t : stmt) (s : st) : option (list res) :=
  match t with
  | Skip => Some [Norm s]
  | Lock m => Some (recov (do_lock cx m s) s)
  | Unlock m => Some (recov (do_unlock cx m s) s)
  | DeferUnlock m => Some [do_defer m s]
  | Read f => Some (recov (do_access cx false f s) s)
  | Write f => Some (recov (do_access cx true f s) s)
  | NetIO w => Some (recov (do_netio cx w s) s)
  | BlockingRead c => Some (recov (do_bread cx c s) s)
  | SetDeadline c => Some [do_setdl c s]
  | Return => Some [Ret s]
  | Break => Some [Brk s]
  | Continue => Some [Cont s]
  | Panic => Some [Pan s]
  | Unknown u => Some [Viol (mkv VUnknownStmt u cx); Norm s]
  | Seq a b =>
      match post cx a s with
      | None => None
      | Some La => match seq_all (post cx b) La with
                   | None => None | Some R => Some (dedup_res R) end
      end
  | Choice a b =>
      match post cx a s, post cx b s with
      | Some La, Some Lb => Some (dedup_res (La ++ Lb))
      | _, _ => None
      end
  | Block b => match post cx b s with None => None | Some L => Some (dedup_res (map unbreak L)) end
  | Loop inf b =>
      match grow (post cx b) loop_fuel [s] with
      | None => None
      | Some W => if closed (post cx b) W then Some (dedup_res (loop_out inf (post cx b) W)) else None
      end
  | Call g =>
      match call_entry cx g s with
      | inl v => Some [Viol v; Norm s]
      | inr (f, _, sa) => Some (map (after_call sa) (assumed f))
      end
  | Spawn b =>
      match post (spawn_ctx cx) b (init HFree) with
      | None => None
      | Some L => Some (dedup_res (unit_viols (spawn_ctx cx) KFree HFree L ++ [Norm (spawned b s)]))
      end
  end.

(* ------------------------------------------------------------------ the checker *)

Definition ures_ok (f : fn) (u : ures) : bool :=
  match u with UOk => true | UPanic => c_panics (f_con f) | UDie => negb (e_panic E) | UViol _ => false end.

Definition check_entry (f : fn) (e : hold) : bool :=
  match post (ctx_of f) (f_body f) (init e) with
  | None => false
  | Some L => forallb (fun r => ures_ok f (finish (ctx_of f) (c_kind (f_con f)) e r)) L
  end.

Definition check_fn (f : fn) : bool := forallb (check_entry f) (entries (c_kind (f_con f))).

(* every function in the scope checks (functions outside the scope are not looked at) *)
Definition check_scope : bool :=
  forallb (fun f => if in_scope f then check_fn f else true) (e_fns E).

(* diagnosis (not used by any theorem): the violations found, per function *)
Definition diag_entry (f : fn) (e : hold) : list violation :=
  match post (ctx_of f) (f_body f) (init e) with
  | None => [mkv VStray "loop fixpoint not reached" (ctx_of f)]
  | Some L => flat_map (fun r => match finish (ctx_of f) (c_kind (f_con f)) e r with
                                 | UViol v => [v]
                                 | UPanic => if c_panics (f_con f) then []
                                             else [mkv VStray "undeclared panic" (ctx_of f)]
                                 | _ => [] end) L
  end.

Fixpoint dedup_viol (l : list violation) : list violation :=
  match l with
  | [] => []
  | x :: l' => let d := dedup_viol l' in if existsb (viol_eqb x) d then d else x :: d
  end.

Definition diag_fn (f : fn) : list violation :=
  dedup_viol (flat_map (diag_entry f) (entries (c_kind (f_con f)))).

Definition diagnose : list (string * list violation) :=
  flat_map (fun f => if in_scope f then
                       match diag_fn f with [] => [] | l => [(f_name f, l)] end
                     else []) (e_fns E).

End WithEnv.

(* ------------------------------------------------------------------ syntactic helpers used by the spec *)

Fixpoint lock_free (t : stmt) : bool :=      (* no lock operation, no goroutine, outside calls *)
  match t with
  | Lock _ | Unlock _ | DeferUnlock _ | Spawn _ | Unknown _ => false
  | Seq a b | Choice a b => lock_free a && lock_free b
  | Block b | Loop _ b => lock_free b
  | _ => true
  end.

(* "Lock m; defer Unlock m; rest" with no lock operation in rest: one critical section *)
Definition one_section (m : string) (t : stmt) : option stmt :=
  match t with
  | Seq (Lock m1) (Seq (DeferUnlock m2) rest) =>
      if String.eqb m m1 && String.eqb m m2 && lock_free rest then Some rest else None
  | _ => None
  end.

Fixpoint mentions (p : stmt -> bool) (t : stmt) : bool :=
  p t || match t with
         | Seq a b | Choice a b => mentions p a || mentions p b
         | Block b | Loop _ b | Spawn b => mentions p b
         | _ => false
         end.

Definition is_read (f : string) (t : stmt) : bool := match t with Read g => String.eqb f g | _ => false end.
Definition is_write (f : string) (t : stmt) : bool := match t with Write g => String.eqb f g | _ => false end.
Definition is_call (f : string) (t : stmt) : bool := match t with Call g => String.eqb f g | _ => false end.
Definition is_bread (t : stmt) : bool := match t with BlockingRead _ => true | _ => false end.
