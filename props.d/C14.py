# C14 -- see DESIGN.md section 5
PROP = {
    "props_v": "Props/C14.v",
    "extra_v": ["ServerRun.v"],
    "gen_bins": ["prod", "test"],
    "gen_obligations": ["c14_order_ok@ConstsProd,ConstsTest", "c14_rate@ConstsProd", "c14_limiter_is_one_object@SkelServer"],
    "suites": [("test", "archive")],
    "assumptions": [
        "a read(2) of a whole file and an append write(2) are atomic with respect to each other (the repository's own assumption, README 'File Writing and Archiving'); torn reads of a multi-page record are outside the model",
        "the server's key pair signs what it verifies: forall m, verify pub m (sign m priv) = true is a hypothesis of c14_closed (real secp256k1 is checked Go-side on every archived record)",
        "the zip container is opened with the standard library, not modelled",
        "before a GCA is registered the endpoint answers 500 (gcaPubKey.dat does not exist): an error response is not an archive",
    ],
}
TEXT = {
    "text": "Coq theorems: along every operation list the logs only grow and key files never change once written (c14_prefix), so a file read earlier is a record-aligned prefix of the file at any later moment; for EVERY schedule of write bursts (arbitrary operation lists) injected in the gaps between the file reads, an archive read in an order accepted by tags_ok (reports before authorizations before the GCA key, each file once) is dependency-closed: every report verifies under the first archived authorization of its device, every authorization under the archived GCA key, every weekly record under the archived server public key, which is exactly the public half of server.keys (c14_closed); the order of the running source (PublicFiles regenerated from both builds on every run) is accepted and does not contain server.keys (c14_order_ok); the number of archives served per window is bounded by the limiter theorem on the regenerated constants (c14_rate). Harness: real GET /api/v1/archive with the handler's yield point between files used to inject every (gap x burst) combination {new device + first report, registration + first device, rotation}; the zip is opened and checked with the real Verify for prefix/alignment/closure/no private bytes, request bursts check the limiter; the same schedule is run through the model (vm_compute). Added after seeded-change rounds: sliding-window request pattern against the limiter (certain violations only), pairs of overlapping downloads right after a refused one with the files growing in between (one scheduler thread, GC off). Round 5: archive request while server.keys is missing (no key file may be created, no archive under another key); public files grown to 300 MB (reports, weekly statistics) must still be archived as a record-aligned prefix.",
    "note": "Trusted: Coq kernel+vm_compute, constants translator, harness, archive/zip, kernel read/append atomicity.",
    "technique": "Coq proof (monotone disk evolution + relational invariant between the partial archive and the running server, induction over the schedule) + regenerated constants + differential correspondence + oracle",
}
