# C01 -- see DESIGN.md section 5
PROP = {
    "props_v": "Props/C01.v",
    "extra_v": ["ServerRun.v"],
    "gen_bins": [],
    "suites": [("test", "reports")],
    "assumptions": [
        "signature scheme is a parameter of the theorems (Section variable verify); real secp256k1 enters only through the harness' table of genuine signatures",
        "window offset below 2^32-4032 (year ~40,000); established for reachable states by the server invariant",
        "the UDP listener's 80-byte read buffer semantics (longer datagrams are cut to their leading 80 bytes) is modelled and exercised over the real socket for a sample",
    ],
}
TEXT = {
    "text": "Coq theorem over ALL byte strings, clocks and states: udp_receive either leaves the whole state (memory and disk) equal, or the leading 80 bytes decode to a report of an authorized device, verified under that device's key over the signing bytes, |ts-now|<=432 over Z (int64 comparison proved exact for all uint32 pairs), inside [offset, offset+4032), power not 0/1. The executable model is compared with the real server (snapshot through a verif hook, report log on disk, TCP sync, statistics) on generated datagram histories at boundary clock/offset configurations; an implementation-only oracle checks the property text on every datagram. Added after seeded-change rounds: short / over-long datagrams over the real UDP socket (incl. a report whose signature ends in 0x00 cut to 79 bytes), clock and timeslot at opposite ends of the 32-bit range, the (r, n-s) twin of every accepted signature checked by an independent verifier.",
    "note": "Trusted: Coq kernel+vm_compute, harness (generators, snapshot hook, signature table). Crypto is a parameter: that secp256k1 rejects altered signatures is tested, not proved. Injection wrapper emulates the listener's 80-byte buffer; a sample goes over the real UDP socket.",
    "technique": "Coq proof (case analysis over the handler, lia for the no-wrap lemma) + differential correspondence of the executable model (vm_compute) + property oracle",
}
