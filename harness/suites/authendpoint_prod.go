//go:build !test

package suites

// the endpoint transport check needs a running server with the manual clock (test builds only)
func (c *codecRun) authEndpoint() error { return nil }
