From Coq Require Import ZArith List Bool.
From GCA Require Import Wrap Timeslot RunLib.
Import ListNotations.
Open Scope Z_scope.

(* case = (kind, input, observed): kind 0 = UnixToTimeslot, 1 = TimeslotToUnix *)
Definition ts_case_ok (G : Z) (c : Z * Z * option Z) : bool :=
  let '(k, x, o) := c in
  if k =? 0 then opt_eqb Z.eqb (unix_to_timeslot G x) o
  else opt_eqb Z.eqb (Some (timeslot_to_unix G x)) o.
Definition ts_mismatches (G : Z) := bad_indices (ts_case_ok G).

(* (t0, observed CurrentTimeslot, t1) with t0 <= real clock <= t1 *)
Definition cur_case_ok (G : Z) (c : Z * Z * Z) : bool :=
  let '(t0, s, t1) := c in
  match current_timeslot G t0, current_timeslot G t1 with
  | Some lo, Some hi => (lo <=? s) && (s <=? hi)
  | _, _ => false
  end.
Definition cur_mismatches (G : Z) := bad_indices (cur_case_ok G).
