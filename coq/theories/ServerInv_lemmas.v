From Coq Require Import ZArith List Bool Lia.
From GCA Require Import Wrap Bytes Bytes_lemmas Codec Amap Amap_lemmas Timeslot Timeslot_lemmas Server ServerInv ServerC01_lemmas.
Import ListNotations.
Open Scope Z_scope.
Set Default Proof Using "Type".
Notation length := List.length.

(* ------------------------------------------------------------ map helpers *)
Lemma zget_map_val {A B} (f : A -> B) k (l : list (Z * A)) :
  zget k (map (fun p => (fst p, f (snd p))) l) = option_map f (zget k l).
Proof.
  induction l as [|[k' v] l IH]; simpl; [reflexivity|].
  destruct (k =? k'); [reflexivity | exact IH].
Qed.
Lemma zmem_map_val {A B} (f : A -> B) k (l : list (Z * A)) :
  zmem k (map (fun p => (fst p, f (snd p))) l) = zmem k l.
Proof. unfold zmem. rewrite zget_map_val. destruct (zget k l); reflexivity. Qed.

Lemma option_map_some {A B} (f : A -> B) o y : option_map f o = Some y -> exists x, o = Some x /\ y = f x.
Proof. destruct o as [x|]; cbn; intros H; [inversion H; eauto | discriminate]. Qed.

Lemma zget_shift {V} j (w : list (Z * V)) :
  zget j (shift_window w) = if 0 <=? j then zget (j + week_len) w else None.
Proof.
  unfold shift_window, week_len. induction w as [|[k v] w IH]; simpl.
  - destruct (0 <=? j); reflexivity.
  - destruct (Z.leb_spec 2016 k) as [G|G]; simpl.
    + rewrite IH. destruct (Z.eqb_spec j (k - 2016)) as [E|E].
      * subst j. destruct (Z.leb_spec 0 (k - 2016)); [|lia].
        replace (k - 2016 + 2016) with k by lia. rewrite Z.eqb_refl. reflexivity.
      * destruct (Z.leb_spec 0 j); [|reflexivity].
        destruct (Z.eqb_spec (j + 2016) k); [lia | reflexivity].
    + rewrite IH. destruct (Z.leb_spec 0 j); [|reflexivity].
      destruct (Z.eqb_spec (j + 2016) k); [lia | reflexivity].
Qed.

Lemma In_zmem {V} k (v : V) l : In (k, v) l -> zmem k l = true.
Proof.
  unfold zmem. induction l as [|[k' v'] l IH]; simpl; [tauto|].
  intros [E|I]; [inversion E; subst; rewrite Z.eqb_refl; reflexivity|].
  destruct (k =? k'); [reflexivity | apply IH; exact I].
Qed.

Lemma In_zins {V} (x p : Z * V) l : In x (zins p l) <-> x = p \/ In x l.
Proof.
  induction l as [|q l IH]; simpl.
  - split; [intros [H|[]]; left; auto | intros [H|[]]; left; auto].
  - destruct (fst p <=? fst q); simpl.
    + split; [intros [H|H]; [left; auto | right; exact H] | intros [H|H]; [left; auto | right; exact H]].
    + rewrite IH. split; [intros [H|[H|H]]; auto | intros [H|[H|H]]; auto].
Qed.
Lemma In_zsort {V} (x : Z * V) l : In x (zsort l) <-> In x l.
Proof.
  unfold zsort. induction l as [|p l IH]; simpl; [tauto|].
  rewrite In_zins, IH. split; intros [H|H]; auto.
Qed.

Lemma zmem_true_get {V} k (l : list (Z * V)) : zmem k l = true -> exists v, zget k l = Some v.
Proof. unfold zmem. destruct (zget k l) as [v|]; [eauto | discriminate]. Qed.
Lemma zget_zmem {V} k (l : list (Z * V)) v : zget k l = Some v -> zmem k l = true.
Proof. unfold zmem. intros ->. reflexivity. Qed.

Lemma getslot_set i j r w : getslot i (zset j r w) = if i =? j then r else getslot i w.
Proof. unfold getslot. rewrite zget_zset. destruct (i =? j); reflexivity. Qed.

(* ------------------------------------------------------------ integrate *)
Section Inv.

  Lemma integrate_cases st r :
    MemInv (mm st) -> 0 <= r_ts r ->
    (fst (integrate st r) = st /\ snd (integrate st r) = Quiet) \/
    (zget (r_id r) (reports (mm st)) = None /\ fst (integrate st r) = st /\ snd (integrate st r) = Panic) \/
    (exists w w2,
       zget (r_id r) (reports (mm st)) = Some w /\
       offset (mm st) <= r_ts r < offset (mm st) + window_len /\
       integrate st r = ({| mm := with_reports (mm st) (zset (r_id r) w2 (reports (mm st)));
                            dd := disk_append_report (dd st) r |}, Quiet) /\
       (forall i, i <> r_ts r - offset (mm st) -> zget i w2 = zget i w) /\
       (exists x, zget (r_ts r - offset (mm st)) w2 = Some x /\
                  (x = r \/ (r_p x = 1 /\ r_id x = r_id (getslot (r_ts r - offset (mm st)) w)
                                      /\ r_ts x = r_ts (getslot (r_ts r - offset (mm st)) w)
                                      /\ r_p (getslot (r_ts r - offset (mm st)) w) <> 0)
                         \/ (r_p x = 1 /\ r_id x = r_id r /\ r_ts x = r_ts r)))).
  Proof.
    intros I Hts. destruct I as [Hlo Hhi _ _ _ _ _ _ _ _ _].
    unfold integrate, window_len.
    destruct (Z.ltb_spec (r_ts r) (offset (mm st))) as [L|L]; [left; split; reflexivity|].
    rewrite (u32_id (offset (mm st) + 4032)) by (unfold is_u32; lia).
    destruct (Z.leb_spec (offset (mm st) + 4032) (r_ts r)) as [G|G]; [left; split; reflexivity|].
    rewrite (u32_id (r_ts r - offset (mm st))) by (unfold is_u32; lia).
    destruct (zget (r_id r) (reports (mm st))) as [w|] eqn:Q.
    2:{ right; left. repeat split; reflexivity. }
    destruct (Z.leb_spec 4032 (r_ts r - offset (mm st))) as [B|B]; [lia|].
    set (idx := r_ts r - offset (mm st)) in *.
    destruct (r_p (getslot idx w) =? 1) eqn:B1; [left; split; reflexivity|].
    destruct (report_eqb (getslot idx w) r) eqn:Dup; [left; split; reflexivity|].
    right; right.
    set (w1 := if r_p (getslot idx w) =? 0 then zset idx r w else zset idx (set_p (getslot idx w) 1) w).
    set (cap := match zget (r_id r) (equipment (mm st)) with Some a => a_cap a | None => 0 end).
    set (w2 := if overcap cap (r_p r) then zset idx (set_p (getslot idx w1) 1) w1 else w1).
    exists w, w2. split; [reflexivity|]. split; [unfold window_len; lia|]. split; [reflexivity|].
    assert (W1 : forall i, i <> idx -> zget i w1 = zget i w).
    { intros i N. unfold w1. destruct (r_p (getslot idx w) =? 0); apply zget_zset_other; exact N. }
    split.
    - intros i N. unfold w2. destruct (overcap cap (r_p r)); [rewrite zget_zset_other by exact N|]; apply W1; exact N.
    - unfold w2. destruct (overcap cap (r_p r)).
      + eexists. split; [apply zget_zset_same|].
        unfold w1. destruct (Z.eqb_spec (r_p (getslot idx w)) 0) as [Z0|Z0].
        * right; right. rewrite getslot_set, Z.eqb_refl. cbn. auto.
        * right; left. rewrite getslot_set, Z.eqb_refl. cbn. auto.
      + unfold w1. destruct (Z.eqb_spec (r_p (getslot idx w)) 0) as [Z0|Z0].
        * eexists. split; [apply zget_zset_same|]. left; reflexivity.
        * eexists. split; [apply zget_zset_same|]. right; left. cbn. auto.
  Qed.

  Lemma getslot_nonblank i w : r_p (getslot i w) <> 0 -> zget i w = Some (getslot i w).
  Proof. unfold getslot. destruct (zget i w); [reflexivity | cbn; congruence]. Qed.

  Lemma integrate_inv st r a :
    MemInv (mm st) -> zget (r_id r) (equipment (mm st)) = Some a -> r_p r <> 0 -> 0 <= r_ts r ->
    MemInv (mm (fst (integrate st r))) /\ snd (integrate st r) = Quiet.
  Proof.
    intros I Q P Hts.
    destruct (integrate_cases st r I Hts) as [[E1 E2]|[[N _]|(w & w2 & Qw & Rng & E & Oth & x & Gx & Cx)]].
    - rewrite E1, E2. split; [exact I | reflexivity].
    - exfalso. pose proof (i_dom_rep _ I (r_id r)) as D.
      unfold zmem in D. rewrite N, Q in D. discriminate.
    - rewrite E. cbn [fst snd]. split; [|reflexivity].
      destruct I as [Hlo Hhi Hoh Hht Hdr Hdi Hb Hid Hw Hix Hng].
      constructor; cbn [mm dd with_reports offset history equipment reports impact bans index gca_avail]; try assumption.
      + intros id. rewrite zmem_zset. destruct (Z.eqb_spec id (r_id r)) as [->|N]; cbn [orb]; [|apply Hdr].
        rewrite <- Hdr. symmetry. eapply zget_zmem; exact Qw.
      + intros id w' G'. rewrite zget_zset in G'.
        destruct (Z.eqb_spec id (r_id r)) as [->|N]; [|apply Hw; exact G'].
        inversion G'; subst w'; clear G'. intros i y Gy.
        destruct (Z.eq_dec i (r_ts r - offset (mm st))) as [->|Ni].
        * rewrite Gx in Gy. inversion Gy; subst y; clear Gy.
          destruct Cx as [->|[(P1 & Ei & Et & Nz)|(P1 & Ei & Et)]].
          -- repeat split; first [lia | unfold window_len in *; lia].
          -- apply getslot_nonblank in Nz. destruct (Hw _ _ Qw _ _ Nz) as (R1 & R2 & R3 & R4).
             repeat split; first [lia | congruence].
          -- repeat split; first [lia | unfold window_len in *; lia].
        * rewrite Oth in Gy by exact Ni. exact (Hw _ _ Qw _ _ Gy).
      + intros Hg. destruct (Hng Hg) as (E1 & _). rewrite E1 in Q. discriminate.
  Qed.
End Inv.
