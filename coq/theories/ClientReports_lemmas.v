(* Proofs about the report loop model (ClientReports.v): no equivocation. *)
From Coq Require Import ZArith List Bool Lia.
From GCA Require Import Wrap Bytes Bytes_lemmas Codec ClientHistory ClientHistory_lemmas ClientReports.
Import ListNotations.
Open Scope Z_scope.

(* ---- 32-bit truncation and sign extension -------------------------------- *)
Lemma i32_zero : i32 0 = 0.
Proof. reflexivity. Qed.

Lemma fits_nonzero p : fits32 p -> p <> 0 -> u32 p <> 0.
Proof.
  unfold fits32. intros F Nz E. rewrite E in F. rewrite i32_zero in F. unfold u64 in F.
  rewrite Z.mod_0_l in F by lia. congruence.
Qed.

Lemma fits_inj p q : fits32 p -> fits32 q -> u32 p = u32 q -> p = q.
Proof. unfold fits32. intros Fp Fq E. rewrite <- Fp, <- Fq, E. reflexivity. Qed.

Lemma resend_value x : is_u32 x ->
  u32 (u64 (i32 x)) = x /\ fits32 (u64 (i32 x)) /\ is_u64 (u64 (i32 x)).
Proof.
  intros Hx.
  assert (E : u32 (u64 (i32 x)) = x).
  { unfold is_u32 in Hx. unfold u32, u64, i32.
    destruct (Z_lt_dec x (2^31)) as [S|S].
    - rewrite (Z.mod_small (x + 2^31)) by lia. replace (x + 2^31 - 2^31) with x by lia.
      rewrite (Z.mod_small x (2^64)) by lia. apply Z.mod_small. lia.
    - replace (x + 2^31) with ((x - 2^31) + 1 * 2^32) by lia. rewrite Z.mod_add by lia.
      rewrite (Z.mod_small (x - 2^31)) by lia.
      replace (x - 2^31 - 2^31) with ((x + 2^64 - 2^32) + (-1) * 2^64) by lia. rewrite Z.mod_add by lia.
      rewrite (Z.mod_small (x + 2^64 - 2^32)) by lia.
      replace (x + 2^64 - 2^32) with (x + (2^32 - 1) * 2^32) by lia. rewrite Z.mod_add by lia.
      apply Z.mod_small. lia. }
  split; [exact E|]. split; [unfold fits32; rewrite E; reflexivity | apply u64_range].
Qed.

(* ---- the invariant ------------------------------------------------------- *)
Section Inv.
  Variable o : Z.
  Hypothesis Ho : is_u32 o.

  (* every non-zero report ever emitted, and every non-zero reading ever accepted, is what the
     history holds for its slot *)
  Definition inv3 (h : history) (out : list emission) (acc : list (Z * Z)) : Prop :=
    hist_wf h /\
    (forall t p, In (t, p) out -> is_u32 t /\ is_u64 p /\
                                  (p <> 0 -> fits32 p /\ load_reading h o t = Ok (u32 p))) /\
    (forall t v, In (t, v) acc -> v <> 0 -> is_u32 t /\ load_reading h o t = Ok v).

  Lemma inv3_save h out acc t0 v0 h' : is_u32 t0 -> inv3 h out acc ->
    save_reading h o t0 v0 = Ok h' -> inv3 h' out acc.
  Proof.
    intros Ht0 (W & Io & Ia) S. split; [exact (wf_save h o t0 v0 h' Ho Ht0 W S)|]. split.
    - intros t p Hin. destruct (Io t p Hin) as (Ht & Hp & K). split; [exact Ht|]. split; [exact Hp|].
      intros Nz. destruct (K Nz) as [F Lo]. split; [exact F|].
      exact (save_keeps_nonzero h o t (u32 p) t0 v0 h' Ho Ht Ht0 W Lo (fits_nonzero p F Nz) S).
    - intros t v Hin Nz. destruct (Ia t v Hin Nz) as (Ht & Lo). split; [assumption|].
      exact (save_keeps_nonzero h o t v t0 v0 h' Ho Ht Ht0 W Lo Nz S).
  Qed.

  Lemma inv3_tick_rec latest st r : erec_ok r -> fits32 (rc_en r) ->
    inv3 (fst (fst st)) (snd (fst st)) (snd st) ->
    let st' := tick_rec o latest st r in inv3 (fst (fst st')) (snd (fst st')) (snd st').
  Proof.
    intros [Ht He] F I. destruct st as [[h out] acc]. cbn [fst snd] in I. cbn zeta. unfold tick_rec.
    destruct (save_reading h o (rc_ts r) (u32 (rc_en r))) as [h'|] eqn:S; cbn [fst snd]; [|exact I].
    pose proof (inv3_save h out acc _ _ h' Ht I S) as (W' & Io' & Ia').
    pose proof (read_after_write h o (rc_ts r) (u32 (rc_en r)) h' Ho Ht (u32_range _) S) as RW.
    split; [exact W'|]. split.
    - intros t p Hin. destruct (latest <? rc_ts r); [|apply Io'; exact Hin].
      apply in_app_or in Hin. destruct Hin as [Hin|[Hin|[]]]; [apply Io'; exact Hin|].
      inversion Hin; subst. split; [exact Ht|]. split; [exact He|]. intros _. split; [exact F | exact RW].
    - intros t v Hin Nz. apply in_app_or in Hin. destruct Hin as [Hin|[Hin|[]]]; [apply Ia'; assumption|].
      inversion Hin; subst. split; assumption.
  Qed.

  Lemma inv3_tick latest recs : Forall erec_ok recs -> Forall (fun r => fits32 (rc_en r)) recs ->
    forall st, inv3 (fst (fst st)) (snd (fst st)) (snd st) ->
    let st' := fold_left (tick_rec o latest) recs st in inv3 (fst (fst st')) (snd (fst st')) (snd st').
  Proof.
    induction recs as [|r recs IH]; intros Fo Ff st I; [exact I|].
    inversion Fo; subst. inversion Ff; subst. cbn [fold_left]. apply IH; try assumption.
    apply inv3_tick_rec; assumption.
  Qed.

  Lemma inv3_startup_rec out st r : erec_ok r ->
    inv3 (fst (fst st)) out (snd st) ->
    let st' := startup_rec o st r in inv3 (fst (fst st')) out (snd st').
  Proof.
    intros [Ht He] I. destruct st as [[h latest] acc]. cbn [fst snd] in I. cbn zeta. unfold startup_rec.
    destruct (save_reading h o (rc_ts r) (u32 (rc_en r))) as [h'|] eqn:S; cbn [fst snd]; [|exact I].
    pose proof (inv3_save h out acc _ _ h' Ht I S) as (W' & Io' & Ia').
    pose proof (read_after_write h o (rc_ts r) (u32 (rc_en r)) h' Ho Ht (u32_range _) S) as RW.
    split; [exact W'|]. split; [exact Io'|].
    intros t v Hin Nz. apply in_app_or in Hin. destruct Hin as [Hin|[Hin|[]]]; [apply Ia'; assumption|].
    inversion Hin; subst. split; assumption.
  Qed.

  Lemma inv3_startup out recs : Forall erec_ok recs ->
    forall st, inv3 (fst (fst st)) out (snd st) ->
    let st' := fold_left (startup_rec o) recs st in inv3 (fst (fst st')) out (snd st').
  Proof.
    induction recs as [|r recs IH]; intros Fo st I; [exact I|].
    inversion Fo; subst. cbn [fold_left]. apply IH; try assumption.
    apply inv3_startup_rec; assumption.
  Qed.

  Definition inv (x : trace) : Prop := inv3 (cs_hist (tr_st x)) (tr_out x) (tr_acc x).

  Lemma inv_step x e : ev_ok e -> ev_fits e -> inv x -> inv (step o x e).
  Proof.
    intros Hok Fit I. destruct e as [recs|recs|t]; cbn [step ev_ok ev_fits] in *.
    - pose proof (inv3_tick (cs_latest (tr_st x)) recs Hok Fit (cs_hist (tr_st x), tr_out x, tr_acc x) I) as K.
      cbn zeta in K. destruct (fold_left _ recs _) as [[h out] acc]. exact K.
    - pose proof (inv3_startup (tr_out x) recs Hok (cs_hist (tr_st x), 0, tr_acc x) I) as K.
      cbn zeta in K. destruct (fold_left _ recs _) as [[h latest] acc]. exact K.
    - unfold sync_resend. destruct (load_reading (cs_hist (tr_st x)) o t) as [v|] eqn:Lo; [|exact I].
      destruct (v <? 2); [exact I|].
      destruct I as (W & Io & Ia). unfold inv. cbn [tr_st tr_out tr_acc].
      split; [exact W|]. split; [|exact Ia].
      intros t' p Hin. apply in_app_or in Hin. destruct Hin as [Hin|[Hin|[]]]; [apply Io; exact Hin|].
      inversion Hin; subst.
      destruct (resend_value v (load_range _ _ _ _ Lo)) as (E & F & U).
      split; [exact Hok|]. split; [exact U|].
      intros _. split; [exact F|]. rewrite E. exact Lo.
  Qed.

  Lemma inv_run evs : Forall ev_ok evs -> Forall ev_fits evs ->
    forall x, inv x -> inv (fold_left (step o) evs x).
  Proof.
    induction evs as [|e evs IH]; intros Fo Ff x I; [exact I|].
    inversion Fo; subst. inversion Ff; subst. cbn [fold_left]. apply IH; try assumption.
    apply inv_step; assumption.
  Qed.

  Lemma inv_init h0 : hist_wf h0 ->
    inv {| tr_st := {| cs_hist := h0; cs_latest := 0 |}; tr_out := []; tr_acc := [] |}.
  Proof. intros W. split; [exact W|]. split; intros ? ? []. Qed.

  (* ---- no equivocation, at the level of (slot, power) --------------------- *)
  Theorem emissions_agree h0 evs t p1 p2 :
    hist_wf h0 -> Forall ev_ok evs -> Forall ev_fits evs ->
    let x := run o h0 evs in
    In (t, p1) (tr_out x) -> In (t, p2) (tr_out x) -> p1 <> 0 -> p2 <> 0 -> p1 = p2.
  Proof.
    intros W Fo Ff x I1 I2 N1 N2.
    destruct (inv_run evs Fo Ff _ (inv_init h0 W)) as (_ & Io & _). fold (run o h0 evs) in Io. fold x in Io.
    destruct (Io t p1 I1) as (_ & _ & K1). destruct (Io t p2 I2) as (_ & _ & K2).
    destruct (K1 N1) as [F1 L1]. destruct (K2 N2) as [F2 L2].
    apply fits_inj; try assumption. congruence.
  Qed.

  Lemma first_accepted_in acc t v : first_accepted acc t = Some v -> In (t, v) acc /\ v <> 0.
  Proof.
    induction acc as [|[t' v'] acc IH]; cbn [first_accepted]; [discriminate|].
    destruct ((t' =? t) && negb (v' =? 0)) eqn:E.
    - intros H; inversion H; subst. apply andb_prop in E as [E1 E2]. apply Z.eqb_eq in E1.
      apply negb_true_iff, Z.eqb_neq in E2. subst. split; [left; reflexivity | assumption].
    - intros H. destruct (IH H) as [Hin Nz]. split; [right; exact Hin | exact Nz].
  Qed.

  (* every report carries the first accepted reading of its slot (sign-extended from the stored 32 bits) *)
  Theorem emission_is_first_accepted h0 evs t p v :
    hist_wf h0 -> Forall ev_ok evs -> Forall ev_fits evs ->
    let x := run o h0 evs in
    In (t, p) (tr_out x) -> p <> 0 -> first_accepted (tr_acc x) t = Some v -> p = u64 (i32 v) /\ u32 p = v.
  Proof.
    intros W Fo Ff x I N FA.
    destruct (inv_run evs Fo Ff _ (inv_init h0 W)) as (_ & Io & Ia). fold (run o h0 evs) in Io, Ia. fold x in Io, Ia.
    destruct (Io t p I) as (_ & _ & K). destruct (K N) as [F L].
    destruct (first_accepted_in _ _ _ FA) as [Hin Nz]. destruct (Ia t v Hin Nz) as [_ L'].
    assert (u32 p = v) by congruence. split; [|assumption]. subst v. symmetry. exact F.
  Qed.

  (* the history keeps it, too *)
  Theorem emission_is_stored h0 evs t p :
    hist_wf h0 -> Forall ev_ok evs -> Forall ev_fits evs ->
    let x := run o h0 evs in
    In (t, p) (tr_out x) -> p <> 0 -> load_reading (cs_hist (tr_st x)) o t = Ok (u32 p).
  Proof.
    intros W Fo Ff x I N.
    destruct (inv_run evs Fo Ff _ (inv_init h0 W)) as (_ & Io & _). fold (run o h0 evs) in Io. fold x in Io.
    destruct (Io t p I) as (_ & _ & K). apply K. exact N.
  Qed.

  Lemma emission_ranges h0 evs t p :
    hist_wf h0 -> Forall ev_ok evs -> Forall ev_fits evs ->
    In (t, p) (tr_out (run o h0 evs)) -> is_u32 t /\ is_u64 p.
  Proof.
    intros W Fo Ff I.
    destruct (inv_run evs Fo Ff _ (inv_init h0 W)) as (_ & Io & _). fold (run o h0 evs) in Io.
    destruct (Io t p I) as (A & B & _). split; assumption.
  Qed.
End Inv.

(* ---- on the wire: byte equality of the 80-byte datagrams ------------------ *)
Section WireProofs.
  Variable sign : bytes -> bytes.
  Variable short_id : Z.

  Lemma dg_fields t p : is_u32 t -> is_u64 p ->
    dg_slot (datagram sign short_id (t, p)) = t /\ dg_power (datagram sign short_id (t, p)) = p.
  Proof.
    intros Ht Hp. unfold dg_slot, dg_power, datagram, report_serialize. cbn [fst snd r_id r_ts r_p r_sig].
    set (sg := pad 64 _).
    split.
    - pose proof (slice_app_mid (le_enc 4 short_id) (le_enc 4 t) (le_enc 8 p ++ sg)) as S.
      rewrite !le_enc_length in S. rewrite S. apply le_dec_enc_small. exact Ht.
    - pose proof (slice_app_mid (le_enc 4 short_id ++ le_enc 4 t) (le_enc 8 p) sg) as S.
      rewrite app_length, !le_enc_length in S. rewrite <- app_assoc in S. change (4 + 4)%nat with 8%nat in S.
      rewrite S. apply le_dec_enc_small. exact Hp.
  Qed.

  Theorem no_equivocation o h0 evs d1 d2 :
    is_u32 o -> hist_wf h0 -> Forall ev_ok evs -> Forall ev_fits evs ->
    In d1 (datagrams sign short_id o h0 evs) -> In d2 (datagrams sign short_id o h0 evs) ->
    dg_slot d1 = dg_slot d2 -> dg_power d1 <> 0 -> dg_power d2 <> 0 -> d1 = d2.
  Proof.
    intros Ho W Fo Ff I1 I2 Es N1 N2. unfold datagrams in *.
    apply in_map_iff in I1 as ([t1 p1] & <- & J1). apply in_map_iff in I2 as ([t2 p2] & <- & J2).
    destruct (emission_ranges o Ho h0 evs t1 p1 W Fo Ff J1) as [A1 B1].
    destruct (emission_ranges o Ho h0 evs t2 p2 W Fo Ff J2) as [A2 B2].
    destruct (dg_fields t1 p1 A1 B1) as [S1 P1]. destruct (dg_fields t2 p2 A2 B2) as [S2 P2].
    rewrite S1, S2 in Es. rewrite P1 in N1. rewrite P2 in N2. subst t2.
    rewrite (emissions_agree o Ho h0 evs t1 p1 p2 W Fo Ff J1 J2 N1 N2). reflexivity.
  Qed.

  (* K2: without the 32-bit hypothesis the retransmission differs *)
  Lemma k2_resend_witness :
    let evs := [Tick [{| rc_ts := 1; rc_en := 2^32 + 5 |}]; Resend 1] in
    tr_out (run 0 (le_enc 4 0) evs) = [(1, 2^32 + 5); (1, 5)].
  Proof. vm_compute. reflexivity. Qed.

  Lemma k2_same_tick_witness :
    let evs := [Tick [{| rc_ts := 2; rc_en := 5000 |}; {| rc_ts := 2; rc_en := 2^32 + 5000 |}]] in
    tr_out (run 0 (le_enc 4 0) evs) = [(2, 5000); (2, 2^32 + 5000)].
  Proof. vm_compute. reflexivity. Qed.

  Lemma datagram_power_differs t p q : is_u32 t -> is_u64 p -> is_u64 q -> p <> q ->
    datagram sign short_id (t, p) <> datagram sign short_id (t, q).
  Proof.
    intros Ht Hp Hq Ne E. destruct (dg_fields t p Ht Hp) as [_ P]. destruct (dg_fields t q Ht Hq) as [_ Q].
    rewrite E in P. congruence.
  Qed.

  Lemma wf_empty : hist_wf (le_enc 4 0).
  Proof. split; vm_compute; [discriminate | reflexivity]. Qed.

  Lemma k2_pair t p q (evs : list ev) :
    tr_out (run 0 (le_enc 4 0) evs) = [(t, p); (t, q)] ->
    is_u32 t -> is_u64 p -> is_u64 q -> p <> q -> p <> 0 -> p <> 1 -> q <> 0 -> q <> 1 ->
    exists d1 d2,
      In d1 (datagrams sign short_id 0 (le_enc 4 0) evs) /\ In d2 (datagrams sign short_id 0 (le_enc 4 0) evs) /\
      dg_slot d1 = dg_slot d2 /\ dg_power d1 <> 0 /\ dg_power d1 <> 1 /\ dg_power d2 <> 0 /\ dg_power d2 <> 1 /\
      d1 <> d2.
  Proof.
    intros O Ht Hp Hq Ne P0 P1 Q0 Q1.
    exists (datagram sign short_id (t, p)), (datagram sign short_id (t, q)).
    unfold datagrams. rewrite O. cbn [map].
    destruct (dg_fields t p Ht Hp) as [S1 W1]. destruct (dg_fields t q Ht Hq) as [S2 W2].
    rewrite S1, S2, W1, W2.
    split; [left; reflexivity|]. split; [right; left; reflexivity|].
    split; [reflexivity|]. repeat (split; [assumption|]).
    apply datagram_power_differs; assumption.
  Qed.

  Lemma k2_refuted :
    exists h0 evs d1 d2, hist_wf h0 /\ Forall ev_ok evs /\
      In d1 (datagrams sign short_id 0 h0 evs) /\ In d2 (datagrams sign short_id 0 h0 evs) /\
      dg_slot d1 = dg_slot d2 /\ dg_power d1 <> 0 /\ dg_power d1 <> 1 /\ dg_power d2 <> 0 /\ dg_power d2 <> 1 /\
      d1 <> d2.
  Proof.
    exists (le_enc 4 0), [Tick [{| rc_ts := 1; rc_en := 2^32 + 5 |}]; Resend 1].
    destruct (k2_pair 1 (2^32 + 5) 5 _ k2_resend_witness) as (d1 & d2 & K);
      try (unfold is_u32, is_u64; lia); try lia.
    exists d1, d2. split; [exact wf_empty|]. split; [|exact K].
    repeat constructor; unfold is_u32, is_u64; cbn [rc_ts rc_en]; lia.
  Qed.

  Lemma k2_same_tick_refuted :
    exists h0 recs d1 d2, hist_wf h0 /\ Forall erec_ok recs /\
      In d1 (datagrams sign short_id 0 h0 [Tick recs]) /\ In d2 (datagrams sign short_id 0 h0 [Tick recs]) /\
      dg_slot d1 = dg_slot d2 /\ dg_power d1 <> 0 /\ dg_power d1 <> 1 /\ dg_power d2 <> 0 /\ dg_power d2 <> 1 /\
      d1 <> d2.
  Proof.
    exists (le_enc 4 0), [{| rc_ts := 2; rc_en := 5000 |}; {| rc_ts := 2; rc_en := 2^32 + 5000 |}].
    destruct (k2_pair 2 5000 (2^32 + 5000) _ k2_same_tick_witness) as (d1 & d2 & K);
      try (unfold is_u32, is_u64; lia); try lia.
    exists d1, d2. split; [exact wf_empty|]. split; [|exact K].
    repeat constructor; unfold is_u32, is_u64; cbn [rc_ts rc_en]; lia.
  Qed.
End WireProofs.
