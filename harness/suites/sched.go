//go:build test && verif

package suites

// Suite "sched" (C13): (a) for the point where a job runs between two critical sections (the
// impact-data job: list devices / write each device) every interfering operation of the menu
// {ban, authorize, report, rotate, register} is injected there and the outcome compared with the
// model; (b) concurrent stress against the real sockets: devices are banned while their
// datagrams are in flight, and a many-goroutine mix of reports, queries, archives, impact
// rounds and rotation ticks runs; afterwards the per-slot values must equal the order-
// independent report rule for the set of datagrams sent, the server must still answer, its own
// consistency check must pass, and no goroutine may have panicked (a panic kills this worker
// process, which the parent reports).  Built with -race in the thorough tier.

import (
	"encoding/json"
	"fmt"
	"math/big"
	"net"
	"os"
	"path/filepath"
	"sync"
	"sync/atomic"
	"time"

	"github.com/glowlabs-org/gca-backend/glow"
	"github.com/glowlabs-org/gca-backend/server"
	"verifharness/core"
	"verifharness/srv"
)

func init() {
	core.Register("sched", func(seed uint64, tier, out string) (*core.Result, error) {
		return shardedServerSuite("sched", seed, tier, out, schedWorker)
	})
}

// (a) every interfering operation injected between the impact job's two sections
func schedInjection(res *core.Result, r *core.RNG) (*sim, error) {
	s, err := started(res, r, "sched-inject", 700, false, 1000, 1000, 5000)
	if err != nil {
		return s, err
	}
	w := s.w
	for _, kind := range []string{"ban-captured-device", "authorize", "report", "rotate", "register", "none"} {
		k := kind
		fired := false
		s.impactRound(func() {
			if fired {
				return
			}
			fired = true
			live := s.liveDevices()
			switch k {
			case "ban-captured-device":
				if len(live) > 1 {
					d := live[len(live)-1]
					ea := d.Auth
					ea.Capacity += 3
					ea.Signature = w.Sign(ea.SigningBytes(), s.a.GCA)
					s.authorize(ea, "conflict-field")
				}
			case "authorize":
				s.addDevice(1000)
			case "report":
				if len(live) > 0 {
					s.send(live[0], w.Now-uint32(r.Intn(50)), 300+uint64(r.Intn(100)))
				}
			case "rotate":
				w.SetNow(w.Now + 3300)
				s.rotateTick()
			case "register":
				s.register("other-valid")
			}
		})
		res.Count("sched.inject:" + kind)
		w.SnapHop()
	}
	return s, nil
}

// (b0) bursts on the real UDP socket from one sender: distinct (device, slot) reports back to back, so
// that the listener reads the next datagram while handlers of the previous ones are still running.
// Afterwards every slot must hold exactly the single report sent for it, unknown garbage interleaved
// must change nothing.  A burst whose datagrams did not all reach a handler (kernel drop) is
// discarded and repeated, never judged.
func schedBurst(res *core.Result, r *core.RNG) error {
	s, err := started(res, r, "sched-burst", 900, true, 1<<20, 1<<20)
	if err != nil {
		return err
	}
	w := s.w
	_, _, up := w.S.Ports()
	conn, err := net.Dial("udp", fmt.Sprintf("127.0.0.1:%d", up))
	if err != nil {
		return err
	}
	defer conn.Close()
	judged := 0
	for round := 0; round < 6 && judged < 3; round++ {
		type one struct {
			id, ts uint32
			p      uint64
		}
		var sent []one
		var dgs [][]byte
		base := w.Now - 400 + uint32(round)*70
		for k := 0; k < 32; k++ {
			for _, d := range s.a.Devices {
				ts := base + uint32(k)
				pw := uint64(1000 + r.Intn(500000))
				sig := glow.Sign(refReportSigningBytes(d.ID, ts, pw), d.K.Priv)
				dgs = append(dgs, refReportBytes(d.ID, ts, pw, sig))
				sent = append(sent, one{d.ID, ts, pw})
			}
			if k%8 == 3 {
				dgs = append(dgs, r.Bytes(80))
			}
		}
		before := srvHandled()
		for _, d := range dgs {
			conn.Write(d)
		}
		ok := false
		for i := 0; i < 1500; i++ {
			if srvHandled()-before >= int64(len(dgs)) {
				ok = true
				break
			}
			time.Sleep(2 * time.Millisecond)
		}
		if !ok {
			res.Discarded++
			continue
		}
		judged++
		res.Count("sched.burst")
		sn := w.S.VerifSnapshot()
		have := map[slotKey]uint64{}
		for id, slots := range sn.Reports {
			for _, sl := range slots {
				have[slotKey{id, sn.Offset + uint32(sl.Index)}] = sl.Report.PowerOutput
			}
		}
		bad, first := 0, ""
		for _, x := range sent {
			if got := have[slotKey{x.id, x.ts}]; got != x.p {
				bad++
				if first == "" {
					first = fmt.Sprintf("device %d slot %d: sent power %d, the server holds %d", x.id, x.ts, x.p, got)
				}
			}
		}
		if bad > 0 {
			s.fail(fmt.Sprintf("%d datagrams sent back to back on the UDP socket all reached a handler, but %d of the %d device-timeslots do not hold their single valid report (%s)", len(dgs), bad, len(sent), first), "burst-not-recorded")
		}
	}
	if judged == 0 {
		w.Failed = "no burst was delivered completely"
	}
	if p := w.Close(); p != "" {
		s.fail("server consistency check (CheckInvariants) panics after the burst: "+p, "checkinvariants-panic")
	}
	return nil
}

// (b5) a long run of accepted reports (more than the server keeps in its recent list, so the list is cut
// at least once), sent over the real socket in bursts, then a restart: every accepted report is on disk,
// so the state after the restart equals the state before it.  Oracle only (no model case).
func longRunRestart(res *core.Result, r *core.RNG) error {
	s, err := started(res, r, "long-run", 900, false, 1<<30, 1<<30, 1<<30)
	if err != nil {
		return err
	}
	w := s.w
	_, _, up := w.S.Ports()
	conn, err := net.Dial("udp", fmt.Sprintf("127.0.0.1:%d", up))
	if err != nil {
		return err
	}
	defer conn.Close()
	max := int(server.VerifConsts()["maxRecentReports"])
	if max <= 0 || max > 5000 {
		return nil // production constants: the scenario is for the test build
	}
	total := max + max/2 + 40
	sent := 0
	for ts := w.Now - 430; sent < total && ts <= w.Now+430; ts++ {
		var dgs [][]byte
		for _, d := range s.a.Devices {
			p := uint64(2 + r.Intn(1000000))
			dgs = append(dgs, refReportBytes(d.ID, ts, p, glow.Sign(refReportSigningBytes(d.ID, ts, p), d.K.Priv)))
		}
		if sent > max-3 && sent < max+6 { // around the first cut: a second, different report (the slot gets banned)
			d := s.a.Devices[0]
			dgs = append(dgs, refReportBytes(d.ID, ts, 77, glow.Sign(refReportSigningBytes(d.ID, ts, 77), d.K.Priv)))
		}
		before := srvHandled()
		for _, d := range dgs {
			conn.Write(d)
		}
		for i := 0; i < 1500 && srvHandled()-before < int64(len(dgs)); i++ {
			time.Sleep(time.Millisecond)
		}
		sent += len(dgs)
	}
	res.Count("long-run.restart")
	s.restart(w.Now) // compares the views before and after (key c04-view-differs)
	if s.alive {
		if p := w.Close(); p != "" {
			s.fail("server consistency check (CheckInvariants) panics after the long run: "+p, "checkinvariants-panic")
		}
	}
	return nil
}

// (b6) the report log cannot be written while the SECOND, different report for a slot arrives (and
// while an over-capacity report arrives): the slot's value still follows the report rules (banned).
// Oracle only; the world is not restarted afterwards (its disk is behind its memory by design).
func reportWriteFault(res *core.Result, r *core.RNG) error {
	s, err := started(res, r, "report-fault", 900, false, 1000)
	if err != nil {
		return err
	}
	w := s.w
	d := s.a.Devices[0]
	ts := w.Now - 7
	s.send(d, ts, 500)
	s.send(d, ts+1, 600)
	f := filepath.Join(w.Dir, "equipment-reports.dat")
	bak := f + ".moved"
	if os.Rename(f, bak) != nil {
		return nil
	}
	os.Mkdir(f, 0755)
	inject := func(slot uint32, p uint64) {
		w.S.VerifInjectDatagram(refReportBytes(d.ID, slot, p, glow.Sign(refReportSigningBytes(d.ID, slot, p), d.K.Priv)))
	}
	inject(ts, 501)      // second, different report: the slot is banned
	inject(ts+1, 999999) // over capacity: the slot is banned
	inject(ts+2, 700)    // a first report: recorded
	os.Remove(f)
	os.Rename(bak, f)
	res.Count("report.write-fault")
	sn := w.S.VerifSnapshot()
	have := map[uint32]uint64{}
	for _, sl := range sn.Reports[d.ID] {
		have[sn.Offset+uint32(sl.Index)] = sl.Report.PowerOutput
	}
	for _, c := range []struct {
		slot uint32
		want uint64
		why  string
	}{{ts, 1, "two different valid reports"}, {ts + 1, 1, "a report over 135% of the capacity after a valid one"}, {ts + 2, 700, "a single valid report"}} {
		if have[c.slot] != c.want {
			s.fail(fmt.Sprintf("while the report log could not be written: slot %d received %s and publishes %d (the report rules give %d)", c.slot, c.why, have[c.slot], c.want), "c02-write-fault-value")
		}
	}
	if p := w.Close(); p != "" {
		s.fail("server consistency check (CheckInvariants) panics after reports arrived while the log was unwritable: "+p, "checkinvariants-panic")
	}
	return nil
}

// (b1) devices banned while their datagrams are in flight on the real UDP socket
func schedBanInFlight(res *core.Result, r *core.RNG) error {
	s, err := started(res, r, "sched-ban", 900, true)
	if err != nil {
		return err
	}
	w := s.w
	_, _, up := w.S.Ports()
	addr := fmt.Sprintf("127.0.0.1:%d", up)
	n := 24
	for i := 0; i < n; i++ {
		d := s.addDevice(1000)
		if d == nil {
			continue
		}
		stop := make(chan struct{})
		var wg sync.WaitGroup
		wg.Add(1)
		go func() {
			defer wg.Done()
			ts := w.Now - 400
			for j := 0; j < 800; j++ {
				select {
				case <-stop:
					return
				default:
				}
				sig := glow.Sign(refReportSigningBytes(d.ID, ts+uint32(j), 500), d.K.Priv)
				glow.SendUDPReport(refReportBytes(d.ID, ts+uint32(j), 500, sig), addr)
			}
		}()
		time.Sleep(time.Duration(200+r.Intn(1500)) * time.Microsecond)
		ea := d.Auth
		ea.Debt += 9
		ea.Signature = glow.Sign(ea.SigningBytes(), s.a.GCA.Priv)
		j, _ := json.Marshal(ea)
		w.Raw("POST", "/api/v1/authorize-equipment", j)
		close(stop)
		wg.Wait()
		res.Count("sched.ban-in-flight")
	}
	time.Sleep(30 * time.Millisecond)
	if rr := w.Raw("GET", "/api/v1/equipment", nil); rr.Status != 200 {
		s.fail("the server stopped answering after devices were banned while reporting", "c13-liveness")
	}
	sn := w.S.VerifSnapshot()
	if len(sn.Bans) < n-2 || len(sn.Equipment) > 2 {
		s.fail(fmt.Sprintf("conflicting authorizations posted while the device reported did not ban it (%d bans, %d devices left)", len(sn.Bans), len(sn.Equipment)), "c13-ban-lost")
	}
	if p := w.Close(); p != "" {
		s.fail("server consistency check (CheckInvariants) panics after the concurrent workload: "+p, "checkinvariants-panic")
	}
	return nil
}

// (b2) many goroutines: reports over UDP, queries, archives, impact rounds, rotation checks
func schedMix(res *core.Result, r *core.RNG) error {
	s, err := started(res, r, "sched-mix", 900, true, 1000, 1000, 5000, 1<<20)
	if err != nil {
		return err
	}
	w := s.w
	// a first week with a few hundred values, archived by a rotation before the workload starts: the
	// archived week is queried (with and without insert_false_negatives) during the workload and must be
	// the same record afterwards
	for ts := uint32(600); ts < 900; ts++ {
		s.send(s.a.Devices[int(ts)%2], ts, 100+uint64(ts))
	}
	w.SetNow(3300)
	s.rotateTick()
	archivedBefore := ""
	if sn := w.S.VerifSnapshot(); len(sn.History) == 1 {
		archivedBefore = srv.CoqStats(sn.History[0])
	}
	_, _, up := w.S.Ports()
	addr := fmt.Sprintf("127.0.0.1:%d", up)
	type sent struct {
		id, ts uint32
		p      uint64
		dg     string
	}
	var mu sync.Mutex
	var all []sent
	var wg sync.WaitGroup
	var stop int32
	for gi, d := range s.a.Devices {
		for k := 0; k < 2; k++ {
			wg.Add(1)
			rr := r.Fork()
			go func(d *device, gi, k int) {
				defer wg.Done()
				for j := 0; j < 120; j++ {
					ts := w.Now - uint32(rr.Intn(40))
					p := []uint64{300, 301, 500, 1350, 1351, 7000, 1 << 63}[rr.Intn(7)]
					sig := glow.Sign(refReportSigningBytes(d.ID, ts, p), d.K.Priv)
					dg := refReportBytes(d.ID, ts, p, sig)
					mu.Lock()
					all = append(all, sent{d.ID, ts, p, string(dg)})
					mu.Unlock()
					glow.SendUDPReport(dg, addr)
					if j%16 == 0 {
						time.Sleep(200 * time.Microsecond)
					}
				}
			}(d, gi, k)
		}
	}
	bg := func(f func()) {
		wg.Add(1)
		go func() {
			defer wg.Done()
			for atomic.LoadInt32(&stop) == 0 {
				f()
				time.Sleep(500 * time.Microsecond)
			}
		}()
	}
	bg(func() {
		w.Raw("GET", fmt.Sprintf("/api/v1/all-device-stats?timeslot_offset=%d&insert_false_negatives=%v", 2016*r.Intn(2), r.Bool()), nil)
	})
	bg(func() { w.Raw("GET", "/api/v1/equipment", nil) })
	bg(func() { w.Raw("GET", "/api/v1/archive", nil) })
	bg(func() { w.Sync(s.a.Devices[0].ID, false) })
	bg(func() { w.S.VerifImpactRound() })
	bg(func() { w.Raw("GET", fmt.Sprintf("/api/v1/recent-reports?publicKey=%x", s.a.Devices[1].K.Pub[:]), nil) })
	time.Sleep(150 * time.Millisecond)
	atomic.StoreInt32(&stop, 1)
	wg.Wait()
	// wait until the listener has disposed of everything that arrived
	for i := 0; i < 100; i++ {
		before := srvHandled()
		time.Sleep(20 * time.Millisecond)
		if srvHandled() == before {
			break
		}
	}
	res.Count("sched.mix")
	// the final per-slot values must follow the (order-independent) report rule for the datagrams that
	// ARRIVED; UDP may drop under load, so: a slot value must be explainable by a subset of what was sent
	sn := w.S.VerifSnapshot()
	caps := map[uint32]uint64{}
	for id, a := range sn.Equipment {
		caps[id] = a.Capacity
	}
	if archivedBefore != "" {
		res.Count("sched.mix-archived-week")
		if len(sn.History) < 1 || srv.CoqStats(sn.History[0]) != archivedBefore {
			s.fail("the archived week held by the server after the concurrent workload (reports, statistics queries with and without insert_false_negatives, archives, syncs, impact rounds) is not the record that was archived before it", "c13-archived-week-changed")
		}
	}
	bySlot := map[slotKey][]sent{}
	for _, x := range all {
		k := slotKey{x.id, x.ts}
		bySlot[k] = append(bySlot[k], x)
	}
	for id, slots := range sn.Reports {
		for _, sl := range slots {
			ts := sn.Offset + uint32(sl.Index)
			cands := bySlot[slotKey{id, ts}]
			if len(cands) == 0 {
				s.fail("a slot holds a record although no datagram was sent for it", "c13-phantom-record")
				continue
			}
			v := sl.Report.PowerOutput
			ok := false
			distinct := map[string]bool{}
			over := false
			lim := new(big.Int).Mul(new(big.Int).SetUint64(caps[id]), big.NewInt(135))
			lim.Div(lim, big.NewInt(100))
			for _, c := range cands {
				distinct[c.dg] = true
				o := c.p <= 1<<63-1 && new(big.Int).SetUint64(c.p).Cmp(lim) > 0
				over = over || o
				if v == c.p && !o {
					ok = true // explained by that single report having arrived (possibly several times)
				}
			}
			if v == 1 && (len(distinct) >= 2 || over) {
				ok = true
			}
			if !ok {
				s.fail(fmt.Sprintf("device %d slot %d holds %d, which no subset of the datagrams sent for it explains under the report rules", id, ts, v), "c13-not-sequential")
			}
		}
	}
	if rr := w.Raw("GET", "/api/v1/equipment", nil); rr.Status != 200 {
		s.fail("the server stopped answering after the concurrent workload", "c13-liveness")
	}
	done := make(chan string, 1)
	go func() { done <- w.Close() }()
	select {
	case p := <-done:
		if p != "" {
			s.fail("server consistency check (CheckInvariants) panics after the concurrent workload: "+p, "checkinvariants-panic")
		}
	case <-time.After(20 * time.Second):
		s.fail("Close() does not return after the concurrent workload (deadlock)", "c13-deadlock")
	}
	return nil
}

// (b3) new authorized servers announced while devices sync over TCP (the two handlers use the
// server lock and the server-list lock): afterwards both endpoints must still answer
func schedListVsSync(res *core.Result, r *core.RNG) error {
	s, err := started(res, r, "sched-list", 900, true, 1000, 1000)
	if err != nil {
		return err
	}
	w := s.w
	var stop int32
	var wg sync.WaitGroup
	for k := 0; k < 4; k++ {
		wg.Add(1)
		go func(k int) {
			defer wg.Done()
			for atomic.LoadInt32(&stop) == 0 {
				w.Sync(s.a.Devices[k%len(s.a.Devices)].ID, false)
			}
		}(k)
	}
	posted := 0
	deadline := time.Now().Add(400 * time.Millisecond)
	stuck := false
	for posted < 120 && time.Now().Before(deadline) && !stuck {
		as := server.AuthorizedServer{PublicKey: srv.DetKey(r).Pub, Location: "127.0.0.1", HttpPort: 9, TcpPort: uint16(r.Range(1, 65535)), UdpPort: uint16(r.Range(1, 65535))}
		as.GCAAuthorization = glow.Sign(as.SigningBytes(), s.a.GCA.Priv)
		j, _ := json.Marshal(as)
		done := make(chan int, 1)
		go func() { done <- w.Raw("POST", "/api/v1/authorized-servers", j).Status }()
		select {
		case st := <-done:
			if st == 200 {
				posted++
			}
		case <-time.After(3 * time.Second):
			stuck = true
		}
	}
	// an announced server is banned and then announced once more (a record relayed late) while the
	// devices keep syncing: every path through the handler releases the list lock
	if !stuck {
		k := srv.DetKey(r).Pub
		for _, banned := range []bool{false, true, false, true} {
			as := server.AuthorizedServer{PublicKey: k, Banned: banned, Location: "127.0.0.1", HttpPort: 9, TcpPort: 7, UdpPort: 8}
			as.GCAAuthorization = glow.Sign(as.SigningBytes(), s.a.GCA.Priv)
			j, _ := json.Marshal(as)
			done := make(chan int, 1)
			go func() { done <- w.Raw("POST", "/api/v1/authorized-servers", j).Status }()
			select {
			case <-done:
			case <-time.After(3 * time.Second):
				stuck = true
			}
			if stuck {
				break
			}
		}
	}
	// the same two records about one server in both arrival orders: ban then authorization, authorization then
	// ban -- either way the server ends up banned (the outcome does not depend on the order)
	if !stuck {
		for _, banFirst := range []bool{true, false} {
			k := srv.DetKey(r).Pub
			mk := func(b bool) []byte {
				as := server.AuthorizedServer{PublicKey: k, Banned: b, Location: "127.0.0.1", HttpPort: 9, TcpPort: 7, UdpPort: 8}
				as.GCAAuthorization = glow.Sign(as.SigningBytes(), s.a.GCA.Priv)
				j, _ := json.Marshal(as)
				return j
			}
			order := [][]byte{mk(false), mk(true)}
			if banFirst {
				order = [][]byte{mk(true), mk(false)}
			}
			for _, j := range order {
				w.Raw("POST", "/api/v1/authorized-servers", j)
			}
			if rr := w.Raw("GET", "/api/v1/authorized-servers", nil); rr.Status == 200 {
				var resp struct{ AuthorizedServers []server.AuthorizedServer }
				if json.Unmarshal(rr.Body, &resp) == nil {
					banned := false
					for _, e := range resp.AuthorizedServers {
						if e.PublicKey == k && e.Banned {
							banned = true
						}
					}
					if !banned {
						s.fail(fmt.Sprintf("a ban and an authorization of one server were both delivered (ban first: %v) and the server is not listed as banned: the outcome depends on the arrival order", banFirst), "server-list-order-dependent")
					}
				}
			}
		}
		res.Count("sched.list-order")
	}
	// several announcements of ONE new key in flight together (different ports, all validly signed):
	// the key gets exactly one entry
	for round := 0; round < 6 && !stuck; round++ {
		k := srv.DetKey(r).Pub
		var pw sync.WaitGroup
		start := make(chan struct{})
		for g := 0; g < 8; g++ {
			as := server.AuthorizedServer{PublicKey: k, Location: "127.0.0.1", HttpPort: 9, TcpPort: uint16(1000 + g), UdpPort: uint16(r.Range(1, 65535))}
			as.GCAAuthorization = glow.Sign(as.SigningBytes(), s.a.GCA.Priv)
			j, _ := json.Marshal(as)
			pw.Add(1)
			go func() {
				defer pw.Done()
				<-start
				w.Raw("POST", "/api/v1/authorized-servers", j)
			}()
		}
		close(start)
		pw.Wait()
	}
	if rr := w.Raw("GET", "/api/v1/authorized-servers", nil); rr.Status == 200 {
		var resp struct{ AuthorizedServers []server.AuthorizedServer }
		if json.Unmarshal(rr.Body, &resp) == nil {
			seen := map[glow.PublicKey]int{}
			for _, e := range resp.AuthorizedServers {
				seen[e.PublicKey]++
			}
			for k, n := range seen {
				if n > 1 {
					s.fail(fmt.Sprintf("after simultaneous announcements of one new server key the list holds %d entries for it (%x...)", n, k[:6]), "server-list-duplicate-key")
					break
				}
			}
			if len(seen) < 6 {
				s.fail("the list of authorized servers could not be read back", "c13-list-setup")
			}
		}
	}
	atomic.StoreInt32(&stop, 1)
	res.Count("sched.list-vs-sync")
	probe := make(chan bool, 1)
	go func() {
		ok := w.Raw("GET", "/api/v1/equipment", nil).Status == 200
		_, _, _, _, _, e := w.Sync(s.a.Devices[0].ID, false)
		probe <- ok && e == nil
	}()
	alive := false
	select {
	case alive = <-probe:
	case <-time.After(4 * time.Second):
	}
	if stuck || !alive {
		s.fail(fmt.Sprintf("the server stops answering (HTTP and TCP sync) when new authorized servers are announced while devices sync: stuck after %d announcements with 4 devices syncing in a loop", posted), "c13-deadlock")
		return nil // the server cannot be closed
	}
	wg.Wait()
	if posted == 0 {
		s.fail("no announcement of a new authorized server was accepted", "c13-list-setup")
	}
	if p := w.Close(); p != "" {
		s.fail("server consistency check (CheckInvariants) panics after the concurrent workload: "+p, "checkinvariants-panic")
	}
	return nil
}

// (b4) devices sync over TCP while the week rotation runs: every reply is a snapshot, i.e. each
// timeslot it claims (offset + set bit) is one the device really reported.  A reply that pairs the
// bitfield of one window with the offset of another claims timeslots nobody reported.
func schedSyncVsRotate(res *core.Result, r *core.RNG) error {
	s, err := started(res, r, "sched-rot", 900, false, 1<<20)
	if err != nil {
		return err
	}
	w := s.w
	d := s.a.Devices[0]
	var mu sync.Mutex
	reported := map[uint32]bool{}
	var bad []string
	var stop int32
	var wg sync.WaitGroup
	var replies int64
	for k := 0; k < 16; k++ {
		wg.Add(1)
		go func() {
			defer wg.Done()
			for atomic.LoadInt32(&stop) == 0 {
				found, _, off, bits, _, err := w.Sync(d.ID, false)
				if err != nil || !found {
					continue
				}
				atomic.AddInt64(&replies, 1)
				mu.Lock()
				for _, b := range bits {
					if !reported[off+uint32(b)] && len(bad) < 3 {
						bad = append(bad, fmt.Sprintf("a sync reply with window offset %d has bit %d set, i.e. claims a record for timeslot %d, which the device never reported", off, b, off+uint32(b)))
					}
				}
				mu.Unlock()
			}
		}()
	}
	rot := 0
	for week := 0; week < 30; week++ {
		// a few reports at irregular slots near the clock (registered before they are sent), some in the
		// first and some in the second week of the window (the rotation moves the latter)
		cur := w.S.VerifSnapshot().Offset
		for j := 0; j < 4; j++ {
			if j == 2 {
				w.SetNow(cur + 2400 + uint32(r.Intn(700)))
			}
			ts := w.Now - uint32(r.Intn(380))
			mu.Lock()
			reported[ts] = true
			mu.Unlock()
			s.send(d, ts, 500+uint64(r.Intn(100)))
		}
		before := w.S.VerifSnapshot().Offset
		w.SetNow(before + 3300 + uint32(r.Intn(600)))
		s.rotateTick()
		if w.S.VerifSnapshot().Offset != before {
			rot++
		}
		time.Sleep(2 * time.Millisecond)
	}
	atomic.StoreInt32(&stop, 1)
	wg.Wait()
	res.Count("sched.sync-vs-rotate")
	if rot < 15 || atomic.LoadInt64(&replies) < 20 {
		w.Failed = fmt.Sprintf("sync-vs-rotate: only %d rotations / %d replies", rot, replies)
	}
	for _, b := range bad {
		s.fail(b+" (the reply is not a snapshot of one server state: bitfield and offset come from different windows)", "sync-reply-torn")
	}
	var items []string
	s.finish(&items)
	return nil
}

func schedWorker(res *core.Result, r *core.RNG, tier, out string) error {
	var items []string
	n := 1
	if tier == "thorough" {
		n = 6
	}
	for i := 0; i < n; i++ {
		s, err := schedInjection(res, r.Fork())
		if err != nil {
			if s != nil {
				s.w.Close()
			}
			return err
		}
		s.finish(&items)
		if err := schedBurst(res, r.Fork()); err != nil {
			return err
		}
		if err := schedBanInFlight(res, r.Fork()); err != nil {
			return err
		}
		if err := schedMix(res, r.Fork()); err != nil {
			return err
		}
		if err := schedListVsSync(res, r.Fork()); err != nil {
			return err
		}
		if err := schedSyncVsRotate(res, r.Fork()); err != nil {
			return err
		}
		// sixteen simultaneous, correctly signed registrations with different keys: one winner
		if rs, err := registerRaceTour(res, r.Fork()); err != nil {
			return err
		} else {
			rs.finish(&items)
		}
	}
	res.Required = []string{"sched.inject:ban-captured-device", "sched.inject:rotate", "sched.burst", "sched.ban-in-flight", "sched.mix", "sched.list-vs-sync", "sched.sync-vs-rotate", "register.concurrent-batch"}
	res.Rule = "injection of every menu operation between the impact job's two critical sections (compared with the model); bursts of distinct reports back to back on the real UDP socket (every slot must hold its report); devices banned while their datagrams are in flight on the real socket; many-goroutine mix of UDP reports, statistics (with insert_false_negatives), equipment, archive, sync, recent-reports requests and impact rounds, judged against the order-independent report rule; devices syncing while ten week rotations run (every reply must be a snapshot); announcements of new authorized servers against devices syncing in a loop with a liveness probe; (mix) judged against the order-independent report rule; -race build in the thorough tier"
	return writeServerCases(res, out, "sched", items)
}

func srvHandled() int64 { return srvYieldCount("udp.handled") + srvYieldCount("udp.dropped") }
