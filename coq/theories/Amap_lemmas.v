From Coq Require Import ZArith List Bool Lia.
From GCA Require Import Bytes Bytes_lemmas Amap.
Import ListNotations.
Open Scope Z_scope.

Section ZMapL.
  Context {V : Type}.
  Implicit Types m : list (Z * V).

  Lemma zget_zdel_same k m : zget k (zdel k m) = None.
  Proof.
    induction m as [|[k' v] m IH]; simpl; [reflexivity|].
    destruct (Z.eqb_spec k k'); [exact IH|]. simpl.
    destruct (Z.eqb_spec k k'); [contradiction | exact IH].
  Qed.
  Lemma zget_zdel_other k k' m : k <> k' -> zget k (zdel k' m) = zget k m.
  Proof.
    intros N. induction m as [|[k2 v] m IH]; simpl; [reflexivity|].
    destruct (Z.eqb_spec k' k2); subst.
    - destruct (Z.eqb_spec k k2); [contradiction | exact IH].
    - simpl. destruct (Z.eqb_spec k k2); [reflexivity | exact IH].
  Qed.
  Lemma zget_zset_same k v m : zget k (zset k v m) = Some v.
  Proof. unfold zset; simpl. rewrite Z.eqb_refl. reflexivity. Qed.
  Lemma zget_zset_other k k' v m : k <> k' -> zget k (zset k' v m) = zget k m.
  Proof.
    intros N. unfold zset; simpl. destruct (Z.eqb_spec k k'); [contradiction|].
    apply zget_zdel_other; exact N.
  Qed.
  Lemma zget_zset k k' v m : zget k (zset k' v m) = if k =? k' then Some v else zget k m.
  Proof.
    destruct (Z.eqb_spec k k'); subst; [apply zget_zset_same | apply zget_zset_other; assumption].
  Qed.
  Lemma zget_zdel k k' m : zget k (zdel k' m) = if k =? k' then None else zget k m.
  Proof.
    destruct (Z.eqb_spec k k'); subst; [apply zget_zdel_same | apply zget_zdel_other; assumption].
  Qed.
  Lemma zmem_zset k k' v m : zmem k (zset k' v m) = (k =? k') || zmem k m.
  Proof. unfold zmem. rewrite zget_zset. destruct (k =? k'); reflexivity. Qed.
  Lemma zmem_zdel k k' m : zmem k (zdel k' m) = negb (k =? k') && zmem k m.
  Proof. unfold zmem. rewrite zget_zdel. destruct (k =? k'); reflexivity. Qed.
  Lemma zget_In k v m : zget k m = Some v -> In (k, v) m.
  Proof.
    induction m as [|[k' v'] m IH]; simpl; [discriminate|].
    destruct (Z.eqb_spec k k'); intros H.
    - inversion H; subst. left; reflexivity.
    - right. apply IH. exact H.
  Qed.
  Lemma zget_None_notin k m : zget k m = None -> ~ In k (zkeys m).
  Proof.
    induction m as [|[k' v'] m IH]; simpl; [tauto|].
    destruct (Z.eqb_spec k k'); [discriminate|]. intros H [E|I]; [congruence | exact (IH H I)].
  Qed.
  Lemma zdel_notin k m : zget k m = None -> zdel k m = m.
  Proof.
    induction m as [|[k' v'] m IH]; simpl; [reflexivity|].
    destruct (Z.eqb_spec k k'); [discriminate|]. intros H. rewrite IH by exact H. reflexivity.
  Qed.
End ZMapL.

Section BMapL.
  Context {V : Type}.
  Implicit Types m : list (bytes * V).
  Lemma bget_bdel k k' m : bget k (bdel k' m) = if bytes_eqb k k' then None else bget k m.
  Proof.
    induction m as [|[k2 v] m IH]; simpl.
    - destruct (bytes_eqb k k'); reflexivity.
    - destruct (bytes_eqb k' k2) eqn:E2.
      + apply bytes_eqb_eq in E2; subst k2. rewrite IH.
        destruct (bytes_eqb k k'); reflexivity.
      + simpl. rewrite IH. destruct (bytes_eqb k k2) eqn:E1; [|reflexivity].
        apply bytes_eqb_eq in E1; subst k2.
        destruct (bytes_eqb k k') eqn:E3; [|reflexivity].
        apply bytes_eqb_eq in E3; subst. rewrite bytes_eqb_refl in E2. discriminate.
  Qed.
  Lemma bget_bset k k' v m : bget k (bset k' v m) = if bytes_eqb k k' then Some v else bget k m.
  Proof.
    unfold bset; simpl. destruct (bytes_eqb k k') eqn:E; [reflexivity|].
    rewrite bget_bdel, E. reflexivity.
  Qed.
End BMapL.

Lemma zin_In k l : zin k l = true <-> In k l.
Proof.
  unfold zin. rewrite existsb_exists. split.
  - intros [x [I E]]. apply Z.eqb_eq in E. subst. exact I.
  - intros I. exists k. split; [exact I | apply Z.eqb_refl].
Qed.
