(* C17 -- Server lists and GCA migration follow the GCA's signatures; bans are monotone.
   Only statements, each closed by [exact]; proofs live in ServerList_lemmas.v and
   ClientSync_lemmas.v.  [verify] is arbitrary. *)
From Coq Require Import ZArith List Bool String.
From GCA Require Import Wrap Bytes CodecSync ClientSync ClientSync_lemmas ServerList ServerList_lemmas.
Import ListNotations.
Open Scope Z_scope.

(* ================= server side: every sequence of POST /authorized-servers ================= *)
(* an entry of the list was there before or was posted with a valid GCA signature over its
   key, ban flag, location and ports *)
Theorem c17_enter_signed (verify : bytes -> bytes -> bytes -> bool) gk posts l y :
  In y (post_all verify gk l posts) -> In y l \/ (In y posts /\ signed verify gk y).
Proof. exact (enter_signed verify gk posts l y). Qed.

(* position i keeps its entry, or the entry was not banned and has been replaced by a posted,
   signed, banned record for the same key *)
Theorem c17_entries_stable (verify : bytes -> bytes -> bytes -> bool) gk posts l i x :
  nth_error l i = Some x ->
  exists y, nth_error (post_all verify gk l posts) i = Some y /\ seq_change verify gk posts x y.
Proof. exact (entries_stable verify gk posts l i x). Qed.

(* a banned entry never changes again *)
Theorem c17_ban_monotone (verify : bytes -> bytes -> bytes -> bool) gk posts l i x :
  nth_error l i = Some x -> as_banned x = true -> nth_error (post_all verify gk l posts) i = Some x.
Proof. exact (banned_never_changes verify gk posts l i x). Qed.

Theorem c17_list_only_grows (verify : bytes -> bytes -> bytes -> bool) gk posts l :
  (List.length l <= List.length (post_all verify gk l posts))%nat.
Proof. exact (list_only_grows verify gk posts l). Qed.

(* every stored migration order carries the current GCA's signature and its new servers the new GCA's *)
Theorem c17_migrations_validated (verify : bytes -> bytes -> bytes -> bool) gk ms l kv :
  In kv (post_migrations verify gk l ms) ->
  In kv l \/ (In (snd kv) ms /\ fst kv = mg_equipment (snd kv) /\ validate_migration verify gk (snd kv) = true).
Proof. exact (stored_migrations_valid verify gk ms l kv). Qed.
Theorem c17_validate_migration (verify : bytes -> bytes -> bytes -> bool) gk m :
  validate_migration verify gk m = true <->
  verify gk (mg_signing_bytes m) (mg_sig m) = true /\
  Forall (fun s => verify (mg_newgca m) (as_signing_bytes s) (as_sig s) = true) (mg_servers m).
Proof. exact (validate_migration_spec verify gk m). Qed.

(* ================= client side: every history of sync rounds and restarts =================== *)
(* every step of every history from a loaded client: either GCA and id stay, entries are kept or
   become banned and new entries are signed by the GCA -- or the reply carried an order for THIS
   device key signed by the CURRENT GCA, the new GCA/id are the order's, and every server of the
   new list is signed by the NEW GCA *)
Theorem c17_identity_changes_only_by_order (verify : bytes -> bytes -> bytes -> bool) mykey st0 ops st op st' :
  Inv st0 -> crun verify v_fixed mykey st0 ops = Some st -> cstep verify v_fixed mykey st op = Some st' ->
  Inv st' /\ step_effect verify mykey st st'.
Proof. exact (every_step verify mykey st0 ops st op st'). Qed.

(* while the GCA is the same: bans are never lost, entries only change by a ban record, id fixed *)
Theorem c17_client_ban_monotone (verify : bytes -> bytes -> bytes -> bool) mykey st ops st' :
  Inv st -> same_gca_run verify mykey st ops st' ->
  ban_le (c_servers st) (c_servers st') /\ entry_keep (c_servers st) (c_servers st') /\ c_id st' = c_id st.
Proof. exact (same_gca_monotone verify mykey st ops st'). Qed.

(* what a sync round persists is what it adopted: a restart loads the same GCA, id and list --
   provided the adopted list is not empty (K7 below) *)
Theorem c17_persist_equals_adopt (verify : bytes -> bytes -> bytes -> bool) mykey st att st' ord :
  Inv st -> cstep verify v_fixed mykey st (CSync att) = Some st' -> c_servers st' <> [] ->
  exists st'', client_load (c_files st') ord = LdOk st'' /\ identity st'' = identity st'.
Proof. exact (persist_equals_adopt verify mykey st att st' ord). Qed.

(* K7 (finding): a validly signed order with ZERO new servers is adopted, persisted as an empty
   list, and the client then refuses to start -- the hypothesis above cannot be dropped *)
Theorem c17_persist_equals_adopt_without_servers_refuted :
  exists st st', client_load k7_files [k7_srv] = LdOk st /\
    cstep k7_verify v_fixed k7_mykey st (CSync k7_att) = Some st' /\
    c_gca st' = repeat Byte.x03 32 /\ c_servers st' = [] /\
    forall ord, cstep k7_verify v_fixed k7_mykey st' (CRestart ord) = None.
Proof. exact k7_empty_migration_bricks. Qed.

(* finding: on the client an already banned entry is overwritten by a later ban record for the
   same key (address and ports change, it stays banned): the strict reading fails *)
Theorem c17_client_entries_strict_refuted : exists m s, ~ entry_le_strict m (merge_one m s).
Proof. exact merge_rewrites_banned_entry. Qed.

(* non-vacuity: Inv holds for a loaded client, and a migration step exists (K7's witness) *)
Example c17_nonvacuous : exists st, client_load k7_files [k7_srv] = LdOk st /\ Inv st.
Proof.
  destruct k7_empty_migration_bricks as (st & _ & H & _). exists st. split; [exact H|].
  exact (proj1 (client_load_spec _ _ _ H)).
Qed.
