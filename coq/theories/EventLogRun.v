(* Evaluates the EventLog model on the histories the harness (suite eventlog)
   ran against glow.EventLogger, and compares with what the implementation
   showed.  Timestamps are half grid ticks (see harness/suites/eventlog.go). *)
From Coq Require Import ZArith List Bool.
From GCA Require Import RunLib EventLog.
Import ListNotations.
Open Scope Z_scope.

(* what the harness saw: nothing to see (Printf / ExpireLogs returned), a
   recovered panic, or the output of DumpLogEntries *)
Inductive obs := ObsNone | ObsPanic | ObsDump (d : dump_out).

(* kind: 0 = Printf, 1 = ExpireLogs, 2 = DumpLogEntries *)
Definition el_op := (Z * Z * line * obs)%type.
(* (expiry, maxBytes, maxLineBytes), operations *)
Definition el_case := (Z * Z * Z * list el_op)%type.

Definition item_eqb (a b : line * list Z) : bool :=
  line_eqb (fst a) (fst b) && list_eqb Z.eqb (snd a) (snd b).

Fixpoint sorted_by_last (d : dump_out) : bool :=
  match d with
  | [] => true
  | a :: r =>
      match r with
      | [] => true
      | b :: _ =>
          match last_opt (snd a), last_opt (snd b) with
          | Some x, Some y => (x <=? y) && sorted_by_last r
          | _, _ => false
          end
      end
  end.

(* insensitive to the order among entries with equal last update *)
Definition dump_agree (model seen : dump_out) : bool :=
  (length model =? length seen)%nat
  && forallb (fun a => existsb (item_eqb a) seen) model
  && forallb (fun a => existsb (item_eqb a) model) seen
  && sorted_by_last seen.

Definition to_op (k now : Z) (l : line) : option op :=
  if k =? 0 then Some (OPrintf now l tb_id)
  else if k =? 1 then Some (OExpire now)
  else if k =? 2 then Some (ODump now tb_id)
  else None.

(* a history ends at the first panic (the harness stops there as well) *)
Fixpoint el_replay (dec : bool) (c : cfg) (st : logger) (ops : list el_op) : bool :=
  match ops with
  | [] => true
  | (k, now, l, o) :: r =>
      match to_op k now l with
      | None => false
      | Some mop =>
          match step_gen dec c st mop, o with
          | Panic, ObsPanic => match r with [] => true | _ => false end
          | Ok (st', None), ObsNone => el_replay dec c st' r
          | Ok (st', Some d), ObsDump d' => dump_agree d d' && el_replay dec c st' r
          | _, _ => false
          end
      end
  end.

Definition el_case_ok (dec : bool) (cs : el_case) : bool :=
  let '(e, m, ml, ops) := cs in
  el_replay dec {| c_expiry := e; c_max := m; c_maxline := ml |} init ops.

(* the repaired code *)
Definition el_mismatches := bad_indices (el_case_ok true).
