(* C02 -- One report per device-timeslot; equivocation or over-capacity bans the slot.
   Statements only; proofs in ServerC02_lemmas.v. *)
From Coq Require Import ZArith List Bool Permutation.
From GCA Require Import Wrap Bytes Codec Amap Timeslot Server ServerInv ServerC02_lemmas.
From GCAgen Require ConstsProd.
Import ListNotations.
Open Scope Z_scope.

(* the slot rule, for EVERY finite sequence of valid reports for one device-slot:
   none -> 0; identical reports within capacity -> their value; otherwise the ban sentinel 1 *)
Theorem c02_refines cap rs : Forall valid_power rs ->
  r_p (fold_left (slot_step cap) rs blank_report) = slot_spec cap rs.
Proof. exact (slot_refines cap rs). Qed.

Theorem c02_replay_idempotent cap r n : valid_power r ->
  r_p (fold_left (slot_step cap) (repeat r (S n)) blank_report) = if overcap cap (r_p r) then 1 else r_p r.
Proof. exact (replay_idempotent cap r n). Qed.

Theorem c02_ban_absorbing cap rs cur : r_p cur = 1 -> fold_left (slot_step cap) rs cur = cur.
Proof. exact (ban_absorbing cap rs cur). Qed.

Theorem c02_order_independent cap rs rs' : Forall valid_power rs -> Permutation rs rs' ->
  r_p (fold_left (slot_step cap) rs blank_report) = r_p (fold_left (slot_step cap) rs' blank_report).
Proof. exact (order_independent cap rs rs'). Qed.

(* the server's integrateReport performs exactly that transition on the addressed slot and
   leaves every other slot, every other device and every other table as it was *)
Theorem c02_integrate_is_slot_step st r w a :
  0 <= offset (mm st) -> offset (mm st) + 4032 < 2^32 ->
  zget (r_id r) (reports (mm st)) = Some w ->
  zget (r_id r) (equipment (mm st)) = Some a ->
  offset (mm st) <= r_ts r < offset (mm st) + 4032 ->
  let idx := r_ts r - offset (mm st) in
  let st' := fst (integrate st r) in
  snd (integrate st r) = Quiet /\
  same_tables (mm st') (mm st) /\
  (forall id, id <> r_id r -> zget id (reports (mm st')) = zget id (reports (mm st))) /\
  exists w', zget (r_id r) (reports (mm st')) = Some w' /\
             getslot idx w' = slot_step (a_cap a) (getslot idx w) r /\
             (forall i, i <> idx -> getslot i w' = getslot i w).
Proof. exact (integrate_slot st r w a). Qed.

(* "exceeds 135% of capacity" over the integers, non-negative values only *)
Theorem c02_capacity_rule cap p : 0 <= cap -> 0 <= p < 2^64 ->
  overcap cap p = true <-> (p <= 2^63 - 1 /\ 100 * p > 135 * cap - (135 * cap) mod 100 /\ p > cap * 135 / 100).
Proof. exact (overcap_rule cap p). Qed.

(* the percentage is the source's constant (regenerated on every run) *)
Theorem c02_buffer_constant : ConstsProd.server_MaxCapacityBuffer = max_capacity_buffer.
Proof. reflexivity. Qed.

Example c02_nonvacuous :
  let a := {| r_id := 7; r_ts := 10; r_p := 500; r_sig := zeros 64 |} in
  let b := {| r_id := 7; r_ts := 10; r_p := 501; r_sig := zeros 64 |} in
  slot_spec 1000 [a; a] = 500 /\ slot_spec 1000 [a; b; a] = 1 /\ slot_spec 1000 [set_p a 1351] = 1.
Proof. vm_compute. repeat split. Qed.
