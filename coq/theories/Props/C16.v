(* C16 -- placeholder while the suite is being built *)
From GCA Require Import ClientEnergy.
