(* Byte strings and little-endian fixed-width integers (encoding/binary.LittleEndian). *)
From Coq Require Import ZArith List Bool Lia String Ascii.
From Coq.Strings Require Import Byte.
Import ListNotations.
Open Scope Z_scope.

Definition bytes := list byte.

Definition b2z (b : byte) : Z := Z.of_N (Byte.to_N b).
Definition z2b (z : Z) : byte :=
  match Byte.of_N (Z.to_N (z mod 256)) with Some b => b | None => x00 end.

Fixpoint bytes_eqb (a b : bytes) : bool :=
  match a, b with
  | [], [] => true
  | x :: a', y :: b' => Byte.eqb x y && bytes_eqb a' b'
  | _, _ => false
  end.

(* PutUintN / UintN *)
Fixpoint le_enc (w : nat) (z : Z) : bytes :=
  match w with O => [] | S w' => z2b z :: le_enc w' (z / 256) end.
Fixpoint le_dec (l : bytes) : Z :=
  match l with [] => 0 | b :: l' => b2z b + 256 * le_dec l' end.

Definition zeros (n : nat) : bytes := repeat x00 n.
(* copy(dst[:n], src) into a zeroed array of n bytes *)
Definition pad (n : nat) (l : bytes) : bytes := firstn n (l ++ zeros n).
(* b[off:off+len] for in-range arguments *)
Definition slice (off len : nat) (l : bytes) : bytes := firstn len (skipn off l).

Definition ascii_bytes (s : string) : bytes :=
  map (fun a => z2b (Z.of_N (N_of_ascii a))) (list_ascii_of_string s).

Definition bytes_prefix (p l : bytes) : bool := bytes_eqb p (firstn (List.length p) l).
