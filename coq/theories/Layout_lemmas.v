(* Generic theorems about layouts: for EVERY layout L and size K with layout_wf K L = true
   the interpreted codec round-trips, refuses other lengths, is injective, and decoding is
   the inverse of encoding on buffers of K bytes.  Plus the ties between the hand-written
   codecs of Codec.v and the documented layouts of Layout.v. *)
From Coq Require Import ZArith List Bool String Ascii Lia.
From GCA Require Import Bytes Bytes_lemmas Codec Layout.
Import ListNotations.
Open Scope Z_scope.
Notation length := List.length.

(* ---- small list facts ----------------------------------------------------------- *)
Lemma firstn_add {A} (a c : nat) (l : list A) : firstn (a + c) l = firstn a l ++ firstn c (skipn a l).
Proof.
  revert l. induction a as [|a IH]; intros l; [reflexivity|].
  destruct l as [|x l]; cbn [Nat.add firstn skipn app].
  - rewrite firstn_nil. reflexivity.
  - rewrite IH. reflexivity.
Qed.
Lemma skipn_add {A} (a c : nat) (l : list A) : skipn (a + c) l = skipn c (skipn a l).
Proof.
  revert l. induction a as [|a IH]; intros l; [reflexivity|].
  destruct l as [|x l]; cbn [Nat.add skipn]; [rewrite skipn_nil; reflexivity | apply IH].
Qed.
Lemma slice_split (off a c : nat) (b : bytes) :
  slice off (a + c) b = slice off a b ++ slice (off + a) c b.
Proof. unfold slice. rewrite firstn_add, skipn_add. reflexivity. Qed.
Lemma slice_all (b : bytes) : slice 0 (length b) b = b.
Proof. unfold slice. cbn [skipn]. apply firstn_all. Qed.
Lemma slice_at (pre x post : bytes) (off w : nat) :
  length pre = off -> length x = w -> slice off w (pre ++ x ++ post) = x.
Proof. intros <- <-. apply slice_app_mid. Qed.

Lemma list_ascii_length s : length (list_ascii_of_string s) = String.length s.
Proof. induction s as [|a s IH]; cbn; [reflexivity | rewrite IH; reflexivity]. Qed.
Lemma ascii_bytes_length s : length (ascii_bytes s) = String.length s.
Proof. unfold ascii_bytes. rewrite map_length. apply list_ascii_length. Qed.

(* ---- one field -------------------------------------------------------------------- *)
Lemma enc_field_length f v : width_ok f = true -> length (enc_field f v) = f_width f.
Proof.
  destruct f as [o w n k]. unfold width_ok, enc_field. cbn [f_kind f_width].
  destruct k; intros H; try (rewrite ?rev_length; apply le_enc_length).
  - apply pad_length.
  - apply Nat.eqb_eq in H. rewrite ascii_bytes_length. symmetry. exact H.
Qed.

Lemma dec_enc_field f v : width_ok f = true -> val_ok f v -> dec_field f (enc_field f v) = Some v.
Proof.
  destruct f as [o w n k]. unfold width_ok, val_ok, dec_field, enc_field. cbn [f_kind f_width].
  destruct k; intros Hw Hv.
  - destruct Hv as (z & -> & Hz). cbn [val_int]. rewrite le_dec_enc_small by exact Hz. reflexivity.
  - destruct Hv as (z & -> & Hz). cbn [val_int]. rewrite rev_involutive, le_dec_enc_small by exact Hz. reflexivity.
  - destruct Hv as (z & -> & Hz). cbn [val_int]. rewrite le_dec_enc_small by exact Hz. reflexivity.
  - destruct Hv as (z & -> & Hz). cbn [val_int]. rewrite rev_involutive, le_dec_enc_small by exact Hz. reflexivity.
  - destruct Hv as (b & -> & Hb). cbn [val_bytes]. rewrite pad_exact by exact Hb. reflexivity.
  - subst v. rewrite bytes_eqb_refl. reflexivity.
Qed.

Lemma enc_dec_field f s v : width_ok f = true -> length s = f_width f ->
  dec_field f s = Some v -> enc_field f v = s /\ val_ok f v.
Proof.
  destruct f as [o w n k]. unfold width_ok, val_ok, dec_field, enc_field. cbn [f_kind f_width].
  destruct k; intros Hw Hl Hd.
  - injection Hd as <-. cbn [val_int]. split.
    + rewrite <- Hl. apply le_enc_dec.
    + eexists. split; [reflexivity|]. rewrite <- Hl. apply le_dec_range.
  - injection Hd as <-. cbn [val_int]. split.
    + rewrite <- Hl, <- (rev_length s). rewrite le_enc_dec. apply rev_involutive.
    + eexists. split; [reflexivity|]. rewrite <- Hl, <- (rev_length s). apply le_dec_range.
  - injection Hd as <-. cbn [val_int]. split.
    + rewrite <- Hl. apply le_enc_dec.
    + eexists. split; [reflexivity|]. rewrite <- Hl. apply le_dec_range.
  - injection Hd as <-. cbn [val_int]. split.
    + rewrite <- Hl, <- (rev_length s). rewrite le_enc_dec. apply rev_involutive.
    + eexists. split; [reflexivity|]. rewrite <- Hl, <- (rev_length s). apply le_dec_range.
  - injection Hd as <-. cbn [val_bytes]. split.
    + apply pad_exact. exact Hl.
    + eexists. split; [reflexivity | exact Hl].
  - destruct (bytes_eqb s (ascii_bytes s0)) eqn:E; [|discriminate Hd].
    injection Hd as <-. apply bytes_eqb_eq in E. subst s. split; reflexivity.
Qed.

(* ---- tiling ----------------------------------------------------------------------- *)
Lemma tiles_cons off f L k : tiles off (f :: L) = Some k ->
  f_off f = off /\ width_ok f = true /\ tiles (off + f_width f) L = Some k.
Proof.
  cbn [tiles]. destruct (Nat.eqb (f_off f) off) eqn:E1; [|discriminate].
  destruct (width_ok f) eqn:E2; [|discriminate]. cbn [andb].
  apply Nat.eqb_eq in E1. auto.
Qed.
Lemma tiles_le L : forall off k, tiles off L = Some k -> (off <= k)%nat.
Proof.
  induction L as [|f L IH]; intros off k H.
  - cbn in H. injection H as <-. lia.
  - apply tiles_cons in H as (_ & _ & H). apply IH in H. lia.
Qed.

Lemma encode_vals_length L : forall vs off k, tiles off L = Some k -> length vs = length L ->
  (off + length (encode_vals L vs) = k)%nat.
Proof.
  induction L as [|f L IH]; intros vs off k Ht Hl.
  - cbn in Ht. injection Ht as <-. destruct vs; cbn; lia.
  - destruct vs as [|v vs]; [discriminate Hl|]. cbn [length] in Hl.
    apply tiles_cons in Ht as (Ho & Hw & Ht). cbn [encode_vals]. rewrite app_length, enc_field_length by exact Hw.
    specialize (IH vs _ _ Ht ltac:(lia)). lia.
Qed.

Lemma Forall2_length' {A B} (R : A -> B -> Prop) l1 l2 : Forall2 R l1 l2 -> length l1 = length l2.
Proof. induction 1; cbn; congruence. Qed.

(* ---- decode after encode ------------------------------------------------------------ *)
Lemma dec_fields_encode L : forall vs pre k, tiles (length pre) L = Some k -> Forall2 val_ok L vs ->
  dec_fields L (pre ++ encode_vals L vs) = Some vs.
Proof.
  induction L as [|f L IH]; intros vs pre k Ht Hv.
  - inversion Hv. reflexivity.
  - inversion Hv as [|f' v L' vs' Hfv Hrest]; subst.
    apply tiles_cons in Ht as (Ho & Hw & Ht).
    cbn [dec_fields encode_vals].
    rewrite (slice_at pre (enc_field f v) (encode_vals L vs') (f_off f) (f_width f))
      by (auto using enc_field_length).
    rewrite dec_enc_field by assumption.
    rewrite app_assoc. rewrite (IH vs' (pre ++ enc_field f v) k); [reflexivity| |exact Hrest].
    rewrite app_length, enc_field_length by exact Hw. exact Ht.
Qed.

Theorem layout_roundtrip K L vs : layout_wf K L = true -> Forall2 val_ok L vs ->
  layout_decode K L (encode_vals L vs) = Some vs.
Proof.
  unfold layout_wf, layout_decode. intros Hwf Hv.
  destruct (tiles 0 L) as [k|] eqn:Ht; [|discriminate Hwf].
  apply andb_prop in Hwf as [Hk _]. apply Nat.eqb_eq in Hk. subst k.
  pose proof (encode_vals_length L vs 0 K Ht (eq_sym (Forall2_length' _ _ _ Hv))) as Hlen.
  cbn [Nat.add] in Hlen. rewrite Hlen, Nat.eqb_refl.
  exact (dec_fields_encode L vs [] K Ht Hv).
Qed.

Theorem layout_encode_length K L vs : layout_wf K L = true -> length vs = length L ->
  length (encode_vals L vs) = K.
Proof.
  unfold layout_wf. intros Hwf Hl.
  destruct (tiles 0 L) as [k|] eqn:Ht; [|discriminate Hwf].
  apply andb_prop in Hwf as [Hk _]. apply Nat.eqb_eq in Hk. subst k.
  exact (encode_vals_length L vs 0 K Ht Hl).
Qed.

Theorem layout_length_refused K L b : length b <> K -> layout_decode K L b = None.
Proof. unfold layout_decode. intros H. apply Nat.eqb_neq in H. rewrite H. reflexivity. Qed.

Theorem layout_injective K L vs1 vs2 : layout_wf K L = true -> Forall2 val_ok L vs1 -> Forall2 val_ok L vs2 ->
  encode_vals L vs1 = encode_vals L vs2 -> vs1 = vs2.
Proof.
  intros Hwf H1 H2 E. pose proof (layout_roundtrip K L vs1 Hwf H1) as R1.
  rewrite E, (layout_roundtrip K L vs2 Hwf H2) in R1. congruence.
Qed.

(* ---- encode after decode -------------------------------------------------------------- *)
Lemma dec_fields_sound L : forall b off k vs, tiles off L = Some k -> (k <= length b)%nat ->
  dec_fields L b = Some vs -> encode_vals L vs = slice off (k - off) b /\ Forall2 val_ok L vs.
Proof.
  induction L as [|f L IH]; intros b off k vs Ht Hk Hd.
  - cbn in Ht, Hd. injection Ht as <-. injection Hd as <-. rewrite Nat.sub_diag. unfold slice. cbn. auto.
  - apply tiles_cons in Ht as (Ho & Hw & Ht). cbn [dec_fields] in Hd.
    destruct (dec_field f (slice (f_off f) (f_width f) b)) as [v|] eqn:E1; [|discriminate Hd].
    destruct (dec_fields L b) as [vs'|] eqn:E2; [|discriminate Hd]. injection Hd as <-.
    pose proof (tiles_le _ _ _ Ht) as Hle.
    assert (Hs : length (slice (f_off f) (f_width f) b) = f_width f) by (apply slice_length; lia).
    destruct (enc_dec_field f _ v Hw Hs E1) as [Ee Ev].
    destruct (IH b _ k vs' Ht Hk E2) as [Er Evs].
    split; [|constructor; assumption].
    cbn [encode_vals]. rewrite Ee, Er, Ho.
    replace (k - off)%nat with (f_width f + (k - (off + f_width f)))%nat by lia.
    rewrite slice_split. reflexivity.
Qed.

Theorem layout_decode_encode K L b vs : layout_wf K L = true -> layout_decode K L b = Some vs ->
  encode_vals L vs = b /\ Forall2 val_ok L vs.
Proof.
  unfold layout_wf, layout_decode. intros Hwf Hd.
  destruct (tiles 0 L) as [k|] eqn:Ht; [|discriminate Hwf].
  apply andb_prop in Hwf as [Hk _]. apply Nat.eqb_eq in Hk. subst k.
  destruct (Nat.eqb (length b) K) eqn:El; [|discriminate Hd]. apply Nat.eqb_eq in El.
  destruct (dec_fields_sound L b 0 K vs Ht ltac:(lia) Hd) as [E V]. split; [|exact V].
  rewrite E, Nat.sub_0_r, <- El. apply slice_all.
Qed.

Theorem layout_decode_injective K L b1 b2 vs : layout_wf K L = true ->
  layout_decode K L b1 = Some vs -> layout_decode K L b2 = Some vs -> b1 = b2.
Proof.
  intros Hwf H1 H2. destruct (layout_decode_encode K L b1 vs Hwf H1) as [E1 _].
  destruct (layout_decode_encode K L b2 vs Hwf H2) as [E2 _]. congruence.
Qed.

(* ---- over environments (names are distinct in a wf layout) ------------------------------ *)
Lemma existsb_eqb_false n l : existsb (String.eqb n) l = false -> ~ In n l.
Proof.
  intros H Hin. assert (existsb (String.eqb n) l = true); [|congruence].
  apply existsb_exists. exists n. split; [exact Hin | apply String.eqb_refl].
Qed.
Lemma env_vals_env_of L : forall vs, names_distinct (map f_name L) = true -> length vs = length L ->
  env_vals L (env_of L vs) = vs.
Proof.
  induction L as [|f L IH]; intros vs Hn Hl.
  - destruct vs; [reflexivity | discriminate Hl].
  - destruct vs as [|v vs]; [discriminate Hl|].
    cbn [map names_distinct] in Hn. apply andb_prop in Hn as [Hh Ht].
    apply negb_true_iff in Hh. apply existsb_eqb_false in Hh.
    unfold env_vals. cbn [map env_of]. rewrite String.eqb_refl. f_equal.
    transitivity (env_vals L (env_of L vs)); [|apply IH; [exact Ht | cbn in Hl; lia]].
    unfold env_vals. apply map_ext_in. intros g Hg.
    destruct (String.eqb (f_name g) (f_name f)) eqn:E; [|reflexivity].
    apply String.eqb_eq in E. exfalso. apply Hh. rewrite <- E. apply in_map. exact Hg.
Qed.

Definition env_ok (L : layout) (e : env) : Prop := Forall2 val_ok L (env_vals L e).

Theorem layout_roundtrip_env K L e : layout_wf K L = true -> env_ok L e ->
  layout_decode K L (layout_encode L e) = Some (env_vals L e).
Proof. intros Hwf He. exact (layout_roundtrip K L _ Hwf He). Qed.

Theorem layout_injective_env K L e1 e2 : layout_wf K L = true -> env_ok L e1 -> env_ok L e2 ->
  layout_encode L e1 = layout_encode L e2 -> forall f, In f L -> e1 (f_name f) = e2 (f_name f).
Proof.
  intros Hwf H1 H2 E f Hf. pose proof (layout_injective K L _ _ Hwf H1 H2 E) as Ev.
  unfold env_vals in Ev. clear -Ev Hf. induction L as [|g L IH]; [destruct Hf|].
  cbn [map] in Ev. injection Ev as E1 E2. destruct Hf as [<-|Hf]; [exact E1 | exact (IH Hf E2)].
Qed.

Theorem layout_decode_encode_env K L b vs : layout_wf K L = true -> layout_decode K L b = Some vs ->
  layout_encode L (env_of L vs) = b.
Proof.
  intros Hwf Hd. destruct (layout_decode_encode K L b vs Hwf Hd) as [E V].
  unfold layout_encode. rewrite env_vals_env_of; [exact E| |].
  - unfold layout_wf in Hwf. apply andb_prop in Hwf as [_ H]. exact H.
  - symmetry. exact (Forall2_length' _ _ _ V).
Qed.

(* ==== the hand-written fixed-width codecs ARE the documented layouts ====================== *)
Lemma report_layout_wf : layout_wf 80 report_layout = true. Proof. reflexivity. Qed.
Lemma report_signing_layout_wf : layout_wf 31 report_signing_layout = true. Proof. reflexivity. Qed.
Lemma auth_layout_wf : layout_wf 148 auth_layout = true. Proof. reflexivity. Qed.
Lemma reg_signing_layout_wf : layout_wf 47 reg_signing_layout = true. Proof. reflexivity. Qed.

Lemma report_serialize_layout r : report_serialize r = encode_vals report_layout (report_vals r).
Proof. unfold report_serialize. cbn [encode_vals report_layout report_vals]. unfold enc_field, F. cbn [f_kind f_width val_int val_bytes]. rewrite app_nil_r. reflexivity. Qed.
Lemma report_signing_bytes_layout r :
  report_signing_bytes r = encode_vals report_signing_layout (report_signing_vals r).
Proof. unfold report_signing_bytes. cbn [encode_vals report_signing_layout report_signing_vals]. unfold enc_field, F. cbn [f_kind f_width val_int val_bytes]. rewrite app_nil_r. reflexivity. Qed.
Lemma report_decode_layout b :
  report_decode b = option_map report_of_vals (layout_decode 80 report_layout b).
Proof.
  unfold report_decode, layout_decode. destruct (Nat.eqb (length b) 80); [|reflexivity]. reflexivity.
Qed.

Lemma auth_serialize_layout a : auth_serialize a = encode_vals auth_layout (auth_vals a).
Proof.
  unfold auth_serialize, auth_body. cbn [encode_vals auth_layout auth_vals]. unfold enc_field, F.
  cbn [f_kind f_width val_int val_bytes]. rewrite app_nil_r, <- !app_assoc. reflexivity.
Qed.
Lemma auth_decode_layout b :
  auth_decode b = option_map auth_of_vals (layout_decode 148 auth_layout b).
Proof.
  unfold auth_decode, layout_decode. destruct (Nat.eqb (length b) 148); [|reflexivity]. reflexivity.
Qed.
Lemma reg_signing_bytes_layout k : reg_signing_bytes k = encode_vals reg_signing_layout (reg_signing_vals k).
Proof. unfold reg_signing_bytes. cbn [encode_vals reg_signing_layout reg_signing_vals]. unfold enc_field, F. cbn [f_kind f_width val_int val_bytes]. rewrite app_nil_r. reflexivity. Qed.
