(* C19 -- Rate limiter never grants more than the limit per window and never starves.
   Only statements, each closed by [exact]; the model is RateLimiter.v (glow/rate_limiter.go),
   proofs are in RateLimiter_lemmas.v.

   Reading guide: [nows] are the instants read by successive Allow calls (the mutex serialises the
   callers and time.Now() is read under it, so they are non-decreasing: [nondecr nows]);
   [rl_run c nows = (reqs, adm)]: the limiter's list after these calls and every granted instant.
   [in_window c w a] = w <= a < w + rate;  [recent c now a] = now - rate < a.
   Every statement holds for every limit and every rate in Z (negative and zero included). *)
From Coq Require Import ZArith List Bool Sorted Lia.
From GCA Require Import RateLimiter RateLimiter_lemmas.
Import ListNotations.
Open Scope Z_scope.

(* the list is ascending; it answers every later call exactly like the list of all granted instants
   filtered to the window (the code's "first index after the expiry" is that filter); for a positive
   rate it is exactly the granted instants within (t - rate, t], t the latest call *)
Theorem c19_invariant : forall (c : rl_cfg) (nows : list Z) (t0 : Z), nondecr nows ->
  let s := rl_run c nows in
  let t := last nows t0 in
  StronglySorted Z.le (fst s) /\ StronglySorted Z.le (snd s) /\ Forall (fun a => a <= t) (snd s) /\
  (0 < r_rate c -> fst s = filter (recent c t) (snd s)) /\
  (forall now, t <= now -> drop_expired (now - r_rate c) (fst s) = filter (recent c now) (snd s)).
Proof. exact invariant. Qed.

(* every half-open window [w, w + rate) contains at most limit granted calls (none if limit < 0) *)
Theorem c19_safety : forall (c : rl_cfg) (nows : list Z) (w : Z), nondecr nows ->
  rl_len (filter (in_window c w) (snd (rl_run c nows))) <= Z.max 0 (r_limit c).
Proof. exact safety. Qed.

(* equivalently: any limit+1 granted calls (x, the limit-1 calls of mid, y) span at least rate *)
Theorem c19_safety_span : forall (c : rl_cfg) (nows pre : list Z) x mid y post, nondecr nows ->
  snd (rl_run c nows) = pre ++ (x :: mid ++ [y]) ++ post ->
  rl_len mid = r_limit c - 1 ->
  r_rate c <= y - x.
Proof. exact safety_span. Qed.

(* a call is granted if and only if fewer than limit calls were granted within (now - rate, now] *)
Theorem c19_decision_exact : forall (c : rl_cfg) (nows : list Z) (now : Z), nondecr (nows ++ [now]) ->
  snd (allow c (fst (rl_run c nows)) now) =
    (rl_len (filter (recent c now) (snd (rl_run c nows))) <? r_limit c).
Proof. exact decision_exact. Qed.

Theorem c19_liveness : forall (c : rl_cfg) (nows : list Z) (now : Z), nondecr (nows ++ [now]) ->
  rl_len (filter (recent c now) (snd (rl_run c nows))) < r_limit c ->
  snd (allow c (fst (rl_run c nows)) now) = true.
Proof. exact liveness. Qed.

(* edge cases, stated honestly: limit <= 0 grants nothing, ever; rate <= 0 never limits (every call
   is granted as soon as limit >= 1: the windows [w, w + rate) are empty, c19_safety says nothing) *)
Theorem c19_limit_nonpositive : forall (c : rl_cfg) (reqs : list Z) (now : Z),
  r_limit c <= 0 -> snd (allow c reqs now) = false.
Proof. exact limit_nonpositive. Qed.

Theorem c19_rate_nonpositive : forall (c : rl_cfg) (nows : list Z) (now : Z),
  r_rate c <= 0 -> nondecr (nows ++ [now]) ->
  snd (allow c (fst (rl_run c nows)) now) = (0 <? r_limit c).
Proof. exact rate_nonpositive. Qed.

(* the loop of the code is the filter, on ascending lists *)
Theorem c19_expiry_loop_is_filter : forall (exp : Z) (l : list Z), StronglySorted Z.le l ->
  drop_expired exp l = filter (fun a => exp <? a) l.
Proof. exact drop_expired_filter. Qed.

(* ---- non-vacuity: limit 2, rate 10: a burst, a wrongful-looking but correct rejection at the edge
   of the window, a new grant exactly one rate after the first granted call ---- *)
Definition ex_c : rl_cfg := {| r_limit := 2; r_rate := 10 |}.
Definition ex_nows : list Z := [0; 0; 0; 5; 9; 10; 10; 19; 20].

Example c19_nonvacuous :
  nondecr ex_nows /\
  rl_answers ex_c [] ex_nows = [true; true; false; false; false; true; true; false; true] /\
  rl_run ex_c ex_nows = ([20], [0; 0; 10; 10; 20]).
Proof. split; [cbn; lia|]. split; vm_compute; reflexivity. Qed.

(* premises of c19_safety_span: x = 0, mid = [0], y = 10 span exactly the rate *)
Example c19_nonvacuous_span :
  snd (rl_run ex_c ex_nows) = [] ++ (0 :: [0] ++ [10]) ++ [10; 20] /\ rl_len [0] = r_limit ex_c - 1.
Proof. split; vm_compute; reflexivity. Qed.

Print Assumptions c19_invariant.
Print Assumptions c19_safety.
Print Assumptions c19_safety_span.
Print Assumptions c19_decision_exact.
Print Assumptions c19_liveness.
Print Assumptions c19_limit_nonpositive.
Print Assumptions c19_rate_nonpositive.
Print Assumptions c19_expiry_loop_is_filter.
