//go:build test && verif

package suites

// Suite "lossy" (C08): a REAL client reports to a REAL server through a UDP relay that drops,
// duplicates and reorders datagrams by script; then one sync round runs (the client's real
// threadedSyncWithServer through a hook, against the server's real TCP endpoint), the
// retransmissions pass the relay and are delivered.  Oracle: every retransmission is byte for
// byte the datagram originally sent for that slot (readings that fit 32 signed bits), the
// server afterwards holds a record for every slot of its window, still acceptable, for which
// the device has a reading, and no slot of the device is banned unless its single report
// exceeds the capacity rule.  The same round is evaluated in the model (HResend hop).

import (
	"encoding/binary"
	"fmt"
	"net"
	"os"
	"path/filepath"
	"sort"
	"strings"
	"time"

	"github.com/glowlabs-org/gca-backend/client"
	"github.com/glowlabs-org/gca-backend/glow"
	"verifharness/core"
	"verifharness/srv"
)

func init() {
	core.Register("lossy", func(seed uint64, tier, out string) (*core.Result, error) {
		return shardedServerSuite("lossy", seed, tier, out, lossyWorker)
	})
	core.Register("lossylite", func(seed uint64, tier, out string) (*core.Result, error) {
		return shardedServerSuite("lossylite", seed, tier, out, lossyLiteWorker)
	})
}

type relay struct {
	conn *net.UDPConn
	ch   chan []byte
}

func newRelay() (*relay, error) {
	c, err := net.ListenUDP("udp", &net.UDPAddr{IP: net.ParseIP("127.0.0.1")})
	if err != nil {
		return nil, err
	}
	r := &relay{conn: c, ch: make(chan []byte, 4096)}
	go func() {
		for {
			b := make([]byte, 2048)
			n, _, err := c.ReadFromUDP(b)
			if err != nil {
				close(r.ch)
				return
			}
			r.ch <- b[:n]
		}
	}()
	return r, nil
}
func (r *relay) port() uint16 { return uint16(r.conn.LocalAddr().(*net.UDPAddr).Port) }

// collect gathers datagrams until `want` arrived or nothing came for `quiet`.
func (r *relay) collect(want int, quiet, max time.Duration) [][]byte {
	var out [][]byte
	deadline := time.Now().Add(max)
	for (want <= 0 || len(out) < want) && time.Now().Before(deadline) {
		select {
		case b, ok := <-r.ch:
			if !ok {
				return out
			}
			out = append(out, b)
		case <-time.After(quiet):
			if want <= 0 || len(out) >= want {
				return out
			}
		}
	}
	return out
}

func slotOf(d []byte) uint32  { return binary.LittleEndian.Uint32(d[4:8]) }
func powerOf(d []byte) uint64 { return binary.LittleEndian.Uint64(d[8:16]) }

func lossyHistory(res *core.Result, r *core.RNG, tier string) (*sim, error) {
	// the server's window: at offset 0, one or several weeks on, or about to rotate (the rotation
	// then happens between the originals and the sync round)
	now0 := uint32(600 + r.Intn(800))
	rotateMid := false
	switch r.Intn(4) {
	case 1:
		now0 = uint32(3300 + r.Intn(1700))
		res.Count("lossy.window-offset-nonzero")
	case 2:
		now0 = uint32(2016*r.Range(2, 6) + 1300 + r.Intn(1800))
		res.Count("lossy.window-offset-nonzero")
	case 3:
		now0 = uint32(2016*r.Intn(4) + 3100 + r.Intn(90))
		rotateMid = true
	}
	s, err := newSim(res, r, "lossy", now0, false)
	if err != nil {
		return nil, err
	}
	w := s.w
	s.register("valid")
	d := s.addDevice([]uint64{1000, 5000, 1 << 20}[r.Intn(3)])
	if d == nil {
		return s, fmt.Errorf("lossy: device not authorized")
	}
	rl, err := newRelay()
	if err != nil {
		return s, err
	}
	defer rl.conn.Close()
	_, tp, _ := w.S.Ports()
	var spub glow.PublicKey
	copy(spub[:], w.Fresh[0])
	servers := map[glow.PublicKey]client.GCAServer{spub: {Location: "127.0.0.1", TcpPort: tp, UdpPort: rl.port()}}
	if r.Chance(50) { // a second, dead server: some sync attempts fail first
		dead := srv.DetKey(r)
		servers[dead.Pub] = client.GCAServer{Location: "127.0.0.1", TcpPort: deadPort(), UdpPort: rl.port()}
	}
	cd, err := writeClientDir("lossy", keyPair{pub: d.K.Pub, priv: d.K.Priv}, s.a.GCA.Pub, d.ID, servers)
	if err != nil {
		return s, err
	}
	defer os.RemoveAll(cd.dir)
	// when the device was installed (the origin of its history file): at genesis, after the start of
	// the server's window, or (window offset > 0) before it
	span := uint32(300)
	if rotateMid {
		span = 120
	}
	origin0 := uint32(0)
	switch r.Intn(3) {
	case 1:
		origin0 = now0 - span - 120 - uint32(r.Intn(60))
		res.Count("lossy.installed-after-window-start")
	case 2:
		if off := w.S.VerifSnapshot().Offset; off > 0 {
			origin0 = off - uint32(r.Intn(600)) - 1
			res.Count("lossy.installed-before-window-start")
		}
	}
	var ob [4]byte
	binary.LittleEndian.PutUint32(ob[:], origin0)
	os.WriteFile(filepath.Join(cd.dir, client.HistoryFile), ob[:], 0644)
	// ---- phase 1: the real client reads the meter file and reports
	c, err := client.NewClient(cd.dir)
	if err != nil {
		return s, fmt.Errorf("lossy: client does not start: %v", err)
	}
	G := int64(glow.GenesisTime)
	n := r.Range(4, 12)
	base := w.Now - uint32(r.Intn(int(span)))
	type reading struct {
		slot uint32
		text string
	}
	var rows []reading
	used := map[uint32]bool{}
	for len(rows) < n {
		sl := base - uint32(r.Intn(120))
		if used[sl] {
			continue
		}
		used[sl] = true
		vals := []string{"500", "-700", "12", "abc", "2147483647", "-2147483648", "1350", "1351", "30.9", "-24", "99999", "250000"}
		rows = append(rows, reading{sl, vals[r.Intn(len(vals))]})
	}
	sort.Slice(rows, func(i, j int) bool { return rows[i].slot < rows[j].slot })
	var sb strings.Builder
	sb.WriteString("timestamp,energy (mWh)\n")
	for _, x := range rows {
		sb.WriteString(fmt.Sprintf("%d,%s\n", G+int64(x.slot)*300+int64(r.Intn(300)), x.text))
	}
	tmp := filepath.Join(cd.dir, "energy.tmp")
	os.WriteFile(tmp, []byte(sb.String()), 0644)
	os.Rename(tmp, filepath.Join(cd.dir, client.EnergyFile))
	originals := rl.collect(n, 400*time.Millisecond, 4*time.Second)
	c.Close()
	for len(rl.ch) > 0 {
		originals = append(originals, <-rl.ch)
	}
	if len(originals) < n {
		w.Failed = "client did not emit all originals in time"
		return s, nil
	}
	orig := map[uint32][]byte{}
	for _, o := range originals {
		if len(o) != 80 {
			s.fail("the client emitted a datagram that is not 80 bytes", "c08-datagram-size")
			continue
		}
		if prev, ok := orig[slotOf(o)]; ok && string(prev) != string(o) {
			s.fail("the client emitted two different datagrams for one slot", "c08-equivocation")
		}
		orig[slotOf(o)] = o
	}
	// ---- the loss pattern: each original independently dropped / delivered / duplicated, in shuffled order
	var deliver [][]byte
	for _, o := range originals {
		switch r.Intn(4) {
		case 0: // lost
			res.Count("lossy.dropped")
		case 1:
			deliver = append(deliver, o, o)
			res.Count("lossy.duplicated")
		default:
			deliver = append(deliver, o)
			res.Count("lossy.delivered")
		}
	}
	for i := range deliver {
		j := r.Intn(i + 1)
		deliver[i], deliver[j] = deliver[j], deliver[i]
	}
	for _, o := range deliver {
		if !w.DatagramUDP(o, "original") {
			w.Failed = "udp datagram lost on loopback"
			return s, nil
		}
		w.Sigs = append(w.Sigs, srv.SigTriple{Key: append([]byte{}, d.K.Pub[:]...), Msg: refReportSigningBytes(d.ID, slotOf(o), powerOf(o)), Sig: append([]byte{}, o[16:80]...)})
	}
	if rotateMid { // the week rotation happens between the originals and the sync round
		before := w.S.VerifSnapshot().Offset
		w.SetNow(w.Now + uint32(110+r.Intn(90)))
		s.rotateTick()
		if w.S.VerifSnapshot().Offset != before {
			res.Count("lossy.rotated-before-sync")
		}
	}
	// ---- phase 2: one sync round of the real client code
	c2, err, pan := client.VerifSyncLoadClient(cd.dir)
	if err != nil || pan != "" {
		return s, fmt.Errorf("lossy: client reload failed: %v %s", err, pan)
	}
	defer c2.VerifSyncStop()
	hist, _ := os.ReadFile(filepath.Join(cd.dir, client.HistoryFile))
	origin := binary.LittleEndian.Uint32(hist[:4])
	latest := rows[len(rows)-1].slot
	var resent [][]byte
	okRound := false
	for attempt := 0; attempt < 4 && !okRound; attempt++ {
		var p string
		okRound, p = client.VerifSyncRound(c2, latest)
		if p != "" {
			s.fail("the sync round panics: "+p, "c08-sync-panic")
			return s, nil
		}
		res.Count("lossy.sync-round")
		if !okRound {
			res.Count("lossy.sync-round-failed")
		}
	}
	if !okRound {
		w.Failed = "no sync round succeeded"
		return s, nil
	}
	resent = rl.collect(0, 150*time.Millisecond, 3*time.Second)
	// the sign function of the device, as observed (originals and retransmissions)
	sigTab := []string{}
	seenMsg := map[string]bool{}
	addSig := func(o []byte) {
		m := refReportSigningBytes(d.ID, slotOf(o), powerOf(o))
		if !seenMsg[string(m)] {
			seenMsg[string(m)] = true
			sigTab = append(sigTab, fmt.Sprintf("(%s, %s)", srv.H(m), srv.H(o[16:80])))
		}
	}
	for _, o := range originals {
		addSig(o)
	}
	obs := []string{}
	for _, o := range resent {
		if len(o) == 80 {
			addSig(o)
		}
		obs = append(obs, srv.H(o))
	}
	w.Hops = append(w.Hops, fmt.Sprintf("HResend %d %d %s %d %s %s", d.ID, origin, srv.H(hist), latest, core.List(sigTab), core.List(obs)))
	w.Desc = append(w.Desc, map[string]interface{}{"op": "sync-round", "retransmitted": len(resent), "latest": latest})
	// oracle 1: retransmissions are byte-identical to the originals (readings that fit 32 signed bits)
	for _, o := range resent {
		res.Count("lossy.retransmission")
		if len(o) != 80 {
			s.fail("a retransmission is not an 80-byte datagram", "c08-datagram-size")
			continue
		}
		if first, ok := orig[slotOf(o)]; ok && fits32(powerOf(first)) && string(first) != string(o) {
			s.fail(fmt.Sprintf("the retransmission for slot %d differs from the datagram originally sent (power %d vs %d)", slotOf(o), powerOf(o), powerOf(first)), "c08-retransmission-differs")
		}
	}
	// sometimes the retransmissions arrive as late as the acceptance range allows: the clock reads
	// exactly (oldest retransmitted slot) + 432 when they are delivered
	if len(resent) > 0 && r.Chance(35) {
		min := uint32(1<<32 - 1)
		for _, o := range resent {
			if len(o) == 80 && slotOf(o) < min {
				min = slotOf(o)
			}
		}
		if min != 1<<32-1 && min+432 > w.Now {
			w.SetNow(min + 432)
			res.Count("lossy.delivered-at-range-end")
		}
	}
	// deliver every retransmission (the fault-free end of the round)
	for _, o := range resent {
		if len(o) == 80 {
			w.Sigs = append(w.Sigs, srv.SigTriple{Key: append([]byte{}, d.K.Pub[:]...), Msg: refReportSigningBytes(d.ID, slotOf(o), powerOf(o)), Sig: append([]byte{}, o[16:80]...)})
		}
		if !w.DatagramUDP(o, "retransmission") {
			w.Failed = "udp datagram lost on loopback"
			return s, nil
		}
	}
	// oracle 2: the server now holds a record for every slot the device has a reading (>= 2) for
	sn := w.S.VerifSnapshot()
	have := map[uint32]uint64{}
	for _, sl := range sn.Reports[d.ID] {
		have[sn.Offset+uint32(sl.Index)] = sl.Report.PowerOutput
	}
	lim := d.Cap * 135 / 100
	for slot, o := range orig {
		p := powerOf(o)
		stored := uint64(int64(int32(uint32(p))))
		if uint32(p) < 2 || int64(slot) < int64(sn.Offset) || int64(slot) >= int64(sn.Offset)+4032 ||
			int64(slot) < int64(w.Now)-432 || int64(slot) > int64(w.Now)+432 || slot > latest {
			continue
		}
		got, ok := have[slot]
		if !ok || got == 0 {
			s.fail(fmt.Sprintf("after a completed sync round and delivery of the retransmissions the server holds no record for slot %d although the device has a reading", slot), "c08-not-recovered")
			continue
		}
		if got == 1 && fits32(p) && !(stored <= 1<<63-1 && stored > lim) {
			s.fail(fmt.Sprintf("recovery got the device's own slot %d banned although its single report (power %d) is within the capacity rule", slot, p), "c08-self-banned")
		}
	}
	res.Count("lossy.history")
	return s, nil
}

// suite "lossylite": two histories per worker (used by C09, whose statement covers the datagrams a
// device emits when it retransmits: one value per timeslot, whatever the server's window offset)
func lossyLiteWorker(res *core.Result, r *core.RNG, tier, out string) error {
	n := 2
	if tier == "thorough" {
		n = 12
	}
	return lossyRun(res, r, tier, out, n, "lossylite")
}

func lossyWorker(res *core.Result, r *core.RNG, tier, out string) error {
	n := 6
	if tier == "thorough" {
		n = 40
	}
	return lossyRun(res, r, tier, out, n, "lossy")
}

func lossyRun(res *core.Result, r *core.RNG, tier, out string, n int, name string) error {
	var items []string
	if core.Shard == 1%core.Shards && name == "lossy" {
		// the reply a device syncs against must be a snapshot also while the week rotation runs
		if err := schedSyncVsRotate(res, r.Fork()); err != nil {
			return err
		}
	}
	for i := 0; i < n; i++ {
		s, err := lossyHistory(res, r.Fork(), tier)
		if err != nil {
			if s != nil {
				s.w.Close()
			}
			return err
		}
		s.finish(&items)
	}
	res.Required = []string{"lossy.history", "lossy.retransmission", "lossy.dropped", "lossy.window-offset-nonzero", "lossy.installed-after-window-start", "lossy.rotated-before-sync", "lossy.delivered-at-range-end", "sched.sync-vs-rotate"}
	res.Rule = "real client -> scripted UDP relay (each original independently dropped / delivered / duplicated, shuffled) -> real server; readings positive, negative, sentinel, unparseable, int32 extremes; server window at offset 0 / several weeks on / rotating between the originals and the sync round; device installed at genesis / after / before the start of the server window; optional dead second server (failed sync attempts); then one completed sync round of the real client code and delivery of the retransmissions; non-trivial = at least one retransmission; distinct by full history"
	if name == "lossylite" {
		res.Required = []string{"lossy.history", "lossy.retransmission", "lossy.window-offset-nonzero"}
	}
	return writeServerCases(res, out, name, items)
}
