package main

import (
	"flag"
	"fmt"
	"os"
	"sort"
	_ "time/tzdata" // the genesis probe re-runs this binary under other time zones

	"verifharness/core"
	_ "verifharness/suites"
)

func main() {
	seed := flag.Uint64("seed", 1, "PRNG seed")
	tier := flag.String("tier", "quick", "quick|thorough")
	out := flag.String("out", "", "output directory")
	flag.IntVar(&core.Shard, "shard", 0, "worker index (internal)")
	flag.IntVar(&core.Shards, "shards", 1, "number of workers (internal)")
	flag.Parse()
	if flag.NArg() < 1 || *out == "" {
		names := []string{}
		for k := range core.Suites {
			names = append(names, k)
		}
		sort.Strings(names)
		fmt.Fprintln(os.Stderr, "usage: vh -out DIR [-seed N] [-tier T] <suite>; suites:", names)
		os.Exit(2)
	}
	name := flag.Arg(0)
	s, ok := core.Suites[name]
	if !ok {
		fmt.Fprintln(os.Stderr, "unknown suite", name)
		os.Exit(2)
	}
	res, err := s(*seed, *tier, *out)
	if err != nil {
		fmt.Fprintln(os.Stderr, "suite error:", err)
		os.Exit(3)
	}
	if err := res.Write(*out); err != nil {
		fmt.Fprintln(os.Stderr, "write error:", err)
		os.Exit(3)
	}
}
