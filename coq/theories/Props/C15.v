(* C15 -- wire and disk encodings are exact, stable and unambiguous.
   Only statements, each closed by [exact] (or by evaluation, for the obligations on the
   layouts regenerated from the Go source); proofs live in Layout_lemmas.v, Codec_lemmas.v,
   CodecStats_lemmas.v, CodecServers_lemmas.v. *)
From Coq Require Import ZArith List String Bool Lia Permutation.
From GCA Require Import Bytes Bytes_lemmas Codec Layout Layout_lemmas Codec_lemmas
  CodecStats CodecStats_lemmas CodecServers CodecServers_lemmas.
From GCAgen Require Layouts.
Import ListNotations.
Open Scope Z_scope.
Notation length := List.length.

(* ==== generic: every well-formed layout is a codec (T3) ================================== *)
Theorem c15_layout_roundtrip K L vs : layout_wf K L = true -> Forall2 val_ok L vs ->
  layout_decode K L (encode_vals L vs) = Some vs /\ length (encode_vals L vs) = K.
Proof.
  intros H V. exact (conj (layout_roundtrip K L vs H V)
    (layout_encode_length K L vs H (eq_sym (Forall2_length' _ _ _ V)))).
Qed.
Theorem c15_layout_length_refused K L b : length b <> K -> layout_decode K L b = None.
Proof. exact (layout_length_refused K L b). Qed.
Theorem c15_layout_injective K L vs1 vs2 : layout_wf K L = true -> Forall2 val_ok L vs1 -> Forall2 val_ok L vs2 ->
  encode_vals L vs1 = encode_vals L vs2 -> vs1 = vs2.
Proof. exact (layout_injective K L vs1 vs2). Qed.
Theorem c15_layout_decode_encode K L b vs : layout_wf K L = true -> layout_decode K L b = Some vs ->
  encode_vals L vs = b /\ Forall2 val_ok L vs.
Proof. exact (layout_decode_encode K L b vs). Qed.
Theorem c15_layout_injective_env K L e1 e2 : layout_wf K L = true -> env_ok L e1 -> env_ok L e2 ->
  layout_encode L e1 = layout_encode L e2 -> forall f, In f L -> e1 (f_name f) = e2 (f_name f).
Proof. exact (layout_injective_env K L e1 e2). Qed.

(* ==== the layouts regenerated from the Go source on this run ================================ *)
(* each: the walker understood every statement, the buffer size is the documented one, the
   fields (sorted by offset) are the documented layout, which is well-formed *)
Definition gen_ok (g : glayout) (K : nat) (doc : layout) : Prop :=
  g_unknown g = [] /\ g_size g = K /\ layout_norm (g_fields g) = doc /\ layout_wf K doc = true.

Theorem c15_gen_report_serialize : gen_ok Layouts.EquipmentReport_Serialize 80 report_layout.
Proof. vm_compute. repeat split; reflexivity. Qed.
Theorem c15_gen_report_deserialize :
  gen_ok Layouts.DeserializeReport 80 report_layout /\
  layout_norm (g_fields Layouts.DeserializeReport) = layout_norm (g_fields Layouts.EquipmentReport_Serialize).
Proof. vm_compute. repeat split; reflexivity. Qed.
Theorem c15_gen_report_signing : gen_ok Layouts.EquipmentReport_SigningBytes 31 report_signing_layout.
Proof. vm_compute. repeat split; reflexivity. Qed.
Theorem c15_gen_auth_serialize : gen_ok Layouts.EquipmentAuthorization_Serialize 148 auth_layout.
Proof. vm_compute. repeat split; reflexivity. Qed.
Theorem c15_gen_auth_deserialize :
  gen_ok Layouts.DeserializeEquipmentAuthorization 148 auth_layout /\
  layout_norm (g_fields Layouts.DeserializeEquipmentAuthorization) =
  layout_norm (g_fields Layouts.EquipmentAuthorization_Serialize).
Proof. vm_compute. repeat split; reflexivity. Qed.
Theorem c15_gen_reg_signing : gen_ok Layouts.GCARegistration_SigningBytes 47 reg_signing_layout.
Proof. vm_compute. repeat split; reflexivity. Qed.

(* the hand-written reference codecs ARE the documented layouts *)
Theorem c15_codec_is_layout :
  (forall r, report_serialize r = encode_vals report_layout (report_vals r)) /\
  (forall b, report_decode b = option_map report_of_vals (layout_decode 80 report_layout b)) /\
  (forall r, report_signing_bytes r = encode_vals report_signing_layout (report_signing_vals r)) /\
  (forall a, auth_serialize a = encode_vals auth_layout (auth_vals a)) /\
  (forall b, auth_decode b = option_map auth_of_vals (layout_decode 148 auth_layout b)) /\
  (forall k, reg_signing_bytes k = encode_vals reg_signing_layout (reg_signing_vals k)).
Proof.
  exact (conj report_serialize_layout (conj report_decode_layout (conj report_signing_bytes_layout
        (conj auth_serialize_layout (conj auth_decode_layout reg_signing_bytes_layout))))).
Qed.

(* ==== EquipmentReport (80 bytes) ============================================================= *)
Theorem c15_report_roundtrip r : report_wf r -> report_decode (report_serialize r) = Some r.
Proof. exact (report_roundtrip r). Qed.
Theorem c15_report_length_refused b : length b <> 80%nat -> report_decode b = None.
Proof. exact (report_length_refused b). Qed.
Theorem c15_report_decode_encode b r : report_decode b = Some r -> report_serialize r = b /\ report_wf r.
Proof. exact (report_decode_encode b r). Qed.
Theorem c15_report_decode_injective b1 b2 r : report_decode b1 = Some r -> report_decode b2 = Some r -> b1 = b2.
Proof. exact (report_decode_injective b1 b2 r). Qed.
Theorem c15_report_layout r :
  report_serialize r = le_enc 4 (r_id r) ++ le_enc 4 (r_ts r) ++ le_enc 8 (r_p r) ++ pad 64 (r_sig r) /\
  length (report_serialize r) = 80%nat.
Proof. exact (conj eq_refl (report_serialize_length r)). Qed.
Theorem c15_report_signing_layout r :
  report_signing_bytes r = ascii_bytes "EquipmentReport" ++ le_enc 4 (r_id r) ++ le_enc 4 (r_ts r) ++ le_enc 8 (r_p r) /\
  length (report_signing_bytes r) = 31%nat.
Proof. exact (conj eq_refl (report_signing_length r)). Qed.
Theorem c15_report_signing_injective r1 r2 : report_wf r1 -> report_wf r2 ->
  report_signing_bytes r1 = report_signing_bytes r2 -> r_id r1 = r_id r2 /\ r_ts r1 = r_ts r2 /\ r_p r1 = r_p r2.
Proof. exact (report_signing_injective r1 r2). Qed.

(* ==== EquipmentAuthorization (148 bytes) ====================================================== *)
Theorem c15_auth_roundtrip a : auth_wf a -> auth_decode (auth_serialize a) = Some a.
Proof. exact (auth_roundtrip a). Qed.
Theorem c15_auth_length_refused b : length b <> 148%nat -> auth_decode b = None.
Proof. exact (auth_length_refused b). Qed.
Theorem c15_auth_decode_encode b a : auth_decode b = Some a -> auth_serialize a = b /\ auth_wf a.
Proof. exact (auth_decode_encode b a). Qed.
Theorem c15_auth_decode_injective b1 b2 a : auth_decode b1 = Some a -> auth_decode b2 = Some a -> b1 = b2.
Proof. exact (auth_decode_injective b1 b2 a). Qed.
Theorem c15_auth_layout a :
  auth_serialize a =
    (le_enc 4 (a_id a) ++ pad 32 (a_key a) ++ le_enc 8 (a_lat a) ++ le_enc 8 (a_long a) ++ le_enc 8 (a_cap a) ++
     le_enc 8 (a_debt a) ++ le_enc 4 (a_exp a) ++ le_enc 4 (a_init a) ++ le_enc 8 (a_fee a)) ++ pad 64 (a_sig a) /\
  length (auth_serialize a) = 148%nat.
Proof. exact (conj eq_refl (auth_serialize_length a)). Qed.
Theorem c15_auth_signing_layout a :
  auth_signing_bytes a = ascii_bytes "EquipmentAuthorization" ++ firstn 84 (auth_serialize a) /\
  length (auth_signing_bytes a) = 106%nat.
Proof. exact (auth_signing_layout a). Qed.
Theorem c15_auth_signing_injective a1 a2 : auth_wf a1 -> auth_wf a2 ->
  auth_signing_bytes a1 = auth_signing_bytes a2 -> msg_same_signed (MAuth a1) (MAuth a2).
Proof. exact (signing_unambiguous (MAuth a1) (MAuth a2)). Qed.

(* ==== GCARegistration ========================================================================== *)
Theorem c15_reg_signing_layout k :
  reg_signing_bytes k = ascii_bytes "GCARegistration" ++ pad 32 k /\ length (reg_signing_bytes k) = 47%nat.
Proof. exact (conj eq_refl (reg_signing_length k)). Qed.
Theorem c15_reg_signing_injective k1 k2 : reg_wf k1 -> reg_wf k2 -> reg_signing_bytes k1 = reg_signing_bytes k2 -> k1 = k2.
Proof. exact (reg_signing_injective k1 k2). Qed.

(* ==== weekly statistics: stream codec =========================================================== *)
(* [memlimit]: the largest block the Go runtime can still allocate *)
Theorem c15_stats_layout x : stats_wf x ->
  stats_serialize x =
    (le_enc 4 (Z.of_nat (length (s_devs x))) ++ devs_encode (s_devs x) ++ le_enc 4 (s_tso x)) ++ pad 64 (s_sig x) /\
  (forall d, dev_encode d = pad 32 (d_key d) ++ u64s_enc (d_pow d) ++ u64s_enc (d_imp d)) /\
  length (stats_serialize x) = (4 + length (s_devs x) * dev_size + 4 + 64)%nat /\
  Z.of_nat dev_size = 32 + 8 * 2 * 2016.
Proof. intros H. exact (conj eq_refl (conj (fun d => eq_refl) (conj (stats_serialize_length x H) dev_size_z_eq))). Qed.
Theorem c15_stats_stream_roundtrip memlimit x rest : stats_wf x ->
  stats_alloc (Z.of_nat (length (s_devs x))) <= memlimit ->
  stats_stream_decode memlimit (stats_serialize x ++ rest) = DOk x (length (stats_serialize x)).
Proof. exact (stats_stream_roundtrip memlimit x rest). Qed.
Theorem c15_stats_stream_concat memlimit xs : Forall stats_wf xs ->
  Forall (fun x => stats_alloc (Z.of_nat (length (s_devs x))) <= memlimit) xs ->
  stats_stream_all (S (length (stats_list_encode xs))) memlimit (stats_list_encode xs) =
    DOk xs (length (stats_list_encode xs)).
Proof.
  intros W M. apply (stats_stream_all_roundtrip memlimit xs _ W M).
  clear M. induction W as [|x xs Hx Hxs IH]; [cbn; lia|].
  cbn [stats_list_encode length]. rewrite app_length, stats_serialize_length by exact Hx. lia.
Qed.
Theorem c15_stats_stream_decode_encode memlimit b x n : stats_stream_decode memlimit b = DOk x n ->
  stats_serialize x = firstn n b /\ stats_wf x /\ (72 <= n <= length b)%nat.
Proof. exact (stats_stream_decode_sound memlimit b x n). Qed.
Theorem c15_stats_truncated_refused memlimit x n : stats_wf x -> (n < length (stats_serialize x))%nat ->
  stats_stream_decode memlimit (firstn n (stats_serialize x)) = DErr.
Proof. exact (stats_truncated_refused memlimit x n). Qed.
(* D15, after the repair: no input makes the decoder (or the loading loop) ask for more memory
   than the input itself occupies; never fatal, and the loop's fuel is never exhausted *)
Theorem c15_stream_total memlimit b : Z.of_nat (length b) <= memlimit ->
  stats_stream_decode memlimit b <> DFatal /\
  stats_stream_all (S (length b)) memlimit b <> DFatal /\
  stats_stream_all (S (length b)) memlimit b <> DFuel.
Proof.
  intros H. exact (conj (stats_stream_total memlimit b H) (conj (stats_stream_all_total memlimit _ b H)
    (stats_stream_all_fuel_enough memlimit _ b (Nat.lt_succ_diag_r _)))).
Qed.
(* D15, before the repair (the model of the old code): four bytes are fatal *)
Theorem c15_stream_total_before_fix_refuted memlimit : memlimit < (2^32 - 1) * 32288 ->
  exists b, length b = 4%nat /\ stats_stream_decode_prefix memlimit b = DFatal /\
            stats_stream_decode memlimit b = DErr.
Proof.
  intros H. exists [Byte.xff; Byte.xff; Byte.xff; Byte.xff].
  exact (conj eq_refl (conj (stats_stream_prefix_fatal memlimit H) (stats_stream_ffffffff_refused memlimit))).
Qed.
Theorem c15_stats_signing_layout x : stats_wf x ->
  stats_signing_bytes x = ascii_bytes "AllDeviceStats" ++ firstn (length (stats_serialize x) - 64) (stats_serialize x).
Proof. exact (stats_signing_layout x). Qed.
Theorem c15_stats_signing_injective x1 x2 : stats_wf x1 -> stats_wf x2 ->
  stats_signing_bytes x1 = stats_signing_bytes x2 -> s_devs x1 = s_devs x2 /\ s_tso x1 = s_tso x2.
Proof. exact (stats_signing_injective x1 x2). Qed.

(* ==== AuthorizedServer (location of at most 255 bytes) ============================================ *)
Theorem c15_aserver_layout s : length (as_key s) = 32%nat ->
  aserver_serialize s =
    (pad 32 (as_key s) ++ [bool_byte (as_banned s)] ++ [z2b (Z.of_nat (length (as_loc s)))] ++ as_loc s ++
     le_enc 2 (as_http s) ++ le_enc 2 (as_tcp s) ++ le_enc 2 (as_udp s)) ++ pad 64 (as_sig s) /\
  length (aserver_serialize s) = (104 + length (as_loc s))%nat.
Proof. intros H. exact (conj eq_refl (aserver_serialize_length s H)). Qed.
Theorem c15_aserver_roundtrip s rest : aserver_wf s ->
  aserver_decode (aserver_serialize s) = Some s /\
  aserver_decode_prefix (aserver_serialize s ++ rest) = DOk s (length (aserver_serialize s)).
Proof. intros H. exact (conj (aserver_roundtrip s H) (aserver_prefix_roundtrip s rest H)). Qed.
Theorem c15_aserver_decode_encode b s : aserver_decode b = Some s ->
  aserver_serialize s = b /\ aserver_wf s /\ length b = (104 + length (as_loc s))%nat.
Proof.
  intros H. exact (conj (proj1 (aserver_decode_encode b s H)) (conj (proj2 (aserver_decode_encode b s H))
    (aserver_length_refused b s H))).
Qed.
Theorem c15_aserver_signing_layout s : length (as_key s) = 32%nat ->
  aserver_signing_bytes s =
    ascii_bytes "AuthorizedServer" ++ firstn (length (aserver_serialize s) - 64) (aserver_serialize s).
Proof. exact (aserver_signing_layout s). Qed.
Theorem c15_aserver_signing_injective s1 s2 : aserver_wf s1 -> aserver_wf s2 ->
  aserver_signing_bytes s1 = aserver_signing_bytes s2 -> msg_same_signed (MServer s1) (MServer s2).
Proof. exact (signing_unambiguous (MServer s1) (MServer s2)). Qed.
(* outside the domain: the length byte is the length modulo 256 *)
Theorem c15_aserver_roundtrip_beyond_255_refuted :
  exists s, length (as_key s) = 32%nat /\ length (as_loc s) = 256%nat /\ length (as_sig s) = 64%nat /\
            aserver_decode (aserver_serialize s) <> Some s.
Proof. exact aserver_roundtrip_beyond_255_refuted. Qed.

(* ==== EquipmentMigration ============================================================================ *)
Theorem c15_migration_layout m :
  migration_serialize m =
    (pad 32 (m_equip m) ++ pad 32 (m_newgca m) ++ le_enc 4 (m_newid m) ++ aservers_encode (m_servers m)) ++
    pad 64 (m_sig m).
Proof. exact eq_refl. Qed.
Theorem c15_migration_roundtrip m : migration_wf m ->
  migration_decode (migration_serialize m) = DOk m (length (migration_serialize m)).
Proof. exact (migration_roundtrip m). Qed.
Theorem c15_migration_decode_encode b m n : migration_decode b = DOk m n ->
  migration_serialize m = b /\ migration_wf m /\ n = length b.
Proof. exact (migration_decode_sound b m n). Qed.
Theorem c15_migration_signing_layout m :
  migration_signing_bytes m =
    ascii_bytes "EquipmentMigration" ++ firstn (length (migration_serialize m) - 64) (migration_serialize m).
Proof. exact (migration_signing_layout m). Qed.
Theorem c15_migration_signing_injective m1 m2 : migration_wf m1 -> migration_wf m2 ->
  migration_signing_bytes m1 = migration_signing_bytes m2 ->
  m_equip m1 = m_equip m2 /\ m_newgca m1 = m_newgca m2 /\ m_newid m1 = m_newid m2 /\ m_servers m1 = m_servers m2.
Proof. exact (migration_signing_injective m1 m2). Qed.
(* outside the domain (a location of 256 bytes): two different orders, one byte string *)
Theorem c15_migration_signing_beyond_255_refuted :
  exists m1 m2, length (m_servers m1) <> length (m_servers m2) /\ migration_wf m2 /\
                migration_signing_bytes m1 = migration_signing_bytes m2.
Proof. exact migration_signing_beyond_255_refuted. Qed.

(* ==== the client's server map (locations of 0..65535 bytes) ========================================== *)
Theorem c15_smap_layout (e : centry) :
  centry_encode e =
    pad 32 (fst e) ++ [bool_byte (cs_banned (snd e))] ++ le_enc 2 (Z.of_nat (length (cs_loc (snd e)))) ++
    cs_loc (snd e) ++ le_enc 2 (cs_http (snd e)) ++ le_enc 2 (cs_tcp (snd e)) ++ le_enc 2 (cs_udp (snd e)).
Proof. exact eq_refl. Qed.
(* every iteration order l of a map m with distinct keys decodes back to m *)
Theorem c15_smap_roundtrip (m l : list centry) : NoDup (map fst m) -> Forall centry_wf m -> Permutation l m ->
  exists b, smap_encode l = Some b /\ smap_decode b = DOk l (length b) /\
            forall k, smap_lookup k l = smap_lookup k m.
Proof. exact (smap_roundtrip m l). Qed.
Theorem c15_smap_too_long_refused (l : list centry) (e : centry) :
  In e l -> 65535 < Z.of_nat (length (cs_loc (snd e))) -> smap_encode l = None.
Proof. exact (smap_encode_too_long l e). Qed.
Theorem c15_smap_trailing_refused (l : list centry) b t : Forall centry_wf l -> smap_encode l = Some b ->
  (0 < length t < 41)%nat -> smap_decode (b ++ t) = DErr.
Proof. exact (smap_trailing_refused l b t). Qed.
Theorem c15_smap_decode_total b : smap_decode b <> DFuel /\ smap_decode b <> DFatal.
Proof. exact (smap_decode_total b). Qed.
(* decoding is not injective on byte strings: any non-zero banned byte reads as "banned" *)
Theorem c15_smap_decode_injective_refuted :
  exists b1 b2 l n, b1 <> b2 /\ smap_decode b1 = DOk l n /\ smap_decode b2 = DOk l n.
Proof. exact smap_decode_not_injective. Qed.

(* ==== signing bytes of the six message types ========================================================= *)
(* no byte string is the signing bytes of two different message types, for ALL field values *)
Theorem c15_signing_disjoint m1 m2 : msg_signing_bytes m1 = msg_signing_bytes m2 -> msg_type m1 = msg_type m2.
Proof. exact (signing_disjoint m1 m2). Qed.
(* same signing bytes => same type and same signed fields *)
Theorem c15_signing_unambiguous m1 m2 : msg_wf m1 -> msg_wf m2 ->
  msg_signing_bytes m1 = msg_signing_bytes m2 -> msg_same_signed m1 m2.
Proof. exact (signing_unambiguous m1 m2). Qed.
Theorem c15_signing_prefix m : exists rest,
  msg_signing_bytes m =
    ascii_bytes (match m with
                 | MReport _ => "EquipmentReport" | MAuth _ => "EquipmentAuthorization"
                 | MMigration _ => "EquipmentMigration" | MServer _ => "AuthorizedServer"
                 | MStats _ => "AllDeviceStats" | MReg _ => "GCARegistration"
                 end) ++ rest.
Proof. exact (msg_signing_split m). Qed.

(* "changing any signed bit makes verification fail": for any verify (key, message, signature)
   under which a signature is valid for at most one message, a message with different signed
   fields -- of the same or of another type -- is rejected under the same key and signature *)
Theorem c15_changed_signed_value_rejected
  (verify : bytes -> bytes -> bytes -> bool)
  (verify_binds : forall k m1 m2 s, verify k m1 s = true -> verify k m2 s = true -> m1 = m2)
  k s m1 m2 : msg_wf m1 -> msg_wf m2 ->
  verify k (msg_signing_bytes m1) s = true -> ~ msg_same_signed m1 m2 ->
  verify k (msg_signing_bytes m2) s = false.
Proof.
  exact (changed_value_rejected verify verify_binds msg msg_signing_bytes msg_wf msg_same_signed
           signing_unambiguous k s m1 m2).
Qed.

(* ---- non-vacuity of the hypotheses ---------------------------------------------------------------- *)
Example c15_nonvacuous_verify : forall k m1 m2 s,
  toy_verify k m1 s = true -> toy_verify k m2 s = true -> m1 = m2.
Proof. exact toy_verify_binds. Qed.
Example c15_nonvacuous_wf :
  report_wf blank_report /\ auth_wf blank_auth /\ reg_wf (zeros 32) /\
  stats_wf {| s_devs := []; s_tso := 0; s_sig := zeros 64 |} /\
  aserver_wf {| as_key := zeros 32; as_banned := true; as_loc := zeros 255; as_http := 0; as_tcp := 0;
                as_udp := 65535; as_sig := zeros 64 |} /\
  migration_wf collide_m2 /\
  centry_wf (zeros 32, {| cs_banned := false; cs_loc := []; cs_http := 0; cs_tcp := 0; cs_udp := 0 |}).
Proof.
  split; [unfold report_wf; cbn; repeat split; lia|].
  split; [unfold auth_wf; cbn; repeat split; lia|].
  split; [reflexivity|].
  split; [unfold stats_wf; cbn; repeat split; try lia; constructor|].
  split; [unfold aserver_wf; cbn; repeat split; lia|].
  split; [exact collide_m2_wf|].
  unfold centry_wf; cbn; repeat split; lia.
Qed.
