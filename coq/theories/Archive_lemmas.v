(* C14: an archive taken while writers run is prefix-consistent and dependency-closed. *)
From Coq Require Import ZArith List Bool Lia.
From GCA Require Import Wrap Bytes Bytes_lemmas Codec Amap Amap_lemmas Timeslot Server ServerInv ServerDisk
                        ServerReach_lemmas ServerFull_lemmas Archive ArchiveEvolve_lemmas.
Import ListNotations.
Open Scope Z_scope.
Set Default Proof Using "Type".
Notation length := List.length.

Definition ftag_eqb (a b : ftag) : bool :=
  match a, b with
  | FStats, FStats | FReports, FReports | FAuths, FAuths | FGca, FGca | FTemp, FTemp => true
  | _, _ => false
  end.
Definition fin (t : ftag) (seen : list ftag) : bool := existsb (ftag_eqb t) seen.

(* each file is read at most once, reports before authorizations, authorizations before the GCA key *)
Fixpoint tags_ok (seen order : list ftag) : bool :=
  match order with
  | [] => true
  | t :: r =>
      negb (fin t seen) &&
      match t with FReports => negb (fin FAuths seen) | FAuths => negb (fin FGca seen) | _ => true end &&
      tags_ok (t :: seen) r
  end.

Section ArchiveL.
  Variable verify : bytes -> bytes -> bytes -> bool.
  Variable sign : bytes -> bytes -> bytes.
  Variable stats_sb : list devstat -> Z -> bytes.
  Local Notation ArchInv := (ArchInv verify sign stats_sb).
  Local Notation run := (run verify sign stats_sb).

  Definition closure_r (rl : list report) (al : list auth) : Prop :=
    forall r, In r rl -> exists a, first_auth (r_id r) al = Some a /\ verify (a_key a) (report_signing_bytes r) (r_sig r) = true.
  Definition closure_a (al : list auth) (g : option bytes) : Prop :=
    forall a, In a al -> exists k, g = Some k /\ verify k (auth_signing_bytes a) (a_sig a) = true.
  Definition signed_by (keys : bytes * bytes) (s : stats) : Prop :=
    st_sig s = sign (stats_sb (st_devs s) (st_tso s)) (snd keys).

  (* the relation kept between the partial archive and the running server *)
  Record AP (seen : list ftag) (ar : archive) (st : state) : Prop := {
    p_rep : fin FReports seen = true -> exists rl, ar_reports ar = Some rl /\
              if fin FAuths seen then exists al, ar_auths ar = Some al /\ closure_r rl al
              else exists al, d_auths (dd st) = Some al /\ closure_r rl al;
    p_auth : fin FAuths seen = true -> exists al, ar_auths ar = Some al /\
              if fin FGca seen then closure_a al (ar_gca ar) else closure_a al (d_gca (dd st));
    p_stats : fin FStats seen = true -> exists hl, ar_stats ar = Some hl /\ forall s, In s hl -> signed_by (skeys (mm st)) s;
    p_none_r : fin FReports seen = false -> ar_reports ar = None;
    p_none_a : fin FAuths seen = false -> ar_auths ar = None;
    p_none_s : fin FStats seen = false -> ar_stats ar = None;
    p_none_g : fin FGca seen = false -> ar_gca ar = None
  }.

  Lemma closure_r_grows rl al suf : closure_r rl al -> closure_r rl (al ++ suf).
  Proof. intros C r Hr. destruct (C r Hr) as (a & F & V). exists a. split; [rewrite first_auth_app, F; reflexivity | exact V]. Qed.

  Lemma AP_evolves seen ar st st' : AP seen ar st -> evolves st st' -> AP seen ar st'.
  Proof.
    intros [P1 P2 P3 N1 N2 N3 N4] [E1 E2 E3 E4 E5 E6 E7 E8]. constructor; try assumption.
    - intros F. destruct (P1 F) as (rl & Er & C). exists rl. split; [exact Er|].
      destruct (fin FAuths seen); [exact C|]. destruct C as (al & Da & C).
      destruct E1 as (l & suf & X & Y). rewrite Da in X. inversion X; subst l.
      exists (al ++ suf). split; [exact Y | apply closure_r_grows; exact C].
    - intros F. destruct (P2 F) as (al & Ea & C). exists al. split; [exact Ea|].
      destruct (fin FGca seen); [exact C|]. intros a Ha. destruct (C a Ha) as (k & G & V). exists k. split; [apply E4; exact G | exact V].
    - intros F. destruct (P3 F) as (hl & Eh & C). exists hl. split; [exact Eh|]. intros s Hs. unfold signed_by. rewrite E7. apply C; exact Hs.
  Qed.

  Lemma AP_read seen ar st t :
    Inv verify st -> ArchInv st -> AP seen ar st ->
    fin t seen = false ->
    match t with FReports => fin FAuths seen = false | FAuths => fin FGca seen = false | _ => True end ->
    AP (t :: seen) (read_file ar t (dd st)) st.
  Proof.
    intros [I D] A [P1 P2 P3 N1 N2 N3 N4] Fresh Ord.
    destruct (disk_somes verify st D) as (al & rl & Da & Dr & Ds).
    destruct t; cbn [read_file]; constructor; cbn [fin existsb ftag_eqb orb ar_reports ar_auths ar_stats ar_gca] in *;
      fold (fin FReports seen) (fin FAuths seen) (fin FStats seen) (fin FGca seen) in *; try assumption; try discriminate.
    - (* stats read *) intros _. exists (history (mm st)). split; [exact Ds|]. intros s Hs. apply (a_signed _ _ _ _ A s Hs).
    - (* reports read *) intros _. exists rl. split; [exact Dr|]. rewrite Ord. exists al. split; [exact Da|].
      intros r Hr. apply (a_first _ _ _ _ A al rl r Da Dr Hr).
    - (* auths read: clause for reports *)
      intros F. destruct (P1 F) as (rl0 & Er & C). exists rl0. split; [exact Er|].
      rewrite Fresh in C. destruct C as (al0 & Da0 & C). rewrite Da in Da0. inversion Da0; subst al0. exists al. split; [exact Da | exact C].
    - (* auths read: own clause *)
      intros _. exists al. split; [exact Da|]. rewrite Ord.
      intros a Ha. destruct (k_auths _ _ D) as (al' & Da' & Hv & Hn & _). rewrite Da in Da'. inversion Da'; subst al'.
      exists (gca (mm st)). split; [|apply (proj1 (Hv a Ha))].
      rewrite (k_gca _ _ D). destruct (gca_avail (mm st)) eqn:G; [reflexivity|]. exfalso. rewrite (Hn eq_refl) in Ha. destruct Ha.
    - (* gca read *)
      intros F. destruct (P2 F) as (al0 & Ea & C). exists al0. split; [exact Ea|]. rewrite Fresh in C. exact C.
  Qed.

  Lemma archive_run_AP sched : forall seen ar st,
    Inv verify st -> ArchInv st -> AP seen ar st ->
    Forall (fun p => Forall op_ok (fst p)) sched -> tags_ok seen (map snd sched) = true ->
    let r := archive_run verify sign stats_sb st ar sched in
    Inv verify (fst r) /\ ArchInv (fst r) /\ AP (rev (map snd sched) ++ seen) (snd r) (fst r) /\ evolves st (fst r).
  Proof.
    induction sched as [|[ops t] sched IH]; intros seen ar st I A P F T; cbn [archive_run map rev app].
    - cbn [fst snd]. split; [exact I|]. split; [exact A|]. split; [exact P|]. apply (evolves_refl verify), (proj2 I).
    - inversion F as [|? ? Fo F']; subst. cbn [fst] in Fo. cbn [map snd tags_ok] in T.
      apply andb_prop in T. destruct T as [T T3]. apply andb_prop in T. destruct T as [T1 T2].
      destruct (run_arch verify sign stats_sb ops st I A Fo) as (E1 & A1 & I1).
      pose proof (AP_evolves seen ar st _ P E1) as P1.
      assert (P2 : AP (t :: seen) (read_file ar t (dd (run st ops))) (run st ops)).
      { apply AP_read; try assumption; [apply negb_true_iff; exact T1|].
        destruct t; try exact Logic.I; apply negb_true_iff; exact T2. }
      destruct (IH (t :: seen) _ _ I1 A1 P2 F' T3) as (I2 & A2 & P3 & E2).
      rewrite <- app_assoc. cbn [app]. split; [exact I2|]. split; [exact A2|]. split; [exact P3|]. eapply evolves_trans; eassumption.
  Qed.

  (* ---- the theorem *)
  Theorem archive_closed_thm st sched ops_last :
    Inv verify st -> ArchInv st ->
    (forall m, verify (fst (skeys (mm st))) m (sign m (snd (skeys (mm st)))) = true) ->
    Forall (fun p => Forall op_ok (fst p)) sched -> Forall op_ok ops_last ->
    tags_ok [] (map snd sched) = true -> fin FGca (rev (map snd sched)) = true ->
    let r := archive_run verify sign stats_sb st empty_archive sched in
    let ar := finish_archive verify sign stats_sb (fst r) (snd r) ops_last in
    archive_closed verify stats_sb ar /\ ar_pub ar = fst (skeys (mm st)).
  Proof.
    intros I A KP F Fl T AllG r ar.
    assert (P0 : AP [] empty_archive st) by (constructor; cbn; try discriminate; reflexivity).
    destruct (archive_run_AP sched [] empty_archive st I A P0 F T) as (I1 & A1 & P1 & E1). fold r in I1, A1, P1, E1.
    destruct (run_arch verify sign stats_sb ops_last (fst r) I1 A1 Fl) as (E2 & A2 & I2).
    pose proof (evolves_trans _ _ _ E1 E2) as E.
    assert (Pub : ar_pub ar = fst (skeys (mm st))).
    { unfold ar, finish_archive. cbn [ar_pub]. rewrite (k_keys _ _ (proj2 I2)). rewrite (v_skeys _ _ E).
      apply firstn_all2. rewrite (a_publen _ _ _ _ A). apply le_n. }
    split; [|exact Pub].
    pose proof Pub as Pub'. unfold ar, finish_archive in Pub'. cbn [ar_pub] in Pub'.
    destruct P1 as [P1 P2 P3 N1 N2 N3 N4]. rewrite app_nil_r in *.
    set (seen := rev (map snd sched)) in *.
    unfold archive_closed, ar, finish_archive; cbn [ar_reports ar_auths ar_stats ar_gca ar_pub].
    split; [|split].
    - intros rl al x Er Ea Hx.
      destruct (fin FReports seen) eqn:FR; [|rewrite (N1 eq_refl) in Er; discriminate].
      destruct (fin FAuths seen) eqn:FA; [|rewrite (N2 eq_refl) in Ea; discriminate].
      destruct (P1 eq_refl) as (rl0 & Er0 & (al0 & Ea0 & C)). rewrite Er in Er0. rewrite Ea in Ea0. inversion Er0; inversion Ea0; subst.
      apply C; exact Hx.
    - intros al a Ea Ha.
      destruct (fin FAuths seen) eqn:FA; [|rewrite (N2 eq_refl) in Ea; discriminate].
      destruct (P2 eq_refl) as (al0 & Ea0 & C). rewrite Ea in Ea0. inversion Ea0; subst al0.
      rewrite AllG in C. apply C; exact Ha.
    - intros hl s Eh Hs.
      destruct (fin FStats seen) eqn:FS; [|rewrite (N3 eq_refl) in Eh; discriminate].
      destruct (P3 eq_refl) as (hl0 & Eh0 & C). rewrite Eh in Eh0. inversion Eh0; subst hl0.
      rewrite Pub'. rewrite (C s Hs). rewrite (v_skeys _ _ E1). apply KP.
  Qed.
End ArchiveL.

Section ArchiveStart.
  Variable verify : bytes -> bytes -> bytes -> bool.
  Variable sign : bytes -> bytes -> bytes.
  Variable stats_sb : list devstat -> Z -> bytes.

  (* the archive invariant holds from the first start on *)
  Theorem first_start_arch tk fresh now st0 : clock_ok now -> length (fst fresh) = 32%nat ->
    load verify (fresh_disk tk) fresh = LOk st0 ->
    ArchInv verify sign stats_sb (fst (catch_up sign stats_sb (catchup_fuel now) st0 now)).
  Proof.
    intros C Len L.
    assert (I0 : Inv verify st0).
    { destruct (first_start_full verify sign stats_sb tk fresh 0 st0) as [X _]; [unfold clock_ok; lia | exact L|].
      cbn in L. inversion L; subst st0. cbn in X. exact X. }
    assert (A0 : ArchInv verify sign stats_sb st0).
    { cbn in L. inversion L; subst st0. constructor; cbn.
      - intros al id a _ H. discriminate.
      - intros al a H Ha. inversion H; subst al. destruct Ha.
      - intros al rl r _ H Hr. inversion H; subst rl. destruct Hr.
      - intros s [].
      - exact Len. }
    apply (catch_up_arch verify sign stats_sb (catchup_fuel now) st0 now I0 A0 C).
  Qed.
End ArchiveStart.
