(* Proofs about the energy file reader model (ClientEnergy.v). *)
From Coq Require Import ZArith List Bool Lia Reals Lra.
From Flocq Require Import Core.Core IEEE754.BinarySingleNaN IEEE754.Binary IEEE754.Bits.
From GCA Require Import Wrap Timeslot ClientEnergy.
Import ListNotations.
Open Scope Z_scope.

(* ---- the loop: no row shape panics; the result is the concatenation of what each row yields *)
Section Loop.
  Variable G : Z.
  Variables mult div : binary64.

  Lemma row_step_no_panic (r : row) : row_step G mult div r <> RowPanic.
  Proof.
    unfold row_step. destruct (length r <? 2)%nat eqn:E; [discriminate|].
    apply Nat.ltb_ge in E. destruct r as [|f0 [|f1 rest]]; cbn [length] in E; try lia.
    unfold row_step_unchecked, index. cbn [nth_error].
    destruct (f_int f0); [|discriminate]. destruct (unix_to_timeslot G z); discriminate.
  Qed.

  Lemma rows_from_concat (rows : list row) : forall acc,
    rows_from (row_step G mult div) rows acc =
    Records (acc ++ concat (map (row_records G mult div) rows)).
  Proof.
    induction rows as [|r rows IH]; intros acc; cbn [rows_from map concat].
    - rewrite app_nil_r. reflexivity.
    - unfold row_records at 1. pose proof (row_step_no_panic r) as NP.
      destruct (row_step G mult div r) as [|e|]; [| |contradiction].
      + rewrite IH. reflexivity.
      + rewrite IH. rewrite <- app_assoc. reflexivity.
  Qed.

  Theorem energy_rows_total (rows : list row) :
    energy_rows G mult div rows = Records (concat (map (row_records G mult div) rows)).
  Proof. unfold energy_rows. rewrite rows_from_concat. reflexivity. Qed.

  Theorem energy_rows_no_panic (rows : list row) : energy_rows G mult div rows <> Panic.
  Proof. rewrite energy_rows_total. discriminate. Qed.

  (* rows that yield nothing *)
  Lemma short_row_skipped (r : row) : (length r < 2)%nat -> row_records G mult div r = [].
  Proof.
    intros H. unfold row_records, row_step. apply Nat.ltb_lt in H. rewrite H. reflexivity.
  Qed.

  Lemma bad_timestamp_skipped f0 f1 rest : f_int f0 = None ->
    row_records G mult div (f0 :: f1 :: rest) = [].
  Proof.
    intros H. unfold row_records, row_step, row_step_unchecked, index. cbn [length nth_error Nat.ltb Nat.leb].
    rewrite H. reflexivity.
  Qed.

  Lemma before_genesis_skipped f0 f1 rest t : f_int f0 = Some t -> t < G ->
    row_records G mult div (f0 :: f1 :: rest) = [].
  Proof.
    intros H L. unfold row_records, row_step, row_step_unchecked, index. cbn [length nth_error Nat.ltb Nat.leb].
    rewrite H. unfold unix_to_timeslot. replace (t <? G) with true by (symmetry; apply Z.ltb_lt; lia). reflexivity.
  Qed.

  (* a row with a timestamp in [G, G+2^32) yields exactly one record, for the slot containing it *)
  Lemma slot_rule f0 f1 rest t : f_int f0 = Some t -> G <= t < G + 2^32 ->
    row_records G mult div (f0 :: f1 :: rest) =
    [{| e_slot := (t - G) / 300; e_val := energy_value mult div (f_float f1) |}].
  Proof.
    intros H R. unfold row_records, row_step, row_step_unchecked, index. cbn [length nth_error Nat.ltb Nat.leb].
    rewrite H. unfold unix_to_timeslot. replace (t <? G) with false by (symmetry; apply Z.ltb_ge; lia).
    rewrite i64_id by (unfold is_i64; lia). rewrite u32_id by (unfold is_u32; lia). reflexivity.
  Qed.

  (* K5: outside that domain the slot is wrong (uint32 truncation before the division) *)
  Lemma slot_wrap_example f0 f1 : f_int f0 = Some (G + 2^32 + 600) ->
    exists v, row_records G mult div [f0; f1] = [{| e_slot := 2; e_val := v |}] /\ (G + 2^32 + 600 - G) / 300 = 14316559.
  Proof.
    intros H. eexists. split; [|replace (G + 2^32 + 600 - G) with (2^32 + 600) by lia; reflexivity].
    unfold row_records, row_step, row_step_unchecked, index. cbn [length nth_error Nat.ltb Nat.leb].
    rewrite H. unfold unix_to_timeslot. replace (G + 2^32 + 600 <? G) with false by (symmetry; apply Z.ltb_ge; lia).
    replace (G + 2^32 + 600 - G) with (2^32 + 600) by lia. reflexivity.
  Qed.
End Loop.

(* the loop body without the length check panics on a one-field row (D11, repaired) *)
Lemma unchecked_panics G mult div t : G <= t ->
  energy_rows_unchecked G mult div
    [[{| f_int := None; f_header := true; f_float := None |}];
     [{| f_int := Some t; f_header := false; f_float := None |}]] = Panic.
Proof.
  intros H. unfold energy_rows_unchecked. cbn [rows_from row_step_unchecked index nth_error f_int].
  unfold unix_to_timeslot. replace (t <? G) with false by (symmetry; apply Z.ltb_ge; lia). reflexivity.
Qed.

(* ---- the value rule ------------------------------------------------------- *)
Local Open Scope R_scope.

Lemma B2R_24 : B2R 53 1024 f64_24 = 24.
Proof.
  assert (E : exists H, f64_24 = B754_finite 53 1024 false 6755399441055744 (-48) H) by (vm_compute; eexists; reflexivity).
  destruct E as [H E]. rewrite E. unfold B2R, F2R, Fnum, Fexp, cond_Zopp. unfold bpow. cbn [Z.pow_pos Pos.iter radix_val radix2 Z.mul Pos.mul].
  lra.
Qed.

Lemma B2R_m24 : B2R 53 1024 f64_m24 = -24.
Proof.
  assert (E : exists H, f64_m24 = B754_finite 53 1024 true 6755399441055744 (-48) H) by (vm_compute; eexists; reflexivity).
  destruct E as [H E]. rewrite E. unfold B2R, F2R, Fnum, Fexp, cond_Zopp. unfold bpow. cbn [Z.pow_pos Pos.iter radix_val radix2 Z.mul Pos.mul Z.opp].
  lra.
Qed.

Lemma finite_24 : is_finite 53 1024 f64_24 = true /\ is_finite 53 1024 f64_m24 = true.
Proof. split; vm_compute; reflexivity. Qed.

(* for a finite reading the sentinel test is the strict real comparison -24 < f < 24 *)
Lemma below_24_spec (f : binary64) : is_finite 53 1024 f = true ->
  (below_24 f = true <-> Rabs (B2R 53 1024 f) < 24).
Proof.
  intros Ff. destruct finite_24 as [F1 F2]. unfold below_24, b64_compare.
  rewrite (Bcompare_correct 53 1024 f f64_m24 Ff F2), (Bcompare_correct 53 1024 f f64_24 Ff F1).
  rewrite B2R_24, B2R_m24. set (x := B2R 53 1024 f).
  destruct (Rcompare_spec x (-24)) as [L|E|Gt].
  - split; [discriminate|]. intros A. apply Rabs_def2 in A. lra.
  - split; [discriminate|]. intros A. apply Rabs_def2 in A. lra.
  - destruct (Rcompare_spec x 24) as [L2|E2|G2].
    + split; [intros _; apply Rabs_def1; lra | reflexivity].
    + split; [discriminate|]. intros A. apply Rabs_def2 in A. lra.
    + split; [discriminate|]. intros A. apply Rabs_def2 in A. lra.
Qed.

(* an infinite or NaN reading is never "below 24" *)
Lemma below_24_nonfinite (f : binary64) : is_finite 53 1024 f = false -> below_24 f = false.
Proof.
  destruct f as [s|s|s pl e|s m e H]; cbn [is_finite]; try discriminate; intros _.
  - destruct s; vm_compute; reflexivity.
  - reflexivity.
Qed.

(* the conversion: truncation toward zero, two's complement in 64 bits *)
Lemma to_uint64_spec (r : binary64) : is_finite 53 1024 r = true ->
  Rabs (B2R 53 1024 r) < IZR (2^63) ->
  to_uint64 r = VExact ((Ztrunc (B2R 53 1024 r)) mod 2^64)%Z.
Proof.
  intros Fr A. unfold to_uint64. rewrite Fr.
  assert (E : Binary.Btrunc 53 1024 r = Ztrunc (B2R 53 1024 r)).
  { apply eq_IZR. rewrite Binary.Btrunc_correct by (unfold Prec_lt_emax; reflexivity || lia).
    apply round_FIX_IZR. }
  rewrite E. apply Rabs_def2 in A. destruct A as [A1 A2].
  assert (L1 : (Ztrunc (B2R 53 1024 r) <= 2^63)%Z).
  { rewrite <- (Ztrunc_IZR (2^63)). apply Ztrunc_le. lra. }
  assert (L2 : (- 2^63 <= Ztrunc (B2R 53 1024 r))%Z).
  { rewrite <- (Ztrunc_IZR (- 2^63)). apply Ztrunc_le. rewrite opp_IZR. lra. }
  replace (- 2 ^ 63 <=? Ztrunc (B2R 53 1024 r))%Z with true by (symmetry; apply Z.leb_le; exact L2).
  replace (Ztrunc (B2R 53 1024 r) <? 2 ^ 64)%Z with true by (symmetry; apply Z.ltb_lt; lia).
  reflexivity.
Qed.

Theorem value_rule (mult div : binary64) (pf : option Z) :
  (pf = None -> energy_value mult div pf = VExact 3) /\
  (forall bits, pf = Some bits -> let f := b64_of_bits bits in
     (is_finite 53 1024 f = true -> Rabs (B2R 53 1024 f) < 24 -> energy_value mult div pf = VExact 2) /\
     ((is_finite 53 1024 f = false \/ 24 <= Rabs (B2R 53 1024 f)) ->
        let r := scaled mult div f in
        energy_value mult div pf = to_uint64 r /\
        (is_finite 53 1024 r = true -> Rabs (B2R 53 1024 r) < IZR (2^63) ->
           energy_value mult div pf = VExact ((Ztrunc (B2R 53 1024 r)) mod 2^64)%Z))).
Proof.
  split; [intros ->; reflexivity|].
  intros bits -> f. split.
  - intros Ff A. unfold energy_value. fold f. rewrite (proj2 (below_24_spec f Ff) A). reflexivity.
  - intros C r.
    assert (B : below_24 f = false).
    { destruct C as [Nf|Ge]; [apply below_24_nonfinite; exact Nf|].
      destruct (is_finite 53 1024 f) eqn:Ff; [|apply below_24_nonfinite; exact Ff].
      destruct (below_24 f) eqn:B; [|reflexivity]. apply (below_24_spec f Ff) in B. lra. }
    assert (E : energy_value mult div (Some bits) = to_uint64 r).
    { unfold energy_value. fold f. rewrite B. reflexivity. }
    split; [exact E|]. intros Fr A. rewrite E. apply to_uint64_spec; assumption.
Qed.

Local Close Scope R_scope.

(* ---- calibration file ------------------------------------------------------ *)
Theorem ct_rule (dm dd : Z) :
  ct_settings dm dd CtAbsent = CtOk dm dd /\
  ct_settings dm dd CtUnreadable = CtErr CtOpen /\
  (forall m d rest, ct_settings dm dd (CtLines (Some m :: Some d :: rest)) = CtOk m d) /\
  (forall l m d, ct_settings dm dd (CtLines l) = CtOk m d -> exists rest, l = Some m :: Some d :: rest) /\
  ct_settings dm dd (CtLines []) = CtErr CtNoFirst /\
  (forall rest, ct_settings dm dd (CtLines (None :: rest)) = CtErr CtBadFirst) /\
  (forall m, ct_settings dm dd (CtLines [Some m]) = CtErr CtNoSecond) /\
  (forall m rest, ct_settings dm dd (CtLines (Some m :: None :: rest)) = CtErr CtBadSecond).
Proof.
  repeat split; try reflexivity.
  intros l m d H. destruct l as [|[m'|] [|[d'|] rest]]; cbn [ct_settings] in H; try discriminate.
  inversion H; subst. eexists. reflexivity.
Qed.
