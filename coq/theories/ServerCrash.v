(* C05: crash images.  Process-crash model: the kernel keeps completed system calls; each
   record is appended by ONE write call and key files are replaced by rename, so the disk
   states a crash can expose are: the disk before the operation's durable step, the disk
   after it, and -- for start-up, which is not read-only -- the report log extended by a
   prefix of the reports that start-up re-appends, with the files start-up creates present
   or absent. *)
From Coq Require Import ZArith List Bool.
From GCA Require Import Wrap Bytes Codec Amap Timeslot Server ServerInv ServerDisk.
Import ListNotations.
Open Scope Z_scope.
Notation length := List.length.

Definition disk_with_reports (dk : disk) (rl : option (list report)) : disk :=
  {| d_keys := d_keys dk; d_temp := d_temp dk; d_gca := d_gca dk; d_auths := d_auths dk;
     d_reports := rl; d_stats := d_stats dk |}.

(* files that start-up creates when absent may be absent or present-and-empty *)
Definition absent_ok {A} (present : option (list A)) (img : option (list A)) : Prop :=
  img = present \/ (present = Some [] /\ img = None).

(* a crash image of start-up on disk [dk] whose report log is [rl]: the log carries a prefix
   [re] of re-appended reports (each already in the log); created-empty files may be absent;
   server.keys may be absent only if it had not been written before (first start) *)
Definition startup_image (dk : disk) (img : disk) : Prop :=
  d_temp img = d_temp dk /\ d_gca img = d_gca dk /\
  (d_keys img = d_keys dk) /\
  absent_ok (d_auths dk) (d_auths img) /\ absent_ok (d_stats dk) (d_stats img) /\
  exists rl re, d_reports dk = Some rl /\ (forall r, In r re -> In r rl) /\
                (d_reports img = Some (rl ++ re) \/ (rl ++ re = [] /\ d_reports img = None)).

Section Crash.
  Variable verify : bytes -> bytes -> bytes -> bool.
  Variable sign : bytes -> bytes -> bytes.
  Variable stats_sb : list devstat -> Z -> bytes.

  (* crash images of one operation from state st *)
  Definition crash_image (st : state) (o : op) (img : disk) : Prop :=
    match o with
    | OpRestart fresh now =>
        (* during load: images of start-up on the old disk; afterwards: images between the
           catch-up rotations, each of which is a single append (covered by op images of rotate) *)
        startup_image (dd st) img \/
        exists k, (k <= catchup_fuel now)%nat /\
                  match load verify (dd st) fresh with
                  | LOk st1 => img = dd (fst (catch_up sign stats_sb k st1 now))
                  | _ => False
                  end
    | _ => img = dd st \/ img = dd (fst (step verify sign stats_sb st o))
    end.

  (* recovery from an image yields (the equivalent of) one of these states *)
  Definition recovers_to (img : disk) (fresh : bytes * bytes) (target : mem) : Prop :=
    exists st', load verify img fresh = LOk st' /\ mem_equiv (mm st') target.
End Crash.
