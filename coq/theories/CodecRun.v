(* Evaluates the reference codecs on the cases the harness suite `codec` ran against the
   real encoders / decoders (harness/suites/codec.go). *)
From Coq Require Import ZArith List Bool String.
From GCA Require Import Bytes Codec CodecStats CodecServers RunLib.
Import ListNotations.
Open Scope Z_scope.
Notation length := List.length.

(* ---- byte-string literals --------------------------------------------------------
   Hex text is read as a list of bytes (String Notation; several times cheaper for Coq
   than a [string] literal) and long, repetitive byte strings (32 KB device records)
   arrive run-length encoded. *)
Inductive hstr := HS (l : list Byte.byte).
Definition unHS (h : hstr) : list Byte.byte := match h with HS l => l end.
Declare Scope hs_scope.
Delimit Scope hs_scope with hs.
Bind Scope hs_scope with hstr.
String Notation hstr HS unHS : hs_scope.

Definition hexv (c : Byte.byte) : option N :=
  let n := Byte.to_N c in
  if (48 <=? n)%N && (n <=? 57)%N then Some (n - 48)%N
  else if (97 <=? n)%N && (n <=? 102)%N then Some (n - 87)%N
  else None.
Fixpoint hb_aux (l : list Byte.byte) : bytes :=
  match l with
  | a :: b :: r =>
      match hexv a, hexv b with
      | Some x, Some y => match Byte.of_N (x * 16 + y) with Some c => c :: hb_aux r | None => [] end
      | _, _ => []
      end
  | _ => []
  end.
Definition hb (h : hstr) : bytes := hb_aux (unHS h).

(* L h = the bytes h;  R n h = the bytes h repeated n times *)
Inductive seg := L (h : hstr) | R (n : Z) (h : hstr).
Definition seg_bytes (s : seg) : bytes :=
  match s with L h => hb h | R n h => List.concat (repeat (hb h) (Z.to_nat n)) end.
Definition rl (l : list seg) : bytes := List.concat (map seg_bytes l).

(* a device of a statistics record in compact form: key, (default, overrides by index)
   for the power outputs and for the impact-rate bit patterns *)
Definition sparse : Type := Z * list (Z * Z).
Definition cdev : Type := bytes * sparse * sparse.

Fixpoint sparse_get (i : Z) (ov : list (Z * Z)) (d : Z) : Z :=
  match ov with
  | [] => d
  | (j, v) :: ov' => if i =? j then v else sparse_get i ov' d
  end.
Definition sparse_expand (n : nat) (s : sparse) : list Z :=
  map (fun i => sparse_get (Z.of_nat i) (snd s) (fst s)) (seq 0 n).
Definition dev_of_cdev (c : cdev) : dev :=
  let '(k, p, i) := c in {| d_key := k; d_pow := sparse_expand slots p; d_imp := sparse_expand slots i |}.

(* position-weighted checksum modulo 2^64 of a list of 64-bit values *)
Definition mask64 : Z := 18446744073709551615.    (* land with 2^64-1 = mod 2^64, much cheaper *)
Fixpoint wsum (i : Z) (l : list Z) (acc : Z) : Z :=
  match l with [] => acc | x :: l' => wsum (i + 1) l' (Z.land (acc + i * x) mask64) end.

(* canonical projection of a decoded statistics record *)
Inductive sobs :=
| OOk (consumed : Z) (tso : Z) (sig : bytes) (devs : list (bytes * Z * Z))
| OErr
| OFatal.

Definition dev_proj (d : dev) : bytes * Z * Z := (d_key d, wsum 1 (d_pow d) 0, wsum 1 (d_imp d) 0).
Definition proj_eqb (a b : bytes * Z * Z) : bool :=
  let '(k1, p1, i1) := a in let '(k2, p2, i2) := b in bytes_eqb k1 k2 && (p1 =? p2) && (i1 =? i2).

(* memory the runtime is assumed to be able to hand out in one block: the harness runs
   the hostile inputs in a child process limited to 2 GB of address space *)
Definition run_memlimit : Z := 2^31.

Definition sobs_ok (r : dres all_stats) (o : sobs) : bool :=
  match r, o with
  | DOk x n, OOk c tso sg ds =>
      (Z.of_nat n =? c) && (s_tso x =? tso) && bytes_eqb (s_sig x) sg &&
      list_eqb proj_eqb (map dev_proj (s_devs x)) ds
  | DErr, OErr => true
  | DFatal, OFatal => true
  | _, _ => false
  end.

Definition entry_t : Type := bytes * bool * bytes * Z * Z * Z.           (* key banned loc http tcp udp *)
Definition centry_of (e : entry_t) : centry :=
  let '(k, bn, loc, h, t, u) := e in
  (k, {| cs_banned := bn; cs_loc := loc; cs_http := h; cs_tcp := t; cs_udp := u |}).
Definition aserver_t : Type := bytes * bool * bytes * Z * Z * Z * bytes.  (* ... sig *)
Definition aserver_of (e : aserver_t) : aserver :=
  let '(k, bn, loc, h, t, u, sg) := e in
  {| as_key := k; as_banned := bn; as_loc := loc; as_http := h; as_tcp := t; as_udp := u; as_sig := sg |}.

Definition aserver_eqb (a b : aserver) : bool :=
  bytes_eqb (as_key a) (as_key b) && Bool.eqb (as_banned a) (as_banned b) && bytes_eqb (as_loc a) (as_loc b) &&
  (as_http a =? as_http b) && (as_tcp a =? as_tcp b) && (as_udp a =? as_udp b) && bytes_eqb (as_sig a) (as_sig b).
Definition cserver_eqb (a b : cserver) : bool :=
  Bool.eqb (cs_banned a) (cs_banned b) && bytes_eqb (cs_loc a) (cs_loc b) &&
  (cs_http a =? cs_http b) && (cs_tcp a =? cs_tcp b) && (cs_udp a =? cs_udp b).
Fixpoint dedup_keys (l : list centry) : list bytes :=
  match l with
  | [] => []
  | (k, _) :: l' => if existsb (bytes_eqb k) (map fst l') then dedup_keys l' else k :: dedup_keys l'
  end.
(* the finite map read from the file equals the observed Go map (given as a list with
   distinct keys) *)
Definition smap_same (l : list centry) (obs : list centry) : bool :=
  Nat.eqb (length (dedup_keys l)) (length obs) &&
  forallb (fun e => opt_eqb cserver_eqb (smap_lookup (fst e) l) (Some (snd e))) obs.

Inductive ccase :=
(* field values, real Serialize(), real SigningBytes() *)
| CReport (r : report) (ser sb : bytes)
| CReportDec (b : bytes) (o : option report)
| CAuth (a : auth) (ser sb : bytes)
| CAuthDec (b : bytes) (o : option auth)
| CReg (key sb : bytes)
| CAServer (s : aserver_t) (ser sb : bytes)
| CMigration (equip newgca : bytes) (id : Z) (servers : list aserver_t) (sg ser sb : bytes)
(* entries in the order found in the real output, real SerializeGCAServerMap result *)
| CSMapEnc (l : list entry_t) (o : option bytes)
(* input, real UntrustedDeserializeGCAServerMap result (entries of the Go map) *)
| CSMapDec (b : bytes) (o : option (list entry_t))
(* statistics record: devices, tso, signature, real Serialize(), real SigningBytes()
   (left out for the largest records) *)
| CStats (devs : list cdev) (tso : Z) (sg ser : bytes) (sb : option bytes)
(* stream input b; observations of the real stream decoder on firstn cut (b ++ ext);
   and (at most one) of the caller's loop over b: Some [(consumed, tso)...] or None when
   it failed *)
| CStream (b ext : bytes) (cuts : list (Z * sobs)) (all : list (option (list (Z * Z)))).

Definition stats_of (devs : list cdev) (tso : Z) (sg : bytes) : all_stats :=
  {| s_devs := map dev_of_cdev devs; s_tso := tso; s_sig := sg |}.

Definition all_ok (r : dres (list all_stats)) (o : option (list (Z * Z))) : bool :=
  match r, o with
  | DOk xs _, Some l =>
      list_eqb (fun a b => (fst a =? fst b) && (snd a =? snd b))
               (map (fun x => (Z.of_nat (length (stats_serialize x)), s_tso x)) xs) l
  | DErr, None => true
  | _, _ => false
  end.

Definition ccase_ok (c : ccase) : bool :=
  match c with
  | CReport r ser sb => bytes_eqb (report_serialize r) ser && bytes_eqb (report_signing_bytes r) sb
  | CReportDec b o => opt_eqb report_eqb (report_decode b) o
  | CAuth a ser sb => bytes_eqb (auth_serialize a) ser && bytes_eqb (auth_signing_bytes a) sb
  | CAuthDec b o => opt_eqb auth_eqb (auth_decode b) o
  | CReg k sb => bytes_eqb (reg_signing_bytes k) sb
  | CAServer s ser sb =>
      bytes_eqb (aserver_serialize (aserver_of s)) ser && bytes_eqb (aserver_signing_bytes (aserver_of s)) sb &&
      (* within the stated domain the REAL bytes decode (reference decoder) to the value *)
      (if (Nat.leb (length (as_loc (aserver_of s))) 255)
       then opt_eqb aserver_eqb (aserver_decode ser) (Some (aserver_of s)) else true)
  | CMigration e g id l sg ser sb =>
      let m := {| m_equip := e; m_newgca := g; m_newid := id; m_servers := map aserver_of l; m_sig := sg |} in
      bytes_eqb (migration_serialize m) ser && bytes_eqb (migration_signing_bytes m) sb &&
      match migration_decode ser with
      | DOk m' n => bytes_eqb (m_equip m') e && bytes_eqb (m_newgca m') g && (m_newid m' =? id) &&
                    list_eqb aserver_eqb (m_servers m') (map aserver_of l) && bytes_eqb (m_sig m') sg &&
                    Nat.eqb n (length ser)
      | _ => false
      end
  | CSMapEnc l o => opt_eqb bytes_eqb (smap_encode (map centry_of l)) o
  | CSMapDec b o =>
      match smap_decode b, o with
      | DOk l _, Some obs => smap_same l (map centry_of obs)
      | DErr, None => true
      | _, _ => false
      end
  | CStats devs tso sg ser sb =>
      (* stats_serialize x and stats_signing_bytes x with their common part evaluated once *)
      let x := stats_of devs tso sg in
      let body := stats_body x in
      bytes_eqb (body ++ pad 64 (s_sig x)) ser &&
      match sb with Some s => bytes_eqb (ascii_bytes prefix_stats ++ body) s | None => true end
  | CStream b ext cuts all =>
      forallb (fun co => sobs_ok (stats_stream_decode run_memlimit (firstn (Z.to_nat (fst co)) (b ++ ext))) (snd co)) cuts &&
      forallb (all_ok (stats_stream_all (S (length b)) run_memlimit b)) all
  end.

Definition codec_mismatches := bad_indices ccase_ok.
