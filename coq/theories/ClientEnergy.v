(* Model of client/reports.go staticReadEnergyFile and client/client.go
   readCTSettingsFile.

   The CSV layer (encoding/csv), strconv.ParseInt / ParseFloat and
   bufio.Scanner are Go's: the model starts from the rows the real csv.Reader
   delivered before its first error (the loop breaks on any error, io.EOF
   included) with, for every field, the verdicts of the real strconv functions.
   The loop body, the sentinel rules, the binary64 scaling (Flocq) and the
   float64 -> uint64 conversion (amd64) are modelled here.
   Definitions only; proofs are in ClientEnergy_lemmas.v. *)
From Coq Require Import ZArith List Bool.
From Flocq Require Import Core.Core IEEE754.BinarySingleNaN IEEE754.Binary IEEE754.Bits.
From GCA Require Import Wrap Timeslot.
Import ListNotations.
Open Scope Z_scope.

(* one CSV field, as seen by the functions the loop applies to it *)
Record field := {
  f_int : option Z;        (* strconv.ParseInt(s, 10, 64): Some v, or None on any error *)
  f_header : bool;         (* s == "timestamp" (only decides whether a log line is written) *)
  f_float : option Z       (* strconv.ParseFloat(s, 64): Some (IEEE-754 bits), or None on any error *)
}.
Definition row := list field.

(* uint64(float64) is exact for values that truncate into [0, 2^64) (Go spec) and two's
   complement for negative values down to -2^63 (amd64: CVTTSD2SQ); everything else
   (NaN, infinities, larger magnitudes) is implementation-specific: VUnspec *)
Inductive value := VExact (v : Z) | VUnspec.
Record record := { e_slot : Z; e_val : value }.

Inductive row_result := RowSkip | RowEmit (r : record) | RowPanic.
Inductive outcome := Records (l : list record) | Panic.

Definition f64_24 : binary64 := b64_of_bits 0x4038000000000000.       (* 24 *)
Definition f64_m24 : binary64 := b64_of_bits 0xC038000000000000.      (* -24 *)

(* energyF64 > -24 && energyF64 < 24 *)
Definition below_24 (f : binary64) : bool :=
  match b64_compare f f64_m24 with
  | Some Gt => match b64_compare f f64_24 with Some Lt => true | _ => false end
  | _ => false
  end.

(* c.energyMultiplier * energyF64 / c.energyDivider *)
Definition scaled (mult div f : binary64) : binary64 :=
  b64_div mode_NE (b64_mult mode_NE mult f) div.

Definition to_uint64 (r : binary64) : value :=
  if is_finite 53 1024 r then
    let z := Binary.Btrunc 53 1024 r in
    if (- 2^63 <=? z) && (z <? 2^64) then VExact (z mod 2^64) else VUnspec
  else VUnspec.

(* the energy of one row, from the ParseFloat verdict of record[1] *)
Definition energy_value (mult div : binary64) (pf : option Z) : value :=
  match pf with
  | None => VExact 3
  | Some bits =>
      let f := b64_of_bits bits in
      if below_24 f then VExact 2 else to_uint64 (scaled mult div f)
  end.

Section Reader.
  Variable G : Z.                          (* glow.GenesisTime *)
  Variables mult div : binary64.           (* c.energyMultiplier, c.energyDivider *)

  (* record[i]: an index out of range panics *)
  Definition index (r : row) (i : nat) : option field := nth_error r i.

  (* loop body of the code BEFORE the repair of D11: record[1] without a length check *)
  Definition row_step_unchecked (r : row) : row_result :=
    match index r 0 with
    | None => RowPanic
    | Some f0 =>
        match f_int f0 with
        | None => RowSkip                                (* header or invalid timestamp *)
        | Some ts =>
            match unix_to_timeslot G ts with
            | None => RowSkip                            (* before genesis *)
            | Some slot =>
                match index r 1 with
                | None => RowPanic
                | Some f1 => RowEmit {| e_slot := slot; e_val := energy_value mult div (f_float f1) |}
                end
            end
        end
    end.

  (* loop body: if len(record) < 2 { continue } comes first *)
  Definition row_step (r : row) : row_result :=
    if (length r <? 2)%nat then RowSkip else row_step_unchecked r.

  Fixpoint rows_from (step : row -> row_result) (rows : list row) (acc : list record) : outcome :=
    match rows with
    | [] => Records acc
    | r :: rows' =>
        match step r with
        | RowSkip => rows_from step rows' acc
        | RowEmit e => rows_from step rows' (acc ++ [e])
        | RowPanic => Panic
        end
    end.

  Definition energy_rows (rows : list row) : outcome := rows_from row_step rows [].
  Definition energy_rows_unchecked (rows : list row) : outcome := rows_from row_step_unchecked rows [].

  (* what one row contributes *)
  Definition row_records (r : row) : list record :=
    match row_step r with RowEmit e => [e] | _ => [] end.
End Reader.

(* ---- readCTSettingsFile ---------------------------------------------------
   lines = the tokens bufio.Scanner delivers, each with its ParseFloat verdict *)
Inductive ct_file := CtAbsent | CtUnreadable | CtLines (l : list (option Z)).
Inductive ct_error := CtOpen | CtNoFirst | CtBadFirst | CtNoSecond | CtBadSecond.
Inductive ct_result := CtOk (mult div : Z) | CtErr (e : ct_error).      (* bits *)

Definition ct_settings (default_mult default_div : Z) (f : ct_file) : ct_result :=
  match f with
  | CtAbsent => CtOk default_mult default_div
  | CtUnreadable => CtErr CtOpen
  | CtLines [] => CtErr CtNoFirst
  | CtLines (None :: _) => CtErr CtBadFirst
  | CtLines (Some m :: []) => CtErr CtNoSecond
  | CtLines (Some m :: None :: _) => CtErr CtBadSecond
  | CtLines (Some m :: Some d :: _) => CtOk m d
  end.
