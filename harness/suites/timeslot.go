package suites

// C20: glow.UnixToTimeslot / TimeslotToUnix / CurrentTimeslot against the
// Gallina model (Timeslot.v).  Meant to run in a binary built WITHOUT the test
// tag so that GenesisTime is the production constant; it also runs in the test
// build (GenesisTime = process start) where only the arithmetic is compared.

import (
	"fmt"
	"go/ast"
	"go/parser"
	"go/token"
	"os"
	"os/exec"
	"path/filepath"
	"time"

	"github.com/glowlabs-org/gca-backend/server"

	"github.com/glowlabs-org/gca-backend/glow"
	"verifharness/core"
)

func init() {
	core.Register("timeslot", timeslotSuite)
	core.Register("genesisprobe", genesisProbe)
}

// genesisprobe: prints the build's GenesisTime as this process sees it (run under several TZ values by the
// timeslot suite: the constant must not depend on the zone the process runs in)
func genesisProbe(seed uint64, tier, outDir string) (*core.Result, error) {
	res := core.NewResult("genesisprobe", seed, tier)
	os.WriteFile(filepath.Join(outDir, "genesis.txt"), []byte(fmt.Sprint(int64(glow.GenesisTime))), 0644)
	return res, nil
}

func timeslotSuite(seed uint64, tier, outDir string) (*core.Result, error) {
	res := core.NewResult("timeslot", seed, tier)
	rng := core.NewRNG(seed)
	G := int64(glow.GenesisTime)
	n := 600
	if tier == "thorough" {
		n = 12000
	}
	var items []string
	add := func(kind string, in int64, ok bool, out int64, class string) {
		res.Count(class)
		desc := map[string]interface{}{"kind": kind, "in": in, "ok": ok, "out": out}
		res.Case(desc, fmt.Sprint(kind, in), ok)
		k := "0"
		if kind == "t2u" {
			k = "1"
		}
		items = append(items, core.Tuple(k, core.Z(in), core.OptZ(ok, out)))
	}
	u2t := func(t int64, class string) {
		s, err := glow.UnixToTimeslot(t)
		add("u2t", t, err == nil, int64(s), class)
		// property oracle on the implementation alone (stated domain only)
		if t < G && err == nil {
			res.Fail("time before genesis accepted", fmt.Sprintf("u2t-before-genesis"), map[string]interface{}{"unix": t, "slot": s})
		}
		if t >= G && t < G+(1<<32) {
			if err != nil {
				res.Fail("time at/after genesis refused", "u2t-refused", map[string]interface{}{"unix": t})
			} else {
				back := glow.TimeslotToUnix(s)
				if back != t-(t-G)%300 {
					res.Fail("round trip does not return the start of the slot", "roundtrip", map[string]interface{}{"unix": t, "slot": s, "back": back})
				}
			}
		}
	}
	t2u := func(s uint32, class string) {
		add("t2u", int64(s), true, glow.TimeslotToUnix(s), class)
	}
	// boundaries
	for _, d := range []int64{-1 << 62, -1, 0, 1, 299, 300, 301, 599, 600, (1 << 32) - 301, (1 << 32) - 300, (1 << 32) - 1, 1 << 32, (1 << 32) + 299, (1 << 32) + 300, 1 << 33, 1 << 40} {
		if d == -1<<62 {
			u2t(-1<<63, "u2t.extreme")
			u2t(0, "u2t.before")
			continue
		}
		cl := "u2t.boundary"
		if d < 0 {
			cl = "u2t.before"
		} else if d >= 1<<32 {
			cl = "u2t.beyond-domain"
		}
		u2t(G+d, cl)
	}
	u2t(1<<63-1, "u2t.extreme")
	maxSlot := uint32(((1 << 32) - 1) / 300)
	for _, s := range []uint32{0, 1, 2, 2015, 2016, 4031, 4032, maxSlot - 1, maxSlot, maxSlot + 1, maxSlot + 2, 1<<32 - 1, 1 << 31} {
		cl := "t2u.boundary"
		if s > maxSlot {
			cl = "t2u.beyond-domain"
		}
		t2u(s, cl)
	}
	// stride over slot edges + random interior
	var prevSlot uint32
	var prevT int64 = -1
	for i := 0; i < n; i++ {
		k := int64(rng.U64() % uint64(maxSlot))
		edge := []int64{-1, 0, 1, 299}[rng.Intn(4)]
		t := G + k*300 + edge
		if rng.Chance(40) {
			t = G + int64(rng.U64()%(1<<32))
		}
		if t < G {
			u2t(t, "u2t.before")
			continue
		}
		u2t(t, "u2t.in-domain")
		s, _ := glow.UnixToTimeslot(t)
		if prevT >= 0 { // monotonicity oracle on a random pair
			if (prevT <= t && prevSlot > s) || (t <= prevT && s > prevSlot) {
				res.Fail("conversion not monotone", "monotone", map[string]interface{}{"t1": prevT, "s1": prevSlot, "t2": t, "s2": s})
			}
		}
		prevT, prevSlot = t, s
		if rng.Chance(30) {
			t2u(uint32(rng.U64()%uint64(maxSlot+1)), "t2u.in-domain")
		}
	}
	if err := res.CasesFile(outDir, "cases_timeslot", "From Coq Require Import ZArith List.\nFrom GCA Require Import TimeslotRun.", "Z * Z * option Z", items, fmt.Sprintf("ts_mismatches %d", G)); err != nil {
		return nil, err
	}
	// CurrentTimeslot follows the system clock (production build only)
	if sc := isTestBuild(); !sc {
		var sand []string
		for i := 0; i < 20; i++ {
			t0 := time.Now().Unix()
			cs := glow.CurrentTimeslot()
			t1 := time.Now().Unix()
			sand = append(sand, core.Tuple(core.Z(t0), core.Z(int64(cs)), core.Z(t1)))
			res.Count("current.sandwich")
			res.Case(map[string]interface{}{"kind": "current", "t0": t0, "slot": cs, "t1": t1}, fmt.Sprint("cur", t0, i), true)
			lo, _ := glow.UnixToTimeslot(t0)
			hi, _ := glow.UnixToTimeslot(t1)
			if cs < lo || cs > hi {
				res.Fail("CurrentTimeslot does not follow the system clock", "current", map[string]interface{}{"t0": t0, "slot": cs, "t1": t1})
			}
		}
		if err := res.CasesFile(outDir, "cases_current", "From Coq Require Import ZArith List.\nFrom GCA Require Import TimeslotRun.", "Z * Z * Z", sand, fmt.Sprintf("cur_mismatches %d", G)); err != nil {
			return nil, err
		}
		res.Required = append(res.Required, "current.sandwich")
		cadenceWitness(res)
		// the genesis constant in other time zones (the value is fixed when the process starts)
		for _, tz := range []string{"America/Los_Angeles", "Europe/Berlin", "Asia/Tokyo", "UTC"} {
			d, err := os.MkdirTemp("", "vh-genesis-")
			if err != nil {
				continue
			}
			cmd := exec.Command(os.Args[0], "-out", d, "genesisprobe")
			cmd.Env = append(os.Environ(), "TZ="+tz)
			if cmd.Run() == nil {
				if b, err := os.ReadFile(filepath.Join(d, "genesis.txt")); err == nil {
					res.Count("genesis.zone")
					if string(b) != fmt.Sprint(G) {
						res.Fail(fmt.Sprintf("in a process whose time zone is %s the genesis time is %s, not %d (2023-11-19 00:00:00 UTC): devices and servers in different zones put the same reading into different timeslots", tz, b, G), "c20-genesis-zone", map[string]interface{}{"TZ": tz, "genesis": string(b)})
					}
				}
			}
			os.RemoveAll(d)
		}
		res.Required = append(res.Required, "genesis.zone")
	}
	res.Required = append(res.Required, "u2t.before", "u2t.boundary", "u2t.in-domain", "t2u.boundary", "t2u.in-domain")
	res.Extra["genesis"] = G
	res.Rule = "unix times at slot edges (k*300 + {-1,0,1,299}), random interior, before genesis, extremes; slots up to the no-overflow bound and beyond; a case is non-trivial when the conversion succeeds, distinct by (kind,input)"
	return res, nil
}

// cadenceWitness replays the production rotation schedule on a simulated clock: the rotation thread wakes
// every P = ReportMigrationFrequency and rotates (offset += shift) when now - offset > trigger; a report
// for timeslot ts is acceptable at clock t when |ts - t| <= half and is stored only if ts < offset + window.
// For every phase of the thread's wake-ups it looks for a clock value at which an acceptable report falls
// beyond the window, and reports the first one (the concrete schedule is the replay).  The constants come
// from the compiled binary and from the integer literals of the anchored function bodies, like the
// generated obligation c20_cadence_inequality, which is the proof of the same fact for all schedules.
func cadenceWitness(res *core.Result) {
	repo := os.Getenv("VERIF_REPO")
	if repo == "" {
		repo = "/repo"
	}
	pick := func(file, fn, op string, nth int) (int64, bool) {
		ls, err := funcLits(filepath.Join(repo, file), fn)
		if err != nil {
			return 0, false
		}
		k := 0
		for _, l := range ls {
			if l.op == op {
				if k == nth {
					return l.val, true
				}
				k++
			}
		}
		return 0, false
	}
	trigger, ok1 := pick("server/equipment.go", "launchMigrateReports", ">", 0)
	shift, ok2 := pick("server/equipment.go", "migrateReports", "+=", 0)
	half, ok3 := pick("server/report_listener_udp.go", "managedHandleEquipmentReport", "+", 0)
	window, ok4 := pick("server/report_listener_udp.go", "integrateReport", "+", 0)
	if !(ok1 && ok2 && ok3 && ok4) || shift <= 0 {
		return // the generated obligation c20_extraction_complete reports this
	}
	// two structural facts the schedule relies on, read from the source like the literals:
	// (1) the rotation thread checks BEFORE it sleeps (after a restart with trigger < now-offset < start-up
	//     bound the first check must happen at once), (2) migrateReports moves the window unconditionally
	//     (no return before the offset is advanced, e.g. when fetching the week's data fails)
	sleepFirst, earlyReturn := rotationStructure(filepath.Join(repo, "server/equipment.go"))
	startBound, okb := pick("server/equipment.go", "launchMigrateReports", "<", 0)
	if sleepFirst && okb {
		P0 := (server.VerifConsts()["ReportMigrationFrequencyMs"] + 299999) / 300000
		t0 := startBound - 10 // now - offset at the restart, just below the start-up catch-up bound
		res.Fail(fmt.Sprintf("the rotation thread sleeps before its first check: after a restart with the clock %d slots past the window start (start-up catch-up only rotates from %d on) the window stays [0, %d) for a whole check period (%d slots), and a report for timeslot %d, acceptable by the +-%d rule, is dropped", t0, startBound, window, P0, t0+half, half),
			"c20-first-check-delayed", map[string]interface{}{"clock_minus_offset_at_restart": t0, "period_slots": P0, "timeslot": t0 + half, "window": window})
		return
	}
	if earlyReturn {
		res.Fail(fmt.Sprintf("migrateReports can return before it advances the window (a return statement precedes the offset increment): when that path is taken at every check the window stays [0, %d) while the clock runs on, and from clock %d on a report acceptable by the +-%d rule is dropped", window, window-half, half),
			"c20-rotation-conditional", map[string]interface{}{"window": window, "clock": window - half})
		return
	}
	periodMs := server.VerifConsts()["ReportMigrationFrequencyMs"]
	P := (periodMs + 299999) / 300000 // slots between two wake-ups, rounded up
	if P < 1 {
		P = 1
	}
	res.Count("cadence.simulated")
	res.Extra["cadence"] = map[string]int64{"period_slots": P, "trigger": trigger, "shift": shift, "half_width": half, "window": window}
	phases := P
	if phases > 4096 {
		phases = 4096
	}
	for ph := int64(0); ph < phases; ph++ {
		phase := ph * P / phases
		offset := int64(0)
		next := phase
		for t := int64(0); t < 6*shift+phase; t++ {
			if t == next {
				if t-offset > trigger {
					offset += shift
				}
				next += P
			}
			if t+half >= offset+window {
				res.Fail(fmt.Sprintf("production rotation cadence: the rotation thread wakes every %d timeslots (phase %d); at clock %d the window is still [%d, %d) and a report for timeslot %d, acceptable by the +-%d rule, falls outside it and is dropped (next wake-up at %d)",
					P, phase, t, offset, offset+window, t+half, half, next), "c20-cadence-unsafe",
					map[string]interface{}{"period_slots": P, "phase": phase, "clock": t, "offset": offset, "window": window, "timeslot": t + half, "trigger": trigger, "shift": shift})
				return
			}
		}
	}
}

// rotationStructure reads two facts from server/equipment.go: whether, in the endless loop of the thread
// started by launchMigrateReports, a Sleep call comes before the comparison that triggers the rotation,
// and whether migrateReports contains a return statement before the statement that advances the offset.
func rotationStructure(file string) (sleepFirst, earlyReturn bool) {
	fs := token.NewFileSet()
	f, err := parser.ParseFile(fs, file, nil, 0)
	if err != nil {
		return false, false
	}
	for _, d := range f.Decls {
		fd, ok := d.(*ast.FuncDecl)
		if !ok || fd.Body == nil {
			continue
		}
		switch fd.Name.Name {
		case "launchMigrateReports":
			// the last for-statement without condition (the periodic loop)
			var loop *ast.ForStmt
			ast.Inspect(fd.Body, func(n ast.Node) bool {
				if fl, ok := n.(*ast.FuncLit); ok {
					ast.Inspect(fl.Body, func(m ast.Node) bool {
						if fr, ok := m.(*ast.ForStmt); ok && fr.Cond == nil {
							loop = fr
						}
						return true
					})
				}
				return true
			})
			if loop == nil {
				continue
			}
			sleepPos, cmpPos := token.NoPos, token.NoPos
			ast.Inspect(loop.Body, func(n ast.Node) bool {
				switch v := n.(type) {
				case *ast.CallExpr:
					if se, ok := v.Fun.(*ast.SelectorExpr); ok && se.Sel.Name == "Sleep" && sleepPos == token.NoPos {
						sleepPos = v.Pos()
					}
				case *ast.IfStmt:
					if cmpPos == token.NoPos {
						if be, ok := v.Cond.(*ast.BinaryExpr); ok && (be.Op == token.GTR || be.Op == token.GEQ) {
							cmpPos = v.Pos()
						}
					}
				}
				return true
			})
			sleepFirst = sleepPos != token.NoPos && cmpPos != token.NoPos && sleepPos < cmpPos
		case "migrateReports":
			incPos := token.NoPos
			ast.Inspect(fd.Body, func(n ast.Node) bool {
				if as, ok := n.(*ast.AssignStmt); ok && as.Tok == token.ADD_ASSIGN && incPos == token.NoPos {
					incPos = as.Pos()
				}
				return true
			})
			ast.Inspect(fd.Body, func(n ast.Node) bool {
				if _, ok := n.(*ast.FuncLit); ok {
					return false
				}
				if r, ok := n.(*ast.ReturnStmt); ok && incPos != token.NoPos && r.Pos() < incPos {
					earlyReturn = true
				}
				return true
			})
		}
	}
	return
}
