From Coq Require Import ZArith List Bool Lia String Ascii.
From Coq.Strings Require Import Byte.
From GCA Require Import Bytes.
Import ListNotations.
Open Scope Z_scope.
Notation length := List.length.

Lemma b2z_range b : 0 <= b2z b < 256.
Proof. unfold b2z. pose proof (Byte.to_N_bounded b). lia. Qed.

Lemma z2b_b2z b : z2b (b2z b) = b.
Proof.
  unfold z2b. pose proof (b2z_range b). rewrite Z.mod_small by lia.
  unfold b2z. rewrite N2Z.id. rewrite Byte.of_to_N. reflexivity.
Qed.

Lemma b2z_z2b z : b2z (z2b z) = z mod 256.
Proof.
  unfold z2b, b2z. pose proof (Z.mod_pos_bound z 256 ltac:(lia)) as H.
  destruct (Byte.of_N (Z.to_N (z mod 256))) as [b|] eqn:E.
  - apply Byte.to_of_N in E. rewrite E. rewrite Z2N.id by lia. reflexivity.
  - apply Byte.of_N_None_iff in E. lia.
Qed.

Lemma byte_eqb_eq a b : Byte.eqb a b = true <-> a = b.
Proof. apply Byte.byte_dec_bl || (split; [apply Byte.byte_dec_bl | apply Byte.byte_dec_lb]). Qed.

Lemma bytes_eqb_eq a : forall b, bytes_eqb a b = true <-> a = b.
Proof.
  induction a as [|x a IH]; intros [|y b]; simpl; split; intros H; try reflexivity; try discriminate.
  - apply andb_prop in H as [H1 H2]. apply byte_eqb_eq in H1. apply IH in H2. congruence.
  - inversion H; subst. apply andb_true_intro. split; [apply byte_eqb_eq; reflexivity | apply IH; reflexivity].
Qed.
Lemma bytes_eqb_refl a : bytes_eqb a a = true.
Proof. apply bytes_eqb_eq. reflexivity. Qed.
Lemma bytes_eqb_neq a b : bytes_eqb a b = false <-> a <> b.
Proof.
  split; intros H.
  - intros E. apply bytes_eqb_eq in E. congruence.
  - destruct (bytes_eqb a b) eqn:E; [|reflexivity]. apply bytes_eqb_eq in E. contradiction.
Qed.

Lemma le_enc_length w : forall z, length (le_enc w z) = w.
Proof. induction w as [|w IH]; intros z; simpl; [reflexivity | rewrite IH; reflexivity]. Qed.

Lemma le_dec_range l : 0 <= le_dec l < 256 ^ Z.of_nat (length l).
Proof.
  induction l as [|b l IH]; [simpl; lia|].
  cbn [le_dec length]. rewrite Nat2Z.inj_succ, Z.pow_succ_r by lia.
  pose proof (b2z_range b). lia.
Qed.

Lemma le_dec_enc w : forall z, le_dec (le_enc w z) = z mod 256 ^ Z.of_nat w.
Proof.
  induction w as [|w IH]; intros z.
  - simpl. rewrite Z.mod_1_r. reflexivity.
  - cbn [le_enc le_dec]. rewrite IH, b2z_z2b.
    rewrite Nat2Z.inj_succ, Z.pow_succ_r by lia.
    assert (P : 0 < 256 ^ Z.of_nat w) by (apply Z.pow_pos_nonneg; lia).
    rewrite Z.rem_mul_r by lia. reflexivity.
Qed.

Lemma le_enc_dec l : le_enc (length l) (le_dec l) = l.
Proof.
  induction l as [|b l IH]; [reflexivity|].
  cbn [length le_enc le_dec]. pose proof (b2z_range b) as Hb.
  f_equal.
  - replace (b2z b + 256 * le_dec l) with (b2z b + le_dec l * 256) by lia.
    unfold z2b. rewrite Z.mod_add by lia. rewrite Z.mod_small by lia.
    unfold b2z. rewrite N2Z.id, Byte.of_to_N. reflexivity.
  - replace ((b2z b + 256 * le_dec l) / 256) with (le_dec l); [exact IH|].
    replace (b2z b + 256 * le_dec l) with (b2z b + le_dec l * 256) by lia.
    rewrite Z.div_add by lia. rewrite Z.div_small by lia. lia.
Qed.

Lemma le_dec_enc_small w z : 0 <= z < 256 ^ Z.of_nat w -> le_dec (le_enc w z) = z.
Proof. intros H. rewrite le_dec_enc. apply Z.mod_small. exact H. Qed.

Lemma le_enc_inj w a b : 0 <= a < 256 ^ Z.of_nat w -> 0 <= b < 256 ^ Z.of_nat w ->
  le_enc w a = le_enc w b -> a = b.
Proof.
  intros Ha Hb E. rewrite <- (le_dec_enc_small w a Ha), <- (le_dec_enc_small w b Hb), E. reflexivity.
Qed.

Lemma le_dec_inj a b : length a = length b -> le_dec a = le_dec b -> a = b.
Proof.
  intros L E. rewrite <- (le_enc_dec a), <- (le_enc_dec b), L, E. reflexivity.
Qed.

Lemma zeros_length n : length (zeros n) = n.
Proof. apply repeat_length. Qed.

Lemma pad_length n l : length (pad n l) = n.
Proof.
  unfold pad. rewrite firstn_length, app_length, zeros_length. lia.
Qed.
Lemma pad_exact n l : length l = n -> pad n l = l.
Proof.
  intros H. unfold pad. rewrite <- H. rewrite firstn_app, Nat.sub_diag, firstn_all. simpl.
  apply app_nil_r.
Qed.

Lemma slice_length off len l : (off + len <= length l)%nat -> length (slice off len l) = len.
Proof. intros H. unfold slice. rewrite firstn_length, skipn_length. lia. Qed.

Lemma slice_app_mid (a b c : bytes) : slice (length a) (length b) (a ++ b ++ c) = b.
Proof.
  unfold slice. rewrite skipn_app, skipn_all, Nat.sub_diag. simpl.
  rewrite firstn_app, Nat.sub_diag, firstn_all. simpl. apply app_nil_r.
Qed.

Lemma firstn_app_exact {A} (a b : list A) : firstn (length a) (a ++ b) = a.
Proof. rewrite firstn_app, Nat.sub_diag, firstn_all. simpl. apply app_nil_r. Qed.
Lemma skipn_app_exact {A} (a b : list A) : skipn (length a) (a ++ b) = b.
Proof. rewrite skipn_app, skipn_all, Nat.sub_diag. reflexivity. Qed.
