(* Reachable states: the invariant holds after every operation list, and no operation
   from a reachable state yields Panic.  (Restart is added in ServerRestart_lemmas.v.) *)
From Coq Require Import ZArith List Bool Lia.
From GCA Require Import Wrap Bytes Bytes_lemmas Codec Amap Amap_lemmas Timeslot Server ServerInv ServerInv_lemmas ServerInv2_lemmas.
Import ListNotations.
Open Scope Z_scope.
Set Default Proof Using "Type".
Notation length := List.length.

Section Reach.
  Variable verify : bytes -> bytes -> bytes -> bool.
  Variable sign : bytes -> bytes -> bytes.
  Variable stats_sb : list devstat -> Z -> bytes.

  Local Notation step := (step verify sign stats_sb).
  Local Notation run := (run verify sign stats_sb).

  (* parameters inside the stated domain; restarts are handled separately *)
  Definition op_ok_nr (o : op) : Prop :=
    match o with
    | OpDatagram now _ => clock_ok now
    | OpRotateTick now => clock_ok now
    | OpStats tso => 0 <= tso
    | OpRestart _ _ => False
    | _ => True
    end.

  Lemma step_inv_nr st o : MemInv (mm st) -> op_ok_nr o ->
    MemInv (mm (fst (step st o))) /\ snd (step st o) <> Panic.
  Proof.
    intros I K. destruct o as [now d|k s|a|tso|now|id ts v|fresh now]; cbn [Server.step op_ok_nr] in *.
    - destruct (udp_inv verify st now d I) as [I' Q]. split; [exact I' | rewrite Q; discriminate].
    - exact (register_inv verify st k s I).
    - exact (authorize_inv verify st a I).
    - destruct (stats_query_inv sign stats_sb st tso I K) as [E NP]. rewrite E. split; assumption.
    - destruct (rotate_tick_inv sign stats_sb st now I K) as [I' Q]. split; [exact I' | rewrite Q; discriminate].
    - destruct (impact_inv st id ts v I) as [I' Q]. split; [exact I' | rewrite Q; discriminate].
    - contradiction.
  Qed.

  (* outputs produced along a history *)
  Fixpoint outs (st : state) (ops : list op) : list out :=
    match ops with
    | [] => []
    | o :: ops' => snd (step st o) :: outs (fst (step st o)) ops'
    end.

  Lemma run_cons st o ops : run st (o :: ops) = run (fst (step st o)) ops.
  Proof. reflexivity. Qed.

  Theorem run_inv_nr ops : forall st, MemInv (mm st) -> Forall op_ok_nr ops ->
    MemInv (mm (run st ops)) /\ Forall (fun o => o <> Panic) (outs st ops).
  Proof.
    induction ops as [|o ops IH]; intros st I F.
    - split; [exact I | constructor].
    - inversion F as [|? ? K F']; subst. destruct (step_inv_nr st o I K) as [I' NP].
      destruct (IH _ I' F') as [I'' NPs]. rewrite run_cons. split; [exact I''|].
      cbn [outs]. constructor; assumption.
  Qed.

  (* the very first start, on a directory that holds only the temporary key *)
  Lemma first_start_inv tk fresh now st0 :
    clock_ok now ->
    load verify (fresh_disk tk) fresh = LOk st0 ->
    MemInv (mm st0) /\
    MemInv (mm (fst (catch_up sign stats_sb (catchup_fuel now) st0 now))) /\
    snd (catch_up sign stats_sb (catchup_fuel now) st0 now) = Quiet.
  Proof.
    intros C L. cbn in L. inversion L; subst st0; clear L.
    assert (I0 : MemInv (mm {| mm := {| equipment := []; index := []; bans := []; reports := []; impact := [];
              offset := 0; history := []; gca := zeros 32; gca_avail := false; tempkey := pad 32 tk; skeys := fresh |};
            dd := {| d_keys := Some fresh; d_temp := Some tk; d_gca := None; d_auths := Some []; d_reports := Some []; d_stats := Some [] |} |})).
    { constructor; cbn; try lia; try reflexivity; try discriminate.
      - intros k s H. destruct k; discriminate.
      - intros _. repeat split. }
    split; [exact I0|].
    destruct (catch_up_inv sign stats_sb (catchup_fuel now) _ now I0 C) as (I1 & Q & _); [|split; assumption].
    cbn [mm offset]. unfold catchup_fuel, catchup_bound, week_len, clock_ok in *.
    rewrite Z2Nat.id by (assert (0 <= now / 2016) by (apply Z.div_pos; lia); lia).
    pose proof (Z.mul_div_le now 2016 ltac:(lia)). pose proof (Z.mod_pos_bound now 2016 ltac:(lia)).
    pose proof (Z.div_mod now 2016 ltac:(lia)). lia.
  Qed.
End Reach.
