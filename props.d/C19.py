# C19 -- see DESIGN.md section 5
PROP = {
    "props_v": "Props/C19.v",
    "extra_v": ["RateLimiterRun.v"],
    "suites": [("prod", "limiter")],
    "run_vo": "RateLimiterRun.vo",
    "assumptions": [
        "time: Allow reads time.Now() under its mutex; calls are therefore a sequence with non-decreasing instants (the theorems quantify over all such sequences, all limits and all rates in Z); the harness places sequential calls in the first half of cells of a time grid (tick >= 10 ms, rate = k + 1/2 ticks or 0) and discards and repeats histories whose stamps leave their cell",
        "concurrency: mutual exclusion is sync.Mutex (not modelled); the concurrent runs (1..64 goroutines) are judged by interval arithmetic on caller-side stamps, only certain violations count -- a supporting test, not part of the proof",
    ],
}
TEXT = {
    "text": "Coq theorems over all non-decreasing call sequences, all limits and rates: the limiter's list answers like the filter of all admitted instants (invariant), every half-open window of length rate holds at most limit admitted calls (equivalently limit+1 admitted calls span at least rate), a call is admitted iff fewer than limit were admitted within (now-rate, now]; edge cases limit <= 0 and rate <= 0 stated; the executable model is compared with glow.RateLimiter on time-grid histories (vm_compute), plus a concurrent supporting test judged by an interval-arithmetic oracle.",
    "note": "Trusted: Coq kernel + vm_compute, the harness (time grid, oracle), reading of rate_limiter.go into RateLimiter.v. sync.Mutex and the monotonic clock are assumed, not modelled.",
    "technique": "Coq proof (induction over call sequences, invariant) + differential correspondence on a time grid (vm_compute) + interval-arithmetic oracle for concurrent callers",
}
