package suites

// C15: the wire / disk codecs of the repository against the Gallina reference codecs
// (Codec.v, CodecStats.v, CodecServers.v; evaluated by CodecRun.v).
//
// For every structure the suite records the field values, the bytes produced by the
// REAL encoder and the result of the REAL decoder (also on inputs of the wrong
// length); the Run module checks model encoder = real bytes and model decoder = real
// decoder.  The property oracle (round trip, refusal of wrong lengths, ASCII name
// prefix of signing bytes, known-answer vectors of the documented layout, signing
// bytes never shared, deterministic signing, every single-bit flip rejected by the
// real glow.Verify, JSON transport exact) is evaluated on the implementation alone.
//
// Hostile stream headers (a huge device count on a ccShort input) are decoded in a
// CHILD process (this binary re-executed with VERIF_CODEC_CHILD=stream under
// `ulimit -v`), so that a fatal out-of-memory error kills only the child.

import (
	"bytes"
	"context"
	"encoding/binary"
	"encoding/hex"
	"encoding/json"
	"fmt"
	"math"
	"math/big"
	"os"
	"os/exec"
	"sort"
	"strings"
	"time"

	"github.com/glowlabs-org/gca-backend/client"
	"github.com/glowlabs-org/gca-backend/glow"
	"github.com/glowlabs-org/gca-backend/server"
	"verifharness/core"
)

func init() {
	if os.Getenv("VERIF_CODEC_CHILD") == "stream" {
		codecChild()
		os.Exit(0)
	}
	core.Register("codec", codecSuite)
}

// ---------------------------------------------------------------- child process

func codecChild() {
	b, err := hex.DecodeString(os.Getenv("VERIF_CODEC_INPUT"))
	if err != nil {
		fmt.Println("RES badinput")
		return
	}
	ads, n, err := server.DeserializeStreamAllDeviceStats(b)
	if err != nil {
		fmt.Println("RES err")
		return
	}
	fmt.Printf("RES ok %d %d %d\n", n, ads.TimeslotOffset, len(ads.Devices))
}

var ccChildLimitKB = 2 * 1024 * 1024 // address space of the child: 2 GB (doubled when the runtime cannot start under it)

// ccRunStreamChild decodes b with the real stream decoder in a child process.
// class: "ok" | "err" | "fatal" (the process died or did not answer).
func ccRunStreamChild(b []byte) (class string, consumed int, detail string) {
	ctx, cancel := context.WithTimeout(context.Background(), 60*time.Second)
	defer cancel()
	cmd := exec.CommandContext(ctx, "sh", "-c", fmt.Sprintf("ulimit -v %d; exec \"$0\"", ccChildLimitKB), os.Args[0])
	cmd.Env = append(os.Environ(), "VERIF_CODEC_CHILD=stream", "VERIF_CODEC_INPUT="+hex.EncodeToString(b), "GOTRACEBACK=none")
	out, err := cmd.CombinedOutput()
	s := string(out)
	lines := strings.Split(strings.TrimSpace(s), "\n")
	first := ""
	for _, l := range lines {
		if strings.Contains(l, "out of memory") || strings.HasPrefix(l, "fatal error") || strings.HasPrefix(l, "panic") {
			first += l + " | "
		}
	}
	if err == nil {
		for _, l := range lines {
			if l == "RES err" {
				return "err", 0, ""
			}
			if strings.HasPrefix(l, "RES ok ") {
				fmt.Sscanf(l, "RES ok %d", &consumed)
				return "ok", consumed, ""
			}
		}
	}
	if first == "" {
		first = fmt.Sprintf("child failed: %v %.200s", err, s)
	}
	return "fatal", 0, first
}

// ---------------------------------------------------------------- generators

var ccU32Boundary = []uint32{0, 1, 2, 255, 256, 0x7fffffff, 0x80000000, 0xfffffffe, 0xffffffff, 0x04030201}
var ccU64Boundary = []uint64{0, 1, 23, 24, 255, 256, 1<<32 - 1, 1 << 32, 1<<63 - 1, 1 << 63, 1<<64 - 2, 1<<64 - 1, 0x0807060504030201}
var ccU16Boundary = []uint16{0, 1, 255, 256, 0x7fff, 0x8000, 0xffff, 0x0201}

// NaN-free float64 bit patterns: zeros, subnormals, normals, 17-digit values, infinities
var ccF64Boundary = []uint64{
	0, 0x8000000000000000, 1, 0x8000000000000001, 0x000fffffffffffff, 0x0010000000000000,
	0x3ff0000000000000, 0xbff0000000000000, 0x7fefffffffffffff, 0xffefffffffffffff,
	0x7ff0000000000000, 0xfff0000000000000,
	math.Float64bits(0.1 + 0.2), math.Float64bits(37.421998333333335), math.Float64bits(-122.08405833333334),
	math.Float64bits(1.7976931348623157e308), math.Float64bits(5e-324), math.Float64bits(2.2250738585072014e-308),
	math.Float64bits(-89.99999999999999), math.Float64bits(179.99999999999997),
}

func ccGenU32(r *core.RNG) uint32 {
	if r.Chance(40) {
		return ccU32Boundary[r.Intn(len(ccU32Boundary))]
	}
	return uint32(r.U64())
}
func ccGenU64(r *core.RNG) uint64 {
	if r.Chance(40) {
		return ccU64Boundary[r.Intn(len(ccU64Boundary))]
	}
	return r.U64()
}
func ccGenU16(r *core.RNG) uint16 {
	if r.Chance(40) {
		return ccU16Boundary[r.Intn(len(ccU16Boundary))]
	}
	return uint16(r.U64())
}
func ccIsNaNBits(u uint64) bool {
	return u&0x7ff0000000000000 == 0x7ff0000000000000 && u&0x000fffffffffffff != 0
}
func ccGenF64(r *core.RNG, finite bool) uint64 {
	for {
		var u uint64
		if r.Chance(50) {
			u = ccF64Boundary[r.Intn(len(ccF64Boundary))]
		} else {
			u = r.U64()
		}
		if ccIsNaNBits(u) {
			continue
		}
		if finite && u&0x7ff0000000000000 == 0x7ff0000000000000 {
			continue
		}
		return u
	}
}
func ccGenBytes(r *core.RNG, n int) []byte {
	switch r.Intn(8) {
	case 0:
		return make([]byte, n)
	case 1:
		return bytes.Repeat([]byte{0xff}, n)
	}
	return r.Bytes(n)
}
func ccGenLoc(r *core.RNG, n int) string {
	b := make([]byte, n)
	if n > 64 { // long locations: a repeated 8-byte word with a few changed bytes (the cases file stays small)
		w := ccGenLoc(r, 8)
		for i := range b {
			b[i] = w[i%8]
		}
		for j := 0; j < 4; j++ {
			b[r.Intn(n)] = byte(r.U64())
		}
		b[0], b[n-1] = byte(r.U64()), byte(r.U64())
		return string(b)
	}
	for i := range b {
		if r.Chance(90) {
			b[i] = byte('a' + r.Intn(26))
		} else {
			b[i] = byte(r.U64()) // Go strings are arbitrary bytes
		}
	}
	return string(b)
}

// ---------------------------------------------------------------- Gallina literals

func ccGReport(er glow.EquipmentReport) string {
	return fmt.Sprintf("(Build_report %d %d %d %s)", er.ShortID, er.Timeslot, er.PowerOutput, ccHexLit(er.Signature[:]))
}
func ccGAuth(ea glow.EquipmentAuthorization) string {
	return fmt.Sprintf("(Build_auth %d %s %d %d %d %d %d %d %d %s)",
		ea.ShortID, ccHexLit(ea.PublicKey[:]), math.Float64bits(ea.Latitude), math.Float64bits(ea.Longitude), ea.Capacity, ea.Debt, ea.Expiration, ea.Initialization, ea.ProtocolFee, ccHexLit(ea.Signature[:]))
}
func ccGAServer(as server.AuthorizedServer) string {
	return core.Tuple(ccHexLit(as.PublicKey[:]), core.Bool(as.Banned), ccHexLit([]byte(as.Location)), core.ZU(uint64(as.HttpPort)), core.ZU(uint64(as.TcpPort)), core.ZU(uint64(as.UdpPort)), ccHexLit(as.GCAAuthorization[:]))
}
func ccGEntry(k glow.PublicKey, s client.GCAServer) string {
	return core.Tuple(ccHexLit(k[:]), core.Bool(s.Banned), ccHexLit([]byte(s.Location)), core.ZU(uint64(s.HttpPort)), core.ZU(uint64(s.TcpPort)), core.ZU(uint64(s.UdpPort)))
}

type ccSparse struct {
	def uint64
	idx []int
	val []uint64
}

func (s ccSparse) expand() (out [2016]uint64) {
	for i := range out {
		out[i] = s.def
	}
	// the FIRST override of an index wins in the model's sparse_get
	seen := map[int]bool{}
	for k, i := range s.idx {
		if !seen[i] {
			out[i] = s.val[k]
			seen[i] = true
		}
	}
	return
}
func (s ccSparse) gallina() string {
	items := []string{}
	for k, i := range s.idx {
		items = append(items, core.Pair(core.Z(int64(i)), core.ZU(s.val[k])))
	}
	return core.Pair(core.ZU(s.def), core.List(items))
}

type ccCdev struct {
	key      glow.PublicKey
	pow, imp ccSparse
}

func ccGenSparse(r *core.RNG, float bool) ccSparse {
	g := func() uint64 {
		if float {
			return ccGenF64(r, false)
		}
		return ccGenU64(r)
	}
	s := ccSparse{def: g()}
	n := r.Intn(7)
	cand := []int{0, 1, 2014, 2015, 1007, 1008}
	for i := 0; i < n; i++ {
		ix := cand[r.Intn(len(cand))]
		if r.Chance(50) {
			ix = r.Intn(2016)
		}
		s.idx = append(s.idx, ix)
		s.val = append(s.val, g())
	}
	return s
}
func (d ccCdev) real() server.DeviceStats {
	var ds server.DeviceStats
	ds.PublicKey = d.key
	ds.PowerOutputs = d.pow.expand()
	im := d.imp.expand()
	for i := range im {
		ds.ImpactRates[i] = math.Float64frombits(im[i])
	}
	return ds
}
func (d ccCdev) gallina() string {
	return core.Tuple(ccHexLit(d.key[:]), d.pow.gallina(), d.imp.gallina())
}

// position-weighted checksum, as CodecRun.wsum
func ccWsum(xs []uint64) uint64 {
	var acc uint64
	for i, x := range xs {
		acc += uint64(i+1) * x
	}
	return acc
}
func ccObsOfStats(ads server.AllDeviceStats, consumed int) string {
	ds := []string{}
	for _, d := range ads.Devices {
		im := make([]uint64, 2016)
		for i := range im {
			im[i] = math.Float64bits(d.ImpactRates[i])
		}
		ds = append(ds, core.Tuple(ccHexLit(d.PublicKey[:]), core.ZU(ccWsum(d.PowerOutputs[:])), core.ZU(ccWsum(im))))
	}
	return fmt.Sprintf("(OOk %d %d %s %s)", consumed, ads.TimeslotOffset, ccHexLit(ads.Signature[:]), core.List(ds))
}

// ---------------------------------------------------------------- the suite

type codecRun struct {
	res    *core.Result
	rng    *core.RNG
	tier   string
	outDir string
	items  []string          // cases of the current file
	base   string            // name stem of the current cases file (auto-sharding in add)
	size   int               // bytes of the current file
	files  int               // cases files written
	sbSeen map[string]string // signing bytes -> "type|canonical signed fields"
}

func (c *codecRun) add(class string, desc map[string]interface{}, canon string, nontrivial bool, item string) {
	c.res.Count(class)
	desc["class"] = class
	desc["idx"] = len(c.items)
	c.res.Case(desc, class+canon, nontrivial)
	c.items = append(c.items, item)
	c.size += len(item)
	if c.size > 300000 && c.base != "" { // keep every cases file well under 1 MB
		if err := c.flush(fmt.Sprintf("%s_%d", c.base, c.files)); err != nil {
			panic(err)
		}
	}
}

func (c *codecRun) flush(name string) error {
	if len(c.items) == 0 {
		return nil
	}
	err := c.res.CasesFile(c.outDir, name, "From Coq Require Import ZArith List String.\nFrom GCA Require Import Bytes Codec CodecStats CodecServers RunLib CodecRun.", "ccase", c.items, "codec_mismatches")
	c.items = nil
	c.size = 0
	c.files++
	return err
}

// ccHexLit renders bytes for the model (CodecRun.v): ccShort strings as (hb ".."), long
// ones run-length encoded as (rl [L ".."; R n ".."; ..]) where R n h is the 8-byte
// word h repeated n times.  Coq needs ~50 us per literal byte, so 32 KB device records
// must not be written out in full.
func ccHexLit(b []byte) string {
	if len(b) <= 96 {
		return `(hb "` + hex.EncodeToString(b) + `")`
	}
	type seg struct {
		n int // 0: literal
		b []byte
	}
	segs := []seg{}
	lit := []byte{}
	flushLit := func() {
		for len(lit) > 0 {
			k := len(lit)
			if k > 1024 {
				k = 1024
			}
			segs = append(segs, seg{0, lit[:k]})
			lit = lit[k:]
		}
		lit = []byte{}
	}
	for i := 0; i < len(b); {
		k := 0
		if i+8 <= len(b) {
			k = 1
			for i+8*(k+1) <= len(b) && bytes.Equal(b[i+8*k:i+8*k+8], b[i:i+8]) {
				k++
			}
		}
		if k >= 4 {
			flushLit()
			segs = append(segs, seg{k, b[i : i+8]})
			i += 8 * k
		} else {
			lit = append(lit, b[i])
			i++
		}
	}
	flushLit()
	parts := []string{}
	var back []byte
	for _, s := range segs {
		if s.n == 0 {
			parts = append(parts, `L "`+hex.EncodeToString(s.b)+`"`)
			back = append(back, s.b...)
		} else {
			parts = append(parts, fmt.Sprintf(`R %d "%s"`, s.n, hex.EncodeToString(s.b)))
			back = append(back, bytes.Repeat(s.b, s.n)...)
		}
	}
	if !bytes.Equal(back, b) {
		panic("ccHexLit: run-length encoding does not reproduce the input")
	}
	return "(rl [" + strings.Join(parts, "; ") + "])"
}

func ccShort(b []byte) string {
	if len(b) > 96 {
		return hex.EncodeToString(b[:96]) + fmt.Sprintf("...(%d bytes)", len(b))
	}
	return hex.EncodeToString(b)
}

// signing bytes of two different (type, signed fields) must never coincide; the
// structure's name must be the ASCII prefix
func (c *codecRun) noteSigning(typ, prefix string, sb []byte, signedFields string) {
	if !bytes.HasPrefix(sb, []byte(prefix)) {
		c.res.Fail("signing bytes of "+typ+" do not start with the structure's name", "signing-prefix:"+typ, map[string]interface{}{"type": typ, "signing_bytes": ccShort(sb), "expected_prefix": prefix})
	}
	id := typ + "|" + signedFields
	if prev, ok := c.sbSeen[string(sb)]; ok && prev != id {
		c.res.Fail("two different signed values share their signing bytes", "signing-shared:"+typ, map[string]interface{}{"a": prev, "b": id, "signing_bytes": ccShort(sb)})
	}
	c.sbSeen[string(sb)] = id
}

func ccSeqBytes(from, n int) []byte {
	b := make([]byte, n)
	for i := range b {
		b[i] = byte(from + i)
	}
	return b
}

func codecSuite(seed uint64, tier, outDir string) (*core.Result, error) {
	res := core.NewResult("codec", seed, tier)
	c := &codecRun{res: res, rng: core.NewRNG(seed), tier: tier, outDir: outDir, sbSeen: map[string]string{}}
	scale := 1
	if tier == "thorough" {
		scale = 20
	}
	// a panic of the real codec on one of these inputs is a finding, not a crash of the harness
	phase := func(name string, f func()) {
		defer func() {
			if r := recover(); r != nil {
				res.Fail(fmt.Sprintf("the real codec panicked in phase %s: %v", name, r), "codec-panic:"+name, map[string]interface{}{"phase": name, "panic": fmt.Sprint(r)})
			}
		}()
		f()
	}
	c.base = "cases_codec_fixed"
	phase("known-answer vectors", c.golden)
	phase("report", func() { c.reports(40 * scale) })
	phase("authorization", func() { c.auths(30 * scale) })
	phase("registration", func() { c.registrations(10 * scale) })
	phase("authorized server", func() { c.aservers(20 * scale); c.aserverDistinct() })
	phase("migration", func() { c.migrations(8 * scale) })
	if err := c.flush(fmt.Sprintf("cases_codec_fixed_%d", c.files)); err != nil {
		return nil, err
	}
	c.base = ""
	if err := c.serverMaps(scale); err != nil {
		return nil, err
	}
	if err := c.stats(scale); err != nil {
		return nil, err
	}
	phase("signatures", func() { c.crypto(scale) })
	if err := c.authEndpoint(); err != nil {
		return nil, err
	}
	res.Required = append(res.Required,
		"report.enc", "report.dec.len80", "report.dec.wrong-length", "auth.enc", "auth.dec.len148", "auth.dec.wrong-length", "auth.json",
		"reg.signing", "aserver.enc.loc<=255", "aserver.enc.loc>255", "aserver.distinct-locations", "migration.enc", "smap.enc", "smap.enc.too-long", "smap.dec.ok", "smap.dec.refused",
		"smap.loc=0", "smap.loc=1", "smap.loc=255", "smap.loc=256", "smap.loc=65535",
		"stats.enc", "stats.negative-zero", "stream.records=0", "stream.records=1", "stream.records=2", "stream.records=3", "stream.cut.refused", "stream.cut.ok", "stream.hostile-count",
		"golden", "sign.deterministic", "flip.message", "flip.signature", "flip.malleated-twin", "flip.key")
	res.Rule = "field values from boundary tables (0, 1, max, sign bit, subnormal/-0/inf float bit patterns, no NaN) mixed with random; inputs of length K-2..K+2; streams of 0..3 weekly records with 0..2 devices cut at every structural boundary +-1; server maps with 0..k entries and location lengths 0,1,255,256,65535; single-bit flips of message/signature/key against the real glow.Verify; a case is non-trivial when the real codec accepted it, distinct by (class, canonical value)"
	return res, nil
}

// ---------------------------------------------------------------- known-answer vectors

// Values whose documented encoding is the byte sequence 01 02 03 ...: little-endian
// fixed-width fields in declaration order, signing bytes = ASCII name ++ fields.
func (c *codecRun) golden() {
	check := func(name string, got, want []byte) {
		c.res.Count("golden")
		c.res.Evaluations++
		if !bytes.Equal(got, want) {
			c.res.Fail("encoding differs from the documented layout: "+name, "golden:"+name, map[string]interface{}{"structure": name, "got": ccShort(got), "documented": ccShort(want)})
		}
	}
	le32 := func(b []byte) uint32 { return binary.LittleEndian.Uint32(b) }
	le64 := func(b []byte) uint64 { return binary.LittleEndian.Uint64(b) }
	le16 := func(b []byte) uint16 { return binary.LittleEndian.Uint16(b) }

	// report: 80 bytes 01..50
	w := ccSeqBytes(1, 80)
	var er glow.EquipmentReport
	er.ShortID, er.Timeslot, er.PowerOutput = le32(w[0:]), le32(w[4:]), le64(w[8:])
	copy(er.Signature[:], w[16:])
	check("EquipmentReport.Serialize", er.Serialize(), w)
	check("EquipmentReport.SigningBytes", er.SigningBytes(), append([]byte("EquipmentReport"), w[:16]...))
	if d, err := glow.DeserializeReport(w); err != nil || d != er {
		c.res.Fail("decoding of the documented layout differs: EquipmentReport", "golden:DeserializeReport", map[string]interface{}{"input": ccShort(w)})
	}

	// authorization: 148 bytes 01..94
	w = ccSeqBytes(1, 148)
	var ea glow.EquipmentAuthorization
	ea.ShortID = le32(w[0:])
	copy(ea.PublicKey[:], w[4:36])
	ea.Latitude, ea.Longitude = math.Float64frombits(le64(w[36:])), math.Float64frombits(le64(w[44:]))
	ea.Capacity, ea.Debt, ea.Expiration, ea.Initialization, ea.ProtocolFee = le64(w[52:]), le64(w[60:]), le32(w[68:]), le32(w[72:]), le64(w[76:])
	copy(ea.Signature[:], w[84:])
	check("EquipmentAuthorization.Serialize", ea.Serialize(), w)
	check("EquipmentAuthorization.SigningBytes", ea.SigningBytes(), append([]byte("EquipmentAuthorization"), w[:84]...))
	if d, err := glow.DeserializeEquipmentAuthorization(w); err != nil || !bytes.Equal(d.Serialize(), w) || d.ShortID != ea.ShortID || d.ProtocolFee != ea.ProtocolFee || d.PublicKey != ea.PublicKey {
		c.res.Fail("decoding of the documented layout differs: EquipmentAuthorization", "golden:DeserializeEquipmentAuthorization", map[string]interface{}{"input": ccShort(w)})
	}

	// registration
	var gr server.GCARegistration
	copy(gr.GCAKey[:], ccSeqBytes(1, 32))
	check("GCARegistration.SigningBytes", gr.SigningBytes(), append([]byte("GCARegistration"), ccSeqBytes(1, 32)...))

	// authorized server: key 01..20, banned 01, len 02, "#$" (23 24), ports 25..2a, sig 2b..6a
	w = ccSeqBytes(1, 106)
	w[32], w[33] = 1, 2
	var as server.AuthorizedServer
	copy(as.PublicKey[:], w[0:32])
	as.Banned, as.Location = true, string(w[34:36])
	as.HttpPort, as.TcpPort, as.UdpPort = le16(w[36:]), le16(w[38:]), le16(w[40:])
	copy(as.GCAAuthorization[:], w[42:])
	check("AuthorizedServer.Serialize", as.Serialize(), w)
	check("AuthorizedServer.SigningBytes", as.SigningBytes(), append([]byte("AuthorizedServer"), w[:42]...))

	// migration: equipment, new GCA, new id, one server (as above), signature
	h := ccSeqBytes(0x81, 68)
	var em server.EquipmentMigration
	copy(em.Equipment[:], h[0:32])
	copy(em.NewGCA[:], h[32:64])
	em.NewShortID = le32(h[64:])
	em.NewServers = []server.AuthorizedServer{as}
	sg := ccSeqBytes(0xc1, 64)
	copy(em.Signature[:], sg)
	body := append(append([]byte{}, h...), w...)
	check("EquipmentMigration.Serialize", em.Serialize(), append(append([]byte{}, body...), sg...))
	check("EquipmentMigration.SigningBytes", em.SigningBytes(), append([]byte("EquipmentMigration"), body...))

	// weekly statistics without devices: count(4) tso(4) signature(64)
	var ads server.AllDeviceStats
	ads.TimeslotOffset = 0x08070605
	copy(ads.Signature[:], ccSeqBytes(9, 64))
	w = append([]byte{0, 0, 0, 0}, ccSeqBytes(5, 68)...)
	check("AllDeviceStats.Serialize", ads.Serialize(), w)
	check("AllDeviceStats.SigningBytes", ads.SigningBytes(), append([]byte("AllDeviceStats"), w[:8]...))
	// one device: count 1, key, power 2016 x u64, impact 2016 x float bits, tso
	var ds server.DeviceStats
	copy(ds.PublicKey[:], ccSeqBytes(1, 32))
	dw := append([]byte{1, 0, 0, 0}, ccSeqBytes(1, 32)...)
	for i := 0; i < 2016; i++ {
		ds.PowerOutputs[i] = uint64(i) + 0x0807060504030200
		dw = binary.LittleEndian.AppendUint64(dw, ds.PowerOutputs[i])
	}
	for i := 0; i < 2016; i++ {
		bits := uint64(i) + 0x400921fb54442d18
		ds.ImpactRates[i] = math.Float64frombits(bits)
		dw = binary.LittleEndian.AppendUint64(dw, bits)
	}
	ads.Devices = []server.DeviceStats{ds}
	dw = append(dw, ccSeqBytes(5, 68)...)
	check("AllDeviceStats.Serialize/1", ads.Serialize(), dw)
	check("AllDeviceStats.SigningBytes/1", ads.SigningBytes(), append([]byte("AllDeviceStats"), dw[:len(dw)-64]...))

	// client server map, one entry: key, banned 01, len 02 00, "#$"..., ports
	w = ccSeqBytes(1, 43)
	w[32], w[33], w[34] = 1, 2, 0
	var k glow.PublicKey
	copy(k[:], w[0:32])
	m := map[glow.PublicKey]client.GCAServer{k: {Banned: true, Location: string(w[35:37]), HttpPort: le16(w[37:]), TcpPort: le16(w[39:]), UdpPort: le16(w[41:])}}
	got, err := client.SerializeGCAServerMap(m)
	if err != nil {
		got = nil
	}
	check("SerializeGCAServerMap", got, w)
}

// ---------------------------------------------------------------- report

func (c *codecRun) reports(n int) {
	r := c.rng.Fork()
	for i := 0; i < n; i++ {
		var er glow.EquipmentReport
		er.ShortID, er.Timeslot, er.PowerOutput = ccGenU32(r), ccGenU32(r), ccGenU64(r)
		copy(er.Signature[:], ccGenBytes(r, 64))
		if i == 0 {
			er = glow.EquipmentReport{}
		}
		if i == 1 {
			er.ShortID, er.Timeslot, er.PowerOutput = 0xffffffff, 0xffffffff, 1<<64-1
		}
		ser, sb := er.Serialize(), er.SigningBytes()
		c.add("report.enc", map[string]interface{}{"report": fmt.Sprintf("%d/%d/%d", er.ShortID, er.Timeslot, er.PowerOutput)}, hex.EncodeToString(ser), true,
			fmt.Sprintf("CReport %s %s %s", ccGReport(er), ccHexLit(ser), ccHexLit(sb)))
		c.noteSigning("EquipmentReport", "EquipmentReport", sb, fmt.Sprintf("%d/%d/%d", er.ShortID, er.Timeslot, er.PowerOutput))
		if d, err := glow.DeserializeReport(ser); err != nil || d != er {
			c.res.Fail("report does not decode back to the encoded value", "report-roundtrip", map[string]interface{}{"report": ccGReport(er), "bytes": ccShort(ser)})
		}
		// decoder on lengths 78..82 (real encoding truncated / extended, or random bytes)
		for L := 78; L <= 82; L++ {
			if i >= 12 && L != 80 && !r.Chance(15) {
				continue
			}
			in := append(append([]byte{}, ser...), r.Bytes(2)...)[:L]
			if r.Chance(30) {
				in = r.Bytes(L)
			}
			d, err := glow.DeserializeReport(in)
			obs, class := "None", "report.dec.wrong-length"
			if err == nil {
				obs = core.Some(ccGReport(d))
			}
			if L == 80 {
				class = "report.dec.len80"
				if err != nil {
					c.res.Fail("80-byte input refused by DeserializeReport", "report-len80-refused", map[string]interface{}{"input": ccShort(in)})
				} else if !bytes.Equal(d.Serialize(), in) {
					c.res.Fail("decoded report does not encode back to the input", "report-dec-enc", map[string]interface{}{"input": ccShort(in)})
				}
			} else if err == nil {
				c.res.Fail("input of the wrong length accepted by DeserializeReport", "report-wrong-length-accepted", map[string]interface{}{"input": ccShort(in), "length": L})
			}
			c.add(class, map[string]interface{}{"len": L}, hex.EncodeToString(in), err == nil, fmt.Sprintf("CReportDec %s %s", ccHexLit(in), obs))
		}
	}
}

// ---------------------------------------------------------------- authorization

func ccGenAuth(r *core.RNG, finite bool) glow.EquipmentAuthorization {
	var ea glow.EquipmentAuthorization
	ea.ShortID = ccGenU32(r)
	copy(ea.PublicKey[:], ccGenBytes(r, 32))
	ea.Latitude, ea.Longitude = math.Float64frombits(ccGenF64(r, finite)), math.Float64frombits(ccGenF64(r, finite))
	ea.Capacity, ea.Debt, ea.Expiration, ea.Initialization, ea.ProtocolFee = ccGenU64(r), ccGenU64(r), ccGenU32(r), ccGenU32(r), ccGenU64(r)
	copy(ea.Signature[:], ccGenBytes(r, 64))
	return ea
}

func (c *codecRun) auths(n int) {
	r := c.rng.Fork()
	for i := 0; i < n; i++ {
		ea := ccGenAuth(r, false)
		if i < len(ccF64Boundary) { // every boundary float at least once, in both positions
			ea.Latitude = math.Float64frombits(ccF64Boundary[i])
			ea.Longitude = math.Float64frombits(ccF64Boundary[len(ccF64Boundary)-1-i])
		}
		ser, sb := ea.Serialize(), ea.SigningBytes()
		c.add("auth.enc", map[string]interface{}{"auth": ea.ShortID}, hex.EncodeToString(ser), true,
			fmt.Sprintf("CAuth %s %s %s", ccGAuth(ea), ccHexLit(ser), ccHexLit(sb)))
		c.noteSigning("EquipmentAuthorization", "EquipmentAuthorization", sb, hex.EncodeToString(ser[:84]))
		if d, err := glow.DeserializeEquipmentAuthorization(ser); err != nil || !bytes.Equal(d.Serialize(), ser) || ccGAuth(d) != ccGAuth(ea) {
			c.res.Fail("authorization does not decode back to the encoded value", "auth-roundtrip", map[string]interface{}{"auth": ccGAuth(ea), "bytes": ccShort(ser)})
		}
		for L := 146; L <= 150; L++ {
			if i >= 10 && L != 148 && !r.Chance(15) {
				continue
			}
			in := append(append([]byte{}, ser...), r.Bytes(2)...)[:L]
			if r.Chance(30) {
				in = r.Bytes(L)
				if L >= 52 { // keep the floats NaN-free
					binary.LittleEndian.PutUint64(in[36:], ccGenF64(r, false))
					binary.LittleEndian.PutUint64(in[44:], ccGenF64(r, false))
				}
			}
			d, err := glow.DeserializeEquipmentAuthorization(in)
			obs, class := "None", "auth.dec.wrong-length"
			if err == nil {
				obs = core.Some(ccGAuth(d))
			}
			if L == 148 {
				class = "auth.dec.len148"
				if err != nil {
					c.res.Fail("148-byte input refused by DeserializeEquipmentAuthorization", "auth-len148-refused", map[string]interface{}{"input": ccShort(in)})
				} else if !bytes.Equal(d.Serialize(), in) {
					c.res.Fail("decoded authorization does not encode back to the input", "auth-dec-enc", map[string]interface{}{"input": ccShort(in)})
				}
			} else if err == nil {
				c.res.Fail("input of the wrong length accepted by DeserializeEquipmentAuthorization", "auth-wrong-length-accepted", map[string]interface{}{"input": ccShort(in), "length": L})
			}
			c.add(class, map[string]interface{}{"len": L}, hex.EncodeToString(in), err == nil, fmt.Sprintf("CAuthDec %s %s", ccHexLit(in), obs))
		}
		// JSON transport (encoding/json, as the HTTP API does); finite floats only
		ej := ccGenAuth(r, true)
		if i < len(ccF64Boundary) && ccF64Boundary[i]&0x7ff0000000000000 != 0x7ff0000000000000 {
			ej.Latitude = math.Float64frombits(ccF64Boundary[i])
		}
		c.res.Count("auth.json")
		c.res.Evaluations++
		js, err := json.Marshal(ej)
		var back glow.EquipmentAuthorization
		if err == nil {
			err = json.Unmarshal(js, &back)
		}
		if err != nil || !bytes.Equal(back.Serialize(), ej.Serialize()) {
			c.res.Fail("JSON transport of an authorization does not preserve it exactly", "auth-json", map[string]interface{}{"auth": ccGAuth(ej), "json": string(js), "error": fmt.Sprint(err)})
		}
	}
}

// ---------------------------------------------------------------- registration

func (c *codecRun) registrations(n int) {
	r := c.rng.Fork()
	for i := 0; i < n; i++ {
		var gr server.GCARegistration
		copy(gr.GCAKey[:], ccGenBytes(r, 32))
		copy(gr.Signature[:], ccGenBytes(r, 64))
		sb := gr.SigningBytes()
		c.add("reg.signing", map[string]interface{}{"key": hex.EncodeToString(gr.GCAKey[:])}, hex.EncodeToString(sb), true,
			fmt.Sprintf("CReg %s %s", ccHexLit(gr.GCAKey[:]), ccHexLit(sb)))
		c.noteSigning("GCARegistration", "GCARegistration", sb, hex.EncodeToString(gr.GCAKey[:]))
	}
}

// ---------------------------------------------------------------- authorized server, migration

var ccAserverLocLens = []int{0, 1, 2, 17, 254, 255, 256, 257, 300, 511, 512}

func ccGenAServer(r *core.RNG, maxLoc int) server.AuthorizedServer {
	var as server.AuthorizedServer
	copy(as.PublicKey[:], ccGenBytes(r, 32))
	as.Banned = r.Bool()
	L := ccAserverLocLens[r.Intn(len(ccAserverLocLens))]
	if L > maxLoc {
		L = r.Intn(maxLoc + 1)
	}
	as.Location = ccGenLoc(r, L)
	as.HttpPort, as.TcpPort, as.UdpPort = ccGenU16(r), ccGenU16(r), ccGenU16(r)
	copy(as.GCAAuthorization[:], ccGenBytes(r, 64))
	return as
}

func (c *codecRun) aservers(n int) {
	r := c.rng.Fork()
	for i := 0; i < n; i++ {
		as := ccGenAServer(r, 600)
		if i < len(ccAserverLocLens) {
			as.Location = ccGenLoc(r, ccAserverLocLens[i])
		}
		ser, sb := as.Serialize(), as.SigningBytes()
		class := "aserver.enc.loc<=255"
		if len(as.Location) > 255 {
			class = "aserver.enc.loc>255" // outside the stated domain: compared with the model only
		} else {
			c.noteSigning("AuthorizedServer", "AuthorizedServer", sb, hex.EncodeToString(ser[:len(ser)-64]))
		}
		c.add(class, map[string]interface{}{"loc_len": len(as.Location)}, hex.EncodeToString(ser), true,
			fmt.Sprintf("CAServer %s %s %s", ccGAServer(as), ccHexLit(ser), ccHexLit(sb)))
	}
}

// aserverDistinct: "distinct values never share signing bytes" for authorized servers whose locations agree
// on a long prefix -- the first 255 bytes, the first 256, all but the last byte -- and differ behind it
// (every byte of the location is signed, whatever its length), and for the serialized form
func (c *codecRun) aserverDistinct() {
	r := c.rng.Fork()
	for _, L := range []int{254, 255, 256, 300, 511, 600} {
		a := ccGenAServer(r, 10)
		base := strings.Repeat("k", L)
		b := a
		a.Location, b.Location = base+"a", base+"b"
		c.res.Count("aserver.distinct-locations")
		c.res.Case(map[string]interface{}{"class": "aserver.distinct-locations", "common_prefix": L}, fmt.Sprint("asd", L), true)
		if bytes.Equal(a.SigningBytes(), b.SigningBytes()) {
			c.res.Fail(fmt.Sprintf("two authorized servers whose locations differ only behind byte %d share their signing bytes: a GCA signature for one verifies for the other", L), "aserver-signing-collision", map[string]interface{}{"common_prefix": L})
		}
		if bytes.Equal(a.Serialize(), b.Serialize()) {
			c.res.Fail(fmt.Sprintf("two authorized servers whose locations differ only behind byte %d serialize to the same bytes", L), "aserver-serialize-collision", map[string]interface{}{"common_prefix": L})
		}
	}
}

func (c *codecRun) migrations(n int) {
	r := c.rng.Fork()
	for i := 0; i < n; i++ {
		var em server.EquipmentMigration
		copy(em.Equipment[:], ccGenBytes(r, 32))
		copy(em.NewGCA[:], ccGenBytes(r, 32))
		em.NewShortID = ccGenU32(r)
		k := i % 4
		srv := []string{}
		for j := 0; j < k; j++ {
			as := ccGenAServer(r, 255)
			em.NewServers = append(em.NewServers, as)
			srv = append(srv, ccGAServer(as))
		}
		copy(em.Signature[:], ccGenBytes(r, 64))
		ser, sb := em.Serialize(), em.SigningBytes()
		c.add("migration.enc", map[string]interface{}{"servers": k}, hex.EncodeToString(ser), true,
			fmt.Sprintf("CMigration %s %s %d %s %s %s %s", ccHexLit(em.Equipment[:]), ccHexLit(em.NewGCA[:]), em.NewShortID, core.List(srv), ccHexLit(em.Signature[:]), ccHexLit(ser), ccHexLit(sb)))
		c.noteSigning("EquipmentMigration", "EquipmentMigration", sb, hex.EncodeToString(ser[:len(ser)-64]))
	}
}

// ---------------------------------------------------------------- client server map

func ccSortedEntries(m map[glow.PublicKey]client.GCAServer) []string {
	ks := []string{}
	for k := range m {
		ks = append(ks, string(k[:]))
	}
	sort.Strings(ks)
	out := []string{}
	for _, s := range ks {
		var k glow.PublicKey
		copy(k[:], s)
		out = append(out, ccGEntry(k, m[k]))
	}
	return out
}

func ccMapsEqual(a, b map[glow.PublicKey]client.GCAServer) bool {
	if len(a) != len(b) {
		return false
	}
	for k, v := range a {
		if w, ok := b[k]; !ok || w != v {
			return false
		}
	}
	return true
}

func (c *codecRun) smapDec(in []byte, mustOK, mustFail bool, what string) {
	m, err := client.UntrustedDeserializeGCAServerMap(in)
	obs, class := "None", "smap.dec.refused"
	if err == nil {
		obs, class = core.Some(core.List(ccSortedEntries(m))), "smap.dec.ok"
	}
	if mustOK && err != nil {
		c.res.Fail("encoded server map refused by the decoder", "smap-refused", map[string]interface{}{"input": ccShort(in), "what": what})
	}
	if mustFail && err == nil {
		c.res.Fail("truncated / over-long server map accepted by the decoder", "smap-wrong-length-accepted", map[string]interface{}{"input": ccShort(in), "what": what})
	}
	c.add(class, map[string]interface{}{"len": len(in), "what": what}, hex.EncodeToString(in), err == nil, fmt.Sprintf("CSMapDec %s %s", ccHexLit(in), obs))
}

func (c *codecRun) serverMaps(scale int) error {
	r := c.rng.Fork()
	plans := [][]int{{}, {0}, {1}, {255}, {256}, {65535}, {65536}, {0, 1, 255}, {256, 3, 0, 40}, {65535, 3}, {5, 65536, 7}}
	for i := 0; i < 6*scale; i++ {
		k := r.Intn(6)
		p := []int{}
		for j := 0; j < k; j++ {
			p = append(p, []int{0, 1, 2, 9, 30, 255, 256, 1000}[r.Intn(8)])
		}
		plans = append(plans, p)
	}
	for pi, p := range plans {
		m := map[glow.PublicKey]client.GCAServer{}
		size := map[glow.PublicKey]int{}
		tooLong := false
		maxLoc := 0
		for _, L := range p {
			var k glow.PublicKey
			copy(k[:], r.Bytes(32))
			m[k] = client.GCAServer{Banned: r.Bool(), Location: ccGenLoc(r, L), HttpPort: ccGenU16(r), TcpPort: ccGenU16(r), UdpPort: ccGenU16(r)}
			size[k] = 41 + L
			tooLong = tooLong || L > 65535
			if L > maxLoc {
				maxLoc = L
			}
			for _, b := range []int{0, 1, 255, 256, 65535} {
				if L == b {
					c.res.Count(fmt.Sprintf("smap.loc=%d", b))
				}
			}
		}
		enc, err := client.SerializeGCAServerMap(m)
		if err != nil {
			if !tooLong {
				c.res.Fail("server map with locations of at most 65535 bytes refused by the encoder", "smap-enc-refused", map[string]interface{}{"locations": p})
			}
			c.add("smap.enc.too-long", map[string]interface{}{"locations": p}, fmt.Sprint(p, pi), false, fmt.Sprintf("CSMapEnc %s None", core.List(ccSortedEntries(m))))
			continue
		}
		// the order in which the map iteration wrote the entries
		order := []string{}
		pos := 0
		okOrder := true
		for pos < len(enc) {
			var k glow.PublicKey
			if pos+32 > len(enc) {
				okOrder = false
				break
			}
			copy(k[:], enc[pos:pos+32])
			s, ok := size[k]
			if !ok {
				okOrder = false
				break
			}
			order = append(order, ccGEntry(k, m[k]))
			pos += s
		}
		if !okOrder || pos != len(enc) || len(order) != len(m) {
			c.res.Fail("encoded server map is not the concatenation of its entries", "smap-enc-shape", map[string]interface{}{"locations": p, "bytes": ccShort(enc)})
			order = ccSortedEntries(m)
		}
		c.add("smap.enc", map[string]interface{}{"locations": p}, hex.EncodeToString(enc), len(p) > 0, fmt.Sprintf("CSMapEnc %s %s", core.List(order), core.Some(ccHexLit(enc))))
		back, err := client.UntrustedDeserializeGCAServerMap(enc)
		if err != nil || !ccMapsEqual(back, m) {
			c.res.Fail("server map does not decode back to the encoded map", "smap-roundtrip", map[string]interface{}{"locations": p, "bytes": ccShort(enc)})
		}
		c.smapDec(enc, true, false, "exact")
		if maxLoc <= 1000 && len(enc) > 0 {
			for _, d := range []int{-2, -1, 1, 2} {
				in := append(append([]byte{}, enc...), r.Bytes(2)...)[:len(enc)+d]
				c.smapDec(in, false, true, fmt.Sprintf("length%+d", d))
			}
			// cut inside the first entry, at its end, and a non-canonical banned byte
			c.smapDec(enc[:r.Intn(41)], false, false, "cut-in-first")
			mut := append([]byte{}, enc...)
			mut[32] = byte(2 + r.Intn(254))
			c.smapDec(mut, true, false, "banned-byte>1")
			// the same key twice: the later entry wins
			var k0 glow.PublicKey
			copy(k0[:], enc[:32])
			second, _ := client.SerializeGCAServerMap(map[glow.PublicKey]client.GCAServer{k0: {Banned: true, Location: "dup", HttpPort: 1, TcpPort: 2, UdpPort: 3}})
			c.smapDec(append(append([]byte{}, enc...), second...), true, false, "duplicate-key")
		}
		if c.size > 400000 {
			if err := c.flush(fmt.Sprintf("cases_codec_smap_%d", c.files)); err != nil {
				return err
			}
		}
	}
	return c.flush(fmt.Sprintf("cases_codec_smap_%d", c.files))
}

// ---------------------------------------------------------------- weekly statistics

func ccRealStats(devs []ccCdev, tso uint32, sig []byte) server.AllDeviceStats {
	var ads server.AllDeviceStats
	for _, d := range devs {
		ads.Devices = append(ads.Devices, d.real())
	}
	ads.TimeslotOffset = tso
	copy(ads.Signature[:], sig)
	return ads
}

// the loop of loadEquipmentHistory over the real stream decoder
func ccRealStreamAll(data []byte) (string, bool) {
	items := []string{}
	for len(data) > 0 {
		ads, n, err := server.DeserializeStreamAllDeviceStats(data)
		if err != nil {
			return "None", false
		}
		if n <= 0 || n > len(data) {
			return "None", false
		}
		items = append(items, core.Pair(core.Z(int64(n)), core.ZU(uint64(ads.TimeslotOffset))))
		data = data[n:]
	}
	return core.Some(core.List(items)), true
}

func (c *codecRun) stats(scale int) error {
	r := c.rng.Fork()
	// device counts of the records of each stream
	streams := [][]int{{}, {0}, {1, 0}, {2, 0, 0}} // quick: the model needs 1.5 s to encode one 32 KB device record
	if c.tier == "thorough" {
		for i := 0; i < 16; i++ {
			k := r.Intn(4)
			s := []int{}
			for j := 0; j < k; j++ {
				s = append(s, r.Intn(3))
			}
			streams = append(streams, s)
		}
		streams = append(streams, []int{2, 1, 0}, []int{2, 2, 2}, []int{0, 0, 0}, []int{1}, []int{2})
	}
	for si, plan := range streams {
		var stream []byte
		var ends []int
		var firstRec server.AllDeviceStats
		for ri, nd := range plan {
			devs := []ccCdev{}
			for j := 0; j < nd; j++ {
				var d ccCdev
				copy(d.key[:], ccGenBytes(r, 32))
				d.pow, d.imp = ccGenSparse(r, false), ccGenSparse(r, true)
				if ri == 0 && j == 0 {
					// the float values an "is it zero" shortcut would mishandle: -0 (default and explicit), the
					// smallest subnormals of both signs, next to +0
					switch si % 2 {
					case 0:
						d.imp = ccSparse{def: 0, idx: []int{0, 1, 2, 2015}, val: []uint64{0x8000000000000000, 1, 0x8000000000000001, 0x8000000000000000}}
						c.res.Count("stats.negative-zero")
					case 1:
						d.imp = ccSparse{def: 0x8000000000000000, idx: []int{0, 1007}, val: []uint64{0, math.Float64bits(412.5)}}
						c.res.Count("stats.negative-zero")
					}
				}
				devs = append(devs, d)
			}
			tso := uint32(2016 * r.Intn(1000))
			if r.Chance(30) {
				tso = ccGenU32(r)
			}
			sig := ccGenBytes(r, 64)
			ads := ccRealStats(devs, tso, sig)
			if ri == 0 {
				firstRec = ads
			}
			ser, sb := ads.Serialize(), ads.SigningBytes()
			sbLit := "None"
			if nd <= 1 {
				sbLit = core.Some(ccHexLit(sb))
			}
			gd := []string{}
			for _, d := range devs {
				gd = append(gd, d.gallina())
			}
			c.add("stats.enc", map[string]interface{}{"devices": nd, "tso": tso}, hex.EncodeToString(ser), true,
				fmt.Sprintf("CStats %s %d %s %s %s", core.List(gd), tso, ccHexLit(sig), ccHexLit(ser), sbLit))
			c.noteSigning("AllDeviceStats", "AllDeviceStats", sb, hex.EncodeToString(ser[:len(ser)-64]))
			if want := 4 + nd*32288 + 4 + 64; len(ser) != want {
				c.res.Fail("serialized statistics record has the wrong length", "stats-length", map[string]interface{}{"devices": nd, "length": len(ser), "documented": want})
			}
			// property oracle on the implementation alone: the record decodes back to the value that was
			// encoded (floats compared by their bits), and its bytes are the documented layout: the
			// signed bytes minus the "AllDeviceStats" prefix, then the signature
			if back, n, err := server.DeserializeStreamAllDeviceStats(ser); err != nil || n != len(ser) {
				c.res.Fail("a serialized statistics record does not decode", "stats-roundtrip", map[string]interface{}{"devices": nd, "tso": tso})
			} else {
				same := back.TimeslotOffset == ads.TimeslotOffset && back.Signature == ads.Signature && len(back.Devices) == len(ads.Devices)
				what := ""
				for di := 0; same && di < len(ads.Devices); di++ {
					a, b := ads.Devices[di], back.Devices[di]
					if a.PublicKey != b.PublicKey || a.PowerOutputs != b.PowerOutputs {
						same = false
					}
					for k := 0; same && k < len(a.ImpactRates); k++ {
						if math.Float64bits(a.ImpactRates[k]) != math.Float64bits(b.ImpactRates[k]) {
							same = false
							what = fmt.Sprintf(": impact rate %d of device %d was %#016x and decodes as %#016x", k, di, math.Float64bits(a.ImpactRates[k]), math.Float64bits(b.ImpactRates[k]))
						}
					}
				}
				if !same {
					c.res.Fail("a statistics record does not decode back to the value that was encoded"+what, "stats-roundtrip", map[string]interface{}{"devices": nd, "tso": tso, "record_hex_prefix": hex.EncodeToString(ser[:64])})
				}
			}
			if pre := len("AllDeviceStats"); len(sb) != pre+len(ser)-64 || !bytes.Equal(sb[pre:], ser[:len(ser)-64]) {
				c.res.Fail("the persisted bytes of a statistics record differ from the bytes its signature covers (layout: signed fields, then the signature)", "stats-layout", map[string]interface{}{"devices": nd, "tso": tso})
			}
			stream = append(stream, ser...)
			ends = append(ends, len(stream))
		}
		c.res.Count(fmt.Sprintf("stream.records=%d", len(plan)))
		ext := r.Bytes(3)
		full := append(append([]byte{}, stream...), ext...)
		cutset := map[int]bool{0: true, 1: true, 3: true, 4: true, 5: true, 36: true, 71: true, 72: true, 73: true, len(stream): true, len(stream) + 3: true}
		if len(ends) > 0 {
			cutset[ends[0]-64] = true
			cutset[ends[0]-65] = true
		}
		if c.tier == "thorough" && len(stream) > 0 {
			cutset[len(stream)-1] = true
			cutset[len(stream)+1] = true
			cutset[len(stream)-64] = true
		}
		for ei, e := range ends {
			for _, d := range []int{-1, 0, 1} {
				// quick tier: every accepted cut decodes the whole first record again in the model (0.1 s per device)
				if c.tier == "thorough" || ei == 0 {
					cutset[e+d] = true
				}
			}
		}
		if len(plan) > 0 && plan[0] > 0 {
			for _, x := range []int{4 + 31, 4 + 32, 4 + 32 + 8*2016 - 1, 4 + 32 + 8*2016, 4 + 32288 - 1, 4 + 32288, 4 + 32288 + 3} {
				cutset[x] = true
			}
		}
		cuts := []int{}
		for k := range cutset {
			if k >= 0 && k <= len(full) {
				cuts = append(cuts, k)
			}
		}
		sort.Ints(cuts)
		obsItems := []string{}
		firstLen := 0
		if len(ends) > 0 {
			firstLen = ends[0]
		}
		for _, cut := range cuts {
			in := full[:cut]
			ads, n, err := server.DeserializeStreamAllDeviceStats(in)
			c.res.Evaluations++
			if err != nil {
				c.res.Count("stream.cut.refused")
				obsItems = append(obsItems, core.Pair(core.Z(int64(cut)), "OErr"))
				if len(plan) > 0 && cut >= firstLen {
					c.res.Fail("stream decoder refuses an input that starts with a complete record", "stream-refused", map[string]interface{}{"stream_plan": plan, "cut": cut, "first_record_length": firstLen})
				}
				continue
			}
			c.res.Count("stream.cut.ok")
			obsItems = append(obsItems, core.Pair(core.Z(int64(cut)), ccObsOfStats(ads, n)))
			if len(plan) == 0 {
				// random trailing bytes only: whatever they decode to must fit the input
				if n > cut {
					c.res.Fail("stream decoder reports more bytes than it was given", "stream-consumed", map[string]interface{}{"cut": cut, "consumed": n})
				}
				continue
			}
			if cut < firstLen {
				c.res.Fail("stream decoder accepts a truncated record", "stream-truncated-accepted", map[string]interface{}{"stream_plan": plan, "cut": cut, "first_record_length": firstLen})
			} else if n != firstLen || !bytes.Equal(ads.Serialize(), firstRec.Serialize()) {
				c.res.Fail("stream decoder does not return the first record and its exact length", "stream-roundtrip", map[string]interface{}{"stream_plan": plan, "cut": cut, "consumed": n, "first_record_length": firstLen})
			}
		}
		all, ok := ccRealStreamAll(stream)
		if !ok {
			c.res.Fail("a concatenation of encoded records does not decode record by record", "stream-all", map[string]interface{}{"stream_plan": plan})
		}
		c.add("stream", map[string]interface{}{"stream_plan": plan, "cuts": len(cuts)}, fmt.Sprint(plan, si, len(stream)), len(plan) > 0,
			fmt.Sprintf("CStream %s %s %s [%s]", ccHexLit(stream), ccHexLit(ext), core.List(obsItems), all))
		if c.size > 150000 || (c.tier == "thorough" && si%3 == 2) {
			if err := c.flush(fmt.Sprintf("cases_codec_stats_%d", c.files)); err != nil {
				return err
			}
		}
	}
	// count field larger than what follows (small enough to run in-process), and hostile
	// counts on ccShort inputs, which run in a child process
	one := ccRealStats([]ccCdev{{}}, 2016, make([]byte, 64)).Serialize()
	for _, cnt := range []uint32{2, 3, 100} {
		in := append([]byte{}, one...)
		binary.LittleEndian.PutUint32(in, cnt)
		_, _, err := server.DeserializeStreamAllDeviceStats(in)
		c.res.Count("stream.cut.refused")
		obs := "OErr"
		if err == nil {
			obs = "(OOk 0 0 [] [])"
			c.res.Fail("stream decoder accepts a record whose device count exceeds the input", "stream-count-accepted", map[string]interface{}{"count": cnt, "length": len(in)})
		}
		c.add("stream.count-too-large", map[string]interface{}{"count": cnt}, fmt.Sprint("cnt", cnt), false,
			fmt.Sprintf("CStream %s [] [%s] []", ccHexLit(in), core.Pair(core.Z(int64(len(in))), obs)))
	}
	hostile := [][]byte{
		{0xff, 0xff, 0xff, 0xff},
		{0x00, 0x00, 0x02, 0x00},
		{0x00, 0x00, 0x00, 0x80},
		append([]byte{0xff, 0xff, 0xff, 0x7f}, make([]byte, 100)...),
		{0x01, 0x00, 0x00, 0x00},
		make([]byte, 72),
	}
	// counts whose size wraps in 32 bits: count*32288+72 modulo 2^32 is small, so a length test
	// computed in uint32 lets them through to the allocation (4 GiB and more)
	for _, cnt := range []uint32{133021, 1 << 27, 266042} {
		need := uint32(4 + cnt*(32+8*2*2016) + 4 + 64)
		in := make([]byte, need)
		binary.LittleEndian.PutUint32(in, cnt)
		hostile = append(hostile, in)
	}
	if c.tier == "thorough" {
		for i := 0; i < 6; i++ {
			h := r.Bytes(4 + r.Intn(80))
			h[3] |= byte(1 << uint(r.Intn(8)))
			hostile = append(hostile, h)
		}
	}
	// the child must be able to run at all under the address-space limit: a benign input first
	for ccChildLimitKB = 2 * 1024 * 1024; ; ccChildLimitKB *= 2 {
		if class, _, _ := ccRunStreamChild(make([]byte, 72)); class == "ok" {
			break
		}
		if ccChildLimitKB > 64*1024*1024 {
			return fmt.Errorf("the child process cannot decode a benign input under any address-space limit")
		}
	}
	c.res.Extra["child_address_space_kb"] = ccChildLimitKB
	for _, in := range hostile {
		class, n, detail := ccRunStreamChild(in)
		obs := "OErr"
		switch class {
		case "fatal":
			obs = "OFatal"
			c.res.Fail("stream decoder is not total: input "+hex.EncodeToString(in[:4])+"... kills the process instead of being refused ("+detail+")", "stream-decoder-fatal",
				map[string]interface{}{"input_hex": hex.EncodeToString(in), "function": "server.DeserializeStreamAllDeviceStats", "child": detail, "address_space_limit_kb": ccChildLimitKB})
		case "ok":
			ads, n2, err := server.DeserializeStreamAllDeviceStats(in) // it is safe in-process then
			if err != nil || n2 != n {
				return fmt.Errorf("child and in-process decoder disagree")
			}
			obs = ccObsOfStats(ads, n)
		}
		c.add("stream.hostile-count", map[string]interface{}{"input": hex.EncodeToString(in), "class": class}, hex.EncodeToString(in), class == "ok",
			fmt.Sprintf("CStream %s [] [%s] []", ccHexLit(in), core.Pair(core.Z(int64(len(in))), obs)))
	}
	return c.flush(fmt.Sprintf("cases_codec_stats_%d", c.files))
}

// ---------------------------------------------------------------- real signatures

// All single-bit flips of message, signature and key must be rejected by the real
// Verify; signing twice gives the same signature.  Not part of the model comparison.
func (c *codecRun) crypto(scale int) {
	r := c.rng.Fork()
	type msg struct {
		typ string
		sb  []byte
	}
	mk := func() []msg {
		var er glow.EquipmentReport
		er.ShortID, er.Timeslot, er.PowerOutput = ccGenU32(r), ccGenU32(r), ccGenU64(r)
		ea := ccGenAuth(r, false)
		var gr server.GCARegistration
		copy(gr.GCAKey[:], r.Bytes(32))
		as := ccGenAServer(r, 40)
		em := server.EquipmentMigration{NewShortID: ccGenU32(r), NewServers: []server.AuthorizedServer{ccGenAServer(r, 20)}}
		copy(em.Equipment[:], r.Bytes(32))
		ads := server.AllDeviceStats{TimeslotOffset: ccGenU32(r)}
		return []msg{{"EquipmentReport", er.SigningBytes()}, {"EquipmentAuthorization", ea.SigningBytes()}, {"GCARegistration", gr.SigningBytes()},
			{"AuthorizedServer", as.SigningBytes()}, {"EquipmentMigration", em.SigningBytes()}, {"AllDeviceStats", ads.SigningBytes()}}
	}
	rounds := 1
	if c.tier == "thorough" {
		rounds = 6
	}
	for round := 0; round < rounds; round++ {
		msgs := mk()
		if c.tier == "thorough" && round == 0 {
			d := ccCdev{pow: ccGenSparse(r, false), imp: ccGenSparse(r, true)}
			msgs = append(msgs, msg{"AllDeviceStats", ccRealStats([]ccCdev{d}, 2016, nil).SigningBytes()})
		}
		for _, m := range msgs {
			pub, priv := glow.GenerateKeyPair() // real keys cannot be derived from the seed; only the messages are
			sig := glow.Sign(m.sb, priv)
			c.res.Count("sign.deterministic")
			c.res.Evaluations++
			if sig2 := glow.Sign(append([]byte{}, m.sb...), priv); sig2 != sig {
				c.res.Fail("signing the same bytes twice gives different signatures", "sign-nondeterministic", map[string]interface{}{"type": m.typ, "message": ccShort(m.sb)})
			}
			if !glow.Verify(pub, m.sb, sig) {
				c.res.Fail("genuine signature rejected", "verify-genuine", map[string]interface{}{"type": m.typ, "message": ccShort(m.sb), "key": hex.EncodeToString(pub[:]), "sig": hex.EncodeToString(sig[:])})
			}
			flip := func(target string, nbits int, all bool, try func(bit int) bool) {
				pos := []int{}
				if all || nbits <= 512 {
					for i := 0; i < nbits; i++ {
						pos = append(pos, i)
					}
				} else {
					for i := 0; i < 256; i++ {
						pos = append(pos, r.Intn(nbits))
					}
					pos = append(pos, 0, 7, 8, nbits-1, nbits-8)
				}
				for _, p := range pos {
					c.res.Count("flip." + target)
					c.res.Evaluations++
					if try(p) {
						c.res.Fail("a single flipped "+target+" bit still verifies", "flip-accepted:"+target, map[string]interface{}{"type": m.typ, "bit": p, "message": ccShort(m.sb), "key": hex.EncodeToString(pub[:]), "sig": hex.EncodeToString(sig[:])})
					}
				}
			}
			flip("message", len(m.sb)*8, c.tier == "thorough", func(bit int) bool {
				mm := append([]byte{}, m.sb...)
				mm[bit/8] ^= 1 << uint(bit%8)
				return glow.Verify(pub, mm, sig)
			})
			flip("signature", 512, true, func(bit int) bool {
				s2 := sig
				s2[bit/8] ^= 1 << uint(bit%8)
				return glow.Verify(pub, m.sb, s2)
			})
			// the (r, n-s) twin of the signature: the same mathematical signature in non-canonical form; it
			// was never produced by the signer and must not verify (otherwise anybody can turn one signed
			// value into a second, different datagram)
			{
				n := new(big.Int)
				n.SetString("fffffffffffffffffffffffffffffffebaaedce6af48a03bbfd25e8cd0364141", 16)
				sv := new(big.Int).SetBytes(sig[32:])
				sv.Sub(n, sv)
				tw := sig
				sv.FillBytes(tw[32:])
				c.res.Count("flip.malleated-twin")
				if tw != sig && glow.Verify(pub, m.sb, tw) {
					c.res.Fail("the non-canonical twin (r, n-s) of a signature verifies: signatures are malleable", "malleable-signature", map[string]interface{}{"type": m.typ, "message": ccShort(m.sb), "key": hex.EncodeToString(pub[:]), "sig": hex.EncodeToString(sig[:]), "twin": hex.EncodeToString(tw[:])})
				}
			}
			flip("key", 256, true, func(bit int) bool {
				k2 := pub
				k2[bit/8] ^= 1 << uint(bit%8)
				return glow.Verify(k2, m.sb, sig)
			})
			c.res.Case(map[string]interface{}{"class": "flips", "type": m.typ, "message_bits": len(m.sb) * 8}, "flips"+m.typ+fmt.Sprint(round, len(m.sb)), true)
		}
	}
}
