(* C09 -- a device never signs two different reports for the same timeslot;
   laws of the history store.  Only statements, each closed by [exact]; the
   proofs are in ClientHistory_lemmas.v and ClientReports_lemmas.v.

   Conventions: [o] is the origin read from the history header, [t] a timeslot,
   [v] a reading as stored (uint32), all machine integers are explicit
   ([is_u32], [is_u64]).  [hist_wf h] = the file holds a header and whole slots
   (what the client itself writes; a ragged tail is not a reading).
   The store functions model the code AFTER the repair of K3 (range check);
   [save_reading_nocheck] is the arithmetic before it. *)
From Coq Require Import ZArith List Bool.
From GCA Require Import Wrap Bytes Codec ClientHistory ClientHistory_lemmas ClientReports ClientReports_lemmas.
Import ListNotations.
Open Scope Z_scope.

(* ---- the history store ---------------------------------------------------- *)

(* a reading that was saved is returned by the next load *)
Theorem c09_read_after_write : forall h o t v h',
  is_u32 o -> is_u32 t -> is_u32 v ->
  save_reading h o t v = Ok h' -> load_reading h' o t = Ok v.
Proof. exact read_after_write. Qed.

(* an occupied slot refuses every other value (an error is returned: nothing is written) *)
Theorem c09_no_overwrite : forall h o t cur v,
  load_reading h o t = Ok cur -> cur <> 0 -> v <> cur -> save_reading h o t v = Err.
Proof. exact no_overwrite. Qed.

(* ... and keeps its value through every later sequence of saves and loads, on any slots *)
Theorem c09_stored_forever : forall o, is_u32 o -> forall ops h t c,
  Forall hop_ok ops -> is_u32 t -> hist_wf h ->
  load_reading h o t = Ok c -> c <> 0 ->
  load_reading (fst (hops_run o h ops)) o t = Ok c /\ hist_wf (fst (hops_run o h ops)).
Proof. exact stored_forever. Qed.

(* a save does not affect what any other slot reads *)
Theorem c09_frame : forall h o t v h' t',
  is_u32 o -> is_u32 t -> is_u32 t' -> hist_wf h ->
  save_reading h o t v = Ok h' -> t' <> t -> load_reading h' o t' = load_reading h o t'.
Proof. exact frame. Qed.

(* timeslots before the origin are refused (and read as "nothing") *)
Theorem c09_refuse_before_origin : forall h o t v,
  t < o -> save_reading h o t v = Err /\ load_reading h o t = Ok 0.
Proof. exact refuse_before_origin. Qed.

(* timeslots the 32-bit byte offset cannot address are refused, not wrapped around *)
Theorem c09_refuse_beyond_range : forall h o t v,
  is_u32 o -> is_u32 t -> o <= t -> max_slots <= t - o ->
  save_reading h o t v = Err /\ load_reading h o t = Err.
Proof. exact refuse_beyond. Qed.

(* a save either changes nothing or writes exactly bytes 4(1+t-o) .. +3 of an empty slot:
   the bytes before are the old ones (a gap is zero-filled), the bytes after are the old ones *)
Theorem c09_no_misplacement : forall h o t v h',
  is_u32 o -> is_u32 t -> save_reading h o t v = Ok h' ->
  h' = h \/
  (o <= t /\ t - o < max_slots /\ load_reading h o t = Ok 0 /\
   let off := 4 * (1 + (t - o)) in
   takez off h' = takez off (h ++ zerosz (off - lenz h)) /\
   takez 4 (skipz off h') = le_enc 4 v /\
   skipz (off + 4) h' = skipz (off + 4) h).
Proof. exact no_misplacement. Qed.

(* in particular the origin header is never touched *)
Theorem c09_header_untouched : forall h o t v h',
  is_u32 o -> is_u32 t -> 4 <= lenz h -> save_reading h o t v = Ok h' -> takez 4 h' = takez 4 h.
Proof. exact save_header. Qed.

(* the same code without the range check: t - o = 2^30 - 1 overwrites the header,
   t - o = 2^30 is stored in (and read from) slot 0 -- K3, repaired *)
Theorem c09_offset_wrap_refuted :
  (exists h h', save_reading_nocheck h 0 (2^30 - 1) 287454020 = Ok h' /\
                hist_origin h = Some 0 /\ hist_origin h' = Some 287454020) /\
  (exists h h', save_reading_nocheck h 5 (5 + 2^30) 1432778632 = Ok h' /\
                load_reading h 5 5 = Ok 0 /\ load_reading h' 5 5 = Ok 1432778632).
Proof. exact offset_wrap_refuted. Qed.

(* ---- on the wire ----------------------------------------------------------- *)

(* For every initial history, every sequence of ticks (arbitrary record lists: duplicates with
   other values, reordered, rewritten), restarts and retransmissions, whose readings fit 32 signed
   bits: any two datagrams for one slot with a non-zero power are the same 80 bytes. *)
Theorem c09_no_equivocation : forall (sign : bytes -> bytes) (short_id o : Z) h0 evs d1 d2,
  is_u32 o -> hist_wf h0 -> Forall ev_ok evs -> Forall ev_fits evs ->
  In d1 (datagrams sign short_id o h0 evs) -> In d2 (datagrams sign short_id o h0 evs) ->
  dg_slot d1 = dg_slot d2 -> dg_power d1 <> 0 -> dg_power d2 <> 0 -> d1 = d2.
Proof. exact no_equivocation. Qed.

(* ... and carry the first reading accepted for the slot (the wire value is its sign extension) *)
Theorem c09_first_accepted : forall o, is_u32 o -> forall h0 evs t p v,
  hist_wf h0 -> Forall ev_ok evs -> Forall ev_fits evs ->
  In (t, p) (tr_out (run o h0 evs)) -> p <> 0 ->
  first_accepted (tr_acc (run o h0 evs)) t = Some v -> p = u64 (i32 v) /\ u32 p = v.
Proof. exact emission_is_first_accepted. Qed.

(* ... which the history still holds at the end *)
Theorem c09_emission_stored : forall o, is_u32 o -> forall h0 evs t p,
  hist_wf h0 -> Forall ev_ok evs -> Forall ev_fits evs ->
  In (t, p) (tr_out (run o h0 evs)) -> p <> 0 ->
  load_reading (cs_hist (tr_st (run o h0 evs))) o t = Ok (u32 p).
Proof. exact emission_is_stored. Qed.

(* K2: the hypothesis [ev_fits] cannot be dropped.  A reading of 2^32+5 is reported with its full
   value and retransmitted as 5; two rows 5000 and 2^32+5000 of one file are both sent. *)
Theorem c09_k2_refuted : forall (sign : bytes -> bytes) (short_id : Z),
  exists h0 evs d1 d2, hist_wf h0 /\ Forall ev_ok evs /\
    In d1 (datagrams sign short_id 0 h0 evs) /\ In d2 (datagrams sign short_id 0 h0 evs) /\
    dg_slot d1 = dg_slot d2 /\ dg_power d1 <> 0 /\ dg_power d1 <> 1 /\ dg_power d2 <> 0 /\ dg_power d2 <> 1 /\
    d1 <> d2.
Proof. exact k2_refuted. Qed.

Theorem c09_k2_same_tick_refuted : forall (sign : bytes -> bytes) (short_id : Z),
  exists h0 recs d1 d2, hist_wf h0 /\ Forall erec_ok recs /\
    In d1 (datagrams sign short_id 0 h0 [Tick recs]) /\ In d2 (datagrams sign short_id 0 h0 [Tick recs]) /\
    dg_slot d1 = dg_slot d2 /\ dg_power d1 <> 0 /\ dg_power d1 <> 1 /\ dg_power d2 <> 0 /\ dg_power d2 <> 1 /\
    d1 <> d2.
Proof. exact k2_same_tick_refuted. Qed.

(* ---- non-vacuity: the hypotheses are satisfiable and the conclusions are not empty --------- *)
Example c09_store_example :
  let h := le_enc 4 7 in
  hist_wf h /\
  exists h1, save_reading h 7 9 1000 = Ok h1 /\ lenz h1 = 16 /\ load_reading h1 7 9 = Ok 1000 /\
             save_reading h1 7 9 1001 = Err /\ save_reading h1 7 6 5 = Err /\
             save_reading h1 7 (7 + 2^30 - 1) 5 = Err.
Proof.
  split; [split; vm_compute; [discriminate | reflexivity]|].
  eexists. split; [vm_compute; reflexivity|]. repeat split; vm_compute; reflexivity.
Qed.

Example c09_wire_example :
  let evs := [Tick [{| rc_ts := 3; rc_en := 500 |}; {| rc_ts := 3; rc_en := 501 |}];
              Restart [{| rc_ts := 3; rc_en := 502 |}; {| rc_ts := 4; rc_en := 2^64 - 4000 |}];
              Tick [{| rc_ts := 3; rc_en := 502 |}; {| rc_ts := 4; rc_en := 2^64 - 4000 |}; {| rc_ts := 5; rc_en := 77 |}];
              Resend 3; Resend 4] in
  Forall ev_ok evs /\ Forall ev_fits evs /\ hist_wf (le_enc 4 0) /\
  tr_out (run 0 (le_enc 4 0) evs) = [(3, 500); (5, 77); (3, 500); (4, 2^64 - 4000)] /\
  first_accepted (tr_acc (run 0 (le_enc 4 0) evs)) 3 = Some 500.
Proof.
  cbv zeta.
  split; [repeat constructor; vm_compute; intros; discriminate|].
  split; [repeat constructor; vm_compute; reflexivity|].
  split; [split; vm_compute; [discriminate | reflexivity]|].
  split; vm_compute; reflexivity.
Qed.
