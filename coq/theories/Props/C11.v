(* C11 -- No server behaviour can crash, wedge or mislead the client.
   Only statements, each closed by [exact]; proofs live in ClientSync_lemmas.v.
   v_fixed is the repaired client (commits "fix: threadedSyncWithServer releases the client
   mutex ..." and "fix: staticServerSync refuses sync responses shorter than ..."), v_prefix
   the code before them; the two *_prefix_* theorems are the defects D9 / D10 in the model. *)
From Coq Require Import ZArith List Bool String.
From GCA Require Import Wrap Bytes CodecSync ClientSync ClientSync_lemmas.
Import ListNotations.
Open Scope Z_scope.

(* --- no reply makes the parser panic: ALL byte strings, ALL length prefixes, any verify ---- *)
Theorem c11_parse_total (verify : bytes -> bytes -> bytes -> bool) mykey skey gkey now stream :
  client_recv verify 712 mykey skey gkey now stream <> PPanic /\
  client_recv verify 712 mykey skey gkey now stream <> PFuel.
Proof. exact (client_recv_total verify mykey skey gkey now stream). Qed.

(* D10, before the repair: length prefix 3 followed by three bytes -> slice bounds out of range *)
Theorem c11_prefix_parse_panics (verify : bytes -> bytes -> bytes -> bool) mykey skey gkey now :
  client_recv verify (v_minlen v_prefix) mykey skey gkey now d10_stream = PPanic.
Proof. exact (d10_prefix_panics verify mykey skey gkey now). Qed.

(* --- one sync round: every outcome vector, every shuffle, every server map ------------------ *)
(* the mutex is free whenever the round returns (and the round is never blocked by itself) *)
Theorem c11_lock_released (verify : bytes -> bytes -> bytes -> bool) mykey st att st' r tr :
  c_locked st = false -> sync_round verify v_fixed mykey st att = (st', r, tr) ->
  r <> RBlocked /\ (r = RTrue \/ r = RFalse -> c_locked st' = false).
Proof. exact (round_lock_released verify mykey st att st' r tr). Qed.

(* D9, before the repair: the only server refuses the connection -> false with the mutex held *)
Theorem c11_prefix_lock_held (verify : bytes -> bytes -> bytes -> bool) mykey :
  let '(st', r, _) := sync_round verify v_prefix mykey d9_state d9_att in
  r = RFalse /\ c_locked st' = true.
Proof. exact (d9_prefix_lock_held verify mykey). Qed.

(* the round never panics (parser, file serialisation) and the model never runs out of fuel *)
Theorem c11_round_never_panics (verify : bytes -> bytes -> bytes -> bool) mykey st att st' r tr :
  c_locked st = false -> smap_wf (c_servers st) ->
  sync_round verify v_fixed mykey st att = (st', r, tr) -> r <> RPanic /\ r <> RFuel.
Proof. exact (round_never_panics verify mykey st att st' r tr). Qed.

(* every server contacted during the round is in the list and not banned *)
Theorem c11_never_selects_banned (verify : bytes -> bytes -> bytes -> bool) ver mykey st att st' r tr :
  c_locked st = false -> sync_round verify ver mykey st att = (st', r, tr) ->
  Forall (usable (c_servers st)) tr.
Proof. exact (round_never_selects_banned verify ver mykey st att st' r tr). Qed.

(* --- histories: sync rounds with arbitrary outcomes and restarts in any order --------------- *)
(* as long as the GCA is the same, a known ban stays known (restarts included), for every
   history from every state satisfying the invariant (any freshly loaded client does) *)
Theorem c11_ban_monotone (verify : bytes -> bytes -> bytes -> bool) mykey st ops st' :
  Inv st -> same_gca_run verify mykey st ops st' -> ban_le (c_servers st) (c_servers st').
Proof. exact (fun I R => proj1 (same_gca_monotone verify mykey st ops st' I R)). Qed.

Theorem c11_loaded_client_satisfies_invariant fs ord st : client_load fs ord = LdOk st -> Inv st.
Proof. exact (fun H => proj1 (client_load_spec fs ord st H)). Qed.

(* restart: same GCA, id and list (bans included); the primary chosen at start-up is not banned *)
Theorem c11_ban_survives_restart st ord st' : Inv st -> client_load (c_files st) ord = LdOk st' ->
  identity st' = identity st /\ (c_primary st' = blank_key \/ usable (c_servers st') (c_primary st')).
Proof. exact (restart_keeps_identity st ord st'). Qed.

(* what the round writes to gcaServers.dat decodes to the list it holds (no hypothesis) *)
Theorem c11_server_map_roundtrip m : smap_wf m ->
  smap_serialize m = Some (raw_of m) /\ smap_deserialize (raw_of m) = DOk m.
Proof. exact (smap_roundtrip m). Qed.

(* --- the reporting loop keeps running and keeps trying to sync ------------------------------ *)
(* after a round that returned, the next iteration of threadedSendReports is not blocked *)
Theorem c11_loop_not_wedged (verify : bytes -> bytes -> bytes -> bool) mykey st att st' r tr ticks ok :
  c_locked st = false -> sync_round verify v_fixed mykey st att = (st', r, tr) -> r = RTrue \/ r = RFalse ->
  send_iter (c_locked st') ticks ok = Some (tick_step ticks ok).
Proof. exact (loop_not_wedged verify mykey st att st' r tr ticks ok). Qed.

(* from any tick count and whatever the earlier rounds reported, a sync is launched within 60 iterations *)
Theorem c11_keeps_reporting ticks oks : 0 <= ticks -> List.length oks = 60%nat ->
  snd (ticks_run ticks oks) = true.
Proof. exact (ticks_run_60 ticks oks). Qed.

(* non-vacuity: the invariant is inhabited by a loaded client *)
Example c11_nonvacuous : exists st, client_load k7_files [k7_srv] = LdOk st /\ c_locked st = false.
Proof. eexists. split; [vm_compute; reflexivity | reflexivity]. Qed.
