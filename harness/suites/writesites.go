package suites

// Static scan of the server package for the places that create, truncate or rename files.
// A create-then-write or truncate-then-write of a file whose empty content is NOT a valid
// state (server.keys, gcaPubKey.dat) exposes a "present but empty" crash image; the crash
// suite synthesizes such images only when a site outside the expected set exists.

import (
	"go/ast"
	"go/parser"
	"go/token"
	"os"
	"path/filepath"
	"sort"
	"strconv"
	"strings"
)

type writeSite struct {
	Func, Call string
	Trunc      bool // creates or truncates (not append-only)
}

func (w writeSite) String() string {
	t := "append"
	if w.Trunc {
		t = "create-or-truncate"
	}
	return w.Func + ":" + w.Call + ":" + t
}

// scanWriteSites lists every os.Create / os.WriteFile / ioutil.WriteFile / os.OpenFile / os.Rename
// call in the non-test, non-verif files of <repo>/server.
func scanWriteSites(repo string) ([]writeSite, error) {
	dir := filepath.Join(repo, "server")
	ents, err := os.ReadDir(dir)
	if err != nil {
		return nil, err
	}
	var out []writeSite
	fs := token.NewFileSet()
	// named constants / variables of the package whose value is an expression over os.O_* flags
	consts := map[string]ast.Expr{}
	var files []*ast.File
	for _, e := range ents {
		n := e.Name()
		if !strings.HasSuffix(n, ".go") || strings.HasSuffix(n, "_test.go") || strings.HasPrefix(n, "verif_") || n == "testing.go" {
			continue
		}
		f, err := parser.ParseFile(fs, filepath.Join(dir, n), nil, 0)
		if err != nil {
			return nil, err
		}
		files = append(files, f)
		ast.Inspect(f, func(nd ast.Node) bool {
			if vs, ok := nd.(*ast.ValueSpec); ok && len(vs.Names) == len(vs.Values) {
				for i, nm := range vs.Names {
					consts[nm.Name] = vs.Values[i]
				}
			}
			return true
		})
	}
	for _, f := range files {
		for _, d := range f.Decls {
			fd, ok := d.(*ast.FuncDecl)
			if !ok || fd.Body == nil {
				continue
			}
			ast.Inspect(fd.Body, func(nd ast.Node) bool {
				ce, ok := nd.(*ast.CallExpr)
				if !ok {
					return true
				}
				se, ok := ce.Fun.(*ast.SelectorExpr)
				if !ok {
					return true
				}
				pk, ok := se.X.(*ast.Ident)
				if !ok {
					return true
				}
				name := pk.Name + "." + se.Sel.Name
				switch name {
				case "os.Create", "os.WriteFile", "ioutil.WriteFile":
					out = append(out, writeSite{fd.Name.Name, name, true})
				case "os.Rename":
					out = append(out, writeSite{fd.Name.Name, name, false})
				case "os.OpenFile":
					trunc := true
					if len(ce.Args) >= 2 {
						fl, resolved := flagNames(ce.Args[1], consts, 0)
						if !resolved {
							// flags that cannot be read from the source (a variable, a call): nothing is claimed
							// about this site -- neither append-only nor truncating
							return true
						}
						trunc = !strings.Contains(fl, "O_APPEND")
					}
					out = append(out, writeSite{fd.Name.Name, name, trunc})
				}
				return true
			})
		}
	}
	sort.Slice(out, func(i, j int) bool { return out[i].String() < out[j].String() })
	return out, nil
}

// expectedWriteSites: create-or-truncate sites whose target may validly be empty (logs created
// empty at start-up, the atomic writer's temporary file, the MOER cache) plus append-only sites.
var expectedWriteSites = map[string]bool{
	"loadEquipment:os.Create:create-or-truncate":                   true,
	"loadEquipmentHistory:os.Create:create-or-truncate":            true,
	"loadEquipmentReports:os.Create:create-or-truncate":            true,
	"writeFileAtomic:os.OpenFile:create-or-truncate":               true,
	"writeFileAtomic:os.Rename:append":                             true,
	"saveAllDeviceStats:os.OpenFile:append":                        true,
	"saveEquipment:os.OpenFile:append":                             true,
	"saveEquipmentReport:os.OpenFile:append":                       true,
	"NewLogger:os.OpenFile:append":                                 true,
	"fetchAndSaveHistoricalBAData:os.WriteFile:create-or-truncate": true,
}

func unexpectedWriteSites(repo string) ([]string, []string, error) {
	sites, err := scanWriteSites(repo)
	if err != nil {
		return nil, nil, err
	}
	var all, bad []string
	for _, s := range sites {
		all = append(all, s.String())
		if !expectedWriteSites[s.String()] {
			bad = append(bad, s.String())
		}
	}
	return all, bad, nil
}

// multiWriteFuncs: the append-only record files are written by ONE write call per record (that is what
// makes "the record is there completely or not at all" true under the property's process-crash model).
// For each persistence function it checks how the handle returned by os.OpenFile is used: one
// `f.Write(..)` outside any loop, `f.Close()`, `f.Sync()` -- anything else (a second Write, a Write in
// a loop, the handle passed to another function or wrapped in a buffered writer) means a record can
// reach the disk in pieces.  Returns the names of the functions that do so.
func multiWriteFuncs(repo string) ([]string, error) {
	dir := filepath.Join(repo, "server")
	ents, err := os.ReadDir(dir)
	if err != nil {
		return nil, err
	}
	targets := map[string]bool{"saveAllDeviceStats": true, "saveEquipment": true, "saveEquipmentReport": true}
	var bad []string
	fs := token.NewFileSet()
	for _, e := range ents {
		n := e.Name()
		if !strings.HasSuffix(n, ".go") || strings.HasSuffix(n, "_test.go") || strings.HasPrefix(n, "verif_") {
			continue
		}
		f, err := parser.ParseFile(fs, filepath.Join(dir, n), nil, 0)
		if err != nil {
			return nil, err
		}
		for _, d := range f.Decls {
			fd, ok := d.(*ast.FuncDecl)
			if !ok || fd.Body == nil || !targets[fd.Name.Name] {
				continue
			}
			// the handle: first result of an assignment whose right side is os.OpenFile(...)
			handle := ""
			ast.Inspect(fd.Body, func(nd ast.Node) bool {
				as, ok := nd.(*ast.AssignStmt)
				if !ok || len(as.Rhs) != 1 || len(as.Lhs) == 0 {
					return true
				}
				if ce, ok := as.Rhs[0].(*ast.CallExpr); ok {
					if se, ok := ce.Fun.(*ast.SelectorExpr); ok {
						if pk, ok := se.X.(*ast.Ident); ok && pk.Name == "os" && se.Sel.Name == "OpenFile" {
							if id, ok := as.Lhs[0].(*ast.Ident); ok {
								handle = id.Name
							}
						}
					}
				}
				return true
			})
			if handle == "" {
				bad = append(bad, fd.Name.Name+": no os.OpenFile handle found")
				continue
			}
			writes, other := 0, ""
			var walk func(nd ast.Node, inLoop bool)
			walk = func(nd ast.Node, inLoop bool) {
				ast.Inspect(nd, func(x ast.Node) bool {
					switch v := x.(type) {
					case *ast.ForStmt:
						if v.Body != nil {
							walk(v.Body, true)
						}
						return false
					case *ast.RangeStmt:
						if v.Body != nil {
							walk(v.Body, true)
						}
						return false
					case *ast.GoStmt:
						other = "the write happens in a separate goroutine"
					case *ast.CallExpr:
						if se, ok := v.Fun.(*ast.SelectorExpr); ok {
							if id, ok := se.X.(*ast.Ident); ok && id.Name == handle {
								switch se.Sel.Name {
								case "Write", "WriteString", "WriteAt":
									writes++
									if inLoop {
										other = "write inside a loop"
									}
								case "Close", "Sync", "Name", "Stat":
								default:
									other = "handle method " + se.Sel.Name
								}
								return true
							}
						}
						single := false // helpers that perform exactly one Write on their first argument
						if se, ok := v.Fun.(*ast.SelectorExpr); ok {
							if pk, ok := se.X.(*ast.Ident); ok && pk.Name == "io" && se.Sel.Name == "WriteString" {
								single = true
							}
						}
						for _, a := range v.Args {
							if id, ok := a.(*ast.Ident); ok && id.Name == handle {
								if single {
									writes++
									if inLoop {
										other = "write inside a loop"
									}
								} else {
									other = "the handle is passed to another function"
								}
							}
						}
					}
					return true
				})
			}
			walk(fd.Body, false)
			if writes != 1 || other != "" {
				why := other
				if why == "" {
					why = strconv.Itoa(writes) + " write calls"
				}
				bad = append(bad, fd.Name.Name+": "+why)
			}
		}
	}
	sort.Strings(bad)
	return bad, nil
}

// flagNames renders the os.O_* names an open-flag expression is made of, following identifiers that name
// constants (or variables initialised once) of the package.  resolved is false when some part of the
// expression is neither an os.O_* selector, an integer literal, nor such an identifier.
func flagNames(e ast.Expr, consts map[string]ast.Expr, depth int) (names string, resolved bool) {
	if depth > 6 {
		return "", false
	}
	switch x := e.(type) {
	case *ast.SelectorExpr:
		if pk, ok := x.X.(*ast.Ident); ok && pk.Name == "os" {
			return x.Sel.Name + " ", true
		}
		return "", false
	case *ast.BinaryExpr:
		a, ok1 := flagNames(x.X, consts, depth+1)
		b, ok2 := flagNames(x.Y, consts, depth+1)
		return a + b, ok1 && ok2
	case *ast.ParenExpr:
		return flagNames(x.X, consts, depth+1)
	case *ast.BasicLit:
		return "", true
	case *ast.Ident:
		if v, ok := consts[x.Name]; ok {
			return flagNames(v, consts, depth+1)
		}
		return "", false
	case *ast.CallExpr: // int(os.O_APPEND | ...)
		if len(x.Args) == 1 {
			return flagNames(x.Args[0], consts, depth+1)
		}
	}
	return "", false
}
