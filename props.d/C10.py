# C10 -- see DESIGN.md section 5
PROP = {
    "props_v": "Props/C10.v",
    "extra_v": ["ClientSyncRun.v"],
    "suites": [("test", "syncwire"), ("test", "rogue")],
    "run_vo": "ClientSyncRun.vo",
    "assumptions": [
        "signature verification is an arbitrary function verify(key, message, signature) in the theorems; in the correspondence run it is membership in the table of signatures the harness (or the real server) created with glow.Sign -- that secp256k1 rejects everything else is tested, not proved",
        "the server's data for a device is observed through its public endpoints (recent-reports, authorized-servers) plus the orders the harness posted; the signing time is read from the reply and sandwiched between two clock readings",
    ],
}
TEXT = {
    "text": "Coq model of both ends of the TCP sync protocol: sync_reply (server, byte-exact incl. the uint16 length prefix) and client_recv/parse_reply (client, every Go slice expression with an explicit Panic outcome, uint16/uint64 arithmetic written out). Theorems for ALL views/byte strings and an ARBITRARY verify function: c10_agree (the genuine reply of every well-formed view parses to exactly offset, bitfield, migration order or server list, whatever follows on the connection), c10_agree_unbounded_list_refuted (FINDING: the premise that the reply fits the 16-bit length prefix fails for a server that knows ~190-624 authorized servers; the client then rejects the genuine reply -- witness by vm_compute, reproduced on the real server), c10_bitfield (bit i set iff slot i holds a record, banned included), c10_refusal, c10_reject (accept implies: outer signature under the contacted server's key, 24 h freshness in Go's uint64 arithmetic, binding to the device key, migration signed by the CURRENT GCA, every entry signed by the new/current GCA), c10_frame (a round without an accepted reply leaves identity, list and files unchanged). Tie: suite syncwire drives a real test-mode server over UDP/HTTP/TCP through eleven states (190 servers with a reply beyond 64 KiB, window edges, banned slot, 0..8 servers with 0/1/254/255-byte locations, migration orders with 0..4 servers, rotation to offset 2016), rebuilds the reply bytes in the model from the public data (must equal the wire), parses genuine and mutated replies with the real staticServerSync via a replaying TCP peer and compares every outcome with the model. Added after seeded-change rounds: negative and extreme power values in the window, inner-signature tampering parsed by a client that already knows the servers (hook VerifSyncSetServers), the rogue suite also runs here (six servers all failing one of the last checks: the round fails and changes nothing).",
    "note": "Trusted: Coq kernel + vm_compute, the harness (generators, oracle, signature table), secp256k1. Inner-signature and stale-reply cases need the server's private key: read from server.keys of the test server's directory.",
    "technique": "Coq proof (all byte strings, arbitrary verify) + differential correspondence (vm_compute) against real server and client",
}
