(* C07 -- GCA registration is one-shot, gated by the temporary key, and irreversible.
   Statements only; proofs in ServerAuth_lemmas.v. (Histories with restarts: Props/C04.v.) *)
From Coq Require Import ZArith List Bool.
From Coq Require Import String.
From GCA Require Import Wrap Bytes Codec Amap Timeslot Server ServerInv ServerDisk ServerReach_lemmas ServerAuth_lemmas ServerFull_lemmas Skel SkelSpec Skel_lemmas SkelObligations.
From GCAgen Require SkelServer.
Import ListNotations.
Open Scope Z_scope.

Section C07.
  Variable verify : bytes -> bytes -> bytes -> bool.
  Variable sign : bytes -> bytes -> bytes.
  Variable stats_sb : list devstat -> Z -> bytes.

  Theorem c07_nothing_before st a :
    MemInv (mm st) -> gca_avail (mm st) = false ->
    equipment (mm st) = [] /\ bans (mm st) = [] /\ reports (mm st) = [] /\
    authorize verify st a = (st, Refused).
  Proof. exact (nothing_before_registration verify st a). Qed.

  Theorem c07_gate st k s st' :
    register verify st k s = (st', Accepted true) ->
    gca_avail (mm st) = false /\ verify (tempkey (mm st)) (reg_signing_bytes k) s = true /\
    gca (mm st') = pad 32 k /\ gca_avail (mm st') = true /\ d_gca (dd st') = Some (pad 32 k).
  Proof. exact (register_gate verify st k s st'). Qed.

  Theorem c07_refused_frame st k s :
    snd (register verify st k s) <> Accepted true -> fst (register verify st k s) = st.
  Proof. exact (register_refused_frame verify st k s). Qed.

  (* in EVERY history -- restarts included -- at most one registration is accepted *)
  Theorem c07_at_most_one ops st : Inv verify st -> Forall op_ok ops ->
    (count_accepted_registrations verify sign stats_sb st ops <= 1)%nat.
  Proof. exact (at_most_one_registration_full verify sign stats_sb ops st). Qed.

  (* and once registered the key is never replaced, whatever follows (restarts included) *)
  Theorem c07_irreversible ops st : Inv verify st -> Forall op_ok ops ->
    gca_avail (mm st) = true ->
    gca_avail (mm (Server.run verify sign stats_sb st ops)) = true /\
    gca (mm (Server.run verify sign stats_sb st ops)) = gca (mm st).
  Proof. exact (gca_irreversible_full verify sign stats_sb ops st). Qed.

  Theorem c07_no_second_registration ops st k s : no_restart ops -> gca_avail (mm st) = true ->
    register verify (Server.run verify sign stats_sb st ops) k s = (run verify sign stats_sb st ops, Refused).
  Proof. exact (no_second_registration verify sign stats_sb ops st k s). Qed.

  Theorem c07_authority st a st' b :
    authorize verify st a = (st', Accepted b) ->
    gca_avail (mm st) = true /\ verify (gca (mm st)) (auth_signing_bytes a) (a_sig a) = true.
  Proof. exact (authority verify st a st' b). Qed.
End C07.

(* Concurrency: the availability test and the save are ONE uninterrupted critical section of the
   real registerGCA -- re-established on every run on the lock skeleton regenerated from the source
   (DESIGN.md T4); so the sequential theorems above cover concurrent batches of registrations. *)
Theorem c07_register_one_section :
  register_shape server_fns reg_name reg_saver "mu" "gcaPubkeyAvailable" = true
  /\ subset (writers_of SkelServer.field_writers "gcaPubkeyAvailable") [reg_saver; reg_loader] = true
  /\ subset (writers_of SkelServer.field_writers "gcaPubkey") [reg_saver; reg_loader] = true
  /\ subset (callers_of SkelServer.call_edges reg_saver) [reg_name] = true
  /\ fn_ctor server_fns reg_loader = true
  /\ check_scope (mk_env server_fields server_exempt server_fns
                         ["GCAServer.RegisterGCAHandler"; reg_name; reg_saver; reg_loader] strict) = true.
Proof. exact skel_register_atomic. Qed.

Theorem c07_register_uninterrupted :
  forall f rest, find_fn server_fns reg_name = Some f -> one_section "mu" (f_body f) = Some rest ->
  f_body f = Seq (Lock "mu") (Seq (DeferUnlock "mu") rest) /\
  forall E cx s r, hold_of s = HHeld "mu" true -> exec E cx rest s r ->
    forall s', res_state r = Some s' -> hold_of s' = HHeld "mu" true.
Proof. exact register_uninterrupted. Qed.
