//go:build test && verif

package suites

// C10 (suite "syncwire") and helpers shared by the suites of C10, C11, C17
// (rogue.go, serverlist.go, migrate.go): signature table, scripted TCP peers,
// an independent builder for sync replies, Gallina emitters for the records of
// CodecSync.v / ClientSyncRun.v.

import (
	"bytes"
	"encoding/binary"
	"encoding/hex"
	"encoding/json"
	"fmt"
	"io"
	"net"
	"net/http"
	"os"
	"path/filepath"
	"sort"
	"strings"
	"sync"
	"syscall"
	"time"

	"github.com/glowlabs-org/gca-backend/client"
	"github.com/glowlabs-org/gca-backend/glow"
	"github.com/glowlabs-org/gca-backend/server"
	"verifharness/core"
)

func init() { core.Register("syncwire", syncwireSuite) }

// ---------------------------------------------------------------- keys and genuine signatures

type keyPair struct {
	pub  glow.PublicKey
	priv glow.PrivateKey
}

func newKey() keyPair {
	p, s := glow.GenerateKeyPair()
	return keyPair{p, s}
}

// sigTab is the table of genuine signatures: everything the harness signs
// with the real glow.Sign is recorded here; the model's verify is membership.
type sigTab struct {
	mu   sync.Mutex
	rows [][3][]byte
}

func (t *sigTab) add(key glow.PublicKey, msg []byte, sig glow.Signature) {
	t.mu.Lock()
	t.rows = append(t.rows, [3][]byte{append([]byte{}, key[:]...), append([]byte{}, msg...), append([]byte{}, sig[:]...)})
	t.mu.Unlock()
}
func (t *sigTab) sign(msg []byte, k keyPair) glow.Signature {
	sig := glow.Sign(msg, k.priv)
	t.add(k.pub, msg, sig)
	return sig
}
func (t *sigTab) gallina() string {
	t.mu.Lock()
	defer t.mu.Unlock()
	xs := make([]string, len(t.rows))
	for i, r := range t.rows {
		xs[i] = core.Tuple(core.Hex(r[0]), core.Hex(r[1]), core.Hex(r[2]))
	}
	return core.List(xs)
}
func (t *sigTab) clone() *sigTab {
	t.mu.Lock()
	defer t.mu.Unlock()
	return &sigTab{rows: append([][3][]byte{}, t.rows...)}
}

// ---------------------------------------------------------------- records as Gallina

func asG(s server.AuthorizedServer) string {
	return fmt.Sprintf("(mk_as %s %s %s %d %d %d %s)", core.Hex(s.PublicKey[:]), core.Bool(s.Banned), core.Hex([]byte(s.Location)), s.HttpPort, s.TcpPort, s.UdpPort, core.Hex(s.GCAAuthorization[:]))
}
func asListG(l []server.AuthorizedServer) string {
	xs := make([]string, len(l))
	for i, s := range l {
		xs[i] = asG(s)
	}
	return core.List(xs)
}
func migG(m server.EquipmentMigration) string {
	return fmt.Sprintf("(mk_mig %s %s %d %s %s)", core.Hex(m.Equipment[:]), core.Hex(m.NewGCA[:]), m.NewShortID, asListG(m.NewServers), core.Hex(m.Signature[:]))
}
func gsMapG(l []client.VerifServerEntry) string {
	xs := make([]string, len(l))
	for i, e := range l {
		xs[i] = fmt.Sprintf("(mk_gs %s %s %s %d %d %d)", core.Hex(e.Key[:]), core.Bool(e.Server.Banned), core.Hex([]byte(e.Server.Location)), e.Server.HttpPort, e.Server.TcpPort, e.Server.UdpPort)
	}
	return core.List(xs)
}
func keysG(l []glow.PublicKey) string {
	xs := make([]string, len(l))
	for i, k := range l {
		xs[i] = core.Hex(k[:])
	}
	return core.List(xs)
}

func asCanon(l []server.AuthorizedServer) string {
	var sb strings.Builder
	for _, s := range l {
		fmt.Fprintf(&sb, "%x/%v/%x/%d/%d/%d/%x;", s.PublicKey, s.Banned, s.Location, s.HttpPort, s.TcpPort, s.UdpPort, s.GCAAuthorization)
	}
	return sb.String()
}

// signed AuthorizedServer
func mkAS(t *sigTab, gca keyPair, key glow.PublicKey, banned bool, loc string, h, tc, u uint16) server.AuthorizedServer {
	as := server.AuthorizedServer{PublicKey: key, Banned: banned, Location: loc, HttpPort: h, TcpPort: tc, UdpPort: u}
	as.GCAAuthorization = t.sign(as.SigningBytes(), gca)
	return as
}

// signed EquipmentMigration (outer signature by cur, inner ones must already be there)
func mkMig(t *sigTab, cur keyPair, equipment, newGCA glow.PublicKey, newID uint32, srv []server.AuthorizedServer) server.EquipmentMigration {
	m := server.EquipmentMigration{Equipment: equipment, NewGCA: newGCA, NewShortID: newID, NewServers: srv}
	m.Signature = t.sign(m.SigningBytes(), cur)
	return m
}

// ---------------------------------------------------------------- sync replies built by the harness
// (a rogue or scripted server; written from the protocol description, not from the server code)

type replySpec struct {
	devKey   glow.PublicKey
	offset   uint32
	bitfield [504]byte
	newGCA   glow.PublicKey
	newID    uint32
	servers  []server.AuthorizedServer
	gcaSig   glow.Signature
	unixTime uint64
}

func asWire(s server.AuthorizedServer) []byte {
	var b []byte
	b = append(b, s.PublicKey[:]...)
	if s.Banned {
		b = append(b, 1)
	} else {
		b = append(b, 0)
	}
	b = append(b, byte(len(s.Location)))
	b = append(b, []byte(s.Location)...)
	b = binary.LittleEndian.AppendUint16(b, s.HttpPort)
	b = binary.LittleEndian.AppendUint16(b, s.TcpPort)
	b = binary.LittleEndian.AppendUint16(b, s.UdpPort)
	b = append(b, s.GCAAuthorization[:]...)
	return b
}

// content is everything the outer signature covers
func (r replySpec) content() []byte {
	var b []byte
	b = append(b, r.devKey[:]...)
	b = binary.LittleEndian.AppendUint32(b, r.offset)
	b = append(b, r.bitfield[:]...)
	b = append(b, r.newGCA[:]...)
	b = binary.LittleEndian.AppendUint32(b, r.newID)
	for _, s := range r.servers {
		b = append(b, asWire(s)...)
	}
	b = append(b, r.gcaSig[:]...)
	b = binary.LittleEndian.AppendUint64(b, r.unixTime)
	return b
}

// withMigration fills the migration fields from a signed order
func (r replySpec) withMigration(m server.EquipmentMigration) replySpec {
	r.newGCA, r.newID, r.servers, r.gcaSig = m.NewGCA, m.NewShortID, m.NewServers, m.Signature
	return r
}

// signedWire = length prefix ++ content ++ signature by k
func signedWire(t *sigTab, content []byte, k keyPair) []byte {
	sig := t.sign(content, k)
	return frame(append(append([]byte{}, content...), sig[:]...))
}
func frame(body []byte) []byte {
	out := make([]byte, 2, 2+len(body))
	binary.LittleEndian.PutUint16(out, uint16(len(body)))
	return append(out, body...)
}

// ---------------------------------------------------------------- scripted TCP peer

const (
	actSend    = iota // read the 4-byte request, send data, close
	actReset          // accept and reset at once
	actEarly          // send data without waiting for the request, close
	actDelayed        // read the request, wait, send data, close
)

type peerAction struct {
	kind  int
	data  []byte
	delay time.Duration
}

// scriptPeer is a TCP listener on 127.0.0.1 whose behaviour for the k-th
// connection is given by a function.
type scriptPeer struct {
	ln     net.Listener
	port   uint16
	mu     sync.Mutex
	script func(k int) peerAction
	hits   int
	reqs   [][]byte
	wg     sync.WaitGroup
	closed bool
}

func newScriptPeer(script func(k int) peerAction) (*scriptPeer, error) {
	ln, err := net.Listen("tcp", "127.0.0.1:0")
	if err != nil {
		return nil, err
	}
	p := &scriptPeer{ln: ln, port: uint16(ln.Addr().(*net.TCPAddr).Port), script: script}
	p.wg.Add(1)
	go p.loop()
	return p, nil
}
func (p *scriptPeer) setScript(f func(k int) peerAction) {
	p.mu.Lock()
	p.script = f
	p.hits = 0
	p.mu.Unlock()
}
func (p *scriptPeer) loop() {
	defer p.wg.Done()
	for {
		conn, err := p.ln.Accept()
		if err != nil {
			return
		}
		p.mu.Lock()
		k := p.hits
		p.hits++
		act := p.script(k)
		p.mu.Unlock()
		p.wg.Add(1)
		go func() {
			defer p.wg.Done()
			defer conn.Close()
			conn.SetDeadline(time.Now().Add(5 * time.Second))
			switch act.kind {
			case actReset:
				if tc, ok := conn.(*net.TCPConn); ok {
					tc.SetLinger(0)
				}
				return
			case actEarly:
				conn.Write(act.data)
				return
			}
			var req [4]byte
			if _, err := io.ReadFull(conn, req[:]); err != nil {
				return
			}
			p.mu.Lock()
			p.reqs = append(p.reqs, append([]byte{}, req[:]...))
			p.mu.Unlock()
			if act.kind == actDelayed {
				time.Sleep(act.delay)
			}
			conn.Write(act.data)
			// wait for the client to finish reading before the close, so that unread
			// data never turns the close into a reset
			if tc, ok := conn.(*net.TCPConn); ok {
				tc.CloseWrite()
				io.Copy(io.Discard, conn)
			}
		}()
	}
}
func (p *scriptPeer) close() {
	p.mu.Lock()
	if p.closed {
		p.mu.Unlock()
		return
	}
	p.closed = true
	p.mu.Unlock()
	p.ln.Close()
	p.wg.Wait()
}
func (p *scriptPeer) gcaServer() client.GCAServer {
	return client.GCAServer{Location: "127.0.0.1", TcpPort: p.port, UdpPort: 9, HttpPort: 9}
}

// a port on which nothing listens (dial refused).  The port stays bound (not
// listening) for the life of the process so that no other listener can get it.
func deadPort() uint16 {
	fd, err := syscall.Socket(syscall.AF_INET, syscall.SOCK_STREAM, 0)
	if err != nil {
		return 1
	}
	if err := syscall.Bind(fd, &syscall.SockaddrInet4{Port: 0, Addr: [4]byte{127, 0, 0, 1}}); err != nil {
		return 1
	}
	sa, err := syscall.Getsockname(fd)
	if err != nil {
		return 1
	}
	return uint16(sa.(*syscall.SockaddrInet4).Port)
}

// ---------------------------------------------------------------- calling the real parser

type parseObs struct {
	ok       bool
	offset   uint32
	bitfield [504]byte
	newGCA   glow.PublicKey
	newID    uint32
	servers  []server.AuthorizedServer
	errClass string // Coq constructor of perr
	errText  string
	panicked string
	now      int64
}

func classifyParseErr(err error) string {
	s := err.Error()
	switch {
	case strings.Contains(s, "too short"):
		return "EShort"
	case strings.Contains(s, "unable to dial"), strings.Contains(s, "unable to send reqeust"), strings.Contains(s, "unable to read the response length"),
		strings.Contains(s, "unable to read response from gca server"), strings.Contains(s, "did not send enough data"):
		return "ERead"
	case strings.Contains(s, "out of bounds temporally"):
		return "ETime"
	case strings.Contains(s, "received response from server with invalid signature"):
		return "ESig"
	case strings.Contains(s, "wrong short id"):
		return "EKey"
	case strings.Contains(s, "received new GCA from server with invalid signature"):
		return "EMigSig"
	case strings.Contains(s, "unable to decode authorized servers due to length"):
		return "ESrvLen"
	case strings.Contains(s, "invalid authorization"):
		return "ESrvSig"
	}
	return "EUnknown_" + strings.Map(func(r rune) rune {
		if (r >= 'a' && r <= 'z') || (r >= 'A' && r <= 'Z') {
			return r
		}
		return '_'
	}, s)
}

// parseVia feeds stream to the real staticServerSync through a scripted peer.
// The call is repeated when the wall clock second changed while it ran.
func parseVia(res *core.Result, peer *scriptPeer, c *client.Client, stream []byte, skey, gkey glow.PublicKey) parseObs {
	peer.setScript(func(int) peerAction { return peerAction{kind: actSend, data: stream} })
	for try := 0; ; try++ {
		t0 := time.Now().Unix()
		off, bf, ng, nid, srv, err, pan := client.VerifParseSync(c, peer.gcaServer(), skey, gkey)
		t1 := time.Now().Unix()
		if t0 != t1 && try < 5 {
			res.Discarded++
			continue
		}
		o := parseObs{now: t0, panicked: pan}
		if pan != "" {
			return o
		}
		if err != nil {
			o.errClass, o.errText = classifyParseErr(err), err.Error()
			return o
		}
		o.ok, o.offset, o.bitfield, o.newGCA, o.newID, o.servers = true, off, bf, ng, nid, srv
		return o
	}
}
func (o parseObs) gallina() string {
	if o.panicked != "" {
		return "OPanic"
	}
	if !o.ok {
		return "(OErr " + o.errClass + ")"
	}
	return fmt.Sprintf("(OOk %d %s %s %d %s)", o.offset, core.Hex(o.bitfield[:]), core.Hex(o.newGCA[:]), o.newID, asListG(o.servers))
}
func (o parseObs) canon() string {
	if o.panicked != "" {
		return "panic"
	}
	if !o.ok {
		return o.errClass
	}
	return fmt.Sprintf("ok/%d/%x/%x/%d/%s", o.offset, o.bitfield, o.newGCA, o.newID, asCanon(o.servers))
}
func (o parseObs) same(p parseObs) bool { return o.canon() == p.canon() }

// ---------------------------------------------------------------- client directories

type clientDir struct {
	dir    string
	dev    keyPair
	origin uint32
}

func writeClientDir(name string, dev keyPair, gca glow.PublicKey, shortID uint32, servers map[glow.PublicKey]client.GCAServer) (*clientDir, error) {
	dir := glow.GenerateTestDir(name)
	var keys [64]byte
	copy(keys[:32], dev.pub[:])
	copy(keys[32:], dev.priv[:])
	raw, err := client.SerializeGCAServerMap(servers)
	if err != nil {
		return nil, err
	}
	var id [4]byte
	binary.LittleEndian.PutUint32(id[:], shortID)
	files := map[string][]byte{
		client.ClientKeyFile:    keys[:],
		client.GCAPubKeyFile:    gca[:],
		client.GCAServerMapFile: raw,
		client.HistoryFile:      {0, 0, 0, 0},
		client.ShortIDFile:      id[:],
		client.EnergyFile:       []byte("timestamp,energy (mWh)"),
	}
	for f, b := range files {
		if err := os.WriteFile(filepath.Join(dir, f), b, 0644); err != nil {
			return nil, err
		}
	}
	return &clientDir{dir: dir, dev: dev}, nil
}
func (d *clientDir) file(name string) []byte {
	b, _ := os.ReadFile(filepath.Join(d.dir, name))
	return b
}
func (d *clientDir) filesG() string {
	return core.Tuple(core.Hex(d.file(client.GCAPubKeyFile)), core.Hex(d.file(client.ShortIDFile)), core.Hex(d.file(client.GCAServerMapFile)))
}

// ---------------------------------------------------------------- a real server driven over its public endpoints

type realServer struct {
	s    *server.GCAServer
	dir  string
	gca  keyPair
	keys keyPair // server.keys
	http uint16
	tcp  uint16
	udp  uint16
}

func startRealServer(name string) (*realServer, error) {
	s, dir, pub, priv, err := server.SetupTestEnvironment(name)
	if err != nil {
		return nil, err
	}
	rs := &realServer{s: s, dir: dir, gca: keyPair{pub, priv}}
	rs.http, rs.tcp, rs.udp = s.Ports()
	kb, err := os.ReadFile(filepath.Join(dir, "server.keys"))
	if err != nil || len(kb) < 64 {
		s.Close()
		return nil, fmt.Errorf("server.keys unreadable: %v", err)
	}
	copy(rs.keys.pub[:], kb[:32])
	copy(rs.keys.priv[:], kb[32:64])
	if rs.keys.pub != s.PublicKey() {
		s.Close()
		return nil, fmt.Errorf("server.keys layout is not pub(32) ++ priv(32)")
	}
	return rs, nil
}
func (rs *realServer) url(p string) string {
	return fmt.Sprintf("http://127.0.0.1:%d/api/v1/%s", rs.http, p)
}
func (rs *realServer) postJSON(path string, v interface{}) (int, error) {
	j, err := json.Marshal(v)
	if err != nil {
		return 0, err
	}
	resp, err := http.Post(rs.url(path), "application/json", bytes.NewReader(j))
	if err != nil {
		return 0, err
	}
	io.Copy(io.Discard, resp.Body)
	resp.Body.Close()
	return resp.StatusCode, nil
}
func (rs *realServer) getServers() ([]server.AuthorizedServer, error) {
	resp, err := http.Get(rs.url("authorized-servers"))
	if err != nil {
		return nil, err
	}
	defer resp.Body.Close()
	var r server.AuthorizedServersResponse
	if err := json.NewDecoder(resp.Body).Decode(&r); err != nil {
		return nil, err
	}
	return r.AuthorizedServers, nil
}

// the 4032 PowerOutput values of the device's window, through the public endpoint
func (rs *realServer) recentPowers(dev glow.PublicKey) ([]uint64, error) {
	resp, err := http.Get(rs.url("recent-reports") + "?publicKey=" + hex.EncodeToString(dev[:]))
	if err != nil {
		return nil, err
	}
	defer resp.Body.Close()
	if resp.StatusCode != 200 {
		return nil, fmt.Errorf("recent-reports status %d", resp.StatusCode)
	}
	var r server.RecentReportsResponse
	if err := json.NewDecoder(resp.Body).Decode(&r); err != nil {
		return nil, err
	}
	out := make([]uint64, len(r.Reports))
	for i, rep := range r.Reports {
		out[i] = rep.PowerOutput
	}
	return out, nil
}

// fetchSync performs the TCP request as a client would and returns every byte
// the server sends until it closes the connection.
func fetchSync(tcpPort uint16, shortID uint32) ([]byte, error) {
	conn, err := net.Dial("tcp", fmt.Sprintf("127.0.0.1:%d", tcpPort))
	if err != nil {
		return nil, err
	}
	defer conn.Close()
	conn.SetDeadline(time.Now().Add(5 * time.Second))
	var req [4]byte
	binary.LittleEndian.PutUint32(req[:], shortID)
	if _, err := conn.Write(req[:]); err != nil {
		return nil, err
	}
	return io.ReadAll(conn)
}

func sortedKeys(m map[glow.PublicKey]client.GCAServer) []glow.PublicKey {
	ks := make([]glow.PublicKey, 0, len(m))
	for k := range m {
		ks = append(ks, k)
	}
	sort.Slice(ks, func(i, j int) bool { return bytes.Compare(ks[i][:], ks[j][:]) < 0 })
	return ks
}

const syncImports = "From Coq Require Import ZArith List String.\nFrom GCA Require Import Bytes CodecSync ClientSync ServerList RunLib ClientSyncRun."

// which revision of the client the model describes (ClientSync.v: v_prefix = before
// the repairs of D9/D10, v_fixed = the repaired code)
const modelVersion = "v_fixed"
const modelMinLen = "712"

// ---------------------------------------------------------------- the syncwire suite (C10)

type swDevice struct {
	key  keyPair
	id   uint32
	sent map[uint32]bool // slots for which the server accepted at least one report
	mig  *server.EquipmentMigration
}

func (rs *realServer) authorize(d *swDevice) error {
	ea := glow.EquipmentAuthorization{ShortID: d.id, PublicKey: d.key.pub, Latitude: 38, Longitude: -100, Capacity: 1 << 40, Debt: 1, Expiration: 100e6}
	return rs.s.AuthorizeEquipment(ea, rs.gca.priv)
}

// sendReport sends one signed report over UDP and waits until the server's
// window shows a record in that slot (or gives up: the report was refused).
func (rs *realServer) sendReport(d *swDevice, slot uint32, power uint64) error {
	r := glow.EquipmentReport{ShortID: d.id, Timeslot: slot, PowerOutput: power}
	r.Signature = glow.Sign(r.SigningBytes(), d.key.priv)
	return glow.SendUDPReport(r.Serialize(), fmt.Sprintf("127.0.0.1:%d", rs.udp))
}

func bitSet(bf []byte, i int) bool { return bf[i/8]&(1<<(uint(i)%8)) != 0 }

func syncwireSuite(seed uint64, tier, outDir string) (*core.Result, error) {
	res := core.NewResult("syncwire", seed, tier)
	rng := core.NewRNG(seed)
	thorough := tier == "thorough"
	rs, err := startRealServer("verif-syncwire")
	if err != nil {
		return nil, err
	}
	defer os.RemoveAll(rs.dir)
	defer rs.s.Close()
	defer glow.SetCurrentTimeslot(0)
	peer, err := newScriptPeer(nil)
	if err != nil {
		return nil, err
	}
	defer peer.close()
	tab := &sigTab{} // inner (GCA) signatures created by the harness

	// ---- devices: one that follows the server list, five with a migration order of 0..4 new servers
	main := &swDevice{key: newKey(), id: uint32(rng.Range(1, 1000)), sent: map[uint32]bool{}}
	other := &swDevice{key: newKey(), id: main.id + 1000, sent: map[uint32]bool{}}
	devs := []*swDevice{main, other}
	var migDevs []*swDevice
	for k := 0; k <= 4; k++ {
		d := &swDevice{key: newKey(), id: main.id + 2000 + uint32(k), sent: map[uint32]bool{}}
		migDevs = append(migDevs, d)
		devs = append(devs, d)
	}
	for _, d := range devs {
		if err := rs.authorize(d); err != nil {
			return nil, fmt.Errorf("authorize: %v", err)
		}
	}
	unknownID := main.id + 5000

	var vcases []string
	nSample := 200
	if thorough {
		nSample = 4000
	}
	stateNo := 0

	// waitWindow polls the public window until it shows the expected number of records
	waitRecords := func(d *swDevice, want func(p []uint64) bool) []uint64 {
		var p []uint64
		for i := 0; i < 100; i++ {
			p, _ = rs.recentPowers(d.key.pub)
			if p != nil && want(p) {
				return p
			}
			time.Sleep(10 * time.Millisecond)
		}
		return p
	}
	report := func(d *swDevice, slot uint32, power uint64, now uint32) {
		rs.sendReport(d, slot, power)
		if power >= 2 && int64(slot) >= int64(now)-432 && int64(slot) <= int64(now)+432 {
			d.sent[slot] = true
		}
	}

	// snapshot: fetch the genuine reply for a device, check it against the public data, mutate it
	snapshot := func(d *swDevice, label string) error {
		var wire []byte
		var powers []uint64
		var t0, t1 int64
		for try := 0; ; try++ {
			t0 = time.Now().Unix()
			w, err := fetchSync(rs.tcp, d.id)
			t1 = time.Now().Unix()
			if err != nil {
				return fmt.Errorf("fetch sync: %v", err)
			}
			powers, err = rs.recentPowers(d.key.pub)
			if err != nil {
				return err
			}
			w2, err := fetchSync(rs.tcp, d.id)
			if err != nil {
				return err
			}
			// the window must not have moved or changed between the three requests
			if len(w) == len(w2) && len(w) >= 542 && bytes.Equal(w[2:542], w2[2:542]) {
				wire = w
				break
			}
			res.Discarded++
			if try > 20 {
				return fmt.Errorf("server window keeps changing")
			}
			time.Sleep(30 * time.Millisecond)
		}
		servers, err := rs.getServers()
		if err != nil {
			return err
		}
		res.Count("state." + label)
		stateNo++
		c := client.VerifSyncIdentityClient(d.key.pub, d.id)
		obs0 := parseVia(res, peer, c, wire, rs.keys.pub, rs.gca.pub)
		desc := map[string]interface{}{"kind": "genuine", "state": label, "reply_bytes": len(wire), "servers": len(servers), "migration": d.mig != nil, "outcome": obs0.errClass}
		replay := map[string]interface{}{"state": label, "wire": hex.EncodeToString(wire)}
		n := len(wire) - 2
		wraps := n > 65535 && int(binary.LittleEndian.Uint16(wire)) == n&0xffff
		if wraps {
			// the reply does not fit its 16-bit length prefix: the client reads n mod 65536 bytes of it
			replay = map[string]interface{}{"state": label, "reply_bytes": n, "servers": len(servers), "prefix": binary.LittleEndian.Uint16(wire), "client": obs0.errText + obs0.panicked}
			res.Fail(fmt.Sprintf("a server that knows %d authorized servers answers a sync request with %d bytes behind a 16-bit length prefix of %d: the client rejects the genuine reply (%s) and the device can no longer sync with this server", len(servers), n, binary.LittleEndian.Uint16(wire), obs0.errText+obs0.panicked), "reply-length-wraps", replay)
			if obs0.ok {
				res.Fail("the client accepts a reply whose length prefix wrapped", "reply-length-wraps-accepted", replay)
			}
		} else if n < 712 || int(binary.LittleEndian.Uint16(wire)) != n {
			res.Fail("genuine reply is not framed as length prefix ++ body", "genuine-frame", replay)
			return nil
		}
		// ---- property oracle on the genuine reply
		if wraps {
		} else if !obs0.ok {
			res.Fail("the client rejects the genuine reply of the server: "+obs0.errText+obs0.panicked, "genuine-rejected", replay)
		} else {
			records := 0
			for i := 0; i < 4032; i++ {
				has := powers[i] != 0
				if has {
					records++
				}
				if bitSet(obs0.bitfield[:], i) != has {
					res.Fail(fmt.Sprintf("bit %d of the bitfield is %v but the server's window holds PowerOutput=%d in that slot", i, bitSet(obs0.bitfield[:], i), powers[i]), "bitfield-mismatch", replay)
					break
				}
			}
			inWin := 0
			for s := range d.sent {
				if s >= obs0.offset && s < obs0.offset+4032 {
					inWin++
					if !bitSet(obs0.bitfield[:], int(s-obs0.offset)) {
						res.Fail(fmt.Sprintf("report for slot %d was accepted but bit %d (offset %d) is clear", s, s-obs0.offset, obs0.offset), "offset-mismatch", replay)
						break
					}
				}
			}
			if inWin != records {
				res.Fail(fmt.Sprintf("the window holds %d records, %d accepted reports fall into [offset, offset+4032)", records, inWin), "offset-mismatch", replay)
			}
			tm := int64(binary.LittleEndian.Uint64(wire[2+n-72:]))
			if tm < t0 || tm > t1 {
				res.Fail("signing time is not the server's clock", "time-mismatch", replay)
			}
			if d.mig == nil {
				var blank glow.PublicKey
				if obs0.newGCA != blank || obs0.newID != 0 || asCanon(obs0.servers) != asCanon(servers) {
					res.Fail("parsed server list differs from GET /authorized-servers", "list-mismatch", replay)
				}
			} else if obs0.newGCA != d.mig.NewGCA || obs0.newID != d.mig.NewShortID || asCanon(obs0.servers) != asCanon(d.mig.NewServers) {
				res.Fail("parsed migration order differs from the order the GCA posted", "migration-mismatch", replay)
			}
		}
		res.Case(desc, label+obs0.canon(), obs0.ok)

		// ---- model: the reply rebuilt from the public data must be the bytes on the wire
		var rle []string
		for i := 0; i < 4032; {
			j := i
			for j < 4032 && powers[j] == powers[i] {
				j++
			}
			rle = append(rle, core.Pair(core.Nat(j-i), core.ZU(powers[i])))
			i = j
		}
		mg := "None"
		if d.mig != nil {
			mg = "(Some " + migG(*d.mig) + ")"
		}
		off := binary.LittleEndian.Uint32(wire[34:38])
		vcases = append(vcases, core.Tuple(core.Hex(d.key.pub[:]), core.ZU(uint64(off)), "(rle "+core.List(rle)+")", mg, asListG(servers),
			core.ZU(binary.LittleEndian.Uint64(wire[2+n-72:])), core.Hex(wire[2+n-64:]), core.Hex(wire)))

		if wraps {
			return nil
		}
		// ---- mutations
		t := tab.clone()
		var sig glow.Signature
		copy(sig[:], wire[2+n-64:])
		t.add(rs.keys.pub, wire[2:2+n-64], sig)
		base := core.Tuple(core.Hex(d.key.pub[:]), core.Hex(rs.keys.pub[:]), core.Hex(rs.gca.pub[:]), core.Hex(wire), t.gallina())
		var pcs []string
		pcs = append(pcs, core.Tuple(core.Nat(0), "MNone", core.Z(obs0.now), obs0.gallina()))
		mustReject := func(o parseObs, what string, mdesc map[string]interface{}) {
			res.Count("mut." + what)
			mdesc["state"], mdesc["outcome"] = label, o.errClass
			res.Case(mdesc, fmt.Sprint(label, what, mdesc["pos"], mdesc["bit"], mdesc["n"], mdesc["delta"]), true)
			if o.ok || o.panicked != "" {
				mdesc["wire"] = hex.EncodeToString(wire)
				res.Fail("client accepts (or panics on) an altered reply: "+what, "altered-accepted:"+what, mdesc)
			}
		}
		content := append([]byte{}, wire[2:2+n-64]...)
		resign := func(cnt []byte, k keyPair) []byte { // not recorded in the table: the case carries the signer
			sg := glow.Sign(cnt, k.priv)
			return frame(append(append([]byte{}, cnt...), sg[:]...))
		}
		// single-bit mutations
		nbits := len(wire) * 8
		doFlip := func(pos, bit int) {
			m := append([]byte{}, wire...)
			m[pos] ^= 1 << uint(bit)
			o := parseVia(res, peer, c, m, rs.keys.pub, rs.gca.pub)
			pcs = append(pcs, core.Tuple(core.Nat(0), fmt.Sprintf("(MFlip %d %d)", pos, bit), core.Z(o.now), o.gallina()))
			mustReject(o, "bitflip", map[string]interface{}{"kind": "bitflip", "pos": pos, "bit": bit})
		}
		if thorough && nbits <= 9000 {
			for b := 0; b < nbits; b++ {
				doFlip(b/8, b%8)
			}
		} else {
			// every field at least once, then random
			for _, pos := range []int{0, 1, 2, 33, 34, 37, 38, 541, 542, 573, 574, 577, 578, len(wire) - 137, len(wire) - 136, len(wire) - 73, len(wire) - 72, len(wire) - 65, len(wire) - 64, len(wire) - 1} {
				doFlip(pos, rng.Intn(8))
			}
			for i := 0; i < nSample-20; i++ {
				b := rng.Intn(nbits)
				doFlip(b/8, b%8)
			}
		}
		// truncations
		for _, cut := range []int{0, 1, 2, 3, 73, 74, 578, 714, len(wire) - 65, len(wire) - 64, len(wire) - 1, rng.Intn(len(wire)), rng.Intn(len(wire))} {
			if cut < 0 || cut >= len(wire) {
				continue
			}
			o := parseVia(res, peer, c, wire[:cut], rs.keys.pub, rs.gca.pub)
			pcs = append(pcs, core.Tuple(core.Nat(0), fmt.Sprintf("(MTrunc %d)", cut), core.Z(o.now), o.gallina()))
			mustReject(o, "truncation", map[string]interface{}{"kind": "truncation", "n": cut})
		}
		// extensions: bytes after the announced length are never read -- the result is the genuine one;
		// extensions covered by the length prefix break the signature
		for _, extra := range [][]byte{{0}, rng.Bytes(1), rng.Bytes(64), rng.Bytes(300)} {
			o := parseVia(res, peer, c, append(append([]byte{}, wire...), extra...), rs.keys.pub, rs.gca.pub)
			pcs = append(pcs, core.Tuple(core.Nat(0), "(MExtend "+core.Hex(extra)+")", core.Z(o.now), o.gallina()))
			res.Count("mut.extension-unread")
			res.Case(map[string]interface{}{"kind": "extension-unread", "state": label, "n": len(extra)}, fmt.Sprint(label, "extu", len(extra)), true)
			if !o.same(obs0) {
				res.Fail("bytes after the announced length change the result", "extension-changes-result", map[string]interface{}{"state": label, "extra": len(extra)})
			}
			ext := frame(append(append([]byte{}, wire[2:]...), extra...))
			o2 := parseVia(res, peer, c, ext, rs.keys.pub, rs.gca.pub)
			pcs = append(pcs, core.Tuple(core.Nat(0), "(MReplace "+core.Hex(ext)+" None)", core.Z(o2.now), o2.gallina()))
			mustReject(o2, "extension", map[string]interface{}{"kind": "extension", "n": len(extra)})
		}
		// re-signing under other keys
		for name, k := range map[string]keyPair{"random": newKey(), "gca": rs.gca, "device": d.key} {
			m := resign(content, k)
			o := parseVia(res, peer, c, m, rs.keys.pub, rs.gca.pub)
			pcs = append(pcs, core.Tuple(core.Nat(0), "(MReplace "+core.Hex(m)+" (Some "+core.Hex(k.pub[:])+"))", core.Z(o.now), o.gallina()))
			mustReject(o, "resigned-"+name, map[string]interface{}{"kind": "resigned", "signer": name})
		}
		// the genuine bytes, but the client contacted another server / is another device / trusts another GCA
		{
			k := newKey()
			o := parseVia(res, peer, c, wire, k.pub, rs.gca.pub)
			pcs = append(pcs, core.Tuple(core.Nat(0), fmt.Sprintf("(MKeys %s %s %s)", core.Hex(d.key.pub[:]), core.Hex(k.pub[:]), core.Hex(rs.gca.pub[:])), core.Z(o.now), o.gallina()))
			mustReject(o, "other-server-key", map[string]interface{}{"kind": "other-server-key"})
			od := newKey()
			c2 := client.VerifSyncIdentityClient(od.pub, d.id)
			o = parseVia(res, peer, c2, wire, rs.keys.pub, rs.gca.pub)
			pcs = append(pcs, core.Tuple(core.Nat(0), fmt.Sprintf("(MKeys %s %s %s)", core.Hex(od.pub[:]), core.Hex(rs.keys.pub[:]), core.Hex(rs.gca.pub[:])), core.Z(o.now), o.gallina()))
			mustReject(o, "other-device", map[string]interface{}{"kind": "other-device"})
			og := newKey()
			o = parseVia(res, peer, c, wire, rs.keys.pub, og.pub)
			pcs = append(pcs, core.Tuple(core.Nat(0), fmt.Sprintf("(MKeys %s %s %s)", core.Hex(d.key.pub[:]), core.Hex(rs.keys.pub[:]), core.Hex(og.pub[:])), core.Z(o.now), o.gallina()))
			if d.mig != nil || len(servers) > 0 {
				mustReject(o, "other-gca", map[string]interface{}{"kind": "other-gca"})
			} else {
				res.Count("mut.other-gca-nothing-signed")
			}
		}
		// timestamp shifts, re-signed with the contacted server's real key
		for _, delta := range []int64{-86401, -86400, -86399, 86399, 86400, 86401, -200000, 200000, 0} {
			for try := 0; try < 6; try++ {
				base := time.Now().Unix()
				cnt := append([]byte{}, content...)
				binary.LittleEndian.PutUint64(cnt[len(cnt)-8:], uint64(base+delta))
				m := resign(cnt, rs.keys)
				o := parseVia(res, peer, c, m, rs.keys.pub, rs.gca.pub)
				if o.now != base {
					res.Discarded++
					continue
				}
				pcs = append(pcs, core.Tuple(core.Nat(0), "(MReplace "+core.Hex(m)+" (Some "+core.Hex(rs.keys.pub[:])+"))", core.Z(o.now), o.gallina()))
				within := delta >= -86400 && delta <= 86400
				res.Count(fmt.Sprintf("mut.timeshift%+d", delta))
				res.Case(map[string]interface{}{"kind": "timeshift", "state": label, "delta": delta, "outcome": o.errClass}, fmt.Sprint(label, "ts", delta), true)
				if o.ok != within || (o.ok && !o.same(obs0)) {
					res.Fail(fmt.Sprintf("reply signed %+d s from the client's clock: accepted=%v", delta, o.ok), fmt.Sprintf("freshness:%+d", delta), map[string]interface{}{"state": label, "delta": delta})
				}
				break
			}
		}
		// inner signatures: entry / order tampered, outer signature re-made with the real server key
		if len(content) > 712-64 {
			region := len(content) - 72 - 64 - 576 // bytes of the list
			var spots []int
			if region > 0 {
				spots = append(spots, 576+32, 576+34+rng.Intn(region-34), len(content)-72-64-1, len(content)-72-64-65, len(content)-72-64-70) // ban flag, somewhere, last byte of the last entry signature, its UDP port, its HTTP port
			}
			if d.mig != nil {
				spots = append(spots, 540, 572, len(content)-72-1, len(content)-72-64) // new GCA, new id, order signature
			}
			// the client parsing these already knows every server of the list (as after an earlier sync):
			// an entry it knows is checked like any other
			ck := client.VerifSyncIdentityClient(d.key.pub, d.id)
			kn := map[glow.PublicKey]client.GCAServer{}
			lst := servers
			if d.mig != nil {
				lst = d.mig.NewServers
			}
			for _, e := range lst {
				kn[e.PublicKey] = client.GCAServer{Banned: e.Banned, Location: e.Location, HttpPort: e.HttpPort, TcpPort: e.TcpPort, UdpPort: e.UdpPort}
			}
			ck.VerifSyncSetServers(kn)
			for _, p := range spots {
				cnt := append([]byte{}, content...)
				cnt[p] ^= 1 << uint(rng.Intn(8))
				m := resign(cnt, rs.keys)
				o := parseVia(res, peer, ck, m, rs.keys.pub, rs.gca.pub)
				pcs = append(pcs, core.Tuple(core.Nat(0), "(MReplace "+core.Hex(m)+" (Some "+core.Hex(rs.keys.pub[:])+"))", core.Z(o.now), o.gallina()))
				mustReject(o, "inner-tamper", map[string]interface{}{"kind": "inner-tamper", "pos": p})
			}
		}
		for off := 0; off < len(pcs); off += 2500 {
			end := off + 2500
			if end > len(pcs) {
				end = len(pcs)
			}
			if err := res.CasesFile(outDir, fmt.Sprintf("cases_syncwire_%02d_%d", stateNo, off/2500), syncImports, "pcase", pcs[off:end], "pc_mismatches "+modelMinLen+" ["+base+"]"); err != nil {
				return err
			}
		}
		return nil
	}

	// ---- unknown short id: refusal
	{
		w, err := fetchSync(rs.tcp, unknownID)
		if err != nil {
			return nil, err
		}
		c := client.VerifSyncIdentityClient(main.key.pub, unknownID)
		o := parseVia(res, peer, c, w, rs.keys.pub, rs.gca.pub)
		res.Count("refusal")
		res.Case(map[string]interface{}{"kind": "refusal", "bytes": hex.EncodeToString(w), "outcome": o.errClass}, "refusal", true)
		if !bytes.Equal(w, []byte{0}) || o.ok || o.panicked != "" {
			res.Fail("unknown short id is not refused with a single zero byte / the client does not reject it", "refusal", map[string]interface{}{"bytes": hex.EncodeToString(w)})
		}
		if err := res.CasesFile(outDir, "cases_syncwire_refusal", syncImports, "pcase",
			[]string{core.Tuple(core.Nat(0), "MNone", core.Z(o.now), o.gallina())},
			"pc_mismatches "+modelMinLen+" ["+core.Tuple(core.Hex(main.key.pub[:]), core.Hex(rs.keys.pub[:]), core.Hex(rs.gca.pub[:]), core.Hex(w), "[]")+"]"); err != nil {
			return nil, err
		}
	}

	// ---- state 0: empty window, empty list
	glow.SetCurrentTimeslot(0)
	if err := snapshot(main, "empty"); err != nil {
		return nil, err
	}

	// ---- authorized servers: location lengths 0, 1, 254, 255 (+ random), ban flags
	locs := []string{"", "!", strings.Repeat("a", 254), strings.Repeat("b", 255), "127.0.0.1", "host-" + fmt.Sprint(rng.Intn(1000)), strings.Repeat("c", rng.Range(2, 253)), "127.0.0.1"}
	nServers := rng.Range(5, 8)
	var posted []keyPair
	postServer := func(i int, banned bool, key glow.PublicKey) {
		as := mkAS(tab, rs.gca, key, banned, locs[i%len(locs)], 9, 9, uint16(rng.Range(1, 65535)))
		rs.postJSON("authorized-servers", as)
	}
	// ---- state 1: reports at the lower window edge, byte boundaries, a banned slot; two servers
	for _, s := range []uint32{0, 1, 7, 8, 9, 15, 16, uint32(rng.Range(17, 400)), 431, 432} {
		report(main, s, uint64(rng.Range(2, 1<<30)), 0)
	}
	report(main, 10, ^uint64(0)-499, 0) // a negative reading (-500 as the client encodes it): a record like any other
	report(main, 11, 1<<63, 0)          // the most negative value
	report(main, 12, 1<<63-1, 0)        // the largest positive one: over capacity, the slot is banned (still a record)
	report(main, 5, 777, 0)
	report(main, 5, 778, 0) // second, different report: the slot is banned (PowerOutput 1) and still counts as a record
	report(main, 433, 5, 0) // too far in the future: refused
	report(main, 3, 1, 0)   // sentinel values are refused
	report(main, 4, 0, 0)
	report(other, 2, 99, 0)
	for i := 0; i < 2; i++ {
		k := newKey()
		posted = append(posted, k)
		postServer(i, false, k.pub)
	}
	waitRecords(main, func(p []uint64) bool { return p[432] != 0 && p[5] == 1 && p[10] != 0 && p[11] != 0 && p[12] != 0 })
	if err := snapshot(main, "lower-edge"); err != nil {
		return nil, err
	}
	res.Count("window.bit0")
	res.Count("window.banned-slot")

	// ---- state 2: now = 432 .. more reports, more servers, one becomes banned
	glow.SetCurrentTimeslot(432)
	for i := 0; i < 12; i++ {
		report(main, uint32(rng.Range(433, 864)), uint64(rng.Range(2, 1<<40)), 432)
	}
	report(main, 864, 2, 432) // the smallest accepted power
	for i := 2; i < nServers; i++ {
		k := newKey()
		posted = append(posted, k)
		postServer(i, i == 3, k.pub)
	}
	postServer(1, true, posted[1].pub) // ban an existing one
	waitRecords(main, func(p []uint64) bool { return p[864] != 0 })
	if err := snapshot(main, "servers-0-1-254-255"); err != nil {
		return nil, err
	}
	res.Count("servers.loc0")
	res.Count("servers.loc1")
	res.Count("servers.loc254")
	res.Count("servers.loc255")
	res.Count("servers.banned")

	// ---- state 3: now = 3200 (the last moment before rotation is due): high indices
	glow.SetCurrentTimeslot(3200)
	for _, s := range []uint32{2768, 2769, 3199, 3200, 3201, 3631, 3632, uint32(rng.Range(2770, 3630))} {
		report(main, s, uint64(rng.Range(2, 1<<30)), 3200)
	}
	waitRecords(main, func(p []uint64) bool { return p[3632] != 0 })
	if err := snapshot(main, "upper-indices"); err != nil {
		return nil, err
	}
	res.Count("window.index3632")

	// ---- migrations with 0..4 new servers
	for k, d := range migDevs {
		ng := newKey()
		var ns []server.AuthorizedServer
		for j := 0; j < k; j++ {
			ns = append(ns, mkAS(tab, ng, newKey().pub, j == 2, locs[(j+k)%4], uint16(rng.U64()), uint16(rng.U64()), uint16(rng.U64())))
		}
		m := mkMig(tab, rs.gca, d.key.pub, ng.pub, uint32(rng.Range(1, 1<<30)), ns)
		code, err := rs.postJSON("equipment-migrate", m)
		if err != nil || code != 200 {
			return nil, fmt.Errorf("migration post failed: %v %d", err, code)
		}
		d.mig = &m
		if k%2 == 0 {
			report(d, uint32(3000+k), 4242, 3200)
			waitRecords(d, func(p []uint64) bool { return p[3000+k] != 0 })
		}
		if err := snapshot(d, fmt.Sprintf("migration-%d-servers", k)); err != nil {
			return nil, err
		}
	}

	// ---- state: rotation (offset becomes 2016)
	glow.SetCurrentTimeslot(3300)
	rotated := false
	for i := 0; i < 300; i++ {
		w, err := fetchSync(rs.tcp, main.id)
		if err == nil && len(w) > 38 && binary.LittleEndian.Uint32(w[34:38]) == 2016 {
			rotated = true
			break
		}
		time.Sleep(10 * time.Millisecond)
	}
	if !rotated {
		return nil, fmt.Errorf("server did not rotate its window")
	}
	report(main, 3400, 12345, 3300)
	report(main, 2016, 3, 3300) // outside now-432: refused
	waitRecords(main, func(p []uint64) bool { return p[3400-2016] != 0 })
	if err := snapshot(main, "rotated-offset-2016"); err != nil {
		return nil, err
	}
	res.Count("window.offset-nonzero")
	if err := snapshot(other, "other-device"); err != nil {
		return nil, err
	}

	// ---- so many authorized servers that the reply outgrows its 16-bit length prefix
	for i := 0; i < 182; i++ {
		postServer(3, i%5 == 0, newKey().pub)
	}
	if err := snapshot(main, "reply-over-64k"); err != nil {
		return nil, err
	}

	for off := 0; off < len(vcases); off += 6 {
		end := off + 6
		if end > len(vcases) {
			end = len(vcases)
		}
		if err := res.CasesFile(outDir, fmt.Sprintf("cases_syncview_%d", off/6), syncImports, "vcase", vcases[off:end], "v_mismatches"); err != nil {
			return nil, err
		}
	}
	res.Required = append(res.Required, "refusal", "state.empty", "state.lower-edge", "state.servers-0-1-254-255", "state.upper-indices",
		"state.migration-0-servers", "state.migration-4-servers", "state.rotated-offset-2016", "state.reply-over-64k", "window.bit0", "window.banned-slot",
		"window.index3632", "window.offset-nonzero", "servers.loc0", "servers.loc255", "mut.bitflip", "mut.truncation", "mut.extension",
		"mut.extension-unread", "mut.resigned-random", "mut.other-server-key", "mut.other-device", "mut.other-gca", "mut.inner-tamper",
		"mut.timeshift-86401", "mut.timeshift-86400", "mut.timeshift-86399", "mut.timeshift+86399", "mut.timeshift+86400", "mut.timeshift+86401")
	res.Rule = "server states built through UDP reports (window edges 0/7/8/431/432/864/3199..3632, banned slot, power 2, refused reports), HTTP posts (0..8 servers, locations of 0/1/254/255 bytes, bans), migration orders with 0..4 new servers, rotation to offset 2016, 190 servers (reply beyond 64 KiB); per state: genuine reply vs public data, sampled (quick) or all (thorough, small replies) single-bit flips, truncations, extensions, re-signings, key swaps, timestamp shifts +-86399/86400/86401 re-signed with the server key, inner-signature tampering; distinct by (state, mutation)"
	return res, nil
}
