//go:build test && verif

package suites

// Suite "tornfiles" (C15 length clause at the persistence layer, shared with C04/C05): a server
// directory whose append-only files end in an incomplete record -- extra bytes that are not a whole
// record -- must be refused at start-up ("inputs of the wrong length are refused"), for each of the three
// record files and several tail lengths.  A server that starts on such a file appends the next record
// behind the stray bytes and shifts every later record.  Oracle only (the model's disk holds whole
// records); the untouched copy of the same directory must start.

import (
	"fmt"
	"os"
	"path/filepath"

	"verifharness/core"
	"verifharness/srv"
)

func init() {
	core.Register("tornfiles", func(seed uint64, tier, out string) (*core.Result, error) {
		return shardedServerSuite("tornfiles", seed, tier, out, tornWorker)
	})
}

func tornWorker(res *core.Result, r *core.RNG, tier, out string) error {
	var items []string
	if core.Shard != 0 {
		res.Required = nil
		return writeServerCases(res, out, "tornfiles", items)
	}
	s, err := started(res, r, "torn", 500, false, 1000, 1000)
	if err != nil {
		return err
	}
	w := s.w
	for k := 0; k < 6; k++ {
		s.send(s.a.Devices[k%2], w.Now-uint32(k), 300+uint64(k))
	}
	w.SetNow(3300)
	s.rotateTick() // one archived week: allDeviceStats.dat holds a record
	s.send(s.a.Devices[0], w.Now, 444)
	w.SnapHop()
	now := w.Now
	if p := w.CloseServer(); p != "" {
		s.fail("server consistency check (CheckInvariants) panics at shutdown: "+p, "checkinvariants-panic")
	}
	s.alive = false
	// control: the untouched copy starts
	ctl := w.Dir + "-ctl"
	if srv.CopyDir(w.Dir, ctl) == nil {
		if ok, e, p := w.TryStart(ctl, now); !ok {
			w.Failed = fmt.Sprintf("control copy does not start: %v %s", e, p)
		}
	}
	files := []struct {
		name string
		rec  int
	}{{"equipment-authorizations.dat", 148}, {"equipment-reports.dat", 80}, {"allDeviceStats.dat", 4 + 2*32288 + 4 + 64}}
	for _, f := range files {
		for _, extra := range []int{1, 61, f.rec - 1, f.rec + 7} {
			img := fmt.Sprintf("%s-torn-%d", w.Dir, extra)
			if srv.CopyDir(w.Dir, img) != nil {
				continue
			}
			fh, err := os.OpenFile(filepath.Join(img, f.name), os.O_APPEND|os.O_WRONLY, 0644)
			if err != nil {
				os.RemoveAll(img)
				continue
			}
			tail := r.Bytes(extra)
			if f.name == "allDeviceStats.dat" && extra >= 4 {
				tail[0], tail[1], tail[2], tail[3] = 2, 0, 0, 0 // a plausible device count in front of too few bytes
			}
			fh.Write(tail)
			fh.Close()
			started, _, pan := w.TryStart(img, now)
			res.Count("torn." + f.name)
			res.Case(map[string]interface{}{"file": f.name, "extra_bytes": extra, "started": started, "panic": pan}, fmt.Sprint(f.name, extra), !started)
			if pan != "" {
				s.fail(fmt.Sprintf("start-up panics on %s ending in %d bytes that are not a whole record: %s", f.name, extra, pan), "torn-file-panic:"+f.name)
			} else if started {
				s.fail(fmt.Sprintf("the server starts on %s ending in %d bytes that are not a whole record (the next record is appended behind them and every later record is shifted)", f.name, extra), "torn-file-accepted:"+f.name)
			}
		}
	}
	res.Required = []string{"torn.equipment-authorizations.dat", "torn.equipment-reports.dat", "torn.allDeviceStats.dat"}
	res.Rule = "a real server directory after reports and one rotation; each record file extended by 1 / 61 / record-1 / record+7 stray bytes; start-up must refuse (the untouched copy must start); oracle only"
	s.finish(&items)
	return writeServerCases(res, out, "tornfiles", items)
}
