(* Theorems about the weekly statistics codec (CodecStats.v): exact round trip of the
   stream decoder with the consumed length, concatenated records, refusal of truncated
   records, decode-then-encode, totality after the repair of D15 and the fatal witness
   before it, signing bytes. *)
From Coq Require Import ZArith List Bool String Lia.
From GCA Require Import Bytes Bytes_lemmas Codec Layout_lemmas CodecStats.
Import ListNotations.
Open Scope Z_scope.
Notation length := List.length.

Lemma dev_size_z_eq : Z.of_nat dev_size = dev_size_z.
Proof. vm_compute. reflexivity. Qed.
Lemma dev_size_pos : (0 < dev_size)%nat.
Proof. unfold dev_size. lia. Qed.
Lemma pow256_4' : 256 ^ Z.of_nat 4 = 2^32. Proof. reflexivity. Qed.
Lemma pow256_8' : 256 ^ Z.of_nat 8 = 2^64. Proof. reflexivity. Qed.

(* length-indexed variants of the Bytes lemmas *)
Lemma le_enc_dec_len w l : length l = w -> le_enc w (le_dec l) = l.
Proof. intros <-. apply le_enc_dec. Qed.
Lemma le_dec_range_len w l : length l = w -> 0 <= le_dec l < 256 ^ Z.of_nat w.
Proof. intros <-. apply le_dec_range. Qed.
Lemma firstn_app_len {A} n (a b : list A) : length a = n -> firstn n (a ++ b) = a.
Proof. intros <-. apply firstn_app_exact. Qed.
Lemma skipn_app_len {A} n (a b : list A) : length a = n -> skipn n (a ++ b) = b.
Proof. intros <-. apply skipn_app_exact. Qed.
Lemma firstn_4parts (b : bytes) (a c d e : nat) :
  firstn (a + c + d + e) b = firstn a b ++ firstn c (skipn a b) ++ slice (a + c) d b ++ slice (a + c + d) e b.
Proof.
  change (firstn (a + c + d + e) b) with (slice 0 (a + c + d + e) b).
  rewrite !slice_split. unfold slice. cbn [skipn Nat.add]. rewrite <- !app_assoc. reflexivity.
Qed.

(* ---- arrays of 64-bit values ---------------------------------------------------------- *)
Lemma u64s_enc_length l : length (u64s_enc l) = (8 * length l)%nat.
Proof. induction l as [|x l IH]; cbn [u64s_enc length]; [reflexivity|]. rewrite app_length, le_enc_length, IH. lia. Qed.

Lemma u64s_dec_enc l : forall rest, Forall u64_ok l -> u64s_dec (length l) (u64s_enc l ++ rest) = l.
Proof.
  induction l as [|x l IH]; intros rest H; [reflexivity|].
  inversion H as [|? ? Hx Hl]; subst. cbn [length u64s_dec u64s_enc]. rewrite <- app_assoc.
  rewrite firstn_app_len, skipn_app_len by apply le_enc_length.
  rewrite le_dec_enc_small by (rewrite pow256_8'; exact Hx). rewrite IH by exact Hl. reflexivity.
Qed.

Lemma u64s_dec_length n : forall b, length (u64s_dec n b) = n.
Proof. induction n as [|n IH]; intros b; cbn [u64s_dec length]; [reflexivity | rewrite IH; reflexivity]. Qed.

Lemma u64s_enc_dec n : forall b, (8 * n <= length b)%nat ->
  u64s_enc (u64s_dec n b) = firstn (8 * n) b /\ Forall u64_ok (u64s_dec n b).
Proof.
  induction n as [|n IH]; intros b H.
  - cbn. auto.
  - cbn [u64s_dec u64s_enc].
    assert (L8 : length (firstn 8 b) = 8%nat) by (rewrite firstn_length; lia).
    destruct (IH (skipn 8 b)) as [E F]; [rewrite skipn_length; lia|]. split.
    + rewrite E. rewrite (le_enc_dec_len 8) by exact L8.
      replace (8 * S n)%nat with (8 + 8 * n)%nat by lia. rewrite firstn_add. reflexivity.
    + constructor; [|exact F]. unfold u64_ok. rewrite <- pow256_8'. apply le_dec_range_len. exact L8.
Qed.

(* ---- one device -------------------------------------------------------------------------- *)
Lemma dev_encode_length d : dev_wf d -> length (dev_encode d) = dev_size.
Proof.
  intros (Hk & Hp & Hi & _ & _). unfold dev_encode, dev_size.
  rewrite !app_length, pad_length, !u64s_enc_length, Hp, Hi. reflexivity.
Qed.

Lemma dev_decode_encode d : dev_wf d -> dev_decode (dev_encode d) = d.
Proof.
  intros (Hk & Hp & Hi & Fp & Fi). unfold dev_decode, dev_encode. rewrite pad_exact by exact Hk.
  destruct d as [k p i]. cbn [d_key d_pow d_imp] in *. f_equal.
  - apply firstn_app_len. exact Hk.
  - rewrite skipn_app_len by exact Hk. rewrite <- Hp. apply u64s_dec_enc. exact Fp.
  - rewrite app_assoc, skipn_app_len by (rewrite app_length, u64s_enc_length; lia).
    rewrite <- (app_nil_r (u64s_enc i)). rewrite <- Hi. apply u64s_dec_enc. exact Fi.
Qed.

Lemma dev_encode_decode b : length b = dev_size -> dev_encode (dev_decode b) = b /\ dev_wf (dev_decode b).
Proof.
  intros H. unfold dev_size in H. unfold dev_encode, dev_decode, dev_wf. cbn [d_key d_pow d_imp].
  assert (L32 : length (firstn 32 b) = 32%nat) by (rewrite firstn_length; lia).
  destruct (u64s_enc_dec slots (skipn 32 b)) as [E1 F1]; [rewrite skipn_length; lia|].
  destruct (u64s_enc_dec slots (skipn (32 + 8 * slots) b)) as [E2 F2]; [rewrite skipn_length; lia|].
  split.
  - rewrite pad_exact by exact L32. rewrite E1, E2.
    rewrite skipn_add. rewrite <- (firstn_add (8 * slots) (8 * slots) (skipn 32 b)).
    rewrite (firstn_all2 (skipn 32 b)) by (rewrite skipn_length; lia).
    apply firstn_skipn.
  - rewrite !u64s_dec_length. auto.
Qed.

(* ---- device lists ------------------------------------------------------------------------- *)
Lemma devs_encode_length l : Forall dev_wf l -> length (devs_encode l) = (length l * dev_size)%nat.
Proof.
  induction 1 as [|d l Hd Hl IH]; [reflexivity|].
  cbn [devs_encode length]. rewrite app_length, dev_encode_length, IH by exact Hd. lia.
Qed.

Lemma devs_decode_encode l : forall rest, Forall dev_wf l -> devs_decode (length l) (devs_encode l ++ rest) = l.
Proof.
  induction l as [|d l IH]; intros rest H; [reflexivity|].
  inversion H as [|? ? Hd Hl]; subst. cbn [length devs_decode devs_encode]. rewrite <- app_assoc.
  rewrite firstn_app_len, skipn_app_len by (apply dev_encode_length; exact Hd).
  rewrite dev_decode_encode by exact Hd. rewrite IH by exact Hl. reflexivity.
Qed.

Lemma devs_decode_length n : forall b, length (devs_decode n b) = n.
Proof. induction n as [|n IH]; intros b; cbn [devs_decode length]; [reflexivity | rewrite IH; reflexivity]. Qed.

Lemma devs_encode_decode n : forall b, (n * dev_size <= length b)%nat ->
  devs_encode (devs_decode n b) = firstn (n * dev_size) b /\ Forall dev_wf (devs_decode n b).
Proof.
  induction n as [|n IH]; intros b H.
  - cbn. auto.
  - cbn [devs_decode devs_encode]. cbn [Nat.mul] in H.
    assert (Ld : length (firstn dev_size b) = dev_size) by (rewrite firstn_length; lia).
    destruct (dev_encode_decode _ Ld) as [E W].
    destruct (IH (skipn dev_size b)) as [E' W']; [rewrite skipn_length; lia|]. split.
    + rewrite E, E'. cbn [Nat.mul]. rewrite firstn_add. reflexivity.
    + constructor; assumption.
Qed.

(* ---- the whole record ----------------------------------------------------------------------- *)
Lemma stats_body_length x : Forall dev_wf (s_devs x) ->
  length (stats_body x) = (4 + length (s_devs x) * dev_size + 4)%nat.
Proof. intros H. unfold stats_body. rewrite !app_length, !le_enc_length, devs_encode_length by exact H. lia. Qed.

Theorem stats_serialize_length x : stats_wf x ->
  length (stats_serialize x) = (4 + length (s_devs x) * dev_size + 4 + 64)%nat.
Proof.
  intros (_ & Hd & _ & _). unfold stats_serialize. rewrite app_length, stats_body_length, pad_length by exact Hd. lia.
Qed.

Lemma stats_need_nat (c : nat) : stats_need (Z.of_nat c) = Z.of_nat (4 + c * dev_size + 4 + 64).
Proof.
  unfold stats_need. rewrite <- dev_size_z_eq. rewrite !Nat2Z.inj_add, Nat2Z.inj_mul. reflexivity.
Qed.

(* decoding the head of a buffer that starts with a serialized record *)
Theorem stats_stream_roundtrip memlimit x rest : stats_wf x ->
  stats_alloc (Z.of_nat (length (s_devs x))) <= memlimit ->
  stats_stream_decode memlimit (stats_serialize x ++ rest) = DOk x (length (stats_serialize x)).
Proof.
  intros Hwf Hmem. pose proof (stats_serialize_length x Hwf) as Hlen.
  destruct Hwf as (Hc & Hd & Ht & Hs).
  set (n := length (s_devs x)) in *.
  unfold stats_stream_decode.
  assert (Hb : stats_serialize x ++ rest =
               le_enc 4 (Z.of_nat n) ++ devs_encode (s_devs x) ++ le_enc 4 (s_tso x) ++ pad 64 (s_sig x) ++ rest).
  { unfold stats_serialize, stats_body. fold n. rewrite <- !app_assoc. reflexivity. }
  assert (Hl : length (stats_serialize x ++ rest) = (4 + n * dev_size + 4 + 64 + length rest)%nat).
  { rewrite app_length, Hlen. reflexivity. }
  destruct (length (stats_serialize x ++ rest) <? 4)%nat eqn:E4; [apply Nat.ltb_lt in E4; lia|].
  assert (Hcount : le_dec (firstn 4 (stats_serialize x ++ rest)) = Z.of_nat n).
  { rewrite Hb. rewrite firstn_app_len by apply le_enc_length.
    apply le_dec_enc_small. rewrite pow256_4'. lia. }
  rewrite Hcount. rewrite stats_need_nat.
  destruct (Z.of_nat (length (stats_serialize x ++ rest)) <? Z.of_nat (4 + n * dev_size + 4 + 64)) eqn:En;
    [apply Z.ltb_lt in En; lia|].
  destruct (memlimit <? stats_alloc (Z.of_nat n)) eqn:Em; [apply Z.ltb_lt in Em; lia|].
  rewrite Nat2Z.id. rewrite Hlen. f_equal.
  unfold stats_of_bytes. destruct x as [devs tso sg]. cbn [s_devs s_tso s_sig] in *. f_equal.
  - rewrite Hb. rewrite skipn_app_len by apply le_enc_length.
    apply devs_decode_encode. exact Hd.
  - rewrite Hb. rewrite app_assoc.
    rewrite (slice_at (le_enc 4 (Z.of_nat n) ++ devs_encode devs) (le_enc 4 tso) (pad 64 sg ++ rest) (4 + n * dev_size) 4).
    + apply le_dec_enc_small. rewrite pow256_4'. exact Ht.
    + rewrite app_length, le_enc_length, devs_encode_length by exact Hd. reflexivity.
    + apply le_enc_length.
  - rewrite Hb.
    replace (le_enc 4 (Z.of_nat n) ++ devs_encode devs ++ le_enc 4 tso ++ pad 64 sg ++ rest)
      with ((le_enc 4 (Z.of_nat n) ++ devs_encode devs ++ le_enc 4 tso) ++ pad 64 sg ++ rest)
      by (rewrite <- !app_assoc; reflexivity).
    rewrite (slice_at _ (pad 64 sg) rest (4 + n * dev_size + 4) 64).
    + apply pad_exact. exact Hs.
    + rewrite !app_length, !le_enc_length, devs_encode_length by exact Hd. lia.
    + apply pad_length.
Qed.

(* what an accepted input looks like: the decoder consumed exactly the serialization of the
   value it returns, which is a well-formed value *)
Theorem stats_stream_decode_sound memlimit b x n : stats_stream_decode memlimit b = DOk x n ->
  stats_serialize x = firstn n b /\ stats_wf x /\ (72 <= n <= length b)%nat.
Proof.
  unfold stats_stream_decode.
  destruct (length b <? 4)%nat eqn:E4; [discriminate|]. apply Nat.ltb_ge in E4.
  set (count := le_dec (firstn 4 b)).
  assert (L4 : length (firstn 4 b) = 4%nat) by (rewrite firstn_length; lia).
  assert (Hcr : 0 <= count < 2^32).
  { unfold count. rewrite <- pow256_4'. apply le_dec_range_len. exact L4. }
  destruct (Z.of_nat (length b) <? stats_need count) eqn:En; [discriminate|]. apply Z.ltb_ge in En.
  destruct (memlimit <? stats_alloc count) eqn:Em; [discriminate|].
  set (c := Z.to_nat count).
  assert (Hc : Z.of_nat c = count) by (unfold c; apply Z2Nat.id; lia).
  rewrite <- Hc, stats_need_nat in En. apply Nat2Z.inj_le in En.
  intros H. injection H as <- <-.
  destruct (devs_encode_decode c (skipn 4 b)) as [Ed Wd]; [rewrite skipn_length; lia|].
  assert (Lt : length (slice (4 + c * dev_size) 4 b) = 4%nat) by (apply slice_length; lia).
  assert (Ls : length (slice (4 + c * dev_size + 4) 64 b) = 64%nat) by (apply slice_length; lia).
  split; [|split].
  - unfold stats_serialize, stats_body, stats_of_bytes. cbn [s_devs s_tso s_sig].
    rewrite devs_decode_length, Hc. unfold count. rewrite (le_enc_dec_len 4) by exact L4.
    rewrite Ed. rewrite (le_enc_dec_len 4) by exact Lt. rewrite pad_exact by exact Ls.
    rewrite <- !app_assoc. exact (eq_sym (firstn_4parts b 4 (c * dev_size) 4 64)).
  - unfold stats_wf, stats_of_bytes. cbn [s_devs s_tso s_sig]. rewrite devs_decode_length.
    repeat split; try lia; try assumption.
    + apply (le_dec_range_len 4). exact Lt.
    + rewrite <- pow256_4'. apply (le_dec_range_len 4). exact Lt.
  - lia.
Qed.

Theorem stats_stream_decode_injective memlimit b1 b2 x n1 n2 :
  stats_stream_decode memlimit b1 = DOk x n1 -> stats_stream_decode memlimit b2 = DOk x n2 ->
  n1 = n2 /\ firstn n1 b1 = firstn n2 b2.
Proof.
  intros H1 H2. apply stats_stream_decode_sound in H1 as (E1 & _ & B1). apply stats_stream_decode_sound in H2 as (E2 & _ & B2).
  assert (n1 = n2).
  { apply (f_equal (@length _)) in E1, E2. rewrite firstn_length in E1, E2. lia. }
  split; [assumption | congruence].
Qed.

(* a truncated record is refused *)
Theorem stats_truncated_refused memlimit x n : stats_wf x -> (n < length (stats_serialize x))%nat ->
  stats_stream_decode memlimit (firstn n (stats_serialize x)) = DErr.
Proof.
  intros Hwf Hn. pose proof (stats_serialize_length x Hwf) as Hlen. destruct Hwf as (Hc & Hd & Ht & Hs).
  unfold stats_stream_decode.
  assert (Lf : length (firstn n (stats_serialize x)) = n) by (rewrite firstn_length; lia).
  rewrite Lf. destruct (n <? 4)%nat eqn:E4; [reflexivity|]. apply Nat.ltb_ge in E4.
  assert (Hcount : le_dec (firstn 4 (firstn n (stats_serialize x))) = Z.of_nat (length (s_devs x))).
  { rewrite firstn_firstn. replace (Nat.min 4 n) with 4%nat by lia.
    unfold stats_serialize, stats_body. rewrite <- !app_assoc.
    rewrite firstn_app_len by apply le_enc_length.
    apply le_dec_enc_small. rewrite pow256_4'. lia. }
  rewrite Hcount, stats_need_nat.
  destruct (Z.of_nat n <? Z.of_nat (4 + length (s_devs x) * dev_size + 4 + 64)) eqn:En; [reflexivity|].
  apply Z.ltb_ge in En. lia.
Qed.

(* ---- D15 ---------------------------------------------------------------------------------- *)
(* after the repair the decoder never asks for more memory than the input occupies: no
   input can kill the process *)
Theorem stats_stream_total memlimit b : Z.of_nat (length b) <= memlimit ->
  stats_stream_decode memlimit b <> DFatal.
Proof.
  intros Hm. unfold stats_stream_decode.
  destruct (length b <? 4)%nat; [discriminate|].
  destruct (Z.of_nat (length b) <? stats_need (le_dec (firstn 4 b))) eqn:En; [discriminate|].
  destruct (memlimit <? stats_alloc (le_dec (firstn 4 b))) eqn:Em; [|discriminate].
  apply Z.ltb_ge in En. apply Z.ltb_lt in Em. unfold stats_need, stats_alloc in *. lia.
Qed.

(* before the repair: four bytes kill every process that cannot allocate 138 TB *)
Theorem stats_stream_prefix_fatal memlimit : memlimit < (2^32 - 1) * dev_size_z ->
  stats_stream_decode_prefix memlimit [Byte.xff; Byte.xff; Byte.xff; Byte.xff] = DFatal.
Proof.
  intros H. unfold stats_stream_decode_prefix.
  change (length [Byte.xff; Byte.xff; Byte.xff; Byte.xff] <? 4)%nat with false. cbv iota.
  change (le_dec (firstn 4 [Byte.xff; Byte.xff; Byte.xff; Byte.xff])) with 4294967295.
  unfold stats_alloc. destruct (memlimit <? 4294967295 * dev_size_z) eqn:E; [reflexivity|].
  apply Z.ltb_ge in E. change (2^32 - 1) with 4294967295 in H. lia.
Qed.

(* the repaired decoder refuses the same input *)
Theorem stats_stream_ffffffff_refused memlimit :
  stats_stream_decode memlimit [Byte.xff; Byte.xff; Byte.xff; Byte.xff] = DErr.
Proof. reflexivity. Qed.

(* ---- concatenated records (the caller's loop) ------------------------------------------------ *)
Lemma stats_serialize_nonempty x : stats_wf x -> stats_serialize x <> [].
Proof.
  intros H E. apply (f_equal (@length _)) in E. rewrite stats_serialize_length in E by exact H. cbn [length] in E. lia.
Qed.

Theorem stats_stream_all_roundtrip memlimit xs : forall fuel, Forall stats_wf xs ->
  Forall (fun x => stats_alloc (Z.of_nat (length (s_devs x))) <= memlimit) xs ->
  (length xs < fuel)%nat ->
  stats_stream_all fuel memlimit (stats_list_encode xs) = DOk xs (length (stats_list_encode xs)).
Proof.
  induction xs as [|x xs IH]; intros fuel Hwf Hm Hf.
  - destruct fuel; [cbn in Hf; lia|]. reflexivity.
  - destruct fuel as [|fuel]; [cbn in Hf; lia|].
    inversion Hwf as [|? ? Hx Hxs]; subst. inversion Hm as [|? ? Mx Mxs]; subst.
    cbn [stats_stream_all stats_list_encode].
    destruct (stats_serialize x ++ stats_list_encode xs) as [|b0 bs] eqn:Eb.
    { apply app_eq_nil in Eb as [Eb _]. exfalso. exact (stats_serialize_nonempty x Hx Eb). }
    rewrite <- Eb. rewrite stats_stream_roundtrip by assumption.
    rewrite skipn_app_exact. rewrite IH; [|assumption|assumption|cbn in Hf; lia].
    rewrite app_length. reflexivity.
Qed.

(* the fuel given by the caller, S (length b), is never exhausted *)
Theorem stats_stream_all_fuel_enough memlimit : forall fuel b, (length b < fuel)%nat ->
  stats_stream_all fuel memlimit b <> DFuel.
Proof.
  induction fuel as [|fuel IH]; intros b Hf; [lia|].
  cbn [stats_stream_all]. destruct b as [|b0 bs]; [discriminate|].
  destruct (stats_stream_decode memlimit (b0 :: bs)) as [x n| | |] eqn:Ed; try discriminate.
  - apply stats_stream_decode_sound in Ed as (_ & _ & Hn).
    specialize (IH (skipn n (b0 :: bs))).
    destruct (stats_stream_all fuel memlimit (skipn n (b0 :: bs))); try discriminate.
    exfalso. apply IH; [|reflexivity]. rewrite skipn_length. lia.
  - intros _. unfold stats_stream_decode in Ed.
    destruct (length (b0 :: bs) <? 4)%nat; [discriminate|].
    destruct (Z.of_nat (length (b0 :: bs)) <? stats_need (le_dec (firstn 4 (b0 :: bs)))); [discriminate|].
    destruct (memlimit <? stats_alloc (le_dec (firstn 4 (b0 :: bs)))); discriminate.
Qed.

Theorem stats_stream_all_total memlimit : forall fuel b, Z.of_nat (length b) <= memlimit ->
  stats_stream_all fuel memlimit b <> DFatal.
Proof.
  induction fuel as [|fuel IH]; intros b Hm; [discriminate|].
  cbn [stats_stream_all]. destruct b as [|b0 bs]; [discriminate|].
  destruct (stats_stream_decode memlimit (b0 :: bs)) as [x n| | |] eqn:Ed; try discriminate.
  - specialize (IH (skipn n (b0 :: bs))).
    destruct (stats_stream_all fuel memlimit (skipn n (b0 :: bs))); try discriminate.
    exfalso. apply IH; [|reflexivity]. rewrite skipn_length. lia.
  - exfalso. exact (stats_stream_total memlimit _ Hm Ed).
Qed.

(* ---- signing bytes ------------------------------------------------------------------------------- *)
Theorem stats_signing_layout x : stats_wf x ->
  stats_signing_bytes x =
    ascii_bytes "AllDeviceStats" ++ firstn (length (stats_serialize x) - 64) (stats_serialize x).
Proof.
  intros (_ & Hd & _ & _). unfold stats_signing_bytes, stats_serialize. f_equal.
  rewrite app_length, pad_length. replace (length (stats_body x) + 64 - 64)%nat with (length (stats_body x)) by lia.
  rewrite firstn_app_exact. reflexivity.
Qed.

Theorem stats_signing_injective x1 x2 : stats_wf x1 -> stats_wf x2 ->
  stats_signing_bytes x1 = stats_signing_bytes x2 -> s_devs x1 = s_devs x2 /\ s_tso x1 = s_tso x2.
Proof.
  intros H1 H2 E. unfold stats_signing_bytes in E. apply app_inv_head in E.
  set (y1 := {| s_devs := s_devs x1; s_tso := s_tso x1; s_sig := zeros 64 |}).
  set (y2 := {| s_devs := s_devs x2; s_tso := s_tso x2; s_sig := zeros 64 |}).
  assert (W1 : stats_wf y1) by (destruct H1 as (? & ? & ? & ?); unfold stats_wf, y1; cbn [s_devs s_tso s_sig]; rewrite zeros_length; auto).
  assert (W2 : stats_wf y2) by (destruct H2 as (? & ? & ? & ?); unfold stats_wf, y2; cbn [s_devs s_tso s_sig]; rewrite zeros_length; auto).
  assert (Es : stats_serialize y1 = stats_serialize y2).
  { unfold stats_serialize. change (stats_body y1) with (stats_body x1). change (stats_body y2) with (stats_body x2).
    rewrite E. reflexivity. }
  set (M := Z.max (stats_alloc (Z.of_nat (length (s_devs y1)))) (stats_alloc (Z.of_nat (length (s_devs y2))))).
  pose proof (stats_stream_roundtrip M y1 [] W1 ltac:(unfold M; lia)) as R1.
  pose proof (stats_stream_roundtrip M y2 [] W2 ltac:(unfold M; lia)) as R2.
  rewrite Es, R2 in R1. assert (Ey : y2 = y1) by congruence.
  unfold y1, y2 in Ey. injection Ey as E1 E2. auto.
Qed.
