(* Wire / disk codecs of glow/report.go, glow/equipment_authorization.go and
   server/api_server_gca_auth.go (GCARegistration signing bytes).
   Definitions only.  Further structures: CodecStats.v, CodecServers.v ... *)
From Coq Require Import ZArith List Bool String.
From GCA Require Import Bytes.
Import ListNotations.
Open Scope Z_scope.
Notation length := List.length.

(* ---- EquipmentReport (80 bytes) ---------------------------------------- *)
Record report := { r_id : Z; r_ts : Z; r_p : Z; r_sig : bytes }.

Definition report_signing_bytes (r : report) : bytes :=
  ascii_bytes "EquipmentReport" ++ le_enc 4 (r_id r) ++ le_enc 4 (r_ts r) ++ le_enc 8 (r_p r).

Definition report_serialize (r : report) : bytes :=
  le_enc 4 (r_id r) ++ le_enc 4 (r_ts r) ++ le_enc 8 (r_p r) ++ pad 64 (r_sig r).

Definition report_decode (b : bytes) : option report :=
  if Nat.eqb (length b) 80 then
    Some {| r_id := le_dec (slice 0 4 b); r_ts := le_dec (slice 4 4 b);
            r_p := le_dec (slice 8 8 b); r_sig := slice 16 64 b |}
  else None.

Definition report_eqb (a b : report) : bool :=
  (r_id a =? r_id b) && (r_ts a =? r_ts b) && (r_p a =? r_p b) && bytes_eqb (r_sig a) (r_sig b).

Definition report_wf (r : report) : Prop :=
  0 <= r_id r < 2^32 /\ 0 <= r_ts r < 2^32 /\ 0 <= r_p r < 2^64 /\ length (r_sig r) = 64%nat.

Definition blank_report : report := {| r_id := 0; r_ts := 0; r_p := 0; r_sig := zeros 64 |}.

(* ---- EquipmentAuthorization (148 bytes) -------------------------------- *)
(* latitude / longitude are carried as IEEE-754 binary64 bit patterns *)
Record auth := { a_id : Z; a_key : bytes; a_lat : Z; a_long : Z; a_cap : Z; a_debt : Z;
                 a_exp : Z; a_init : Z; a_fee : Z; a_sig : bytes }.

Definition auth_body (a : auth) : bytes :=
  le_enc 4 (a_id a) ++ pad 32 (a_key a) ++ le_enc 8 (a_lat a) ++ le_enc 8 (a_long a) ++
  le_enc 8 (a_cap a) ++ le_enc 8 (a_debt a) ++ le_enc 4 (a_exp a) ++ le_enc 4 (a_init a) ++
  le_enc 8 (a_fee a).
Definition auth_serialize (a : auth) : bytes := auth_body a ++ pad 64 (a_sig a).
Definition auth_signing_bytes (a : auth) : bytes :=
  ascii_bytes "EquipmentAuthorization" ++ auth_body a.

Definition auth_decode (b : bytes) : option auth :=
  if Nat.eqb (length b) 148 then
    Some {| a_id := le_dec (slice 0 4 b); a_key := slice 4 32 b;
            a_lat := le_dec (slice 36 8 b); a_long := le_dec (slice 44 8 b);
            a_cap := le_dec (slice 52 8 b); a_debt := le_dec (slice 60 8 b);
            a_exp := le_dec (slice 68 4 b); a_init := le_dec (slice 72 4 b);
            a_fee := le_dec (slice 76 8 b); a_sig := slice 84 64 b |}
  else None.

Definition auth_wf (a : auth) : Prop :=
  0 <= a_id a < 2^32 /\ length (a_key a) = 32%nat /\ 0 <= a_lat a < 2^64 /\ 0 <= a_long a < 2^64 /\
  0 <= a_cap a < 2^64 /\ 0 <= a_debt a < 2^64 /\ 0 <= a_exp a < 2^32 /\ 0 <= a_init a < 2^32 /\
  0 <= a_fee a < 2^64 /\ length (a_sig a) = 64%nat.

(* bitwise equality (bytes.Equal of the serializations, used when loading) *)
Definition auth_eqb (a b : auth) : bool :=
  (a_id a =? a_id b) && bytes_eqb (a_key a) (a_key b) && (a_lat a =? a_lat b) &&
  (a_long a =? a_long b) && (a_cap a =? a_cap b) && (a_debt a =? a_debt b) &&
  (a_exp a =? a_exp b) && (a_init a =? a_init b) && (a_fee a =? a_fee b) &&
  bytes_eqb (a_sig a) (a_sig b).

(* Go's == on float64, over bit patterns: NaN <> NaN, +0 == -0 *)
Definition f64_is_nan (x : Z) : bool := 9218868437227405312 <? x mod 2^63.   (* 0x7FF0000000000000 *)
Definition f64_go_eq (x y : Z) : bool :=
  if f64_is_nan x || f64_is_nan y then false
  else if (x mod 2^63 =? 0) && (y mod 2^63 =? 0) then true
  else x =? y.
(* Go's struct == (used by the live path) *)
Definition auth_go_eq (a b : auth) : bool :=
  (a_id a =? a_id b) && bytes_eqb (a_key a) (a_key b) && f64_go_eq (a_lat a) (a_lat b) &&
  f64_go_eq (a_long a) (a_long b) && (a_cap a =? a_cap b) && (a_debt a =? a_debt b) &&
  (a_exp a =? a_exp b) && (a_init a =? a_init b) && (a_fee a =? a_fee b) &&
  bytes_eqb (a_sig a) (a_sig b).

(* ---- GCARegistration ---------------------------------------------------- *)
Definition reg_signing_bytes (gcakey : bytes) : bytes :=
  ascii_bytes "GCARegistration" ++ pad 32 gcakey.

(* ---- appended for C15: outcome of the stream / variable-length decoders --- *)
(* DOk value consumed-bytes | refused with an error | the runtime dies with a fatal
   error (out of memory; not recoverable) | the model's fuel ran out *)
Inductive dres (A : Type) : Type :=
| DOk (v : A) (consumed : nat)
| DErr
| DFatal
| DFuel.
Arguments DOk {A} v consumed.
Arguments DErr {A}.
Arguments DFatal {A}.
Arguments DFuel {A}.

(* registration: the signed value is the 32-byte GCA key *)
Definition reg_wf (gcakey : bytes) : Prop := length gcakey = 32%nat.

(* the six signed message types and their signing-byte prefixes (README: "the
   structure's name as an ASCII prefix") *)
Definition prefix_report : string := "EquipmentReport".
Definition prefix_auth : string := "EquipmentAuthorization".
Definition prefix_migration : string := "EquipmentMigration".
Definition prefix_aserver : string := "AuthorizedServer".
Definition prefix_stats : string := "AllDeviceStats".
Definition prefix_reg : string := "GCARegistration".
