#!/usr/bin/env python3
"""Regenerates MANIFEST.json from props.py (run after editing props.py)."""
import json, os, subprocess
from props import PROPS, TEXTS, NOT_YET
ROOT = os.path.dirname(os.path.abspath(__file__))
hooks = [l.split()[0] for l in subprocess.run(["git", "-C", "/repo", "log", "--format=%h %s"], capture_output=True, text=True).stdout.splitlines() if l.split(" ", 1)[1].startswith("verif:")]
m = {
    "version": 1,
    "setup_cmd": "./setup.sh",
    "hooks": {
        "guard": "verif",
        "enable": "go build -tags 'test verif' (server/client test-mode constants, manual clock) and go build -tags verif (production constants); files server/verif_*.go, client/verif_*.go and one-line verifYield(...) calls that are no-ops without the tag",
        "baseline_off_cmd": "cd /repo && GOFLAGS=-mod=mod GOPROXY=off GOSUMDB=off go test -vet=off -count=1 ./...",
        "source_commits": hooks,
        "add_only": True,
    },
    "engines": [
        {"name": "coq-model", "path": "coq/theories", "serves_properties": sorted(PROPS), "kind_free_text": "hand-written executable Gallina model + theorems (Coq 8.16.1), Props/Cxx.v hold the property statements"},
        {"name": "harness", "path": "harness", "serves_properties": sorted(PROPS), "kind_free_text": "Go correspondence harness + translators (constants, layouts, lock skeletons) that regenerate coq/gen on every run"},
    ],
    "checks": [],
    "not_applicable": [{"property_id": k, "reason": v} for k, v in sorted(NOT_YET.items()) if k not in PROPS],
    "notes": "Single driver ./check; see DESIGN.md. known_findings.txt lists recorded findings and fixes.",
}
for pid in sorted(PROPS):
    t = TEXTS[pid]
    m["checks"].append({
        "property_id": pid,
        "quick_cmd": "./check %s --tier quick" % pid,
        "thorough_cmd": "./check %s --tier thorough" % pid,
        "evidence_file": "/verif/evidence/%s.json" % pid,
        "replay_cmd_template": "./check %s --replay {path}" % pid,
        "engine": "coq-model",
        "level_claimed": {"category": "proof", "text": t["text"], "design_ref": t.get("design_ref", "DESIGN.md section 5 " + pid)},
        "level_note": t["note"],
        "technique": t["technique"],
    })
json.dump(m, open(os.path.join(ROOT, "MANIFEST.json"), "w"), indent=1)
print("checks:", len(m["checks"]), "not_applicable:", len(m["not_applicable"]))
