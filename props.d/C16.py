# C16 -- see DESIGN.md section 5
PROP = {
    "props_v": "Props/C16.v",
    "extra_v": ["ClientEnergyRun.v"],
    "run_vo": "ClientEnergyRun.vo",
    "suites": [("test", "energy"), ("prod", "ctdefaults"), ("test", "ctdefaults")],
    "trusted_extra": [
        "Flocq 4.1.0 (IEEE-754 binary64: b64_of_bits, b64_mult, b64_div, b64_compare, Btrunc) as the meaning of Go's float64 arithmetic on amd64 (no FMA contraction for x*y/z)",
        "standard-library axioms under the C16 theorems, exactly as Print Assumptions lists them (c16_total, c16_unchecked_panics, c16_slot, c16_value; c16_ct is closed): ClassicalDedekindReals.sig_not_dec, ClassicalDedekindReals.sig_forall_dec, FunctionalExtensionality.functional_extensionality_dep, Classical_Prop.classic -- they enter through Flocq's real-number layer (the binary64 operations carry boundedness proofs stated over R; B2R / Btrunc_correct / Bcompare_correct)",
        "Go's encoding/csv, strconv.ParseInt / ParseFloat and bufio.Scanner: the model starts from their outputs, which the harness obtains from the same standard-library functions on the identical bytes",
    ],
    "assumptions": [
        "rows = what encoding/csv delivers before its first error (io.EOF included); the reader stops there, so rows after a CSV-level error (e.g. a row whose field count differs from the first row's) are not processed -- 'each well-formed row' means each delivered row",
        "uint64(float64) is modelled as: exact truncation for values in [0, 2^64), two's complement for negative values down to -2^63 (amd64 CVTTSD2SQ), unspecified otherwise (NaN, infinities, larger magnitudes): for those only the absence of a crash and the slot are compared",
        "c16_slot is stated for timestamps G <= t < G + 2^32; beyond that glow.UnixToTimeslot truncates to uint32 before dividing (K5, outside the stated domain, Example c16_slot_wraps_beyond_domain)",
        "the suite runs in the test build (energy file inside the client directory, genesis = process start, default calibration 1000/1000); the arithmetic is build-independent",
    ],
}
TEXT = {
    "text": "Coq theorems over all row lists (any number of fields per row, any strconv verdicts), all calibration values and all binary64 readings: the reader never panics and returns the concatenation of the per-row results; a row with a timestamp in [G, G+2^32) yields exactly one record for slot (t-G)/300, earlier/unusable/short rows none; value 3 for unparseable readings, 2 for finite |f| < 24 (strict, over the reals via Bcompare_correct), otherwise trunc((mult*f)/div) mod 2^64 when finite and below 2^63 in magnitude (via Btrunc_correct); calibration file rule. The executable model (Flocq binary64 evaluated by vm_compute) is compared record-for-record with the real staticReadEnergyFile on generated CSV files under calibrations loaded by the real readCTSettingsFile, and with readCTSettingsFile itself. Added after seeded-change rounds: suite ctdefaults in the production build (absent calibration file gives the build's default multiplier and divider, which differ only there).",
    "note": "D11 (one-field rows indexed record[1]) was reproduced by the energy suite (replay corpus/C16/d11.json) and repaired in /repo; the pre-repair loop body is kept as energy_rows_unchecked with c16_unchecked_panics. Axioms: only the four standard-library real-number axioms listed in trusted_base. CSV splitting and number parsing are Go's (trusted, shared by model input and implementation).",
    "technique": "Coq proof (Flocq IEEE-754 + real analysis lemmas, list induction) + differential correspondence (vm_compute) against the real reader",
}
