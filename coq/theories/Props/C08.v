(* C08 -- Lost datagrams are eventually recovered; retransmissions are identical.
   Statements only; proofs in ClientServer_lemmas.v, ClientReports_lemmas.v, ServerC02_lemmas.v. *)
From Coq Require Import ZArith List Bool.
From GCA Require Import Wrap Bytes Codec Amap Timeslot ClientHistory ClientReports ClientReports_lemmas ClientServer
                        Server ServerInv ServerC02_lemmas ClientServer_lemmas.
Import ListNotations.
Open Scope Z_scope.

(* Recovery.  The server state [st] is ANY state satisfying the invariant -- i.e. whatever subset
   of the device's datagrams (originals and retransmissions) was delivered before, in whatever
   order, with whatever duplication, with rotations and restarts in between (all of these keep the
   invariant, Props/C04.v).  One fault-free round: the reply carries the server's bitfield, the
   device retransmits what is missing, the retransmissions arrive.  Then for EVERY slot t of the
   window, still acceptable (|t - now| <= 432), not newer than the device's latest reading, for
   which the device's history holds a reading >= 2, the server holds a record. *)
Theorem c08_recovers (verify : bytes -> bytes -> bytes -> bool) (csign : bytes -> bytes)
    st now id a origin h latest t x :
  csign_len_ok csign ->
  MemInv (mm st) -> is_u32 now -> 0 <= id < 2^32 -> is_u32 latest ->
  zget id (equipment (mm st)) = Some a -> (forall m, verify (a_key a) m (csign m) = true) ->
  offset (mm st) <= t < offset (mm st) + 4032 -> Z.abs (t - now) <= 432 -> t <= latest ->
  load_reading h origin t = Ok x -> 2 <= x < 2^32 ->
  nonblank (sync_round_delivered verify csign st now id origin h latest) id (t - offset (mm st)).
Proof. exact (recovers verify csign st now id a origin h latest t x). Qed.

(* Identical retransmissions: over any life of the device (ticks on arbitrary meter-file contents,
   restarts, retransmissions of arbitrary slots) whose readings fit 32 signed bits, all datagrams
   for one slot with a non-zero power are the same 80 bytes. *)
Theorem c08_retransmit_identical : forall (sign : bytes -> bytes) (short_id o : Z) h0 evs d1 d2,
  is_u32 o -> hist_wf h0 -> Forall ev_ok evs -> Forall ev_fits evs ->
  In d1 (datagrams sign short_id o h0 evs) -> In d2 (datagrams sign short_id o h0 evs) ->
  dg_slot d1 = dg_slot d2 -> dg_power d1 <> 0 -> dg_power d2 <> 0 -> d1 = d2.
Proof. exact no_equivocation. Qed.

(* hence recovery can never get the device's own slot banned: delivering the same report again,
   any number of times, in any slot state, changes nothing; a slot that only ever saw copies of one
   report holds that report's value unless the report itself exceeds the capacity rule *)
Theorem c08_replay_harmless cap cur r : slot_step cap (slot_step cap cur r) r = slot_step cap cur r.
Proof. exact (slot_step_idem cap cur r). Qed.

Theorem c08_never_self_banned cap r n : valid_power r ->
  r_p (fold_left (slot_step cap) (repeat r (S n)) blank_report) = if overcap cap (r_p r) then 1 else r_p r.
Proof. exact (replay_idempotent cap r n). Qed.
