package suites

// T3: the layout translator.  A go/ast walker over the fixed-width codec functions of
// the repository, which are written in one idiom:
//
//	b := make([]byte, K)                                   size
//	copy(b, prefix) / copy(b[a:c], prefix)                  KPrefix "literal"
//	binary.LittleEndian.PutUintN(b[a:], x.F)                KUintLE  (BigEndian: KUintBE)
//	binary.LittleEndian.PutUint64(b[a:], math.Float64bits(x.F))   KFloatLE
//	copy(b[a:], x.F[:])                                     KBytes (width = array length of F)
//
// and the mirrored reads (if len(in) != K {return ..}; x.F = binary.LittleEndian.UintN(in[a:c]);
// copy(x.F[:], in[a:c])).  Per function it emits into gen/Layouts.v the buffer size and the
// list (offset, width, field, kind) in source order, plus every statement it did NOT
// understand (g_unknown): Props/C15.v proves g_unknown = [] and "regenerated layout =
// documented layout", so nothing is skipped silently.  Source: $VERIF_REPO (default /repo).
// A second translator (layoutprobe.go) recovers the same layout from the compiled function by
// probing every bit; it confirms the walker's result and stands in for it when a function has been
// rewritten in an idiom the walker does not know.

import (
	"bytes"
	"fmt"
	"go/ast"
	"go/parser"
	"go/printer"
	"go/token"
	"os"
	"path/filepath"
	"sort"
	"strconv"
	"strings"

	"verifharness/core"
)

func init() { core.Register("layouts", layoutsSuite) }

type lyField struct {
	off, width int
	name, kind string // kind is a Gallina term
}

type lyResult struct {
	name    string
	size    int
	fields  []lyField
	unknown []string
}

// lyPkgInfo: what the walker needs to know about the types of a package, syntactically
type lyPkgInfo struct {
	arrays  map[string]int                 // type X [N]byte
	structs map[string]map[string]ast.Expr // struct -> field -> type expression
	funcs   map[string]*ast.FuncDecl       // "Recv.Method" or "Func"
	fset    *token.FileSet
}

func lyLoadPkg(dir string) (*lyPkgInfo, error) {
	fs := token.NewFileSet()
	pkgs, err := parser.ParseDir(fs, dir, func(fi os.FileInfo) bool { return !strings.HasSuffix(fi.Name(), "_test.go") }, 0)
	if err != nil {
		return nil, err
	}
	pi := &lyPkgInfo{arrays: map[string]int{}, structs: map[string]map[string]ast.Expr{}, funcs: map[string]*ast.FuncDecl{}, fset: fs}
	for _, p := range pkgs {
		for _, f := range p.Files {
			for _, d := range f.Decls {
				switch x := d.(type) {
				case *ast.GenDecl:
					for _, sp := range x.Specs {
						ts, ok := sp.(*ast.TypeSpec)
						if !ok {
							continue
						}
						switch t := ts.Type.(type) {
						case *ast.ArrayType:
							if id, ok := t.Elt.(*ast.Ident); ok && id.Name == "byte" && t.Len != nil {
								if bl, ok := t.Len.(*ast.BasicLit); ok {
									if n, err := strconv.Atoi(bl.Value); err == nil {
										pi.arrays[ts.Name.Name] = n
									}
								}
							}
						case *ast.StructType:
							m := map[string]ast.Expr{}
							for _, fl := range t.Fields.List {
								for _, nm := range fl.Names {
									m[nm.Name] = fl.Type
								}
							}
							pi.structs[ts.Name.Name] = m
						}
					}
				case *ast.FuncDecl:
					name := x.Name.Name
					if x.Recv != nil && len(x.Recv.List) == 1 {
						t := x.Recv.List[0].Type
						if st, ok := t.(*ast.StarExpr); ok {
							t = st.X
						}
						if id, ok := t.(*ast.Ident); ok {
							name = id.Name + "." + name
						}
					}
					pi.funcs[name] = x
				}
			}
		}
	}
	return pi, nil
}

type lyWalker struct {
	pkgs   map[string]*lyPkgInfo // by package name
	pkg    *lyPkgInfo
	consts map[string]string // local byte-string constants (prefixes)
	recv   string            // name of the struct variable (receiver / result)
	styp   string            // its struct type
	buf    string            // the byte buffer (encoder) or the input slice (decoder)
	res    *lyResult
}

func (w *lyWalker) src(n ast.Node) string {
	var b bytes.Buffer
	printer.Fprint(&b, w.pkg.fset, n)
	s := strings.Join(strings.Fields(b.String()), " ")
	if len(s) > 160 {
		s = s[:160] + "..."
	}
	return s
}
func (w *lyWalker) unknown(n ast.Node, why string) {
	w.res.unknown = append(w.res.unknown, why+": "+w.src(n))
}

// constant integer expressions: literals, + - *, len(<known constant>)
func (w *lyWalker) intOf(e ast.Expr) (int, bool) {
	switch x := e.(type) {
	case *ast.BasicLit:
		if x.Kind == token.INT {
			n, err := strconv.ParseInt(x.Value, 0, 64)
			return int(n), err == nil
		}
	case *ast.ParenExpr:
		return w.intOf(x.X)
	case *ast.BinaryExpr:
		a, ok1 := w.intOf(x.X)
		b, ok2 := w.intOf(x.Y)
		if ok1 && ok2 {
			switch x.Op {
			case token.ADD:
				return a + b, true
			case token.SUB:
				return a - b, true
			case token.MUL:
				return a * b, true
			}
		}
	case *ast.CallExpr:
		if id, ok := x.Fun.(*ast.Ident); ok && id.Name == "len" && len(x.Args) == 1 {
			if a, ok := x.Args[0].(*ast.Ident); ok {
				if s, ok := w.consts[a.Name]; ok {
					return len(s), true
				}
			}
		}
	}
	return 0, false
}

// a byte-string constant: "lit", []byte("lit"), []byte(<known constant>), <known constant>
func (w *lyWalker) strOf(e ast.Expr) (string, bool) {
	switch x := e.(type) {
	case *ast.BasicLit:
		if x.Kind == token.STRING {
			s, err := strconv.Unquote(x.Value)
			return s, err == nil
		}
	case *ast.Ident:
		s, ok := w.consts[x.Name]
		return s, ok
	case *ast.CallExpr:
		if at, ok := x.Fun.(*ast.ArrayType); ok && at.Len == nil && len(x.Args) == 1 {
			if id, ok := at.Elt.(*ast.Ident); ok && id.Name == "byte" {
				return w.strOf(x.Args[0])
			}
		}
	}
	return "", false
}

// buf, buf[a:], buf[a:c]  ->  (a, c or -1)
func (w *lyWalker) sliceOf(e ast.Expr, base string) (lo, hi int, ok bool) {
	switch x := e.(type) {
	case *ast.Ident:
		if x.Name == base {
			return 0, -1, true
		}
	case *ast.SliceExpr:
		id, isId := x.X.(*ast.Ident)
		if !isId || id.Name != base || x.Slice3 {
			return 0, 0, false
		}
		lo, hi = 0, -1
		if x.Low != nil {
			v, ok := w.intOf(x.Low)
			if !ok {
				return 0, 0, false
			}
			lo = v
		}
		if x.High != nil {
			v, ok := w.intOf(x.High)
			if !ok {
				return 0, 0, false
			}
			hi = v
		}
		return lo, hi, true
	}
	return 0, 0, false
}

// recv.F  ->  F
func (w *lyWalker) fieldOf(e ast.Expr) (string, bool) {
	se, ok := e.(*ast.SelectorExpr)
	if !ok {
		return "", false
	}
	id, ok := se.X.(*ast.Ident)
	if !ok || id.Name != w.recv {
		return "", false
	}
	return se.Sel.Name, true
}

// recv.F[:]  ->  F, length of the array type of F
func (w *lyWalker) arrayFieldOf(e ast.Expr) (string, int, bool) {
	sl, ok := e.(*ast.SliceExpr)
	if !ok || sl.Low != nil || sl.High != nil {
		return "", 0, false
	}
	f, ok := w.fieldOf(sl.X)
	if !ok {
		return "", 0, false
	}
	ft, ok := w.pkg.structs[w.styp][f]
	if !ok {
		return "", 0, false
	}
	switch t := ft.(type) {
	case *ast.Ident:
		if n, ok := w.pkg.arrays[t.Name]; ok {
			return f, n, true
		}
	case *ast.SelectorExpr:
		if p, ok := t.X.(*ast.Ident); ok {
			if pi, ok := w.pkgs[p.Name]; ok {
				if n, ok := pi.arrays[t.Sel.Name]; ok {
					return f, n, true
				}
			}
		}
	case *ast.ArrayType:
		if id, ok := t.Elt.(*ast.Ident); ok && id.Name == "byte" && t.Len != nil {
			if n, ok := w.intOf(t.Len); ok {
				return f, n, true
			}
		}
	}
	return "", 0, false
}

// binary.<Order>.<Fn>  ->  order ("LE"/"BE"), Fn
func lyBinaryCall(e ast.Expr) (order, fn string, ok bool) {
	se, ok := e.(*ast.SelectorExpr)
	if !ok {
		return
	}
	in, ok := se.X.(*ast.SelectorExpr)
	if !ok {
		return "", "", false
	}
	p, ok := in.X.(*ast.Ident)
	if !ok || p.Name != "binary" {
		return "", "", false
	}
	switch in.Sel.Name {
	case "LittleEndian":
		order = "LE"
	case "BigEndian":
		order = "BE"
	default:
		return "", "", false
	}
	return order, se.Sel.Name, true
}

func lyIsCall(e ast.Expr, pkg, fn string) (*ast.CallExpr, bool) {
	c, ok := e.(*ast.CallExpr)
	if !ok {
		return nil, false
	}
	se, ok := c.Fun.(*ast.SelectorExpr)
	if !ok || se.Sel.Name != fn {
		return nil, false
	}
	p, ok := se.X.(*ast.Ident)
	return c, ok && p.Name == pkg
}

var lyUintWidth = map[string]int{"Uint16": 2, "Uint32": 4, "Uint64": 8, "PutUint16": 2, "PutUint32": 4, "PutUint64": 8}

func (w *lyWalker) addField(n ast.Node, lo, hi, width int, name, kind string) {
	if hi >= 0 && hi-lo != width {
		w.unknown(n, fmt.Sprintf("slice bounds [%d:%d] do not match the width %d of the access", lo, hi, width))
		return
	}
	w.res.fields = append(w.res.fields, lyField{lo, width, name, kind})
}

// ---- encoder bodies

func (w *lyWalker) encStmt(s ast.Stmt) {
	switch x := s.(type) {
	case *ast.AssignStmt:
		if len(x.Lhs) == 1 && len(x.Rhs) == 1 && x.Tok == token.DEFINE {
			id, _ := x.Lhs[0].(*ast.Ident)
			if id != nil {
				if str, ok := w.strOf(x.Rhs[0]); ok {
					w.consts[id.Name] = str
					return
				}
				if c, ok := x.Rhs[0].(*ast.CallExpr); ok {
					if f, ok := c.Fun.(*ast.Ident); ok && f.Name == "make" && len(c.Args) == 2 && w.buf == "" {
						if at, ok := c.Args[0].(*ast.ArrayType); ok && at.Len == nil {
							if n, ok := w.intOf(c.Args[1]); ok {
								w.buf, w.res.size = id.Name, n
								return
							}
						}
					}
				}
			}
		}
	case *ast.ExprStmt:
		c, ok := x.X.(*ast.CallExpr)
		if !ok {
			break
		}
		if f, ok := c.Fun.(*ast.Ident); ok && f.Name == "copy" && len(c.Args) == 2 {
			lo, hi, ok := w.sliceOf(c.Args[0], w.buf)
			if !ok || w.buf == "" {
				break
			}
			if str, ok := w.strOf(c.Args[1]); ok {
				w.addField(s, lo, hi, len(str), "prefix", "(KPrefix "+coqStr(str)+")")
				return
			}
			if fld, n, ok := w.arrayFieldOf(c.Args[1]); ok {
				w.addField(s, lo, hi, n, fld, "KBytes")
				return
			}
			break
		}
		if order, fn, ok := lyBinaryCall(c.Fun); ok && len(c.Args) == 2 && strings.HasPrefix(fn, "Put") {
			width, okw := lyUintWidth[fn]
			lo, hi, oks := w.sliceOf(c.Args[0], w.buf)
			if !okw || !oks || w.buf == "" {
				break
			}
			if fld, ok := w.fieldOf(c.Args[1]); ok {
				w.addField(s, lo, hi, width, fld, "KUint"+order)
				return
			}
			if fc, ok := lyIsCall(c.Args[1], "math", "Float64bits"); ok && len(fc.Args) == 1 && width == 8 {
				if fld, ok := w.fieldOf(fc.Args[0]); ok {
					w.addField(s, lo, hi, width, fld, "KFloat"+order)
					return
				}
			}
		}
	case *ast.ReturnStmt:
		if len(x.Results) == 1 {
			if id, ok := x.Results[0].(*ast.Ident); ok && id.Name == w.buf {
				return
			}
		}
	}
	w.unknown(s, "statement outside the encoder idiom")
}

// ---- decoder bodies

func (w *lyWalker) decStmt(s ast.Stmt) {
	switch x := s.(type) {
	case *ast.IfStmt:
		// if len(in) != K { return ... }
		if be, ok := x.Cond.(*ast.BinaryExpr); ok && be.Op == token.NEQ && x.Init == nil && x.Else == nil {
			if c, ok := be.X.(*ast.CallExpr); ok {
				if f, ok := c.Fun.(*ast.Ident); ok && f.Name == "len" && len(c.Args) == 1 {
					if a, ok := c.Args[0].(*ast.Ident); ok && a.Name == w.buf {
						if n, ok := w.intOf(be.Y); ok && w.res.size == 0 && len(x.Body.List) == 1 {
							if _, ok := x.Body.List[0].(*ast.ReturnStmt); ok {
								w.res.size = n
								return
							}
						}
					}
				}
			}
		}
	case *ast.DeclStmt:
		// var er T
		if gd, ok := x.Decl.(*ast.GenDecl); ok && gd.Tok == token.VAR && len(gd.Specs) == 1 {
			if vs, ok := gd.Specs[0].(*ast.ValueSpec); ok && len(vs.Names) == 1 && len(vs.Values) == 0 {
				if id, ok := vs.Type.(*ast.Ident); ok && w.recv == "" {
					w.recv, w.styp = vs.Names[0].Name, id.Name
					return
				}
			}
		}
	case *ast.AssignStmt:
		if len(x.Lhs) == 1 && len(x.Rhs) == 1 && x.Tok == token.ASSIGN {
			fld, ok := w.fieldOf(x.Lhs[0])
			if !ok {
				break
			}
			rhs := x.Rhs[0]
			kind := "KUint"
			if fc, ok := lyIsCall(rhs, "math", "Float64frombits"); ok && len(fc.Args) == 1 {
				rhs, kind = fc.Args[0], "KFloat"
			}
			if c, ok := rhs.(*ast.CallExpr); ok && len(c.Args) == 1 {
				if order, fn, ok := lyBinaryCall(c.Fun); ok && !strings.HasPrefix(fn, "Put") {
					width, okw := lyUintWidth[fn]
					lo, hi, oks := w.sliceOf(c.Args[0], w.buf)
					if okw && oks && (kind == "KUint" || width == 8) {
						w.addField(s, lo, hi, width, fld, kind+order)
						return
					}
				}
			}
		}
	case *ast.ExprStmt:
		if c, ok := x.X.(*ast.CallExpr); ok {
			if f, ok := c.Fun.(*ast.Ident); ok && f.Name == "copy" && len(c.Args) == 2 {
				fld, n, ok1 := w.arrayFieldOf(c.Args[0])
				lo, hi, ok2 := w.sliceOf(c.Args[1], w.buf)
				if ok1 && ok2 {
					w.addField(s, lo, hi, n, fld, "KBytes")
					return
				}
			}
		}
	case *ast.ReturnStmt:
		if len(x.Results) == 2 {
			a, ok1 := x.Results[0].(*ast.Ident)
			b, ok2 := x.Results[1].(*ast.Ident)
			if ok1 && ok2 && a.Name == w.recv && b.Name == "nil" {
				return
			}
		}
	}
	w.unknown(s, "statement outside the decoder idiom")
}

func lyTranslateLayout(pkgs map[string]*lyPkgInfo, pkgName, fn, outName string, decoder bool) *lyResult {
	res := &lyResult{name: outName}
	pi := pkgs[pkgName]
	fd := pi.funcs[fn]
	if fd == nil || fd.Body == nil {
		res.unknown = append(res.unknown, "function "+pkgName+"."+fn+" not found")
		return res
	}
	w := &lyWalker{pkgs: pkgs, pkg: pi, consts: map[string]string{}, res: res}
	if decoder {
		if fd.Type.Params == nil || len(fd.Type.Params.List) != 1 || len(fd.Type.Params.List[0].Names) != 1 {
			res.unknown = append(res.unknown, "decoder signature not understood")
			return res
		}
		w.buf = fd.Type.Params.List[0].Names[0].Name
		// named result: (ea T, err error)
		if r := fd.Type.Results; r != nil && len(r.List) > 0 && len(r.List[0].Names) == 1 {
			if id, ok := r.List[0].Type.(*ast.Ident); ok {
				w.recv, w.styp = r.List[0].Names[0].Name, id.Name
			}
		}
		for _, s := range fd.Body.List {
			w.decStmt(s)
		}
	} else {
		if fd.Recv == nil || len(fd.Recv.List) != 1 || len(fd.Recv.List[0].Names) != 1 {
			res.unknown = append(res.unknown, "encoder has no named receiver")
			return res
		}
		w.recv = fd.Recv.List[0].Names[0].Name
		w.styp = strings.SplitN(fn, ".", 2)[0]
		for _, s := range fd.Body.List {
			w.encStmt(s)
		}
	}
	if res.size == 0 {
		res.unknown = append(res.unknown, "buffer size not found")
	}
	return res
}

// lyNorm renders a field list sorted by offset (the order statements appear in does not matter)
func lyNorm(fs []lyField) string {
	c := append([]lyField{}, fs...)
	sort.Slice(c, func(i, j int) bool { return c[i].off < c[j].off })
	return fmt.Sprint(c)
}

func layoutsSuite(seed uint64, tier, outDir string) (*core.Result, error) {
	res := core.NewResult("layouts", seed, tier)
	repo := os.Getenv("VERIF_REPO")
	if repo == "" {
		repo = "/repo"
	}
	pkgs := map[string]*lyPkgInfo{}
	for _, p := range []string{"glow", "server"} {
		pi, err := lyLoadPkg(filepath.Join(repo, p))
		if err != nil {
			return nil, fmt.Errorf("parsing %s: %v", p, err)
		}
		pkgs[p] = pi
	}
	specs := []struct {
		pkg, fn, out string
		dec          bool
	}{
		{"glow", "EquipmentReport.SigningBytes", "EquipmentReport_SigningBytes", false},
		{"glow", "EquipmentReport.Serialize", "EquipmentReport_Serialize", false},
		{"glow", "DeserializeReport", "DeserializeReport", true},
		{"glow", "EquipmentAuthorization.Serialize", "EquipmentAuthorization_Serialize", false},
		{"glow", "DeserializeEquipmentAuthorization", "DeserializeEquipmentAuthorization", true},
		{"server", "GCARegistration.SigningBytes", "GCARegistration_SigningBytes", false},
	}
	var sb strings.Builder
	sb.WriteString("(* generated from the repository on every run by harness/suites/layouts.go -- do not edit *)\n")
	sb.WriteString("From Coq Require Import List String.\nFrom GCA Require Import Layout.\nImport ListNotations.\nOpen Scope string_scope.\n")
	for _, s := range specs {
		r := lyTranslateLayout(pkgs, s.pkg, s.fn, s.out, s.dec)
		// second translator: the layout recovered from the compiled function by probing every bit.  It
		// replaces the walker's result when the walker does not understand the source idiom, and must
		// agree with it otherwise.
		pr := lyProbe(s.out)
		how := "source walk, confirmed by bit probing of the compiled function"
		switch {
		case len(r.unknown) > 0 && len(pr.unknown) == 0:
			res.Count("layout.probed-only")
			how = "bit probing of the compiled function (the source idiom is not one the walker understands: " + r.unknown[0] + ")"
			r = &pr
		case len(r.unknown) > 0:
			r.unknown = append(r.unknown, pr.unknown...)
			how = "neither translator understood the function"
		case len(pr.unknown) > 0:
			r.unknown = append(r.unknown, pr.unknown...)
			how = "source walk; the bit probe failed"
		default:
			if lyNorm(r.fields) != lyNorm(pr.fields) || r.size != pr.size {
				r.unknown = append(r.unknown, "the layout read from the source ("+lyNorm(r.fields)+") differs from the layout the compiled function has ("+lyNorm(pr.fields)+")")
				how = "source walk and bit probe disagree"
			}
		}
		fl := []string{}
		for _, f := range r.fields {
			fl = append(fl, fmt.Sprintf("F %d %d %s %s", f.off, f.width, strings.TrimSuffix(coqStr(f.name), "%string"), strings.ReplaceAll(f.kind, "%string", "")))
		}
		un := []string{}
		for _, u := range r.unknown {
			un = append(un, strings.TrimSuffix(coqStr(u), "%string"))
		}
		sb.WriteString(fmt.Sprintf("Definition %s : glayout :=\n  {| g_size := %d;\n     g_fields := [%s];\n     g_unknown := [%s] |}.\n", r.name, r.size, strings.Join(fl, ";\n                  "), strings.Join(un, "; ")))
		res.Case(map[string]interface{}{"function": s.pkg + "." + s.fn, "size": r.size, "fields": len(r.fields), "not_understood": r.unknown, "obtained_by": how}, s.fn+fmt.Sprint(r.fields), len(r.unknown) == 0)
		res.Count("layout")
	}
	if err := os.WriteFile(filepath.Join(outDir, "Layouts.v"), []byte(sb.String()), 0644); err != nil {
		return nil, err
	}
	res.Rule = "one layout per fixed-width codec function of glow/ and server/ (go/ast walk of the function body)"
	return res, nil
}
