(* C04: start-up on the server's own directory succeeds and rebuilds an equivalent state. *)
From Coq Require Import ZArith List Bool Lia.
From GCA Require Import Wrap Bytes Bytes_lemmas Codec Amap Amap_lemmas Timeslot Server ServerInv ServerInv_lemmas ServerInv2_lemmas
                        ServerC02_lemmas ServerDisk ServerDisk_lemmas ServerDiskInv_lemmas.
Import ListNotations.
Open Scope Z_scope.
Set Default Proof Using "Type".
Notation length := List.length.

Lemma same_tables_refl m0 : same_tables m0 m0.
Proof. repeat split. Qed.
Lemma same_tables_trans m1 m2 m3 : same_tables m1 m2 -> same_tables m2 m3 -> same_tables m1 m3.
Proof. unfold same_tables. intros (A1&A2&A3&A4&A5&A6&A7&A8&A9&A10) (B1&B2&B3&B4&B5&B6&B7&B8&B9&B10). repeat split; congruence. Qed.

Section Replay.
  Variable verify : bytes -> bytes -> bytes -> bool.

  Definition report_ok (m0 : mem) (r : report) : Prop :=
    r_p r <> 0 /\ 0 <= r_ts r /\
    (zmem (r_id r) (equipment m0) = true \/ zin (r_id r) (bans m0) = true) /\
    (forall a, zget (r_id r) (equipment m0) = Some a -> verify (a_key a) (report_signing_bytes r) (r_sig r) = true).

  Lemma replay_reports_spec rl : forall st1,
    MemInv (mm st1) -> (forall r, In r rl -> report_ok (mm st1) r) ->
    exists st2 re,
      replay_reports verify st1 rl = LOk st2 /\
      same_tables (mm st2) (mm st1) /\ MemInv (mm st2) /\
      (forall id a w1, zget id (equipment (mm st1)) = Some a -> zget id (reports (mm st1)) = Some w1 ->
         exists w2, zget id (reports (mm st2)) = Some w2 /\
                    win_eq w2 (fold_left (dev_step (a_cap a) (offset (mm st1))) (for_dev id rl) w1)) /\
      d_keys (dd st2) = d_keys (dd st1) /\ d_temp (dd st2) = d_temp (dd st1) /\ d_gca (dd st2) = d_gca (dd st1) /\
      d_auths (dd st2) = d_auths (dd st1) /\ d_stats (dd st2) = d_stats (dd st1) /\
      d_reports (dd st2) = option_map (fun l => l ++ re) (d_reports (dd st1)) /\
      (forall r, In r re -> In r rl).
  Proof.
    induction rl as [|r rl IH]; intros st1 I OK.
    - exists st1, []. cbn [replay_reports]. split; [reflexivity|]. split; [apply same_tables_refl|]. split; [exact I|].
      split.
      { intros id a w1 _ Qr. exists w1. split; [exact Qr | apply win_eq_refl]. }
      repeat split; try reflexivity.
      + destruct (d_reports (dd st1)); cbn; [rewrite app_nil_r|]; reflexivity.
      + intros x [].
    - pose proof (OK r (or_introl eq_refl)) as (NZ & Hts & Dom & Ver).
      pose proof (i_off_lo _ I) as Hlo. pose proof (i_off_hi _ I) as Hhi.
      cbn [replay_reports].
      destruct (zget (r_id r) (equipment (mm st1))) as [a|] eqn:Qa.
      + rewrite (Ver a eq_refl). cbn [negb].
        assert (Qw : exists w, zget (r_id r) (reports (mm st1)) = Some w).
        { apply zmem_true_get. rewrite (i_dom_rep _ I). eapply zget_zmem; exact Qa. }
        destruct Qw as [w Qw].
        destruct (integrate_inv st1 r a I Qa NZ Hts) as [I' Q'].
        pose proof (integrate_dev st1 r w a Hlo ltac:(unfold window_len; lia) Qw Qa) as E.
        destruct (integrate st1 r) as [st' o'] eqn:EI. cbn [fst snd] in *. subst o'.
        assert (T : same_tables (mm st') (mm st1)).
        { inversion E as [E1]. destruct (dev_records (offset (mm st1)) w r); [|apply same_tables_refl]. repeat split. }
        destruct T as (T1&T2&T3&T4&T5&T6&T7&T8&T9&T10).
        destruct (IH st' I') as (st2 & re & R & T' & I2 & W & K1 & K2 & K3 & K4 & K5 & K6 & Sub).
        { intros x Hx. destruct (OK x (or_intror Hx)) as (A1 & A2 & A3 & A4). unfold report_ok. rewrite T1, T3. repeat split; assumption. }
        exists st2, ((if dev_records (offset (mm st1)) w r then [r] else []) ++ re).
        split; [exact R|]. split; [eapply same_tables_trans; [exact T' | repeat split; assumption]|]. split; [exact I2|].
        split.
        { intros id a0 w1 Qe Qr.
          assert (Qr' : exists w1', zget id (reports (mm st')) = Some w1' /\
                                    win_eq w1' (if id =? r_id r then dev_step (a_cap a0) (offset (mm st1)) w1 r else w1)).
          { inversion E as [E1]. destruct (dev_records (offset (mm st1)) w r) eqn:Rec.
            - cbn [mm with_reports reports]. rewrite zget_zset. destruct (Z.eqb_spec id (r_id r)) as [->|N].
              + rewrite Qa in Qe. inversion Qe; subst a0. rewrite Qw in Qr. inversion Qr; subst w1.
                eexists. split; [reflexivity | apply win_eq_refl].
              + exists w1. split; [exact Qr | apply win_eq_refl].
            - exists w1. split; [exact Qr|]. destruct (Z.eqb_spec id (r_id r)) as [->|N]; [|apply win_eq_refl].
              rewrite Qw in Qr. inversion Qr; subst w1. rewrite (dev_step_not_recorded _ _ _ _ Rec). apply win_eq_refl. }
          destruct Qr' as (w1' & Qr' & Ew).
          destruct (W id a0 w1' ltac:(rewrite T1; exact Qe) Qr') as (w2 & Q2 & E2).
          exists w2. split; [exact Q2|]. rewrite T5 in E2.
          eapply win_eq_trans; [exact E2|].
          unfold for_dev. cbn [filter]. destruct (Z.eqb_spec (r_id r) id) as [Eid|Nid].
          - cbn [fold_left]. apply fold_dev_step_ext. destruct (Z.eqb_spec id (r_id r)); [exact Ew | congruence].
          - apply fold_dev_step_ext. destruct (Z.eqb_spec id (r_id r)); [congruence | exact Ew]. }
        assert (Dk : d_keys (dd st') = d_keys (dd st1) /\ d_temp (dd st') = d_temp (dd st1) /\ d_gca (dd st') = d_gca (dd st1) /\
                     d_auths (dd st') = d_auths (dd st1) /\ d_stats (dd st') = d_stats (dd st1) /\
                     d_reports (dd st') = option_map (fun l => l ++ (if dev_records (offset (mm st1)) w r then [r] else [])) (d_reports (dd st1))).
        { inversion E as [E1]. destruct (dev_records (offset (mm st1)) w r); cbn [dd disk_append_report d_keys d_temp d_gca d_auths d_stats d_reports].
          - repeat split; destruct (d_reports (dd st1)); reflexivity.
          - repeat split; destruct (d_reports (dd st1)); cbn [option_map]; rewrite ?app_nil_r; reflexivity. }
        destruct Dk as (D1 & D2 & D3 & D4 & D5 & D6).
        split; [congruence|]. split; [congruence|]. split; [congruence|]. split; [congruence|]. split; [congruence|].
        split.
        * rewrite K6, D6. destruct (d_reports (dd st1)); cbn [option_map]; [rewrite <- app_assoc|]; reflexivity.
        * intros x Hx. apply in_app_or in Hx. destruct Hx as [Hx|Hx]; [|right; apply Sub; exact Hx].
          destruct (dev_records (offset (mm st1)) w r); [destruct Hx as [<-|[]]; left; reflexivity | destruct Hx].
      + destruct Dom as [M|B]; [unfold zmem in M; rewrite Qa in M; discriminate|]. rewrite B.
        destruct (IH st1 I) as (st2 & re & R & T' & I2 & W & K1 & K2 & K3 & K4 & K5 & K6 & Sub).
        { intros x Hx. apply OK. right; exact Hx. }
        exists st2, re. split; [exact R|]. split; [exact T'|]. split; [exact I2|]. split.
        { intros id a0 w1 Qe Qr. destruct (W id a0 w1 Qe Qr) as (w2 & Q2 & E2). exists w2. split; [exact Q2|].
          unfold for_dev in *. cbn [filter]. destruct (Z.eqb_spec (r_id r) id) as [Eid|Nid]; [congruence | exact E2]. }
        repeat split; try assumption. intros x Hx. right. apply Sub; exact Hx.
  Qed.
End Replay.

(* ---- the authorization replay builds an invariant memory with empty windows *)
Lemma replay_auths_fields l : forall m0,
  offset (replay_auths m0 l) = offset m0 /\ history (replay_auths m0 l) = history m0 /\
  gca (replay_auths m0 l) = gca m0 /\ gca_avail (replay_auths m0 l) = gca_avail m0 /\
  tempkey (replay_auths m0 l) = tempkey m0 /\ skeys (replay_auths m0 l) = skeys m0.
Proof.
  induction l as [|a l IH]; intros m0; cbn [replay_auths]; [repeat split|].
  destruct (zin (a_id a) (bans m0)); [apply IH|].
  destruct (zget (a_id a) (equipment m0)) as [cur|]; [destruct (auth_eqb cur a)|]; try apply IH.
  - destruct (IH (ban_device m0 (a_id a) cur)) as (A&B&C&D&E&F). repeat split; assumption.
  - destruct (IH (add_device m0 a)) as (A&B&C&D&E&F). repeat split; assumption.
Qed.

Lemma replay_auths_inv l : forall m0, MemInv m0 -> (l <> [] -> gca_avail m0 = true) -> MemInv (replay_auths m0 l).
Proof.
  induction l as [|a l IH]; intros m0 I G; cbn [replay_auths]; [exact I|].
  assert (Ga : gca_avail m0 = true) by (apply G; discriminate).
  destruct (zin (a_id a) (bans m0)) eqn:B; [apply IH; [exact I | intros _; exact Ga]|].
  destruct (zget (a_id a) (equipment m0)) as [cur|] eqn:Q.
  - destruct (auth_eqb cur a); [apply IH; [exact I | intros _; exact Ga]|].
    apply IH; [apply ban_device_inv; assumption | intros _; exact Ga].
  - apply IH; [apply add_device_inv; assumption | intros _; exact Ga].
Qed.

Lemma replay_auths_windows_empty l : forall m0,
  (forall id w, zget id (reports m0) = Some w -> w = []) ->
  forall id w, zget id (reports (replay_auths m0 l)) = Some w -> w = [].
Proof.
  induction l as [|a l IH]; intros m0 H; cbn [replay_auths]; [exact H|].
  destruct (zin (a_id a) (bans m0)); [apply IH; exact H|].
  destruct (zget (a_id a) (equipment m0)) as [cur|]; [destruct (auth_eqb cur a)|]; apply IH; try exact H.
  - intros id w Q. cbn [ban_device reports] in Q. rewrite zget_zdel in Q. destruct (id =? a_id a); [discriminate | apply (H _ _ Q)].
  - intros id w Q. cbn [add_device reports] in Q. rewrite zget_zset in Q. destruct (id =? a_id a); [inversion Q; reflexivity | apply (H _ _ Q)].
Qed.

Lemma empty_tables_inv m0 : MemInv m0 -> MemInv (empty_tables m0).
Proof.
  intros [Hlo Hhi Hoh Hht _ _ _ _ _ _ _].
  constructor; cbn [empty_tables offset history equipment reports impact bans index gca_avail]; try assumption; try reflexivity; try discriminate.
  intros _. repeat split.
Qed.

Lemma last_offset_inv m0 : MemInv m0 -> last_offset (history m0) = offset m0.
Proof.
  intros I. pose proof (i_off_hist _ I) as Hoh. pose proof (i_hist_tso _ I) as Hht.
  pose proof (i_off_lo _ I) as Hlo. pose proof (i_off_hi _ I) as Hhi.
  unfold last_offset. destruct (rev (history m0)) as [|s t] eqn:R.
  - assert (history m0 = []) by (rewrite <- (rev_involutive (history m0)), R; reflexivity).
    rewrite H in Hoh. cbn in Hoh. lia.
  - assert (E : history m0 = rev t ++ [s]) by (rewrite <- (rev_involutive (history m0)), R; reflexivity).
    assert (N : nth_error (history m0) (length (rev t)) = Some s).
    { rewrite E, nth_error_app2, Nat.sub_diag by lia. reflexivity. }
    rewrite (Hht _ _ N). rewrite E, app_length in Hoh. cbn [length] in Hoh.
    rewrite u32_id by (unfold is_u32, week_len in *; lia). unfold week_len in *. lia.
Qed.

Section Load.
  Variable verify : bytes -> bytes -> bytes -> bool.

  Definition impact_reset_equiv := mem_equiv.

  (* the same, also exposing what start-up leaves on disk *)
  Theorem load_spec_full st fresh :
    MemInv (mm st) -> DiskInv verify st ->
    exists st', load verify (dd st) fresh = LOk st' /\
                mem_equiv (mm st') (mm st) /\ MemInv (mm st') /\ DiskInv verify st' /\
                d_keys (dd st') = d_keys (dd st) /\ d_temp (dd st') = d_temp (dd st) /\ d_gca (dd st') = d_gca (dd st) /\
                d_auths (dd st') = d_auths (dd st) /\ d_stats (dd st') = d_stats (dd st) /\
                exists rl re, d_reports (dd st) = Some rl /\ d_reports (dd st') = Some (rl ++ re) /\ (forall r, In r re -> In r rl).
  Proof.
    intros I D. pose proof D as D0.
    destruct D as [Kk Kt Kg Kgl Kgz Ks Ka Kf Kr].
    destruct Kt as (tk & Dt & Et). destruct Ka as (al & Da & Hv & Hn & Hr). destruct Kr as (rl & Drl & Hrl & Hwin).
    unfold load. rewrite Kk, Dt, Da, Ks, Drl.
    set (gk := match d_gca (dd st) with Some k => pad 32 k | None => zeros 32 end).
    assert (Egk : gk = gca (mm st)).
    { unfold gk. rewrite Kg. destruct (gca_avail (mm st)) eqn:G; [apply pad_exact, Kgl; reflexivity | symmetry; apply Kgz; reflexivity]. }
    assert (Fv : forallb (fun a => verify gk (auth_signing_bytes a) (a_sig a)) al = true).
    { apply forallb_forall. intros a Ha. rewrite Egk. apply (proj1 (Hv a Ha)). }
    rewrite Fv. cbn [negb].
    assert (Eav : match d_gca (dd st) with Some _ => true | None => false end = gca_avail (mm st)).
    { rewrite Kg. destruct (gca_avail (mm st)); reflexivity. }
    rewrite Eav, Egk, Et, (last_offset_inv _ I).
    change {| equipment := []; index := []; bans := []; reports := []; impact := []; offset := offset (mm st);
              history := history (mm st); gca := gca (mm st); gca_avail := gca_avail (mm st);
              tempkey := tempkey (mm st); skeys := skeys (mm st) |} with (empty_tables (mm st)).
    set (m1 := replay_auths (empty_tables (mm st)) al) in *.
    destruct (replay_auths_fields al (empty_tables (mm st))) as (F1 & F2 & F3 & F4 & F5 & F6).
    fold m1 in F1, F2, F3, F4, F5, F6. cbn [empty_tables offset history gca gca_avail tempkey skeys] in F1, F2, F3, F4, F5, F6.
    assert (I1 : MemInv m1).
    { apply replay_auths_inv; [apply empty_tables_inv; exact I|]. intros NE. cbn [empty_tables gca_avail].
      destruct (gca_avail (mm st)) eqn:G; [reflexivity|]. exfalso. apply NE. apply Hn. reflexivity. }
    destruct Hr as (H1 & H2 & H3).
    set (st1 := {| mm := m1; dd := {| d_keys := Some (skeys (mm st)); d_temp := Some tk; d_gca := d_gca (dd st);
                                     d_auths := Some al; d_reports := Some rl; d_stats := Some (history (mm st)) |} |}).
    destruct (replay_reports_spec verify rl st1 I1) as (st2 & re & R & T & I2 & W & K1 & K2 & K3 & K4 & K5 & K6 & Sub).
    { intros r Hr'. destruct (Hrl r Hr') as (P1 & P2 & P3 & P4). unfold report_ok. cbn [st1 mm].
      split; [exact P1|]. split; [lia|]. split.
      - destruct P3 as [M|M]; [left; unfold zmem in *; rewrite H1; exact M | right; rewrite H3; exact M].
      - intros a Qa. apply P4. rewrite <- H1. exact Qa. }
    exists st2. split; [exact R|].
    destruct T as (T1&T2&T3&T4&T5&T6&T7&T8&T9&T10). unfold st1 in *. cbn [mm dd d_keys d_temp d_gca d_auths d_stats d_reports option_map] in *.
    assert (Wn : forall id a w, zget id (equipment (mm st)) = Some a -> zget id (reports (mm st)) = Some w ->
                 exists w2, zget id (reports (mm st2)) = Some w2 /\ win_eq w2 (replay_dev (a_cap a) (offset (mm st)) (for_dev id rl))).
    { intros id a w Qe Qr.
      assert (Q1 : exists w1, zget id (reports m1) = Some w1).
      { apply zmem_true_get. rewrite (i_dom_rep _ I1). unfold zmem. rewrite H1, Qe. reflexivity. }
      destruct Q1 as (w1 & Q1).
      assert (w1 = []) by (eapply (replay_auths_windows_empty al (empty_tables (mm st))); [intros ? ? X; cbn in X; discriminate | exact Q1]).
      subst w1. destruct (W id a [] ltac:(rewrite H1; exact Qe) Q1) as (w2 & Q2 & E2).
      exists w2. split; [exact Q2|]. rewrite F1 in E2. exact E2. }
    assert (ME : mem_equiv (mm st2) (mm st)).
    { constructor; try congruence.
      - intros id. destruct (zget id (reports (mm st))) as [w|] eqn:Qr.
        + assert (Qe : exists a, zget id (equipment (mm st)) = Some a).
          { apply zmem_true_get. rewrite <- (i_dom_rep _ I). eapply zget_zmem; exact Qr. }
          destruct Qe as (a & Qe). destruct (Wn id a w Qe Qr) as (w2 & Q2 & E2). rewrite Q2.
          intros i. rewrite (E2 i). symmetry. apply (Hwin _ _ _ Qe Qr).
        + destruct (zget id (reports (mm st2))) as [w2|] eqn:Q2; [|exact Logic.I].
          exfalso. apply zget_zmem in Q2. rewrite (i_dom_rep _ I2), T1 in Q2. unfold zmem in Q2. rewrite H1 in Q2.
          pose proof (i_dom_rep _ I id) as X. unfold zmem in X. rewrite Qr in X. destruct (zget id (equipment (mm st))); discriminate.
      - intros id. rewrite (i_dom_imp _ I2), (i_dom_imp _ I), T1. unfold zmem. rewrite H1. reflexivity. }
    split; [exact ME|]. split; [exact I2|].
    split; [|split; [exact K1|]; split; [exact K2|]; split; [exact K3|]; split; [exact K4|]; split; [exact K5|];
             exists rl, re; split; [reflexivity|]; split; [exact K6 | exact Sub]].
    destruct ME as [M1 M2 M3 M4 M5 M6 M7 M8 M9 M10 M11].
    constructor.
    - rewrite K1. congruence.
    - exists tk. split; [rewrite K2; reflexivity | congruence].
    - rewrite K3, Kg, M3, M4. reflexivity.
    - intros G. rewrite M3. apply Kgl. congruence.
    - intros G. rewrite M3. apply Kgz. congruence.
    - rewrite K5. congruence.
    - exists al. split; [rewrite K4; reflexivity|]. split; [intros a Ha; rewrite M3; apply Hv; exact Ha|].
      split; [intros G; apply Hn; congruence|].
      assert (Y : auth_part_ext (replay_auths (empty_tables (mm st2)) al) m1) by (apply replay_auths_ext; repeat split).
      destruct Y as (Y1 & Y2 & Y3).
      repeat split; intros; [rewrite Y1, H1, M7 | rewrite Y2, H2, M8 | rewrite Y3, H3, M9]; reflexivity.
    - intros id a Qe. rewrite M7 in Qe. apply (Kf _ _ Qe).
    - exists (rl ++ re). split; [rewrite K6; reflexivity|]. split.
      + intros r Hr'. assert (In r rl) by (apply in_app_or in Hr'; destruct Hr' as [X|X]; [exact X | apply Sub; exact X]).
        destruct (Hrl r H) as (P1 & P2 & P3 & P4). rewrite M1. split; [exact P1|]. split; [exact P2|]. split.
        * destruct P3 as [M|M]; [left; unfold zmem in *; rewrite M7; exact M | right; rewrite M9; exact M].
        * intros a Qa. apply P4. rewrite <- M7. exact Qa.
      + intros id a w2 Qe Q2. rewrite M7 in Qe. rewrite M1.
        pose proof (M10 id) as X. rewrite Q2 in X. destruct (zget id (reports (mm st))) as [w|] eqn:Qr; [|contradiction].
        destruct (Wn id a w Qe Qr) as (w2' & Q2' & E2). rewrite Q2 in Q2'. inversion Q2'; subst w2'.
        eapply win_eq_trans; [exact E2|]. rewrite for_dev_app. unfold replay_dev at 2. rewrite fold_left_app.
        fold (replay_dev (a_cap a) (offset (mm st)) (for_dev id rl)).
        rewrite replay_idempotent_tail; [apply win_eq_refl| |].
        * intros r Hr'. apply for_dev_In in Hr'. apply for_dev_In. destruct Hr' as [X1 Y1]. split; [apply Sub; exact X1 | exact Y1].
        * intros r Hr'. apply for_dev_In in Hr'. destruct Hr' as [X1 _]. apply (Hrl r X1).
  Qed.

  Theorem load_spec st fresh :
    MemInv (mm st) -> DiskInv verify st ->
    exists st', load verify (dd st) fresh = LOk st' /\
                mem_equiv (mm st') (mm st) /\ MemInv (mm st') /\ DiskInv verify st'.
  Proof.
    intros I D. destruct (load_spec_full st fresh I D) as (st' & L & ME & I' & D' & _).
    exists st'. split; [exact L|]. split; [exact ME|]. split; assumption.
  Qed.
End Load.
