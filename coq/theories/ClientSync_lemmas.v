(* Proofs about ClientSync.v (the device's side of the synchronisation protocol). *)
From Coq Require Import ZArith List Bool String Lia.
From Coq.Strings Require Import Byte.
From GCA Require Import Wrap Bytes Bytes_lemmas CodecSync ClientSync.
Import ListNotations.
Open Scope Z_scope.
Notation length := List.length.

(* ------------------------------------------------------------------ slices *)
Lemma sub_some b lo hi : 0 <= lo -> lo <= hi -> hi <= Z.of_nat (length b) ->
  exists x, sub b lo hi = Some x /\ length x = Z.to_nat (hi - lo).
Proof.
  intros H1 H2 H3. unfold sub.
  replace ((0 <=? lo) && (lo <=? hi) && (hi <=? Z.of_nat (length b))) with true
    by (symmetry; rewrite !andb_true_iff, !Z.leb_le; lia).
  eexists; split; [reflexivity|]. rewrite firstn_length, skipn_length. lia.
Qed.

Lemma sub_inv b lo hi x : sub b lo hi = Some x ->
  0 <= lo /\ lo <= hi /\ hi <= Z.of_nat (length b) /\
  x = firstn (Z.to_nat (hi - lo)) (skipn (Z.to_nat lo) b) /\ length x = Z.to_nat (hi - lo).
Proof.
  unfold sub. destruct ((0 <=? lo) && (lo <=? hi) && (hi <=? Z.of_nat (length b))) eqn:E; [|discriminate].
  rewrite !andb_true_iff, !Z.leb_le in E. intros H; injection H as <-.
  repeat split; try lia. rewrite firstn_length, skipn_length. lia.
Qed.

Lemma idx_some b i : 0 <= i < Z.of_nat (length b) -> exists x, idx b i = Some x.
Proof.
  intros H. unfold idx. replace (0 <=? i) with true by (symmetry; apply Z.leb_le; lia).
  destruct (nth_error b (Z.to_nat i)) eqn:E; [eauto|].
  apply nth_error_None in E. lia.
Qed.

Lemma sub_eq (b a m c : bytes) lo hi : b = a ++ m ++ c -> lo = Z.of_nat (length a) ->
  hi = lo + Z.of_nat (length m) -> sub b lo hi = Some m.
Proof.
  intros -> -> ->. unfold sub.
  replace ((0 <=? Z.of_nat (length a)) && (Z.of_nat (length a) <=? Z.of_nat (length a) + Z.of_nat (length m)) &&
           (Z.of_nat (length a) + Z.of_nat (length m) <=? Z.of_nat (length (a ++ m ++ c)))) with true
    by (symmetry; rewrite !andb_true_iff, !Z.leb_le, !app_length; lia).
  f_equal. rewrite Nat2Z.id.
  replace (Z.to_nat (Z.of_nat (length a) + Z.of_nat (length m) - Z.of_nat (length a))) with (length m) by lia.
  rewrite skipn_app_exact. apply firstn_app_exact.
Qed.

Lemma idx_eq (b a : bytes) (x : byte) (c : bytes) i : b = a ++ x :: c -> i = Z.of_nat (length a) -> idx b i = Some x.
Proof.
  intros -> ->. unfold idx. replace (0 <=? Z.of_nat (length a)) with true by (symmetry; apply Z.leb_le; lia).
  rewrite Nat2Z.id. rewrite nth_error_app2 by lia. rewrite Nat.sub_diag. reflexivity.
Qed.

Lemma u16_small z : 0 <= z < 65536 -> u16 z = z.
Proof. intros H. unfold u16. change (2^16) with 65536. apply Z.mod_small. lia. Qed.

(* ------------------------------------------------------------------ the list loop *)
Lemma le_dec_2 x : length x = 2%nat -> 0 <= le_dec x < 65536.
Proof. intros H. pose proof (le_dec_range x) as R. rewrite H in R. change (256 ^ Z.of_nat 2) with 65536 in R. exact R. Qed.

Lemma parse_servers_props : forall fuel b i e acc,
  0 <= i -> e <= Z.of_nat (length b) ->
  parse_servers fuel b i e acc <> SPanic /\
  ((Z.to_nat (e - i) < fuel)%nat -> parse_servers fuel b i e acc <> SFuel) /\
  (forall l, Forall aserver_wf acc -> parse_servers fuel b i e acc = SOk l -> Forall aserver_wf l).
Proof.
  induction fuel as [|f IH]; intros b i e acc Hi He.
  - cbn. repeat split; try congruence. lia.
  - cbn [parse_servers].
    destruct (i <? e) eqn:Eie.
    2:{ repeat split; try congruence. intros l Ha H. injection H as <-. apply Forall_rev. exact Ha. }
    apply Z.ltb_lt in Eie.
    destruct (e <? i + 34) eqn:E34.
    { repeat split; congruence. }
    apply Z.ltb_ge in E34.
    destruct (sub_some b i (i + 32)) as [k [Hk Lk]]; try lia. rewrite Hk.
    destruct (idx_some b (i + 32)) as [bn Hbn]; try lia. rewrite Hbn.
    destruct (idx_some b (i + 33)) as [ll Hll]; try lia. rewrite Hll.
    cbv zeta. pose proof (b2z_range ll) as RL.
    destruct (e <? i + 34 + b2z ll + 70) eqn:E70.
    { repeat split; congruence. }
    apply Z.ltb_ge in E70.
    destruct (sub_some b (i + 34) (i + 34 + b2z ll)) as [loc [Hloc Lloc]]; try lia. rewrite Hloc.
    destruct (sub_some b (i + 34 + b2z ll) (i + 34 + b2z ll + 2)) as [h [Hh Lh]]; try lia. rewrite Hh.
    destruct (sub_some b (i + 34 + b2z ll + 2) (i + 34 + b2z ll + 4)) as [t [Ht Lt]]; try lia. rewrite Ht.
    destruct (sub_some b (i + 34 + b2z ll + 4) (i + 34 + b2z ll + 6)) as [u [Hu Lu]]; try lia. rewrite Hu.
    destruct (sub_some b (i + 34 + b2z ll + 6) (Z.of_nat (length b))) as [sg [Hsg Lsg]]; try lia. rewrite Hsg.
    specialize (IH b (i + 34 + b2z ll + 70) e
      ({| as_key := k; as_banned := negb (Byte.eqb bn x00); as_loc := loc; as_http := le_dec h;
          as_tcp := le_dec t; as_udp := le_dec u; as_sig := pad 64 sg |} :: acc) ltac:(lia) He).
    destruct IH as [IH1 [IH2 IH3]].
    split; [exact IH1|]. split.
    + intros Hf. apply IH2. lia.
    + intros l Ha H. apply (IH3 l); [|exact H].
      constructor; [|exact Ha]. unfold aserver_wf; cbn [as_key as_banned as_loc as_http as_tcp as_udp as_sig].
      repeat split; try lia; try apply pad_length;
        try (apply le_dec_2; lia).
Qed.

(* ------------------------------------------------------------------ the parser never panics *)
Section Parser.
  Variable verify : bytes -> bytes -> bytes -> bool.

  Lemma parse_reply_total mykey skey gkey now b :
    712 <= Z.of_nat (length b) < 65536 ->
    parse_reply verify mykey skey gkey now b <> PPanic /\ parse_reply verify mykey skey gkey now b <> PFuel.
  Proof.
    intros Hn. unfold parse_reply. set (n := Z.of_nat (length b)) in *.
    rewrite !u16_small by lia.
    destruct (sub_some b (n - 72) n) as [tb [Htb Ltb]]; try lia. rewrite Htb.
    destruct (sub_some tb 0 8) as [t8 [Ht8 Lt8]]; try lia. rewrite Ht8.
    cbv zeta.
    destruct ((u64 (u64 now + 86400) <? le_dec t8) || (le_dec t8 <? u64 (u64 now - 86400))); [split; congruence|].
    destruct (sub_some b (n - 64) n) as [sg [Hsg Lsg]]; try lia. rewrite Hsg.
    destruct (sub_some b 0 (n - 64)) as [msg [Hmsg Lmsg]]; try lia. rewrite Hmsg.
    destruct (negb (verify skey msg (pad 64 sg))); [split; congruence|].
    destruct (sub_some b 0 32) as [ek [Hek Lek]]; try lia. rewrite Hek.
    destruct (sub_some b 32 36) as [off [Hoff Loff]]; try lia. rewrite Hoff.
    destruct (sub_some b 36 540) as [bf [Hbf Lbf]]; try lia. rewrite Hbf.
    destruct (sub_some b 540 572) as [ng [Hng Lng]]; try lia. rewrite Hng.
    destruct (sub_some b 572 576) as [nid [Hnid Lnid]]; try lia. rewrite Hnid.
    destruct (sub_some b (n - 136) (n - 72)) as [gsig [Hgsig Lgsig]]; try lia. rewrite Hgsig.
    destruct (negb (bytes_eqb ek mykey)); [split; congruence|].
    destruct (sub_some b 540 (n - 136)) as [mb [Hmb Lmb]]; try lia. rewrite Hmb.
    destruct (negb (is_blank ng) && negb (verify gkey (ascii_bytes "EquipmentMigration" ++ ek ++ mb) (pad 64 gsig)));
      [split; congruence|].
    pose proof (parse_servers_props (S (length b)) b 576 (n - 136) [] ltac:(lia) ltac:(lia)) as [P1 [P2 _]].
    specialize (P2 ltac:(lia)).
    destruct (parse_servers (S (length b)) b 576 (n - 136) []); try congruence.
    - destruct (forallb _ l); split; congruence.
    - split; congruence.
  Qed.

  Lemma client_recv_total mykey skey gkey now stream :
    client_recv verify 712 mykey skey gkey now stream <> PPanic /\
    client_recv verify 712 mykey skey gkey now stream <> PFuel.
  Proof.
    unfold client_recv. destruct stream as [|l0 [|l1 rest]]; try (split; congruence).
    set (n := le_dec [l0; l1]).
    assert (Rn : 0 <= n < 65536) by (apply le_dec_2; reflexivity).
    destruct (n <? 712) eqn:E1; [split; congruence|]. apply Z.ltb_ge in E1.
    destruct (Z.of_nat (length rest) <? n) eqn:E2; [split; congruence|]. apply Z.ltb_ge in E2.
    apply parse_reply_total. rewrite firstn_length. lia.
  Qed.
End Parser.

(* ------------------------------------------------------------------ what an accepted reply guarantees *)
Lemma fresh_math now st : 86400 <= now -> now + 86400 < 2^64 -> fresh now st = true ->
  now - 86400 <= st <= now + 86400.
Proof.
  unfold fresh, u64. change (2^64) with 18446744073709551616. intros H1 H2 H.
  rewrite (Z.mod_small now) in H by lia.
  rewrite !Z.mod_small in H by lia.
  apply negb_true_iff, orb_false_iff in H. destruct H as [A B].
  apply Z.ltb_ge in A, B. lia.
Qed.

Lemma skipn_skipn' {A} (a : nat) : forall (c : nat) (l : list A), skipn a (skipn c l) = skipn (c + a) l.
Proof.
  induction c as [|c IH]; intros l; [reflexivity|].
  destruct l as [|x l]; [rewrite !skipn_nil; reflexivity|]. cbn [skipn Nat.add]. apply IH.
Qed.

Lemma sub_sub b lo hi x a c y : sub b lo hi = Some x -> sub x a c = Some y ->
  sub b (lo + a) (lo + c) = Some y.
Proof.
  intros H1 H2. apply sub_inv in H1 as (A1 & A2 & A3 & A4 & A5).
  apply sub_inv in H2 as (B1 & B2 & B3 & B4 & B5).
  unfold sub. replace ((0 <=? lo + a) && (lo + a <=? lo + c) && (lo + c <=? Z.of_nat (length b))) with true
    by (symmetry; rewrite !andb_true_iff, !Z.leb_le; lia).
  f_equal. subst y x.
  rewrite skipn_firstn_comm, firstn_firstn, skipn_skipn'.
  f_equal; [lia|]. f_equal. lia.
Qed.

Section Sound.
  Variable verify : bytes -> bytes -> bytes -> bool.

  Lemma parse_reply_sound mykey skey gkey now b r :
    712 <= Z.of_nat (length b) < 65536 ->
    parse_reply verify mykey skey gkey now b = POk r -> accepted verify mykey skey gkey now b r.
  Proof.
    intros Hn H. unfold parse_reply in H. set (n := Z.of_nat (length b)) in *.
    rewrite !u16_small in H by lia.
    destruct (sub b (n - 72) n) as [tb|] eqn:Htb; [|discriminate].
    destruct (sub tb 0 8) as [t8|] eqn:Ht8; [|discriminate].
    cbv zeta in H.
    destruct ((u64 (u64 now + 86400) <? le_dec t8) || (le_dec t8 <? u64 (u64 now - 86400))) eqn:Etime; [discriminate|].
    destruct (sub b (n - 64) n) as [sg|] eqn:Hsg; [|discriminate].
    destruct (sub b 0 (n - 64)) as [msg|] eqn:Hmsg; [|discriminate].
    destruct (verify skey msg (pad 64 sg)) eqn:Eouter; [|discriminate]. cbn [negb] in H.
    destruct (sub b 0 32) as [ek|] eqn:Hek; [|discriminate].
    destruct (sub b 32 36) as [off|] eqn:Hoff; [|discriminate].
    destruct (sub b 36 540) as [bf|] eqn:Hbf; [|discriminate].
    destruct (sub b 540 572) as [ng|] eqn:Hng; [|discriminate].
    destruct (sub b 572 576) as [nid|] eqn:Hnid; [|discriminate].
    destruct (sub b (n - 136) (n - 72)) as [gsig|] eqn:Hgsig; [|discriminate].
    destruct (bytes_eqb ek mykey) eqn:Ekey; [|discriminate]. cbn [negb] in H.
    apply bytes_eqb_eq in Ekey. subst ek.
    destruct (sub b 540 (n - 136)) as [mb|] eqn:Hmb; [|discriminate].
    destruct (negb (is_blank ng) && negb (verify gkey (ascii_bytes "EquipmentMigration" ++ mykey ++ mb) (pad 64 gsig))) eqn:Emig;
      [discriminate|].
    destruct (parse_servers (S (length b)) b 576 (n - 136) []) as [l| | |] eqn:Hl; try discriminate.
    destruct (forallb (fun s => verify (if is_blank ng then gkey else ng) (as_signing_bytes s) (as_sig s)) l) eqn:Esrv;
      [|discriminate].
    injection H as <-. cbn [p_offset p_bitfield p_newgca p_newid p_servers].
    assert (Lsg : length sg = 64%nat) by (apply sub_inv in Hsg as (_ & _ & _ & _ & L); rewrite L; lia).
    assert (Lgs : length gsig = 64%nat) by (apply sub_inv in Hgsig as (_ & _ & _ & _ & L); rewrite L; lia).
    rewrite (pad_exact 64 sg Lsg) in Eouter. rewrite (pad_exact 64 gsig Lgs) in Emig.
    constructor; cbn [p_offset p_bitfield p_newgca p_newid p_servers]; fold n; eauto.
    - exists t8. split.
      + pose proof (sub_sub b (n - 72) n tb 0 8 t8 Htb Ht8) as S.
        replace (n - 72 + 0) with (n - 72) in S by lia. replace (n - 72 + 8) with (n - 64) in S by lia. exact S.
      + unfold fresh. rewrite Etime. reflexivity.
    - intros Hb. rewrite Hb in Emig. cbn [negb andb] in Emig. apply negb_false_iff in Emig. eauto.
    - unfold who_signs. apply Forall_forall. intros s Hs. rewrite forallb_forall in Esrv. apply Esrv. exact Hs.
    - pose proof (parse_servers_props (S (length b)) b 576 (n - 136) [] ltac:(lia) ltac:(lia)) as [_ [_ P3]].
      apply (P3 l); [constructor | exact Hl].
  Qed.

  Lemma client_recv_sound mykey skey gkey now stream r :
    client_recv verify 712 mykey skey gkey now stream = POk r ->
    exists l0 l1 rest, stream = l0 :: l1 :: rest /\
      le_dec [l0; l1] <= Z.of_nat (length rest) /\
      accepted verify mykey skey gkey now (firstn (Z.to_nat (le_dec [l0; l1])) rest) r.
  Proof.
    unfold client_recv. destruct stream as [|l0 [|l1 rest]]; try discriminate.
    set (n := le_dec [l0; l1]).
    assert (Rn : 0 <= n < 65536) by (apply le_dec_2; reflexivity).
    destruct (n <? 712) eqn:E1; [discriminate|]. apply Z.ltb_ge in E1.
    destruct (Z.of_nat (length rest) <? n) eqn:E2; [discriminate|]. apply Z.ltb_ge in E2.
    intros H. exists l0, l1, rest. split; [reflexivity|]. split; [exact E2|].
    apply parse_reply_sound; [|exact H]. rewrite firstn_length. lia.
  Qed.
End Sound.

(* ------------------------------------------------------------------ the server map *)
Lemma smap_get_set_same k v m : smap_get k (smap_set k v m) = Some v.
Proof.
  induction m as [|[k' v'] m IH]; cbn [smap_set smap_get].
  - rewrite bytes_eqb_refl. reflexivity.
  - destruct (bytes_eqb k k') eqn:E; cbn [smap_get]; rewrite E; [reflexivity | exact IH].
Qed.
Lemma smap_get_set_other k k' v m : k' <> k -> smap_get k' (smap_set k v m) = smap_get k' m.
Proof.
  intros N. induction m as [|[k2 v2] m IH]; cbn [smap_set smap_get].
  - apply bytes_eqb_neq in N. rewrite N. reflexivity.
  - destruct (bytes_eqb k k2) eqn:E; cbn [smap_get].
    + apply bytes_eqb_eq in E. subst k2. apply bytes_eqb_neq in N. rewrite N. reflexivity.
    + rewrite IH. reflexivity.
Qed.
Lemma smap_get_in k m g : smap_get k m = Some g -> In (k, g) m.
Proof.
  induction m as [|[k' v'] m IH]; cbn [smap_get]; [discriminate|].
  destruct (bytes_eqb k k') eqn:E.
  - apply bytes_eqb_eq in E. subst. intros H; injection H as ->. left; reflexivity.
  - intros H. right. apply IH. exact H.
Qed.
Lemma smap_get_none_keys k m : smap_get k m = None <-> ~ In k (smap_keys m).
Proof.
  induction m as [|[k' v'] m IH]; cbn [smap_get smap_keys map fst]; [tauto|].
  destruct (bytes_eqb k k') eqn:E.
  - apply bytes_eqb_eq in E. subst. split; [discriminate | intros H; exfalso; apply H; left; reflexivity].
  - apply bytes_eqb_neq in E. rewrite IH. cbn [In]. split; intros H; [intros [A|A]; [congruence | tauto] | tauto].
Qed.
Lemma smap_keys_set k v m :
  smap_keys (smap_set k v m) = match smap_get k m with Some _ => smap_keys m | None => smap_keys m ++ [k] end.
Proof.
  induction m as [|[k' v'] m IH]; cbn [smap_set smap_get smap_keys map fst app]; [reflexivity|].
  destruct (bytes_eqb k k') eqn:E; cbn [map fst].
  - reflexivity.
  - fold (smap_keys (smap_set k v m)). rewrite IH. destruct (smap_get k m); reflexivity.
Qed.
Lemma smap_in_set kv k v m : In kv (smap_set k v m) -> In kv m \/ kv = (k, v).
Proof.
  induction m as [|[k' v'] m IH]; cbn [smap_set].
  - intros [H|[]]; right; congruence.
  - destruct (bytes_eqb k k') eqn:E.
    + apply bytes_eqb_eq in E. subst k'. intros [H|H]; [right; congruence | left; right; exact H].
    + intros [H|H]; [left; left; exact H|]. destruct (IH H) as [A|A]; [left; right; exact A | right; exact A].
Qed.
Lemma NoDup_snoc {A} (l : list A) (x : A) : NoDup l -> ~ In x l -> NoDup (l ++ [x]).
Proof.
  induction l as [|y l IH]; intros ND NI; cbn [app].
  - constructor; [intros [] | constructor].
  - inversion ND; subst. constructor.
    + rewrite in_app_iff. cbn [In]. intros [H|[H|[]]]; [tauto | subst; apply NI; left; reflexivity].
    + apply IH; [assumption | intros H; apply NI; right; exact H].
Qed.
Lemma smap_wf_set k v m : smap_wf m -> length k = 32%nat -> gserver_wf v -> smap_wf (smap_set k v m).
Proof.
  intros [ND FA] Lk Wv. split.
  - rewrite smap_keys_set. destruct (smap_get k m) eqn:E; [exact ND|].
    apply smap_get_none_keys in E. apply NoDup_snoc; assumption.
  - apply Forall_forall. intros kv H. apply smap_in_set in H as [H| ->].
    + rewrite Forall_forall in FA. apply FA. exact H.
    + cbn [fst snd]. split; assumption.
Qed.

Section Merge.
  Lemma merge_one_get m s k :
    smap_get k (merge_one m s) =
      if bytes_eqb k (as_key s) then
        match smap_get k m with
        | Some g => if as_banned s then Some (gserver_of s) else Some g
        | None => Some (gserver_of s)
        end
      else smap_get k m.
  Proof.
    unfold merge_one. destruct (bytes_eqb k (as_key s)) eqn:E.
    - apply bytes_eqb_eq in E. subst k. destruct (smap_get (as_key s) m) eqn:G.
      + destruct (as_banned s); [apply smap_get_set_same | exact G].
      + apply smap_get_set_same.
    - apply bytes_eqb_neq in E. destruct (smap_get (as_key s) m).
      + destruct (as_banned s); [apply smap_get_set_other; exact E | reflexivity].
      + apply smap_get_set_other; exact E.
  Qed.

  Lemma ban_le_refl m : ban_le m m.
  Proof. intros k g H B. eauto. Qed.
  Lemma ban_le_trans a b c : ban_le a b -> ban_le b c -> ban_le a c.
  Proof. intros H1 H2 k g G B. destruct (H1 k g G B) as [g' [G' B']]. exact (H2 k g' G' B'). Qed.
  Lemma entry_keep_refl m : entry_keep m m.
  Proof. intros k g H. eauto. Qed.
  Lemma entry_keep_trans a b c : entry_keep a b -> entry_keep b c -> entry_keep a c.
  Proof.
    intros H1 H2 k g G. destruct (H1 k g G) as [g' [G' D]]. destruct (H2 k g' G') as [g'' [G'' D']].
    exists g''. split; [exact G''|]. destruct D' as [->|B]; [exact D | right; exact B].
  Qed.

  Lemma merge_one_ban_le m s : ban_le m (merge_one m s).
  Proof.
    intros k g G B. rewrite merge_one_get, G. destruct (bytes_eqb k (as_key s)); [|eauto].
    destruct (as_banned s) eqn:Bs; [|eauto]. exists (gserver_of s). split; [reflexivity | exact Bs].
  Qed.
  Lemma merge_one_entry_keep m s : entry_keep m (merge_one m s).
  Proof.
    intros k g G. rewrite merge_one_get, G. destruct (bytes_eqb k (as_key s)); [|eauto].
    destruct (as_banned s) eqn:Bs; [|eauto]. exists (gserver_of s). split; [reflexivity | right; exact Bs].
  Qed.
  (* the strict form: an entry is unchanged unless it was not banned and the posted record is a ban *)
  Lemma merge_one_entry_strict m s k g : smap_get k m = Some g -> g_banned g = false ->
    exists g', smap_get k (merge_one m s) = Some g' /\ (g' = g \/ (g_banned g' = true /\ g' = gserver_of s)).
  Proof.
    intros G B. rewrite merge_one_get, G. destruct (bytes_eqb k (as_key s)); [|eauto].
    destruct (as_banned s) eqn:Bs; [|eauto]. exists (gserver_of s). split; [reflexivity | right; split; [exact Bs | reflexivity]].
  Qed.
  Lemma merge_one_provenance m s k g : smap_get k (merge_one m s) = Some g ->
    smap_get k m = Some g \/ (as_key s = k /\ g = gserver_of s).
  Proof.
    rewrite merge_one_get. destruct (bytes_eqb k (as_key s)) eqn:E; [|tauto].
    apply bytes_eqb_eq in E. destruct (smap_get k m) eqn:G.
    - destruct (as_banned s); intros H; injection H as <-; [right; split; congruence | left; reflexivity].
    - intros H; injection H as <-. right; split; congruence.
  Qed.
  Lemma merge_one_wf m s : smap_wf m -> aserver_wf s -> smap_wf (merge_one m s).
  Proof.
    intros W (Lk & Ll & Hh & Ht & Hu & _).
    assert (G : gserver_wf (gserver_of s)) by (unfold gserver_wf, gserver_of; cbn; change (2^16) with 65536; repeat split; lia).
    unfold merge_one. destruct (smap_get (as_key s) m); [destruct (as_banned s)|]; try exact W; apply smap_wf_set; assumption.
  Qed.

  Lemma merge_ban_le l : forall m, ban_le m (merge m l).
  Proof.
    unfold merge. induction l as [|s l IH]; intros m; cbn [fold_left]; [apply ban_le_refl|].
    eapply ban_le_trans; [apply merge_one_ban_le | apply IH].
  Qed.
  Lemma merge_entry_keep l : forall m, entry_keep m (merge m l).
  Proof.
    unfold merge. induction l as [|s l IH]; intros m; cbn [fold_left]; [apply entry_keep_refl|].
    eapply entry_keep_trans; [apply merge_one_entry_keep | apply IH].
  Qed.
  Lemma merge_provenance l : forall m k g, smap_get k (merge m l) = Some g ->
    smap_get k m = Some g \/ exists s, In s l /\ as_key s = k /\ g = gserver_of s.
  Proof.
    unfold merge. induction l as [|s l IH]; intros m k g; cbn [fold_left]; [tauto|].
    intros H. destruct (IH _ _ _ H) as [A|[s' [I [K G]]]].
    - apply merge_one_provenance in A as [A|[K G]]; [left; exact A | right; exists s; cbn [In]; tauto].
    - right. exists s'. cbn [In]. tauto.
  Qed.
  Lemma merge_wf l : forall m, smap_wf m -> Forall aserver_wf l -> smap_wf (merge m l).
  Proof.
    unfold merge. induction l as [|s l IH]; intros m W F; cbn [fold_left]; [exact W|].
    inversion F; subst. apply IH; [apply merge_one_wf; assumption | assumption].
  Qed.
End Merge.

(* ------------------------------------------------------------------ the persisted map *)
Definition entry_bytes (k : bytes) (g : gserver) : bytes :=
  k ++ [bool_byte (g_banned g)] ++ le_enc 2 (Z.of_nat (length (g_loc g))) ++ g_loc g ++
  le_enc 2 (g_http g) ++ le_enc 2 (g_tcp g) ++ le_enc 2 (g_udp g).

Lemma smap_entry_wf k g : length k = 32%nat -> gserver_wf g -> smap_entry (k, g) = Some (entry_bytes k g).
Proof.
  intros Lk (Ll & _). unfold smap_entry, entry_bytes.
  replace (65535 <? Z.of_nat (length (g_loc g))) with false by (symmetry; apply Z.ltb_ge; lia).
  rewrite (pad_exact 32 k Lk). reflexivity.
Qed.

Lemma bool_byte_dec bn : negb (Byte.eqb (bool_byte bn) x00) = bn.
Proof. destruct bn; reflexivity. Qed.

Lemma le_dec_enc2 z : 0 <= z < 2^16 -> le_dec (le_enc 2 z) = z.
Proof. intros H. apply le_dec_enc_small. exact H. Qed.

Definition deser_body (f : nat) (b : bytes) (acc : smap) : dres :=
  if (length b <? 32)%nat then DErr else
  let k := firstn 32 b in let b1 := skipn 32 b in
  match b1 with
  | [] => DErr
  | bn :: b2 =>
      if (length b2 <? 2)%nat then DErr else
      let ll := Z.to_nat (le_dec (firstn 2 b2)) in let b3 := skipn 2 b2 in
      if (length b3 <? ll)%nat then DErr else
      let loc := firstn ll b3 in let b4 := skipn ll b3 in
      if (length b3 =? 0)%nat then DErr else
      if (length b4 <? 6)%nat then DErr else
      let g := {| g_banned := negb (Byte.eqb bn x00); g_loc := loc;
                  g_http := le_dec (firstn 2 b4); g_tcp := le_dec (firstn 2 (skipn 2 b4));
                  g_udp := le_dec (firstn 2 (skipn 4 b4)) |} in
      smap_deser f (skipn 6 b4) (smap_set k g acc)
  end.
Lemma deser_unfold f b acc : b <> [] -> smap_deser (S f) b acc = deser_body f b acc.
Proof. destruct b; [congruence | reflexivity]. Qed.

Lemma firstn_app_len {A} n (a b : list A) : length a = n -> firstn n (a ++ b) = a.
Proof. intros <-. apply firstn_app_exact. Qed.
Lemma skipn_app_len {A} n (a b : list A) : length a = n -> skipn n (a ++ b) = b.
Proof. intros <-. apply skipn_app_exact. Qed.

Lemma deser_step f k g rest acc : length k = 32%nat -> gserver_wf g ->
  smap_deser (S f) (entry_bytes k g ++ rest) acc = smap_deser f rest (smap_set k g acc).
Proof.
  intros Lk (Ll & Hh & Ht & Hu).
  set (loc := g_loc g) in *.
  remember (le_enc 2 (g_http g)) as H2 eqn:EH2. remember (le_enc 2 (g_tcp g)) as T2 eqn:ET2.
  remember (le_enc 2 (g_udp g)) as U2 eqn:EU2.
  assert (LH : length H2 = 2%nat) by (subst H2; apply le_enc_length).
  assert (LT : length T2 = 2%nat) by (subst T2; apply le_enc_length).
  assert (LU : length U2 = 2%nat) by (subst U2; apply le_enc_length).
  remember (le_enc 2 (Z.of_nat (length loc))) as LL eqn:ELL.
  assert (L2 : length LL = 2%nat) by (subst LL; apply le_enc_length).
  assert (Eb : entry_bytes k g ++ rest = k ++ bool_byte (g_banned g) :: LL ++ loc ++ H2 ++ T2 ++ U2 ++ rest).
  { unfold entry_bytes. fold loc. subst LL H2 T2 U2. rewrite <- !app_assoc. reflexivity. }
  rewrite Eb. rewrite deser_unfold.
  2:{ intros Ek. apply (f_equal (@length byte)) in Ek. rewrite app_length in Ek. cbn [length] in Ek. lia. }
  unfold deser_body.
  replace (length (k ++ bool_byte (g_banned g) :: LL ++ loc ++ H2 ++ T2 ++ U2 ++ rest) <? 32)%nat with false
    by (symmetry; apply Nat.ltb_ge; rewrite app_length; lia).
  rewrite (firstn_app_len 32 k _ Lk), (skipn_app_len 32 k _ Lk).
  replace (length (LL ++ loc ++ H2 ++ T2 ++ U2 ++ rest) <? 2)%nat with false
    by (symmetry; apply Nat.ltb_ge; rewrite app_length; lia).
  rewrite (firstn_app_len 2 LL _ L2), (skipn_app_len 2 LL _ L2).
  assert (EL : Z.to_nat (le_dec LL) = length loc)
    by (subst LL; rewrite le_dec_enc2 by (change (2^16) with 65536; lia); apply Nat2Z.id).
  rewrite !EL.
  replace (length (loc ++ H2 ++ T2 ++ U2 ++ rest) <? length loc)%nat with false
    by (symmetry; apply Nat.ltb_ge; rewrite app_length; lia).
  replace (length (loc ++ H2 ++ T2 ++ U2 ++ rest) =? 0)%nat with false
    by (symmetry; apply Nat.eqb_neq; rewrite !app_length; lia).
  rewrite (firstn_app_len (length loc) loc _ eq_refl), (skipn_app_len (length loc) loc _ eq_refl).
  replace (length (H2 ++ T2 ++ U2 ++ rest) <? 6)%nat with false
    by (symmetry; apply Nat.ltb_ge; rewrite !app_length; lia).
  rewrite (firstn_app_len 2 H2 _ LH), (skipn_app_len 2 H2 _ LH), (firstn_app_len 2 T2 _ LT).
  replace (skipn 4 (H2 ++ T2 ++ U2 ++ rest)) with (U2 ++ rest)
    by (symmetry; rewrite app_assoc; apply skipn_app_len; rewrite app_length; lia).
  replace (skipn 6 (H2 ++ T2 ++ U2 ++ rest)) with rest
    by (symmetry; rewrite !app_assoc; apply skipn_app_len; rewrite !app_length; lia).
  rewrite (firstn_app_len 2 U2 _ LU).
  subst H2 T2 U2. rewrite !le_dec_enc2 by assumption. rewrite bool_byte_dec.
  destruct g; reflexivity.
Qed.

Definition entry_ok (kv : bytes * gserver) : Prop := length (fst kv) = 32%nat /\ gserver_wf (snd kv).
Definition set_all (m acc : smap) : smap := fold_left (fun a kv => smap_set (fst kv) (snd kv) a) m acc.
Definition raw_of (m : smap) : bytes := List.concat (map (fun kv => entry_bytes (fst kv) (snd kv)) m).

Lemma serialize_wf m : Forall entry_ok m -> smap_serialize m = Some (raw_of m).
Proof.
  induction m as [|[k g] m IH]; intros F; [reflexivity|].
  inversion F as [|? ? [Lk Wg] F']; subst. cbn [smap_serialize]. cbn [fst snd] in *.
  assert (QQ : smap_entry ((k, g) : bytes * gserver) = Some (entry_bytes k g)) by (apply smap_entry_wf; assumption).
  rewrite QQ, (IH F'). reflexivity.
Qed.

Lemma deser_all : forall m acc fuel, Forall entry_ok m -> (length m < fuel)%nat ->
  smap_deser fuel (raw_of m) acc = DOk (set_all m acc).
Proof.
  induction m as [|[k g] m IH]; intros acc fuel F Hf.
  - destruct fuel; [cbn in Hf; lia | reflexivity].
  - inversion F as [|? ? [Lk Wg] F']; subst. cbn [fst snd] in *.
    destruct fuel as [|f]; [cbn in Hf; lia|].
    unfold raw_of. cbn [map List.concat fst snd]. fold (raw_of m).
    rewrite deser_step by assumption. unfold set_all. cbn [fold_left fst snd]. apply IH; [assumption | cbn [length] in Hf; lia].
Qed.

Lemma entry_bytes_length k g : (1 <= length (entry_bytes k g))%nat.
Proof. unfold entry_bytes. rewrite !app_length. cbn [length]. lia. Qed.
Lemma raw_of_length m : (length m <= length (raw_of m))%nat.
Proof.
  induction m as [|[k g] m IH]; [cbn; lia|].
  unfold raw_of. cbn [map List.concat fst snd length]. fold (raw_of m). rewrite app_length.
  pose proof (entry_bytes_length k g). lia.
Qed.

Lemma smap_get_app_none k a b : smap_get k a = None -> smap_get k (a ++ b) = smap_get k b.
Proof.
  induction a as [|[k' v'] a IH]; cbn [smap_get app]; [reflexivity|].
  destruct (bytes_eqb k k'); [discriminate | exact IH].
Qed.
Lemma smap_set_fresh k v m : smap_get k m = None -> smap_set k v m = m ++ [(k, v)].
Proof.
  induction m as [|[k' v'] m IH]; cbn [smap_get smap_set app]; [reflexivity|].
  destruct (bytes_eqb k k'); [discriminate|]. intros H. rewrite (IH H). reflexivity.
Qed.
Lemma smap_get_none_keys' k m : smap_get k m = None <-> ~ In k (smap_keys m).
Proof.
  induction m as [|[k' v'] m IH]; cbn [smap_get smap_keys map fst]; [tauto|].
  destruct (bytes_eqb k k') eqn:E.
  - apply bytes_eqb_eq in E. subst. split; [discriminate | intros H; exfalso; apply H; left; reflexivity].
  - apply bytes_eqb_neq in E. fold (smap_keys m). rewrite IH. cbn [In]. split; intros H; [intros [A|A]; [congruence | tauto] | tauto].
Qed.
Lemma set_all_nodup : forall m acc, NoDup (smap_keys acc ++ smap_keys m) -> set_all m acc = acc ++ m.
Proof.
  induction m as [|[k g] m IH]; intros acc ND; unfold set_all; cbn [fold_left fst snd].
  - rewrite app_nil_r. reflexivity.
  - assert (NI : ~ In k (smap_keys acc)).
    { cbn [smap_keys map fst] in ND. apply NoDup_remove_2 in ND. intros H. apply ND. apply in_or_app. left. exact H. }
    rewrite smap_set_fresh by (apply smap_get_none_keys'; exact NI).
    fold (set_all m (acc ++ [(k, g)])). rewrite IH.
    + rewrite <- app_assoc. reflexivity.
    + unfold smap_keys in *. rewrite map_app. cbn [map fst app] in *. rewrite <- app_assoc. exact ND.
Qed.

Lemma smap_roundtrip m : smap_wf m ->
  smap_serialize m = Some (raw_of m) /\ smap_deserialize (raw_of m) = DOk m.
Proof.
  intros [ND F]. split; [apply serialize_wf; exact F|].
  unfold smap_deserialize. rewrite deser_all; [|exact F | pose proof (raw_of_length m); lia].
  rewrite set_all_nodup; [reflexivity | exact ND].
Qed.

(* what the deserializer returns is well formed *)
Lemma le_dec_le2 x : (length x <= 2)%nat -> 0 <= le_dec x < 2^16.
Proof.
  intros H. pose proof (le_dec_range x) as R. change (2^16) with 65536.
  destruct x as [|a [|b [|c x]]]; cbn [length] in *; lia.
Qed.

Lemma deser_wf : forall fuel b acc m, smap_wf acc -> smap_deser fuel b acc = DOk m -> smap_wf m.
Proof.
  induction fuel as [|f IH]; intros b acc m W H; [discriminate|].
  destruct b as [|x0 xs] eqn:Eb; [cbn in H; injection H as <-; exact W|].
  rewrite <- Eb in H. rewrite deser_unfold in H by (rewrite Eb; discriminate). unfold deser_body in H.
  destruct (length b <? 32)%nat eqn:E32; [discriminate|]. apply Nat.ltb_ge in E32.
  destruct (skipn 32 b) as [|bn b2]; [discriminate|].
  destruct (length b2 <? 2)%nat; [discriminate|].
  cbv zeta in H.
  destruct (length (skipn 2 b2) <? Z.to_nat (le_dec (firstn 2 b2)))%nat; [discriminate|].
  destruct (length (skipn 2 b2) =? 0)%nat; [discriminate|].
  destruct (length (skipn (Z.to_nat (le_dec (firstn 2 b2))) (skipn 2 b2)) <? 6)%nat; [discriminate|].
  eapply IH; [|exact H]. apply smap_wf_set; [exact W | rewrite firstn_length; lia |].
  pose proof (le_dec_le2 (firstn 2 b2) ltac:(rewrite firstn_length; lia)) as R0.
  unfold gserver_wf; cbn [g_loc g_http g_tcp g_udp].
  repeat split; try (apply le_dec_le2; rewrite firstn_length; lia).
  rewrite firstn_length. change (2^16) with 65536 in R0. lia.
Qed.
Lemma deserialize_wf b m : smap_deserialize b = DOk m -> smap_wf m.
Proof. apply deser_wf. split; constructor. Qed.

(* ------------------------------------------------------------------ the critical section after an accepted reply *)
Lemma apply_sync_spec st r st' : apply_sync st r = Some st' ->
  c_locked st' = c_locked st /\ c_primary st' = c_primary st /\
  smap_serialize (c_servers st') = Some (f_map (c_files st')) /\
  ((is_migration st r = true /\ c_gca st' = p_newgca r /\ c_id st' = p_newid r /\
    c_servers st' = merge [] (p_servers r) /\
    f_gca (c_files st') = p_newgca r /\ f_id (c_files st') = le_enc 4 (p_newid r)) \/
   (is_migration st r = false /\ c_gca st' = c_gca st /\ c_id st' = c_id st /\
    c_servers st' = merge (c_servers st) (p_servers r) /\
    f_gca (c_files st') = f_gca (c_files st) /\ f_id (c_files st') = f_id (c_files st))).
Proof.
  unfold apply_sync. destruct (is_migration st r) eqn:M.
  - destruct (smap_serialize (merge [] (p_servers r))) as [raw|] eqn:S; [|discriminate].
    intros H; injection H as <-. cbn. repeat split; try exact S. left. repeat split.
  - destruct (smap_serialize (merge (c_servers st) (p_servers r))) as [raw|] eqn:S; [|discriminate].
    intros H; injection H as <-. cbn. repeat split; try exact S. right. repeat split.
Qed.

Lemma smap_wf_nil : smap_wf [].
Proof. split; constructor. Qed.

Lemma apply_sync_total st r : smap_wf (c_servers st) -> Forall aserver_wf (p_servers r) ->
  exists st', apply_sync st r = Some st'.
Proof.
  intros W F. unfold apply_sync. destruct (is_migration st r).
  - pose proof (merge_wf (p_servers r) [] smap_wf_nil F) as W'.
    destruct (smap_roundtrip _ W') as [S _]. rewrite S. eauto.
  - pose proof (merge_wf (p_servers r) _ W F) as W'.
    destruct (smap_roundtrip _ W') as [S _]. rewrite S. eauto.
Qed.

Lemma apply_sync_wf st r st' : cstate_wf st -> Forall aserver_wf (p_servers r) ->
  length (p_newgca r) = 32%nat -> 0 <= p_newid r < 2^32 ->
  apply_sync st r = Some st' -> cstate_wf st'.
Proof.
  intros (Lg & Ri & W) F Ln Rn H. apply apply_sync_spec in H as (_ & _ & _ & [(_ & G & I & S & _)|(_ & G & I & S & _)]);
    unfold cstate_wf; rewrite G, I, S; (split; [|split]); try assumption.
  - apply merge_wf; [apply smap_wf_nil | exact F].
  - apply merge_wf; assumption.
Qed.

Lemma persisted_after st r st' : cstate_wf st -> persisted st -> Forall aserver_wf (p_servers r) ->
  length (p_newgca r) = 32%nat -> 0 <= p_newid r < 2^32 ->
  apply_sync st r = Some st' -> persisted st'.
Proof.
  intros Wst (P1 & P2 & P3 & P4) F Ln Rn H.
  pose proof (apply_sync_wf st r st' Wst F Ln Rn H) as (_ & _ & W').
  apply apply_sync_spec in H as (_ & _ & S & D).
  destruct (smap_roundtrip _ W') as [S' R']. rewrite S' in S. injection S as S.
  unfold persisted. rewrite <- S, R'.
  destruct D as [(_ & G & I & _ & FG & FI)|(_ & G & I & _ & FG & FI)]; rewrite FG, FI, G, I.
  - repeat split.
    + apply pad_exact. exact Ln.
    + rewrite le_enc_length. lia.
    + rewrite <- (le_enc_length 4 (p_newid r)) at 1. rewrite firstn_all. apply le_dec_enc_small.
      change (256 ^ Z.of_nat 4) with (2^32). exact Rn.
  - repeat split; assumption.
Qed.

(* ------------------------------------------------------------------ the retry loop *)
Section Round.
  Variable verify : bytes -> bytes -> bytes -> bool.

  Lemma select_usable ord failed m k : select ord failed m = Some k -> usable m k.
  Proof.
    unfold select. intros H. apply find_some in H as [_ H]. unfold admissible in H.
    destruct (smap_get k m) as [g|] eqn:G; [|discriminate].
    apply andb_prop in H as [_ H]. exists g. split; [exact G | apply negb_true_iff; exact H].
  Qed.

  Lemma sync_loop_inv ver mykey gk att : forall k i failed tr st st' lr tr',
    c_locked st = false ->
    sync_loop verify ver mykey gk att k i failed tr st = (st', lr, tr') ->
    identity st' = identity st /\ c_files st' = c_files st /\ lr <> LBlocked /\
    c_locked st' = (match lr with LNotFound => negb (v_unlock_notfound ver) | _ => false end) /\
    (exists new, tr' = new ++ tr /\ Forall (usable (c_servers st)) new) /\
    (forall r, lr = LGot r -> exists key now s, usable (c_servers st) key /\
                 client_recv verify (v_minlen ver) mykey key gk now s = POk r) /\
    (v_minlen ver = 712 -> lr <> LPanic /\ lr <> LFuel).
  Proof.
    induction k as [|k IH]; intros i failed tr st st' lr tr' L H.
    - cbn in H. injection H as <- <- <-. repeat split; try congruence.
      exists []. split; [reflexivity | constructor].
    - cbn [sync_loop] in H. destruct (att i) as [|ord o now].
      { injection H as <- <- <-. repeat split; try congruence. exists []. split; [reflexivity | constructor]. }
      rewrite L in H.
      destruct (select ord failed (c_servers st)) as [key|] eqn:Sel.
      2:{ injection H as <- <- <-. repeat split; try congruence. exists []. split; [reflexivity | constructor]. }
      pose proof (select_usable _ _ _ _ Sel) as U.
      assert (base : forall lr0, lr0 <> LBlocked -> lr0 <> LNotFound ->
                (lr0 <> LPanic /\ lr0 <> LFuel \/ v_minlen ver <> 712) ->
                (forall r, lr0 = LGot r -> exists key0 now0 s, usable (c_servers st) key0 /\
                    client_recv verify (v_minlen ver) mykey key0 gk now0 s = POk r) ->
                (set_primary st key, lr0, key :: tr) = (st', lr, tr') ->
                identity st' = identity st /\ c_files st' = c_files st /\ lr <> LBlocked /\
                c_locked st' = (match lr with LNotFound => negb (v_unlock_notfound ver) | _ => false end) /\
                (exists new, tr' = new ++ tr /\ Forall (usable (c_servers st)) new) /\
                (forall r, lr = LGot r -> exists key now s, usable (c_servers st) key /\
                     client_recv verify (v_minlen ver) mykey key gk now s = POk r) /\
                (v_minlen ver = 712 -> lr <> LPanic /\ lr <> LFuel)).
      { intros lr0 N1 N2 N3 G E. injection E as <- <- <-. repeat split; try assumption; try reflexivity.
        - cbn. destruct lr0; try reflexivity; try exact L. congruence.
        - exists [key]. split; [reflexivity | constructor; [exact U | constructor]].
        - destruct N3 as [[A _]|A]; [exact A | congruence].
        - destruct N3 as [[_ A]|A]; [exact A | congruence]. }
      assert (rec : sync_loop verify ver mykey gk att k (S i) (key :: failed) (key :: tr) (set_primary st key) = (st', lr, tr') ->
                identity st' = identity st /\ c_files st' = c_files st /\ lr <> LBlocked /\
                c_locked st' = (match lr with LNotFound => negb (v_unlock_notfound ver) | _ => false end) /\
                (exists new, tr' = new ++ tr /\ Forall (usable (c_servers st)) new) /\
                (forall r, lr = LGot r -> exists key now s, usable (c_servers st) key /\
                     client_recv verify (v_minlen ver) mykey key gk now s = POk r) /\
                (v_minlen ver = 712 -> lr <> LPanic /\ lr <> LFuel)).
      { intros E. apply IH in E; [|exact L].
        destruct E as (E1 & E2 & E3 & E4 & (new & E5 & E6) & E7 & E8).
        repeat split; try assumption.
        - exists (new ++ [key]). split; [rewrite <- app_assoc; exact E5|].
          apply Forall_app. split; [exact E6 | constructor; [exact U | constructor]].
        - apply E8; assumption.
        - apply E8; assumption. }
      destruct o as [|s|].
      + apply rec. exact H.
      + destruct (client_recv verify (v_minlen ver) mykey key gk now s) as [r|e| |] eqn:CR.
        * apply (base (LGot r)); try congruence; [left; split; congruence|].
          intros r' E. injection E as <-. exists key, now, s. split; assumption.
        * apply rec. exact H.
        * apply (base LPanic); try congruence.
          right. intros M. rewrite M in CR. destruct (client_recv_total verify mykey key gk now s) as [A _]. congruence.
        * apply (base LFuel); try congruence.
          right. intros M. rewrite M in CR. destruct (client_recv_total verify mykey key gk now s) as [_ A]. congruence.
      + apply (base LHang); try congruence. left; split; congruence.
  Qed.
End Round.

Section RoundSpec.
  Variable verify : bytes -> bytes -> bytes -> bool.

  Lemma sync_round_spec ver mykey st att st' r tr :
    c_locked st = false -> sync_round verify ver mykey st att = (st', r, tr) ->
    r <> RBlocked /\
    Forall (usable (c_servers st)) tr /\
    (r <> RTrue -> identity st' = identity st /\ c_files st' = c_files st) /\
    (v_unlock_notfound ver = true -> r = RTrue \/ r = RFalse -> c_locked st' = false) /\
    (r = RTrue -> exists st1 rr key now s,
        identity st1 = identity st /\ c_files st1 = c_files st /\ c_locked st1 = false /\
        usable (c_servers st) key /\
        client_recv verify (v_minlen ver) mykey key (c_gca st) now s = POk rr /\
        apply_sync st1 rr = Some st') /\
    (v_minlen ver = 712 -> smap_wf (c_servers st) -> r <> RPanic /\ r <> RFuel).
  Proof.
    intros L H. unfold sync_round in H. rewrite L in H.
    destruct (sync_loop verify ver mykey (c_gca st) att 5 0 [] [] st) as [[st1 lr] tr1] eqn:E.
    pose proof (sync_loop_inv verify ver mykey (c_gca st) att 5 0 [] [] st st1 lr tr1 L E)
      as (I1 & I2 & I3 & I4 & (new & I5 & I6) & I7 & I8).
    rewrite app_nil_r in I5. subst tr1.
    assert (TR : Forall (usable (c_servers st)) (rev new)) by (apply Forall_rev; exact I6).
    destruct lr as [rr| | | | | | |].
    - (* LGot *)
      rewrite I4 in H.
      destruct (I7 rr eq_refl) as (key & now & s & U & CR).
      destruct (apply_sync st1 rr) as [st2|] eqn:A.
      + injection H as <- <- <-. repeat split; try congruence; try exact TR.
        * intros _ _. apply apply_sync_spec in A as (A1 & _). rewrite A1. exact I4.
        * intros _. exists st1, rr, key, now, s. repeat split; assumption.
      + injection H as <- <- <-.
        split; [congruence|]. split; [exact TR|].
        split; [intros _; split; [exact I1 | exact I2]|].
        split; [intros _ [C|C]; congruence|].
        split; [congruence|].
        intros M Wst. exfalso.
        assert (Wm : smap_wf (c_servers st1)).
        { unfold identity in I1. injection I1 as _ _ ->. exact Wst. }
        rewrite M in CR. apply client_recv_sound in CR as (l0 & l1 & rest & _ & _ & AC).
        destruct (apply_sync_total st1 rr Wm (acc_shape _ _ _ _ _ _ _ AC)) as [x X]. congruence.
    - injection H as <- <- <-. split; [congruence|]. split; [exact TR|]. split; [intros _; split; [exact I1 | exact I2]|].
      split; [intros _ _; exact I4|]. split; [congruence|]. intros _ _; split; congruence.
    - injection H as <- <- <-. split; [congruence|]. split; [exact TR|]. split; [intros _; split; [exact I1 | exact I2]|].
      split; [intros _ _; exact I4|]. split; [congruence|]. intros _ _; split; congruence.
    - injection H as <- <- <-. split; [congruence|]. split; [exact TR|]. split; [intros _; split; [exact I1 | exact I2]|].
      split; [intros UN _; rewrite I4, UN; reflexivity|]. split; [congruence|]. intros _ _; split; congruence.
    - injection H as <- <- <-. split; [congruence|]. split; [exact TR|]. split; [intros _; split; [exact I1 | exact I2]|].
      split; [intros _ [C|C]; congruence|]. split; [congruence|]. intros _ _; split; congruence.
    - injection H as <- <- <-. split; [congruence|]. split; [exact TR|]. split; [intros _; split; [exact I1 | exact I2]|].
      split; [intros _ [C|C]; congruence|]. split; [congruence|]. intros M _. apply I8 in M as [M _]. congruence.
    - congruence.
    - injection H as <- <- <-. split; [congruence|]. split; [exact TR|]. split; [intros _; split; [exact I1 | exact I2]|].
      split; [intros _ [C|C]; congruence|]. split; [congruence|]. intros M _. apply I8 in M as [_ M]. congruence.
  Qed.
End RoundSpec.

(* ------------------------------------------------------------------ start-up *)
Lemma sub_of_sub b lo hi x a c y : sub b lo hi = Some x -> lo <= a -> a <= c -> c <= hi ->
  sub b a c = Some y -> sub x (a - lo) (c - lo) = Some y.
Proof.
  intros H1 Ha Hac Hc H2. pose proof (sub_inv _ _ _ _ H1) as (A1 & A2 & A3 & _ & A5).
  destruct (sub_some x (a - lo) (c - lo)) as [y' [Hy' _]]; try lia.
  pose proof (sub_sub _ _ _ _ _ _ _ H1 Hy') as S.
  replace (lo + (a - lo)) with a in S by lia. replace (lo + (c - lo)) with c in S by lia.
  congruence.
Qed.

Lemma wf_of_identity a b : identity a = identity b -> cstate_wf b -> cstate_wf a.
Proof. unfold identity, cstate_wf. intros H. injection H as -> -> ->. tauto. Qed.
Lemma persisted_of_identity a b : identity a = identity b -> c_files a = c_files b -> persisted b -> persisted a.
Proof. unfold identity, persisted. intros H F. injection H as -> -> ->. rewrite F. tauto. Qed.

Lemma le_dec_le4 x : (length x <= 4)%nat -> 0 <= le_dec x < 2^32.
Proof.
  intros H. pose proof (le_dec_range x) as R.
  assert (256 ^ Z.of_nat (length x) <= 2^32).
  { change (2^32) with (256^4). apply Z.pow_le_mono_r; lia. }
  lia.
Qed.

Lemma client_load_spec fs ord st : client_load fs ord = LdOk st ->
  Inv st /\ c_files st = fs /\ c_servers st <> [] /\
  (c_primary st = blank_key \/ usable (c_servers st) (c_primary st)).
Proof.
  unfold client_load. destruct (smap_deserialize (f_map fs)) as [m| |] eqn:D; try discriminate.
  destruct m as [|kv m]; [discriminate|].
  destruct (length (f_id fs) <? 4)%nat eqn:E4; [discriminate|]. apply Nat.ltb_ge in E4.
  remember (firstn 4 (f_id fs)) as f4 eqn:Ef4. remember (pad 32 (f_gca fs)) as g32 eqn:Eg.
  intros H. assert (E : st = {| c_gca := g32; c_id := le_dec f4; c_servers := kv :: m;
                               c_primary := pick_primary ord (kv :: m); c_locked := false; c_files := fs |}) by congruence.
  clear H. subst st.
  unfold Inv, cstate_wf, persisted; cbn [c_gca c_id c_servers c_primary c_locked c_files f_gca f_id f_map].
  assert (R4 : 0 <= le_dec f4 < 2^32) by (apply le_dec_le4; subst f4; rewrite firstn_length; lia).
  assert (Wm : smap_wf (kv :: m)) by (apply deserialize_wf in D; exact D).
  split; [|split; [reflexivity | split; [discriminate|]]].
  - split; [split; [subst g32; apply pad_length | split; [exact R4 | exact Wm]]|].
    split; [|reflexivity]. subst g32 f4. repeat split; try assumption.
  - unfold pick_primary. destruct (find (admissible [] (kv :: m)) ord) as [k|] eqn:F; [right | left; reflexivity].
    exact (select_usable ord [] (kv :: m) k F).
Qed.

Lemma load_of_persisted st ord : persisted st -> c_servers st <> [] ->
  exists st', client_load (c_files st) ord = LdOk st' /\ identity st' = identity st.
Proof.
  intros (P1 & P2 & P3 & P4) NE. unfold client_load. rewrite P4.
  destruct (c_servers st) as [|kv m] eqn:Es; [congruence|].
  replace (length (f_id (c_files st)) <? 4)%nat with false by (symmetry; apply Nat.ltb_ge; lia).
  eexists; split; [reflexivity|]. unfold identity; cbn [c_gca c_id c_servers c_primary c_locked c_files f_gca f_id f_map]. rewrite P1, P3, Es. reflexivity.
Qed.
Lemma load_refuses_empty st ord : persisted st -> c_servers st = [] -> client_load (c_files st) ord = LdErr.
Proof. intros (_ & _ & _ & P4) E. unfold client_load. rewrite P4, E. reflexivity. Qed.

(* ------------------------------------------------------------------ client histories *)
Section Histories.
  Variable verify : bytes -> bytes -> bytes -> bool.

  Lemma accepted_fields mykey skey gkey now b r : accepted verify mykey skey gkey now b r ->
    length (p_newgca r) = 32%nat /\ 0 <= p_newid r < 2^32 /\ Forall aserver_wf (p_servers r).
  Proof.
    intros A. split; [|split; [|exact (acc_shape _ _ _ _ _ _ _ A)]].
    - pose proof (acc_newgca _ _ _ _ _ _ _ A) as H. apply sub_inv in H as (_ & _ & _ & _ & L). rewrite L. reflexivity.
    - destruct (acc_newid _ _ _ _ _ _ _ A) as (nid & H & ->). apply sub_inv in H as (_ & _ & _ & _ & L).
      apply le_dec_le4. rewrite L. cbn. lia.
  Qed.

  Lemma cstep_spec mykey st op st' : Inv st -> cstep verify v_fixed mykey st op = Some st' ->
    Inv st' /\ step_effect verify mykey st st'.
  Proof.
    intros (W & P & L) H. destruct op as [att|ord]; cbn [cstep] in H.
    - destruct (sync_round verify v_fixed mykey st att) as [[st2 r] tr] eqn:E.
      pose proof (sync_round_spec verify v_fixed mykey st att st2 r tr L E) as (S1 & S2 & S3 & S4 & S5 & S6).
      destruct r; try discriminate; injection H as <-.
      + (* RTrue *)
        destruct (S5 eq_refl) as (st1 & rr & key & now & s & I1 & F1 & L1 & U & CR & A).
        cbn [v_minlen v_fixed] in CR.
        apply client_recv_sound in CR as (l0 & l1 & rest & _ & _ & AC).
        destruct (accepted_fields _ _ _ _ _ _ AC) as (Ln & Rn & Sh).
        pose proof (wf_of_identity st1 st I1 W) as W1.
        pose proof (persisted_of_identity st1 st I1 F1 P) as P1.
        split.
        { split; [eapply apply_sync_wf; eassumption|]. split; [eapply persisted_after; eassumption|].
          apply S4; [reflexivity | left; reflexivity]. }
        unfold identity in I1. injection I1 as G1 D1 M1.
        apply apply_sync_spec in A as (_ & _ & _ & [(Mg & G & I & Sv & _)|(Mg & G & I & Sv & _)]).
        * (* migration *)
          unfold is_migration in Mg. apply andb_prop in Mg as [Ne Nb].
          apply negb_true_iff in Ne, Nb. apply bytes_eqb_neq in Ne.
          destruct (acc_migration _ _ _ _ _ _ _ AC Nb) as (mb & gsig & Hmb & Hgs & V).
          destruct (acc_newid _ _ _ _ _ _ _ AC) as (nid & Hnid & En).
          pose proof (acc_newgca _ _ _ _ _ _ _ AC) as Hng.
          pose proof (acc_len _ _ _ _ _ _ _ AC) as Hlen.
          apply (EffMigrate verify mykey st st2 mb gsig nid (p_servers rr)).
          -- exact V.
          -- rewrite G. replace 0 with (540 - 540) by lia. replace 32 with (572 - 540) by lia.
             eapply sub_of_sub; [exact Hmb | lia | lia | lia | exact Hng].
          -- replace 32 with (572 - 540) by lia. replace 36 with (576 - 540) by lia.
             eapply sub_of_sub; [exact Hmb | lia | lia | lia | exact Hnid].
          -- rewrite I. exact En.
          -- rewrite G, <- G1. exact Ne.
          -- rewrite G. exact Nb.
          -- rewrite G. pose proof (acc_servers _ _ _ _ _ _ _ AC) as SV. unfold who_signs in SV. rewrite Nb in SV. exact SV.
          -- exact Sv.
        * (* merge *)
          assert (Who : who_signs (c_gca st) (p_newgca rr) = c_gca st).
          { unfold who_signs. destruct (is_blank (p_newgca rr)) eqn:B; [reflexivity|].
            unfold is_migration in Mg. rewrite B in Mg. cbn [negb andb] in Mg. rewrite andb_true_r in Mg.
            apply negb_false_iff, bytes_eqb_eq in Mg. congruence. }
          rewrite M1 in Sv.
          apply EffKeep; try congruence.
          -- rewrite Sv. apply merge_ban_le.
          -- rewrite Sv. apply merge_entry_keep.
          -- intros k g Hg. rewrite Sv in Hg. apply merge_provenance in Hg as [Hg|(s0 & In0 & K0 & G0)]; [left; exact Hg|].
             right. exists s0. repeat split; try assumption.
             pose proof (acc_servers _ _ _ _ _ _ _ AC) as SV. rewrite Who in SV. rewrite Forall_forall in SV. apply SV. exact In0.
      + (* RFalse *)
        destruct (S3 ltac:(congruence)) as [I1 F1].
        split.
        { split; [exact (wf_of_identity _ _ I1 W)|]. split; [exact (persisted_of_identity _ _ I1 F1 P)|].
          apply S4; [reflexivity | right; reflexivity]. }
        unfold identity in I1. injection I1 as G1 D1 M1.
        apply EffKeep; try assumption; rewrite M1; [apply ban_le_refl | apply entry_keep_refl | intros k g Hg; left; exact Hg].
    - destruct (client_load (c_files st) ord) as [st2| |] eqn:E; try discriminate. injection H as <-.
      pose proof (client_load_spec _ _ _ E) as (I2 & _ & NE & _).
      split; [exact I2|].
      destruct (c_servers st) as [|kv m] eqn:Es.
      { rewrite (load_refuses_empty st ord P Es) in E. discriminate. }
      destruct (load_of_persisted st ord P ltac:(congruence)) as (st3 & E3 & I3).
      rewrite E in E3. injection E3 as <-. unfold identity in I3. injection I3 as G1 D1 M1.
      apply EffKeep; try assumption; rewrite M1; [apply ban_le_refl | apply entry_keep_refl | intros k g Hg; left; exact Hg].
  Qed.
End Histories.

Section Sequences.
  Variable verify : bytes -> bytes -> bytes -> bool.

  Lemma crun_inv mykey : forall ops st st', Inv st -> crun verify v_fixed mykey st ops = Some st' -> Inv st'.
  Proof.
    induction ops as [|op ops IH]; intros st st' I H; cbn [crun] in H.
    - injection H as <-. exact I.
    - destruct (cstep verify v_fixed mykey st op) as [st1|] eqn:E; [|discriminate].
      apply (IH st1); [|exact H]. exact (proj1 (cstep_spec verify mykey st op st1 I E)).
  Qed.

  (* every step of every history that starts in a loaded state *)
  Lemma every_step mykey st0 ops st op st' : Inv st0 ->
    crun verify v_fixed mykey st0 ops = Some st -> cstep verify v_fixed mykey st op = Some st' ->
    Inv st' /\ step_effect verify mykey st st'.
  Proof. intros I R S. apply (cstep_spec verify mykey st op st'); [exact (crun_inv mykey ops st0 st I R) | exact S]. Qed.

  Lemma same_gca_monotone mykey st ops st' : Inv st -> same_gca_run verify mykey st ops st' ->
    ban_le (c_servers st) (c_servers st') /\ entry_keep (c_servers st) (c_servers st') /\ c_id st' = c_id st.
  Proof.
    intros I R. induction R as [st|st op st1 ops st2 S G R IH].
    - split; [apply ban_le_refl | split; [apply entry_keep_refl | reflexivity]].
    - destruct (cstep_spec verify mykey st op st1 I S) as [I1 Eff].
      destruct (IH I1) as (B & K & D).
      destruct Eff as [_ D1 B1 K1 _ | mb gsig nid l _ _ _ _ Ne _ _ _]; [|congruence].
      split; [eapply ban_le_trans; eassumption | split; [eapply entry_keep_trans; eassumption | congruence]].
  Qed.
End Sequences.

(* ------------------------------------------------------------------ sync trigger *)
Lemma tick_step_fires ticks ok : 59 <= ticks -> tick_step ticks ok = (0, true).
Proof. intros H. unfold tick_step. replace (60 <=? ticks + 1) with true by (symmetry; apply Z.leb_le; lia). reflexivity. Qed.
Lemma tick_step_bound ticks ok t f : 0 <= ticks -> tick_step ticks ok = (t, f) ->
  0 <= t /\ (f = false -> t = ticks + 1 /\ t < 60).
Proof.
  unfold tick_step. intros H. destruct ((60 <=? ticks + 1) || (negb ok && ((ticks + 1) mod 4 =? 3))) eqn:E.
  - intros X; injection X as <- <-. split; [lia | discriminate].
  - intros X; injection X as <- <-. apply orb_false_iff in E as [E _]. apply Z.leb_gt in E. split; [lia | intros _; lia].
Qed.
(* from any tick count, whatever the status values, a sync is launched within 60 iterations *)
Lemma ticks_run_fires : forall oks ticks, 0 <= ticks -> (Z.to_nat (60 - ticks) <= length oks)%nat -> ticks < 60 ->
  snd (ticks_run ticks oks) = true.
Proof.
  induction oks as [|ok oks IH]; intros ticks H0 HL H60.
  - cbn [length] in HL. lia.
  - cbn [ticks_run]. destruct (tick_step ticks ok) as [t f] eqn:E. destruct f; [reflexivity|].
    destruct (tick_step_bound ticks ok t false H0 E) as [T0 T1]. destruct (T1 eq_refl) as [-> T60].
    apply IH; [lia | cbn [length] in HL; lia | lia].
Qed.
Lemma ticks_run_60 ticks oks : 0 <= ticks -> length oks = 60%nat -> snd (ticks_run ticks oks) = true.
Proof.
  intros H0 HL. destruct (Z.lt_ge_cases ticks 60) as [Lt|Ge].
  - apply ticks_run_fires; [exact H0 | rewrite HL; lia | exact Lt].
  - destruct oks as [|ok oks]; [discriminate|]. cbn [ticks_run]. rewrite tick_step_fires by lia. reflexivity.
Qed.
(* the counter never leaves 0..59 *)
Lemma tick_step_range ticks ok : 0 <= ticks < 60 -> 0 <= fst (tick_step ticks ok) < 60.
Proof.
  intros H. unfold tick_step.
  destruct ((60 <=? ticks + 1) || (negb ok && ((ticks + 1) mod 4 =? 3))) eqn:E; cbn [fst]; [lia|].
  apply orb_false_iff in E as [E _]. apply Z.leb_gt in E. lia.
Qed.

(* ------------------------------------------------------------------ the bitfield *)
Lemma bits_val_range l : 0 <= bits_val l < 2 ^ Z.of_nat (length l).
Proof.
  induction l as [|b l IH]; cbn [bits_val length]; [cbn; lia|].
  rewrite Nat2Z.inj_succ, Z.pow_succ_r by lia. destruct b; cbn [Z.b2z]; lia.
Qed.
Lemma bits_val_testbit : forall l k, Z.testbit (bits_val l) (Z.of_nat k) = nth k l false.
Proof.
  induction l as [|b l IH]; intros k; cbn [bits_val].
  - rewrite Z.testbit_0_l. destruct k; reflexivity.
  - replace (Z.b2z b + 2 * bits_val l) with (2 * bits_val l + Z.b2z b) by lia.
    destruct k as [|k]; cbn [nth].
    + apply Z.testbit_0_r.
    + rewrite Nat2Z.inj_succ. rewrite Z.testbit_succ_r by lia. apply IH.
Qed.
Lemma nth_firstn_lt {A} (d : A) : forall n i l, (i < n)%nat -> nth i (firstn n l) d = nth i l d.
Proof.
  induction n as [|n IH]; intros i l H; [lia|].
  destruct l as [|x l]; [destruct i; reflexivity|]. destruct i as [|i]; cbn [firstn nth]; [reflexivity|].
  apply IH. lia.
Qed.
Lemma nth_skipn_add {A} (d : A) : forall n i l, nth i (skipn n l) d = nth (n + i) l d.
Proof.
  induction n as [|n IH]; intros i l; [reflexivity|].
  destruct l as [|x l]; [destruct i; reflexivity|]. cbn [skipn Nat.add nth]. apply IH.
Qed.

Lemma div8 j : ((j + 8) / 8 = S (j / 8))%nat /\ ((j + 8) mod 8 = j mod 8)%nat.
Proof.
  replace (j + 8)%nat with (j + 1 * 8)%nat by lia. split.
  - rewrite Nat.div_add by lia. lia.
  - apply Nat.mod_add. lia.
Qed.
Lemma test_bit_pack : forall n l i, (i < 8 * n)%nat -> test_bit (pack_bits n l) i = Some (nth i l false).
Proof.
  induction n as [|n IH]; intros l i H; [lia|].
  cbn [pack_bits]. unfold test_bit.
  destruct (Nat.lt_ge_cases i 8) as [Lt|Ge].
  - rewrite Nat.div_small, Nat.mod_small by exact Lt. cbn [nth_error]. f_equal.
    rewrite b2z_z2b.
    pose proof (bits_val_range (firstn 8 l)) as R.
    assert (2 ^ Z.of_nat (length (firstn 8 l)) <= 256).
    { change 256 with (2^8). apply Z.pow_le_mono_r; [lia|]. rewrite firstn_length. lia. }
    rewrite Z.mod_small by lia. rewrite bits_val_testbit. apply nth_firstn_lt. exact Lt.
  - destruct (div8 (i - 8)) as [D M]. replace (i - 8 + 8)%nat with i in D, M by lia.
    rewrite D, M. cbn [nth_error].
    specialize (IH (skipn 8 l) (i - 8)%nat ltac:(lia)). unfold test_bit in IH. rewrite IH.
    rewrite nth_skipn_add. f_equal. f_equal. lia.
Qed.

(* bit i of the reply's bitfield is set iff slot offset+i holds a record (PowerOutput > 0; banned slots hold 1) *)
Lemma bitfield_spec powers i : length powers = 4032%nat -> (i < 4032)%nat ->
  test_bit (bitfield_of powers) i = Some (has_record (nth i powers 0)).
Proof.
  intros L H. unfold bitfield_of. rewrite test_bit_pack by lia.
  f_equal. change false with (has_record 0). apply map_nth.
Qed.
Lemma bitfield_length powers : length (bitfield_of powers) = 504%nat.
Proof.
  unfold bitfield_of. generalize (map has_record powers). generalize 504%nat.
  induction n as [|n IH]; intros l; cbn [pack_bits length]; [reflexivity | rewrite IH; reflexivity].
Qed.

(* ------------------------------------------------------------------ the genuine reply parses to the server's data *)
Lemma pad_app_exact n (a x : bytes) : length a = n -> pad n (a ++ x) = a.
Proof. intros L. unfold pad. rewrite <- app_assoc. apply firstn_app_len. exact L. Qed.

Lemma as_serialize_length s : aserver_wf s -> length (as_serialize s) = (104 + length (as_loc s))%nat.
Proof.
  intros (Lk & _ & _ & _ & _ & Ls). unfold as_serialize, as_body.
  rewrite !app_length, !pad_length, !le_enc_length. cbn [length]. lia.
Qed.

Lemma parse_servers_step f pre s tail acc e : aserver_wf s ->
  Z.of_nat (length pre + length (as_serialize s)) <= e ->
  parse_servers (S f) (pre ++ as_serialize s ++ tail) (Z.of_nat (length pre)) e acc =
  parse_servers f (pre ++ as_serialize s ++ tail) (Z.of_nat (length pre + length (as_serialize s))) e (s :: acc).
Proof.
  intros W He. pose proof (as_serialize_length s W) as LS.
  destruct W as (Lk & Ll & Hh & Ht & Hu & Lsg).
  remember (as_key s) as k eqn:Ek. remember (as_loc s) as loc eqn:Eloc. remember (as_sig s) as sg eqn:Esg.
  remember (le_enc 2 (as_http s)) as H2 eqn:EH2. remember (le_enc 2 (as_tcp s)) as T2 eqn:ET2.
  remember (le_enc 2 (as_udp s)) as U2 eqn:EU2.
  assert (LH : length H2 = 2%nat) by (subst H2; apply le_enc_length).
  assert (LT : length T2 = 2%nat) by (subst T2; apply le_enc_length).
  assert (LU : length U2 = 2%nat) by (subst U2; apply le_enc_length).
  remember (bool_byte (as_banned s)) as bb eqn:Ebb.
  remember (z2b (Z.of_nat (length loc))) as ll eqn:Ell.
  assert (Es : as_serialize s = k ++ [bb] ++ [ll] ++ loc ++ H2 ++ T2 ++ U2 ++ sg).
  { unfold as_serialize, as_body. rewrite <- Ek, <- Eloc, <- Esg, <- EH2, <- ET2, <- EU2, <- Ebb, <- Ell.
    rewrite (pad_exact 32 k Lk), (pad_exact 64 sg Lsg). rewrite <- !app_assoc. reflexivity. }
  remember (pre ++ as_serialize s ++ tail) as b eqn:Eb.
  assert (Eb' : b = pre ++ k ++ [bb] ++ [ll] ++ loc ++ H2 ++ T2 ++ U2 ++ sg ++ tail).
  { rewrite Eb, Es. rewrite <- !app_assoc. reflexivity. }
  assert (Lb : Z.of_nat (length b) = Z.of_nat (length pre) + 104 + Z.of_nat (length loc) + Z.of_nat (length tail)).
  { rewrite Eb, !app_length, LS. lia. }
  set (i := Z.of_nat (length pre)) in *.
  assert (EL : b2z ll = Z.of_nat (length loc)).
  { rewrite Ell, b2z_z2b. apply Z.mod_small. lia. }
  cbn [parse_servers].
  replace (i <? e) with true by (symmetry; apply Z.ltb_lt; lia).
  replace (e <? i + 34) with false by (symmetry; apply Z.ltb_ge; lia).
  assert (Q0 : sub b i (i + 32) = Some k).
  { apply (sub_eq b pre k ([bb] ++ [ll] ++ loc ++ H2 ++ T2 ++ U2 ++ sg ++ tail)); [exact Eb' | reflexivity | lia]. }
  assert (Q1 : idx b (i + 32) = Some bb).
  { apply (idx_eq b (pre ++ k) bb ([ll] ++ loc ++ H2 ++ T2 ++ U2 ++ sg ++ tail)).
    - rewrite Eb'. rewrite <- !app_assoc. reflexivity.
    - rewrite app_length. lia. }
  assert (Q2 : idx b (i + 33) = Some ll).
  { apply (idx_eq b (pre ++ k ++ [bb]) ll (loc ++ H2 ++ T2 ++ U2 ++ sg ++ tail)).
    - rewrite Eb'. rewrite <- !app_assoc. reflexivity.
    - rewrite !app_length. cbn [length]. lia. }
  rewrite Q0, Q1, Q2.
  cbv zeta. rewrite EL.
  replace (e <? i + 34 + Z.of_nat (length loc) + 70) with false by (symmetry; apply Z.ltb_ge; lia).
  assert (Q3 : sub b (i + 34) (i + 34 + Z.of_nat (length loc)) = Some loc).
  { apply (sub_eq b (pre ++ k ++ [bb] ++ [ll]) loc (H2 ++ T2 ++ U2 ++ sg ++ tail)).
    - rewrite Eb'. rewrite <- !app_assoc. reflexivity.
    - rewrite !app_length. cbn [length]. lia.
    - reflexivity. }
  assert (Q4 : sub b (i + 34 + Z.of_nat (length loc)) (i + 34 + Z.of_nat (length loc) + 2) = Some H2).
  { apply (sub_eq b (pre ++ k ++ [bb] ++ [ll] ++ loc) H2 (T2 ++ U2 ++ sg ++ tail)).
    - rewrite Eb'. rewrite <- !app_assoc. reflexivity.
    - rewrite !app_length. cbn [length]. lia.
    - lia. }
  assert (Q5 : sub b (i + 34 + Z.of_nat (length loc) + 2) (i + 34 + Z.of_nat (length loc) + 4) = Some T2).
  { apply (sub_eq b (pre ++ k ++ [bb] ++ [ll] ++ loc ++ H2) T2 (U2 ++ sg ++ tail)).
    - rewrite Eb'. rewrite <- !app_assoc. reflexivity.
    - rewrite !app_length. cbn [length]. lia.
    - lia. }
  assert (Q6 : sub b (i + 34 + Z.of_nat (length loc) + 4) (i + 34 + Z.of_nat (length loc) + 6) = Some U2).
  { apply (sub_eq b (pre ++ k ++ [bb] ++ [ll] ++ loc ++ H2 ++ T2) U2 (sg ++ tail)).
    - rewrite Eb'. rewrite <- !app_assoc. reflexivity.
    - rewrite !app_length. cbn [length]. lia.
    - lia. }
  assert (Q7 : sub b (i + 34 + Z.of_nat (length loc) + 6) (Z.of_nat (length b)) = Some (sg ++ tail)).
  { apply (sub_eq b (pre ++ k ++ [bb] ++ [ll] ++ loc ++ H2 ++ T2 ++ U2) (sg ++ tail) []).
    - rewrite Eb'. rewrite <- !app_assoc. rewrite app_nil_r. reflexivity.
    - rewrite !app_length. cbn [length]. lia.
    - rewrite app_length. lia. }
  rewrite Q3, Q4, Q5, Q6, Q7.
  rewrite (pad_app_exact 64 sg tail Lsg).
  replace (i + 34 + Z.of_nat (length loc) + 70) with (Z.of_nat (length pre + length (as_serialize s))) by (rewrite LS; lia).
  f_equal. subst bb H2 T2 U2. rewrite bool_byte_dec, !le_dec_enc2 by assumption.
  subst k loc sg. destruct s; reflexivity.
Qed.

Definition ser_list (l : list aserver) : bytes := List.concat (map as_serialize l).

Lemma ser_list_length l : Forall aserver_wf l -> (length l <= length (ser_list l))%nat.
Proof.
  induction 1 as [|s l W F IH]; [cbn; lia|].
  unfold ser_list in *. cbn [map List.concat length]. rewrite app_length, (as_serialize_length s W). lia.
Qed.

Lemma parse_servers_fwd : forall l pre post acc fuel e, Forall aserver_wf l -> (length l < fuel)%nat ->
  e = Z.of_nat (length pre + length (ser_list l)) ->
  parse_servers fuel (pre ++ ser_list l ++ post) (Z.of_nat (length pre)) e acc = SOk (rev acc ++ l).
Proof.
  induction l as [|s l IH]; intros pre post acc fuel e F Hf He.
  - destruct fuel as [|f]; [cbn in Hf; lia|]. cbn [parse_servers].
    replace (Z.of_nat (length pre) <? e) with false by (symmetry; apply Z.ltb_ge; subst e; cbn; lia).
    rewrite app_nil_r. reflexivity.
  - inversion F as [|? ? W F']; subst.
    destruct fuel as [|f]; [cbn in Hf; lia|].
    unfold ser_list. cbn [map List.concat]. fold (ser_list l). rewrite <- app_assoc.
    rewrite parse_servers_step; [|exact W | rewrite app_length; lia].
    replace (pre ++ as_serialize s ++ ser_list l ++ post) with ((pre ++ as_serialize s) ++ ser_list l ++ post)
      by (rewrite <- app_assoc; reflexivity).
    replace (length pre + length (as_serialize s))%nat with (length (pre ++ as_serialize s)) by apply app_length.
    rewrite IH; [cbn [rev]; rewrite <- app_assoc; reflexivity | exact F' | cbn [length] in Hf; lia |].
    rewrite !app_length. lia.
Qed.

Section Agree.
  Variable verify : bytes -> bytes -> bytes -> bool.

  Lemma parse_parts K off BF NG nid SL GS tm SG mykey skey gkey now :
    length K = 32%nat -> 0 <= off < 2^32 -> length BF = 504%nat -> length NG = 32%nat -> 0 <= nid < 2^32 ->
    Forall aserver_wf SL -> length GS = 64%nat -> length SG = 64%nat ->
    let content := K ++ le_enc 4 off ++ BF ++ NG ++ le_enc 4 nid ++ ser_list SL ++ GS ++ le_enc 8 tm in
    Z.of_nat (length (content ++ SG)) < 65536 ->
    verify skey content SG = true -> fresh now (tm mod 2^64) = true -> K = mykey ->
    (is_blank NG = false ->
       verify gkey (ascii_bytes "EquipmentMigration" ++ K ++ NG ++ le_enc 4 nid ++ ser_list SL) GS = true) ->
    Forall (fun s => verify (who_signs gkey NG) (as_signing_bytes s) (as_sig s) = true) SL ->
    parse_reply verify mykey skey gkey now (content ++ SG) =
      POk {| p_offset := off; p_bitfield := BF; p_newgca := NG; p_newid := nid; p_servers := SL |}.
  Proof.
    intros LK Ro LBF LNG Rn WSL LGS LSG content Hlen Vouter Hfresh EK Vmig Vsrv.
    remember (le_enc 4 off) as O4 eqn:EO4. remember (le_enc 4 nid) as N4 eqn:EN4.
    remember (le_enc 8 tm) as T8 eqn:ET8. remember (ser_list SL) as S eqn:ES.
    assert (LO4 : length O4 = 4%nat) by (subst O4; apply le_enc_length).
    assert (LN4 : length N4 = 4%nat) by (subst N4; apply le_enc_length).
    assert (LT8 : length T8 = 8%nat) by (subst T8; apply le_enc_length).
    remember (content ++ SG) as b eqn:Eb.
    assert (Eb' : b = K ++ O4 ++ BF ++ NG ++ N4 ++ S ++ GS ++ T8 ++ SG).
    { rewrite Eb. unfold content. rewrite <- !app_assoc. reflexivity. }
    assert (Lb : Z.of_nat (length b) = 712 + Z.of_nat (length S)).
    { rewrite Eb', !app_length, LK, LO4, LBF, LNG, LN4, LGS, LT8, LSG. lia. }
    unfold parse_reply. set (n := Z.of_nat (length b)) in *.
    rewrite !u16_small by lia.
    assert (Q1 : sub b (n - 72) n = Some (T8 ++ SG)).
    { apply (sub_eq b (K ++ O4 ++ BF ++ NG ++ N4 ++ S ++ GS) (T8 ++ SG) []).
      - rewrite Eb'. rewrite <- !app_assoc. rewrite app_nil_r. reflexivity.
      - rewrite !app_length. lia.
      - rewrite !app_length. lia. }
    assert (Q2 : sub (T8 ++ SG) 0 8 = Some T8).
    { apply (sub_eq (T8 ++ SG) [] T8 SG); [reflexivity | reflexivity | lia]. }
    rewrite Q1, Q2. cbv zeta.
    assert (ET : le_dec T8 = tm mod 2^64).
    { subst T8. rewrite le_dec_enc. reflexivity. }
    rewrite ET. unfold fresh in Hfresh. apply negb_true_iff in Hfresh. rewrite Hfresh.
    assert (Q3 : sub b (n - 64) n = Some SG).
    { apply (sub_eq b content SG []).
      - rewrite Eb, app_nil_r. reflexivity.
      - unfold n. rewrite Eb, app_length. lia.
      - lia. }
    assert (Q4 : sub b 0 (n - 64) = Some content).
    { apply (sub_eq b [] content SG); [exact Eb | reflexivity |]. unfold n. rewrite Eb, app_length. cbn [length]. lia. }
    rewrite Q3, Q4. rewrite (pad_exact 64 SG LSG), Vouter. cbn [negb].
    assert (Q5 : sub b 0 32 = Some K).
    { apply (sub_eq b [] K (O4 ++ BF ++ NG ++ N4 ++ S ++ GS ++ T8 ++ SG)); [exact Eb' | reflexivity | cbn [length]; lia]. }
    assert (Q6 : sub b 32 36 = Some O4).
    { apply (sub_eq b K O4 (BF ++ NG ++ N4 ++ S ++ GS ++ T8 ++ SG)); [exact Eb' | lia | lia]. }
    assert (Q7 : sub b 36 540 = Some BF).
    { apply (sub_eq b (K ++ O4) BF (NG ++ N4 ++ S ++ GS ++ T8 ++ SG)).
      - rewrite Eb'. rewrite <- !app_assoc. reflexivity.
      - rewrite app_length. lia.
      - lia. }
    assert (Q8 : sub b 540 572 = Some NG).
    { apply (sub_eq b (K ++ O4 ++ BF) NG (N4 ++ S ++ GS ++ T8 ++ SG)).
      - rewrite Eb'. rewrite <- !app_assoc. reflexivity.
      - rewrite !app_length. lia.
      - lia. }
    assert (Q9 : sub b 572 576 = Some N4).
    { apply (sub_eq b (K ++ O4 ++ BF ++ NG) N4 (S ++ GS ++ T8 ++ SG)).
      - rewrite Eb'. rewrite <- !app_assoc. reflexivity.
      - rewrite !app_length. lia.
      - lia. }
    assert (Q10 : sub b (n - 136) (n - 72) = Some GS).
    { apply (sub_eq b (K ++ O4 ++ BF ++ NG ++ N4 ++ S) GS (T8 ++ SG)).
      - rewrite Eb'. rewrite <- !app_assoc. reflexivity.
      - rewrite !app_length. lia.
      - lia. }
    rewrite Q5, Q6, Q7, Q8, Q9, Q10.
    rewrite EK, bytes_eqb_refl. cbn [negb].
    assert (Q11 : sub b 540 (n - 136) = Some (NG ++ N4 ++ S)).
    { apply (sub_eq b (K ++ O4 ++ BF) (NG ++ N4 ++ S) (GS ++ T8 ++ SG)).
      - rewrite Eb'. rewrite <- !app_assoc. reflexivity.
      - rewrite !app_length. lia.
      - rewrite !app_length. lia. }
    rewrite Q11. rewrite (pad_exact 64 GS LGS).
    assert (Emig : negb (is_blank NG) && negb (verify gkey (ascii_bytes "EquipmentMigration" ++ mykey ++ NG ++ N4 ++ S) GS) = false).
    { destruct (is_blank NG) eqn:B; [reflexivity|]. rewrite <- EK. rewrite (Vmig eq_refl). reflexivity. }
    rewrite Emig.
    assert (Q12 : parse_servers (Datatypes.S (length b)) b 576 (n - 136) [] = SOk SL).
    { assert (Hfuel : (length SL < Datatypes.S (length b))%nat).
      { pose proof (ser_list_length SL WSL). subst S. lia. }
      assert (L576 : Z.of_nat (length (K ++ O4 ++ BF ++ NG ++ N4)) = 576) by (rewrite !app_length; lia).
      assert (He : n - 136 = Z.of_nat (length (K ++ O4 ++ BF ++ NG ++ N4) + length (ser_list SL))).
      { rewrite Nat2Z.inj_add, L576, <- ES. lia. }
      pose proof (parse_servers_fwd SL (K ++ O4 ++ BF ++ NG ++ N4) (GS ++ T8 ++ SG) [] (Datatypes.S (length b)) (n - 136) WSL Hfuel He) as PF.
      rewrite L576 in PF. rewrite <- ES in PF.
      replace ((K ++ O4 ++ BF ++ NG ++ N4) ++ S ++ GS ++ T8 ++ SG) with b in PF by (rewrite Eb', <- !app_assoc; reflexivity).
      exact PF. }
    rewrite Q12.
    assert (Q13 : forallb (fun s => verify (if is_blank NG then gkey else NG) (as_signing_bytes s) (as_sig s)) SL = true).
    { apply forallb_forall. rewrite Forall_forall in Vsrv. exact Vsrv. }
    rewrite Q13. subst O4 N4. rewrite !le_dec_enc_small by (change (256 ^ Z.of_nat 4) with (2^32); assumption).
    reflexivity.
  Qed.
End Agree.

Section AgreeView.
  Variable verify : bytes -> bytes -> bytes -> bool.

  Lemma client_recv_framed minlen mykey skey gkey now b extra :
    minlen <= Z.of_nat (length b) < 65536 ->
    client_recv verify minlen mykey skey gkey now (le_enc 2 (Z.of_nat (length b)) ++ b ++ extra) =
    parse_reply verify mykey skey gkey now b.
  Proof.
    intros H. cbn [le_enc app]. unfold client_recv.
    assert (E : le_dec [z2b (Z.of_nat (length b)); z2b (Z.of_nat (length b) / 256)] = Z.of_nat (length b)).
    { change [z2b (Z.of_nat (length b)); z2b (Z.of_nat (length b) / 256)] with (le_enc 2 (Z.of_nat (length b))).
      apply le_dec_enc_small. change (256 ^ Z.of_nat 2) with 65536. lia. }
    rewrite E.
    replace (Z.of_nat (length b) <? minlen) with false by (symmetry; apply Z.ltb_ge; lia).
    replace (Z.of_nat (length (b ++ extra)) <? Z.of_nat (length b)) with false
      by (symmetry; apply Z.ltb_ge; rewrite app_length; lia).
    rewrite Nat2Z.id, firstn_app_exact. reflexivity.
  Qed.

  Lemma reply_parses v sg mykey skey gkey now extra :
    sview_wf v -> length sg = 64%nat ->
    Z.of_nat (length (reply_body v ++ sg)) < 65536 ->
    mykey = sv_key v ->
    verify skey (reply_body v) sg = true ->
    fresh now (sv_time v mod 2^64) = true ->
    view_signed verify gkey v ->
    client_recv verify 712 mykey skey gkey now (sync_reply v sg ++ extra) = POk (view_result v).
  Proof.
    intros (LK & Ro & LP & Wm) Lsg Hlen EK Vouter Hfresh Vs.
    unfold sync_reply. rewrite (pad_exact 64 sg Lsg). rewrite <- app_assoc.
    assert (P : parse_reply verify mykey skey gkey now (reply_body v ++ sg) = POk (view_result v) /\
                712 <= Z.of_nat (length (reply_body v ++ sg))).
    { unfold view_result, view_signed in *.
      destruct (sv_mig v) as [m|] eqn:Em.
      - destruct Wm as ((Le & Lg & Rid & Ws & Lms) & Eeq). destruct Vs as [Vm Vl].
        assert (Ec : reply_body v = sv_key v ++ le_enc 4 (sv_offset v) ++ bitfield_of (sv_powers v) ++ mg_newgca m ++
                       le_enc 4 (mg_newid m) ++ ser_list (mg_servers m) ++ mg_sig m ++ le_enc 8 (sv_time v)).
        { unfold reply_body, reply_tail. rewrite Em. unfold mg_tail.
          rewrite (pad_exact 32 _ LK), (pad_exact 32 _ Lg), (pad_exact 64 _ Lms). rewrite <- !app_assoc. reflexivity. }
        rewrite Ec in *.
        split.
        + apply parse_parts; try assumption; try (apply bitfield_length); try (symmetry; exact EK).
          intros B. specialize (Vm B). unfold mg_signing_bytes, mg_body, mg_tail in Vm.
          rewrite Eeq, (pad_exact 32 _ LK), (pad_exact 32 _ Lg) in Vm. fold (ser_list (mg_servers m)) in Vm.
          rewrite <- ?app_assoc in Vm. exact Vm.
        + rewrite !app_length, !le_enc_length, bitfield_length, LK, Lg, Lms, Lsg. lia.
      - assert (Ec : reply_body v = sv_key v ++ le_enc 4 (sv_offset v) ++ bitfield_of (sv_powers v) ++ zeros 32 ++
                       le_enc 4 0 ++ ser_list (sv_servers v) ++ zeros 64 ++ le_enc 8 (sv_time v)).
        { unfold reply_body, reply_tail. rewrite Em. rewrite (pad_exact 32 _ LK).
          change (zeros 36) with (zeros 32 ++ le_enc 4 0). rewrite <- !app_assoc. reflexivity. }
        rewrite Ec in *.
        split.
        + apply parse_parts; try assumption; try (apply bitfield_length); try (symmetry; exact EK); try apply zeros_length; try lia.
          all: try (intros B; discriminate B). all: try exact Vs.
        + rewrite !app_length, !le_enc_length, bitfield_length, LK, !zeros_length, Lsg. lia. }
    destruct P as [P Hmin].
    rewrite client_recv_framed by lia. exact P.
  Qed.

  (* unknown short id: the server answers with one zero byte; the client cannot even read a length *)
  Lemma refusal_rejected minlen mykey skey gkey now :
    client_recv verify minlen mykey skey gkey now sync_refusal = PErr ERead.
  Proof. reflexivity. Qed.
End AgreeView.

(* ------------------------------------------------------------------ the two defects of the unrepaired code, in the model *)
Definition d10_stream : bytes := le_enc 2 3 ++ [x01; x02; x03].
Lemma d10_prefix_panics verify mykey skey gkey now :
  client_recv verify (v_minlen v_prefix) mykey skey gkey now d10_stream = PPanic.
Proof. reflexivity. Qed.

Definition k1 : bytes := repeat x07 32.
Definition g1 : gserver := {| g_banned := false; g_loc := []; g_http := 1; g_tcp := 2; g_udp := 3 |}.
Definition d9_state : cstate :=
  {| c_gca := zeros 32; c_id := 1; c_servers := [(k1, g1)]; c_primary := k1; c_locked := false;
     c_files := {| f_gca := []; f_id := []; f_map := [] |} |}.
Definition d9_att (i : nat) : attempt := ATry [k1] ODialFail 0.
Lemma d9_prefix_lock_held verify mykey :
  let '(st', r, _) := sync_round verify v_prefix mykey d9_state d9_att in
  r = RFalse /\ c_locked st' = true.
Proof. vm_compute. split; reflexivity. Qed.
Lemma d9_fixed verify mykey :
  let '(st', r, _) := sync_round verify v_fixed mykey d9_state d9_att in
  r = RFalse /\ c_locked st' = false.
Proof. vm_compute. split; reflexivity. Qed.

(* ------------------------------------------------------------------ statements used by Props/C10, C11, C17 *)
Section Statements.
  Variable verify : bytes -> bytes -> bytes -> bool.

  Lemma round_lock_released mykey st att st' r tr : c_locked st = false ->
    sync_round verify v_fixed mykey st att = (st', r, tr) ->
    r <> RBlocked /\ (r = RTrue \/ r = RFalse -> c_locked st' = false).
  Proof.
    intros L H. destruct (sync_round_spec verify v_fixed mykey st att st' r tr L H) as (A & _ & _ & B & _).
    split; [exact A | exact (B eq_refl)].
  Qed.
  Lemma round_never_panics mykey st att st' r tr : c_locked st = false -> smap_wf (c_servers st) ->
    sync_round verify v_fixed mykey st att = (st', r, tr) -> r <> RPanic /\ r <> RFuel.
  Proof.
    intros L W H. destruct (sync_round_spec verify v_fixed mykey st att st' r tr L H) as (_ & _ & _ & _ & _ & B).
    exact (B eq_refl W).
  Qed.
  Lemma round_never_selects_banned ver mykey st att st' r tr : c_locked st = false ->
    sync_round verify ver mykey st att = (st', r, tr) -> Forall (usable (c_servers st)) tr.
  Proof. intros L H. exact (proj1 (proj2 (sync_round_spec verify ver mykey st att st' r tr L H))). Qed.
  Lemma round_frame ver mykey st att st' r tr : c_locked st = false ->
    sync_round verify ver mykey st att = (st', r, tr) -> r <> RTrue ->
    identity st' = identity st /\ c_files st' = c_files st.
  Proof. intros L H N. destruct (sync_round_spec verify ver mykey st att st' r tr L H) as (_ & _ & B & _). exact (B N). Qed.
  Lemma round_accepts_only_checked mykey st att st' tr : c_locked st = false ->
    sync_round verify v_fixed mykey st att = (st', RTrue, tr) ->
    exists key now b rr, usable (c_servers st) key /\ accepted verify mykey key (c_gca st) now b rr.
  Proof.
    intros L H. destruct (sync_round_spec verify v_fixed mykey st att st' RTrue tr L H) as (_ & _ & _ & _ & B & _).
    destruct (B eq_refl) as (st1 & rr & key & now & s & _ & _ & _ & U & CR & _).
    apply client_recv_sound in CR as (l0 & l1 & rest & _ & _ & AC).
    exists key, now, (firstn (Z.to_nat (le_dec [l0; l1])) rest), rr. split; [exact U | exact AC].
  Qed.

  Lemma restart_keeps_identity st ord st' : Inv st -> client_load (c_files st) ord = LdOk st' ->
    identity st' = identity st /\ (c_primary st' = blank_key \/ usable (c_servers st') (c_primary st')).
  Proof.
    intros (_ & P & _) H. pose proof (client_load_spec _ _ _ H) as (_ & _ & _ & Pr). split; [|exact Pr].
    destruct (c_servers st) as [|kv m] eqn:Es.
    - rewrite (load_refuses_empty st ord P Es) in H. discriminate.
    - destruct (load_of_persisted st ord P ltac:(congruence)) as (st3 & E3 & I3). congruence.
  Qed.

  Lemma persist_equals_adopt mykey st att st' ord : Inv st ->
    cstep verify v_fixed mykey st (CSync att) = Some st' -> c_servers st' <> [] ->
    exists st'', client_load (c_files st') ord = LdOk st'' /\ identity st'' = identity st'.
  Proof.
    intros I H NE. destruct (cstep_spec verify mykey st (CSync att) st' I H) as [(_ & P & _) _].
    apply load_of_persisted; assumption.
  Qed.

  (* the reporting loop: after a round that returned, the next iteration is not blocked *)
  Lemma loop_not_wedged mykey st att st' r tr ticks ok : c_locked st = false ->
    sync_round verify v_fixed mykey st att = (st', r, tr) -> r = RTrue \/ r = RFalse ->
    send_iter (c_locked st') ticks ok = Some (tick_step ticks ok).
  Proof.
    intros L H R. destruct (round_lock_released mykey st att st' r tr L H) as [_ B]. unfold send_iter. rewrite (B R). reflexivity.
  Qed.
End Statements.

(* ------------------------------------------------------------------ recorded findings, in the model *)
(* K7: a valid migration order with no new server is adopted and persisted; the client then refuses to start *)
Definition k7_verify (k m s : bytes) : bool := true.
Definition k7_mykey : bytes := repeat x01 32.
Definition k7_srv : bytes := repeat x04 32.
Definition k7_files : cfiles :=
  {| f_gca := repeat x02 32; f_id := le_enc 4 5;
     f_map := raw_of [(k7_srv, {| g_banned := false; g_loc := []; g_http := 1; g_tcp := 2; g_udp := 3 |})] |}.
Definition k7_view : sview :=
  {| sv_key := k7_mykey; sv_offset := 0; sv_powers := repeat 0 4032;
     sv_mig := Some {| mg_equipment := k7_mykey; mg_newgca := repeat x03 32; mg_newid := 9; mg_servers := []; mg_sig := zeros 64 |};
     sv_servers := []; sv_time := 100000 |}.
Definition k7_att (i : nat) : attempt := ATry [k7_srv] (OClosed (sync_reply k7_view (zeros 64))) 100000.

Lemma k7_empty_migration_bricks :
  exists st st', client_load k7_files [k7_srv] = LdOk st /\
    cstep k7_verify v_fixed k7_mykey st (CSync k7_att) = Some st' /\
    c_gca st' = repeat x03 32 /\ c_servers st' = [] /\
    forall ord, cstep k7_verify v_fixed k7_mykey st' (CRestart ord) = None.
Proof.
  eexists. eexists. split; [vm_compute; reflexivity|]. split; [vm_compute; reflexivity|].
  split; [reflexivity|]. split; [reflexivity|]. intros ord. reflexivity.
Qed.

(* a banned entry's address is rewritten by a later ban record for the same key: the strict
   reading "an entry changes only by becoming banned" does not hold for the client's merge *)
Lemma merge_rewrites_banned_entry :
  exists m s, ~ entry_le_strict m (merge_one m s).
Proof.
  exists [(k7_srv, {| g_banned := true; g_loc := []; g_http := 1; g_tcp := 2; g_udp := 3 |})].
  exists {| as_key := k7_srv; as_banned := true; as_loc := [x01]; as_http := 7; as_tcp := 8; as_udp := 9; as_sig := [] |}.
  intros H. destruct (H k7_srv _ eq_refl) as [g' [G [E|[E _]]]]; vm_compute in G; injection G as <-; discriminate.
Qed.
