package server

// Translator regression corpus (T4): shapes that must NOT be silently dropped.
// Each function is annotated with what the translator / checker must say.

import (
	"fmt"
	"net"
	"sync"
)

type AuthorizedServers struct {
	servers []int
	mu      sync.Mutex
}

type GCAServer struct {
	equipment  map[uint32]int
	gcaPubkey  [32]byte
	gcaServers AuthorizedServers
	baseDir    string
	mu         sync.Mutex
}

// EXPECT ok: the receiver is shadowed by a string inside the if block only.
func (s *GCAServer) ShadowedReceiver(n int) int {
	if n > 0 {
		s := fmt.Sprintf("%d", n)
		_ = s
	}
	s.mu.Lock()
	x := s.equipment[1]
	s.mu.Unlock()
	return x
}

// EXPECT VAccess equipment: alias of the receiver.
func (s *GCAServer) AliasRead() int {
	t := s
	return t.equipment[1]
}

// EXPECT Unknown: the object escapes as an argument.
func (s *GCAServer) Escapes() {
	fmt.Println(s)
}

// EXPECT Unknown: closure stored in a variable.
func (s *GCAServer) ClosureVar() {
	f := func() { s.mu.Lock() }
	f()
}

// EXPECT Unknown: deferred closure.
func (s *GCAServer) DeferredClosure() {
	s.mu.Lock()
	defer func() { s.mu.Unlock() }()
}

// EXPECT Unknown: goto.
func (s *GCAServer) Goto() {
	s.mu.Lock()
	goto out
out:
	s.mu.Unlock()
}

// EXPECT Unknown: labelled continue of an outer loop.
func (s *GCAServer) OuterContinue(xs [][]int) {
outer:
	for _, r := range xs {
		for _, v := range r {
			if v == 0 {
				continue outer
			}
		}
	}
}

// EXPECT ok: break inside a switch leaves the switch, not the loop; the unlock is still reached.
func (s *GCAServer) SwitchBreak(xs []int) {
	for _, v := range xs {
		s.mu.Lock()
		switch v {
		case 1:
			break
		default:
		}
		s.mu.Unlock()
	}
}

// EXPECT VUnbalancedReturn: continue skips the unlock and the loop may end there.
func (s *GCAServer) ContinueSkipsUnlock(xs []int) {
	for _, v := range xs {
		s.mu.Lock()
		if v == 0 {
			continue
		}
		s.mu.Unlock()
	}
}

// EXPECT Unknown: a mutex that is not the object's.
func (s *GCAServer) ForeignMutex(m *sync.Mutex) {
	m.Lock()
	m.Unlock()
}

// EXPECT VStack: two mutexes at once.
func (s *GCAServer) Stack() {
	s.mu.Lock()
	s.gcaServers.mu.Lock()
	s.gcaServers.mu.Unlock()
	s.mu.Unlock()
}

// EXPECT VUnknownField: the nested object used as a whole.
func (s *GCAServer) NestedWhole() int {
	a := s.gcaServers
	return len(a.servers)
}

// EXPECT VAccess gcaPubkey: write through copy().
func (s *GCAServer) CopyInto(b []byte) {
	copy(s.gcaPubkey[:], b)
}

// EXPECT VSelfDeadlock in the caller's callee check (helper locks, so it is KFree) -> VCallFreeWhileHeld.
func (s *GCAServer) CallsLockingHelper() {
	s.mu.Lock()
	s.lockingHelper()
	s.mu.Unlock()
}
func (s *GCAServer) lockingHelper() {
	s.mu.Lock()
	s.mu.Unlock()
}

// EXPECT VDeadline: read on an accepted connection without deadline.
func (s *GCAServer) managedRead(conn net.Conn) {
	buf := make([]byte, 4)
	conn.Read(buf)
}

// EXPECT VNetIOHeld: write to the connection under the lock.
func (s *GCAServer) managedWriteLocked(conn net.Conn) {
	s.mu.Lock()
	conn.Write(nil)
	s.mu.Unlock()
}

// EXPECT VUnbalancedPanic (strict) : panic with the lock held.
func (s *GCAServer) PanicLocked() {
	s.mu.Lock()
	if len(s.equipment) == 0 {
		panic("x")
	}
	s.mu.Unlock()
}

// EXPECT ok: defer unlock, panic inside.
func (s *GCAServer) PanicDeferred() {
	s.mu.Lock()
	defer s.mu.Unlock()
	if len(s.equipment) == 0 {
		panic("x")
	}
}

// EXPECT VStaticWrite baseDir: static field written outside the constructor.
func (s *GCAServer) WritesStatic() {
	s.baseDir = "x"
}

// EXPECT Unknown: for with a non-trivial post statement and continue.
func (s *GCAServer) PostContinue() {
	for i := 0; i < 3; s.equipment[1]++ {
		if i == 1 {
			continue
		}
		i++
	}
}
