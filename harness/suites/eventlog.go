package suites

// C18: glow.EventLogger (Printf / ExpireLogs / DumpLogEntries) against the
// Gallina model EventLog.v.
//
// The logger reads time.Now() itself, so the suite places every call on a time
// grid (DESIGN section 3): tick T (>= 10 ms, larger when the machine is loaded),
// expiry = (K + 1/2) T, every Printf/Dump is made in the first half of its own
// grid cell [n T, n T + T/2) and the call's before/after stamps must both lie
// in that half cell -- otherwise the whole history is discarded and repeated
// (with a larger tick), never reported.  ExpireLogs takes its instant as an
// argument: cell n means base + n T + T/4.  With this, "ts.Before(now-expiry)"
// is decided by cell numbers alone: ts in cell a is expired at cell b iff
// b - a >= K + 1.  The model runs in half ticks: time 2n, expiry 2K+1.
// Operation kind 3 passes ExpireLogs the instant (stored stamp of the Printf of
// cell n, as returned by an earlier dump) + expiry, i.e. the exact boundary
// where Before and !After differ: model time 2n + 2K + 1.
//
// The file also holds the grid helpers shared with the limiter suite (tg*).

import (
	"encoding/hex"
	"encoding/json"
	"fmt"
	"os"
	"path/filepath"
	"sort"
	"strings"
	"sync"
	"sync/atomic"
	"time"

	"github.com/glowlabs-org/gca-backend/client"
	"github.com/glowlabs-org/gca-backend/glow"
	"verifharness/core"
)

func init() { core.Register("eventlog", eventlogSuite) }

// ---------------------------------------------------------------- time grid

type tgGrid struct {
	base time.Time
	tick time.Duration
}

func (g tgGrid) at(cell int) time.Time { return g.base.Add(time.Duration(cell) * g.tick) }

// enter sleeps until the start of the cell; ok=false when the first quarter of the cell is already over.
func (g tgGrid) enter(cell int) (time.Time, bool) {
	if d := time.Until(g.at(cell)); d > 0 {
		time.Sleep(d)
	}
	t0 := time.Now()
	off := t0.Sub(g.at(cell))
	return t0, off >= 0 && off < g.tick/4
}

// inHalf: t lies in the first half of the cell.
func (g tgGrid) inHalf(cell int, t time.Time) bool {
	off := t.Sub(g.at(cell))
	return off >= 0 && off < g.tick/2
}

// cellOf returns the cell of a stamp and whether it lies in the first half of it.
func (g tgGrid) cellOf(t time.Time) (int, bool) {
	d := t.Sub(g.base)
	c := int(d / g.tick)
	if d < 0 && d%g.tick != 0 {
		c--
	}
	off := d - time.Duration(c)*g.tick
	return c, off < g.tick/2
}

var tgDiscards int64 // discarded histories of this process (drives the tick up under load)

// tgBaseTick measures the sleep overshoot of this machine right now and derives the tick.
func tgBaseTick() time.Duration {
	worst := time.Duration(0)
	for i := 0; i < 25; i++ {
		t := time.Now()
		time.Sleep(time.Millisecond)
		if o := time.Since(t) - time.Millisecond; o > worst {
			worst = o
		}
	}
	tick := 10 * time.Millisecond
	for tick < 12*worst && tick < 160*time.Millisecond {
		tick *= 2
	}
	return tick
}

// tgTick: tick for the given attempt of a history.
func tgTick(base time.Duration, attempt int) time.Duration {
	lvl := attempt + int(atomic.LoadInt64(&tgDiscards)/25)
	if lvl > 6 {
		lvl = 6
	}
	t := base << uint(lvl)
	if t > 640*time.Millisecond {
		t = 640 * time.Millisecond
	}
	return t
}

// tgParallel runs jobs 0..n-1 on w goroutines.
func tgParallel(n, w int, job func(i int)) {
	var wg sync.WaitGroup
	var next int64 = -1
	for k := 0; k < w; k++ {
		wg.Add(1)
		go func() {
			defer wg.Done()
			for {
				i := int(atomic.AddInt64(&next, 1))
				if i >= n {
					return
				}
				job(i)
			}
		}()
	}
	wg.Wait()
}

// ---------------------------------------------------------------- histories

type elCfg struct {
	K       int `json:"k"`        // expiry = (K + 1/2) ticks
	Max     int `json:"max"`      // logMaxBytes
	MaxLine int `json:"max_line"` // logMaxLineBytes
}

type elOp struct {
	Kind int    `json:"k"`    // 0 Printf, 1 ExpireLogs, 2 DumpLogEntries, 3 ExpireLogs(stamp + expiry) exactly
	Cell int    `json:"cell"` // grid cell of the call (1: of the instant passed; 3: of the Printf whose stored stamp is used)
	Line string `json:"line,omitempty"`
	// hex of the logged bytes
}

type elHist struct {
	Cfg   elCfg  `json:"cfg"`
	Ops   []elOp `json:"ops"`
	Class string `json:"class"`
}

type elDump struct {
	Order  []string         // hex lines, in the order of the returned slice
	Stamps map[string][]int // hex line -> cells of the returned timestamps
	Raw    map[string][]time.Duration
	MapLen int
	OffOK  bool // every returned stamp lies in the first half of a cell
}

type elEv struct {
	T0, T1  time.Duration // relative to the grid base (timed calls)
	Panic   string
	Dump    *elDump
	Skipped bool // kind 3 without a known stamp: not performed
}

func elBytes(h string) []byte { b, _ := hex.DecodeString(h); return b }

func elTrunc(c elCfg, line []byte) []byte {
	if c.MaxLine >= 0 && len(line) > c.MaxLine {
		return line[:c.MaxLine]
	}
	return line
}

func elRecover(f func()) (p string) {
	defer func() {
		if r := recover(); r != nil {
			p = fmt.Sprint(r)
			if p == "" {
				p = "panic"
			}
		}
	}()
	f()
	return ""
}

// elRun performs the history on a fresh logger.  ok=false: a call left its grid cell (discard).
// The history ends at the first panic.
func elRun(h elHist, tick time.Duration) (evs []elEv, ok bool) {
	g := tgGrid{base: time.Now().Add(tick / 2), tick: tick}
	expiry := time.Duration(h.Cfg.K)*tick + tick/2
	l := glow.NewEventLogger(expiry, h.Cfg.Max, h.Cfg.MaxLine)
	known := map[int]time.Time{} // cell -> a stored stamp of that cell, as returned by a dump
	for _, o := range h.Ops {
		var ev elEv
		switch o.Kind {
		case 3:
			if ts, ok := known[o.Cell]; ok {
				ev.Panic = elRecover(func() { l.ExpireLogs(ts.Add(expiry)) })
			} else {
				ev.Skipped = true
			}
		case 0:
			s := string(elBytes(o.Line))
			t0, in := g.enter(o.Cell)
			if !in {
				return nil, false
			}
			ev.Panic = elRecover(func() { l.Printf("%s", s) })
			t1 := time.Now()
			if !g.inHalf(o.Cell, t1) {
				return nil, false
			}
			ev.T0, ev.T1 = t0.Sub(g.base), t1.Sub(g.base)
		case 1:
			now := g.at(o.Cell).Add(tick / 4)
			ev.Panic = elRecover(func() { l.ExpireLogs(now) })
		case 2:
			t0, in := g.enter(o.Cell)
			if !in {
				return nil, false
			}
			var m map[string][]time.Time
			var order []string
			ev.Panic = elRecover(func() { m, order = l.DumpLogEntries() })
			t1 := time.Now()
			if !g.inHalf(o.Cell, t1) {
				return nil, false
			}
			ev.T0, ev.T1 = t0.Sub(g.base), t1.Sub(g.base)
			if ev.Panic == "" {
				d := &elDump{Stamps: map[string][]int{}, Raw: map[string][]time.Duration{}, MapLen: len(m), OffOK: true}
				for _, s := range order {
					d.Order = append(d.Order, hex.EncodeToString([]byte(s)))
				}
				for k, ts := range m {
					hk := hex.EncodeToString([]byte(k))
					cells := []int{}
					raws := []time.Duration{}
					for _, t := range ts {
						c, first := g.cellOf(t)
						if !first {
							d.OffOK = false
						}
						known[c] = t
						cells = append(cells, c)
						raws = append(raws, t.Sub(g.base))
					}
					d.Stamps[hk] = cells
					d.Raw[hk] = raws
				}
				ev.Dump = d
			}
		}
		evs = append(evs, ev)
		if ev.Panic != "" {
			break
		}
	}
	return evs, true
}

// elRunRetry repeats a history until none of its calls left its cell.
func elRunRetry(h elHist, baseTick time.Duration, discarded *int64) ([]elEv, time.Duration, bool) {
	for attempt := 0; attempt < 12; attempt++ {
		tick := tgTick(baseTick, attempt)
		evs, ok := elRun(h, tick)
		if ok {
			return evs, tick, true
		}
		atomic.AddInt64(discarded, 1)
		atomic.AddInt64(&tgDiscards, 1)
	}
	return nil, 0, false
}

// ---------------------------------------------------------------- property oracle (implementation's trace alone)

type elFail struct{ What, Key string }

func elOracle(h elHist, evs []elEv) []elFail {
	var fs []elFail
	fail := func(key, what string, a ...interface{}) {
		for _, f := range fs {
			if f.Key == key {
				return
			}
		}
		fs = append(fs, elFail{fmt.Sprintf(what, a...), key})
	}
	c := h.Cfg
	type pf struct {
		cell     int
		line     string // truncated, hex
		t0, t1   time.Duration
		loggable bool
	}
	var printfs []pf
	var cuts []int // instant (half ticks) of every expiry that has happened so far (Printf, ExpireLogs, Dump), in op order
	var cutAt []int
	// cutAt[i] = number of printfs before cut i
	printed := map[string]bool{}
	for i, ev := range evs {
		o := h.Ops[i]
		if ev.Panic != "" {
			if c.MaxLine >= 0 {
				fail("panic", "op %d (%s) panicked: %s", i, []string{"Printf", "ExpireLogs", "DumpLogEntries", "ExpireLogs"}[o.Kind], ev.Panic)
			}
			break
		}
		if ev.Skipped {
			continue
		}
		if o.Kind == 3 {
			cuts = append(cuts, 2*o.Cell+2*c.K+1)
		} else {
			cuts = append(cuts, 2*o.Cell)
		}
		cutAt = append(cutAt, len(printfs))
		if o.Kind == 0 {
			tl := elTrunc(c, elBytes(o.Line))
			p := pf{cell: o.Cell, line: hex.EncodeToString(tl), t0: ev.T0, t1: ev.T1, loggable: 2*len(tl) <= c.Max}
			printfs = append(printfs, p)
			printed[p.line] = true
			continue
		}
		if o.Kind != 2 {
			continue
		}
		d := ev.Dump
		// alive(k): the stamp of printf k has not been cut by any expiry since (cells alone decide, see header)
		alive := func(k int) bool {
			for j, cc := range cuts {
				if cutAt[j] > k && 2*printfs[k].cell < cc-(2*c.K+1) {
					return false
				}
			}
			return true
		}
		// --- shape of the dump
		if d.MapLen != len(d.Order) {
			fail("dump-shape", "dump at op %d: map has %d lines, slice %d", i, d.MapLen, len(d.Order))
		}
		seen := map[string]bool{}
		total := 0
		prevLast := -1 << 60
		for _, ln := range d.Order {
			if seen[ln] {
				fail("dump-shape", "dump at op %d lists a line twice", i)
			}
			seen[ln] = true
			st, ok := d.Stamps[ln]
			if !ok || len(st) == 0 {
				fail("dump-shape", "dump at op %d: line without timestamps", i)
				continue
			}
			total += 2 * (len(ln) / 2)
			if c.MaxLine >= 0 && len(ln)/2 > c.MaxLine {
				fail("truncated", "dump at op %d: stored line of %d bytes exceeds the line limit %d", i, len(ln)/2, c.MaxLine)
			}
			if !printed[ln] {
				fail("truncated", "dump at op %d: stored line is not the (cut) text of any Printf", i)
			}
			for j := 1; j < len(st); j++ {
				if d.Raw[ln][j] < d.Raw[ln][j-1] {
					fail("dump-order", "dump at op %d: timestamps of a line not ascending", i)
				}
			}
			last := st[len(st)-1]
			if last < prevLast {
				fail("dump-order", "dump at op %d: lines not listed by ascending last update", i)
			}
			prevLast = last
			// every stamp was produced by a Printf of this line; none is expired
			for j, cell := range st {
				okp := false
				for _, p := range printfs {
					if p.line == ln && p.t0 <= d.Raw[ln][j] && d.Raw[ln][j] <= p.t1 {
						okp = true
					}
				}
				if !okp {
					fail("stamps", "dump at op %d: timestamp that no Printf of the line produced", i)
				}
				if o.Cell-cell >= c.K+1 {
					fail("expired-stamp", "dump at op %d (cell %d) returns a timestamp of cell %d, expiry %d+1/2 ticks", i, o.Cell, cell, c.K)
				}
			}
			// no stamp lost while the entry lived: every Printf of the line since the oldest returned stamp is there
			want := 0
			for _, p := range printfs {
				if p.line == ln && p.cell >= st[0] {
					want++
				}
			}
			if want != len(st) {
				fail("stamps", "dump at op %d: line has %d timestamps, %d Printf calls since its oldest one", i, len(st), want)
			}
		}
		// --- bound
		if c.Max >= 0 && total > c.Max {
			fail("bound", "dump at op %d: stored lines take %d bytes (2 per byte), maximum %d", i, total, c.Max)
		}
		if c.Max < 0 && len(d.Order) > 0 {
			fail("bound", "dump at op %d: lines stored under a negative maximum", i)
		}
		// --- newest kept
		if n := len(printfs); n > 0 {
			p := printfs[n-1]
			if p.loggable && alive(n-1) {
				if len(d.Order) == 0 || d.Order[len(d.Order)-1] != p.line {
					fail("newest-lost", "dump at op %d: the most recent loggable line (Printf in cell %d) is not the last line of the dump", i, p.cell)
				} else if st := d.Stamps[p.line]; len(st) == 0 || st[len(st)-1] != p.cell {
					fail("newest-lost", "dump at op %d: last update of the most recent line is not its Printf", i)
				}
			}
		}
		// --- eviction: oldest first, only when needed.  For each line L that is absent although its last Printf
		// (loggable, cell u) is still alive:
		lastOf := map[string]int{}
		for k, p := range printfs {
			lastOf[p.line] = k
		}
		for ln, k := range lastOf {
			p := printfs[k]
			if seen[ln] || !p.loggable || !alive(k) {
				continue
			}
			// (a) a line that is present, was stored before u and never updated after u, is older than L at every
			//     later instant: evicting L and keeping it is not oldest-first
			for _, other := range d.Order {
				st := d.Stamps[other]
				if len(st) > 0 && st[0] < p.cell && st[len(st)-1] < p.cell {
					fail("evict-not-oldest", "dump at op %d: line last logged in cell %d was evicted while a line last updated in cell %d was kept", i, p.cell, st[len(st)-1])
				}
			}
			// (b) every line that can have been stored at any instant since u has a Printf in (u-expiry, now]:
			//     if all of those fit together, no eviction was ever needed
			sum := 0
			cnt := map[string]bool{}
			for _, q := range printfs {
				if q.loggable && q.cell > p.cell-c.K-1 && !cnt[q.line] {
					cnt[q.line] = true
					sum += len(q.line) // hex length = 2 * bytes
				}
			}
			if sum <= c.Max {
				fail("needless-eviction", "dump at op %d: line logged in cell %d is gone although every line logged since cell %d fits (%d <= %d)", i, p.cell, p.cell-c.K, sum, c.Max)
			}
		}
	}
	return fs
}

// ---------------------------------------------------------------- generators

func elLineLen(rng *core.RNG, c elCfg) int {
	ml := c.MaxLine
	if ml < 0 {
		ml = 3
	}
	switch rng.Intn(9) {
	case 0:
		return 0
	case 1:
		return 1
	case 2:
		return ml
	case 3:
		return ml + 1
	case 4:
		return 2 * ml
	case 5:
		if ml > 0 {
			return ml - 1
		}
		return 0
	default:
		return rng.Intn(2*ml + 1)
	}
}

func elGap(rng *core.RNG, c elCfg) int {
	g := 1
	switch rng.Intn(12) {
	case 0, 1:
		g = 2
	case 2:
		g = c.K
	case 3:
		g = c.K + 1
	case 4:
		g = c.K + 2
	}
	if g < 1 {
		g = 1
	}
	if g > 12 {
		g = 12
	}
	return g
}

func elRandomHistory(rng *core.RNG, c elCfg, nPrintf int, class string) elHist {
	h := elHist{Cfg: c, Class: class}
	var pool [][]byte
	cur := 0
	minP, maxP := 1<<30, -1
	var pcells, dumped []int // cells of the Printf calls so far / of those a dump may have shown
	for done := 0; done < nPrintf; {
		r := rng.Intn(100)
		switch {
		case r < 70:
			var line []byte
			if len(pool) > 0 && rng.Chance(50) {
				line = pool[rng.Intn(len(pool))]
			} else if len(pool) > 0 && c.MaxLine > 0 && rng.Chance(20) {
				// same text up to the line limit, different beyond it
				p := pool[rng.Intn(len(pool))]
				line = append(append([]byte{}, elTrunc(c, p)...), rng.Bytes(1+rng.Intn(3))...)
				for len(line) <= c.MaxLine {
					line = append(line, byte(rng.U64()))
				}
			} else {
				line = rng.Bytes(elLineLen(rng, c))
				if len(pool) < 14 {
					pool = append(pool, line)
				} else {
					pool[rng.Intn(len(pool))] = line
				}
			}
			cur += elGap(rng, c)
			h.Ops = append(h.Ops, elOp{Kind: 0, Cell: cur, Line: hex.EncodeToString(line)})
			if cur < minP {
				minP = cur
			}
			maxP = cur
			pcells = append(pcells, cur)
			done++
		case r < 74 && len(dumped) > 0:
			h.Ops = append(h.Ops, elOp{Kind: 3, Cell: dumped[len(dumped)-1-rng.Intn(min(len(dumped), 4))]})
		case r < 86:
			cut := cur
			switch rng.Intn(6) {
			case 0: // before every stored stamp
				cut = minP + c.K - rng.Intn(3)
				if maxP < 0 {
					cut = -2
				}
			case 1: // after every stored stamp
				cut = cur + c.K + 1 + rng.Intn(2)
			case 2:
				cut = cur
			case 3:
				cut = cur + c.K
			default: // between
				if maxP >= 0 {
					cut = minP + c.K + rng.Intn(maxP-minP+2)
				}
			}
			h.Ops = append(h.Ops, elOp{Kind: 1, Cell: cut})
		default:
			cur += elGap(rng, c)
			h.Ops = append(h.Ops, elOp{Kind: 2, Cell: cur})
			dumped = append([]int{}, pcells...)
		}
	}
	cur += 1
	h.Ops = append(h.Ops, elOp{Kind: 2, Cell: cur})
	return h
}

func elLine(n int, tag byte) string {
	b := make([]byte, n)
	for i := range b {
		b[i] = 'a' + byte(i%26)
	}
	if n > 0 {
		b[0] = tag
	}
	return hex.EncodeToString(b)
}

// elScenarios: the classes that must be produced, built by construction.
func elScenarios() []elHist {
	P := func(cell int, line string) elOp { return elOp{Kind: 0, Cell: cell, Line: line} }
	E := func(cell int) elOp { return elOp{Kind: 1, Cell: cell} }
	D := func(cell int) elOp { return elOp{Kind: 2, Cell: cell} }
	A8, B8, C8 := elLine(8, 'A'), elLine(8, 'B'), elLine(8, 'C')
	A4, B4, C4, D4 := elLine(4, 'A'), elLine(4, 'B'), elLine(4, 'C'), elLine(4, 'D')
	var hs []elHist
	add := func(class string, c elCfg, ops ...elOp) { hs = append(hs, elHist{Cfg: c, Ops: ops, Class: class}) }
	// D12: fill the log, let everything expire, log again (and again, to use the freed space completely)
	add("scenario.fill-expire-relog", elCfg{1, 16, 8}, P(1, A8), D(2), P(4, B8), D(5), P(7, C8), D(8))
	add("scenario.fill-expire-relog", elCfg{1, 16, 8}, P(1, A4), P(2, B4), E(9), P(5, C4), P(6, D4), D(7))
	add("scenario.fill-expire-relog", elCfg{2, 24, 4}, P(1, A4), P(2, B4), P(3, C4), D(4), P(8, D4), P(9, A4), P(10, B4), D(11), P(15, C4), D(16))
	// eviction of exactly the oldest / of several / in update order rather than insertion order
	add("scenario.evict-oldest", elCfg{20, 16, 8}, P(1, A4), P(2, B4), P(3, C4), D(4))
	add("scenario.evict-several", elCfg{20, 24, 8}, P(1, A4), P(2, B4), P(3, C4), P(4, A8+"00"), D(5))
	add("scenario.evict-by-update-order", elCfg{20, 16, 8}, P(1, A4), P(2, B4), P(3, A4), P(4, C4), D(5))
	add("scenario.evict-all", elCfg{20, 16, 8}, P(1, A4), P(2, B4), P(3, C8), D(4))
	// duplicates, truncation, lines that can never be stored
	add("scenario.dedupe", elCfg{20, 40, 8}, P(1, A4), P(2, A4), P(3, B4), P(4, A4), D(5))
	add("scenario.truncate", elCfg{20, 40, 4}, P(1, A8), P(2, A4+"ffff"), P(3, B8), D(4))
	add("scenario.too-long-for-max", elCfg{20, 10, 8}, P(1, A4), P(2, B8), D(3), P(4, C4), D(5))
	add("scenario.max-smaller-than-line", elCfg{20, 6, 4}, P(1, A4), P(2, elLine(3, 'x')), P(3, elLine(2, 'y')), P(4, elLine(3, 'z')), D(5))
	add("scenario.max-zero", elCfg{20, 0, 4}, P(1, A4), P(2, ""), P(3, ""), D(4))
	add("scenario.max-negative", elCfg{2, -5, 4}, P(1, A4), P(2, ""), D(3))
	add("scenario.line-limit-zero", elCfg{20, 10, 0}, P(1, A4), P(2, B4), D(3))
	// expiry: partial (older stamps of a line go, the line stays), exact boundary, explicit cuts
	add("scenario.expire-partial", elCfg{2, 40, 8}, P(1, A4), P(2, B4), P(3, A4), D(4), D(5), D(6))
	add("scenario.expire-boundary", elCfg{2, 40, 8}, P(1, A4), D(3), D(4))
	add("scenario.expire-cut-before", elCfg{2, 40, 8}, P(3, A4), P(4, B4), E(0), E(5), D(5))
	add("scenario.expire-cut-between", elCfg{2, 40, 8}, P(3, A4), P(4, B4), E(6), D(5))
	add("scenario.expire-cut-after", elCfg{2, 40, 8}, P(3, A4), P(4, B4), E(7), D(5), P(6, C4), D(7))
	add("scenario.expire-then-evict", elCfg{2, 24, 4}, P(1, A4), P(2, B4), P(3, C4), P(5, D4), D(6), P(7, A4), P(8, B4), P(9, C4), D(10))
	X := func(cell int) elOp { return elOp{Kind: 3, Cell: cell} }
	add("scenario.expire-exact-boundary", elCfg{20, 40, 8}, P(1, A4), P(2, B4), D(3), X(2), D(4))
	add("scenario.expire-exact-boundary", elCfg{20, 40, 8}, P(1, A4), P(2, A4), P(3, B4), D(4), X(2), D(5), X(3), D(6), P(7, C4), X(1), D(8))
	add("scenario.negative-expiry", elCfg{-1, 40, 8}, P(1, A4), P(2, A4), P(3, B4), D(4))
	add("scenario.negative-line-limit", elCfg{2, 40, -1}, P(1, A4))
	add("scenario.empty", elCfg{2, 40, 8}, D(1), E(5), D(2))
	// one line repeated far more often than any plausible per-line cap on timestamps, then another line,
	// then the first once more: the dump order and the next eviction follow the LAST update
	{
		var ops []elOp
		for i := 0; i < 260; i++ {
			ops = append(ops, P(1+i/90, A4))
		}
		ops = append(ops, P(4, B4), P(5, A4), D(6), P(7, C4), D(8))
		add("scenario.many-repeats", elCfg{30, 16, 8}, ops...)
	}
	return hs
}

var elRandomCfgs = []elCfg{
	{1, 40, 8}, {2, 24, 6}, {3, 64, 8}, {0, 30, 5}, {6, 20, 4}, {2, 6, 4}, {1, 0, 3}, {1, 1, 8},
	{2, 100, 0}, {-1, 40, 8}, {2, -5, 4}, {20, 48, 8}, {3, 2000, 50}, {1, 16, 8}, {2, 12, 3}, {4, 33, 7},
}

// elEnumerate: every op sequence up to the given length over a small alphabet (thorough tier).
func elEnumerate(maxLen int) []elHist {
	c := elCfg{1, 8, 2}
	type sym struct {
		kind int
		line string
		gap  int
	}
	var alpha []sym
	for _, ln := range []string{elLine(1, 'a'), elLine(2, 'b'), elLine(3, 'c')} {
		for _, g := range []int{1, 2} {
			alpha = append(alpha, sym{0, ln, g})
		}
	}
	alpha = append(alpha, sym{2, "", 1}, sym{2, "", 2}, sym{1, "", 0})
	var hs []elHist
	var rec func(prefix []sym)
	rec = func(prefix []sym) {
		if len(prefix) > 0 {
			h := elHist{Cfg: c, Class: "enumerated"}
			cur := 0
			for _, s := range prefix {
				switch s.kind {
				case 1:
					h.Ops = append(h.Ops, elOp{Kind: 1, Cell: cur + c.K + 1})
				default:
					cur += s.gap
					h.Ops = append(h.Ops, elOp{Kind: s.kind, Cell: cur, Line: s.line})
				}
			}
			h.Ops = append(h.Ops, elOp{Kind: 2, Cell: cur + 1})
			hs = append(hs, h)
		}
		if len(prefix) == maxLen {
			return
		}
		for _, s := range alpha {
			rec(append(append([]sym{}, prefix...), s))
		}
	}
	rec(nil)
	return hs
}

// elCorpus loads the stored failing histories (run first).
func elCorpus() []elHist {
	root := os.Getenv("VERIF_ROOT")
	if root == "" {
		root = "/verif"
	}
	files, _ := filepath.Glob(filepath.Join(root, "corpus", "C18", "*.json"))
	sort.Strings(files)
	var hs []elHist
	for _, f := range files {
		b, err := os.ReadFile(f)
		if err != nil {
			continue
		}
		var top map[string]json.RawMessage
		if json.Unmarshal(b, &top) != nil {
			continue
		}
		raw := b
		// a replay file written by ./check: {"replay": {"case": {"history": ...}}}
		for _, k := range []string{"replay", "case", "history"} {
			var m map[string]json.RawMessage
			if json.Unmarshal(raw, &m) == nil {
				if v, ok := m[k]; ok {
					raw = v
				}
			}
		}
		var h elHist
		if json.Unmarshal(raw, &h) == nil && len(h.Ops) > 0 {
			h.Class = "corpus"
			hs = append(hs, h)
		}
	}
	return hs
}

// ---------------------------------------------------------------- emitting cases

func elHx(h string) string { return `(hx "` + h + `")` }

func elItem(h elHist, evs []elEv) string {
	var ops []string
	for i, ev := range evs {
		o := h.Ops[i]
		if ev.Skipped {
			continue
		}
		if o.Kind == 3 {
			ops = append(ops, core.Tuple("1", core.Z(2*int64(o.Cell)+2*int64(h.Cfg.K)+1), elHx(""), map[bool]string{true: "ObsPanic", false: "ObsNone"}[ev.Panic != ""]))
			continue
		}
		obs := "ObsNone"
		if ev.Panic != "" {
			obs = "ObsPanic"
		} else if ev.Dump != nil {
			var it []string
			for _, ln := range ev.Dump.Order {
				st := ev.Dump.Stamps[ln]
				zs := make([]int64, len(st))
				for j, c := range st {
					zs[j] = 2 * int64(c)
				}
				it = append(it, core.Pair(elHx(ln), core.ZList(zs)))
			}
			obs = "(ObsDump " + core.List(it) + ")"
		}
		ops = append(ops, core.Tuple(fmt.Sprint(o.Kind), core.Z(2*int64(o.Cell)), elHx(o.Line), obs))
	}
	return core.Tuple(core.Z(2*int64(h.Cfg.K)+1), core.Z(int64(h.Cfg.Max)), core.Z(int64(h.Cfg.MaxLine)), core.List(ops))
}

func elDesc(h elHist, evs []elEv, tick time.Duration) map[string]interface{} {
	var ops []string
	for i, o := range h.Ops {
		if i >= len(evs) {
			break
		}
		s := fmt.Sprintf("%s@%d", []string{"P", "E", "D", "X"}[o.Kind], o.Cell)
		if evs[i].Skipped {
			s += " skipped"
		}
		if o.Kind == 0 {
			s += ":" + o.Line
		}
		if evs[i].Panic != "" {
			s += " PANIC"
		}
		if evs[i].Dump != nil {
			s += "=" + strings.Join(evs[i].Dump.Order, ",")
		}
		ops = append(ops, s)
	}
	return map[string]interface{}{"class": h.Class, "cfg": h.Cfg, "tick_ms": float64(tick) / 1e6, "ops": ops}
}

// elShrink: greedy removal of operations while the oracle still fails with the same key.
func elShrink(h elHist, key string, baseTick time.Duration, discarded *int64) elHist {
	budget := 40
	fails := func(x elHist) bool {
		evs, _, ok := elRunRetry(x, baseTick, discarded)
		if !ok {
			return false
		}
		for _, f := range elOracle(x, evs) {
			if f.Key == key {
				return true
			}
		}
		return false
	}
	for i := len(h.Ops) - 1; i >= 0 && budget > 0; i-- {
		if len(h.Ops) <= 1 {
			break
		}
		x := elHist{Cfg: h.Cfg, Class: h.Class}
		x.Ops = append(append([]elOp{}, h.Ops[:i]...), h.Ops[i+1:]...)
		budget--
		if fails(x) {
			h = x
		}
	}
	return h
}

// ---------------------------------------------------------------- the suite

func eventlogSuite(seed uint64, tier, outDir string) (*core.Result, error) {
	res := core.NewResult("eventlog", seed, tier)
	rng := core.NewRNG(seed)
	baseTick := tgBaseTick()
	nRandom, workers := 170, 64
	if tier == "thorough" {
		nRandom, workers = 3600, 256
	}
	hs := elCorpus()
	nCorpus := len(hs)
	hs = append(hs, elScenarios()...)
	// production constants' shape: 10e6 bytes, 500 per line (the expiry is scaled to the grid)
	{
		r := rng.Fork()
		h := elHist{Cfg: elCfg{4, 10000000, 500}, Class: "production-shape"}
		cur := 0
		var pool [][]byte
		for i := 0; i < 14; i++ {
			var line []byte
			if len(pool) > 0 && r.Chance(40) {
				line = pool[r.Intn(len(pool))]
			} else {
				line = r.Bytes([]int{0, 17, 499, 500, 501, 1000, 80}[r.Intn(7)])
				pool = append(pool, line)
			}
			cur += 1 + r.Intn(3)
			h.Ops = append(h.Ops, elOp{Kind: 0, Cell: cur, Line: hex.EncodeToString(line)})
			if i%5 == 4 {
				cur++
				h.Ops = append(h.Ops, elOp{Kind: 2, Cell: cur})
			}
		}
		h.Ops = append(h.Ops, elOp{Kind: 1, Cell: cur + 3}, elOp{Kind: 2, Cell: cur + 1}, elOp{Kind: 2, Cell: cur + 7})
		hs = append(hs, h)
	}
	for i := 0; i < nRandom; i++ {
		r := rng.Fork()
		c := elRandomCfgs[i%len(elRandomCfgs)]
		n := r.Range(10, 60)
		if c.K > 10 && n > 30 {
			n = 30
		}
		hs = append(hs, elRandomHistory(r, c, n, fmt.Sprintf("random.k=%d.max=%d.line=%d", c.K, c.Max, c.MaxLine)))
	}
	if tier == "thorough" {
		hs = append(hs, elEnumerate(4)...)
	}

	type out struct {
		evs  []elEv
		tick time.Duration
		ok   bool
	}
	outs := make([]out, len(hs))
	var discarded int64
	// the corpus runs first, alone
	for i := 0; i < nCorpus; i++ {
		evs, tick, ok := elRunRetry(hs[i], baseTick, &discarded)
		outs[i] = out{evs, tick, ok}
	}
	tgParallel(len(hs)-nCorpus, workers, func(j int) {
		i := nCorpus + j
		evs, tick, ok := elRunRetry(hs[i], baseTick, &discarded)
		outs[i] = out{evs, tick, ok}
	})

	var items []string
	failedKeys := map[string]bool{}
	for i, h := range hs {
		o := outs[i]
		if !o.ok {
			res.Count("given-up")
			continue
		}
		res.Count(h.Class)
		nontrivial := false
		for k, ev := range o.evs {
			op := h.Ops[k]
			switch {
			case ev.Panic != "":
				res.Count("op.panic")
				nontrivial = true
			case op.Kind == 0:
				res.Count("op.printf")
			case ev.Skipped:
				res.Count("op.expire-exact.skipped")
			case op.Kind == 3:
				res.Count("op.expire-exact")
			case op.Kind == 1:
				res.Count("op.expire")
			case op.Kind == 2:
				res.Count("op.dump")
				if len(ev.Dump.Order) > 0 {
					nontrivial = true
				}
			}
		}
		item := elItem(h, o.evs)
		res.Case(elDesc(h, o.evs, o.tick), item, nontrivial)
		items = append(items, item)
		for _, f := range elOracle(h, o.evs) {
			if failedKeys[f.Key] {
				continue
			}
			failedKeys[f.Key] = true
			small := h
			if len(h.Ops) > 4 {
				small = elShrink(h, f.Key, baseTick, &discarded)
			}
			evs, tick, ok := elRunRetry(small, baseTick, &discarded)
			if !ok {
				small, evs, tick = h, o.evs, o.tick
			}
			res.Fail(f.What, f.Key, map[string]interface{}{"history": small, "observed": elDesc(small, evs, tick)["ops"], "found_in_class": h.Class})
		}
	}
	res.Discarded = int(discarded)
	// shards of at most 400 histories / ~900 kB
	shard, size, nshard := []string{}, 0, 0
	flush := func() error {
		if len(shard) == 0 {
			return nil
		}
		name := "cases_eventlog"
		if nshard > 0 {
			name = fmt.Sprintf("cases_eventlog_%d", nshard)
		}
		nshard++
		err := res.CasesFile(outDir, name, "From Coq Require Import ZArith List String.\nFrom GCA Require Import RunLib EventLog EventLogRun.\nOpen Scope string_scope.", "el_case", shard, "el_mismatches")
		shard, size = nil, 0
		return err
	}
	for _, it := range items {
		shard = append(shard, it)
		size += len(it)
		if len(shard) >= 400 || size > 900000 {
			if err := flush(); err != nil {
				return nil, err
			}
		}
	}
	if err := flush(); err != nil {
		return nil, err
	}
	seenClass := map[string]bool{}
	for _, h := range elScenarios() {
		if !seenClass[h.Class] {
			seenClass[h.Class] = true
			res.Required = append(res.Required, h.Class)
		}
	}
	// the client's status dump (which reads the log's map and order) while other goroutines log fresh lines:
	// no call panics
	{
		dir, derr := os.MkdirTemp("", "vh-eventlog-client-")
		if derr == nil {
			c, cerr := client.VerifNewBareClient(dir, false)
			if cerr == nil {
				var stop int32
				var wg sync.WaitGroup
				for g := 0; g < 4; g++ {
					wg.Add(1)
					go func(g int) {
						defer wg.Done()
						for i := 0; atomic.LoadInt32(&stop) == 0; i++ {
							c.EventLog.Printf("worker %d line %d", g, i)
						}
					}(g)
				}
				pan := ""
				dumps := 0
				deadline := time.Now().Add(400 * time.Millisecond)
				for time.Now().Before(deadline) && pan == "" {
					pan = elRecover(func() { c.DumpEventLogs() })
					dumps++
				}
				atomic.StoreInt32(&stop, 1)
				wg.Wait()
				res.Count("client.dump-while-logging")
				res.Case(map[string]interface{}{"kind": "client-dump-while-logging", "dumps": dumps, "panic": pan}, "client-dump", true)
				if pan != "" {
					res.Fail(fmt.Sprintf("the client's status dump panics while lines are being logged (after %d dumps): %s", dumps, pan), "client-dump-panic", map[string]interface{}{"dumps": dumps})
				}
			}
			os.RemoveAll(dir)
		}
	}
	res.Required = append(res.Required, "production-shape", "op.printf", "op.expire", "op.expire-exact", "op.dump", "client.dump-while-logging")
	res.Extra["tick_ms"] = float64(baseTick) / 1e6
	res.Rule = "corpus, then hand-built scenarios (fill/expire/relog, evictions, duplicates, truncation, unstorable lines, expiry cuts before/between/after), the production shape, and seeded random histories of 10-60 Printf (lengths 0..2x line limit, repeated/fresh/colliding-after-truncation lines) mixed with ExpireLogs and DumpLogEntries over 16 configurations, all on a time grid (tick adaptive, histories whose calls leave their half cell are discarded and repeated); thorough adds every sequence of up to 4 operations over a 9-symbol alphabet; a history is non-trivial when some dump is non-empty or a call panics, distinct by its full observed trace"
	return res, nil
}
