(* Preservation of the disk-memory agreement invariant by every operation. *)
From Coq Require Import ZArith List Bool Lia.
From GCA Require Import Wrap Bytes Bytes_lemmas Codec Amap Amap_lemmas Timeslot Server ServerInv ServerInv_lemmas ServerInv2_lemmas ServerC02_lemmas ServerDisk ServerDisk_lemmas ServerC01_lemmas.
Import ListNotations.
Open Scope Z_scope.
Set Default Proof Using "Type".
Notation length := List.length.

Definition auth_part_ext (m1 m2 : mem) : Prop :=
  (forall id, zget id (equipment m1) = zget id (equipment m2)) /\
  (forall k, bget k (index m1) = bget k (index m2)) /\
  (forall id, zin id (bans m1) = zin id (bans m2)).

Lemma bdel_ext {V} k (m1 m2 : list (bytes * V)) : (forall x, bget x m1 = bget x m2) -> forall x, bget x (bdel k m1) = bget x (bdel k m2).
Proof. intros E x. rewrite !bget_bdel. destruct (bytes_eqb x k); [reflexivity | apply E]. Qed.

Lemma add_device_ext m1 m2 a : auth_part_ext m1 m2 -> auth_part_ext (add_device m1 a) (add_device m2 a).
Proof.
  intros (E1 & E2 & E3). unfold auth_part_ext, add_device; cbn [equipment index bans]. repeat split.
  - intros id. rewrite !zget_zset, E1. reflexivity.
  - intros k. rewrite !bget_bset, E2. reflexivity.
  - exact E3.
Qed.

Lemma ban_device_ext m1 m2 id cur : auth_part_ext m1 m2 -> auth_part_ext (ban_device m1 id cur) (ban_device m2 id cur).
Proof.
  intros (E1 & E2 & E3). unfold auth_part_ext, ban_device; cbn [equipment index bans]. repeat split.
  - intros i. rewrite !zget_zdel, E1. reflexivity.
  - intros k. rewrite (E2 (a_key cur)). destruct (bget (a_key cur) (index m2)) as [j|]; [|apply E2].
    destruct (j =? id); [apply bdel_ext; exact E2 | apply E2].
  - intros i. unfold zin. cbn [existsb]. fold (zin i (bans m1)). fold (zin i (bans m2)). rewrite E3. reflexivity.
Qed.

Lemma replay_auths_ext l : forall m1 m2, auth_part_ext m1 m2 -> auth_part_ext (replay_auths m1 l) (replay_auths m2 l).
Proof.
  induction l as [|a l IH]; intros m1 m2 E; cbn [replay_auths]; [exact E|].
  destruct E as (E1 & E2 & E3). rewrite (E3 (a_id a)), (E1 (a_id a)).
  destruct (zin (a_id a) (bans m2)); [apply IH; repeat split; assumption|].
  destruct (zget (a_id a) (equipment m2)) as [cur|].
  - destruct (auth_eqb cur a); apply IH; [repeat split; assumption | apply ban_device_ext; repeat split; assumption].
  - apply IH. apply add_device_ext. repeat split; assumption.
Qed.

Lemma empty_tables_ext m1 m2 : auth_part_ext (empty_tables m1) (empty_tables m2).
Proof. repeat split. Qed.

Lemma for_dev_none id l : (forall r, In r l -> r_id r <> id) -> for_dev id l = [].
Proof.
  intros H. unfold for_dev. induction l as [|r l IH]; cbn [filter]; [reflexivity|].
  destruct (Z.eqb_spec (r_id r) id) as [E|E]; [exfalso; apply (H r); [left; reflexivity | exact E]|].
  apply IH. intros x Hx. apply H. right; exact Hx.
Qed.

Lemma win_eq_shift w1 w2 : win_eq w1 w2 -> win_eq (shift_window w1) (shift_window w2).
Proof. intros E j. rewrite !zget_shift. destruct (0 <=? j); [apply E | reflexivity]. Qed.

Lemma win_eq_trans w1 w2 w3 : win_eq w1 w2 -> win_eq w2 w3 -> win_eq w1 w3.
Proof. intros A B i. rewrite (A i). apply B. Qed.
Lemma win_eq_refl w : win_eq w w.
Proof. intros i. reflexivity. Qed.

Section DiskInvPres.
  Variable verify : bytes -> bytes -> bytes -> bool.

  (* ---------------------------------------------------------- a recorded report *)
  Lemma integrate_disk st r a :
    MemInv (mm st) -> DiskInv verify st ->
    zget (r_id r) (equipment (mm st)) = Some a ->
    verify (a_key a) (report_signing_bytes r) (r_sig r) = true -> r_p r <> 0 -> 0 <= r_ts r ->
    DiskInv verify (fst (integrate st r)).
  Proof.
    intros I D Qa V NZ Hts.
    pose proof (i_off_lo _ I) as Hlo. pose proof (i_off_hi _ I) as Hhi.
    assert (Qw : exists w, zget (r_id r) (reports (mm st)) = Some w).
    { apply zmem_true_get. rewrite (i_dom_rep _ I). eapply zget_zmem; exact Qa. }
    destruct Qw as [w Qw].
    rewrite (integrate_dev st r w a) by (try assumption; unfold window_len; lia).
    destruct (dev_records (offset (mm st)) w r) eqn:R; cbn [fst]; [|exact D].
    destruct D as [Kk Kt Kg Kgl Kgz Ks Ka Kf Kr].
    destruct Kr as (rl & Drl & Hrl & Hwin).
    constructor; cbn [mm dd with_reports disk_append_report equipment index bans reports impact offset history gca gca_avail tempkey skeys
                      d_keys d_temp d_gca d_auths d_reports d_stats]; try assumption.
    rewrite Drl. exists (rl ++ [r]). split; [reflexivity|]. split.
    - intros x Hx. apply in_app_or in Hx. destruct Hx as [Hx|[<-|[]]]; [apply Hrl; exact Hx|].
      repeat split; try lia.
      + unfold dev_records in R. repeat (apply andb_prop in R; destruct R as [R ?]).
        match goal with X : negb (u32 (offset (mm st) + window_len) <=? r_ts r) = true |- _ =>
          apply negb_true_iff, Z.leb_gt in X; rewrite u32_id in X by (unfold is_u32, window_len; lia); exact X end.
      + left. eapply zget_zmem; exact Qa.
      + intros a' Qa'. rewrite Qa in Qa'. inversion Qa'; subst. exact V.
    - intros id a' w' Qe Qr. rewrite zget_zset in Qr. rewrite for_dev_app.
      destruct (Z.eqb_spec id (r_id r)) as [->|N].
      + inversion Qr; subst w'; clear Qr. rewrite Qa in Qe. inversion Qe; subst a'.
        unfold for_dev at 2. cbn [filter]. rewrite Z.eqb_refl. rewrite replay_dev_snoc.
        apply dev_step_ext. apply (Hwin _ _ _ Qa Qw).
      + unfold for_dev at 2. cbn [filter]. destruct (Z.eqb_spec (r_id r) id); [congruence|].
        rewrite app_nil_r. apply (Hwin _ _ _ Qe Qr).
  Qed.

  Lemma udp_disk st now d : MemInv (mm st) -> DiskInv verify st -> DiskInv verify (fst (udp_receive verify st now d)).
  Proof.
    intros I D. unfold udp_receive. destruct (Nat.ltb (length d) 80); [exact D|].
    unfold handle_report, parse_report.
    destruct (report_decode (firstn 80 d)) as [r|] eqn:Dec; [|exact D].
    destruct (zget (r_id r) (equipment (mm st))) as [a|] eqn:Q; [|exact D].
    destruct (verify (a_key a) (report_signing_bytes r) (r_sig r)) eqn:V; [|exact D].
    destruct (negb _); [exact D|].
    destruct (Z.eqb_spec (r_p r) 0) as [P0|P0]; cbn [orb]; [exact D|].
    destruct (r_p r =? 1); [exact D|].
    apply report_decode_some in Dec. destruct Dec as (_ & _ & Hts & _).
    apply (integrate_disk st r a I D Q V P0). lia.
  Qed.
End DiskInvPres.

Section DiskInvPres2.
  Variable verify : bytes -> bytes -> bytes -> bool.

  (* ---------------------------------------------------------- registration *)
  Lemma register_disk st k s : MemInv (mm st) -> DiskInv verify st -> DiskInv verify (fst (register verify st k s)).
  Proof.
    intros I D. unfold register. destruct (gca_avail (mm st)) eqn:G; [exact D|].
    destruct (negb _); [exact D|]. cbn [fst].
    destruct D as [Kk Kt Kg Kgl Kgz Ks Ka Kf Kr].
    constructor; cbn [mm dd with_gca disk_set_gca equipment index bans reports impact offset history gca gca_avail tempkey skeys
                      d_keys d_temp d_gca d_auths d_reports d_stats]; try assumption.
    - reflexivity.
    - intros _. apply pad_length.
    - discriminate.
    - destruct Ka as (al & Da & Hv & Hn & Hr). specialize (Hn G). subst al.
      exists []. split; [exact Da|]. split; [intros a []|]. split; [reflexivity|].
      destruct (i_nogca _ I G) as (E1 & E2 & _ & _ & E5). cbn [replay_auths empty_tables equipment index bans].
      rewrite E1, E2, E5. repeat split.
  Qed.

  (* ---------------------------------------------------------- equipment *)
  Lemma save_equipment_disk st a :
    MemInv (mm st) -> DiskInv verify st -> gca_avail (mm st) = true ->
    verify (gca (mm st)) (auth_signing_bytes a) (a_sig a) = true -> auth_finite a ->
    DiskInv verify (fst (save_equipment st a)).
  Proof.
    intros I D G V F. unfold save_equipment.
    destruct (zin (a_id a) (bans (mm st))) eqn:B; [exact D|].
    pose proof D as D0.
    destruct D as [Kk Kt Kg Kgl Kgz Ks Ka Kf Kr].
    destruct Ka as (al & Da & Hv & Hn & Hr).
    destruct Kr as (rl & Drl & Hrl & Hwin).
    assert (NoRep : forall r, In r rl -> zget (a_id a) (equipment (mm st)) = None -> r_id r <> a_id a).
    { intros r Hr' Qn E. destruct (Hrl r Hr') as (_ & _ & [M|M] & _); rewrite E in M.
      - unfold zmem in M. rewrite Qn in M. discriminate.
      - congruence. }
    destruct (zget (a_id a) (equipment (mm st))) as [cur|] eqn:Q.
    - destruct (auth_go_eq cur a) eqn:GE; [exact D0|].
      rewrite Da. cbn [fst].
      constructor; cbn [mm dd ban_device disk_append_auth equipment index bans reports impact offset history gca gca_avail tempkey skeys
                        d_keys d_temp d_gca d_auths d_reports d_stats]; rewrite ?Da; try assumption.
      + exists (al ++ [a]). split; [reflexivity|]. split.
        { intros x Hx. apply in_app_or in Hx. destruct Hx as [Hx|[<-|[]]]; [apply Hv; exact Hx | split; assumption]. }
        split; [intros G'; congruence|].
        rewrite replay_auths_app.
        set (m1 := replay_auths (empty_tables (mm st)) al) in *.
        assert (E : auth_part_ext m1 (mm st)) by exact Hr.
        assert (X : auth_part_ext (replay_auths m1 [a]) (ban_device (mm st) (a_id a) cur)).
        { cbn [replay_auths]. destruct E as (E1 & E2 & E3). rewrite (E3 (a_id a)), B, (E1 (a_id a)), Q.
          rewrite (go_neq_bitwise_neq cur a F GE). apply ban_device_ext. repeat split; assumption. }
        assert (Y : auth_part_ext (replay_auths (replay_auths (empty_tables (ban_device (mm st) (a_id a) cur)) al) [a])
                                  (replay_auths m1 [a])).
        { apply replay_auths_ext, replay_auths_ext. repeat split. }
        destruct X as (X1 & X2 & X3), Y as (Y1 & Y2 & Y3).
        repeat split; intros; [rewrite Y1; apply X1 | rewrite Y2; apply X2 | rewrite Y3; apply X3].
      + intros id a' Qe. rewrite zget_zdel in Qe. destruct (id =? a_id a); [discriminate | apply (Kf _ _ Qe)].
      + exists rl. split; [exact Drl|]. split.
        * intros r Hr'. destruct (Hrl r Hr') as (P1 & P2 & P3 & P4).
          split; [exact P1|]. split; [exact P2|]. split.
          -- destruct (Z.eq_dec (r_id r) (a_id a)) as [E|N].
             ++ right. rewrite E. unfold zin. cbn [existsb]. rewrite Z.eqb_refl. reflexivity.
             ++ destruct P3 as [M|M]; [left; rewrite zmem_zdel; apply Z.eqb_neq in N; rewrite N; exact M|].
                right. unfold zin in *. cbn [existsb]. rewrite M. apply orb_true_r.
          -- intros a' Qe. rewrite zget_zdel in Qe. destruct (r_id r =? a_id a); [discriminate | apply P4; exact Qe].
        * intros id a' w Qe Qr. rewrite zget_zdel in Qe. rewrite zget_zdel in Qr. destruct (id =? a_id a); [discriminate|].
          apply (Hwin _ _ _ Qe Qr).
    - rewrite Da. cbn [fst].
      constructor; cbn [mm dd add_device disk_append_auth equipment index bans reports impact offset history gca gca_avail tempkey skeys
                        d_keys d_temp d_gca d_auths d_reports d_stats]; rewrite ?Da; try assumption.
      + exists (al ++ [a]). split; [reflexivity|]. split.
        { intros x Hx. apply in_app_or in Hx. destruct Hx as [Hx|[<-|[]]]; [apply Hv; exact Hx | split; assumption]. }
        split; [intros G'; congruence|].
        rewrite replay_auths_app.
        set (m1 := replay_auths (empty_tables (mm st)) al) in *.
        assert (E : auth_part_ext m1 (mm st)) by exact Hr.
        assert (X : auth_part_ext (replay_auths m1 [a]) (add_device (mm st) a)).
        { cbn [replay_auths]. destruct E as (E1 & E2 & E3). rewrite (E3 (a_id a)), B, (E1 (a_id a)), Q.
          apply add_device_ext. repeat split; assumption. }
        assert (Y : auth_part_ext (replay_auths (replay_auths (empty_tables (add_device (mm st) a)) al) [a])
                                  (replay_auths m1 [a])).
        { apply replay_auths_ext, replay_auths_ext. repeat split. }
        destruct X as (X1 & X2 & X3), Y as (Y1 & Y2 & Y3).
        repeat split; intros; [rewrite Y1; apply X1 | rewrite Y2; apply X2 | rewrite Y3; apply X3].
      + intros id a' Qe. rewrite zget_zset in Qe. destruct (id =? a_id a); [inversion Qe; subst; exact F | apply (Kf _ _ Qe)].
      + exists rl. split; [exact Drl|]. split.
        * intros r Hr'. destruct (Hrl r Hr') as (P1 & P2 & P3 & P4). pose proof (NoRep r Hr' eq_refl) as N.
          split; [exact P1|]. split; [exact P2|]. split.
          -- destruct P3 as [M|M]; [left; rewrite zmem_zset, M; apply orb_true_r | right; exact M].
          -- intros a' Qe. rewrite zget_zset_other in Qe by exact N. apply P4; exact Qe.
        * intros id a' w Qe Qr. rewrite zget_zset in Qe. rewrite zget_zset in Qr. destruct (Z.eqb_spec id (a_id a)) as [->|N].
          -- inversion Qr; subst w. rewrite for_dev_none; [apply win_eq_refl|].
             intros r Hr'. apply NoRep; [exact Hr' | reflexivity].
          -- apply (Hwin _ _ _ Qe Qr).
  Qed.

  Lemma authorize_disk st a : MemInv (mm st) -> DiskInv verify st -> auth_finite a ->
    DiskInv verify (fst (authorize verify st a)).
  Proof.
    intros I D F. unfold authorize. destruct (gca_avail (mm st)) eqn:G; cbn [negb]; [|exact D].
    destruct (verify (gca (mm st)) (auth_signing_bytes a) (a_sig a)) eqn:V; cbn [negb]; [|exact D].
    apply save_equipment_disk; assumption.
  Qed.

  (* ---------------------------------------------------------- impact rates are not persisted *)
  Lemma impact_disk st id ts v : DiskInv verify st -> DiskInv verify (fst (impact_write st id ts v)).
  Proof.
    intros D. unfold impact_write. destruct (_ && _); [|exact D].
    destruct (zget id (impact (mm st))); [|exact D]. cbn [fst set_mem].
    destruct D as [Kk Kt Kg Kgl Kgz Ks Ka Kf Kr].
    constructor; cbn [mm dd with_impact equipment index bans reports impact offset history gca gca_avail tempkey skeys]; assumption.
  Qed.
End DiskInvPres2.

Section DiskInvPres3.
  Variable verify : bytes -> bytes -> bytes -> bool.
  Variable sign : bytes -> bytes -> bytes.
  Variable stats_sb : list devstat -> Z -> bytes.

  (* ---------------------------------------------------------- rotation *)
  Lemma rotate_disk st : MemInv (mm st) -> DiskInv verify st -> offset (mm st) + week_len <= 2^32 - 8192 ->
    DiskInv verify (fst (rotate sign stats_sb st)).
  Proof.
    intros I D Hb. destruct (rotation_exact_eq sign stats_sb st I Hb) as (s & E). rewrite E. cbn [fst].
    pose proof (i_off_lo _ I) as Hlo.
    destruct D as [Kk Kt Kg Kgl Kgz Ks Ka Kf Kr].
    constructor; cbn [mm dd disk_append_stats equipment index bans reports impact offset history gca gca_avail tempkey skeys
                      d_keys d_temp d_gca d_auths d_reports d_stats]; try assumption.
    - rewrite Ks. reflexivity.
    - destruct Ka as (al & Da & Hv & Hn & Hr). exists al. split; [exact Da|]. split; [exact Hv|]. split; [exact Hn|].
      assert (Y : auth_part_ext (replay_auths (empty_tables
                 {| equipment := equipment (mm st); index := index (mm st); bans := bans (mm st);
                    reports := map (fun p => (fst p, shift_window (snd p))) (reports (mm st));
                    impact := map (fun p => (fst p, shift_window (snd p))) (impact (mm st));
                    offset := offset (mm st) + week_len; history := history (mm st) ++ [s];
                    gca := gca (mm st); gca_avail := gca_avail (mm st); tempkey := tempkey (mm st); skeys := skeys (mm st) |}) al)
                 (replay_auths (empty_tables (mm st)) al)) by (apply replay_auths_ext; repeat split).
      destruct Y as (Y1 & Y2 & Y3), Hr as (H1 & H2 & H3).
      repeat split; intros; [rewrite Y1; apply H1 | rewrite Y2; apply H2 | rewrite Y3; apply H3].
    - destruct Kr as (rl & Drl & Hrl & Hwin). exists rl. split; [exact Drl|]. split.
      + intros r Hr'. destruct (Hrl r Hr') as (P1 & P2 & P3 & P4).
        split; [exact P1|]. split; [unfold week_len, window_len in *; lia|]. split; [exact P3 | exact P4].
      + intros id a w Qe Qr. rewrite zget_map_val in Qr. apply option_map_some in Qr. destruct Qr as (w0 & Q0 & ->).
        eapply win_eq_trans; [apply win_eq_shift; apply (Hwin _ _ _ Qe Q0)|].
        apply replay_shift; [exact Hlo | unfold week_len, window_len in *; lia|].
        intros r Hr'. apply for_dev_In in Hr'. destruct Hr' as [Hr' _]. destruct (Hrl r Hr') as (_ & P2 & _). exact P2.
  Qed.
End DiskInvPres3.
