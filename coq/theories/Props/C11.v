(* C11 -- work in progress: the defects D9 / D10 in the model of the unrepaired code *)
From Coq Require Import ZArith List Bool.
From GCA Require Import Wrap Bytes CodecSync ClientSync ClientSync_lemmas.
Import ListNotations.
Open Scope Z_scope.

Theorem c11_prefix_parse_panics verify mykey skey gkey now :
  client_recv verify (v_minlen v_prefix) mykey skey gkey now d10_stream = PPanic.
Proof. exact (d10_prefix_panics verify mykey skey gkey now). Qed.
