package suites

// T4: the lock / IO skeleton translator.  Every function and method of packages
// server/ and client/ (non-test files, production build constraints: tags
// `test` and `verif` off) becomes a term of the statement language of
// coq/theories/Skel.v; the result is written to SkelServer.v / SkelClient.v.
// AST only (go/parser + go/ast); the object whose mutex discipline is checked
// is identified by its type name (GCAServer / Client) and its variables by a
// small flow-ordered inference (receiver, parameters, results of functions
// that return the type, composite literals).
//
// Anything that can affect control flow or touch the object in a way that is
// not understood is emitted as `Unknown "<pos>: <text>"`, which the Coq checker
// rejects.  Positions appear only inside Unknown strings and comments.

import (
	"fmt"
	"go/ast"
	"go/build/constraint"
	"go/parser"
	"go/printer"
	"go/token"
	"os"
	"path/filepath"
	"regexp"
	"sort"
	"strings"
	"time"
	"unicode"

	"verifharness/core"
)

func init() { core.Register("skeletons", skeletonsSuite) }

// ------------------------------------------------------------------ skeleton terms

type sk struct {
	op   string // Skip Lock Unlock DeferUnlock Read Write Call BlockingRead SetDeadline NetIO Seq Choice Block Loop Return Break Continue Panic Spawn Unknown
	arg  string
	inf  bool
	kids []*sk
	pos  string
}

func skSkip() *sk { return &sk{op: "Skip"} }
func (s *sk) isSkip() bool {
	return s == nil || s.op == "Skip"
}

func skSeq(xs ...*sk) *sk {
	var flat []*sk
	var add func(x *sk)
	add = func(x *sk) {
		if x.isSkip() {
			return
		}
		if x.op == "Seq" {
			for _, k := range x.kids {
				add(k)
			}
			return
		}
		flat = append(flat, x)
	}
	for _, x := range xs {
		add(x)
	}
	// drop immediately repeated identical field reads (same lock state, same check)
	var out []*sk
	for _, x := range flat {
		if n := len(out); n > 0 && x.op == "Read" && out[n-1].op == "Read" && out[n-1].arg == x.arg {
			continue
		}
		out = append(out, x)
	}
	switch len(out) {
	case 0:
		return skSkip()
	case 1:
		return out[0]
	}
	return &sk{op: "Seq", kids: out}
}

func skChoice(xs ...*sk) *sk {
	if len(xs) == 0 {
		return skSkip()
	}
	allSkip := true
	for _, x := range xs {
		if !x.isSkip() {
			allSkip = false
		}
	}
	if allSkip {
		return skSkip()
	}
	if len(xs) == 1 {
		return xs[0]
	}
	return &sk{op: "Choice", kids: xs}
}

func (s *sk) walk(inSpawn bool, f func(x *sk, inSpawn bool)) {
	if s == nil {
		return
	}
	f(s, inSpawn)
	for _, k := range s.kids {
		k.walk(inSpawn || s.op == "Spawn", f)
	}
}

// ------------------------------------------------------------------ package model

type fnDecl struct {
	key, name, recv string
	decl            *ast.FuncDecl
	imports         map[string]bool
	results         []string // result types as source text
	objMethod       bool
	naming          string
	body            *sk
	ctor            bool
	pos             string
}

type pkgTr struct {
	closureUse map[*ast.FuncLit]int // local closures: how often each was placed in line or spawned
	fset       *token.FileSet
	dir        string
	module     string // Coq module name
	objType    string
	nested     map[string]bool // fields of the object that are objects with their own mutex
	typeNames  map[string]bool
	funcs      map[string]*fnDecl
	order      []string
	fields     []string // declared fields of the object type (nested ones as a.b)
	unknowns   []string
	skipped    []string
	structs    map[string]*ast.StructType
	fieldType  map[string]string
	globals    []string
}

// identIn: t mentions the identifier id as a whole word
func identIn(t, id string) bool {
	return regexp.MustCompile(`(^|[^A-Za-z0-9_])` + regexp.QuoteMeta(id) + `($|[^A-Za-z0-9_])`).MatchString(t)
}

var forbiddenWords = regexp.MustCompile(`(?i)admit|axiom|parameter|conjecture|abort`)

func (p *pkgTr) position(n ast.Node) string {
	ps := p.fset.Position(n.Pos())
	return fmt.Sprintf("%s:%d", filepath.Base(ps.Filename), ps.Line)
}

func (p *pkgTr) text(n ast.Node) string {
	var sb strings.Builder
	printer.Fprint(&sb, p.fset, n)
	t := strings.Join(strings.Fields(sb.String()), " ")
	if len(t) > 70 {
		t = t[:70] + "..."
	}
	t = strings.NewReplacer(`"`, "'", "(*", "( *", "*)", "* )").Replace(t)
	t = forbiddenWords.ReplaceAllStringFunc(t, func(w string) string { return w[:1] + "_" + w[1:] })
	return t
}

func (p *pkgTr) unknown(n ast.Node, why string) *sk {
	msg := p.position(n) + ": " + why + ": " + p.text(n)
	p.unknowns = append(p.unknowns, msg)
	return &sk{op: "Unknown", arg: msg, pos: p.position(n)}
}

func typeText(fset *token.FileSet, e ast.Expr) string {
	if e == nil {
		return ""
	}
	var sb strings.Builder
	printer.Fprint(&sb, fset, e)
	return sb.String()
}

func fileIncluded(f *ast.File) bool {
	for _, cg := range f.Comments {
		if cg.Pos() > f.Package {
			break
		}
		for _, c := range cg.List {
			if constraint.IsGoBuild(c.Text) {
				x, err := constraint.Parse(c.Text)
				if err != nil {
					return false
				}
				return x.Eval(func(tag string) bool { return false }) // tags test, verif: off
			}
		}
	}
	return true
}

func loadPkg(dir, module, objType string, nested []string) (*pkgTr, error) {
	p := &pkgTr{fset: token.NewFileSet(), dir: dir, module: module, objType: objType,
		nested: map[string]bool{}, typeNames: map[string]bool{}, funcs: map[string]*fnDecl{},
		structs: map[string]*ast.StructType{}, fieldType: map[string]string{}}
	for _, n := range nested {
		p.nested[n] = true
	}
	ents, err := os.ReadDir(dir)
	if err != nil {
		return nil, err
	}
	var names []string
	for _, e := range ents {
		if e.IsDir() || !strings.HasSuffix(e.Name(), ".go") || strings.HasSuffix(e.Name(), "_test.go") {
			continue
		}
		names = append(names, e.Name())
	}
	sort.Strings(names)
	for _, n := range names {
		f, err := parser.ParseFile(p.fset, filepath.Join(dir, n), nil, parser.ParseComments)
		if err != nil {
			return nil, err
		}
		if !fileIncluded(f) {
			p.skipped = append(p.skipped, n)
			continue
		}
		imps := map[string]bool{}
		for _, im := range f.Imports {
			path := strings.Trim(im.Path.Value, `"`)
			name := path[strings.LastIndex(path, "/")+1:]
			if im.Name != nil {
				name = im.Name.Name
			}
			imps[name] = true
		}
		for _, d := range f.Decls {
			switch d := d.(type) {
			case *ast.GenDecl:
				for _, s := range d.Specs {
					if vs, ok := s.(*ast.ValueSpec); ok && d.Tok == token.VAR {
						if t := typeText(p.fset, vs.Type); t != "" && identIn(t, objType) {
							p.globals = append(p.globals, p.position(vs)+": package-level variable of the object type")
						}
						for _, v := range vs.Values {
							if identIn(typeText(p.fset, v), objType) {
								p.globals = append(p.globals, p.position(vs)+": package-level variable initialised with the object type")
							}
						}
					}
					ts, ok := s.(*ast.TypeSpec)
					if !ok {
						continue
					}
					p.typeNames[ts.Name.Name] = true
					if stt, ok := ts.Type.(*ast.StructType); ok {
						p.structs[ts.Name.Name] = stt
					}
					if ts.Name.Name == objType {
						if stt, ok := ts.Type.(*ast.StructType); ok {
							for _, fl := range stt.Fields.List {
								for _, nm := range fl.Names {
									p.fields = append(p.fields, nm.Name)
									p.fieldType[nm.Name] = strings.TrimPrefix(typeText(p.fset, fl.Type), "*")
								}
								if len(fl.Names) == 0 {
									p.fields = append(p.fields, "embedded:"+typeText(p.fset, fl.Type))
								}
							}
						}
					}
				}
			case *ast.FuncDecl:
				fd := &fnDecl{name: d.Name.Name, decl: d, imports: imps, pos: p.position(d)}
				if d.Recv != nil && len(d.Recv.List) == 1 {
					fd.recv = strings.TrimPrefix(typeText(p.fset, d.Recv.List[0].Type), "*")
					fd.key = fd.recv + "." + fd.name
					fd.objMethod = fd.recv == objType
				} else {
					fd.key = fd.name
				}
				if d.Type.Results != nil {
					for _, r := range d.Type.Results.List {
						n := len(r.Names)
						if n == 0 {
							n = 1
						}
						for i := 0; i < n; i++ {
							fd.results = append(fd.results, typeText(p.fset, r.Type))
						}
					}
				}
				if _, dup := p.funcs[fd.key]; dup {
					return nil, fmt.Errorf("duplicate function %s in %s", fd.key, dir)
				}
				p.funcs[fd.key] = fd
				p.order = append(p.order, fd.key)
			}
		}
	}
	// the object reachable through a package-level variable or a field of another struct would escape
	for _, n := range names {
		_ = n
	}
	for name, st := range p.structs {
		if name == objType {
			continue
		}
		for _, fl := range st.Fields.List {
			if strings.Contains(typeText(p.fset, fl.Type), objType) && identIn(typeText(p.fset, fl.Type), objType) {
				p.unknowns = append(p.unknowns, p.position(fl)+": field of struct "+name+" holds the object type")
			}
		}
	}
	for _, gv := range p.globals {
		p.unknowns = append(p.unknowns, gv)
	}
	// a nested object (own mutex) contributes its fields as a.b
	var fields []string
	for _, f := range p.fields {
		if p.nested[f] {
			if st, ok := p.structs[p.fieldType[f]]; ok {
				for _, fl := range st.Fields.List {
					for _, nm := range fl.Names {
						fields = append(fields, f+"."+nm.Name)
					}
				}
				continue
			}
		}
		fields = append(fields, f)
	}
	p.fields = fields
	return p, nil
}

// ------------------------------------------------------------------ per-function translation

type vinfo struct {
	obj    bool
	net    string // conn | udp | listener | rw | req | resp | httpclient
	cancel bool
}

// lexical scopes: a local that shadows the receiver (or a package name) must not be mistaken for it
type scope struct {
	vars   map[string]*vinfo
	parent *scope
}

type fctx struct {
	p      *pkgTr
	fd     *fnDecl
	sc     *scope
	labels map[string]ast.Stmt
	stack  []ast.Stmt // enclosing breakable statements (for / range / switch / select)
	// local closures (name := func(...) {...}): a call of the name is translated as the closure's body in
	// place, tg.Launch(name) / go name() as a spawned body
	closures map[string]*ast.FuncLit
	inlining int
}

// closureInlinable: the body may be placed at the call site when its only return statement (if any) is
// its last statement -- a return in the middle would leave the closure, not the enclosing function
func closureInlinable(fl *ast.FuncLit) bool {
	n := len(fl.Body.List)
	ok := true
	for i, st := range fl.Body.List {
		last := i == n-1
		ast.Inspect(st, func(x ast.Node) bool {
			if _, isLit := x.(*ast.FuncLit); isLit {
				return false
			}
			if r, isRet := x.(*ast.ReturnStmt); isRet {
				if !(last && ast.Node(r) == ast.Node(st)) {
					ok = false
				}
			}
			return true
		})
	}
	return ok
}

func (c *fctx) inlineClosure(call *ast.CallExpr, fl *ast.FuncLit) *sk {
	if c.inlining >= 3 || !closureInlinable(fl) {
		return c.p.unknown(call, "call of a local closure that cannot be placed in line (early return or nesting)")
	}
	c.inlining++
	defer func() { c.inlining-- }()
	c.p.useClosure(fl)
	args := c.exprs(call.Args)
	c.push()
	defer c.pop()
	if fl.Type.Params != nil {
		for _, f := range fl.Type.Params.List {
			for _, n := range f.Names {
				c.declare(n.Name, typeText(c.p.fset, f.Type))
			}
		}
	}
	stmts := fl.Body.List
	var tail *sk
	if n := len(stmts); n > 0 {
		if r, ok := stmts[n-1].(*ast.ReturnStmt); ok {
			tail = c.exprs(r.Results)
			stmts = stmts[:n-1]
		}
	}
	b := c.block(stmts)
	if tail != nil {
		return skSeq(args, b, tail)
	}
	return skSeq(args, b)
}

func (p *pkgTr) useClosure(fl *ast.FuncLit) {
	if p.closureUse == nil {
		p.closureUse = map[*ast.FuncLit]int{}
	}
	p.closureUse[fl]++
}

func (c *fctx) noteClosure(lhs ast.Expr, rhs ast.Expr) bool {
	id, ok := lhs.(*ast.Ident)
	fl, ok2 := rhs.(*ast.FuncLit)
	if !ok || !ok2 {
		return false
	}
	if c.closures == nil {
		c.closures = map[string]*ast.FuncLit{}
	}
	c.closures[id.Name] = fl
	if c.p.closureUse == nil {
		c.p.closureUse = map[*ast.FuncLit]int{}
	}
	if _, seen := c.p.closureUse[fl]; !seen {
		c.p.closureUse[fl] = 0
	}
	return true
}

func (c *fctx) push() { c.sc = &scope{vars: map[string]*vinfo{}, parent: c.sc} }
func (c *fctx) pop()  { c.sc = c.sc.parent }
func (c *fctx) lookup(name string) *vinfo {
	for s := c.sc; s != nil; s = s.parent {
		if v, ok := s.vars[name]; ok {
			return v
		}
	}
	return nil
}
func (c *fctx) isObj(name string) bool { v := c.lookup(name); return v != nil && v.obj }
func (c *fctx) netOf(name string) string {
	if v := c.lookup(name); v != nil {
		return v.net
	}
	return ""
}
func (c *fctx) isCancel(name string) bool { v := c.lookup(name); return v != nil && v.cancel }

func isObjTypeText(t, obj string) bool { return t == obj || t == "*"+obj }

func netKind(t string) string {
	switch t {
	case "net.Conn", "*net.TCPConn":
		return "conn"
	case "*net.UDPConn", "net.PacketConn":
		return "udp"
	case "net.Listener", "*net.TCPListener":
		return "listener"
	case "http.ResponseWriter":
		return "rw"
	case "*http.Request":
		return "req"
	case "*http.Response":
		return "resp"
	case "*http.Client", "http.Client":
		return "httpclient"
	}
	return ""
}

// declare: a (possibly re-)definition of a local in the current scope
func (c *fctx) declare(name, typ string) {
	if name == "_" || name == "" {
		return
	}
	if _, again := c.sc.vars[name]; again && (typ == "" || typ == "?") {
		return // "a, b := f()" re-assigning a variable of this scope: its type cannot change
	}
	c.sc.vars[name] = &vinfo{obj: isObjTypeText(typ, c.p.objType), net: netKind(typ), cancel: typ == "cancel"}
}

func (p *pkgTr) translate(fd *fnDecl) {
	c := &fctx{p: p, fd: fd, labels: map[string]ast.Stmt{}}
	c.push()
	d := fd.decl
	if d.Recv != nil {
		for _, r := range d.Recv.List {
			for _, n := range r.Names {
				c.declare(n.Name, typeText(p.fset, r.Type))
			}
		}
	}
	for _, fl := range d.Type.Params.List {
		for _, n := range fl.Names {
			c.declare(n.Name, typeText(p.fset, fl.Type))
		}
	}
	if d.Type.Results != nil {
		for _, fl := range d.Type.Results.List {
			for _, n := range fl.Names {
				c.declare(n.Name, typeText(p.fset, fl.Type))
			}
		}
	}
	if d.Body == nil {
		fd.body = p.unknown(d, "function without body")
		return
	}
	fd.body = c.block(d.Body.List)
}

func (c *fctx) block(l []ast.Stmt) *sk {
	c.push()
	defer c.pop()
	var out []*sk
	for _, s := range l {
		out = append(out, c.stmt(s))
	}
	return skSeq(out...)
}

func (c *fctx) at(n ast.Node, s *sk) *sk {
	if s.pos == "" {
		s.pos = c.p.position(n)
	}
	return s
}

// objPath: x.a.b.c with x an object variable  ->  [a b c]
func (c *fctx) objPath(e ast.Expr) ([]string, bool) {
	var path []string
	for {
		switch x := e.(type) {
		case *ast.SelectorExpr:
			path = append([]string{x.Sel.Name}, path...)
			e = x.X
		case *ast.ParenExpr:
			e = x.X
		case *ast.StarExpr:
			e = x.X
		case *ast.Ident:
			if c.isObj(x.Name) && len(path) > 0 {
				return path, true
			}
			return nil, false
		default:
			return nil, false
		}
	}
}

// fieldOf: the classified field a selector path denotes ("" = it is a mutex / not a plain field)
func (c *fctx) fieldOf(path []string) (field string, isMutex bool) {
	if path[0] == "mu" {
		return "mu", true
	}
	if c.p.nested[path[0]] && len(path) >= 2 {
		if path[1] == "mu" {
			return path[0] + ".mu", true
		}
		return path[0] + "." + path[1], false
	}
	return path[0], false
}

func (c *fctx) access(n ast.Node, path []string, write bool) *sk {
	f, isMu := c.fieldOf(path)
	if isMu {
		return c.p.unknown(n, "mutex used other than by Lock/Unlock")
	}
	op := "Read"
	if write {
		op = "Write"
	}
	return c.at(n, &sk{op: op, arg: f})
}

func (c *fctx) exprs(es []ast.Expr) *sk {
	var out []*sk
	for _, e := range es {
		out = append(out, c.expr(e))
	}
	return skSeq(out...)
}

var builtinFuncs = map[string]bool{"append": true, "cap": true, "len": true, "make": true, "new": true, "min": true, "max": true,
	"print": true, "println": true, "complex": true, "real": true, "imag": true, "clear": true}
var basicTypes = map[string]bool{"bool": true, "string": true, "int": true, "int8": true, "int16": true, "int32": true, "int64": true,
	"uint": true, "uint8": true, "uint16": true, "uint32": true, "uint64": true, "uintptr": true, "byte": true, "rune": true,
	"float32": true, "float64": true, "complex64": true, "complex128": true, "error": true, "any": true}

// blocking calls by package-qualified name
var blockingPkgFuncs = map[string]bool{
	"http.Post": true, "http.Get": true, "http.Head": true, "http.PostForm": true, "http.Error": true,
	"http.ListenAndServe": true, "http.Serve": true,
	"net.Dial": true, "net.DialTimeout": true, "net.DialTCP": true, "net.DialUDP": true,
	"time.Sleep": true, "glow.SendUDPReport": true,
}

// methods that block whatever the (non-object) receiver is
var blockingMethods = map[string]bool{"Do": true, "Serve": true, "ServeTLS": true, "Shutdown": true, "ListenAndServe": true,
	"Accept": true, "AcceptTCP": true, "Wait": true}

func (c *fctx) mentionsNet(e ast.Expr) bool {
	found := false
	ast.Inspect(e, func(n ast.Node) bool {
		switch x := n.(type) {
		case *ast.Ident:
			if k := c.netOf(x.Name); k == "conn" || k == "udp" || k == "rw" {
				found = true
			}
		case *ast.SelectorExpr:
			if x.Sel.Name == "Body" {
				found = true
			}
		}
		return !found
	})
	return found
}

func (c *fctx) connName(e ast.Expr) (string, string) {
	if id, ok := e.(*ast.Ident); ok {
		if k := c.netOf(id.Name); k != "" {
			return id.Name, k
		}
	}
	return "", ""
}

func (c *fctx) spawnBody(fl *ast.FuncLit) *sk {
	saved := c.stack
	c.stack = nil
	c.push()
	for _, f := range fl.Type.Params.List {
		for _, n := range f.Names {
			c.declare(n.Name, typeText(c.p.fset, f.Type))
		}
	}
	b := c.block(fl.Body.List)
	c.pop()
	c.stack = saved
	return c.at(fl, &sk{op: "Spawn", kids: []*sk{b}})
}

// spawnArg: the argument of tg.Launch / OnStop / AfterStop / go
func (c *fctx) spawnArg(e ast.Expr) *sk {
	switch x := e.(type) {
	case *ast.FuncLit:
		return c.spawnBody(x)
	case *ast.Ident:
		if fl, ok := c.closures[x.Name]; ok {
			c.p.useClosure(fl)
			return c.spawnBody(fl)
		}
	case *ast.SelectorExpr:
		if path, ok := c.objPath(x); ok && len(path) == 1 {
			if _, ok := c.p.funcs[c.p.objType+"."+path[0]]; ok {
				return c.at(e, &sk{op: "Spawn", kids: []*sk{c.at(e, &sk{op: "Call", arg: c.p.objType + "." + path[0]})}})
			}
		}
	}
	return c.p.unknown(e, "goroutine body not understood")
}

func (c *fctx) call(x *ast.CallExpr) *sk {
	// conversions, builtins, package functions, closures
	switch fun := x.Fun.(type) {
	case *ast.ParenExpr:
		return skSeq(c.exprs(x.Args)) // (*T)(x) conversions
	case *ast.ArrayType, *ast.MapType, *ast.InterfaceType, *ast.StarExpr, *ast.ChanType, *ast.FuncType:
		return c.exprs(x.Args)
	case *ast.FuncLit:
		return c.p.unknown(x, "immediately invoked closure")
	case *ast.Ident:
		name := fun.Name
		switch {
		case name == "panic":
			return skSeq(c.exprs(x.Args), c.at(x, &sk{op: "Panic"}))
		case name == "recover":
			return c.p.unknown(x, "recover")
		case name == "delete" && len(x.Args) == 2:
			if path, ok := c.objPath(stripIndex(x.Args[0])); ok {
				return skSeq(c.indexReads(x.Args[0]), c.expr(x.Args[1]), c.access(x, path, true))
			}
			return c.exprs(x.Args)
		case name == "copy" && len(x.Args) == 2:
			if path, ok := c.objPath(stripIndex(x.Args[0])); ok {
				return skSeq(c.indexReads(x.Args[0]), c.expr(x.Args[1]), c.access(x, path, true))
			}
			return c.exprs(x.Args)
		case name == "close":
			return c.exprs(x.Args)
		case builtinFuncs[name] || basicTypes[name] || c.p.typeNames[name]:
			return c.exprs(x.Args)
		case c.isCancel(name):
			return skSkip()
		}
		if fd, ok := c.p.funcs[name]; ok && fd.recv == "" {
			return skSeq(c.callArgs(x.Args), c.at(x, &sk{op: "Call", arg: fd.key}))
		}
		if fl, ok := c.closures[name]; ok {
			return c.inlineClosure(x, fl)
		}
		return c.p.unknown(x, "call of an unknown function value")
	case *ast.SelectorExpr:
		return c.selectorCall(x, fun)
	}
	return c.p.unknown(x, "call form not understood")
}

// callArgs: arguments of a call to a function of the package; the object itself must not be passed along
func (c *fctx) callArgs(args []ast.Expr) *sk {
	var out []*sk
	for _, a := range args {
		if id, ok := a.(*ast.Ident); ok && c.isObj(id.Name) {
			out = append(out, c.p.unknown(a, "object passed as an argument"))
			continue
		}
		out = append(out, c.expr(a))
	}
	return skSeq(out...)
}

func stripIndex(e ast.Expr) ast.Expr {
	for {
		switch x := e.(type) {
		case *ast.IndexExpr:
			e = x.X
		case *ast.SliceExpr:
			e = x.X
		case *ast.ParenExpr:
			e = x.X
		case *ast.StarExpr:
			e = x.X
		default:
			return e
		}
	}
}

// indexReads: the index sub-expressions of  a[i][j], a[i:j]
func (c *fctx) indexReads(e ast.Expr) *sk {
	var out []*sk
	for {
		switch x := e.(type) {
		case *ast.IndexExpr:
			out = append([]*sk{c.expr(x.Index)}, out...)
			e = x.X
			continue
		case *ast.SliceExpr:
			var s []*sk
			for _, y := range []ast.Expr{x.Low, x.High, x.Max} {
				if y != nil {
					s = append(s, c.expr(y))
				}
			}
			out = append([]*sk{skSeq(s...)}, out...)
			e = x.X
			continue
		case *ast.ParenExpr:
			e = x.X
			continue
		case *ast.StarExpr:
			e = x.X
			continue
		}
		break
	}
	return skSeq(out...)
}

func (c *fctx) selectorCall(x *ast.CallExpr, fun *ast.SelectorExpr) *sk {
	m := fun.Sel.Name
	// --- calls through the object
	if full, ok := c.objPath(fun); ok {
		path := full[:len(full)-1]
		if len(path) == 0 {
			if fd, ok := c.p.funcs[c.p.objType+"."+m]; ok {
				return skSeq(c.callArgs(x.Args), c.at(x, &sk{op: "Call", arg: fd.key}))
			}
			return c.p.unknown(x, "unknown method of the object")
		}
		if f, isMu := c.fieldOf(path); isMu && len(path) == len(strings.Split(f, ".")) {
			switch m {
			case "Lock":
				return c.at(x, &sk{op: "Lock", arg: f})
			case "Unlock":
				return c.at(x, &sk{op: "Unlock", arg: f})
			}
			return c.p.unknown(x, "mutex operation not understood")
		}
		if path[0] == "tg" && len(path) == 1 {
			rd := c.access(fun, path, false)
			switch m {
			case "Launch", "OnStop", "AfterStop":
				if len(x.Args) == 1 {
					return skSeq(rd, c.spawnArg(x.Args[0]))
				}
			case "Sleep", "Stop", "Flush":
				return skSeq(c.exprs(x.Args), rd, c.at(x, &sk{op: "NetIO", arg: "tg." + m}))
			case "IsStopped", "StopChan", "Add", "Done":
				return skSeq(c.exprs(x.Args), rd)
			}
			return c.p.unknown(x, "threadgroup call not understood")
		}
		if path[0] == "logger" && len(path) == 1 && (m == "Fatal" || m == "Fatalf") {
			return skSeq(c.exprs(x.Args), c.access(fun, path, false), c.at(x, &sk{op: "Panic"}))
		}
		out := []*sk{c.exprs(x.Args), c.access(fun, path, false)}
		if blockingMethods[m] {
			out = append(out, c.at(x, &sk{op: "NetIO", arg: strings.Join(path, ".") + "." + m}))
		}
		return skSeq(out...)
	}
	// --- package-qualified functions
	if id, ok := fun.X.(*ast.Ident); ok && c.fd.imports[id.Name] && !c.isLocal(id.Name) {
		q := id.Name + "." + m
		args := c.exprs(x.Args)
		switch {
		case q == "io.ReadFull" || q == "io.ReadAll" || q == "ioutil.ReadAll" || q == "io.ReadAtLeast" || q == "io.Copy" || q == "io.CopyN":
			for _, a := range x.Args {
				if n, k := c.connName(a); k == "conn" || k == "udp" {
					return skSeq(args, c.at(x, &sk{op: "BlockingRead", arg: n}))
				}
			}
			for _, a := range x.Args {
				if c.mentionsNet(a) {
					return skSeq(args, c.at(x, &sk{op: "NetIO", arg: q}))
				}
			}
			return args
		case blockingPkgFuncs[q]:
			return skSeq(args, c.at(x, &sk{op: "NetIO", arg: q}))
		}
		return args
	}
	// --- methods of other values
	if ts := c.resultTypes(fun.X); len(ts) > 0 && isObjTypeText(ts[0], c.p.objType) {
		return c.p.unknown(x, "method call on an object returned by a call")
	}
	switch m {
	case "Lock", "Unlock", "RLock", "RUnlock", "TryLock", "TryRLock":
		return c.p.unknown(x, "lock operation on a mutex that is not the object's")
	}
	recv := c.expr(fun.X)
	args := c.exprs(x.Args)
	if n, k := c.connName(fun.X); k != "" {
		switch k {
		case "conn", "udp":
			switch m {
			case "Read", "ReadFrom", "ReadFromUDP", "ReadMsgUDP", "ReadFromUDPAddrPort":
				if k == "conn" {
					return skSeq(args, c.at(x, &sk{op: "BlockingRead", arg: n}))
				}
				return skSeq(args, c.at(x, &sk{op: "NetIO", arg: n + "." + m}))
			case "Write", "WriteTo", "WriteToUDP", "WriteMsgUDP":
				return skSeq(args, c.at(x, &sk{op: "NetIO", arg: n + "." + m}))
			case "SetDeadline", "SetReadDeadline":
				return skSeq(args, c.at(x, &sk{op: "SetDeadline", arg: n}))
			}
			return args
		case "listener":
			if m == "Accept" || m == "AcceptTCP" {
				return skSeq(args, c.at(x, &sk{op: "NetIO", arg: n + "." + m}))
			}
			return args
		case "rw":
			if m == "Write" || m == "WriteHeader" {
				return skSeq(args, c.at(x, &sk{op: "NetIO", arg: n + "." + m}))
			}
			return args
		case "httpclient":
			if m == "Do" || m == "Get" || m == "Post" || m == "PostForm" || m == "Head" {
				return skSeq(args, c.at(x, &sk{op: "NetIO", arg: n + "." + m}))
			}
			return args
		}
	}
	// json.NewDecoder(r.Body).Decode(..), json.NewEncoder(w).Encode(..): the stream is the network
	if (m == "Decode" || m == "Encode") && c.mentionsNet(fun.X) {
		return skSeq(recv, args, c.at(x, &sk{op: "NetIO", arg: "stream." + m}))
	}
	if blockingMethods[m] {
		return skSeq(recv, args, c.at(x, &sk{op: "NetIO", arg: "." + m}))
	}
	return skSeq(recv, args)
}

func (c *fctx) bareObj(e ast.Expr) bool {
	id, ok := e.(*ast.Ident)
	return ok && c.isObj(id.Name)
}

// exprNoObj: like expr, but a bare object identifier is fine here (returned, aliased, compared)
func (c *fctx) exprNoObj(e ast.Expr) *sk {
	if c.bareObj(e) {
		return skSkip()
	}
	return c.expr(e)
}

func (c *fctx) exprsNoObj(es []ast.Expr) *sk {
	var out []*sk
	for _, e := range es {
		out = append(out, c.exprNoObj(e))
	}
	return skSeq(out...)
}

func (c *fctx) isLocal(name string) bool {
	return c.lookup(name) != nil
}

func (c *fctx) expr(e ast.Expr) *sk {
	switch x := e.(type) {
	case nil:
		return skSkip()
	case *ast.BasicLit:
		return skSkip()
	case *ast.Ident:
		if c.isObj(x.Name) {
			// the object itself used as a value (argument, element, copy ...): it escapes the analysis
			return c.p.unknown(x, "object used as a value")
		}
		return skSkip()
	case *ast.ParenExpr:
		return c.expr(x.X)
	case *ast.SelectorExpr:
		if path, ok := c.objPath(x); ok {
			if _, isMethod := c.p.funcs[c.p.objType+"."+path[0]]; isMethod && len(path) == 1 {
				// method value (e.g. an HTTP handler handed to the mux): runs later, with no lock held
				return c.at(x, &sk{op: "Spawn", kids: []*sk{c.at(x, &sk{op: "Call", arg: c.p.objType + "." + path[0]})}})
			}
			return c.access(x, path, false)
		}
		return c.expr(x.X)
	case *ast.CallExpr:
		return c.call(x)
	case *ast.UnaryExpr:
		if x.Op == token.ARROW {
			return skSeq(c.expr(x.X), c.at(x, &sk{op: "NetIO", arg: "chan receive"}))
		}
		if x.Op == token.AND {
			if path, ok := c.objPath(stripIndex(x.X)); ok {
				return skSeq(c.indexReads(x.X), c.access(x, path, true)) // address taken: may be written through
			}
		}
		return c.expr(x.X)
	case *ast.BinaryExpr:
		if (x.Op == token.EQL || x.Op == token.NEQ) && (c.bareObj(x.X) || c.bareObj(x.Y)) {
			return skSeq(c.exprNoObj(x.X), c.exprNoObj(x.Y)) // x == nil
		}
		if x.Op == token.LAND || x.Op == token.LOR {
			return skSeq(c.expr(x.X), skChoice(c.expr(x.Y), skSkip()))
		}
		return skSeq(c.expr(x.X), c.expr(x.Y))
	case *ast.IndexExpr:
		return skSeq(c.expr(x.X), c.expr(x.Index))
	case *ast.SliceExpr:
		return skSeq(c.expr(x.X), c.expr(x.Low), c.expr(x.High), c.expr(x.Max))
	case *ast.StarExpr:
		return c.expr(x.X)
	case *ast.TypeAssertExpr:
		return c.expr(x.X)
	case *ast.KeyValueExpr:
		return skSeq(c.expr(x.Key), c.expr(x.Value))
	case *ast.CompositeLit:
		return c.exprs(x.Elts)
	case *ast.FuncLit:
		return c.p.unknown(x, "closure")
	case *ast.ArrayType, *ast.MapType, *ast.StructType, *ast.InterfaceType, *ast.ChanType, *ast.FuncType, *ast.Ellipsis:
		return skSkip()
	}
	return c.p.unknown(e, "expression not understood")
}

// lhs: effect of assigning to e
func (c *fctx) lhs(e ast.Expr) *sk {
	if path, ok := c.objPath(stripIndex(e)); ok {
		return skSeq(c.indexReads(e), c.access(e, path, true))
	}
	// x.f[i].g = v  (selector below an index)
	if se, ok := e.(*ast.SelectorExpr); ok {
		return c.lhs(se.X)
	}
	switch x := e.(type) {
	case *ast.Ident:
		return skSkip()
	case *ast.IndexExpr:
		return skSeq(c.lhs(x.X), c.expr(x.Index))
	case *ast.StarExpr:
		return c.expr(x.X)
	case *ast.ParenExpr:
		return c.lhs(x.X)
	}
	return c.expr(e)
}

// resultTypes of a call expression, when it is a function of the package
func (c *fctx) resultTypes(e ast.Expr) []string {
	call, ok := e.(*ast.CallExpr)
	if !ok {
		return nil
	}
	switch fun := call.Fun.(type) {
	case *ast.Ident:
		if fd, ok := c.p.funcs[fun.Name]; ok && fd.recv == "" {
			return fd.results
		}
	case *ast.SelectorExpr:
		if path, ok := c.objPath(fun); ok && len(path) == 1 {
			if fd, ok := c.p.funcs[c.p.objType+"."+path[0]]; ok {
				return fd.results
			}
		}
		if id, ok := fun.X.(*ast.Ident); ok {
			q := id.Name + "." + fun.Sel.Name
			switch q {
			case "net.Dial", "net.DialTimeout":
				return []string{"net.Conn", "error"}
			case "net.DialTCP":
				return []string{"*net.TCPConn", "error"}
			case "net.Listen":
				return []string{"net.Listener", "error"}
			case "net.ListenUDP", "net.DialUDP":
				return []string{"*net.UDPConn", "error"}
			case "http.Post", "http.Get", "http.Head", "http.PostForm":
				return []string{"*http.Response", "error"}
			case "context.WithTimeout", "context.WithCancel", "context.WithDeadline":
				return []string{"context.Context", "cancel"}
			}
			if k := c.netOf(id.Name); c.lookup(id.Name) != nil && k == "listener" && (fun.Sel.Name == "Accept") {
				return []string{"net.Conn", "error"}
			} else if k == "httpclient" {
				return []string{"*http.Response", "error"}
			}
		}
	}
	return nil
}

func (c *fctx) bind(lhs []ast.Expr, rhs []ast.Expr) {
	if len(rhs) == 1 && len(lhs) >= 1 {
		ts := c.resultTypes(rhs[0])
		for i, l := range lhs {
			id, ok := l.(*ast.Ident)
			if !ok {
				continue
			}
			t := ""
			if i < len(ts) {
				t = ts[i]
			}
			if len(lhs) == 1 {
				t = c.exprType(rhs[0], t)
			}
			c.declare(id.Name, t)
		}
		return
	}
	if len(lhs) == len(rhs) {
		for i, l := range lhs {
			if id, ok := l.(*ast.Ident); ok {
				c.declare(id.Name, c.exprType(rhs[i], ""))
			}
		}
	}
}

func (c *fctx) exprType(e ast.Expr, dflt string) string {
	switch x := e.(type) {
	case *ast.UnaryExpr:
		if x.Op == token.AND {
			if cl, ok := x.X.(*ast.CompositeLit); ok {
				return "*" + typeText(c.p.fset, cl.Type)
			}
		}
	case *ast.CompositeLit:
		return typeText(c.p.fset, x.Type)
	case *ast.Ident:
		if c.isObj(x.Name) {
			return "*" + c.p.objType
		}
		if k := c.netOf(x.Name); k != "" {
			for _, t := range []string{"net.Conn", "*net.UDPConn", "net.Listener", "http.ResponseWriter", "*http.Request", "*http.Response", "*http.Client"} {
				if netKind(t) == k {
					return t
				}
			}
		}
	case *ast.CallExpr:
		if ts := c.resultTypes(x); len(ts) > 0 {
			return ts[0]
		}
	}
	if dflt == "" {
		return "?"
	}
	return dflt
}

func hasFuncLit(es []ast.Expr) bool {
	for _, e := range es {
		if _, ok := e.(*ast.FuncLit); ok {
			return true
		}
	}
	return false
}

func (c *fctx) stmt(s ast.Stmt) *sk {
	switch s.(type) {
	case *ast.IfStmt, *ast.ForStmt, *ast.RangeStmt, *ast.SwitchStmt, *ast.TypeSwitchStmt, *ast.SelectStmt:
		c.push() // the scope of the init statement / range variables
		defer c.pop()
	}
	switch x := s.(type) {
	case nil:
		return skSkip()
	case *ast.EmptyStmt:
		return skSkip()
	case *ast.BlockStmt:
		return c.block(x.List)
	case *ast.ExprStmt:
		return c.expr(x.X)
	case *ast.IncDecStmt:
		return c.lhs(x.X)
	case *ast.AssignStmt:
		if hasFuncLit(x.Rhs) {
			if len(x.Lhs) == 1 && len(x.Rhs) == 1 && x.Tok == token.DEFINE && c.noteClosure(x.Lhs[0], x.Rhs[0]) {
				return skSkip()
			}
			return c.p.unknown(x, "closure stored in a variable")
		}
		r := c.exprsNoObj(x.Rhs) // "a := obj" is an alias, tracked by bind
		var ls []*sk
		for _, l := range x.Lhs {
			ls = append(ls, c.lhs(l))
		}
		c.bind(x.Lhs, x.Rhs)
		return skSeq(r, skSeq(ls...))
	case *ast.DeclStmt:
		gd, ok := x.Decl.(*ast.GenDecl)
		if !ok {
			return c.p.unknown(x, "declaration not understood")
		}
		var out []*sk
		for _, sp := range gd.Specs {
			vs, ok := sp.(*ast.ValueSpec)
			if !ok {
				continue
			}
			if hasFuncLit(vs.Values) {
				if len(vs.Names) == 1 && len(vs.Values) == 1 && c.noteClosure(vs.Names[0], vs.Values[0]) {
					continue
				}
				out = append(out, c.p.unknown(x, "closure stored in a variable"))
				continue
			}
			out = append(out, c.exprsNoObj(vs.Values))
			for i, n := range vs.Names {
				t := typeText(c.p.fset, vs.Type)
				if t == "" && i < len(vs.Values) && len(vs.Values) == len(vs.Names) {
					t = c.exprType(vs.Values[i], "")
				}
				c.declare(n.Name, t)
			}
		}
		return skSeq(out...)
	case *ast.ReturnStmt:
		return skSeq(c.exprsNoObj(x.Results), c.at(x, &sk{op: "Return"}))
	case *ast.IfStmt:
		init := c.stmt(x.Init)
		cond := c.expr(x.Cond)
		th := c.block(x.Body.List)
		el := skSkip()
		if x.Else != nil {
			el = c.stmt(x.Else)
		}
		if th.isSkip() && el.isSkip() {
			return skSeq(init, cond)
		}
		return skSeq(init, cond, &sk{op: "Choice", kids: []*sk{th, el}})
	case *ast.ForStmt:
		init := c.stmt(x.Init)
		cond := c.expr(x.Cond)
		c.stack = append(c.stack, x)
		body := c.block(x.Body.List)
		c.stack = c.stack[:len(c.stack)-1]
		post := c.stmt(x.Post)
		if !post.isSkip() && containsOp(body, "Continue") {
			return skSeq(init, c.p.unknown(x, "continue with a non-trivial post statement"))
		}
		return skSeq(init, c.at(x, &sk{op: "Loop", inf: x.Cond == nil, kids: []*sk{skSeq(cond, body, post)}}))
	case *ast.RangeStmt:
		src := c.expr(x.X)
		var kv []*sk
		if x.Tok == token.ASSIGN {
			kv = append(kv, c.lhs(x.Key), c.lhs(x.Value))
		} else {
			for _, e := range []ast.Expr{x.Key, x.Value} {
				if id, ok := e.(*ast.Ident); ok {
					c.declare(id.Name, "?")
				}
			}
		}
		c.stack = append(c.stack, x)
		body := c.block(x.Body.List)
		c.stack = c.stack[:len(c.stack)-1]
		return skSeq(src, c.at(x, &sk{op: "Loop", kids: []*sk{skSeq(skSeq(kv...), body)}}))
	case *ast.SwitchStmt:
		init := c.stmt(x.Init)
		tag := c.expr(x.Tag)
		c.stack = append(c.stack, x)
		br, hasDefault := c.clauses(x.Body.List)
		c.stack = c.stack[:len(c.stack)-1]
		if !hasDefault {
			br = append(br, skSkip())
		}
		ch := skChoice(br...)
		if ch.isSkip() {
			return skSeq(init, tag)
		}
		return skSeq(init, tag, c.at(x, &sk{op: "Block", kids: []*sk{ch}}))
	case *ast.TypeSwitchStmt:
		init := c.stmt(x.Init)
		as := c.stmt(x.Assign)
		c.stack = append(c.stack, x)
		br, hasDefault := c.clauses(x.Body.List)
		c.stack = c.stack[:len(c.stack)-1]
		if !hasDefault {
			br = append(br, skSkip())
		}
		ch := skChoice(br...)
		if ch.isSkip() {
			return skSeq(init, as)
		}
		return skSeq(init, as, c.at(x, &sk{op: "Block", kids: []*sk{ch}}))
	case *ast.SelectStmt:
		c.stack = append(c.stack, x)
		var br []*sk
		hasDefault := false
		for _, cl := range x.Body.List {
			cc := cl.(*ast.CommClause)
			if cc.Comm == nil {
				hasDefault = true
				br = append(br, c.block(cc.Body))
				continue
			}
			br = append(br, skSeq(c.stmt(cc.Comm), c.block(cc.Body)))
		}
		c.stack = c.stack[:len(c.stack)-1]
		blocking := skSkip()
		if !hasDefault {
			blocking = c.at(x, &sk{op: "NetIO", arg: "select"})
		}
		if len(br) == 0 {
			return blocking
		}
		return skSeq(blocking, c.at(x, &sk{op: "Block", kids: []*sk{&sk{op: "Choice", kids: append(br, skSkip())}}}))
	case *ast.SendStmt:
		return skSeq(c.expr(x.Chan), c.expr(x.Value), c.at(x, &sk{op: "NetIO", arg: "chan send"}))
	case *ast.LabeledStmt:
		c.labels[x.Label.Name] = x.Stmt
		return c.stmt(x.Stmt)
	case *ast.BranchStmt:
		switch x.Tok {
		case token.BREAK, token.CONTINUE:
			if len(c.stack) == 0 {
				return c.p.unknown(x, "break/continue outside a loop")
			}
			if x.Label != nil {
				// only a label on the innermost enclosing loop is understood
				tgt := c.labels[x.Label.Name]
				if tgt == nil || tgt != c.stack[len(c.stack)-1] {
					return c.p.unknown(x, "labelled break/continue of an outer statement")
				}
			}
			if x.Tok == token.BREAK {
				return c.at(x, &sk{op: "Break"})
			}
			// continue: the innermost LOOP; enclosing switch/select blocks let Continue through
			return c.at(x, &sk{op: "Continue"})
		}
		return c.p.unknown(x, "goto/fallthrough")
	case *ast.DeferStmt:
		if fun, ok := x.Call.Fun.(*ast.SelectorExpr); ok && fun.Sel.Name == "Unlock" {
			if full, ok := c.objPath(fun); ok {
				if f, isMu := c.fieldOf(full[:len(full)-1]); isMu {
					return c.at(x, &sk{op: "DeferUnlock", arg: f})
				}
			}
		}
		if _, ok := x.Call.Fun.(*ast.FuncLit); ok {
			return c.p.unknown(x, "deferred closure")
		}
		d := c.call(x.Call)
		if onlyHarmless(d) {
			return skSkip() // file.Close(), resp.Body.Close(), conn.Close(), cancel(): no lock, no guarded state
		}
		return c.p.unknown(x, "deferred call that touches the object")
	case *ast.GoStmt:
		if fl, ok := x.Call.Fun.(*ast.FuncLit); ok {
			return skSeq(c.exprs(x.Call.Args), c.spawnBody(fl))
		}
		b := c.call(x.Call)
		return c.at(x, &sk{op: "Spawn", kids: []*sk{b}})
	}
	return c.p.unknown(s, "statement not understood")
}

func (c *fctx) clauses(l []ast.Stmt) (br []*sk, hasDefault bool) {
	for _, cl := range l {
		cc := cl.(*ast.CaseClause)
		if cc.List == nil {
			hasDefault = true
		}
		br = append(br, skSeq(c.exprs(cc.List), c.block(cc.Body)))
	}
	return
}

func containsOp(s *sk, op string) bool {
	found := false
	var w func(x *sk, depth int)
	w = func(x *sk, depth int) {
		if x == nil || found {
			return
		}
		if x.op == op && depth == 0 {
			found = true
		}
		d := depth
		if x.op == "Loop" || x.op == "Spawn" {
			d++
		}
		for _, k := range x.kids {
			w(k, d)
		}
	}
	w(s, 0)
	return found
}

// onlyHarmless: nothing but reads of the object (a deferred x.f.Close() reads the field at the defer statement)
func onlyHarmless(s *sk) bool {
	ok := true
	s.walk(false, func(x *sk, _ bool) {
		switch x.op {
		case "Skip", "Seq":
		default:
			ok = false
		}
	})
	return ok
}

// ------------------------------------------------------------------ classification by the naming convention

func exported(n string) bool { return n != "" && unicode.IsUpper(rune(n[0])) }

func (p *pkgTr) namingOf(fd *fnDecl) string {
	n := fd.name
	d := fd.decl
	if fd.recv == "" && strings.HasPrefix(n, "New") {
		for _, r := range fd.results {
			if isObjTypeText(r, p.objType) {
				return "NNew"
			}
		}
	}
	switch {
	case strings.HasPrefix(n, "static"):
		return "NStatic"
	case strings.HasPrefix(n, "managed"):
		return "NManaged"
	case strings.HasPrefix(n, "threaded"):
		return "NThreaded"
	case strings.HasPrefix(n, "launch"):
		return "NLaunch"
	}
	if !fd.objMethod {
		return "NPlain" // the convention about exported names concerns the methods of the object
	}
	if ps := d.Type.Params.List; len(ps) == 2 &&
		typeText(p.fset, ps[0].Type) == "http.ResponseWriter" && typeText(p.fset, ps[1].Type) == "*http.Request" {
		return "NHandler"
	}
	if exported(n) {
		return "NExported"
	}
	return "NPlain"
}

type edge struct {
	from, to string
	spawn    bool
}

func (p *pkgTr) edges() []edge {
	var es []edge
	seen := map[edge]bool{}
	for _, k := range p.order {
		fd := p.funcs[k]
		fd.body.walk(false, func(x *sk, inSpawn bool) {
			if x.op == "Call" {
				e := edge{k, x.arg, inSpawn}
				if !seen[e] {
					seen[e] = true
					es = append(es, e)
				}
			}
		})
	}
	return es
}

// ctor context: reachable only from the constructor, never from a goroutine body
func (p *pkgTr) deriveCtor(es []edge) {
	incoming := map[string][]edge{}
	for _, e := range es {
		incoming[e.to] = append(incoming[e.to], e)
	}
	for _, k := range p.order {
		fd := p.funcs[k]
		fd.ctor = fd.naming == "NNew" || (!exported(fd.name) && len(incoming[k]) > 0 && fd.naming != "NNew")
	}
	for changed := true; changed; {
		changed = false
		for _, k := range p.order {
			fd := p.funcs[k]
			if !fd.ctor || fd.naming == "NNew" {
				continue
			}
			for _, e := range incoming[k] {
				if e.spawn || !p.funcs[e.from].ctor {
					fd.ctor = false
					changed = true
					break
				}
			}
		}
	}
}

// ------------------------------------------------------------------ emission

func coqString(s string) string { return `"` + strings.ReplaceAll(s, `"`, `""`) + `"` }

func (s *sk) emit(sb *strings.Builder, ind string) {
	cm := ""
	if s.pos != "" {
		cm = " (* " + s.pos + " *)"
	}
	switch s.op {
	case "Skip", "Return", "Break", "Continue", "Panic":
		sb.WriteString(ind + s.op + cm)
	case "NetIO":
		sb.WriteString(ind + "(NetIO " + coqString(s.arg) + ")" + cm)
	case "Lock", "Unlock", "DeferUnlock", "Read", "Write", "Call", "BlockingRead", "SetDeadline":
		sb.WriteString(ind + "(" + s.op + " " + coqString(s.arg) + ")" + cm)
	case "Unknown":
		sb.WriteString(ind + "(Unknown " + coqString(s.arg) + ")")
	case "Seq":
		sb.WriteString(ind + "(\n")
		for i, k := range s.kids {
			k.emit(sb, ind+"  ")
			if i < len(s.kids)-1 {
				sb.WriteString(" ;;")
			}
			sb.WriteString("\n")
		}
		sb.WriteString(ind + ")")
	case "Choice":
		// n-ary choice as nested binary choices
		var rec func(ks []*sk, ind string)
		rec = func(ks []*sk, ind string) {
			if len(ks) == 1 {
				ks[0].emit(sb, ind)
				return
			}
			sb.WriteString(ind + "(Choice\n")
			ks[0].emit(sb, ind+"  ")
			sb.WriteString("\n")
			rec(ks[1:], ind+"  ")
			sb.WriteString(")")
		}
		rec(s.kids, ind)
	case "Block", "Spawn":
		sb.WriteString(ind + "(" + s.op + cm + "\n")
		s.kids[0].emit(sb, ind+"  ")
		sb.WriteString(")")
	case "Loop":
		sb.WriteString(ind + "(Loop " + core.Bool(s.inf) + cm + "\n")
		s.kids[0].emit(sb, ind+"  ")
		sb.WriteString(")")
	default:
		sb.WriteString(ind + "(Unknown " + coqString("translator: bad node "+s.op) + ")")
	}
}

var identRe = regexp.MustCompile(`[^A-Za-z0-9_]`)

func (p *pkgTr) emitFile(outDir string) (map[string]int, error) {
	stats := map[string]int{}
	es := p.edges()
	p.deriveCtor(es)
	var sb strings.Builder
	sb.WriteString("(* generated from the repository on every run by harness/suites/skeletons.go -- do not edit *)\n")
	sb.WriteString("From Coq Require Import String List.\nFrom GCA Require Import Skel.\nImport ListNotations.\nOpen Scope string_scope.\nOpen Scope list_scope.\n\n")
	sb.WriteString("Definition object_type : string := " + coqString(p.objType) + ".\n\n")
	var names []string
	for _, k := range p.order {
		fd := p.funcs[k]
		id := "sk_" + identRe.ReplaceAllString(k, "_")
		names = append(names, id)
		sb.WriteString(fmt.Sprintf("(* %s  %s *)\nDefinition %s : rawfn := {| r_name := %s; r_recv := %s; r_naming := %s; r_ctor := %s; r_body :=\n",
			k, fd.pos, id, coqString(k), coqString(fd.recv), fd.naming, core.Bool(fd.ctor)))
		fd.body.emit(&sb, "  ")
		sb.WriteString(" |}.\n\n")
		stats["functions"]++
		stats[fd.naming]++
		fd.body.walk(false, func(x *sk, _ bool) { stats["op:"+x.op]++ })
	}
	sb.WriteString("Definition raw_fns : list rawfn := [\n  " + strings.Join(names, ";\n  ") + "\n].\n\n")
	// call graph
	var el []string
	for _, e := range es {
		el = append(el, fmt.Sprintf("(%s, %s, %s)", coqString(e.from), coqString(e.to), core.Bool(e.spawn)))
	}
	sb.WriteString("(* call graph: (caller, callee, inside a goroutine body of the caller) *)\nDefinition call_edges : list (string * string * bool) := [\n  " + strings.Join(el, ";\n  ") + "\n].\n\n")
	// writers
	type wr struct {
		f, fn string
		spawn bool
	}
	seen := map[wr]bool{}
	var wl []string
	for _, k := range p.order {
		p.funcs[k].body.walk(false, func(x *sk, inSpawn bool) {
			if x.op == "Write" {
				w := wr{x.arg, k, inSpawn}
				if !seen[w] {
					seen[w] = true
					wl = append(wl, fmt.Sprintf("(%s, %s, %s)", coqString(w.f), coqString(w.fn), core.Bool(w.spawn)))
				}
			}
		})
	}
	sort.Strings(wl)
	sb.WriteString("(* (field, function that writes it, inside a goroutine body) *)\nDefinition field_writers : list (string * string * bool) := [\n  " + strings.Join(wl, ";\n  ") + "\n].\n\n")
	var fl []string
	for _, f := range p.fields {
		fl = append(fl, coqString(f))
	}
	sb.WriteString("(* fields declared by the object type *)\nDefinition declared_fields : list string := [" + strings.Join(fl, "; ") + "].\n\n")
	// cross-check against silent loss: mutex calls in the source vs lock nodes in the skeletons
	srcLock, srcUnlock := 0, 0
	for _, k := range p.order {
		if b := p.funcs[k].decl.Body; b != nil {
			// a mutex call inside a local closure counts once per place the closure was put in line or spawned
			var walk func(n ast.Node, weight int)
			walk = func(n ast.Node, weight int) {
				ast.Inspect(n, func(x ast.Node) bool {
					if fl, ok := x.(*ast.FuncLit); ok {
						if uses, local := p.closureUse[fl]; local {
							walk(fl.Body, weight*uses)
							return false
						}
					}
					if ce, ok := x.(*ast.CallExpr); ok {
						if se, ok := ce.Fun.(*ast.SelectorExpr); ok {
							switch se.Sel.Name {
							case "Lock", "RLock", "TryLock":
								srcLock += weight
							case "Unlock", "RUnlock":
								srcUnlock += weight
							}
						}
					}
					return true
				})
			}
			walk(b, 1)
		}
	}
	sb.WriteString(fmt.Sprintf("Definition source_lock_calls : nat * nat := (%d, %d).\n", srcLock, srcUnlock))
	sb.WriteString(fmt.Sprintf("Definition skeleton_lock_nodes : nat * nat := (%d, %d).\n\n", stats["op:Lock"], stats["op:Unlock"]+stats["op:DeferUnlock"]))
	var ul []string
	for _, u := range p.unknowns {
		ul = append(ul, coqString(u))
	}
	sb.WriteString("Definition unknown_statements : list string := [\n  " + strings.Join(ul, ";\n  ") + "\n].\n")
	stats["unknown"] = len(p.unknowns)
	return stats, os.WriteFile(filepath.Join(outDir, p.module+".v"), []byte(sb.String()), 0644)
}

func skeletonsSuite(seed uint64, tier, outDir string) (*core.Result, error) {
	t0 := time.Now()
	res := core.NewResult("skeletons", seed, tier)
	repo := os.Getenv("VERIF_REPO")
	if repo == "" {
		repo = "/repo"
	}
	type cfg struct {
		dir, module, obj string
		nested           []string
	}
	for _, c := range []cfg{
		{"server", "SkelServer", "GCAServer", []string{"gcaServers"}},
		{"client", "SkelClient", "Client", nil},
	} {
		p, err := loadPkg(filepath.Join(repo, c.dir), c.module, c.obj, c.nested)
		if err != nil {
			return nil, err
		}
		for _, k := range p.order {
			fd := p.funcs[k]
			fd.naming = p.namingOf(fd)
			p.translate(fd)
		}
		stats, err := p.emitFile(outDir)
		if err != nil {
			return nil, err
		}
		for k, v := range stats {
			res.Distribution[c.dir+":"+k] = v
		}
		res.Case(map[string]interface{}{"package": c.dir, "functions": stats["functions"], "unknown": p.unknowns, "skipped_files": p.skipped},
			c.dir+fmt.Sprint(stats), true)
	}
	res.Rule = "every function of server/ and client/ translated to a lock/IO skeleton (Skel.v); unknown statements are emitted as Unknown and rejected by the checker"
	res.Extra["translator_ms"] = time.Since(t0).Milliseconds()
	return res, nil
}
