module verifharness

go 1.22.1

require (
	github.com/ethereum/go-ethereum v1.14.3
	github.com/glowlabs-org/gca-backend v0.0.0
)

require (
	github.com/glowlabs-org/errors v0.0.0-20240512103511-f6f59e80d2a3 // indirect
	github.com/glowlabs-org/threadgroup v0.0.0-20240512114128-232ca7c42d0d // indirect
	github.com/holiman/uint256 v1.2.4 // indirect
	golang.org/x/crypto v0.23.0 // indirect
)

replace github.com/glowlabs-org/gca-backend => /repo
