(* Weekly statistics (server/api_device_stats.go): DeviceStats, AllDeviceStats, their
   serialization, signing bytes and the STREAM decoder DeserializeStreamAllDeviceStats,
   which reports how many bytes it consumed so that records can be decoded one after
   another (server/equipment.go, loadEquipmentHistory).  Definitions only. *)
From Coq Require Import ZArith List Bool String.
From GCA Require Import Bytes Codec.
Import ListNotations.
Open Scope Z_scope.
Notation length := List.length.

(* timeslots per week: PowerOutputs [2016]uint64, ImpactRates [2016]float64 *)
Definition slots : nat := 2016.
(* bytes of one device record: 32 + 8*2*2016 *)
Definition dev_size : nat := 32 + (8 * slots + 8 * slots).
Definition dev_size_z : Z := 32288.

(* impact rates are carried as IEEE-754 binary64 bit patterns (math.Float64bits) *)
Record dev := { d_key : bytes; d_pow : list Z; d_imp : list Z }.
Record all_stats := { s_devs : list dev; s_tso : Z; s_sig : bytes }.

Fixpoint u64s_enc (l : list Z) : bytes :=
  match l with [] => [] | x :: l' => le_enc 8 x ++ u64s_enc l' end.
Fixpoint u64s_dec (n : nat) (b : bytes) : list Z :=
  match n with O => [] | S n' => le_dec (firstn 8 b) :: u64s_dec n' (skipn 8 b) end.

Definition dev_encode (d : dev) : bytes :=
  pad 32 (d_key d) ++ u64s_enc (d_pow d) ++ u64s_enc (d_imp d).
Definition dev_decode (b : bytes) : dev :=
  {| d_key := firstn 32 b;
     d_pow := u64s_dec slots (skipn 32 b);
     d_imp := u64s_dec slots (skipn (32 + 8 * slots) b) |}.

Fixpoint devs_encode (l : list dev) : bytes :=
  match l with [] => [] | d :: l' => dev_encode d ++ devs_encode l' end.
Fixpoint devs_decode (n : nat) (b : bytes) : list dev :=
  match n with O => [] | S n' => dev_decode (firstn dev_size b) :: devs_decode n' (skipn dev_size b) end.

(* everything but the signature: count, devices, timeslot offset *)
Definition stats_body (x : all_stats) : bytes :=
  le_enc 4 (Z.of_nat (length (s_devs x))) ++ devs_encode (s_devs x) ++ le_enc 4 (s_tso x).
Definition stats_serialize (x : all_stats) : bytes := stats_body x ++ pad 64 (s_sig x).
Definition stats_signing_bytes (x : all_stats) : bytes := ascii_bytes prefix_stats ++ stats_body x.

Definition u64_ok (z : Z) : Prop := 0 <= z < 2^64.
Definition dev_wf (d : dev) : Prop :=
  length (d_key d) = 32%nat /\ length (d_pow d) = slots /\ length (d_imp d) = slots /\
  Forall u64_ok (d_pow d) /\ Forall u64_ok (d_imp d).
Definition stats_wf (x : all_stats) : Prop :=
  Z.of_nat (length (s_devs x)) < 2^32 /\ Forall dev_wf (s_devs x) /\
  0 <= s_tso x < 2^32 /\ length (s_sig x) = 64%nat.

(* bytes the decoder asks the runtime for: make([]DeviceStats, count) *)
Definition stats_alloc (count : Z) : Z := count * dev_size_z.
(* 4 + count*(32+8*2*2016) + 4 + 64, computed without wrap-around (uint64 in the code:
   count < 2^32 and 32288 < 2^15, so the product stays below 2^47) *)
Definition stats_need (count : Z) : Z := 4 + count * dev_size_z + 4 + 64.

Definition stats_of_bytes (n : nat) (b : bytes) : all_stats :=
  {| s_devs := devs_decode n (skipn 4 b);
     s_tso := le_dec (slice (4 + n * dev_size) 4 b);
     s_sig := slice (4 + n * dev_size + 4) 64 b |}.

(* DeserializeStreamAllDeviceStats after the repair (length validated before anything is
   allocated).  [memlimit] = the largest block the runtime can still allocate; asking
   for more is "fatal error: out of memory".  After the length check the per-field
   bounds checks of the code can no longer fail, they are not repeated here. *)
Definition stats_stream_decode (memlimit : Z) (b : bytes) : dres all_stats :=
  if (length b <? 4)%nat then DErr else
  let count := le_dec (firstn 4 b) in
  if Z.of_nat (length b) <? stats_need count then DErr else
  if memlimit <? stats_alloc count then DFatal else
  let n := Z.to_nat count in
  DOk (stats_of_bytes n b) (4 + n * dev_size + 4 + 64).

(* the code before the repair: allocation first, lengths checked field by field
   afterwards (each of those checks fails exactly when the input is shorter than
   stats_need count) *)
Definition stats_stream_decode_prefix (memlimit : Z) (b : bytes) : dres all_stats :=
  if (length b <? 4)%nat then DErr else
  let count := le_dec (firstn 4 b) in
  if memlimit <? stats_alloc count then DFatal else
  if Z.of_nat (length b) <? stats_need count then DErr else
  let n := Z.to_nat count in
  DOk (stats_of_bytes n b) (4 + n * dev_size + 4 + 64).

(* the caller's loop (loadEquipmentHistory): decode records until the input is used up.
   Every record consumes at least 72 bytes, so fuel = S (length b) is never exhausted
   (stream_all_fuel_enough in CodecStats_lemmas.v). *)
Fixpoint stats_stream_all (fuel : nat) (memlimit : Z) (b : bytes) : dres (list all_stats) :=
  match fuel with
  | O => DFuel
  | S fuel' =>
      match b with
      | [] => DOk [] 0
      | _ :: _ =>
          match stats_stream_decode memlimit b with
          | DOk x n =>
              match stats_stream_all fuel' memlimit (skipn n b) with
              | DOk xs m => DOk (x :: xs) (n + m)
              | DErr => DErr | DFatal => DFatal | DFuel => DFuel
              end
          | DErr => DErr | DFatal => DFatal | DFuel => DFuel
          end
      end
  end.

Fixpoint stats_list_encode (l : list all_stats) : bytes :=
  match l with [] => [] | x :: l' => stats_serialize x ++ stats_list_encode l' end.
