package suites

// C10 (suite "syncwire") and helpers shared by the suites of C10, C11, C17
// (rogue.go, serverlist.go, migrate.go): signature table, scripted TCP peers,
// an independent builder for sync replies, Gallina emitters for the records of
// CodecSync.v / ClientSyncRun.v.

import (
	"bytes"
	"encoding/binary"
	"encoding/hex"
	"encoding/json"
	"fmt"
	"io"
	"net"
	"net/http"
	"os"
	"path/filepath"
	"sort"
	"strings"
	"sync"
	"syscall"
	"time"

	"github.com/glowlabs-org/gca-backend/client"
	"github.com/glowlabs-org/gca-backend/glow"
	"github.com/glowlabs-org/gca-backend/server"
	"verifharness/core"
)

func init() { core.Register("syncwire", syncwireSuite) }

// ---------------------------------------------------------------- keys and genuine signatures

type keyPair struct {
	pub  glow.PublicKey
	priv glow.PrivateKey
}

func newKey() keyPair {
	p, s := glow.GenerateKeyPair()
	return keyPair{p, s}
}

// sigTab is the table of genuine signatures: everything the harness signs
// with the real glow.Sign is recorded here; the model's verify is membership.
type sigTab struct {
	mu   sync.Mutex
	rows [][3][]byte
}

func (t *sigTab) add(key glow.PublicKey, msg []byte, sig glow.Signature) {
	t.mu.Lock()
	t.rows = append(t.rows, [3][]byte{append([]byte{}, key[:]...), append([]byte{}, msg...), append([]byte{}, sig[:]...)})
	t.mu.Unlock()
}
func (t *sigTab) sign(msg []byte, k keyPair) glow.Signature {
	sig := glow.Sign(msg, k.priv)
	t.add(k.pub, msg, sig)
	return sig
}
func (t *sigTab) gallina() string {
	t.mu.Lock()
	defer t.mu.Unlock()
	xs := make([]string, len(t.rows))
	for i, r := range t.rows {
		xs[i] = core.Tuple(core.Hex(r[0]), core.Hex(r[1]), core.Hex(r[2]))
	}
	return core.List(xs)
}
func (t *sigTab) clone() *sigTab {
	t.mu.Lock()
	defer t.mu.Unlock()
	return &sigTab{rows: append([][3][]byte{}, t.rows...)}
}

// ---------------------------------------------------------------- records as Gallina

func asG(s server.AuthorizedServer) string {
	return fmt.Sprintf("(mk_as %s %s %s %d %d %d %s)", core.Hex(s.PublicKey[:]), core.Bool(s.Banned), core.Hex([]byte(s.Location)), s.HttpPort, s.TcpPort, s.UdpPort, core.Hex(s.GCAAuthorization[:]))
}
func asListG(l []server.AuthorizedServer) string {
	xs := make([]string, len(l))
	for i, s := range l {
		xs[i] = asG(s)
	}
	return core.List(xs)
}
func migG(m server.EquipmentMigration) string {
	return fmt.Sprintf("(mk_mig %s %s %d %s %s)", core.Hex(m.Equipment[:]), core.Hex(m.NewGCA[:]), m.NewShortID, asListG(m.NewServers), core.Hex(m.Signature[:]))
}
func gsMapG(l []client.VerifServerEntry) string {
	xs := make([]string, len(l))
	for i, e := range l {
		xs[i] = fmt.Sprintf("(mk_gs %s %s %s %d %d %d)", core.Hex(e.Key[:]), core.Bool(e.Server.Banned), core.Hex([]byte(e.Server.Location)), e.Server.HttpPort, e.Server.TcpPort, e.Server.UdpPort)
	}
	return core.List(xs)
}
func keysG(l []glow.PublicKey) string {
	xs := make([]string, len(l))
	for i, k := range l {
		xs[i] = core.Hex(k[:])
	}
	return core.List(xs)
}

func asCanon(l []server.AuthorizedServer) string {
	var sb strings.Builder
	for _, s := range l {
		fmt.Fprintf(&sb, "%x/%v/%x/%d/%d/%d/%x;", s.PublicKey, s.Banned, s.Location, s.HttpPort, s.TcpPort, s.UdpPort, s.GCAAuthorization)
	}
	return sb.String()
}

// signed AuthorizedServer
func mkAS(t *sigTab, gca keyPair, key glow.PublicKey, banned bool, loc string, h, tc, u uint16) server.AuthorizedServer {
	as := server.AuthorizedServer{PublicKey: key, Banned: banned, Location: loc, HttpPort: h, TcpPort: tc, UdpPort: u}
	as.GCAAuthorization = t.sign(as.SigningBytes(), gca)
	return as
}

// signed EquipmentMigration (outer signature by cur, inner ones must already be there)
func mkMig(t *sigTab, cur keyPair, equipment, newGCA glow.PublicKey, newID uint32, srv []server.AuthorizedServer) server.EquipmentMigration {
	m := server.EquipmentMigration{Equipment: equipment, NewGCA: newGCA, NewShortID: newID, NewServers: srv}
	m.Signature = t.sign(m.SigningBytes(), cur)
	return m
}

// ---------------------------------------------------------------- sync replies built by the harness
// (a rogue or scripted server; written from the protocol description, not from the server code)

type replySpec struct {
	devKey   glow.PublicKey
	offset   uint32
	bitfield [504]byte
	newGCA   glow.PublicKey
	newID    uint32
	servers  []server.AuthorizedServer
	gcaSig   glow.Signature
	unixTime uint64
}

func asWire(s server.AuthorizedServer) []byte {
	var b []byte
	b = append(b, s.PublicKey[:]...)
	if s.Banned {
		b = append(b, 1)
	} else {
		b = append(b, 0)
	}
	b = append(b, byte(len(s.Location)))
	b = append(b, []byte(s.Location)...)
	b = binary.LittleEndian.AppendUint16(b, s.HttpPort)
	b = binary.LittleEndian.AppendUint16(b, s.TcpPort)
	b = binary.LittleEndian.AppendUint16(b, s.UdpPort)
	b = append(b, s.GCAAuthorization[:]...)
	return b
}

// content is everything the outer signature covers
func (r replySpec) content() []byte {
	var b []byte
	b = append(b, r.devKey[:]...)
	b = binary.LittleEndian.AppendUint32(b, r.offset)
	b = append(b, r.bitfield[:]...)
	b = append(b, r.newGCA[:]...)
	b = binary.LittleEndian.AppendUint32(b, r.newID)
	for _, s := range r.servers {
		b = append(b, asWire(s)...)
	}
	b = append(b, r.gcaSig[:]...)
	b = binary.LittleEndian.AppendUint64(b, r.unixTime)
	return b
}

// withMigration fills the migration fields from a signed order
func (r replySpec) withMigration(m server.EquipmentMigration) replySpec {
	r.newGCA, r.newID, r.servers, r.gcaSig = m.NewGCA, m.NewShortID, m.NewServers, m.Signature
	return r
}

// signedWire = length prefix ++ content ++ signature by k
func signedWire(t *sigTab, content []byte, k keyPair) []byte {
	sig := t.sign(content, k)
	return frame(append(append([]byte{}, content...), sig[:]...))
}
func frame(body []byte) []byte {
	out := make([]byte, 2, 2+len(body))
	binary.LittleEndian.PutUint16(out, uint16(len(body)))
	return append(out, body...)
}

// ---------------------------------------------------------------- scripted TCP peer

const (
	actSend    = iota // read the 4-byte request, send data, close
	actReset          // accept and reset at once
	actEarly          // send data without waiting for the request, close
	actDelayed        // read the request, wait, send data, close
)

type peerAction struct {
	kind  int
	data  []byte
	delay time.Duration
}

// scriptPeer is a TCP listener on 127.0.0.1 whose behaviour for the k-th
// connection is given by a function.
type scriptPeer struct {
	ln     net.Listener
	port   uint16
	mu     sync.Mutex
	script func(k int) peerAction
	hits   int
	reqs   [][]byte
	wg     sync.WaitGroup
	closed bool
}

func newScriptPeer(script func(k int) peerAction) (*scriptPeer, error) {
	ln, err := net.Listen("tcp", "127.0.0.1:0")
	if err != nil {
		return nil, err
	}
	p := &scriptPeer{ln: ln, port: uint16(ln.Addr().(*net.TCPAddr).Port), script: script}
	p.wg.Add(1)
	go p.loop()
	return p, nil
}
func (p *scriptPeer) setScript(f func(k int) peerAction) {
	p.mu.Lock()
	p.script = f
	p.hits = 0
	p.mu.Unlock()
}
func (p *scriptPeer) loop() {
	defer p.wg.Done()
	for {
		conn, err := p.ln.Accept()
		if err != nil {
			return
		}
		p.mu.Lock()
		k := p.hits
		p.hits++
		act := p.script(k)
		p.mu.Unlock()
		p.wg.Add(1)
		go func() {
			defer p.wg.Done()
			defer conn.Close()
			conn.SetDeadline(time.Now().Add(5 * time.Second))
			switch act.kind {
			case actReset:
				if tc, ok := conn.(*net.TCPConn); ok {
					tc.SetLinger(0)
				}
				return
			case actEarly:
				conn.Write(act.data)
				return
			}
			var req [4]byte
			if _, err := io.ReadFull(conn, req[:]); err != nil {
				return
			}
			p.mu.Lock()
			p.reqs = append(p.reqs, append([]byte{}, req[:]...))
			p.mu.Unlock()
			if act.kind == actDelayed {
				time.Sleep(act.delay)
			}
			conn.Write(act.data)
			// wait for the client to finish reading before the close, so that unread
			// data never turns the close into a reset
			if tc, ok := conn.(*net.TCPConn); ok {
				tc.CloseWrite()
				io.Copy(io.Discard, conn)
			}
		}()
	}
}
func (p *scriptPeer) close() {
	p.mu.Lock()
	if p.closed {
		p.mu.Unlock()
		return
	}
	p.closed = true
	p.mu.Unlock()
	p.ln.Close()
	p.wg.Wait()
}
func (p *scriptPeer) gcaServer() client.GCAServer {
	return client.GCAServer{Location: "127.0.0.1", TcpPort: p.port, UdpPort: 9, HttpPort: 9}
}

// a port on which nothing listens (dial refused).  The port stays bound (not
// listening) for the life of the process so that no other listener can get it.
func deadPort() uint16 {
	fd, err := syscall.Socket(syscall.AF_INET, syscall.SOCK_STREAM, 0)
	if err != nil {
		return 1
	}
	if err := syscall.Bind(fd, &syscall.SockaddrInet4{Port: 0, Addr: [4]byte{127, 0, 0, 1}}); err != nil {
		return 1
	}
	sa, err := syscall.Getsockname(fd)
	if err != nil {
		return 1
	}
	return uint16(sa.(*syscall.SockaddrInet4).Port)
}

// ---------------------------------------------------------------- calling the real parser

type parseObs struct {
	ok       bool
	offset   uint32
	bitfield [504]byte
	newGCA   glow.PublicKey
	newID    uint32
	servers  []server.AuthorizedServer
	errClass string // Coq constructor of perr
	errText  string
	panicked string
	now      int64
}

func classifyParseErr(err error) string {
	s := err.Error()
	switch {
	case strings.Contains(s, "too short"):
		return "EShort"
	case strings.Contains(s, "unable to dial"), strings.Contains(s, "unable to send reqeust"), strings.Contains(s, "unable to read the response length"),
		strings.Contains(s, "unable to read response from gca server"), strings.Contains(s, "did not send enough data"):
		return "ERead"
	case strings.Contains(s, "out of bounds temporally"):
		return "ETime"
	case strings.Contains(s, "received response from server with invalid signature"):
		return "ESig"
	case strings.Contains(s, "wrong short id"):
		return "EKey"
	case strings.Contains(s, "received new GCA from server with invalid signature"):
		return "EMigSig"
	case strings.Contains(s, "unable to decode authorized servers due to length"):
		return "ESrvLen"
	case strings.Contains(s, "invalid authorization"):
		return "ESrvSig"
	}
	return "EUnknown_" + strings.Map(func(r rune) rune {
		if (r >= 'a' && r <= 'z') || (r >= 'A' && r <= 'Z') {
			return r
		}
		return '_'
	}, s)
}

// parseVia feeds stream to the real staticServerSync through a scripted peer.
// The call is repeated when the wall clock second changed while it ran.
func parseVia(res *core.Result, peer *scriptPeer, c *client.Client, stream []byte, skey, gkey glow.PublicKey) parseObs {
	peer.setScript(func(int) peerAction { return peerAction{kind: actSend, data: stream} })
	for try := 0; ; try++ {
		t0 := time.Now().Unix()
		off, bf, ng, nid, srv, err, pan := client.VerifParseSync(c, peer.gcaServer(), skey, gkey)
		t1 := time.Now().Unix()
		if t0 != t1 && try < 5 {
			res.Discarded++
			continue
		}
		o := parseObs{now: t0, panicked: pan}
		if pan != "" {
			return o
		}
		if err != nil {
			o.errClass, o.errText = classifyParseErr(err), err.Error()
			return o
		}
		o.ok, o.offset, o.bitfield, o.newGCA, o.newID, o.servers = true, off, bf, ng, nid, srv
		return o
	}
}
func (o parseObs) gallina() string {
	if o.panicked != "" {
		return "OPanic"
	}
	if !o.ok {
		return "(OErr " + o.errClass + ")"
	}
	return fmt.Sprintf("(OOk %d %s %s %d %s)", o.offset, core.Hex(o.bitfield[:]), core.Hex(o.newGCA[:]), o.newID, asListG(o.servers))
}
func (o parseObs) canon() string {
	if o.panicked != "" {
		return "panic"
	}
	if !o.ok {
		return o.errClass
	}
	return fmt.Sprintf("ok/%d/%x/%x/%d/%s", o.offset, o.bitfield, o.newGCA, o.newID, asCanon(o.servers))
}
func (o parseObs) same(p parseObs) bool { return o.canon() == p.canon() }

// ---------------------------------------------------------------- client directories

type clientDir struct {
	dir    string
	dev    keyPair
	origin uint32
}

func writeClientDir(name string, dev keyPair, gca glow.PublicKey, shortID uint32, servers map[glow.PublicKey]client.GCAServer) (*clientDir, error) {
	dir := glow.GenerateTestDir(name)
	var keys [64]byte
	copy(keys[:32], dev.pub[:])
	copy(keys[32:], dev.priv[:])
	raw, err := client.SerializeGCAServerMap(servers)
	if err != nil {
		return nil, err
	}
	var id [4]byte
	binary.LittleEndian.PutUint32(id[:], shortID)
	files := map[string][]byte{
		client.ClientKeyFile:    keys[:],
		client.GCAPubKeyFile:    gca[:],
		client.GCAServerMapFile: raw,
		client.HistoryFile:      {0, 0, 0, 0},
		client.ShortIDFile:      id[:],
		client.EnergyFile:       []byte("timestamp,energy (mWh)"),
	}
	for f, b := range files {
		if err := os.WriteFile(filepath.Join(dir, f), b, 0644); err != nil {
			return nil, err
		}
	}
	return &clientDir{dir: dir, dev: dev}, nil
}
func (d *clientDir) file(name string) []byte {
	b, _ := os.ReadFile(filepath.Join(d.dir, name))
	return b
}
func (d *clientDir) filesG() string {
	return core.Tuple(core.Hex(d.file(client.GCAPubKeyFile)), core.Hex(d.file(client.ShortIDFile)), core.Hex(d.file(client.GCAServerMapFile)))
}

// ---------------------------------------------------------------- a real server driven over its public endpoints

type realServer struct {
	s    *server.GCAServer
	dir  string
	gca  keyPair
	keys keyPair // server.keys
	http uint16
	tcp  uint16
	udp  uint16
}

func startRealServer(name string) (*realServer, error) {
	s, dir, pub, priv, err := server.SetupTestEnvironment(name)
	if err != nil {
		return nil, err
	}
	rs := &realServer{s: s, dir: dir, gca: keyPair{pub, priv}}
	rs.http, rs.tcp, rs.udp = s.Ports()
	kb, err := os.ReadFile(filepath.Join(dir, "server.keys"))
	if err != nil || len(kb) < 64 {
		s.Close()
		return nil, fmt.Errorf("server.keys unreadable: %v", err)
	}
	copy(rs.keys.pub[:], kb[:32])
	copy(rs.keys.priv[:], kb[32:64])
	if rs.keys.pub != s.PublicKey() {
		s.Close()
		return nil, fmt.Errorf("server.keys layout is not pub(32) ++ priv(32)")
	}
	return rs, nil
}
func (rs *realServer) url(p string) string { return fmt.Sprintf("http://127.0.0.1:%d/api/v1/%s", rs.http, p) }
func (rs *realServer) postJSON(path string, v interface{}) (int, error) {
	j, err := json.Marshal(v)
	if err != nil {
		return 0, err
	}
	resp, err := http.Post(rs.url(path), "application/json", bytes.NewReader(j))
	if err != nil {
		return 0, err
	}
	io.Copy(io.Discard, resp.Body)
	resp.Body.Close()
	return resp.StatusCode, nil
}
func (rs *realServer) getServers() ([]server.AuthorizedServer, error) {
	resp, err := http.Get(rs.url("authorized-servers"))
	if err != nil {
		return nil, err
	}
	defer resp.Body.Close()
	var r server.AuthorizedServersResponse
	if err := json.NewDecoder(resp.Body).Decode(&r); err != nil {
		return nil, err
	}
	return r.AuthorizedServers, nil
}

// the 4032 PowerOutput values of the device's window, through the public endpoint
func (rs *realServer) recentPowers(dev glow.PublicKey) ([]uint64, error) {
	resp, err := http.Get(rs.url("recent-reports") + "?publicKey=" + hex.EncodeToString(dev[:]))
	if err != nil {
		return nil, err
	}
	defer resp.Body.Close()
	if resp.StatusCode != 200 {
		return nil, fmt.Errorf("recent-reports status %d", resp.StatusCode)
	}
	var r server.RecentReportsResponse
	if err := json.NewDecoder(resp.Body).Decode(&r); err != nil {
		return nil, err
	}
	out := make([]uint64, len(r.Reports))
	for i, rep := range r.Reports {
		out[i] = rep.PowerOutput
	}
	return out, nil
}

// fetchSync performs the TCP request as a client would and returns every byte
// the server sends until it closes the connection.
func fetchSync(tcpPort uint16, shortID uint32) ([]byte, error) {
	conn, err := net.Dial("tcp", fmt.Sprintf("127.0.0.1:%d", tcpPort))
	if err != nil {
		return nil, err
	}
	defer conn.Close()
	conn.SetDeadline(time.Now().Add(5 * time.Second))
	var req [4]byte
	binary.LittleEndian.PutUint32(req[:], shortID)
	if _, err := conn.Write(req[:]); err != nil {
		return nil, err
	}
	return io.ReadAll(conn)
}

func sortedKeys(m map[glow.PublicKey]client.GCAServer) []glow.PublicKey {
	ks := make([]glow.PublicKey, 0, len(m))
	for k := range m {
		ks = append(ks, k)
	}
	sort.Slice(ks, func(i, j int) bool { return bytes.Compare(ks[i][:], ks[j][:]) < 0 })
	return ks
}

const syncImports = "From Coq Require Import ZArith List String.\nFrom GCA Require Import Bytes CodecSync ClientSync ServerList RunLib ClientSyncRun."

// which revision of the client the model describes (ClientSync.v: v_prefix = before
// the repairs of D9/D10, v_fixed = the repaired code)
const modelVersion = "v_fixed"
const modelMinLen = "712"

func syncwireSuite(seed uint64, tier, outDir string) (*core.Result, error) {
	return nil, fmt.Errorf("not written yet")
}
