// Package core holds what every suite of the verification harness shares: a
// deterministic PRNG, emitters for Gallina literals, the result record that the
// ./check driver reads, and small helpers.
package core

import (
	"crypto/sha256"
	"encoding/hex"
	"encoding/json"
	"fmt"
	"math/big"
	"os"
	"os/exec"
	"path/filepath"
	"sort"
	"strings"
)

// ---------------------------------------------------------------- PRNG

// RNG is splitmix64: every random choice of a run derives from VERIF_SEED.
type RNG struct{ s uint64 }

func NewRNG(seed uint64) *RNG { return &RNG{s: seed*0x9E3779B97F4A7C15 + 0x1234567} }
func (r *RNG) U64() uint64 {
	r.s += 0x9E3779B97F4A7C15
	z := r.s
	z = (z ^ (z >> 30)) * 0xBF58476D1CE4E5B9
	z = (z ^ (z >> 27)) * 0x94D049BB133111EB
	return z ^ (z >> 31)
}
func (r *RNG) Intn(n int) int {
	if n <= 0 {
		return 0
	}
	return int(r.U64() % uint64(n))
}
func (r *RNG) Range(lo, hi int) int { return lo + r.Intn(hi-lo+1) } // inclusive
func (r *RNG) Bool() bool           { return r.U64()&1 == 1 }
func (r *RNG) Chance(pct int) bool  { return r.Intn(100) < pct }
func (r *RNG) Bytes(n int) []byte {
	b := make([]byte, n)
	for i := range b {
		b[i] = byte(r.U64())
	}
	return b
}
func (r *RNG) Fork() *RNG                { return NewRNG(r.U64()) }
func PickU64(r *RNG, xs []uint64) uint64 { return xs[r.Intn(len(xs))] }
func PickI64(r *RNG, xs []int64) int64   { return xs[r.Intn(len(xs))] }

// ---------------------------------------------------------------- Gallina literals

func Z(i int64) string {
	if i < 0 {
		return fmt.Sprintf("(%d)", i)
	}
	return fmt.Sprintf("%d", i)
}
func ZU(u uint64) string { return fmt.Sprintf("%d", u) }
func ZBig(b *big.Int) string {
	if b.Sign() < 0 {
		return "(" + b.String() + ")"
	}
	return b.String()
}
func Nat(i int) string { return fmt.Sprintf("%d%%nat", i) }
func Bool(b bool) string {
	if b {
		return "true"
	}
	return "false"
}

// Hex renders bytes as the model's (hb last [chunks]) literal: 7-byte big-endian chunks as primitive
// 63-bit integers (about 20x cheaper for Coq to parse than string or Z literals); see RunLib.v.
func Hex(b []byte) string {
	if len(b) == 0 {
		return "(hb 0 [])"
	}
	var sb strings.Builder
	last := len(b) % 7
	if last == 0 {
		last = 7
	}
	fmt.Fprintf(&sb, "(hb %d [", last)
	for i := 0; i < len(b); i += 7 {
		j := i + 7
		if j > len(b) {
			j = len(b)
		}
		if i > 0 {
			sb.WriteString("; ")
		}
		sb.WriteString("0x" + hex.EncodeToString(b[i:j]))
	}
	sb.WriteString("]%uint63)")
	return sb.String()
}

// HexStr renders bytes as the slower (hx "..") string literal (kept for readability in small files).
func HexStr(b []byte) string { return `(hx "` + hex.EncodeToString(b) + `")` }

// Str renders an arbitrary byte string as bytes too (Coq string escapes are avoided).
func List(xs []string) string   { return "[" + strings.Join(xs, "; ") + "]" }
func Pair(a, b string) string   { return "(" + a + ", " + b + ")" }
func Tuple(xs ...string) string { return "(" + strings.Join(xs, ", ") + ")" }
func Some(x string) string      { return "(Some " + x + ")" }
func OptZ(ok bool, v int64) string {
	if !ok {
		return "None"
	}
	return "(Some " + Z(v) + ")"
}
func ZList(xs []int64) string {
	s := make([]string, len(xs))
	for i, x := range xs {
		s[i] = Z(x)
	}
	return List(s)
}

// ---------------------------------------------------------------- results

// CasesFileInfo names one generated Gallina file and describes its cases (index = position in the file).
type CasesFileInfo struct {
	Path  string        `json:"path"`
	Cases []interface{} `json:"cases"`
}

// Failure is a property-oracle failure observed on the implementation alone.
type Failure struct {
	What   string      `json:"what"`
	Key    string      `json:"key"` // stable key, matched against known_findings.txt
	Replay interface{} `json:"replay"`
}

// Result is what a suite run hands back to ./check.
type Result struct {
	Suite              string                 `json:"suite"`
	Seed               uint64                 `json:"seed"`
	Tier               string                 `json:"tier"`
	Evaluations        int                    `json:"evaluations"`
	DistinctNontrivial int                    `json:"distinct_nontrivial"`
	Rule               string                 `json:"rule"`
	Samples            []interface{}          `json:"samples"`
	Distribution       map[string]int         `json:"distribution"`
	Required           []string               `json:"required_classes"` // classes that must be non-empty
	OracleFailures     []Failure              `json:"oracle_failures"`
	CasesFiles         []CasesFileInfo        `json:"cases_files"`
	Cases              []interface{}          `json:"-"` // descriptors registered since the last CasesFile call
	Discarded          int                    `json:"discarded"`
	Extra              map[string]interface{} `json:"extra,omitempty"`

	hashes map[string]bool
}

func NewResult(suite string, seed uint64, tier string) *Result {
	return &Result{Suite: suite, Seed: seed, Tier: tier, Distribution: map[string]int{}, hashes: map[string]bool{}, Extra: map[string]interface{}{}}
}
func (r *Result) Count(class string) { r.Distribution[class]++ }

// Case registers one evaluated case; nontrivial cases with a new canonical
// hash count towards distinct_nontrivial.
func (r *Result) Case(desc interface{}, canon string, nontrivial bool) int {
	r.Evaluations++
	idx := len(r.Cases)
	r.Cases = append(r.Cases, desc)
	if nontrivial {
		h := sha256.Sum256([]byte(canon))
		k := string(h[:8])
		if !r.hashes[k] {
			r.hashes[k] = true
			r.DistinctNontrivial++
		}
	}
	if len(r.Samples) < 3 {
		r.Samples = append(r.Samples, desc)
	}
	return idx
}
func (r *Result) Fail(what, key string, replay interface{}) {
	r.OracleFailures = append(r.OracleFailures, Failure{What: what, Key: key, Replay: replay})
}
func (r *Result) Write(outDir string) error {
	keys := make([]string, 0, len(r.Distribution))
	for k := range r.Distribution {
		keys = append(keys, k)
	}
	sort.Strings(keys)
	b, err := json.MarshalIndent(r, "", " ")
	if err != nil {
		return err
	}
	return os.WriteFile(filepath.Join(outDir, r.Suite+".json"), b, 0644)
}

// CasesFile writes a Gallina file: imports, a list named `cases`, and the
// evaluation of `mismatches cases` (defined by the Run module) printed as M.
func (r *Result) CasesFile(outDir, name, imports, ty string, items []string, runner string) error {
	var sb strings.Builder
	sb.WriteString("(* generated by the verification harness: observed behaviour of the implementation *)\n")
	sb.WriteString(imports + "\n")
	sb.WriteString("Import ListNotations.\nOpen Scope Z_scope.\n")
	sb.WriteString("Definition cases : list (" + ty + ") := [\n")
	sb.WriteString(strings.Join(items, ";\n"))
	sb.WriteString("\n].\n")
	sb.WriteString("Definition M := Eval vm_compute in (" + runner + " cases).\nPrint M.\n")
	p := filepath.Join(outDir, name+".v")
	r.CasesFiles = append(r.CasesFiles, CasesFileInfo{Path: p, Cases: r.Cases})
	r.Cases = nil
	return os.WriteFile(p, []byte(sb.String()), 0644)
}

// Shard / Shards identify this process when a suite runs as several worker processes.
var Shard, Shards = 0, 1

// RunSharded re-executes the current binary k times (worker i gets -shard i -shards k) and merges the results.
// A worker that dies (e.g. a goroutine of the code under test panicked) is recorded as an oracle failure.
func RunSharded(name string, seed uint64, tier, outDir string, k int) (*Result, error) {
	res := NewResult(name, seed, tier)
	type done struct {
		i   int
		out []byte
		err error
	}
	ch := make(chan done, k)
	for i := 0; i < k; i++ {
		go func(i int) {
			d := filepath.Join(outDir, fmt.Sprintf("shard-%d", i))
			os.MkdirAll(d, 0755)
			cmd := exec.Command(os.Args[0], "-out", d, "-seed", fmt.Sprint(seed), "-tier", tier, "-shard", fmt.Sprint(i), "-shards", fmt.Sprint(k), name)
			cmd.Dir = d
			out, err := cmd.CombinedOutput()
			ch <- done{i, out, err}
		}(i)
	}
	for n := 0; n < k; n++ {
		d := <-ch
		dir := filepath.Join(outDir, fmt.Sprintf("shard-%d", d.i))
		if d.err != nil {
			tail := string(d.out)
			if len(tail) > 3000 {
				tail = tail[len(tail)-3000:]
			}
			what := "worker process died"
			for _, line := range strings.Split(string(d.out), "\n") {
				if strings.HasPrefix(line, "panic:") || strings.HasPrefix(line, "fatal error:") {
					what = "worker process died: " + line
					break
				}
			}
			res.Fail(what, "process-died:"+name, map[string]interface{}{"shard": d.i, "shards": k, "output_tail": tail})
			continue
		}
		b, err := os.ReadFile(filepath.Join(dir, name+".json"))
		if err != nil {
			return nil, err
		}
		var part Result
		if err := json.Unmarshal(b, &part); err != nil {
			return nil, err
		}
		res.Evaluations += part.Evaluations
		res.DistinctNontrivial += part.DistinctNontrivial
		res.Discarded += part.Discarded
		for k2, v := range part.Distribution {
			res.Distribution[k2] += v
		}
		res.OracleFailures = append(res.OracleFailures, part.OracleFailures...)
		res.CasesFiles = append(res.CasesFiles, part.CasesFiles...)
		if len(res.Samples) < 3 {
			res.Samples = append(res.Samples, part.Samples...)
		}
		if res.Rule == "" {
			res.Rule = part.Rule
			res.Required = part.Required
		}
		for k2, v := range part.Extra {
			res.Extra[k2] = v
		}
	}
	return res, nil
}

// Suite is a registered harness suite.
type Suite func(seed uint64, tier string, outDir string) (*Result, error)

var Suites = map[string]Suite{}

func Register(name string, s Suite) { Suites[name] = s }
