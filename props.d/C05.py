# C05 -- see DESIGN.md section 5
PROP = {
    "props_v": "Props/C05.v",
    "extra_v": ["ServerRun.v"],
    "gen_bins": [],
    "gen_obligations": [],
    "suites": [("test", "crash"), ("test", "tornfiles")],
    "assumptions": [
        "process-crash model: the kernel keeps completed system calls; a single write(2) with O_APPEND and a rename(2) are atomic with respect to process death (torn writes and power loss are outside the property)",
        "the disk is modelled at record granularity; that key files are only ever replaced by rename and logs only ever appended by one write is re-checked on every run by a go/ast scan of the server's file-writing sites (harness/suites/writesites.go): an unexpected create/truncate-then-write site makes the suite synthesize the 'present but empty' images, and a persistence function that can put a record on disk in more than one write call (second Write, Write in a loop, handle handed to another function or goroutine) makes it synthesize 'record cut short' images",
        "signature scheme is a parameter (Section variable verify)",
    ],
}
TEXT = {
    "text": "Coq theorem over every reachable state, every operation and every crash image of that operation (disk before/after the operation's single durable step; for start-up any prefix of its re-appends and file creations): start-up on the image succeeds and recovers a state extensionally equal to the state before or after the operation, and a server recovered without a GCA key still accepts its registration. Built on C04's load_spec plus the lemma that a report log extended by reports it already contains is replay-neutral. Harness: persistence yield points copy the real directory at every create/append/rename (first start, registration, authorizations, reports, rotations, restarts); a real server is then started on every copy (hundreds per run), its snapshot must equal the view before or after the interrupted operation (Go-side oracle) and the model's load on the same image (vm_compute). Thorough tier adds SIGKILL of a child server at random instants. Added after seeded-change rounds: suite tornfiles (record files ending in stray bytes are refused at start-up), a static scan of the persistence functions for the single-write discipline with synthesized cut-record images when it is broken.",
    "note": "Trusted: Coq kernel+vm_compute, harness, kernel atomicity of append/rename (the property's own crash model). fsync/power-loss durability is outside the property.",
    "technique": "Coq proof (crash images reduce to C04's disk-memory agreement + replay-neutral tail) + crash-image materialisation against the real server + differential correspondence",
}
