(* Helpers shared by the *Run.v files, which evaluate the executable model on
   the histories the harness ran against the implementation. *)
From Coq Require Import ZArith List Bool String Ascii.
Import ListNotations.

Definition opt_eqb {A} (eqb : A -> A -> bool) (a b : option A) : bool :=
  match a, b with
  | Some x, Some y => eqb x y
  | None, None => true
  | _, _ => false
  end.

Fixpoint list_eqb {A} (eqb : A -> A -> bool) (a b : list A) : bool :=
  match a, b with
  | [], [] => true
  | x :: a', y :: b' => eqb x y && list_eqb eqb a' b'
  | _, _ => false
  end.

(* indices (from 0) of the cases the predicate rejects *)
Fixpoint bad_indices_from {A} (ok : A -> bool) (i : nat) (l : list A) : list nat :=
  match l with
  | [] => []
  | x :: l' => if ok x then bad_indices_from ok (S i) l' else i :: bad_indices_from ok (S i) l'
  end.
Definition bad_indices {A} (ok : A -> bool) (l : list A) : list nat := bad_indices_from ok 0 l.

(* ---- hex literals -> bytes ---------------------------------------------- *)
Definition hexval (c : ascii) : option N :=
  let n := N_of_ascii c in
  if (48 <=? n)%N && (n <=? 57)%N then Some (n - 48)%N
  else if (97 <=? n)%N && (n <=? 102)%N then Some (n - 87)%N
  else if (65 <=? n)%N && (n <=? 70)%N then Some (n - 55)%N
  else None.

Fixpoint hx_aux (s : string) : list Byte.byte :=
  match s with
  | String a (String b r) =>
      match hexval a, hexval b with
      | Some x, Some y =>
          match Byte.of_N (x * 16 + y) with Some c => c :: hx_aux r | None => [] end
      | _, _ => []
      end
  | _ => []
  end.
Definition hx (s : string) : list Byte.byte := hx_aux s.
