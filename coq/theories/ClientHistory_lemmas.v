(* Proofs about the history store model (ClientHistory.v). *)
From Coq Require Import ZArith List Bool Lia.
From GCA Require Import Wrap Bytes Bytes_lemmas ClientHistory.
Import ListNotations.
Open Scope Z_scope.

(* ---- Z-indexed list operations = the nat-indexed ones -------------------- *)
Lemma takez_firstn l : forall n, takez n l = firstn (Z.to_nat n) l.
Proof.
  induction l as [|x l IH]; intros n; cbn [takez].
  - rewrite firstn_nil. reflexivity.
  - destruct (n <=? 0) eqn:E.
    + apply Z.leb_le in E. replace (Z.to_nat n) with 0%nat by lia. reflexivity.
    + apply Z.leb_gt in E. replace (Z.to_nat n) with (S (Z.to_nat (n - 1))) by lia.
      cbn [firstn]. rewrite IH. reflexivity.
Qed.

Lemma skipz_skipn l : forall n, skipz n l = skipn (Z.to_nat n) l.
Proof.
  induction l as [|x l IH]; intros n; cbn [skipz].
  - rewrite skipn_nil. reflexivity.
  - destruct (n <=? 0) eqn:E.
    + apply Z.leb_le in E. replace (Z.to_nat n) with 0%nat by lia. reflexivity.
    + apply Z.leb_gt in E. replace (Z.to_nat n) with (S (Z.to_nat (n - 1))) by lia.
      cbn [skipn]. rewrite IH. reflexivity.
Qed.

Lemma lenz_nonneg l : 0 <= lenz l.
Proof. unfold lenz. lia. Qed.
Lemma lenz_app a b : lenz (a ++ b) = lenz a + lenz b.
Proof. unfold lenz. rewrite app_length. lia. Qed.
Lemma lenz_nil : lenz [] = 0.
Proof. reflexivity. Qed.
Lemma lenz_zero_nil l : lenz l = 0 -> l = [].
Proof. unfold lenz. destruct l; [reflexivity | cbn [length]; lia]. Qed.
Lemma lenz_zerosz n : lenz (zerosz n) = Z.max 0 n.
Proof. unfold lenz, zerosz. rewrite zeros_length. lia. Qed.
Lemma lenz_le_enc w z : lenz (le_enc w z) = Z.of_nat w.
Proof. unfold lenz. rewrite le_enc_length. reflexivity. Qed.

Lemma lenz_takez n l : lenz (takez n l) = Z.min (Z.max 0 n) (lenz l).
Proof. unfold lenz. rewrite takez_firstn, firstn_length. lia. Qed.
Lemma lenz_skipz n l : lenz (skipz n l) = Z.max 0 (lenz l - Z.max 0 n).
Proof. unfold lenz. rewrite skipz_skipn, skipn_length. lia. Qed.

Lemma takez_le0 n l : n <= 0 -> takez n l = [].
Proof. intros H. rewrite takez_firstn. replace (Z.to_nat n) with 0%nat by lia. reflexivity. Qed.
Lemma skipz_le0 n l : n <= 0 -> skipz n l = l.
Proof. intros H. rewrite skipz_skipn. replace (Z.to_nat n) with 0%nat by lia. reflexivity. Qed.
Lemma takez_all n l : lenz l <= n -> takez n l = l.
Proof. unfold lenz. intros H. rewrite takez_firstn. apply firstn_all2. lia. Qed.
Lemma skipz_all n l : lenz l <= n -> skipz n l = [].
Proof. unfold lenz. intros H. rewrite skipz_skipn. apply skipn_all2. lia. Qed.

Lemma takez_app n a b : takez n (a ++ b) = takez n a ++ takez (n - lenz a) b.
Proof.
  unfold lenz. rewrite !takez_firstn, firstn_app. f_equal. f_equal. lia.
Qed.
Lemma skipz_app n a b : 0 <= n -> skipz n (a ++ b) = skipz n a ++ skipz (n - lenz a) b.
Proof.
  unfold lenz. intros H. rewrite !skipz_skipn, skipn_app. f_equal. f_equal. lia.
Qed.
Lemma skipz_skipz a b l : 0 <= a -> 0 <= b -> skipz a (skipz b l) = skipz (a + b) l.
Proof.
  revert a b. induction l as [|x l IH]; intros a b Ha Hb.
  - cbn [skipz]. destruct a; reflexivity.
  - cbn [skipz]. destruct (b <=? 0) eqn:E.
    + apply Z.leb_le in E. replace (a + b) with a by lia. reflexivity.
    + apply Z.leb_gt in E. replace (a + b <=? 0) with false by (symmetry; apply Z.leb_gt; lia).
      rewrite IH by lia. f_equal. lia.
Qed.
Lemma takez_takez a b l : takez a (takez b l) = takez (Z.min a b) l.
Proof.
  rewrite !takez_firstn, firstn_firstn. f_equal. lia.
Qed.
Lemma skipz_takez a b l : 0 <= a -> skipz a (takez b l) = takez (b - a) (skipz a l).
Proof.
  intros Ha. rewrite !skipz_skipn, !takez_firstn, skipn_firstn_comm. f_equal. lia.
Qed.
Lemma takez_skipz_app l n : takez n l ++ skipz n l = l.
Proof. rewrite takez_firstn, skipz_skipn. apply firstn_skipn. Qed.

(* all-zero byte strings *)
Definition allz (l : bytes) : Prop := Forall (fun b => b = Byte.x00) l.
Lemma allz_zerosz n : allz (zerosz n).
Proof. unfold allz, zerosz, zeros. apply Forall_forall. intros b Hb. apply repeat_spec in Hb. exact Hb. Qed.
Lemma allz_takez l : forall n, allz l -> allz (takez n l).
Proof.
  induction l as [|x l IH]; intros n H; cbn [takez]; [constructor|].
  inversion H; subst. destruct (n <=? 0); [constructor|]. constructor; [reflexivity | apply IH; assumption].
Qed.
Lemma allz_skipz l : forall n, allz l -> allz (skipz n l).
Proof.
  induction l as [|x l IH]; intros n H; cbn [skipz]; [constructor|].
  destruct (n <=? 0); [exact H|]. inversion H; subst. apply IH; assumption.
Qed.
Lemma le_dec_allz l : allz l -> le_dec l = 0.
Proof.
  induction 1 as [|b l Hb _ IH]; [reflexivity|]. cbn [le_dec]. rewrite IH. subst b. reflexivity.
Qed.

(* ---- ReadAt / WriteAt ---------------------------------------------------- *)
Definition read_val (h : history) (off : Z) : Z :=
  match read_at4 h off with Some v => v | None => 0 end.

Lemma read_at4_range h off v : read_at4 h off = Some v -> is_u32 v.
Proof.
  unfold read_at4. destruct (off + 4 <=? lenz h); [|discriminate]. intros H. inversion H; subst.
  pose proof (le_dec_range (takez 4 (skipz off h))) as R.
  assert (L : (length (takez 4 (skipz off h)) <= 4)%nat).
  { rewrite takez_firstn, firstn_length. change (Z.to_nat 4) with 4%nat. lia. }
  unfold is_u32. split; [lia|].
  eapply Z.lt_le_trans; [apply R|].
  change (2 ^ 32) with (256 ^ 4). apply Z.pow_le_mono_r; lia.
Qed.

Lemma write_at_parts h off d : 0 <= off ->
  let a := takez off (h ++ zerosz (off - lenz h)) in
  write_at h off d = a ++ d ++ skipz (off + lenz d) h /\ lenz a = off.
Proof.
  intros H a. split; [reflexivity|]. unfold a. rewrite lenz_takez, lenz_app, lenz_zerosz. lia.
Qed.

Lemma lenz_write_at h off d : 0 <= off ->
  lenz (write_at h off d) = Z.max (lenz h) (off + lenz d).
Proof.
  intros H. destruct (write_at_parts h off d H) as [E L]. rewrite E.
  rewrite !lenz_app, L, lenz_skipz. pose proof (lenz_nonneg d). pose proof (lenz_nonneg h). lia.
Qed.

Lemma read_at4_mid a d b : lenz d = 4 -> read_at4 (a ++ d ++ b) (lenz a) = Some (le_dec d).
Proof.
  intros Hd. unfold read_at4. rewrite !lenz_app, Hd.
  pose proof (lenz_nonneg a). pose proof (lenz_nonneg b).
  replace (lenz a + 4 <=? lenz a + (4 + lenz b)) with true by (symmetry; apply Z.leb_le; lia).
  rewrite skipz_app by lia. rewrite (skipz_all (lenz a) a) by lia. rewrite Z.sub_diag.
  rewrite skipz_le0 by lia. cbn [app]. rewrite takez_app, Hd, Z.sub_diag.
  rewrite (takez_all 4 d) by lia. rewrite takez_le0 by lia. rewrite app_nil_r. reflexivity.
Qed.

Lemma read_own h off v : 0 <= off -> is_u32 v ->
  read_at4 (write_at h off (le_enc 4 v)) off = Some v.
Proof.
  intros Ho Hv. destruct (write_at_parts h off (le_enc 4 v) Ho) as [E L]. cbv zeta in E, L. rewrite E.
  pose proof (read_at4_mid (takez off (h ++ zerosz (off - lenz h))) (le_enc 4 v)
                (skipz (off + lenz (le_enc 4 v)) h) (lenz_le_enc 4 v)) as R.
  rewrite L in R. rewrite R.
  rewrite le_dec_enc_small; [reflexivity|]. unfold is_u32 in Hv. change (256 ^ Z.of_nat 4) with (2 ^ 32). exact Hv.
Qed.

(* a slot-aligned read elsewhere sees what it saw before (a slot beyond the old end read 0 and reads 0) *)
Lemma read_other h off off' d :
  0 <= off -> 0 <= off' -> lenz d = 4 -> lenz h mod 4 = 0 -> off' mod 4 = 0 ->
  off' + 4 <= off \/ off + 4 <= off' ->
  read_val (write_at h off d) off' = read_val h off'.
Proof.
  intros Ho Ho' Hd Hh Ha Hdis.
  destruct (write_at_parts h off d Ho) as [E L]. cbv zeta in E, L.
  set (a := takez off (h ++ zerosz (off - lenz h))) in *.
  pose proof (lenz_nonneg h) as Hh0.
  unfold read_val, read_at4. rewrite lenz_write_at by lia. rewrite Hd.
  destruct Hdis as [Hb | Haft].
  - (* before the written slot *)
    replace (off' + 4 <=? Z.max (lenz h) (off + 4)) with true by (symmetry; apply Z.leb_le; lia).
    rewrite E. rewrite skipz_app by lia.
    rewrite (skipz_le0 (off' - lenz a)) by lia.
    rewrite takez_app. rewrite lenz_skipz, L.
    rewrite (takez_le0 (4 - _)) by lia. rewrite app_nil_r.
    unfold a. rewrite skipz_takez by lia. rewrite takez_takez.
    replace (Z.min 4 (off - off')) with 4 by lia.
    rewrite skipz_app by lia. rewrite takez_app. rewrite lenz_skipz.
    destruct (off' + 4 <=? lenz h) eqn:C.
    + apply Z.leb_le in C. rewrite (takez_le0 (4 - _)) by lia. rewrite app_nil_r. reflexivity.
    + apply Z.leb_gt in C.
      assert (lenz h <= off') by (Zify.zify; Z.div_mod_to_equations; lia).
      rewrite (skipz_all off' h) by lia. cbn [app takez].
      apply le_dec_allz. apply allz_takez, allz_skipz, allz_zerosz.
  - (* after the written slot *)
    rewrite E.
    destruct (off' + 4 <=? lenz h) eqn:C.
    + apply Z.leb_le in C.
      replace (off' + 4 <=? Z.max (lenz h) (off + 4)) with true by (symmetry; apply Z.leb_le; lia).
      rewrite skipz_app by lia. rewrite (skipz_all off' a) by lia. cbn [app].
      rewrite skipz_app by lia. rewrite (skipz_all _ d) by lia. cbn [app].
      rewrite L, Hd. rewrite skipz_skipz by lia.
      replace (off' - off - 4 + (off + 4)) with off' by lia. reflexivity.
    + apply Z.leb_gt in C.
      replace (off' + 4 <=? Z.max (lenz h) (off + 4)) with false by (symmetry; apply Z.leb_gt; lia).
      reflexivity.
Qed.

(* ---- byte offsets -------------------------------------------------------- *)
Lemma byte_offset_exact o t : is_u32 o -> is_u32 t -> o <= t -> t - o < max_slots ->
  byte_offset o t = 4 * (1 + (t - o)).
Proof.
  unfold is_u32, max_slots, byte_offset, u32. intros Ho Ht Hle Hd.
  rewrite Zminus_mod_idemp_l.
  rewrite (Z.mod_small (1 + t - o)) by lia.
  rewrite Z.mod_small by lia. lia.
Qed.

Lemma slot_diff o t : is_u32 o -> is_u32 t -> o <= t -> u32 (t - o) = t - o.
Proof. unfold is_u32, u32. intros. apply Z.mod_small. lia. Qed.

(* the two guards of load/save, decided *)
Lemma guards o t : is_u32 o -> is_u32 t ->
  (t < o /\ (t <? o) = true) \/
  (o <= t /\ max_slots <= t - o /\ (t <? o) = false /\ (max_slots <=? u32 (t - o)) = true) \/
  (o <= t /\ t - o < max_slots /\ (t <? o) = false /\ (max_slots <=? u32 (t - o)) = false).
Proof.
  intros Ho Ht. destruct (Z.ltb_spec t o) as [L|L]; [left; split; [lia|reflexivity]|].
  right. rewrite (slot_diff o t Ho Ht L).
  destruct (Z.leb_spec max_slots (t - o)); [left | right]; repeat split; lia.
Qed.

Lemma load_in_range h o t : is_u32 o -> is_u32 t -> o <= t -> t - o < max_slots ->
  load_reading h o t = Ok (read_val h (4 * (1 + (t - o)))).
Proof.
  intros Ho Ht L D. unfold load_reading.
  destruct (guards o t Ho Ht) as [[? _]|[(_ & ? & _)|(_ & _ & -> & ->)]]; try lia.
  rewrite byte_offset_exact by assumption. unfold read_val.
  destruct (read_at4 h (4 * (1 + (t - o)))); reflexivity.
Qed.

Lemma load_range h o t x : load_reading h o t = Ok x -> is_u32 x.
Proof.
  unfold load_reading. destruct (t <? o); [intros H; inversion H; unfold is_u32; lia|].
  destruct (max_slots <=? u32 (t - o)); [discriminate|].
  destruct (read_at4 h (byte_offset o t)) eqn:R; intros H; inversion H; subst.
  - eapply read_at4_range; eauto.
  - unfold is_u32; lia.
Qed.

(* what a successful save did *)
Lemma save_cases h o t v h' : is_u32 o -> is_u32 t -> save_reading h o t v = Ok h' ->
  o <= t /\ t - o < max_slots /\
  ((load_reading h o t = Ok v /\ h' = h) \/
   (load_reading h o t = Ok 0 /\ v <> 0 /\ h' = write_at h (4 * (1 + (t - o))) (le_enc 4 v))).
Proof.
  intros Ho Ht. unfold save_reading.
  destruct (guards o t Ho Ht) as [[? ->]|[(_ & ? & -> & ->)|(L & D & -> & ->)]]; try discriminate.
  destruct (load_reading h o t) as [cur|] eqn:Lo; [|discriminate].
  destruct (cur =? v) eqn:E1.
  - apply Z.eqb_eq in E1. subst cur. intros H; inversion H; subst. repeat split; try assumption. left. split; reflexivity.
  - destruct (cur =? 0) eqn:E2; cbn [negb]; [|discriminate].
    apply Z.eqb_eq in E2. subst cur. apply Z.eqb_neq in E1.
    intros H; inversion H; subst. repeat split; try assumption. right.
    rewrite byte_offset_exact by assumption. split; [reflexivity | split; [lia | reflexivity]].
Qed.

Lemma read_after_write h o t v h' : is_u32 o -> is_u32 t -> is_u32 v ->
  save_reading h o t v = Ok h' -> load_reading h' o t = Ok v.
Proof.
  intros Ho Ht Hv S. destruct (save_cases h o t v h' Ho Ht S) as (L & D & [[Lo ->]|(Lo & Nz & ->)]); [exact Lo|].
  rewrite load_in_range by assumption. unfold read_val. rewrite read_own by (assumption || lia). reflexivity.
Qed.

Lemma no_overwrite h o t cur v : load_reading h o t = Ok cur -> cur <> 0 -> v <> cur ->
  save_reading h o t v = Err.
Proof.
  intros Lo Nz Ne. unfold save_reading.
  destruct (t <? o); [reflexivity|]. destruct (max_slots <=? u32 (t - o)); [reflexivity|].
  rewrite Lo. replace (cur =? v) with false by (symmetry; apply Z.eqb_neq; congruence).
  replace (cur =? 0) with false by (symmetry; apply Z.eqb_neq; congruence). reflexivity.
Qed.

Lemma refuse_before_origin h o t v : t < o ->
  save_reading h o t v = Err /\ load_reading h o t = Ok 0.
Proof.
  intros L. unfold save_reading, load_reading.
  replace (t <? o) with true by (symmetry; apply Z.ltb_lt; lia). split; reflexivity.
Qed.

Lemma refuse_beyond h o t v : is_u32 o -> is_u32 t -> o <= t -> max_slots <= t - o ->
  save_reading h o t v = Err /\ load_reading h o t = Err.
Proof.
  intros Ho Ht L D. unfold save_reading, load_reading.
  destruct (guards o t Ho Ht) as [[? _]|[(_ & _ & -> & ->)|(_ & ? & _)]]; try lia. split; reflexivity.
Qed.

Lemma wf_save h o t v h' : is_u32 o -> is_u32 t -> hist_wf h -> save_reading h o t v = Ok h' -> hist_wf h'.
Proof.
  intros Ho Ht [W1 W2] S. destruct (save_cases h o t v h' Ho Ht S) as (L & D & [[_ ->]|(_ & _ & ->)]); [split; assumption|].
  unfold hist_wf. rewrite lenz_write_at by lia. rewrite lenz_le_enc. change (Z.of_nat 4) with 4.
  split; [lia|]. destruct (Z.max_spec (lenz h) (4 * (1 + (t - o)) + 4)) as [[_ ->]|[_ ->]]; [|exact W2].
  replace (4 * (1 + (t - o)) + 4) with ((2 + (t - o)) * 4) by lia. apply Z.mod_mul. lia.
Qed.

Lemma frame h o t v h' t' : is_u32 o -> is_u32 t -> is_u32 t' -> hist_wf h ->
  save_reading h o t v = Ok h' -> t' <> t -> load_reading h' o t' = load_reading h o t'.
Proof.
  intros Ho Ht Ht' [W1 W2] S Ne.
  destruct (save_cases h o t v h' Ho Ht S) as (L & D & [[_ ->]|(_ & _ & ->)]); [reflexivity|].
  destruct (guards o t' Ho Ht') as [[? E]|[(_ & _ & E1 & E2)|(L' & D' & _ & _)]].
  - unfold load_reading. rewrite E. reflexivity.
  - unfold load_reading. rewrite E1, E2. reflexivity.
  - rewrite !load_in_range by assumption. f_equal.
    apply read_other; try lia.
    + apply lenz_le_enc.
    + replace (4 * (1 + (t' - o))) with ((1 + (t' - o)) * 4) by lia. apply Z.mod_mul. lia.
Qed.

(* a stored (non-zero) reading survives every later save *)
Lemma save_keeps_nonzero h o t c t0 v0 h' : is_u32 o -> is_u32 t -> is_u32 t0 -> hist_wf h ->
  load_reading h o t = Ok c -> c <> 0 -> save_reading h o t0 v0 = Ok h' -> load_reading h' o t = Ok c.
Proof.
  intros Ho Ht Ht0 W Lo Nz S.
  destruct (Z.eq_dec t t0) as [->|Ne].
  - destruct (save_cases h o t0 v0 h' Ho Ht0 S) as (_ & _ & [[_ ->]|(Lo0 & _ & _)]); [exact Lo|].
    rewrite Lo in Lo0. inversion Lo0. contradiction.
  - rewrite (frame h o t0 v0 h' t) by assumption. exact Lo.
Qed.

(* the header is never touched *)
Lemma save_header h o t v h' : is_u32 o -> is_u32 t -> 4 <= lenz h ->
  save_reading h o t v = Ok h' -> takez 4 h' = takez 4 h.
Proof.
  intros Ho Ht W S. destruct (save_cases h o t v h' Ho Ht S) as (L & D & [[_ ->]|(_ & _ & ->)]); [reflexivity|].
  unfold write_at. rewrite takez_app. rewrite takez_takez.
  replace (Z.min 4 (4 * (1 + (t - o)))) with 4 by lia.
  rewrite lenz_takez, lenz_app, lenz_zerosz.
  rewrite (takez_le0 (4 - _)) by lia. rewrite app_nil_r.
  rewrite takez_app. rewrite (takez_le0 (4 - lenz h)) by lia. apply app_nil_r.
Qed.

(* exact effect of a write: the bytes before (zero-filled gap), the four bytes, the bytes after *)
Lemma write_at_spec h off d : 0 <= off -> lenz d = 4 ->
  takez off (write_at h off d) = takez off (h ++ zerosz (off - lenz h)) /\
  takez 4 (skipz off (write_at h off d)) = d /\
  skipz (off + 4) (write_at h off d) = skipz (off + 4) h.
Proof.
  intros Ho Hd. destruct (write_at_parts h off d Ho) as [E L]. cbv zeta in E, L. rewrite E.
  set (a := takez off (h ++ zerosz (off - lenz h))) in *.
  pose proof (lenz_nonneg h). repeat split.
  - rewrite takez_app, L, Z.sub_diag. rewrite (takez_all off a) by lia. rewrite takez_le0 by lia. apply app_nil_r.
  - rewrite skipz_app by lia. rewrite (skipz_all off a) by lia. rewrite L, Z.sub_diag, skipz_le0 by lia. cbn [app].
    rewrite takez_app, Hd, Z.sub_diag. rewrite (takez_all 4 d) by lia. rewrite takez_le0 by lia. apply app_nil_r.
  - rewrite skipz_app by lia. rewrite (skipz_all (off + 4) a) by lia. cbn [app].
    rewrite skipz_app by lia. rewrite (skipz_all _ d) by lia. cbn [app].
    rewrite L, Hd. replace (off + 4 - off - 4) with 0 by lia. apply skipz_le0. lia.
Qed.

Lemma no_misplacement h o t v h' : is_u32 o -> is_u32 t -> save_reading h o t v = Ok h' ->
  h' = h \/
  (o <= t /\ t - o < max_slots /\ load_reading h o t = Ok 0 /\
   let off := 4 * (1 + (t - o)) in
   takez off h' = takez off (h ++ zerosz (off - lenz h)) /\
   takez 4 (skipz off h') = le_enc 4 v /\
   skipz (off + 4) h' = skipz (off + 4) h).
Proof.
  intros Ho Ht S. destruct (save_cases h o t v h' Ho Ht S) as (L & D & [[_ ->]|(Lo & _ & ->)]); [left; reflexivity|].
  right. repeat split; try assumption; apply write_at_spec; try lia; apply lenz_le_enc.
Qed.

(* ---- operation lists ----------------------------------------------------- *)
Definition hop_ok (p : hop) : Prop :=
  match p with HSave t v => is_u32 t /\ is_u32 v | HLoad t => is_u32 t end.

Lemma stored_forever o : is_u32 o -> forall ops h t c, Forall hop_ok ops -> is_u32 t -> hist_wf h ->
  load_reading h o t = Ok c -> c <> 0 ->
  load_reading (fst (hops_run o h ops)) o t = Ok c /\ hist_wf (fst (hops_run o h ops)).
Proof.
  intros Ho. induction ops as [|p ops IH]; intros h t c F Ht W Lo Nz; [split; assumption|].
  inversion F as [|? ? Hp F']; subst. cbn [hops_run].
  destruct (hop_step o h p) as [h1 r] eqn:E1.
  destruct (hops_run o h1 ops) as [h2 rs] eqn:E2. cbn [fst].
  assert (load_reading h1 o t = Ok c /\ hist_wf h1) as [Lo1 W1].
  { destruct p as [t0 v0|t0]; cbn [hop_step hop_ok] in *.
    - destruct Hp as [Ht0 Hv0]. destruct (save_reading h o t0 v0) as [hs|] eqn:S; inversion E1; subst.
      + split; [exact (save_keeps_nonzero h o t c t0 v0 h1 Ho Ht Ht0 W Lo Nz S) | exact (wf_save h o t0 v0 h1 Ho Ht0 W S)].
      + split; assumption.
    - destruct (load_reading h o t0); inversion E1; subst; split; assumption. }
  specialize (IH h1 t c F' Ht W1 Lo1 Nz). rewrite E2 in IH. exact IH.
Qed.

(* ---- why the range check is needed: the unchecked arithmetic wraps (K3) --- *)
Lemma offset_wrap_header :
  let h := le_enc 4 0 in
  exists h', save_reading_nocheck h 0 (2^30 - 1) 287454020 = Ok h' /\ hist_origin h' = Some 287454020 /\ hist_origin h = Some 0.
Proof. eexists. split; [vm_compute; reflexivity|]. split; reflexivity. Qed.

Lemma offset_wrap_slot0 :
  let h := le_enc 4 5 in
  exists h', save_reading_nocheck h 5 (5 + 2^30) 1432778632 = Ok h' /\ load_reading h' 5 5 = Ok 1432778632 /\ load_reading h 5 5 = Ok 0.
Proof. eexists. split; [vm_compute; reflexivity|]. split; vm_compute; reflexivity. Qed.

Lemma offset_wrap_refuted :
  (exists h h', save_reading_nocheck h 0 (2^30 - 1) 287454020 = Ok h' /\
                hist_origin h = Some 0 /\ hist_origin h' = Some 287454020) /\
  (exists h h', save_reading_nocheck h 5 (5 + 2^30) 1432778632 = Ok h' /\
                load_reading h 5 5 = Ok 0 /\ load_reading h' 5 5 = Ok 1432778632).
Proof.
  split.
  - exists (le_enc 4 0). eexists. split; [vm_compute; reflexivity|]. split; vm_compute; reflexivity.
  - exists (le_enc 4 5). eexists. split; [vm_compute; reflexivity|]. split; vm_compute; reflexivity.
Qed.
