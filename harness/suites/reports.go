//go:build test && verif

package suites

// Suite "reports" (C01, also serves C02/C12): datagrams of every class against a
// real server at boundary (clock, window offset) configurations.  After every
// datagram the implementation-only oracle checks the property text: the state
// (snapshot through the hook + report log on disk) changes ONLY IF the leading 80
// bytes decode to a report of an authorized, non-banned device, signed by that
// device's key over the documented signing bytes, within 432 slots of the clock,
// inside the stored window, with a power value other than 0 and 1.

import (
	"bytes"
	"encoding/binary"
	"encoding/hex"
	"encoding/json"
	"fmt"
	"github.com/ethereum/go-ethereum/crypto"
	"math/big"
	"os"
	"path/filepath"
	"strings"

	"github.com/glowlabs-org/gca-backend/glow"
	"github.com/glowlabs-org/gca-backend/server"
	"verifharness/core"
	"verifharness/srv"
)

func init() {
	core.Register("reports", func(seed uint64, tier, out string) (*core.Result, error) {
		return shardedServerSuite("reports", seed, tier, out, reportsWorker)
	})
}

// shardedServerSuite runs `worker` in core.Shards processes (the manual clock is process-global).
func shardedServerSuite(name string, seed uint64, tier, out string, worker func(*core.Result, *core.RNG, string, string) error) (*core.Result, error) {
	if core.Shards == 1 && os.Getenv("VERIF_NOSHARD") == "" {
		k := 8
		return core.RunSharded(name, seed, tier, out, k)
	}
	res := core.NewResult(name, seed, tier)
	rng := core.NewRNG(seed*1000003 + uint64(core.Shard)*7919 + 17)
	if err := worker(res, rng, tier, out); err != nil {
		return nil, err
	}
	return res, nil
}

// ---- reference encoders written from the documentation (independent of glow.SigningBytes)
func refReportSigningBytes(id, ts uint32, p uint64) []byte {
	b := []byte("EquipmentReport")
	var x [16]byte
	binary.LittleEndian.PutUint32(x[0:], id)
	binary.LittleEndian.PutUint32(x[4:], ts)
	binary.LittleEndian.PutUint64(x[8:], p)
	return append(b, x[:]...)
}
func refReportBytes(id, ts uint32, p uint64, sig glow.Signature) []byte {
	var x [80]byte
	binary.LittleEndian.PutUint32(x[0:], id)
	binary.LittleEndian.PutUint32(x[4:], ts)
	binary.LittleEndian.PutUint64(x[8:], p)
	copy(x[16:], sig[:])
	return x[:]
}

// refVerify is the harness' own signature check (go-ethereum directly: compressed key with the 0x02
// prefix, Keccak256, canonical low-s signatures only) -- independent of the repository's glow.Verify.
func refVerify(pub glow.PublicKey, msg []byte, sig glow.Signature) bool {
	k, err := crypto.DecompressPubkey(append([]byte{0x02}, pub[:]...))
	if err != nil {
		return false
	}
	return crypto.VerifySignature(crypto.FromECDSAPub(k), crypto.Keccak256(msg), sig[:])
}

// malleate returns the (r, n-s) twin of a signature: valid ECDSA mathematically, but not canonical.
func malleate(sig glow.Signature) glow.Signature {
	n := crypto.S256().Params().N
	s := new(big.Int).SetBytes(sig[32:])
	s.Sub(n, s)
	var out glow.Signature
	copy(out[:32], sig[:32])
	s.FillBytes(out[32:])
	return out
}

type device struct {
	ID     uint32
	K      srv.Key
	Cap    uint64
	Auth   glow.EquipmentAuthorization
	Banned bool
}

type actors struct {
	GCA     srv.Key
	Devices []*device
	Server  srv.Key
}

func (a *actors) mkAuth(w *srv.World, r *core.RNG, id uint32, k srv.Key, cap uint64, signer srv.Key) glow.EquipmentAuthorization {
	ea := glow.EquipmentAuthorization{ShortID: id, PublicKey: k.Pub, Latitude: float64(int(id)%90) + 0.125, Longitude: float64(int(id)%180) + 0.5,
		Capacity: cap, Debt: uint64(r.Intn(1000)), Expiration: 1 << 30, Initialization: uint32(r.Intn(100)), ProtocolFee: uint64(r.Intn(5000))}
	ea.Signature = w.Sign(ea.SigningBytes(), signer)
	return ea
}

// setupActors registers the GCA and authorizes n devices (through the wrappers).
func setupActors(w *srv.World, r *core.RNG, n int) (*actors, error) {
	a := &actors{GCA: srv.DetKey(r)}
	copy(a.Server.Pub[:], w.Fresh[0])
	copy(a.Server.Priv[:], w.Fresh[1])
	reg := server.GCARegistration{GCAKey: a.GCA.Pub}
	sig := w.Sign(reg.SigningBytes(), w.Temp)
	if ob := w.Register(a.GCA.Pub, sig, "setup"); !strings.Contains(ob, "Accepted") {
		return nil, fmt.Errorf("setup registration refused")
	}
	caps := []uint64{1000, 5000, 1 << 20, 0, 100, 1 << 62, (1<<64 - 1) / 135}
	for i := 0; i < n; i++ {
		d := &device{ID: uint32(10 + i*7 + r.Intn(5)), K: srv.DetKey(r), Cap: caps[r.Intn(len(caps))]}
		if i == 0 {
			d.Cap = 1000
		}
		d.Auth = a.mkAuth(w, r, d.ID, d.K, d.Cap, a.GCA)
		if ob := w.Authorize(d.Auth, "setup"); !strings.Contains(ob, "Accepted true") {
			return nil, fmt.Errorf("setup authorization refused: %s", ob)
		}
		a.Devices = append(a.Devices, d)
	}
	return a, nil
}

func (a *actors) report(w *srv.World, d *device, ts uint32, p uint64, signer srv.Key) []byte {
	sig := w.Sign(refReportSigningBytes(d.ID, ts, p), signer)
	return refReportBytes(d.ID, ts, p, sig)
}

// snapJSON serialises a snapshot canonically (maps with array keys are re-keyed by hex strings;
// encoding/json sorts map keys).  It panics rather than return an empty string.
func snapJSON(sn server.VerifSnap, withImpact bool) string {
	type flat struct {
		Offset, HistoryOffset uint32
		Equipment             map[uint32]glow.EquipmentAuthorization
		Index                 map[string]uint32
		Bans                  []uint32
		Reports               map[uint32][]server.VerifSlot
		Impact                map[uint32][]server.VerifRate
		History               []string
		GCAKey                string
		GCAAvailable          bool
		TempKey, PublicKey    string
	}
	f := flat{Offset: sn.Offset, HistoryOffset: sn.HistoryOffset, Equipment: sn.Equipment, Index: map[string]uint32{}, Bans: sn.Bans,
		Reports: sn.Reports, GCAKey: hex.EncodeToString(sn.GCAKey[:]), GCAAvailable: sn.GCAAvailable,
		TempKey: hex.EncodeToString(sn.TempKey[:]), PublicKey: hex.EncodeToString(sn.PublicKey[:])}
	for k, v := range sn.Index {
		f.Index[hex.EncodeToString(k[:])] = v
	}
	if withImpact {
		f.Impact = sn.Impact
	}
	for _, h := range sn.History {
		f.History = append(f.History, srv.CoqStats(h)+hex.EncodeToString(h.Signature[:]))
	}
	if f.Bans == nil {
		f.Bans = []uint32{}
	}
	j, err := json.Marshal(f)
	if err != nil {
		panic("snapJSON: " + err.Error())
	}
	return string(j)
}

// stateDigest is what "every observable" is compared on: the hook snapshot plus the report log.
func stateDigest(w *srv.World) string {
	sn := w.S.VerifSnapshot()
	j := snapJSON(sn, true)
	st, _ := os.Stat(filepath.Join(w.Dir, "equipment-reports.dat"))
	var sz int64 = -1
	if st != nil {
		sz = st.Size()
	}
	return fmt.Sprintf("%s|%d", j, sz)
}

// c01Allowed decides, from the property text alone, whether a datagram MAY change state.
func c01Allowed(w *srv.World, sn server.VerifSnap, d []byte, now uint32) (bool, string) {
	if len(d) < 80 {
		return false, "short"
	}
	b := d[:80]
	id := binary.LittleEndian.Uint32(b[0:4])
	ts := binary.LittleEndian.Uint32(b[4:8])
	p := binary.LittleEndian.Uint64(b[8:16])
	var sig glow.Signature
	copy(sig[:], b[16:80])
	ea, ok := sn.Equipment[id]
	if !ok {
		return false, "unknown-or-banned-device"
	}
	for _, bid := range sn.Bans {
		if bid == id {
			return false, "banned-device"
		}
	}
	if !refVerify(ea.PublicKey, refReportSigningBytes(id, ts, p), sig) {
		return false, "bad-signature"
	}
	if int64(ts) < int64(now)-432 || int64(ts) > int64(now)+432 {
		return false, "outside-acceptance"
	}
	if int64(ts) < int64(sn.Offset) || int64(ts) >= int64(sn.Offset)+4032 {
		return false, "outside-window"
	}
	if p == 0 || p == 1 {
		return false, "sentinel"
	}
	return true, "valid"
}

// deliver sends one datagram, evaluates the C01 oracle and classifies the case.
func deliver(res *core.Result, w *srv.World, d []byte, class string, udp bool) {
	snBefore := w.S.VerifSnapshot()
	before := stateDigest(w)
	allowed, why := c01Allowed(w, snBefore, d, w.Now)
	panicked := false
	if udp {
		if !w.DatagramUDP(d, class) {
			res.Count("udp.lost")
			w.Failed = "udp datagram lost"
			return
		}
	} else {
		panicked = w.Datagram(d, class)
	}
	after := stateDigest(w)
	changed := before != after
	res.Count("dgram." + class)
	if changed {
		res.Count("outcome.changed")
	} else {
		res.Count("outcome.unchanged:" + why)
	}
	if panicked {
		res.Fail("datagram makes the report handler panic (the UDP handler goroutine would kill the server)", "datagram-panic:"+why,
			map[string]interface{}{"history": w.Desc})
	}
	if changed && !allowed {
		res.Fail("a datagram that is not an authentic, authorized, in-window report changed the server state ("+why+")", "c01-changed:"+why,
			map[string]interface{}{"history": w.Desc})
	}
}

func flipBit(b []byte, bit int) []byte {
	c := append([]byte{}, b...)
	c[bit/8] ^= 1 << (uint(bit) % 8)
	return c
}

// boundaryTour: a scripted history that produces every required class.
func boundaryTour(res *core.Result, r *core.RNG) (*srv.World, error) {
	// offset 2016 after the start-up catch-up (clock 2016+4000 -> one rotation), then clock moved freely
	w, err := srv.NewWorld(r, "tour", 2016+3999)
	if err != nil {
		return nil, err
	}
	a, err := setupActors(w, r, 2)
	if err != nil {
		return w, err
	}
	d0, d1 := a.Devices[0], a.Devices[1]
	// a third device that gets banned by a conflicting authorization
	bd := &device{ID: 99, K: srv.DetKey(r), Cap: 1000}
	bd.Auth = a.mkAuth(w, r, bd.ID, bd.K, bd.Cap, a.GCA)
	w.Authorize(bd.Auth, "to-be-banned")
	conflict := a.mkAuth(w, r, bd.ID, bd.K, bd.Cap+1, a.GCA)
	w.Authorize(conflict, "conflict")
	w.SnapHop()
	off := uint32(2016)
	sn := w.S.VerifSnapshot()
	if sn.Offset != off {
		return w, fmt.Errorf("tour: unexpected offset %d", sn.Offset)
	}
	// acceptance boundaries around the clock
	w.SetNow(off + 1000)
	deliver(res, w, a.report(w, d0, w.Now+432, 500, d0.K), "now+432", false)
	deliver(res, w, a.report(w, d0, w.Now+433, 500, d0.K), "now+433", false)
	deliver(res, w, a.report(w, d0, w.Now-432, 500, d0.K), "now-432", false)
	deliver(res, w, a.report(w, d0, w.Now-433, 500, d0.K), "now-433", false)
	// power sentinels
	deliver(res, w, a.report(w, d0, w.Now, 0, d0.K), "power0", false)
	deliver(res, w, a.report(w, d0, w.Now, 1, d0.K), "power1", false)
	deliver(res, w, a.report(w, d0, w.Now, 2, d0.K), "power2", false)
	// lengths
	good := a.report(w, d1, w.Now+1, 77, d1.K)
	deliver(res, w, good[:79], "short79", false)
	deliver(res, w, []byte{}, "empty", false)
	deliver(res, w, append(append([]byte{}, good...), r.Bytes(40)...), "long-valid-prefix", false)
	// wrong signers
	deliver(res, w, a.report(w, d0, w.Now+2, 600, d1.K), "signed-by-other-device", false)
	deliver(res, w, a.report(w, d0, w.Now+2, 600, a.GCA), "signed-by-gca", false)
	deliver(res, w, a.report(w, d0, w.Now+2, 600, a.Server), "signed-by-server", false)
	deliver(res, w, a.report(w, d0, w.Now+2, 600, w.Temp), "signed-by-tempkey", false)
	// unknown and banned devices
	ghost := &device{ID: 4242, K: srv.DetKey(r)}
	deliver(res, w, a.report(w, ghost, w.Now, 600, ghost.K), "unknown-id", false)
	deliver(res, w, a.report(w, bd, w.Now, 600, bd.K), "banned-device", false)
	// bit flips and field swap of a valid, not yet delivered report
	v := a.report(w, d0, w.Now+3, 640, d0.K)
	for _, bit := range []int{0, 31, 32, 63, 64, 127, 128, 400, 639} {
		deliver(res, w, flipBit(v, bit), "bitflip", false)
	}
	sw := append([]byte{}, v...)
	copy(sw[0:4], v[4:8])
	copy(sw[4:8], v[0:4])
	deliver(res, w, sw, "field-swap", false)
	// the non-canonical (r, n-s) twin of a genuine signature: alone, and after the original
	var vs glow.Signature
	copy(vs[:], v[16:80])
	tw := malleate(vs)
	twin := append(append([]byte{}, v[:16]...), tw[:]...)
	deliver(res, w, twin, "malleated-twin", false)
	deliver(res, w, v, "valid", false)
	deliver(res, w, twin, "malleated-twin", false)
	deliver(res, w, v, "replay", false)
	// window start: clock near the window start
	w.SetNow(off + 100)
	deliver(res, w, a.report(w, d1, off-1, 700, d1.K), "window-start-1", false)
	deliver(res, w, a.report(w, d1, off, 700, d1.K), "window-start", false)
	// window end: rotation overdue (thread gated), clock at offset+3600 .. offset+4032
	w.SetNow(off + 3600)
	deliver(res, w, a.report(w, d1, off+4031, 700, d1.K), "window-end-1", false)
	deliver(res, w, a.report(w, d1, off+4032, 700, d1.K), "window-end", false)
	w.SetNow(off + 4032)
	deliver(res, w, a.report(w, d1, off+4033, 700, d1.K), "window-end+1", false)
	deliver(res, w, a.report(w, d1, off+4032+432, 700, d1.K), "beyond-window", false)
	// the int64-widened comparison at the low extreme of the clock is exercised in history "lowclock"
	w.SnapHop()
	// one datagram over the real socket
	w.SetNow(off + 3000)
	deliver(res, w, a.report(w, d0, w.Now, 800, d0.K), "udp-valid", true)
	deliver(res, w, r.Bytes(80), "udp-random80", true)
	deliver(res, w, r.Bytes(200), "udp-random200", true)
	// short datagrams over the real socket (the listener's buffer is zero-filled: a report whose
	// signature ends in a zero byte, cut to 79 bytes, would be completed by the buffer if the length
	// check were missing) and a long one (valid leading 80 bytes)
	for p := uint64(900); p < 900+20000; p++ {
		z := a.report(w, d1, w.Now-5, p, d1.K)
		if z[79] == 0 {
			deliver(res, w, z[:79], "udp-short79-zero-tail", true)
			if z[78] == 0 {
				deliver(res, w, z[:78], "udp-short78-zero-tail", true)
			}
			break
		}
	}
	sh := a.report(w, d1, w.Now-6, 820, d1.K)
	deliver(res, w, sh[:79], "udp-short79", true)
	deliver(res, w, sh[:1], "udp-short1", true)
	deliver(res, w, append(append([]byte{}, a.report(w, d1, w.Now-7, 830, d1.K)...), r.Bytes(33)...), "udp-long-valid-prefix", true)
	w.SnapHop()
	return w, nil
}

// lowClock: clock values 0..432 where now-432 is negative (the uint32 comparison would wrap).
func lowClock(res *core.Result, r *core.RNG) (*srv.World, error) {
	w, err := srv.NewWorld(r, "lowclock", 0)
	if err != nil {
		return nil, err
	}
	a, err := setupActors(w, r, 1)
	if err != nil {
		return w, err
	}
	d0 := a.Devices[0]
	for _, now := range []uint32{0, 1, 431, 432, 433} {
		w.SetNow(now)
		deliver(res, w, a.report(w, d0, 0, 300+uint64(now), d0.K), "lowclock-ts0", false)
		deliver(res, w, a.report(w, d0, now+432, 300, d0.K), "lowclock-now+432", false)
		deliver(res, w, a.report(w, d0, now+433, 300, d0.K), "lowclock-now+433", false)
		deliver(res, w, a.report(w, d0, 1<<32-1, 300, d0.K), "lowclock-ts-max", false)
	}
	w.SnapHop()
	return w, nil
}

// highClock: the clock in the last slots of the uint32 range (the window is placed there by a hook):
// the acceptance comparison must not wrap around at either end.
func highClock(res *core.Result, r *core.RNG) (*srv.World, error) {
	w, err := srv.NewWorld(r, "highclock", 0)
	if err != nil {
		return nil, err
	}
	a, err := setupActors(w, r, 1)
	if err != nil {
		return w, err
	}
	d0 := a.Devices[0]
	const off = uint32(4294963008) // a multiple of 2016; off+4032 = 2^32-256
	w.SetOffset(off)
	p := uint64(300)
	for _, now := range []uint32{1<<32 - 1, 1<<32 - 2, 1<<32 - 432, 1<<32 - 433, 1<<32 - 700, off + 3600} {
		w.SetNow(now)
		try := func(ts uint32) {
			p++
			dg := a.report(w, d0, ts, p, d0.K)
			snb := w.S.VerifSnapshot()
			allowed, _ := c01Allowed(w, snb, dg, w.Now)
			for _, sl := range snb.Reports[d0.ID] {
				if snb.Offset+uint32(sl.Index) == ts && sl.Report.PowerOutput == 1 {
					allowed = false // the slot is already banned: nothing more can change it
				}
			}
			before := stateDigest(w)
			deliver(res, w, dg, "highclock", false)
			// every report here carries a fresh power value, so an acceptable one always leaves a trace
			if allowed && before == stateDigest(w) {
				res.Fail(fmt.Sprintf("an acceptable report (timeslot %d, clock %d: within 432 slots and inside the window) was refused: the acceptance comparison is not the mathematical one at the end of the 32-bit range", ts, w.Now),
					"c20-acceptable-refused", map[string]interface{}{"history": w.Desc})
			}
		}
		for _, ts := range []uint32{now, now - 1, now - 432, now - 433, off + 4031, off + 4030, off, off + 2016} {
			try(ts)
		}
		if uint64(now)+432 < 1<<32 {
			try(now + 432)
		}
	}
	// clock and timeslot at OPPOSITE ends of the 32-bit range: their distance is about 2^32, not the small
	// number a wrapped (serial-number style) subtraction gives.  (a) window at the top, clock at the bottom
	for _, now := range []uint32{100, 0, 431} {
		w.SetNow(now)
		for _, ts := range []uint32{1<<32 - 300, 1<<32 - 257, off + 3000, now - 1, now - 432} {
			p++
			deliver(res, w, a.report(w, d0, ts, p, d0.K), "opposite-ends", false)
		}
	}
	// the rotation thread wakes while the clock is BEHIND the window start (clock stepped back, or a window
	// placed ahead): the distance is negative, not a huge unsigned number -- no rotation
	w.SetNow(100)
	offBefore := w.S.VerifSnapshot().Offset
	if w.RotateTick("clock-behind-window") {
		res.Count("rotate.clock-behind-window")
		if got := w.S.VerifSnapshot().Offset; got != offBefore {
			res.Fail(fmt.Sprintf("the rotation check rotated the window (offset %d -> %d) although the clock (%d) is behind the window start: the age was computed with wrap-around", offBefore, got, w.Now), "c20-rotation-wraps", map[string]interface{}{"history": w.Desc})
		}
	}
	// (b) window at the bottom, clock at the top
	w.SetOffset(0)
	for _, now := range []uint32{1<<32 - 100, 1<<32 - 1, 1<<32 - 432} {
		w.SetNow(now)
		for _, ts := range []uint32{50, 0, 331, now + 150, now + 432, 4031} {
			p++
			deliver(res, w, a.report(w, d0, ts, p, d0.K), "opposite-ends", false)
		}
	}
	w.SetNow(100) // no rotation may be due when the server shuts down
	w.SnapHop()
	return w, nil
}

// The rotation of the window does not depend on who is authorized: a server without any device (none yet,
// or the only one banned) rotates when its clock is more than the trigger past the window start, so that
// the first report of a device authorized later is inside the window.
func emptyServerRotation(res *core.Result, r *core.RNG) (*srv.World, error) {
	w, err := srv.NewWorld(r, "empty-rotation", 10)
	if err != nil {
		return nil, err
	}
	a, err := setupActors(w, r, 0)
	if err != nil {
		return w, err
	}
	tick := func(what string) {
		before := w.S.VerifSnapshot().Offset
		if !w.RotateTick(what) {
			return
		}
		res.Count("rotate.no-devices")
		should := int64(w.Now)-int64(before) > 3200
		if got := w.S.VerifSnapshot().Offset; (got != before) != should {
			res.Fail(fmt.Sprintf("rotation thread on a server with %s: clock %d, window start %d, rotated=%v although the rule (clock - start > 3200) says %v; a device authorized next reports for timeslot %d, which is outside the window [%d, %d)", what, w.Now, before, got != before, should, w.Now, got, got+4032),
				"c20-rotation-depends-on-devices", map[string]interface{}{"history": w.Desc})
		}
	}
	w.SetNow(3200)
	tick("no authorized device")
	w.SetNow(3201)
	tick("no authorized device")
	// one device, banned by a conflicting authorization: again nothing to report for
	d := &device{ID: 77, K: srv.DetKey(r), Cap: 1000}
	d.Auth = a.mkAuth(w, r, d.ID, d.K, d.Cap, a.GCA)
	w.Authorize(d.Auth, "new")
	c := a.mkAuth(w, r, d.ID, d.K, d.Cap+1, a.GCA)
	w.Authorize(c, "conflict")
	w.SetNow(2016 + 3201)
	tick("only a banned device")
	d2 := &device{ID: 78, K: srv.DetKey(r), Cap: 1000}
	d2.Auth = a.mkAuth(w, r, d2.ID, d2.K, d2.Cap, a.GCA)
	w.Authorize(d2.Auth, "new")
	a.Devices = append(a.Devices, d2)
	deliver(res, w, a.report(w, d2, w.Now, 5, d2.K), "after-empty-rotation", false)
	w.SnapHop()
	return w, nil
}

func randomHistory(res *core.Result, r *core.RNG, tier string) (*srv.World, error) {
	// clock/offset configuration
	k := r.Intn(3) // rotations at start-up
	deltas := []int{0, 1, 431, 432, 433, 1000, 2016, 3199, 3200, 3201, 3599, 3600, 3601, 3999}
	delta := deltas[r.Intn(len(deltas))]
	now0 := uint32(2016*k + delta)
	if k > 0 && delta < 1984 {
		now0 = uint32(2016*k + 1984 + r.Intn(2000)) // k catch-up rotations need now-2016(k-1) >= 4000
	}
	w, err := srv.NewWorld(r, "rnd", now0)
	if err != nil {
		return nil, err
	}
	a, err := setupActors(w, r, r.Range(1, 4))
	if err != nil {
		return w, err
	}
	sn := w.S.VerifSnapshot()
	off := sn.Offset
	n := r.Range(20, 60)
	var sent [][]byte
	for i := 0; i < n && w.Failed == ""; i++ {
		if r.Chance(15) {
			nd := []int{0, 1, 431, 432, 433, 2000, 3199, 3200, 3201, 3599, 3600, 3601, 4031, 4032, 4033, 4464, 8000}
			w.SetNow(off + uint32(nd[r.Intn(len(nd))]))
		}
		d := a.Devices[r.Intn(len(a.Devices))]
		if r.Chance(60) {
			// valid-shaped with boundary timeslots
			var ts uint32
			switch r.Intn(8) {
			case 0:
				ts = w.Now + 432
			case 1:
				ts = w.Now + 433
			case 2:
				ts = w.Now - 432
			case 3:
				ts = w.Now - 433
			case 4:
				ts = off + uint32([]int{0, 1, 4031, 4032, 4033}[r.Intn(5)])
			case 5:
				ts = off - 1
			default:
				ts = w.Now + uint32(r.Intn(865)) - 432
			}
			lim := d.Cap * 135 / 100
			ps := []uint64{0, 1, 2, 3, 24, 500, lim, lim + 1, 1<<63 - 2, 1<<63 - 1, 1 << 63, 1<<64 - 1, uint64(r.Intn(100000))}
			p := ps[r.Intn(len(ps))]
			dg := a.report(w, d, ts, p, d.K)
			sent = append(sent, dg)
			deliver(res, w, dg, "rnd-valid-shaped", r.Chance(3))
		} else {
			switch r.Intn(8) {
			case 0:
				deliver(res, w, r.Bytes(r.Intn(201)), "rnd-random-bytes", false)
			case 1:
				if len(sent) > 0 {
					deliver(res, w, flipBit(sent[r.Intn(len(sent))], r.Intn(640)), "rnd-bitflip", false)
				}
			case 2:
				if len(sent) > 0 {
					g := sent[r.Intn(len(sent))]
					if r.Chance(50) {
						var gs glow.Signature
						copy(gs[:], g[16:80])
						tw := malleate(gs)
						deliver(res, w, append(append([]byte{}, g[:16]...), tw[:]...), "rnd-malleated-twin", false)
					} else {
						deliver(res, w, g, "rnd-replay", false)
					}
				}
			case 3:
				o := a.Devices[r.Intn(len(a.Devices))]
				signer := []srv.Key{o.K, a.GCA, a.Server, w.Temp}[r.Intn(4)]
				deliver(res, w, a.report(w, d, w.Now+uint32(r.Intn(100)), 900, signer), "rnd-resigned", false)
			case 4:
				g := a.report(w, d, w.Now+uint32(r.Intn(50)), uint64(r.Intn(1000))+2, d.K)
				deliver(res, w, g[:r.Intn(80)], "rnd-truncated", false)
			case 5:
				g := a.report(w, d, w.Now+uint32(r.Intn(50)), uint64(r.Intn(1000))+2, d.K)
				sent = append(sent, g)
				deliver(res, w, append(g, r.Bytes(1+r.Intn(120))...), "rnd-extended", false)
			case 6:
				ghost := &device{ID: uint32(r.Intn(1 << 20)), K: d.K}
				deliver(res, w, a.report(w, ghost, w.Now, 700, d.K), "rnd-other-id", false)
			default:
				g := a.report(w, d, w.Now, uint64(r.Intn(1000))+2, d.K)
				sw := append([]byte{}, g...)
				copy(sw[0:4], g[4:8])
				copy(sw[4:8], g[0:4])
				deliver(res, w, sw, "rnd-field-swap", false)
			}
		}
		if i%16 == 15 {
			w.SnapHop()
		}
	}
	// sync bitfield and statistics are functions of the state: sample them
	for _, d := range a.Devices {
		w.Sync(d.ID, true)
	}
	w.Stats(off, false, true, "live-first-half")
	w.SnapHop()
	return w, nil
}

func finishWorld(res *core.Result, w *srv.World, items *[]string) {
	if w == nil {
		return
	}
	if w.Failed != "" {
		res.Discarded++
		w.Close()
		return
	}
	changed := false
	refused := false
	for _, h := range w.Hops {
		if strings.Contains(h, "ObsAccepted true") {
			changed = true
		}
		if strings.Contains(h, "ObsRefused") || strings.Contains(h, "OpDatagram") {
			refused = true
		}
	}
	term := w.CoqCase()
	res.Case(map[string]interface{}{"ops": w.Desc}, term, changed && refused)
	*items = append(*items, term)
	if p := w.Close(); p != "" {
		res.Fail("server consistency check (CheckInvariants) panics at shutdown: "+p, "checkinvariants-panic", map[string]interface{}{"history": w.Desc})
	}
}

const serverImports = "From Coq Require Import ZArith List String.\nFrom GCA Require Import Bytes Codec Server Archive RunLib ServerRun."

func writeServerCases(res *core.Result, out, name string, items []string) error {
	// shard into files of bounded size
	const maxBytes = 1 << 20
	var cur []string
	size, n := 0, 0
	var descs []interface{}
	all := res.Cases
	res.Cases = nil
	flush := func() error {
		if len(cur) == 0 {
			return nil
		}
		res.Cases = descs
		err := res.CasesFile(out, fmt.Sprintf("cases_%s_%d_%d", name, core.Shard, n), serverImports, "scase", cur, "server_mismatches")
		n++
		cur, descs, size = nil, nil, 0
		return err
	}
	for i, it := range items {
		cur = append(cur, it)
		if i < len(all) {
			descs = append(descs, all[i])
		}
		size += len(it)
		if size > maxBytes {
			if err := flush(); err != nil {
				return err
			}
		}
	}
	return flush()
}

func reportsWorker(res *core.Result, r *core.RNG, tier, out string) error {
	var items []string
	n := 14
	if tier == "thorough" {
		n = 150
	}
	if core.Shard == 0 {
		w, err := boundaryTour(res, r)
		if err != nil {
			if w != nil {
				w.Close()
			}
			return err
		}
		finishWorld(res, w, &items)
		w, err = lowClock(res, r)
		if err != nil {
			if w != nil {
				w.Close()
			}
			return err
		}
		finishWorld(res, w, &items)
		w, err = highClock(res, r)
		if err != nil {
			if w != nil {
				w.Close()
			}
			return err
		}
		finishWorld(res, w, &items)
		w, err = emptyServerRotation(res, r)
		if err != nil {
			if w != nil {
				w.Close()
			}
			return err
		}
		finishWorld(res, w, &items)
	}
	for i := 0; i < n; i++ {
		w, err := randomHistory(res, r.Fork(), tier)
		if err != nil {
			if w != nil {
				w.Close()
			}
			return err
		}
		finishWorld(res, w, &items)
	}
	res.Required = []string{"rotate.clock-behind-window", "rotate.no-devices", "dgram.opposite-ends", "dgram.udp-short79-zero-tail", "dgram.udp-short79", "dgram.udp-long-valid-prefix", "dgram.now+432", "dgram.now+433", "dgram.now-432", "dgram.now-433", "dgram.power0", "dgram.power1", "dgram.power2",
		"dgram.short79", "dgram.long-valid-prefix", "dgram.signed-by-other-device", "dgram.signed-by-gca", "dgram.signed-by-server", "dgram.unknown-id",
		"dgram.banned-device", "dgram.bitflip", "dgram.field-swap", "dgram.window-start-1", "dgram.window-start", "dgram.window-end-1", "dgram.window-end",
		"dgram.lowclock-ts0", "dgram.highclock", "dgram.malleated-twin", "outcome.changed"}
	res.Rule = "per history: clock/offset configuration from the boundary table, 1-4 authorized devices, 20-60 datagrams (60% valid-shaped at boundary timeslots/powers, 40% hostile: random bytes, bit flips, truncations, extensions, re-signings under every other key, field swaps), plus a scripted boundary tour; non-trivial = at least one state-changing operation and one ignored datagram; distinct by full history"
	_ = bytes.Equal
	return writeServerCases(res, out, "reports", items)
}
