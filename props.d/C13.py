# C13 -- see DESIGN.md section 5
PROP = {
    "props_v": "Props/C13.v",
    "extra_v": ["ServerRun.v"],
    "gen_bins": ["test"],
    "gen_obligations": ["c13_translation_complete@SkelServer", "c13_lock_discipline_check@SkelServer"],
    "suites": [("test", "sched")],
    "suites_thorough": [("race", "sched")],
    "assumptions": [
        "sync.Mutex, the Go scheduler and the Go memory model are not modelled: the theorems are over interleavings of critical sections (every section safe for arbitrary captured arguments) plus the all-paths lock discipline of the skeletons regenerated from the source; real data races are looked for with a -race build of the concurrent workload in the thorough tier (a test)",
        "the skeleton translator is AST-only; constructs it cannot classify are emitted as Unknown and rejected (fail closed); aliasing through copied-out interior pointers (the D4 pattern) is outside its view and is covered behaviourally by C03",
    ],
}
TEXT = {
    "text": "(a) Lock discipline on ALL control-flow paths: a go/ast translator turns every function of package server into a lock/IO skeleton on every run; a reflective checker with a soundness theorem proved once in Coq (induction over the path semantics, any branch choices, any number of loop iterations, panics after defers, goroutine spawns, interprocedural calls) establishes that no mutex is acquired while one is held, no unlock without lock, guarded fields are accessed only under their mutex, calls match the callee's contract, no blocking I/O under a lock, every function leaves with the lock state it was entered with. (b) Interleavings at critical-section boundaries: every critical section is an operation of the model and the invariant + no-Panic theorem holds for every operation list with ARBITRARY captured arguments (e.g. the impact job's device id captured before the device was banned), so every schedule of sections is covered; report deliveries commute (permutation theorem). Harness: every menu operation injected between the impact job's two sections and compared with the model; devices banned while their datagrams are in flight on the real socket; a many-goroutine mix judged against the order-independent report rule; -race build in the thorough tier. Added after seeded-change rounds: impact-table oracle for every operation injected between the job's critical sections, UDP bursts, sync replies checked as snapshots during 30 rotations with 16 clients, announcements (incl. simultaneous ones for one key, ban then re-announcement) against syncing devices with liveness probes, sixteen simultaneous registrations. Round 5: the concurrent workload runs on a server with an archived week, which is queried with and without insert_false_negatives and must be the same record afterwards.",
    "note": "Partial by nature (DESIGN section 9): data-race freedom in the sense of the Go memory model and real scheduler behaviour are not exhibited by a sequentially consistent model; trusted: Coq kernel+vm_compute, skeleton translator, harness, race detector.",
    "technique": "Coq proof by reflection (verified abstract interpreter over regenerated lock skeletons) + invariant over critical-section schedules + differential correspondence + concurrent stress / race detector",
}
