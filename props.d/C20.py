# C20 -- see DESIGN.md section 5
PROP = {
    "props_v": "Props/C20.v",
    "extra_v": ["TimeslotRun.v", "ServerRun.v"],
    "gen_bins": ["prod"],
    "gen_obligations": ["c20_genesis@ConstsProd", "c20_extraction_complete@ConstsProd", "c20_cadence_inequality@ConstsProd"],
    "suites": [("prod", "timeslot"), ("test", "reports")],
    "assumptions": [
        "rotation literals (3200/432/4032/2016) are read syntactically from the anchored function bodies; their behavioural effect is pinned by the C01/C03 suites",
        "schedule theorem assumes the rotation thread wakes at least every P slots and a triggered rotation finishes within D slots (D is a parameter; the theorem covers every D up to the computed slack)",
    ],
}
TEXT = {
    "text": "Coq theorems over all int64 unix times / uint32 slots (round trip, monotonicity, refusal before genesis, exact int64-widened comparison for every 32-bit pair) and a schedule invariant proved by induction over arbitrary event lists; the genesis date and the cadence inequality are re-proved on constants regenerated from a production-tag build and from go/ast literal extraction on every run; the executable model is compared with glow.UnixToTimeslot/TimeslotToUnix/CurrentTimeslot of a production-tag binary on boundary-stride and random inputs. Added after seeded-change rounds: the production rotation schedule simulated from the same constants (first clock value at which an acceptable report leaves the window = failing input), clock values up to 2^32-1 through hook VerifSetWindowOffset, clock and timeslot at opposite ends of the range, rotation check with the clock behind the window; named integer constants are resolved by the literal extractor. Round 5: the rotation thread on a server without any device, and with only a banned one, rotates by the same rule.",
    "note": "Trusted: Coq kernel + vm_compute, the constants translator, the harness. The rotation thread is modelled as a schedule automaton (wake-up period P, rotation duration D as parameters); wall-clock behaviour of time.Now is sandwiched, not proved.",
    "technique": "Coq proof (lia, induction over schedules) + regenerated constants + differential correspondence (vm_compute)",
}
