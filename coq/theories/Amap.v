(* Association maps with Z keys and with byte-string keys (stdlib only, so the
   model stays evaluable and extractable).  Absent = Go's zero value. *)
From Coq Require Import ZArith List Bool.
From GCA Require Import Bytes.
Import ListNotations.
Open Scope Z_scope.

Section ZMap.
  Context {V : Type}.
  Fixpoint zget (k : Z) (m : list (Z * V)) : option V :=
    match m with
    | [] => None
    | (k', v) :: m' => if k =? k' then Some v else zget k m'
    end.
  Fixpoint zdel (k : Z) (m : list (Z * V)) : list (Z * V) :=
    match m with
    | [] => []
    | (k', v) :: m' => if k =? k' then zdel k m' else (k', v) :: zdel k m'
    end.
  Definition zset (k : Z) (v : V) (m : list (Z * V)) : list (Z * V) := (k, v) :: zdel k m.
  Definition zmem (k : Z) (m : list (Z * V)) : bool :=
    match zget k m with Some _ => true | None => false end.
  Definition zkeys (m : list (Z * V)) : list Z := map fst m.
  (* insertion sort by key, for canonical comparison *)
  Fixpoint zins (p : Z * V) (l : list (Z * V)) : list (Z * V) :=
    match l with
    | [] => [p]
    | q :: l' => if fst p <=? fst q then p :: l else q :: zins p l'
    end.
  Definition zsort (m : list (Z * V)) : list (Z * V) := fold_right zins [] m.
End ZMap.

Section BMap.
  Context {V : Type}.
  Fixpoint bget (k : bytes) (m : list (bytes * V)) : option V :=
    match m with
    | [] => None
    | (k', v) :: m' => if bytes_eqb k k' then Some v else bget k m'
    end.
  Fixpoint bdel (k : bytes) (m : list (bytes * V)) : list (bytes * V) :=
    match m with
    | [] => []
    | (k', v) :: m' => if bytes_eqb k k' then bdel k m' else (k', v) :: bdel k m'
    end.
  Definition bset (k : bytes) (v : V) (m : list (bytes * V)) : list (bytes * V) := (k, v) :: bdel k m.
End BMap.

Definition zin (k : Z) (l : list Z) : bool := existsb (Z.eqb k) l.
