(* Evaluates the server model on the histories the harness ran against the real
   server and compares canonical projections. *)
From Coq Require Import ZArith List Bool.
From GCA Require Import Wrap Bytes Codec Amap Timeslot ClientHistory ClientReports ClientServer Server Archive RunLib.
Import ListNotations.
Open Scope Z_scope.
Notation length := List.length.

Definition sigtable := list (bytes * bytes * bytes).     (* key, message, signature *)
Definition tverify (t : sigtable) (k m s : bytes) : bool :=
  existsb (fun e => bytes_eqb k (fst (fst e)) && bytes_eqb m (snd (fst e)) && bytes_eqb s (snd e)) t.
Definition nosign (_ _ : bytes) : bytes := [].
Definition nosb (_ : list devstat) (_ : Z) : bytes := [].

(* lexicographic order on byte strings, for canonical device order *)
Fixpoint bytes_leb (a b : bytes) : bool :=
  match a, b with
  | [], _ => true
  | _ :: _, [] => false
  | x :: a', y :: b' => if b2z x <? b2z y then true else if b2z y <? b2z x then false else bytes_leb a' b'
  end.

(* canonical statistics record: (tso, devices sorted by key: key, power, impact) *)
Definition cdev := (bytes * list (Z * Z) * list (Z * Z))%type.
Definition cstats := (Z * list cdev)%type.
Fixpoint cdev_ins (p : cdev) (l : list cdev) : list cdev :=
  match l with
  | [] => [p]
  | q :: l' => if bytes_leb (fst (fst p)) (fst (fst q)) then p :: l else q :: cdev_ins p l'
  end.
Definition nz (l : list (Z * Z)) : list (Z * Z) := zsort (filter (fun p => negb (snd p =? 0)) l).
Definition canon_stats (s : stats) : cstats :=
  (st_tso s, fold_right cdev_ins [] (map (fun d => (ds_key d, nz (ds_power d), nz (ds_impact d))) (st_devs s))).

Definition zz_eqb (a b : Z * Z) : bool := (fst a =? fst b) && (snd a =? snd b).
Definition cdev_eqb (a b : cdev) : bool :=
  bytes_eqb (fst (fst a)) (fst (fst b)) && list_eqb zz_eqb (snd (fst a)) (snd (fst b)) &&
  list_eqb zz_eqb (snd a) (snd b).
Definition cstats_eqb (a b : cstats) : bool := (fst a =? fst b) && list_eqb cdev_eqb (snd a) (snd b).

Record snap := {
  s_offset : Z; s_avail : bool; s_gca : bytes;
  s_equipment : list (Z * auth);                 (* sorted by id *)
  s_index : list (bytes * Z);
  s_bans : list Z;                               (* sorted *)
  s_reports : list (Z * list (Z * report));      (* sorted by id, then index; non-blank slots *)
  s_impact : list (Z * list (Z * Z));            (* sorted; non-zero bit patterns *)
  s_history : list cstats;
  s_dauths : option (list auth); s_dreports : option (list report);
  s_dstats : option (list cstats); s_dgca : option bytes; s_dkeys : bool }.

Definition idauth_eqb (a b : Z * auth) : bool := (fst a =? fst b) && auth_eqb (snd a) (snd b).
Definition idxrep_eqb (a b : Z * report) : bool := (fst a =? fst b) && report_eqb (snd a) (snd b).
Definition win_eqb (a b : Z * list (Z * report)) : bool :=
  (fst a =? fst b) && list_eqb idxrep_eqb (snd a) (snd b).
Definition rate_eqb (a b : Z * list (Z * Z)) : bool :=
  (fst a =? fst b) && list_eqb zz_eqb (snd a) (snd b).
Fixpoint zins1 (x : Z) (l : list Z) : list Z :=
  match l with [] => [x] | y :: l' => if x <=? y then x :: l else y :: zins1 x l' end.

Definition snap_ok (st : state) (s : snap) : bool :=
  let m0 := mm st in let dk := dd st in
  (offset m0 =? s_offset s) && Bool.eqb (gca_avail m0) (s_avail s) && bytes_eqb (gca m0) (s_gca s) &&
  list_eqb idauth_eqb (zsort (equipment m0)) (s_equipment s) &&
  (Nat.eqb (length (index m0)) (length (s_index s)) &&
   forallb (fun p => opt_eqb Z.eqb (bget (fst p) (index m0)) (Some (snd p))) (s_index s)) &&
  list_eqb Z.eqb (fold_right zins1 [] (bans m0)) (s_bans s) &&
  list_eqb win_eqb (zsort (map (fun p => (fst p, zsort (snd p))) (reports m0))) (s_reports s) &&
  list_eqb rate_eqb (zsort (map (fun p => (fst p, nz (snd p))) (impact m0))) (s_impact s) &&
  list_eqb cstats_eqb (map canon_stats (history m0)) (s_history s) &&
  opt_eqb (list_eqb auth_eqb) (d_auths dk) (s_dauths s) &&
  opt_eqb (list_eqb report_eqb) (d_reports dk) (s_dreports s) &&
  opt_eqb (list_eqb cstats_eqb) (option_map (map canon_stats) (d_stats dk)) (s_dstats s) &&
  opt_eqb bytes_eqb (d_gca dk) (s_dgca s) &&
  Bool.eqb (match d_keys dk with Some _ => true | None => false end) (s_dkeys s).

(* observed outcome of one operation *)
Inductive obs :=
| ObsQuiet | ObsAccepted (isnew : bool) | ObsRefused | ObsStats (s : cstats) | ObsPanic
| ObsSync (v : option (bytes * Z * list Z))       (* query, no state change *)
| ObsRecent (v : option (list (Z * report)))
| ObsSnap (s : snap).                             (* full snapshot taken here *)

(* a disk image as found in a (copied) server directory, canonically rendered *)
Record cdisk := { c_keys : bool; c_gca : option bytes; c_auths : option (list auth);
                  c_reports : option (list report); c_stats : option (list cstats) }.

(* an archive as downloaded, canonically rendered *)
Record carchive := { ca_stats : option (list cstats); ca_reports : option (list report); ca_auths : option (list auth);
                     ca_gca : option bytes; ca_temp : option bytes; ca_pub : bytes }.

(* what start-up on a crash image was observed to do *)
Inductive lobs := LStarted (s : snap) | LRefused | LPanicked.

Inductive hop :=
| HOp (o : op) (ob : obs)
| HSync (id : Z) (ob : obs)
| HRecent (key : bytes) (ob : obs)
| HSnap (s : snap)
| HLoad (dk : cdisk) (now : Z) (ob : lobs)     (* start-up on a crash image; the running history is not affected *)
| HArchive (sched : list (list op * ftag)) (last : list op) (ob : carchive)
| HSetOffset (o : Z)                           (* test hook: the report window is moved (reaching the end of the uint32 range) *)
| HResend (id origin : Z) (hist : bytes) (latest : Z) (sigs : list (bytes * bytes)) (observed : list bytes).
                                               (* the datagrams a real client retransmitted in one sync round against this state *)
                                               (* archive request with write bursts in the gaps between the file reads *)

Definition uncanon_stats (c : cstats) : stats :=
  {| st_devs := map (fun d => {| ds_key := fst (fst d); ds_power := snd (fst d); ds_impact := snd d |}) (snd c);
     st_tso := fst c; st_sig := [] |}.

Definition disk_of (tk : bytes) (fresh : bytes * bytes) (c : cdisk) : disk :=
  {| d_keys := if c_keys c then Some fresh else None; d_temp := Some tk; d_gca := c_gca c;
     d_auths := c_auths c; d_reports := c_reports c; d_stats := option_map (map uncanon_stats) (c_stats c) |}.

(* the snapshot of a freshly started server on a copy: the keys file of the copy is compared
   only for presence, the report log may have grown by re-appended reports (compared exactly) *)
Definition load_matches (t : sigtable) (tk : bytes) (fresh : bytes * bytes) (c : cdisk) (now : Z) (ob : lobs) : bool :=
  match load (tverify t) (disk_of tk fresh c) fresh with
  | LOk st0 =>
      match catch_up nosign nosb (catchup_fuel now) st0 now, ob with
      | (st1, Quiet), LStarted s => snap_ok st1 s
      | _, _ => false
      end
  | LErr => match ob with LRefused => true | _ => false end
  | LPanic => match ob with LPanicked => true | _ => false end
  end.

Definition out_matches (o : out) (ob : obs) : bool :=
  match o, ob with
  | Quiet, ObsQuiet => true
  | Accepted a, ObsAccepted b => Bool.eqb a b
  | Refused, ObsRefused => true
  | StatsOut s, ObsStats c => cstats_eqb (canon_stats s) c
  | Panic, ObsPanic => true
  | _, _ => false
  end.

Definition sync_eqb (a b : bytes * Z * list Z) : bool :=
  bytes_eqb (fst (fst a)) (fst (fst b)) && (snd (fst a) =? snd (fst b)) &&
  list_eqb Z.eqb (fold_right zins1 [] (snd a)) (snd b).

(* runs a history; returns the index of the first disagreeing step, if any *)
Definition archive_matches (ar : archive) (ob : carchive) : bool :=
  opt_eqb (list_eqb cstats_eqb) (option_map (map canon_stats) (ar_stats ar)) (ca_stats ob) &&
  opt_eqb (list_eqb report_eqb) (ar_reports ar) (ca_reports ob) &&
  opt_eqb (list_eqb auth_eqb) (ar_auths ar) (ca_auths ob) &&
  opt_eqb bytes_eqb (ar_gca ar) (ca_gca ob) && opt_eqb bytes_eqb (ar_temp ar) (ca_temp ob) &&
  bytes_eqb (ar_pub ar) (ca_pub ob).

(* the device's signatures as observed (message -> signature) *)
Definition sig_lookup (tab : list (bytes * bytes)) (m : bytes) : bytes :=
  match find (fun e => bytes_eqb (fst e) m) tab with Some e => snd e | None => [] end.

Definition resend_matches (st : state) (id origin : Z) (h : bytes) (latest : Z) (sigs : list (bytes * bytes)) (observed : list bytes) : bool :=
  match sync_view st id with
  | Some (_, off, bits) =>
      list_eqb bytes_eqb (map (datagram (sig_lookup sigs) id) (resend_emissions origin h off latest bits)) observed
  | None => match observed with [] => true | _ => false end
  end.

Fixpoint run_hist (t : sigtable) (tk : bytes) (fresh : bytes * bytes) (st : state) (h : list hop) (i : nat) : option nat :=
  match h with
  | [] => None
  | HArchive sched last ob :: h' =>
      let '(st1, ar) := archive_run (tverify t) nosign nosb st empty_archive sched in
      let ar' := finish_archive (tverify t) nosign nosb st1 ar last in
      if archive_matches ar' ob then run_hist t tk fresh (run (tverify t) nosign nosb st1 last) h' (S i) else Some i
  | HSetOffset o :: h' =>
      let m0 := mm st in
      run_hist t tk fresh {| mm := {| equipment := equipment m0; index := index m0; bans := bans m0; reports := reports m0;
                                      impact := impact m0; offset := o; history := history m0; gca := gca m0;
                                      gca_avail := gca_avail m0; tempkey := tempkey m0; skeys := skeys m0 |}; dd := dd st |} h' (S i)
  | HResend id origin hist latest sigs observed :: h' =>
      if resend_matches st id origin hist latest sigs observed then run_hist t tk fresh st h' (S i) else Some i
  | HLoad c now ob :: h' => if load_matches t tk fresh c now ob then run_hist t tk fresh st h' (S i) else Some i
  | HOp o ob :: h' =>
      let '(st', out) := step (tverify t) nosign nosb st o in
      if out_matches out ob then run_hist t tk fresh st' h' (S i) else Some i
  | HSync id ob :: h' =>
      match ob with
      | ObsSync v => if opt_eqb sync_eqb (sync_view st id) v then run_hist t tk fresh st h' (S i) else Some i
      | _ => Some i
      end
  | HRecent k ob :: h' =>
      match ob with
      | ObsRecent v => if opt_eqb (list_eqb idxrep_eqb) (option_map zsort (recent_view st k)) v
                       then run_hist t tk fresh st h' (S i) else Some i
      | _ => Some i
      end
  | HSnap s :: h' => if snap_ok st s then run_hist t tk fresh st h' (S i) else Some i
  end.

(* a case: signature table, temp key, first-start (fresh keys, clock), history *)
Definition scase := (sigtable * bytes * (bytes * bytes) * Z * list hop)%type.

Definition scase_result (c : scase) : option nat :=
  let '(t, tk, fresh, now0, h) := c in
  match load (tverify t) (fresh_disk tk) fresh with
  | LOk st0 =>
      match catch_up nosign nosb (catchup_fuel now0) st0 now0 with
      | (st1, Quiet) => run_hist t tk fresh st1 h 0
      | _ => Some 0%nat
      end
  | _ => Some 0%nat
  end.

Definition scase_ok (c : scase) : bool := match scase_result c with None => true | Some _ => false end.
Definition server_mismatches := bad_indices scase_ok.
(* for diagnosis: the first failing step of each case *)
Definition server_first_bad (l : list scase) : list (option nat) := map scase_result l.
