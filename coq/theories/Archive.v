(* C14: the archive endpoint reads the public files one after another without any lock while
   writers keep appending.  Model: between two file reads an arbitrary list of operations runs. *)
From Coq Require Import ZArith List Bool String.
From GCA Require Import Wrap Bytes Codec Amap Timeslot Server ServerInv ServerDisk.
Import ListNotations.
Open Scope Z_scope.
Notation length := List.length.

Inductive ftag := FStats | FReports | FAuths | FGca | FTemp.

Definition ftag_of (name : string) : option ftag :=
  if String.eqb name "allDeviceStats.dat" then Some FStats
  else if String.eqb name "equipment-reports.dat" then Some FReports
  else if String.eqb name "equipment-authorizations.dat" then Some FAuths
  else if String.eqb name "gcaPubKey.dat" then Some FGca
  else if String.eqb name "gcaTempPubKey.dat" then Some FTemp
  else None.

Record archive := {
  ar_stats : option (list stats); ar_reports : option (list report); ar_auths : option (list auth);
  ar_gca : option bytes; ar_temp : option bytes; ar_pub : bytes }.

Definition empty_archive : archive :=
  {| ar_stats := None; ar_reports := None; ar_auths := None; ar_gca := None; ar_temp := None; ar_pub := [] |}.

Definition read_file (ar : archive) (t : ftag) (dk : disk) : archive :=
  match t with
  | FStats => {| ar_stats := d_stats dk; ar_reports := ar_reports ar; ar_auths := ar_auths ar; ar_gca := ar_gca ar; ar_temp := ar_temp ar; ar_pub := ar_pub ar |}
  | FReports => {| ar_stats := ar_stats ar; ar_reports := d_reports dk; ar_auths := ar_auths ar; ar_gca := ar_gca ar; ar_temp := ar_temp ar; ar_pub := ar_pub ar |}
  | FAuths => {| ar_stats := ar_stats ar; ar_reports := ar_reports ar; ar_auths := d_auths dk; ar_gca := ar_gca ar; ar_temp := ar_temp ar; ar_pub := ar_pub ar |}
  | FGca => {| ar_stats := ar_stats ar; ar_reports := ar_reports ar; ar_auths := ar_auths ar; ar_gca := d_gca dk; ar_temp := ar_temp ar; ar_pub := ar_pub ar |}
  | FTemp => {| ar_stats := ar_stats ar; ar_reports := ar_reports ar; ar_auths := ar_auths ar; ar_gca := ar_gca ar; ar_temp := d_temp dk; ar_pub := ar_pub ar |}
  end.

(* the first authorization logged for an id: the one under which the device reported *)
Fixpoint first_auth (id : Z) (al : list auth) : option auth :=
  match al with
  | [] => None
  | a :: al' => if a_id a =? id then Some a else first_auth id al'
  end.

(* position of a tag in the read order *)
Fixpoint pos_of (t : ftag) (order : list ftag) : option nat :=
  match order with
  | [] => None
  | x :: r => if match x, t with FStats, FStats | FReports, FReports | FAuths, FAuths | FGca, FGca | FTemp, FTemp => true | _, _ => false end
              then Some O else option_map S (pos_of t r)
  end.
Definition before (a b : ftag) (order : list ftag) : bool :=
  match pos_of a order, pos_of b order with
  | Some i, Some j => Nat.ltb i j
  | _, _ => false
  end.
(* reverse dependency order: reports before authorizations before the GCA key *)
Definition order_ok (order : list ftag) : bool := before FReports FAuths order && before FAuths FGca order.

Section Archive.
  Variable verify : bytes -> bytes -> bytes -> bool.
  Variable sign : bytes -> bytes -> bytes.
  Variable stats_sb : list devstat -> Z -> bytes.

  (* run of the handler: for each file of [order], first an arbitrary burst of operations, then the read;
     finally the public half of server.keys *)
  Fixpoint archive_run (st : state) (ar : archive) (sched : list (list op * ftag)) : state * archive :=
    match sched with
    | [] => (st, ar)
    | (ops, t) :: rest =>
        let st' := run verify sign stats_sb st ops in
        archive_run st' (read_file ar t (dd st')) rest
    end.

  Definition finish_archive (st : state) (ar : archive) (ops : list op) : archive :=
    let st' := run verify sign stats_sb st ops in
    {| ar_stats := ar_stats ar; ar_reports := ar_reports ar; ar_auths := ar_auths ar; ar_gca := ar_gca ar;
       ar_temp := ar_temp ar; ar_pub := match d_keys (dd st') with Some k => firstn 32 (fst k) | None => [] end |}.

  (* dependency closure of an archive *)
  Definition archive_closed (ar : archive) : Prop :=
    (forall rl al r, ar_reports ar = Some rl -> ar_auths ar = Some al -> In r rl ->
       exists a, first_auth (r_id r) al = Some a /\ verify (a_key a) (report_signing_bytes r) (r_sig r) = true) /\
    (forall al a, ar_auths ar = Some al -> In a al ->
       exists g, ar_gca ar = Some g /\ verify g (auth_signing_bytes a) (a_sig a) = true) /\
    (forall hl s, ar_stats ar = Some hl -> In s hl ->
       verify (ar_pub ar) (stats_sb (st_devs s) (st_tso s)) (st_sig s) = true).

  (* the extra invariant the closure needs *)
  Record ArchInv (st : state) : Prop := {
    a_live : forall al id a, d_auths (dd st) = Some al -> zget id (equipment (mm st)) = Some a -> first_auth id al = Some a;
    a_ids : forall al a, d_auths (dd st) = Some al -> In a al ->
              zmem (a_id a) (equipment (mm st)) = true \/ zin (a_id a) (bans (mm st)) = true;
    a_first : forall al rl r, d_auths (dd st) = Some al -> d_reports (dd st) = Some rl -> In r rl ->
              exists a, first_auth (r_id r) al = Some a /\ verify (a_key a) (report_signing_bytes r) (r_sig r) = true;
    a_signed : forall s, In s (history (mm st)) -> st_sig s = sign (stats_sb (st_devs s) (st_tso s)) (snd (skeys (mm st)));
    a_publen : length (fst (skeys (mm st))) = 32%nat
  }.
End Archive.
