(* Model of glow/rate_limiter.go (RateLimiter.Allow).  Definitions only; proofs
   are in RateLimiter_lemmas.v.

   Allow runs under the limiter's mutex and reads time.Now() there, so the calls
   of any number of goroutines are a sequence with non-decreasing instants; a
   call is identified with the instant it reads ([Z], any unit). *)
From Coq Require Import ZArith List Bool.
Import ListNotations.
Open Scope Z_scope.

Record rl_cfg := { r_limit : Z; r_rate : Z }.

(* for i, t := range r.reqs { if t.After(exp) { idx = i; break } }
   idx == -1: r.reqs[:0]    else: r.reqs[idx:]          -- no index can be out of range *)
Fixpoint drop_expired (exp : Z) (reqs : list Z) : list Z :=
  match reqs with
  | [] => []
  | t :: r => if exp <? t then reqs else drop_expired exp r
  end.

Definition rl_len (l : list Z) : Z := Z.of_nat (length l).

(* if len(r.reqs) < r.limit { r.reqs = append(r.reqs, now); return true }; return false *)
Definition allow (c : rl_cfg) (reqs : list Z) (now : Z) : list Z * bool :=
  let kept := drop_expired (now - r_rate c) reqs in
  if rl_len kept <? r_limit c then (kept ++ [now], true) else (kept, false).

(* state of a run: the limiter's list, and (ghost) every granted instant so far, in order *)
Definition rl_state := (list Z * list Z)%type.
Definition rl_step (c : rl_cfg) (s : rl_state) (now : Z) : rl_state :=
  let '(q, b) := allow c (fst s) now in (q, if b then snd s ++ [now] else snd s).
Definition rl_run (c : rl_cfg) (nows : list Z) : rl_state := fold_left (rl_step c) nows ([], []).

(* the answers, for the comparison with the implementation *)
Fixpoint rl_answers (c : rl_cfg) (reqs : list Z) (nows : list Z) : list bool :=
  match nows with
  | [] => []
  | t :: r => let '(q, b) := allow c reqs t in b :: rl_answers c q r
  end.

Fixpoint nondecr_from (t : Z) (nows : list Z) : Prop :=
  match nows with
  | [] => True
  | x :: r => t <= x /\ nondecr_from x r
  end.
Definition nondecr (nows : list Z) : Prop :=
  match nows with [] => True | x :: r => nondecr_from x r end.

(* granted instants inside the half-open window [w, w + rate) *)
Definition in_window (c : rl_cfg) (w a : Z) : bool := (w <=? a) && (a <? w + r_rate c).
(* granted instants within (now - rate, now] (none is later than now) *)
Definition recent (c : rl_cfg) (now a : Z) : bool := now - r_rate c <? a.
