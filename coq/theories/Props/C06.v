(* C06 -- Equipment changes need the GCA's signature; a conflict bans exactly one id.
   Statements only; proofs in ServerAuth_lemmas.v and (consistency check) ServerCheckInv_lemmas.v. *)
From Coq Require Import ZArith List Bool.
From GCA Require Import Wrap Bytes Codec Amap Timeslot Server ServerInv ServerDisk ServerReach_lemmas ServerAuth_lemmas ServerFull_lemmas ServerCheckInv_lemmas.
Import ListNotations.
Open Scope Z_scope.

Section C06.
  Variable verify : bytes -> bytes -> bytes -> bool.
  Variable sign : bytes -> bytes -> bytes.
  Variable stats_sb : list devstat -> Z -> bytes.

  Theorem c06_needs_signature st a :
    fst (authorize verify st a) <> st ->
    gca_avail (mm st) = true /\ verify (gca (mm st)) (auth_signing_bytes a) (a_sig a) = true.
  Proof. exact (needs_signature verify st a). Qed.

  Theorem c06_duplicate_noop st a cur :
    zin (a_id a) (bans (mm st)) = false ->
    zget (a_id a) (equipment (mm st)) = Some cur -> auth_go_eq cur a = true ->
    fst (authorize verify st a) = st.
  Proof. exact (duplicate_noop verify st a cur). Qed.

  Theorem c06_conflict_bans_one st a cur :
    gca_avail (mm st) = true -> verify (gca (mm st)) (auth_signing_bytes a) (a_sig a) = true ->
    zin (a_id a) (bans (mm st)) = false -> d_auths (dd st) <> None ->
    zget (a_id a) (equipment (mm st)) = Some cur -> auth_go_eq cur a = false ->
    let st' := fst (authorize verify st a) in
    let id := a_id a in
    snd (authorize verify st a) = Refused /\
    zin id (bans (mm st')) = true /\
    zget id (equipment (mm st')) = None /\ zget id (reports (mm st')) = None /\ zget id (impact (mm st')) = None /\
    (forall k, bget k (index (mm st')) <> Some id \/ bget k (index (mm st)) <> Some id \/ True) /\
    (forall i, i <> id -> zget i (equipment (mm st')) = zget i (equipment (mm st)) /\
                          zget i (reports (mm st')) = zget i (reports (mm st)) /\
                          zget i (impact (mm st')) = zget i (impact (mm st)) /\
                          zin i (bans (mm st')) = zin i (bans (mm st))) /\
    (forall k i, i <> id -> bget k (index (mm st)) = Some i -> bget k (index (mm st')) = Some i) /\
    history (mm st') = history (mm st) /\ offset (mm st') = offset (mm st) /\
    gca (mm st') = gca (mm st) /\ d_reports (dd st') = d_reports (dd st) /\ d_stats (dd st') = d_stats (dd st).
  Proof. exact (conflict_bans_one verify st a cur). Qed.

  (* permanent: also after restart *)
  Theorem c06_ban_permanent ops st id : Inv verify st -> Forall op_ok ops ->
    zin id (bans (mm st)) = true -> zin id (bans (mm (Server.run verify sign stats_sb st ops))) = true.
  Proof. exact (ban_permanent_full verify sign stats_sb ops st id). Qed.

  Theorem c06_banned_bounces st id a now d r :
    MemInv (mm st) -> zin id (bans (mm st)) = true ->
    (a_id a = id -> snd (authorize verify st a) = Refused /\ fst (authorize verify st a) = st) /\
    (report_decode (firstn 80 d) = Some r -> r_id r = id -> fst (udp_receive verify st now d) = st).
  Proof. exact (banned_bounces verify st id a now d r). Qed.

  (* "... and the server's own consistency check keeps passing": along every history
     (restarts included) in which no authorization accepted as a NEW device carries a key
     that the index maps to another id ([keys_ok]; without it: c06_key_reuse_refuted, K4) *)
  Theorem c06_check_ok_passes st : CheckOK st -> MemInv (mm st) -> check_invariants st = true.
  Proof. exact (check_ok_passes st). Qed.

  Theorem c06_consistency_check_passes ops st :
    Inv verify st -> CheckOK st -> Forall op_ok ops -> keys_ok verify sign stats_sb st ops ->
    CheckOK (Server.run verify sign stats_sb st ops) /\
    check_invariants (Server.run verify sign stats_sb st ops) = true.
  Proof. exact (consistency_check_passes verify sign stats_sb ops st). Qed.

  Theorem c06_consistency_check_always ops st n :
    Inv verify st -> CheckOK st -> Forall op_ok ops -> keys_ok verify sign stats_sb st ops ->
    check_invariants (Server.run verify sign stats_sb st (firstn n ops)) = true.
  Proof. exact (consistency_check_always verify sign stats_sb ops st n). Qed.

  Theorem c06_consistency_check_first_start tk fresh now st0 ops :
    clock_ok now -> load verify (fresh_disk tk) fresh = LOk st0 ->
    let s := fst (catch_up sign stats_sb (catchup_fuel now) st0 now) in
    Forall op_ok ops -> keys_ok verify sign stats_sb s ops ->
    CheckOK (Server.run verify sign stats_sb s ops) /\
    check_invariants (Server.run verify sign stats_sb s ops) = true.
  Proof. exact (consistency_check_first_start verify sign stats_sb tk fresh now st0 ops). Qed.
End C06.

(* K4 (known finding): with every signature valid, a first start followed by a registration
   and two ACCEPTED authorizations for different ids with the same key keeps the full
   invariant but fails the consistency check *)
Theorem c06_key_reuse_refuted :
  exists tk fresh now st0 ops,
    clock_ok now /\ load vtrue (fresh_disk tk) fresh = LOk st0 /\
    let s := fst (catch_up csign csb (catchup_fuel now) st0 now) in
    Forall op_ok ops /\
    outs vtrue csign csb s ops = [Accepted true; Accepted true; Accepted true] /\
    Inv vtrue (Server.run vtrue csign csb s ops) /\
    ~ keys_ok vtrue csign csb s ops /\
    check_invariants (Server.run vtrue csign csb s ops) = false.
Proof. exact key_reuse_refuted. Qed.
