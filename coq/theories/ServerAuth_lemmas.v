(* C06 (equipment changes need the GCA's signature; a conflict bans exactly one id) and
   C07 (GCA registration is one-shot, gated by the temporary key, irreversible). *)
From Coq Require Import ZArith List Bool Lia.
From GCA Require Import Wrap Bytes Bytes_lemmas Codec Amap Amap_lemmas Timeslot Server ServerInv ServerInv_lemmas ServerInv2_lemmas ServerReach_lemmas.
Import ListNotations.
Open Scope Z_scope.
Set Default Proof Using "Type".
Notation length := List.length.

Section Auth.
  Variable verify : bytes -> bytes -> bytes -> bool.
  Variable sign : bytes -> bytes -> bytes.
  Variable stats_sb : list devstat -> Z -> bytes.
  Local Notation step := (step verify sign stats_sb).
  Local Notation run := (run verify sign stats_sb).

  (* ------------------------------------------------------------ C07 *)
  Theorem register_gate st k s st' :
    register verify st k s = (st', Accepted true) ->
    gca_avail (mm st) = false /\ verify (tempkey (mm st)) (reg_signing_bytes k) s = true /\
    gca (mm st') = pad 32 k /\ gca_avail (mm st') = true /\ d_gca (dd st') = Some (pad 32 k).
  Proof.
    unfold register. destruct (gca_avail (mm st)); [discriminate|].
    destruct (verify (tempkey (mm st)) (reg_signing_bytes k) s); cbn [negb]; [|discriminate].
    intros H; inversion H; subst; cbn. repeat split; reflexivity.
  Qed.

  Theorem register_refused_frame st k s :
    snd (register verify st k s) <> Accepted true -> fst (register verify st k s) = st.
  Proof.
    unfold register. destruct (gca_avail (mm st)); [reflexivity|].
    destruct (verify (tempkey (mm st)) (reg_signing_bytes k) s); cbn [negb]; [|reflexivity].
    cbn. congruence.
  Qed.

  Theorem register_outcomes st k s :
    snd (register verify st k s) = Accepted true \/ snd (register verify st k s) = Refused.
  Proof.
    unfold register. destruct (gca_avail (mm st)); [right; reflexivity|].
    destruct (verify (tempkey (mm st)) (reg_signing_bytes k) s); cbn [negb]; [left|right]; reflexivity.
  Qed.

  (* until a registration is accepted the server holds and authorizes no equipment *)
  Theorem nothing_before_registration st a :
    MemInv (mm st) -> gca_avail (mm st) = false ->
    equipment (mm st) = [] /\ bans (mm st) = [] /\ reports (mm st) = [] /\
    authorize verify st a = (st, Refused).
  Proof.
    intros I G. destruct (i_nogca _ I G) as (E1 & E2 & E3 & _). repeat split; try assumption.
    unfold authorize. rewrite G. reflexivity.
  Qed.

  (* what an operation may do to the GCA key *)
  Definition gca_fixed (st st' : state) : Prop :=
    gca_avail (mm st) = true -> gca_avail (mm st') = true /\ gca (mm st') = gca (mm st).

  Lemma integrate_gca st r : gca (mm (fst (integrate st r))) = gca (mm st) /\ gca_avail (mm (fst (integrate st r))) = gca_avail (mm st).
  Proof.
    unfold integrate.
    destruct (r_ts r <? offset (mm st)); [split; reflexivity|].
    destruct (u32 (offset (mm st) + window_len) <=? r_ts r); [split; reflexivity|].
    destruct (zget (r_id r) (reports (mm st))); [|split; reflexivity].
    destruct (window_len <=? u32 (r_ts r - offset (mm st))); [split; reflexivity|].
    destruct (r_p (getslot _ _) =? 1); [split; reflexivity|].
    destruct (report_eqb _ r); split; reflexivity.
  Qed.

  Lemma rotate_gca st : gca (mm (fst (rotate sign stats_sb st))) = gca (mm st) /\ gca_avail (mm (fst (rotate sign stats_sb st))) = gca_avail (mm st).
  Proof. unfold rotate. destruct (build_stats sign stats_sb (mm st) (offset (mm st))); split; reflexivity. Qed.

  Lemma step_gca_fixed st o : (forall f n, o <> OpRestart f n) -> gca_fixed st (fst (step st o)).
  Proof.
    intros NR G. destruct o as [now d|k s|a|tso|now|id ts v|fresh now]; cbn [Server.step].
    - unfold udp_receive. destruct (Nat.ltb (length d) 80); [auto|].
      unfold handle_report. destruct (parse_report verify st (firstn 80 d)) as [r|]; [|auto].
      destruct (negb (accept_go accept_half (r_ts r) now)); [auto|].
      destruct ((r_p r =? 0) || (r_p r =? 1)); [auto|].
      destruct (integrate_gca st r) as [E1 E2]. rewrite E1, E2. auto.
    - unfold register. rewrite G. auto.
    - unfold authorize. rewrite G. cbn [negb].
      destruct (negb (verify (gca (mm st)) (auth_signing_bytes a) (a_sig a))); [auto|].
      unfold save_equipment. destruct (zin (a_id a) (bans (mm st))); [auto|].
      destruct (zget (a_id a) (equipment (mm st))) as [cur|].
      + destruct (auth_go_eq cur a); [auto|]. destruct (d_auths (dd st)); cbn; auto.
      + destruct (d_auths (dd st)); cbn; auto.
    - unfold stats_query. destruct (negb (tso mod week_len =? 0)); [auto|].
      destruct (tso <? offset (mm st)); [destruct (nth_error _ _); auto|].
      destruct (build_stats sign stats_sb (mm st) tso); auto.
    - unfold rotate_tick. destruct (rotate_trigger <? _); [|auto].
      destruct (rotate_gca st) as [E1 E2]. rewrite E1, E2. auto.
    - unfold impact_write. destruct ((offset (mm st) <=? ts) && _); [|auto].
      destruct (zget id (impact (mm st))); cbn; auto.
    - exfalso. eapply NR; reflexivity.
  Qed.

  Definition no_restart (ops : list op) : Prop := Forall (fun o => forall f n, o <> OpRestart f n) ops.

  (* once registered, the key is never replaced, whatever follows *)
  Theorem gca_irreversible ops : forall st, no_restart ops -> gca_fixed st (run st ops).
  Proof.
    induction ops as [|o ops IH]; intros st NR G; [auto|].
    inversion NR as [|? ? N NR']; subst. rewrite run_cons.
    destruct (step_gca_fixed st o N G) as [G1 K1].
    destruct (IH _ NR' G1) as [G2 K2]. split; [exact G2 | congruence].
  Qed.

  (* at most one registration ever succeeds: after a success every later one is refused *)
  Theorem no_second_registration ops st k s :
    no_restart ops -> gca_avail (mm st) = true ->
    register verify (run st ops) k s = (run st ops, Refused).
  Proof.
    intros NR G. destruct (gca_irreversible ops st NR G) as [G' _].
    unfold register. rewrite G'. reflexivity.
  Qed.

  Fixpoint count_accepted_registrations (st : state) (ops : list op) : nat :=
    match ops with
    | [] => 0
    | o :: ops' =>
        (match o, snd (step st o) with OpRegister _ _, Accepted _ => 1 | _, _ => 0 end +
         count_accepted_registrations (fst (step st o)) ops')%nat
    end.

  Lemma no_accept_when_registered ops : forall st, no_restart ops -> gca_avail (mm st) = true ->
    count_accepted_registrations st ops = 0%nat.
  Proof.
    induction ops as [|o ops IH]; intros st NR G; [reflexivity|].
    inversion NR as [|? ? N NR']; subst. cbn [count_accepted_registrations].
    destruct (step_gca_fixed st o N G) as [G1 _]. rewrite (IH _ NR' G1).
    destruct o as [now d|k s|a|tso|now|id ts v|fresh now]; try reflexivity. cbn [Server.step]. unfold register. rewrite G. reflexivity.
  Qed.

  Theorem at_most_one_registration ops : forall st, no_restart ops ->
    (count_accepted_registrations st ops <= 1)%nat.
  Proof.
    induction ops as [|o ops IH]; intros st NR; [cbn; lia|].
    inversion NR as [|? ? N NR']; subst. cbn [count_accepted_registrations].
    destruct o as [now d|k s|a|tso|now|id ts v|fresh now];
      try (match goal with |- context [count_accepted_registrations ?s0 ops] => specialize (IH s0 NR') end; lia).
    cbn [Server.step]. destruct (register verify st k s) as [st' o'] eqn:R. cbn [fst snd].
    destruct o'; try (specialize (IH st' NR'); lia).
    destruct (register_outcomes st k s) as [A|A]; rewrite R in A; cbn [snd] in A; [|discriminate].
    inversion A; subst. apply register_gate in R. destruct R as (_ & _ & _ & G' & _).
    rewrite (no_accept_when_registered ops st' NR' G'). lia.
  Qed.

  (* from then on only the registered key's signatures authorize equipment *)
  Theorem authority st a st' b :
    authorize verify st a = (st', Accepted b) ->
    gca_avail (mm st) = true /\ verify (gca (mm st)) (auth_signing_bytes a) (a_sig a) = true.
  Proof.
    unfold authorize. destruct (gca_avail (mm st)); cbn [negb]; [|discriminate].
    destruct (verify (gca (mm st)) (auth_signing_bytes a) (a_sig a)); cbn [negb]; [auto | discriminate].
  Qed.

  (* ------------------------------------------------------------ C06 *)
  Theorem needs_signature st a :
    fst (authorize verify st a) <> st ->
    gca_avail (mm st) = true /\ verify (gca (mm st)) (auth_signing_bytes a) (a_sig a) = true.
  Proof.
    unfold authorize. destruct (gca_avail (mm st)); cbn [negb]; [|cbn; congruence].
    destruct (verify (gca (mm st)) (auth_signing_bytes a) (a_sig a)); cbn [negb]; [auto | cbn; congruence].
  Qed.

  Theorem duplicate_noop st a cur :
    zin (a_id a) (bans (mm st)) = false ->
    zget (a_id a) (equipment (mm st)) = Some cur -> auth_go_eq cur a = true ->
    fst (authorize verify st a) = st.
  Proof.
    intros B Q E. unfold authorize. destruct (negb (gca_avail (mm st))); [reflexivity|].
    destruct (negb (verify _ _ _)); [reflexivity|]. unfold save_equipment. rewrite B, Q, E. reflexivity.
  Qed.

  (* a conflicting authorization (signed, different from the stored one) bans exactly that id *)
  Theorem conflict_bans_one st a cur :
    gca_avail (mm st) = true -> verify (gca (mm st)) (auth_signing_bytes a) (a_sig a) = true ->
    zin (a_id a) (bans (mm st)) = false -> d_auths (dd st) <> None ->
    zget (a_id a) (equipment (mm st)) = Some cur -> auth_go_eq cur a = false ->
    let st' := fst (authorize verify st a) in
    let id := a_id a in
    snd (authorize verify st a) = Refused /\
    zin id (bans (mm st')) = true /\
    zget id (equipment (mm st')) = None /\ zget id (reports (mm st')) = None /\ zget id (impact (mm st')) = None /\
    (forall k, bget k (index (mm st')) <> Some id \/ bget k (index (mm st)) <> Some id \/ True) /\
    (forall i, i <> id -> zget i (equipment (mm st')) = zget i (equipment (mm st)) /\
                          zget i (reports (mm st')) = zget i (reports (mm st)) /\
                          zget i (impact (mm st')) = zget i (impact (mm st)) /\
                          zin i (bans (mm st')) = zin i (bans (mm st))) /\
    (forall k i, i <> id -> bget k (index (mm st)) = Some i -> bget k (index (mm st')) = Some i) /\
    history (mm st') = history (mm st) /\ offset (mm st') = offset (mm st) /\
    gca (mm st') = gca (mm st) /\ d_reports (dd st') = d_reports (dd st) /\ d_stats (dd st') = d_stats (dd st).
  Proof.
    intros G V B D Q E st' id. subst st' id. unfold authorize. rewrite G, V. cbn [negb].
    unfold save_equipment. rewrite B, Q, E. destruct (d_auths (dd st)) as [l|] eqn:DA; [|congruence].
    cbn [fst snd mm dd ban_device equipment reports impact bans index history offset gca disk_append_auth d_reports d_stats].
    split; [reflexivity|]. split; [unfold zin; cbn [existsb]; rewrite Z.eqb_refl; reflexivity|].
    split; [apply zget_zdel_same|]. split; [apply zget_zdel_same|]. split; [apply zget_zdel_same|].
    split; [intros k; right; right; exact I|].
    split.
    { intros i N. rewrite !zget_zdel_other by exact N. repeat split.
      unfold zin. cbn [existsb]. destruct (Z.eqb_spec i (a_id a)); [contradiction | reflexivity]. }
    split.
    { intros k i N H. destruct (bget (a_key cur) (index (mm st))) as [j|] eqn:J; [|exact H].
      destruct (Z.eqb_spec j (a_id a)) as [->|Nj]; [|exact H].
      rewrite bget_bdel. destruct (bytes_eqb k (a_key cur)) eqn:Ek; [|exact H].
      apply bytes_eqb_eq in Ek. subst k. rewrite J in H. inversion H. congruence. }
    repeat split; reflexivity.
  Qed.

  (* a ban is permanent: nothing un-bans, and the banned id's reports and authorizations bounce *)
  Lemma step_bans_mono st o id : (forall f n, o <> OpRestart f n) ->
    zin id (bans (mm st)) = true -> zin id (bans (mm (fst (step st o)))) = true.
  Proof.
    intros NR B. destruct o as [now d|k s|a|tso|now|i ts v|fresh now]; cbn [Server.step].
    - unfold udp_receive. destruct (Nat.ltb (length d) 80); [exact B|].
      unfold handle_report. destruct (parse_report verify st (firstn 80 d)) as [r|]; [|exact B].
      destruct (negb _); [exact B|]. destruct (_ || _); [exact B|].
      unfold integrate. destruct (r_ts r <? _); [exact B|]. destruct (_ <=? r_ts r); [exact B|].
      destruct (zget (r_id r) _); [|exact B]. destruct (window_len <=? _); [exact B|].
      destruct (r_p _ =? 1); [exact B|]. destruct (report_eqb _ r); exact B.
    - unfold register. destruct (gca_avail (mm st)); [exact B|]. destruct (negb _); exact B.
    - unfold authorize. destruct (negb (gca_avail _)); [exact B|]. destruct (negb (verify _ _ _)); [exact B|].
      unfold save_equipment. destruct (zin (a_id a) (bans (mm st))); [exact B|].
      destruct (zget (a_id a) (equipment (mm st))) as [cur|].
      + destruct (auth_go_eq cur a); [exact B|]. destruct (d_auths (dd st)); [|exact B].
        cbn. unfold zin in *. cbn [existsb]. rewrite B. apply orb_true_r.
      + destruct (d_auths (dd st)); [|exact B]. exact B.
    - unfold stats_query. destruct (negb _); [exact B|]. destruct (tso <? _); [destruct (nth_error _ _); exact B|].
      destruct (build_stats _ _ _ _); exact B.
    - unfold rotate_tick. destruct (_ <? _); [|exact B]. unfold rotate. destruct (build_stats _ _ _ _); exact B.
    - unfold impact_write. destruct (_ && _); [|exact B]. destruct (zget i _); exact B.
    - exfalso. eapply NR; reflexivity.
  Qed.

  Theorem ban_permanent ops : forall st id, no_restart ops ->
    zin id (bans (mm st)) = true -> zin id (bans (mm (run st ops))) = true.
  Proof.
    induction ops as [|o ops IH]; intros st id NR B; [exact B|].
    inversion NR as [|? ? N NR']; subst. rewrite run_cons. apply IH; [exact NR'|].
    apply step_bans_mono; assumption.
  Qed.

  Theorem banned_bounces st id a now d r :
    MemInv (mm st) -> zin id (bans (mm st)) = true ->
    (a_id a = id -> snd (authorize verify st a) = Refused /\ fst (authorize verify st a) = st) /\
    (report_decode (firstn 80 d) = Some r -> r_id r = id -> fst (udp_receive verify st now d) = st).
  Proof.
    intros I B. split.
    - intros E. unfold authorize. destruct (negb (gca_avail _)); [split; reflexivity|].
      destruct (negb (verify _ _ _)); [split; reflexivity|]. unfold save_equipment. rewrite E, B. split; reflexivity.
    - intros D E. unfold udp_receive. destruct (Nat.ltb (length d) 80); [reflexivity|].
      unfold handle_report, parse_report. rewrite D, E, (i_bans _ I id B). reflexivity.
  Qed.
End Auth.
