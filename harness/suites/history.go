package suites

// C09 (store half): client/history.go staticSaveReading / staticLoadReading
// through the verif wrappers, against ClientHistory.v.
//
// A case is: an initial history file (arbitrary bytes), a list of save / load
// operations, the result of every operation and the final file bytes.  The
// property oracle looks only at the implementation: read-after-write, no
// overwrite, refusal before the origin, no misplacement (a successful save
// changes exactly the four bytes of its slot, zero-filling a gap), refused
// saves leave the file untouched.

import (
	"bytes"
	"encoding/binary"
	"encoding/hex"
	"encoding/json"
	"fmt"
	"os"
	"path/filepath"
	"sync"
	"sync/atomic"

	"github.com/glowlabs-org/gca-backend/client"
	"verifharness/core"
)

func init() { core.Register("history", historySuite) }

type histOp struct {
	Kind string `json:"kind"` // "save" | "load"
	T    uint32 `json:"t"`
	V    uint32 `json:"v"`
	OK   bool   `json:"ok"`
	Out  uint32 `json:"out"`
}

const histMaxSlots = (1 << 30) - 1 // slots a history file can address with its 32 bit byte offsets

// expected position of a slot in the file, by the documented format (4-byte origin + 4 bytes per slot)
func histSlotPos(origin, t uint32) (int64, bool) {
	if t < origin {
		return 0, false
	}
	return 4 * (1 + int64(t) - int64(origin)), true
}

func histReadSlot(file []byte, origin, t uint32) uint32 {
	p, ok := histSlotPos(origin, t)
	if !ok || p+4 > int64(len(file)) {
		return 0
	}
	return binary.LittleEndian.Uint32(file[p:])
}

// runHistoryCase runs one case against the real store and evaluates the oracle.
// histRead reads the history file unless it has grown beyond anything a case of this suite can
// legitimately produce (a misplaced write can create a multi-gigabyte sparse file).
func histRead(hp string) ([]byte, int64) {
	st, err := os.Stat(hp)
	if err != nil {
		return nil, -1
	}
	if st.Size() > histFileLimit {
		return nil, st.Size()
	}
	b, _ := os.ReadFile(hp)
	return b, st.Size()
}

const histFileLimit = 1 << 20

func runHistoryCase(res *core.Result, dir string, initial []byte, ops []histOp, tag string) (openOK bool, final []byte, err error) {
	hp := filepath.Join(dir, client.HistoryFile)
	if err := os.WriteFile(hp, initial, 0644); err != nil {
		return false, nil, err
	}
	c, cerr := client.VerifNewBareClient(dir, true)
	if cerr != nil {
		if len(initial) >= 4 {
			res.Fail("history file with a complete header refused", "history-open", map[string]interface{}{"initial": fmt.Sprintf("%x", initial)})
		}
		return false, initial, nil
	}
	defer c.VerifClose()
	if len(initial) < 4 {
		res.Fail("history file without a complete header accepted", "history-open-short", map[string]interface{}{"initial": fmt.Sprintf("%x", initial)})
	}
	origin := c.VerifHistoryOffset()
	if len(initial) >= 4 && origin != binary.LittleEndian.Uint32(initial) {
		res.Fail("origin is not the little-endian header", "history-origin", map[string]interface{}{"initial": fmt.Sprintf("%x", initial[:4]), "origin": origin})
	}
	replay := func(i int) map[string]interface{} {
		return map[string]interface{}{"initial": fmt.Sprintf("%x", initial), "ops": ops[:i+1], "case": tag}
	}
	before, _ := os.ReadFile(hp)
	for i := range ops {
		op := &ops[i]
		switch op.Kind {
		case "load":
			v, err := c.VerifLoadReading(op.T)
			op.OK, op.Out = err == nil, v
			want := histReadSlot(before, origin, op.T)
			if err == nil && v != want {
				key := "load-wrong"
				if op.T >= origin && op.T-origin >= histMaxSlots {
					key = "k3-load-wrap"
				}
				res.Fail(fmt.Sprintf("load of slot %d returns %d, the file holds %d for it", op.T, v, want), key, replay(i))
			}
			if err != nil && op.T >= origin && op.T-origin < histMaxSlots {
				res.Fail("load of an addressable slot fails", "load-error", replay(i))
			}
		case "save-fault":
			// the storage refuses the write (read-only handle; reads and fsync still work): the save must
			// not report success unless nothing had to be written, and the file stays as it was
			cur := histReadSlot(before, origin, op.T)
			if ferr := c.VerifHistoryWriteFault(true); ferr != nil {
				return false, nil, ferr
			}
			err := c.VerifSaveReading(op.T, op.V)
			c.VerifHistoryWriteFault(false)
			op.OK = err == nil
			after, _ := histRead(hp)
			if !bytes.Equal(before, after) {
				res.Fail("a save under a write fault changed the history file", "write-fault-writes", replay(i))
			}
			if _, inRange := histSlotPos(origin, op.T); err == nil && inRange && op.T-origin < histMaxSlots && cur != op.V {
				v, _ := c.VerifLoadReading(op.T)
				res.Fail(fmt.Sprintf("the write of reading %d for slot %d failed (storage fault) but the save reports success: the client goes on to sign and send it, a later load returns %d and a different reading for the slot is then accepted as the first one", op.V, op.T, v), "write-fault-swallowed", replay(i))
			}
			res.Count("history.write-fault")
		case "save":
			err := c.VerifSaveReading(op.T, op.V)
			op.OK = err == nil
			after, asz := histRead(hp)
			cur := histReadSlot(before, origin, op.T)
			pos, inRange := histSlotPos(origin, op.T)
			if asz > histFileLimit {
				key := "misplaced-far"
				if inRange && op.T-origin >= histMaxSlots {
					key = "k3-offset-wrap"
				}
				res.Fail(fmt.Sprintf("save for slot origin+%d grew the file to %d bytes", int64(op.T)-int64(origin), asz), key, replay(i))
				os.Remove(hp)
				return true, nil, nil // no model comparison for this case
			}
			if err != nil {
				if !bytes.Equal(before, after) {
					res.Fail("a refused save changed the history file", "refused-save-writes", replay(i))
				}
				if inRange && op.T-origin < histMaxSlots && (cur == 0 || cur == op.V) {
					res.Fail("save into a free (or identical) addressable slot refused", "save-refused", replay(i))
				}
			} else {
				if !inRange {
					res.Fail("reading before the history origin accepted", "before-origin-accepted", replay(i))
				} else if op.T-origin >= histMaxSlots {
					// the slot does not exist in a file addressed with 32 bit offsets: nothing may be written
					if !bytes.Equal(before, after) {
						res.Fail(fmt.Sprintf("save for slot origin+%d is written over other data (byte offset wraps)", op.T-origin), "k3-offset-wrap", replay(i))
					} else if op.V != 0 {
						res.Fail("save outside the addressable range reports success", "k3-accepted", replay(i))
					}
				} else {
					if cur != 0 && cur != op.V {
						res.Fail(fmt.Sprintf("stored reading %d overwritten by %d", cur, op.V), "overwrite", replay(i))
					}
					// exact effect: only the four bytes of the slot, gap zero-filled
					want := append([]byte{}, before...)
					if !(cur == op.V) {
						for int64(len(want)) < pos+4 {
							want = append(want, 0)
						}
						binary.LittleEndian.PutUint32(want[pos:], op.V)
					}
					if !bytes.Equal(want, after) {
						res.Fail("save changed bytes outside its own slot", "misplaced", replay(i))
					}
					if v, lerr := c.VerifLoadReading(op.T); lerr != nil || v != op.V {
						res.Fail(fmt.Sprintf("read after write: saved %d, load returns %d (%v)", op.V, v, lerr), "read-after-write", replay(i))
					}
				}
			}
			before = after
		}
	}
	return true, before, nil
}

func historySuite(seed uint64, tier, outDir string) (*core.Result, error) {
	res := core.NewResult("history", seed, tier)
	rng := core.NewRNG(seed ^ 0x68697374)
	dir, err := os.MkdirTemp("", "vh-history-")
	if err != nil {
		return nil, err
	}
	defer os.RemoveAll(dir)

	n := 160
	if tier == "thorough" {
		n = 3600
	}
	origins := []uint32{0, 0, 1, 5, 1000, 105120, 1 << 20, 1<<31 - 1, 1 << 31, 1<<32 - 1, 1<<32 - 2, 1<<32 - 700, 1<<32 - (1 << 30), 1<<32 - (1 << 30) - 3}
	vals := []uint32{0, 0, 1, 2, 3, 5, 24, 1000, 1<<31 - 1, 1 << 31, 1<<32 - 1, 1<<32 - 75}

	var items []string
	shard := 0
	flush := func() error {
		if len(items) == 0 {
			return nil
		}
		name := fmt.Sprintf("cases_history_%d", shard)
		shard++
		err := res.CasesFile(outDir, name, "From Coq Require Import ZArith List.\nFrom GCA Require Import RunLib ClientStoreRun.",
			"hist_case", items, "hist_mismatches")
		items = nil
		return err
	}
	size := 0
	emit := func(tag string, initial []byte, ops []histOp) error {
		openOK, final, err := runHistoryCase(res, dir, initial, ops, tag)
		if err != nil {
			return err
		}
		if openOK && final == nil {
			res.Evaluations++ // counted, but there is no model case for it (the oracle already reported it)
			return nil
		}
		var opsS, outS []string
		changed, refused := false, false
		canon := fmt.Sprintf("%x|", initial)
		for _, op := range ops {
			if op.Kind == "save-fault" {
				continue // leaves the store as it is (checked by the oracle); the model has no storage faults
			}
			k := "0"
			if op.Kind == "load" {
				k = "1"
			}
			opsS = append(opsS, core.Tuple(k, core.ZU(uint64(op.T)), core.ZU(uint64(op.V))))
			outS = append(outS, core.Tuple(core.Bool(op.OK), core.ZU(uint64(op.Out))))
			canon += fmt.Sprintf("%s%d,%d;", k, op.T, op.V)
			if op.Kind == "save" && !op.OK {
				refused = true
			}
		}
		if openOK && !bytes.Equal(initial, final) {
			changed = true
		}
		if !openOK {
			outS = nil
		}
		it := core.Tuple(core.Hex(initial), core.List(opsS), core.Bool(openOK), core.List(outS), core.Hex(final))
		res.Case(map[string]interface{}{"case": tag, "initial_len": len(initial), "ops": ops, "open": openOK, "final_len": len(final)}, canon, changed && refused)
		items = append(items, it)
		size += len(it)
		if len(items) >= 400 || size > 700000 {
			size = 0
			return flush()
		}
		return nil
	}
	hdr := func(o uint32, slots ...uint32) []byte {
		b := make([]byte, 4+4*len(slots))
		binary.LittleEndian.PutUint32(b, o)
		for i, s := range slots {
			binary.LittleEndian.PutUint32(b[4+4*i:], s)
		}
		return b
	}
	S := func(t, v uint32) histOp { return histOp{Kind: "save", T: t, V: v} }
	L := func(t uint32) histOp { return histOp{Kind: "load", T: t} }

	// ---- corpus first (minimized past failures)
	if root := os.Getenv("VERIF_ROOT"); root != "" {
		files, _ := filepath.Glob(filepath.Join(root, "corpus", "C09", "*.json"))
		for _, f := range files {
			b, err := os.ReadFile(f)
			if err != nil {
				continue
			}
			var rj struct {
				Replay struct {
					Suite string `json:"suite"`
					Case  struct {
						Initial string   `json:"initial"`
						Ops     []histOp `json:"ops"`
					} `json:"case"`
				} `json:"replay"`
			}
			if json.Unmarshal(b, &rj) != nil || rj.Replay.Suite != "history" {
				continue
			}
			initial, err := hex.DecodeString(rj.Replay.Case.Initial)
			if err != nil {
				continue
			}
			res.Count("corpus")
			if err := emit("corpus:"+filepath.Base(f), initial, rj.Replay.Case.Ops); err != nil {
				return nil, err
			}
		}
	}

	// ---- deterministic classes (the quantifier's named inputs)
	res.Count("before-origin")
	if err := emit("before-origin", hdr(1000, 7), []histOp{S(999, 5), S(0, 5), L(999), S(1000, 9), L(1000), S(1000, 7), L(1000)}); err != nil {
		return nil, err
	}
	res.Count("value-zero")
	if err := emit("value-zero", hdr(10), []histOp{S(12, 0), L(12), S(12, 6), S(12, 0), L(12), S(10, 0), S(9, 0)}); err != nil {
		return nil, err
	}
	res.Count("occupied")
	if err := emit("occupied", hdr(3, 11, 0, 13), []histOp{S(3, 12), S(3, 11), S(4, 8), S(4, 9), S(5, 13), S(5, 0), L(3), L(4), L(5)}); err != nil {
		return nil, err
	}
	res.Count("beyond-eof")
	if err := emit("beyond-eof", hdr(50), []histOp{L(5000000), S(50+900, 77), L(50 + 899), L(50 + 900), L(50 + 901), S(50+1<<29, 0), L(1<<32 - 1)}); err != nil {
		return nil, err
	}
	res.Count("short-header")
	for _, k := range []int{0, 1, 3} {
		if err := emit("short-header", make([]byte, k), []histOp{S(0, 1)}); err != nil {
			return nil, err
		}
	}
	res.Count("ragged-tail")
	if err := emit("ragged-tail", append(hdr(7, 1), 0xaa, 0xbb), []histOp{L(8), S(8, 0x01020304), L(8), L(9)}); err != nil {
		return nil, err
	}
	// the uint32 byte offset 4*(1+t-origin) wraps from t-origin = 2^30-1 on (K3)
	for _, o := range []uint32{0, 5, 1<<32 - (1 << 30) - 3} {
		res.Count("offset-wrap")
		d := uint32(histMaxSlots)
		ops := []histOp{S(o+1, 21), L(o + d), S(o+d, 0x11223344), L(o + d), L(o), S(o+d+1, 0x55667788), L(o + d + 1), L(o), L(o + 1), S(o+d+2, 99), L(o + 1)}
		if err := emit("offset-wrap", hdr(o), ops); err != nil {
			return nil, err
		}
	}
	res.Count("write-fault")
	F := func(t, v uint32) histOp { return histOp{Kind: "save-fault", T: t, V: v} }
	if err := emit("write-fault", hdr(20, 6), []histOp{F(25, 300), L(25), S(25, 301), L(25), F(25, 301), F(25, 302), F(20, 6), F(20, 7), F(19, 5), F(4000, 9), L(4000)}); err != nil {
		return nil, err
	}
	res.Count("origin-top")
	if err := emit("origin-top", hdr(1<<32-2), []histOp{S(1<<32-1, 4), S(1<<32-2, 6), S(1<<32-3, 6), L(1<<32 - 1), S(0, 3), L(0)}); err != nil {
		return nil, err
	}

	// the report loop saves readings while the sync goroutine loads them (same client, same file handle):
	// every save lands in its own slot and every load returns 0 or the stored reading -- the store has no
	// shared cursor.  Oracle only.
	{
		res.Count("concurrent-save-load")
		hp := filepath.Join(dir, client.HistoryFile)
		os.WriteFile(hp, hdr(40), 0644)
		c, err := client.VerifNewBareClient(dir, true)
		if err == nil {
			const n = 6000
			val := func(t uint32) uint32 { return 100000 + 7*t }
			var stop int32
			var wrong int64
			var first string
			var mu sync.Mutex
			var wg sync.WaitGroup
			for g := 0; g < 2; g++ {
				wg.Add(1)
				go func(g int) {
					defer wg.Done()
					x := uint32(12345 + g)
					for atomic.LoadInt32(&stop) == 0 {
						x = x*1664525 + 1013904223
						t := 40 + x%n
						v, err := c.VerifLoadReading(t)
						if err == nil && v != 0 && v != val(t) {
							atomic.AddInt64(&wrong, 1)
							mu.Lock()
							if first == "" {
								first = fmt.Sprintf("load of slot %d returned %d while slots are being saved (stored value %d)", t, v, val(t))
							}
							mu.Unlock()
						}
					}
				}(g)
			}
			for t := uint32(40); t < 40+n; t++ {
				c.VerifSaveReading(t, val(t))
			}
			atomic.StoreInt32(&stop, 1)
			wg.Wait()
			misplaced := 0
			for t := uint32(40); t < 40+n; t++ {
				if v, err := c.VerifLoadReading(t); err != nil || v != val(t) {
					misplaced++
					if first == "" {
						first = fmt.Sprintf("slot %d holds %d after being saved as %d", t, v, val(t))
					}
				}
			}
			c.VerifClose()
			res.Case(map[string]interface{}{"case": "concurrent-save-load", "slots": n, "wrong_loads": wrong, "misplaced": misplaced}, "concurrent-save-load", true)
			if wrong > 0 || misplaced > 0 {
				res.Fail(fmt.Sprintf("saves and loads running at the same time on one history store: %d of %d slots do not hold the reading saved for them, %d loads returned another slot's value (%s)", misplaced, n, wrong, first), "concurrent-save-load", map[string]interface{}{"slots": n})
			}
		}
		os.Remove(hp)
	}

	// last addressable slot: a 4 GiB sparse file, oracle only (the model would need the whole byte list)
	{
		res.Count("last-addressable-slot")
		o := uint32(77)
		ops := []histOp{S(o+histMaxSlots-1, 0xcafe), L(o + histMaxSlots - 1), L(o + histMaxSlots - 2), L(o)}
		hp := filepath.Join(dir, client.HistoryFile)
		os.WriteFile(hp, hdr(o, 5), 0644)
		c, err := client.VerifNewBareClient(dir, true)
		if err != nil {
			return nil, err
		}
		e1 := c.VerifSaveReading(ops[0].T, ops[0].V)
		v1, e2 := c.VerifLoadReading(ops[1].T)
		v2, _ := c.VerifLoadReading(ops[2].T)
		v3, _ := c.VerifLoadReading(o)
		st, _ := os.Stat(hp)
		c.VerifClose()
		head := make([]byte, 8)
		if f, err := os.Open(hp); err == nil {
			f.ReadAt(head, 0)
			f.Close()
		}
		os.Remove(hp)
		sz := int64(-1)
		if st != nil {
			sz = st.Size()
		}
		res.Case(map[string]interface{}{"case": "last-addressable-slot", "ops": ops, "size": sz}, "last-slot", true)
		if e1 != nil || e2 != nil || v1 != 0xcafe || v2 != 0 || v3 != 5 || sz != 1<<32 || !bytes.Equal(head, hdr(o, 5)) {
			res.Fail("last addressable slot is not stored at its place", "last-slot", map[string]interface{}{"ops": ops, "size": sz, "save": fmt.Sprint(e1), "load": v1})
		}
	}

	// ---- generated cases
	for i := 0; i < n; i++ {
		o := origins[rng.Intn(len(origins))]
		if rng.Chance(25) {
			o = uint32(rng.U64())
		}
		nslots := rng.Intn(12)
		slots := make([]uint32, nslots)
		for j := range slots {
			if rng.Chance(50) {
				slots[j] = vals[rng.Intn(len(vals))]
				if rng.Chance(30) {
					slots[j] = uint32(rng.U64())
				}
			}
		}
		initial := hdr(o, slots...)
		if rng.Chance(10) {
			initial = append(initial, rng.Bytes(rng.Range(1, 3))...)
		}
		nops := rng.Range(4, 18)
		ops := make([]histOp, 0, nops)
		var recent []uint32
		for j := 0; j < nops; j++ {
			var t uint32
			cls := ""
			switch k := rng.Intn(100); {
			case k < 35:
				t = o + uint32(rng.Intn(nslots+2))
				cls = "gen.near"
			case k < 50 && len(recent) > 0:
				t = recent[rng.Intn(len(recent))]
				cls = "gen.revisit"
			case k < 62:
				t = o - uint32(rng.Range(1, 5))
				if rng.Chance(30) {
					t = uint32(rng.U64() % (uint64(o) + 1))
				}
				cls = "gen.before-origin"
			case k < 80:
				t = o + uint32(nslots+rng.Range(1, 160))
				cls = "gen.beyond-eof"
			case k < 90:
				t = o + histMaxSlots + uint32(rng.Range(-1, 3))
				if rng.Chance(40) {
					t = o + histMaxSlots + uint32(rng.U64()%(3<<30))
				}
				cls = "gen.wrap-range"
			default:
				t = uint32(rng.U64())
				cls = "gen.random-slot"
			}
			// wrap-around of o+k past 2^32 turns "beyond" into "before": classify by what it is
			if t < o {
				cls = "gen.before-origin"
			} else if t-o >= histMaxSlots {
				cls = "gen.wrap-range"
			} else if t-o > 5000 {
				cls = "gen.far"
			}
			res.Count(cls)
			recent = append(recent, t)
			if rng.Chance(62) {
				v := vals[rng.Intn(len(vals))]
				if rng.Chance(35) {
					v = uint32(rng.U64())
				}
				if cls == "gen.far" {
					v = 0 // a non-zero value would create a file the model cannot hold as a byte list
				}
				if rng.Chance(12) && cls != "gen.far" {
					ops = append(ops, histOp{Kind: "save-fault", T: t, V: v})
				} else {
					ops = append(ops, S(t, v))
				}
			} else {
				ops = append(ops, L(t))
			}
		}
		if err := emit("gen", initial, ops); err != nil {
			return nil, err
		}
	}
	if err := flush(); err != nil {
		return nil, err
	}
	res.Required = append(res.Required, "concurrent-save-load", "before-origin", "value-zero", "occupied", "beyond-eof", "short-header", "ragged-tail", "offset-wrap", "origin-top", "last-addressable-slot",
		"gen.near", "gen.before-origin", "gen.beyond-eof", "gen.wrap-range")
	res.Rule = "history files (origin from a boundary table or random, up to 11 pre-filled slots, optional ragged tail, short headers) x 4..18 save/load operations on slots near the data, revisited, before the origin, beyond EOF, in the offset-wrap range and random; non-trivial = the file changed and at least one save was refused; distinct by (initial bytes, operation list)"
	return res, nil
}
