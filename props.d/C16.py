# C16 -- see DESIGN.md section 5
PROP = {
    "props_v": "Props/C16.v",
    "extra_v": ["ClientEnergyRun.v"],
    "run_vo": "ClientEnergyRun.vo",
    "suites": [("test", "energy")],
    "assumptions": [],
}
TEXT = {"text": "wip", "note": "wip", "technique": "wip"}
