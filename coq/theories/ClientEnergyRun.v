(* Evaluation of the C16 model on the files the harness fed to the real
   staticReadEnergyFile / readCTSettingsFile (suite `energy`). *)
From Coq Require Import ZArith List Bool.
From Flocq Require Import Core.Core IEEE754.BinarySingleNaN IEEE754.Binary IEEE754.Bits.
From GCA Require Import Wrap RunLib ClientEnergy.
Import ListNotations.
Open Scope Z_scope.

Definition raw_field := (option Z * bool * option Z)%type.
Definition to_field (x : raw_field) : field :=
  let '(a, b, c) := x in {| f_int := a; f_header := b; f_float := c |}.

(* (multiplier bits, divider bits, rows delivered by encoding/csv, observed: None = panic | records (slot, energy)) *)
Definition energy_case := (Z * Z * list (list raw_field) * option (list (Z * Z)))%type.

Fixpoint forall2b {A B} (p : A -> B -> bool) (a : list A) (b : list B) : bool :=
  match a, b with
  | [], [] => true
  | x :: a', y :: b' => p x y && forall2b p a' b'
  | _, _ => false
  end.

Definition rec_matches (m : record) (o : Z * Z) : bool :=
  (e_slot m =? fst o) &&
  match e_val m with VExact v => v =? snd o | VUnspec => true end.

Definition energy_case_ok (G : Z) (c : energy_case) : bool :=
  let '(mb, db, rows, obs) := c in
  match energy_rows G (b64_of_bits mb) (b64_of_bits db) (map (map to_field) rows), obs with
  | Records l, Some o => forall2b rec_matches l o
  | Panic, None => true
  | _, _ => false
  end.
Definition energy_mismatches (G : Z) := bad_indices (energy_case_ok G).

(* the same against the loop body without the length check (what the code did before the repair of D11) *)
Definition energy_case_ok_unchecked (G : Z) (c : energy_case) : bool :=
  let '(mb, db, rows, obs) := c in
  match energy_rows_unchecked G (b64_of_bits mb) (b64_of_bits db) (map (map to_field) rows), obs with
  | Records l, Some o => forall2b rec_matches l o
  | Panic, None => true
  | _, _ => false
  end.

(* calibration file: (default bits, default bits, kind (0 absent, 1 unreadable, 2 lines), lines,
                      observed (code, mult bits, div bits)); code 0 = ok, 1.. = ct_error in order *)
Definition ct_case := (Z * Z * Z * list (option Z) * (Z * Z * Z))%type.

Definition ct_code (e : ct_error) : Z :=
  match e with CtOpen => 1 | CtNoFirst => 2 | CtBadFirst => 3 | CtNoSecond => 4 | CtBadSecond => 5 end.

Definition ct_case_ok (c : ct_case) : bool :=
  let '(dm, dd, k, lines, obs) := c in
  let '(code, om, od) := obs in
  let f := if k =? 0 then CtAbsent else if k =? 1 then CtUnreadable else CtLines lines in
  match ct_settings dm dd f with
  | CtOk m d => (code =? 0) && (m =? om) && (d =? od)
  | CtErr e => code =? ct_code e
  end.
Definition ct_mismatches := bad_indices ct_case_ok.
