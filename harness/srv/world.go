//go:build test && verif

// Package srv drives a real GCA server (package server of /repo, built with the
// test and verif tags) through generated operation histories and renders the
// history, with everything the implementation was observed to do, as a Gallina
// term for ServerRun.v.
package srv

import (
	"bytes"
	"encoding/binary"
	"encoding/hex"
	"encoding/json"
	"fmt"
	"io"
	"log"
	"math"
	"net"
	"net/http"
	"os"
	"path/filepath"
	"sort"
	"strings"
	"sync"
	"sync/atomic"
	"time"

	"github.com/ethereum/go-ethereum/crypto"
	"github.com/glowlabs-org/gca-backend/glow"
	"github.com/glowlabs-org/gca-backend/server"
	"verifharness/core"
)

// ---------------------------------------------------------------- keys and signatures

type Key struct {
	Pub  glow.PublicKey
	Priv glow.PrivateKey
}

// DetKey derives a key pair from the run's PRNG (so histories replay exactly).
func DetKey(r *core.RNG) Key {
	for {
		b := r.Bytes(32)
		b[0] &= 0x7f
		k, err := crypto.ToECDSA(b)
		if err != nil {
			continue
		}
		c := crypto.CompressPubkey(&k.PublicKey)
		if c[0] != 0x02 {
			continue
		}
		var key Key
		copy(key.Pub[:], c[1:])
		copy(key.Priv[:], crypto.FromECDSA(k))
		return key
	}
}

// ---------------------------------------------------------------- gates (yield points)

type gate struct {
	arrive  chan struct{}
	release chan struct{}
	at      bool
}

type gateSet struct {
	mu      sync.Mutex
	closeCh chan struct{}
	g       map[string]*gate
	hooks   map[string]func()
	counts  map[string]*int64
}

var gates = &gateSet{closeCh: make(chan struct{}), g: map[string]*gate{}, hooks: map[string]func(){}, counts: map[string]*int64{}}
var gatedPoints = map[string]bool{"rotate.loop": true, "impact.loop": true}
var installOnce sync.Once

func (gs *gateSet) get(p string) *gate {
	gs.mu.Lock()
	defer gs.mu.Unlock()
	if gs.g[p] == nil {
		gs.g[p] = &gate{arrive: make(chan struct{}), release: make(chan struct{})}
	}
	return gs.g[p]
}
func (gs *gateSet) count(p string) *int64 {
	gs.mu.Lock()
	defer gs.mu.Unlock()
	if gs.counts[p] == nil {
		gs.counts[p] = new(int64)
	}
	return gs.counts[p]
}
func (gs *gateSet) closed() chan struct{} {
	gs.mu.Lock()
	defer gs.mu.Unlock()
	return gs.closeCh
}

func yield(p string) {
	atomic.AddInt64(gates.count(p), 1)
	if gatedPoints[p] {
		g := gates.get(p)
		cc := gates.closed()
		select {
		case g.arrive <- struct{}{}:
		case <-cc:
			return
		}
		select {
		case <-g.release:
		case <-cc:
		}
		return
	}
	gates.mu.Lock()
	h := gates.hooks[p]
	gates.mu.Unlock()
	if h != nil {
		h()
	}
}

// SetHook installs a callback run when a (non-gated) yield point is reached.
func SetHook(p string, f func()) {
	gates.mu.Lock()
	gates.hooks[p] = f
	gates.mu.Unlock()
}
func YieldCount(p string) int64 { return atomic.LoadInt64(gates.count(p)) }

// openGates lets every blocked or future yield pass (used around Close).
func openGates() {
	gates.mu.Lock()
	select {
	case <-gates.closeCh:
	default:
		close(gates.closeCh)
	}
	gates.mu.Unlock()
}
func resetGates() {
	gates.mu.Lock()
	gates.closeCh = make(chan struct{})
	for _, g := range gates.g {
		g.at = false
	}
	gates.mu.Unlock()
}

// waitAt blocks until the thread that owns the gate is parked at it.
func waitAt(p string) bool {
	g := gates.get(p)
	if g.at {
		return true
	}
	select {
	case <-g.arrive:
		g.at = true
		return true
	case <-time.After(20 * time.Second):
		return false
	}
}

// tick lets the parked thread run one iteration and waits until it is parked again.
func tick(p string) bool {
	if !waitAt(p) {
		return false
	}
	g := gates.get(p)
	g.release <- struct{}{}
	g.at = false
	return waitAt(p)
}

// ---------------------------------------------------------------- panic witness for net/http handlers

type logSink struct {
	mu  sync.Mutex
	buf bytes.Buffer
}

func (l *logSink) Write(p []byte) (int, error) {
	l.mu.Lock()
	defer l.mu.Unlock()
	return l.buf.Write(p)
}
func (l *logSink) take() string {
	l.mu.Lock()
	defer l.mu.Unlock()
	s := l.buf.String()
	l.buf.Reset()
	return s
}

var stdlog = &logSink{}

// ---------------------------------------------------------------- world

type SigTriple struct{ Key, Msg, Sig []byte }

type World struct {
	detached bool  // the server was given up on (Detach): Close only removes the directory
	CloseErr error // what the last Close() of the server returned
	Dir      string
	S        *server.GCAServer
	Temp     Key
	Now      uint32
	Now0     uint32
	Fresh    [2][]byte
	Sigs     []SigTriple
	Hops     []string
	Desc     []interface{}
	UseHTTP  bool
	Crashes  []CrashImage
	crashN   int
	OnHop    func(n int) // called after the n-th hop was recorded
	client   *http.Client
	Failed   string // set when the world could not be driven (not a property failure)
}

func (w *World) Sign(msg []byte, k Key) glow.Signature {
	s := glow.Sign(msg, k.Priv)
	w.Sigs = append(w.Sigs, SigTriple{append([]byte{}, k.Pub[:]...), append([]byte{}, msg...), append([]byte{}, s[:]...)})
	return s
}

// NewWorld prepares a server directory holding only the temporary GCA key and
// starts the real server on it with the manual clock set to now0.
func NewWorld(r *core.RNG, name string, now0 uint32) (*World, error) {
	installOnce.Do(func() {
		server.VerifSetYield(yield)
		log.SetOutput(stdlog)
	})
	resetGates()
	dir, err := os.MkdirTemp("", "w-"+name+"-")
	if err != nil {
		return nil, err
	}
	w := &World{Dir: dir, Temp: DetKey(r), Now: now0, Now0: now0, client: &http.Client{Timeout: 20 * time.Second}}
	if err := os.WriteFile(filepath.Join(dir, "gcaTempPubKey.dat"), w.Temp.Pub[:], 0644); err != nil {
		return nil, err
	}
	os.MkdirAll(filepath.Join(dir, "watttime_data"), 0755)
	os.WriteFile(filepath.Join(dir, "watttime_data", "username"), []byte("hi"), 0644)
	os.WriteFile(filepath.Join(dir, "watttime_data", "password"), []byte("ih"), 0644)
	glow.SetCurrentTimeslot(now0)
	if CaptureFromStart != nil {
		w.CaptureCrashPoints(CaptureFromStart)
	}
	s, err := server.NewGCAServer(dir)
	if err != nil {
		os.RemoveAll(dir)
		return nil, fmt.Errorf("first start failed: %v", err)
	}
	w.S = s
	kd, err := os.ReadFile(filepath.Join(dir, "server.keys"))
	if err != nil || len(kd) != 96 {
		return nil, fmt.Errorf("server.keys unreadable after first start")
	}
	w.Fresh = [2][]byte{kd[:32], kd[32:]}
	return w, nil
}

// CaptureFromStart makes NewWorld install the crash-point capture before the very first start.
var CaptureFromStart func(n int) bool

// CloseServer shuts the server down but keeps the directory and the world.
func (w *World) CloseServer() (panicked string) {
	openGates()
	w.StopCapture()
	if w.S != nil && !w.detached {
		func() {
			defer func() {
				if e := recover(); e != nil {
					panicked = fmt.Sprint(e)
				}
			}()
			w.S.Close()
		}()
		if panicked != "" {
			w.S.VerifStop()
		}
		w.S = nil
	}
	return
}

// Detach gives up on a server that may be wedged: it is closed in the background (which may never
// finish) and forgotten, so that a later Close of the world only removes the directory.
func (w *World) Detach() {
	s := w.S
	if s == nil || w.detached {
		return
	}
	w.detached = true // w.S stays set: goroutines of the suite that are stuck in a call on it may still return
	openGates()
	go func() {
		defer func() { recover() }()
		s.Close()
	}()
}

// Close shuts the server down and removes the directory.
func (w *World) Close() (panicked string) {
	defer func() {
		for _, c := range w.Crashes {
			os.RemoveAll(c.Dir)
		}
	}()
	openGates()
	if w.S != nil && !w.detached {
		func() {
			defer func() {
				if e := recover(); e != nil {
					panicked = fmt.Sprint(e)
				}
			}()
			w.CloseErr = w.S.Close()
		}()
		if panicked != "" {
			// CheckInvariants panicked before anything was stopped: stop the threads anyway
			w.S.VerifStop()
		}
		w.S = nil
	}
	os.RemoveAll(w.Dir)
	return
}

func (w *World) SetNow(now uint32) {
	w.Now = now
	glow.SetCurrentTimeslot(now)
}

func (w *World) ports() (uint16, uint16, uint16) { return w.S.Ports() }

// ---------------------------------------------------------------- Gallina rendering

func H(b []byte) string { return core.Hex(b) }

func CoqReport(r glow.EquipmentReport) string {
	return fmt.Sprintf("{| r_id := %d; r_ts := %d; r_p := %d; r_sig := %s |}", r.ShortID, r.Timeslot, r.PowerOutput, H(r.Signature[:]))
}
func CoqAuth(a glow.EquipmentAuthorization) string {
	return fmt.Sprintf("{| a_id := %d; a_key := %s; a_lat := %d; a_long := %d; a_cap := %d; a_debt := %d; a_exp := %d; a_init := %d; a_fee := %d; a_sig := %s |}",
		a.ShortID, H(a.PublicKey[:]), math.Float64bits(a.Latitude), math.Float64bits(a.Longitude), a.Capacity, a.Debt, a.Expiration, a.Initialization, a.ProtocolFee, H(a.Signature[:]))
}
func coqSparseZ(idx []int, val []uint64) string {
	xs := []string{}
	for i := range idx {
		xs = append(xs, fmt.Sprintf("(%d, %d)", idx[i], val[i]))
	}
	return core.List(xs)
}

// CoqStats renders a statistics record canonically: devices sorted by key, sparse arrays.
func CoqStats(ads server.AllDeviceStats) string {
	devs := append([]server.DeviceStats{}, ads.Devices...)
	sort.SliceStable(devs, func(i, j int) bool { return bytes.Compare(devs[i].PublicKey[:], devs[j].PublicKey[:]) < 0 })
	ds := []string{}
	for _, d := range devs {
		var pi, ii []int
		var pv, iv []uint64
		for i, p := range d.PowerOutputs {
			if p != 0 {
				pi = append(pi, i)
				pv = append(pv, p)
			}
		}
		for i, f := range d.ImpactRates {
			if b := math.Float64bits(f); b != 0 {
				ii = append(ii, i)
				iv = append(iv, b)
			}
		}
		ds = append(ds, fmt.Sprintf("(%s, %s, %s)", H(d.PublicKey[:]), coqSparseZ(pi, pv), coqSparseZ(ii, iv)))
	}
	return fmt.Sprintf("(%d, %s)", ads.TimeslotOffset, core.List(ds))
}

func coqOpt(present bool, s string) string {
	if !present {
		return "None"
	}
	return "(Some " + s + ")"
}

// Snapshot renders the full canonical snapshot (memory through the hook, disk from the files).
func (w *World) Snapshot() (string, server.VerifSnap) { return SnapshotOf(w.S, w.Dir) }

// SnapshotOf renders the snapshot of any running server and its directory.
func SnapshotOf(S *server.GCAServer, dir string) (string, server.VerifSnap) {
	sn := S.VerifSnapshot()
	ids := []int{}
	for id := range sn.Equipment {
		ids = append(ids, int(id))
	}
	sort.Ints(ids)
	eq := []string{}
	for _, id := range ids {
		eq = append(eq, fmt.Sprintf("(%d, %s)", id, CoqAuth(sn.Equipment[uint32(id)])))
	}
	ix := []string{}
	keys := []string{}
	for k := range sn.Index {
		keys = append(keys, string(k[:]))
	}
	sort.Strings(keys)
	for _, k := range keys {
		var pk glow.PublicKey
		copy(pk[:], k)
		ix = append(ix, fmt.Sprintf("(%s, %d)", H(pk[:]), sn.Index[pk]))
	}
	bans := []string{}
	for _, b := range sn.Bans {
		bans = append(bans, fmt.Sprint(b))
	}
	rids := []int{}
	for id := range sn.Reports {
		rids = append(rids, int(id))
	}
	sort.Ints(rids)
	reps := []string{}
	for _, id := range rids {
		sl := []string{}
		for _, s := range sn.Reports[uint32(id)] {
			sl = append(sl, fmt.Sprintf("(%d, %s)", s.Index, CoqReport(s.Report)))
		}
		reps = append(reps, fmt.Sprintf("(%d, %s)", id, core.List(sl)))
	}
	iids := []int{}
	for id := range sn.Impact {
		iids = append(iids, int(id))
	}
	sort.Ints(iids)
	imps := []string{}
	for _, id := range iids {
		sl := []string{}
		for _, s := range sn.Impact[uint32(id)] {
			sl = append(sl, fmt.Sprintf("(%d, %d)", s.Index, s.Bits))
		}
		imps = append(imps, fmt.Sprintf("(%d, %s)", id, core.List(sl)))
	}
	hist := []string{}
	for _, h := range sn.History {
		hist = append(hist, CoqStats(h))
	}
	// disk
	dauths, okA := readAuthFileIn(dir)
	dreps, okR := readReportFileIn(dir)
	dstats, okS := readStatsFileIn(dir)
	gcaf, errG := os.ReadFile(filepath.Join(dir, "gcaPubKey.dat"))
	_, errK := os.Stat(filepath.Join(dir, "server.keys"))
	as := []string{}
	for _, a := range dauths {
		as = append(as, CoqAuth(a))
	}
	rs := []string{}
	for _, r := range dreps {
		rs = append(rs, CoqReport(r))
	}
	ss := []string{}
	for _, s := range dstats {
		ss = append(ss, CoqStats(s))
	}
	out := fmt.Sprintf("{| s_offset := %d; s_avail := %v; s_gca := %s; s_equipment := %s; s_index := %s; s_bans := %s; s_reports := %s; s_impact := %s; s_history := %s; s_dauths := %s; s_dreports := %s; s_dstats := %s; s_dgca := %s; s_dkeys := %v |}",
		sn.Offset, sn.GCAAvailable, H(sn.GCAKey[:]), core.List(eq), core.List(ix), core.List(bans), core.List(reps), core.List(imps), core.List(hist),
		coqOpt(okA, core.List(as)), coqOpt(okR, core.List(rs)), coqOpt(okS, core.List(ss)), coqOpt(errG == nil, H(gcaf)), errK == nil)
	return out, sn
}

func (w *World) readAuthFile() ([]glow.EquipmentAuthorization, bool) { return readAuthFileIn(w.Dir) }
func (w *World) readReportFile() ([]glow.EquipmentReport, bool)      { return readReportFileIn(w.Dir) }
func (w *World) readStatsFile() ([]server.AllDeviceStats, bool)      { return readStatsFileIn(w.Dir) }

func readAuthFileIn(dir string) ([]glow.EquipmentAuthorization, bool) {
	b, err := os.ReadFile(filepath.Join(dir, "equipment-authorizations.dat"))
	if err != nil {
		return nil, false
	}
	var out []glow.EquipmentAuthorization
	for i := 0; i+148 <= len(b); i += 148 {
		a, _ := glow.DeserializeEquipmentAuthorization(b[i : i+148])
		out = append(out, a)
	}
	return out, true
}
func readReportFileIn(dir string) ([]glow.EquipmentReport, bool) {
	b, err := os.ReadFile(filepath.Join(dir, "equipment-reports.dat"))
	if err != nil {
		return nil, false
	}
	var out []glow.EquipmentReport
	for i := 0; i+80 <= len(b); i += 80 {
		r, _ := glow.DeserializeReport(b[i : i+80])
		out = append(out, r)
	}
	return out, true
}
func readStatsFileIn(dir string) ([]server.AllDeviceStats, bool) {
	b, err := os.ReadFile(filepath.Join(dir, "allDeviceStats.dat"))
	if err != nil {
		return nil, false
	}
	var out []server.AllDeviceStats
	for len(b) > 0 {
		if len(b) < 4 {
			break
		}
		n := uint64(binary.LittleEndian.Uint32(b[:4]))
		need := 4 + n*(32+8*2*2016) + 4 + 64
		if uint64(len(b)) < need {
			break
		}
		a, k, err := server.DeserializeStreamAllDeviceStats(b)
		if err != nil {
			break
		}
		out = append(out, a)
		b = b[k:]
	}
	return out, true
}

// ---------------------------------------------------------------- operations

func (w *World) hop(s string, desc interface{}) {
	w.Hops = append(w.Hops, s)
	w.Desc = append(w.Desc, desc)
	if w.OnHop != nil {
		w.OnHop(len(w.Hops))
	}
}

// Datagram delivers a datagram through the synchronous injection wrapper.
func (w *World) Datagram(d []byte, note string) (panicked bool) {
	func() {
		defer func() {
			if e := recover(); e != nil {
				panicked = true
			}
		}()
		w.S.VerifInjectDatagram(d)
	}()
	ob := "ObsQuiet"
	if panicked {
		ob = "ObsPanic"
	}
	w.hop(fmt.Sprintf("HOp (OpDatagram %d %s) %s", w.Now, H(d), ob), map[string]interface{}{"op": "datagram", "now": w.Now, "bytes": hex.EncodeToString(d), "note": note, "panic": panicked})
	return
}

// DatagramUDP delivers a datagram over the real UDP socket and waits until the
// listener has disposed of it.  Returns false if it was never seen (lost).
func (w *World) DatagramUDP(d []byte, note string) bool {
	_, _, up := w.ports()
	before := YieldCount("udp.handled") + YieldCount("udp.dropped")
	if err := glow.SendUDPReport(d, fmt.Sprintf("127.0.0.1:%d", up)); err != nil {
		return false
	}
	deadline := time.Now().Add(3 * time.Second)
	for YieldCount("udp.handled")+YieldCount("udp.dropped") == before {
		if time.Now().After(deadline) {
			return false
		}
		time.Sleep(200 * time.Microsecond)
	}
	w.hop(fmt.Sprintf("HOp (OpDatagram %d %s) ObsQuiet", w.Now, H(d)), map[string]interface{}{"op": "datagram-udp", "now": w.Now, "bytes": hex.EncodeToString(d), "note": note})
	return true
}

type HTTPResult struct {
	Status   int
	Body     []byte
	Err      error
	Panicked bool
}

func (w *World) do(method, path string, body []byte) HTTPResult {
	hp, _, _ := w.ports()
	stdlog.take()
	req, err := http.NewRequest(method, fmt.Sprintf("http://127.0.0.1:%d%s", hp, path), bytes.NewReader(body))
	if err != nil {
		return HTTPResult{Err: err}
	}
	if body != nil {
		req.Header.Set("Content-Type", "application/json")
	}
	resp, err := w.client.Do(req)
	if err != nil {
		time.Sleep(2 * time.Millisecond)
		lg := stdlog.take()
		return HTTPResult{Err: err, Panicked: strings.Contains(lg, "http: panic serving")}
	}
	defer resp.Body.Close()
	b, _ := io.ReadAll(resp.Body)
	lg := stdlog.take()
	return HTTPResult{Status: resp.StatusCode, Body: b, Panicked: strings.Contains(lg, "http: panic serving")}
}

// Raw lets suites issue arbitrary HTTP requests (hostile inputs).
func (w *World) Raw(method, path string, body []byte) HTTPResult { return w.do(method, path, body) }

func obsOfStatus(r HTTPResult, newOn200Body bool) string {
	if r.Panicked {
		return "ObsPanic"
	}
	if r.Err != nil {
		return "ObsPanic" // connection torn down without a response: treated as a handler crash
	}
	if r.Status == 200 {
		if newOn200Body {
			return fmt.Sprintf("(ObsAccepted %v)", strings.Contains(string(r.Body), "success"))
		}
		return "(ObsAccepted true)"
	}
	return "ObsRefused"
}

// Register submits a GCA registration (over HTTP, or through the wrapper).
func (w *World) Register(key glow.PublicKey, sig glow.Signature, note string) string {
	var ob string
	if w.UseHTTP {
		j, _ := json.Marshal(server.GCARegistration{GCAKey: key, Signature: sig})
		ob = obsOfStatus(w.do("POST", "/api/v1/register-gca", j), false)
	} else {
		err := w.S.VerifRegister(server.GCARegistration{GCAKey: key, Signature: sig})
		if err == nil {
			ob = "(ObsAccepted true)"
		} else {
			ob = "ObsRefused"
		}
	}
	w.hop(fmt.Sprintf("HOp (OpRegister %s %s) %s", H(key[:]), H(sig[:]), ob), map[string]interface{}{"op": "register", "key": hex.EncodeToString(key[:]), "note": note, "obs": ob})
	return ob
}

// Authorize submits an equipment authorization.
func (w *World) Authorize(a glow.EquipmentAuthorization, note string) string {
	var ob string
	if w.UseHTTP {
		j, _ := json.Marshal(a)
		ob = obsOfStatus(w.do("POST", "/api/v1/authorize-equipment", j), true)
	} else {
		var isNew bool
		var err error
		p := false
		func() {
			defer func() {
				if e := recover(); e != nil {
					p = true
				}
			}()
			isNew, err = w.S.VerifAuthorize(a)
		}()
		switch {
		case p:
			ob = "ObsPanic"
		case err != nil:
			ob = "ObsRefused"
		default:
			ob = fmt.Sprintf("(ObsAccepted %v)", isNew)
		}
	}
	w.hop(fmt.Sprintf("HOp (OpAuthorize %s) %s", CoqAuth(a), ob), map[string]interface{}{"op": "authorize", "id": a.ShortID, "key": hex.EncodeToString(a.PublicKey[:8]), "cap": a.Capacity, "note": note, "obs": ob})
	return ob
}

type statsJSON struct {
	Devices []struct {
		PublicKey    glow.PublicKey
		PowerOutputs []int64
		ImpactRates  []float64
	}
	TimeslotOffset uint32
	Signature      glow.Signature
}

// Stats queries the weekly statistics endpoint; returns the decoded record when one was served.
// StatsWith asks for a week with extra query text appended (not recorded as a hop).
func (w *World) StatsWith(tso uint32, extra string) (*server.AllDeviceStats, HTTPResult) {
	r := w.do("GET", fmt.Sprintf("/api/v1/all-device-stats?timeslot_offset=%d%s", tso, extra), nil)
	if r.Panicked || r.Err != nil || r.Status != 200 {
		return nil, r
	}
	var sj statsJSON
	if err := json.Unmarshal(r.Body, &sj); err != nil {
		return nil, r
	}
	a := server.AllDeviceStats{TimeslotOffset: sj.TimeslotOffset, Signature: sj.Signature}
	for _, d := range sj.Devices {
		var ds server.DeviceStats
		ds.PublicKey = d.PublicKey
		for i := 0; i < 2016 && i < len(d.PowerOutputs); i++ {
			ds.PowerOutputs[i] = uint64(d.PowerOutputs[i])
		}
		for i := 0; i < 2016 && i < len(d.ImpactRates); i++ {
			ds.ImpactRates[i] = d.ImpactRates[i]
		}
		a.Devices = append(a.Devices, ds)
	}
	return &a, r
}

func (w *World) Stats(tso uint32, falseNeg bool, record bool, note string) (*server.AllDeviceStats, HTTPResult) {
	path := fmt.Sprintf("/api/v1/all-device-stats?timeslot_offset=%d", tso)
	if falseNeg {
		path += "&insert_false_negatives=true"
	}
	r := w.do("GET", path, nil)
	var ads *server.AllDeviceStats
	ob := "ObsRefused"
	if r.Panicked || r.Err != nil {
		ob = "ObsPanic"
	} else if r.Status == 200 {
		var sj statsJSON
		if err := json.Unmarshal(r.Body, &sj); err != nil {
			ob = "ObsRefused"
		} else {
			a := server.AllDeviceStats{TimeslotOffset: sj.TimeslotOffset, Signature: sj.Signature}
			for _, d := range sj.Devices {
				var ds server.DeviceStats
				ds.PublicKey = d.PublicKey
				for i := 0; i < 2016 && i < len(d.PowerOutputs); i++ {
					ds.PowerOutputs[i] = uint64(d.PowerOutputs[i])
				}
				for i := 0; i < 2016 && i < len(d.ImpactRates); i++ {
					ds.ImpactRates[i] = d.ImpactRates[i]
				}
				a.Devices = append(a.Devices, ds)
			}
			ads = &a
			ob = "(ObsStats " + CoqStats(a) + ")"
		}
	}
	if record {
		w.hop(fmt.Sprintf("HOp (OpStats %d) %s", tso, ob), map[string]interface{}{"op": "stats", "tso": tso, "false_negatives": falseNeg, "status": r.Status, "note": note})
	}
	return ads, r
}

// RotateTick lets the real rotation thread run exactly one iteration.
func (w *World) RotateTick(note string) bool {
	if !tick("rotate.loop") {
		w.Failed = "rotation thread did not reach its gate"
		return false
	}
	w.hop(fmt.Sprintf("HOp (OpRotateTick %d) ObsQuiet", w.Now), map[string]interface{}{"op": "rotate-tick", "now": w.Now, "note": note})
	return true
}

// Quiesce runs rotation ticks until the thread would no longer rotate.
func (w *World) Quiesce() bool {
	for i := 0; i < 64; i++ {
		sn := w.S.VerifSnapshot()
		if int64(w.Now)-int64(sn.Offset) <= 3200 {
			return true
		}
		if !w.RotateTick("quiesce") {
			return false
		}
	}
	return false
}

// ImpactRound runs one synchronous round of the impact job with prescribed values.
func (w *World) ImpactRound(val func(id uint32) (float64, uint32), between func(), note string) (panicked bool) {
	sn := w.S.VerifSnapshot()
	byLoc := map[[2]float64][]uint32{}
	for id, a := range sn.Equipment {
		byLoc[[2]float64{a.Latitude, a.Longitude}] = append(byLoc[[2]float64{a.Latitude, a.Longitude}], id)
	}
	type wr struct {
		id uint32
		ts uint32
		v  float64
	}
	var writes []wr
	server.VerifSetImpact(func(lat, long float64) (float64, int64, bool) {
		ids := byLoc[[2]float64{lat, long}]
		if len(ids) != 1 {
			return 0, 0, false // ambiguous location: suites give every device its own coordinates
		}
		v, ts := val(ids[0])
		writes = append(writes, wr{ids[0], ts, v})
		return v, glow.TimeslotToUnix(ts), true
	})
	if between != nil {
		SetHook("impact.device", between)
	}
	func() {
		defer func() {
			if e := recover(); e != nil {
				panicked = true
			}
		}()
		w.S.VerifImpactRound()
	}()
	SetHook("impact.device", nil)
	server.VerifSetImpact(nil)
	for i, x := range writes {
		ob := "ObsQuiet"
		if panicked && i == len(writes)-1 {
			ob = "ObsPanic"
		}
		w.hop(fmt.Sprintf("HOp (OpImpact %d %d %d) %s", x.id, x.ts, math.Float64bits(x.v), ob), map[string]interface{}{"op": "impact", "id": x.id, "ts": x.ts, "v": x.v, "note": note})
	}
	return
}

// TryStart starts a real server on a prepared directory (the world's own server must be closed) and stops
// it again; nothing is recorded for the model.  The directory is removed afterwards.
func (w *World) TryStart(dir string, now uint32) (started bool, startErr error, panicked string) {
	resetGates()
	glow.SetCurrentTimeslot(now)
	var s *server.GCAServer
	func() {
		defer func() {
			if e := recover(); e != nil {
				panicked = fmt.Sprint(e)
			}
		}()
		s, startErr = server.NewGCAServer(dir)
	}()
	if panicked == "" && startErr == nil {
		started = true
		openGates()
		func() {
			defer func() {
				if e := recover(); e != nil {
					s.VerifStop()
				}
			}()
			s.Close()
		}()
	}
	os.RemoveAll(dir)
	return
}

// Recent queries GET /api/v1/recent-reports for a public key and records the reply (the non-blank
// slots of the window served, or "not found") for comparison with the model's recent_view.
func (w *World) Recent(key glow.PublicKey, note string) (found bool, slots map[int]glow.EquipmentReport, status int) {
	rr := w.do("GET", "/api/v1/recent-reports?publicKey="+hex.EncodeToString(key[:]), nil)
	status = rr.Status
	ob := "(ObsRecent None)"
	slots = map[int]glow.EquipmentReport{}
	if rr.Status == 200 {
		var resp server.RecentReportsResponse
		if err := json.Unmarshal(rr.Body, &resp); err == nil {
			found = true
			var blank glow.EquipmentReport
			xs := []string{}
			for i, r := range resp.Reports {
				if r != blank {
					slots[i] = r
					xs = append(xs, fmt.Sprintf("(%d, %s)", i, CoqReport(r)))
				}
			}
			ob = "(ObsRecent (Some " + core.List(xs) + "))"
		}
	} else if rr.Panicked || rr.Err != nil {
		ob = "ObsPanic"
	}
	w.hop(fmt.Sprintf("HRecent %s %s", H(key[:]), ob), map[string]interface{}{"op": "recent-reports", "key": hex.EncodeToString(key[:8]), "status": rr.Status, "slots": len(slots), "note": note})
	return
}

// Restart closes the server (after letting the rotation thread quiesce at the current clock), moves the clock
// to newNow and starts the server again on the same directory (start-up catch-up happens at newNow).
func (w *World) Restart(newNow uint32, note string) (ok bool, startErr error, panicked string) {
	if !w.Quiesce() {
		return false, nil, ""
	}
	openGates()
	func() {
		defer func() {
			if e := recover(); e != nil {
				panicked = "Close: " + fmt.Sprint(e)
			}
		}()
		w.S.Close()
	}()
	if panicked != "" {
		w.S.VerifStop()
	}
	resetGates()
	if panicked != "" {
		w.S = nil
		return false, nil, panicked
	}
	w.SetNow(newNow)
	var s *server.GCAServer
	var err error
	func() {
		defer func() {
			if e := recover(); e != nil {
				panicked = "NewGCAServer: " + fmt.Sprint(e)
			}
		}()
		s, err = server.NewGCAServer(w.Dir)
	}()
	ob := "ObsQuiet"
	if panicked != "" {
		ob = "ObsPanic"
		w.S = nil
	} else if err != nil {
		ob = "ObsRefused"
		w.S = nil
	} else {
		w.S = s
	}
	w.hop(fmt.Sprintf("HOp (OpRestart (%s, %s) %d) %s", H(w.Fresh[0]), H(w.Fresh[1]), w.Now, ob), map[string]interface{}{"op": "restart", "now": w.Now, "note": note, "obs": ob})
	return w.S != nil, err, panicked
}

// SetOffset moves the server's report window through the test hook.
func (w *World) SetOffset(o uint32) {
	w.S.VerifSetWindowOffset(o)
	w.hop(fmt.Sprintf("HSetOffset %d", o), map[string]interface{}{"op": "set-window-offset", "offset": o})
}

// SnapHop records a full snapshot comparison point.
func (w *World) SnapHop() server.VerifSnap {
	s, sn := w.Snapshot()
	w.hop("HSnap "+s, map[string]interface{}{"op": "snapshot"})
	return sn
}

// Sync performs a real TCP sync request and records the parsed view.
func (w *World) Sync(id uint32, record bool) (found bool, key glow.PublicKey, offset uint32, bits []int, raw []byte, err error) {
	_, tp, _ := w.ports()
	conn, err := net.DialTimeout("tcp", fmt.Sprintf("127.0.0.1:%d", tp), 5*time.Second)
	if err != nil {
		return
	}
	defer conn.Close()
	conn.SetDeadline(time.Now().Add(10 * time.Second))
	var rq [4]byte
	binary.LittleEndian.PutUint32(rq[:], id)
	if _, err = conn.Write(rq[:]); err != nil {
		return
	}
	raw, err = io.ReadAll(conn)
	if err != nil {
		return
	}
	ob := "(ObsSync None)"
	if len(raw) >= 2+540 {
		found = true
		copy(key[:], raw[2:34])
		offset = binary.LittleEndian.Uint32(raw[34:38])
		xs := []string{}
		for i := 0; i < 4032; i++ {
			if raw[38+i/8]&(1<<(uint(i)%8)) != 0 {
				bits = append(bits, i)
				xs = append(xs, fmt.Sprint(i))
			}
		}
		ob = fmt.Sprintf("(ObsSync (Some (%s, %d, %s)))", H(key[:]), offset, core.List(xs))
	}
	if record {
		w.hop(fmt.Sprintf("HSync %d %s", id, ob), map[string]interface{}{"op": "sync", "id": id, "found": found})
	}
	return
}

// CoqCase renders the whole history as an scase term.
func (w *World) CoqCase() string {
	ts := []string{}
	for _, t := range w.Sigs {
		ts = append(ts, fmt.Sprintf("(%s, %s, %s)", H(t.Key), H(t.Msg), H(t.Sig)))
	}
	return fmt.Sprintf("(%s,\n %s, (%s, %s), %d,\n [%s])", core.List(ts), H(w.Temp.Pub[:]), H(w.Fresh[0]), H(w.Fresh[1]), w.Now0, strings.Join(w.Hops, ";\n  "))
}

// ---------------------------------------------------------------- crash images (C05)

// CrashImage is a copy of the server directory taken at a persistence yield point.
type CrashImage struct {
	Dir   string
	Now   uint32
	OpSeq int // number of hops recorded when the copy was taken
}

// CopyDir copies a server directory (without logs).
func CopyDir(src, dst string) error { return copyDir(src, dst) }

func copyDir(src, dst string) error {
	if err := os.MkdirAll(dst, 0755); err != nil {
		return err
	}
	ents, err := os.ReadDir(src)
	if err != nil {
		return err
	}
	for _, e := range ents {
		sp, dp := filepath.Join(src, e.Name()), filepath.Join(dst, e.Name())
		if e.IsDir() {
			if err := copyDir(sp, dp); err != nil {
				return err
			}
			continue
		}
		if strings.HasSuffix(e.Name(), ".log") {
			continue
		}
		b, err := os.ReadFile(sp)
		if err != nil {
			return err
		}
		if err := os.WriteFile(dp, b, 0644); err != nil {
			return err
		}
	}
	return nil
}

// CaptureCrashPoints makes every persistence yield point copy the directory (at most max copies,
// chosen by the caller's filter).
func (w *World) CaptureCrashPoints(keep func(n int) bool) {
	SetHook("crash.point", func() {
		w.crashN++
		n := w.crashN
		if keep != nil && !keep(n) {
			return
		}
		d := fmt.Sprintf("%s-crash-%d", w.Dir, n)
		if copyDir(w.Dir, d) == nil {
			w.Crashes = append(w.Crashes, CrashImage{Dir: d, Now: w.Now, OpSeq: len(w.Hops)})
		}
	})
}
func (w *World) StopCapture() { SetHook("crash.point", nil) }

// CoqDisk renders the files of a directory as a cdisk term.
func CoqDisk(dir string) string {
	dauths, okA := readAuthFileIn(dir)
	dreps, okR := readReportFileIn(dir)
	dstats, okS := readStatsFileIn(dir)
	gcaf, errG := os.ReadFile(filepath.Join(dir, "gcaPubKey.dat"))
	_, errK := os.Stat(filepath.Join(dir, "server.keys"))
	as, rs, ss := []string{}, []string{}, []string{}
	for _, a := range dauths {
		as = append(as, CoqAuth(a))
	}
	for _, r := range dreps {
		rs = append(rs, CoqReport(r))
	}
	for _, s := range dstats {
		ss = append(ss, CoqStats(s))
	}
	return fmt.Sprintf("{| c_keys := %v; c_gca := %s; c_auths := %s; c_reports := %s; c_stats := %s |}", errK == nil,
		coqOpt(errG == nil, H(gcaf)), coqOpt(okA, core.List(as)), coqOpt(okR, core.List(rs)), coqOpt(okS, core.List(ss)))
}

// RecoverImage starts a real server on a crash image (the world's own server must be closed),
// records the HLoad hop and returns what happened.
func (w *World) RecoverImage(ci CrashImage) (started bool, snap server.VerifSnap, startErr error, panicked string) {
	resetGates()
	glow.SetCurrentTimeslot(ci.Now)
	disk := CoqDisk(ci.Dir)
	var s *server.GCAServer
	func() {
		defer func() {
			if e := recover(); e != nil {
				panicked = fmt.Sprint(e)
			}
		}()
		s, startErr = server.NewGCAServer(ci.Dir)
	}()
	ob := "LRefused"
	if panicked != "" {
		ob = "LPanicked"
	} else if startErr == nil {
		var str string
		str, snap = SnapshotOf(s, ci.Dir)
		ob = "(LStarted " + str + ")"
		started = true
		openGates()
		func() {
			defer func() {
				if e := recover(); e != nil {
					s.VerifStop()
				}
			}()
			s.Close()
		}()
	}
	w.hop(fmt.Sprintf("HLoad %s %d %s", disk, ci.Now, ob), map[string]interface{}{"op": "recover-crash-image", "now": ci.Now, "taken_after_hops": ci.OpSeq, "started": started, "error": fmt.Sprint(startErr), "panic": panicked})
	os.RemoveAll(ci.Dir)
	return
}
