(* C10, finding "reply-length-wraps": the size premise of c10_agree cannot be dropped.  A server
   that knows 624 authorized servers (all entries well formed and signed) produces a reply of
   65608 bytes; the 16-bit length prefix reads 72, the client reads 72 bytes and rejects them. *)
From Coq Require Import ZArith List Bool Lia.
From GCA Require Import Wrap Bytes CodecSync ClientSync.
Import ListNotations.
Open Scope Z_scope.
Set Default Proof Using "Type".

Definition ovf_verify (k m s : bytes) : bool := true.
Definition ovf_key : bytes := repeat Byte.x01 32.
Definition ovf_server : aserver :=
  {| as_key := repeat Byte.x05 32; as_banned := false; as_loc := []; as_http := 1; as_tcp := 2; as_udp := 3;
     as_sig := zeros 64 |}.
Definition ovf_view (n : nat) : sview :=
  {| sv_key := ovf_key; sv_offset := 0; sv_powers := repeat 0 4032; sv_mig := None;
     sv_servers := repeat ovf_server n; sv_time := 100000 |}.

Lemma ovf_wf n : sview_wf (ovf_view n).
Proof.
  unfold sview_wf, ovf_view; cbn [sv_key sv_offset sv_powers sv_mig sv_servers].
  split; [reflexivity|]. split; [lia|]. split; [apply repeat_length|].
  apply Forall_forall. intros x Hx. apply repeat_spec in Hx. subst x.
  unfold aserver_wf, ovf_server; cbn. repeat split; try lia; reflexivity.
Qed.

Lemma ovf_signed gkey n : view_signed ovf_verify gkey (ovf_view n).
Proof.
  unfold view_signed, ovf_view; cbn [sv_mig sv_servers].
  apply Forall_forall. intros x _. reflexivity.
Qed.

Lemma ovf_rejected :
  client_recv ovf_verify 712 ovf_key (repeat Byte.x04 32) (repeat Byte.x02 32) 100000
              (sync_reply (ovf_view 624) (zeros 64)) = PErr EShort.
Proof. vm_compute. reflexivity. Qed.

(* every premise of c10_agree except the size bound holds, and the conclusion fails *)
Theorem reply_overflow_refuted :
  exists verify v sg mykey skey gkey now,
    sview_wf v /\ List.length sg = 64%nat /\ mykey = sv_key v /\ verify skey (reply_body v) sg = true /\
    fresh now (sv_time v mod 2^64) = true /\ view_signed verify gkey v /\
    65536 <= Z.of_nat (List.length (reply_body v ++ sg)) /\
    client_recv verify 712 mykey skey gkey now (sync_reply v sg) <> POk (view_result v).
Proof.
  exists ovf_verify, (ovf_view 624), (zeros 64), ovf_key, (repeat Byte.x04 32), (repeat Byte.x02 32), 100000.
  split; [apply ovf_wf|]. split; [reflexivity|]. split; [reflexivity|]. split; [reflexivity|].
  split; [vm_compute; reflexivity|]. split; [apply ovf_signed|].
  split; [vm_compute; discriminate|].
  rewrite ovf_rejected. discriminate.
Qed.
