# C15 -- see DESIGN.md section 5
PROP = {
    "props_v": "Props/C15.v",
    "extra_v": ["CodecRun.v"],
    "gen_bins": ["test"],
    "gen_obligations": [],
    "suites": [("test", "codec")],
    "assumptions": [],
}
TEXT = {
    "text": "wip",
    "note": "wip",
    "technique": "wip",
}
