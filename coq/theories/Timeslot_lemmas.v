From Coq Require Import ZArith List Bool Lia.
From GCA Require Import Wrap Timeslot.
Import ListNotations.
Open Scope Z_scope.

Ltac Zify.zify_post_hook ::= Z.div_mod_to_equations.

Section TS.
  Variable G : Z.
  Definition G_ok := 0 <= G < 2^62.

  Lemma u2t_before t : t < G -> unix_to_timeslot G t = None.
  Proof. unfold unix_to_timeslot; intros. destruct (Z.ltb_spec t G); [reflexivity|lia]. Qed.

  Lemma u2t_in t : G <= t < G + 2^32 ->
    unix_to_timeslot G t = Some ((t - G) / 300).
  Proof.
    unfold unix_to_timeslot; intros. destruct (Z.ltb_spec t G); [lia|].
    rewrite i64_id by (unfold is_i64; lia). rewrite u32_id by (unfold is_u32; lia). reflexivity.
  Qed.

  Definition max_slot := (2^32 - 1) / 300.

  Lemma t2u_small s : G_ok -> 0 <= s <= max_slot -> timeslot_to_unix G s = G + s * 300.
  Proof.
    unfold timeslot_to_unix, max_slot, G_ok; intros.
    rewrite u32_id by (unfold is_u32; lia). apply i64_id. unfold is_i64; lia.
  Qed.

  Theorem roundtrip t : G_ok -> G <= t < G + 2^32 ->
    exists s, unix_to_timeslot G t = Some s /\
              timeslot_to_unix G s = t - (t - G) mod 300 /\
              timeslot_to_unix G s <= t < timeslot_to_unix G s + 300.
  Proof.
    intros HG H. exists ((t - G) / 300). split; [apply u2t_in; exact H|].
    assert (Hs : 0 <= (t - G) / 300 <= max_slot) by (unfold max_slot; lia).
    rewrite (t2u_small _ HG Hs). lia.
  Qed.

  Theorem monotone t1 t2 s1 s2 : G <= t1 -> t1 <= t2 -> t2 < G + 2^32 ->
    unix_to_timeslot G t1 = Some s1 -> unix_to_timeslot G t2 = Some s2 -> s1 <= s2.
  Proof.
    intros H1 H12 H2 E1 E2. rewrite u2t_in in E1 by lia. rewrite u2t_in in E2 by lia.
    inversion E1; inversion E2; subst. apply Z.div_le_mono; lia.
  Qed.

  Theorem slot_roundtrip s : G_ok -> 0 <= s <= max_slot ->
    unix_to_timeslot G (timeslot_to_unix G s) = Some s.
  Proof.
    intros HG H. rewrite (t2u_small _ HG H). unfold max_slot in H.
    rewrite u2t_in by lia. f_equal. lia.
  Qed.

  Theorem slot_injective s1 s2 : G_ok -> 0 <= s1 <= max_slot -> 0 <= s2 <= max_slot ->
    timeslot_to_unix G s1 = timeslot_to_unix G s2 -> s1 = s2.
  Proof. intros HG H1 H2. rewrite (t2u_small _ HG H1), (t2u_small _ HG H2). lia. Qed.

  (* beyond the stated domain the conversion is wrong (finding K5): the
     difference is truncated to 32 bits before the division *)
  Theorem wraps_beyond_domain : unix_to_timeslot G (G + 2^32) = Some 0.
  Proof.
    unfold unix_to_timeslot. destruct (Z.ltb_spec (G + 2^32) G); [lia|].
    replace (G + 2^32 - G) with (2^32) by lia.
    rewrite i64_id by (unfold is_i64; lia). reflexivity.
  Qed.

  Theorem current_follows_clock now : G <= now < G + 2^32 ->
    current_timeslot G now = unix_to_timeslot G now.
  Proof.
    intros H. rewrite u2t_in by exact H. unfold current_timeslot.
    destruct (Z.ltb_spec now G); [lia|]. rewrite i64_id by (unfold is_i64; lia).
    rewrite u32_id by (unfold is_u32; lia). reflexivity.
  Qed.
  Theorem current_panics_before_genesis now : now < G -> current_timeslot G now = None.
  Proof. unfold current_timeslot; intros; destruct (Z.ltb_spec now G); [reflexivity|lia]. Qed.
End TS.

(* ---- acceptance comparison: exact for all uint32 pairs ------------------- *)
Theorem accept_exact half ts now : 0 <= half < 2^32 -> is_u32 ts -> is_u32 now ->
  accept_go half ts now = accept_math half ts now.
Proof.
  unfold is_u32, accept_go, accept_math; intros Hh Ht Hn.
  rewrite (i64_id ts) by (unfold is_i64; lia). rewrite (i64_id now) by (unfold is_i64; lia).
  rewrite (i64_id (now - half)) by (unfold is_i64; lia).
  rewrite (i64_id (now + half)) by (unfold is_i64; lia).
  destruct (Z.ltb_spec ts (now - half)); destruct (Z.ltb_spec (now + half) ts);
    destruct (Z.leb_spec (Z.abs (ts - now)) half); simpl; try reflexivity; lia.
Qed.

(* the comparison written in uint32 (the regression the int64 casts prevent)
   is NOT exact: witness at now = 0 *)
Definition accept_u32 (half ts now : Z) : bool :=
  negb ((ts <? u32 (now - half)) || (u32 (now + half) <? ts)).
Theorem accept_u32_wrong : accept_u32 432 5 0 <> accept_math 432 5 0.
Proof. vm_compute. discriminate. Qed.

(* ---- schedule ----------------------------------------------------------- *)
Section Sched.
  Variable c : sched_cfg.
  Hypothesis OK : cfg_ok c = true.

  Definition SInv (s : sched) : Prop :=
    match s_ph s with
    | Idle dl => s_now s <= dl /\ dl - s_off s <= cT c + cP c
    | Migrating dl => s_now s <= dl /\ dl - s_off s <= cT c + cP c + cD c /\
                      cT c < s_now s - s_off s
    end.

  Lemma cfg_facts : 0 <= cP c /\ 0 <= cD c /\ 0 <= cH c /\
    cT c + cP c + cD c + cH c < cW c /\ cD c + cP c <= cWk c /\ cWk c + cH c <= cT c.
  Proof.
    unfold cfg_ok in OK. repeat (apply andb_prop in OK; destruct OK as [OK ?]).
    repeat match goal with H : (_ <=? _) = true |- _ => apply Z.leb_le in H
                    | H : (_ <? _) = true |- _ => apply Z.ltb_lt in H end. lia.
  Qed.

  Lemma step_inv s e s' : SInv s -> sched_step c s e = Some s' -> SInv s'.
  Proof.
    pose proof cfg_facts as F. unfold SInv, sched_step.
    destruct s as [now off ph]; cbn [s_now s_off s_ph].
    destruct e; destruct ph as [dl|dl]; intros I E; try discriminate.
    - destruct (Z.ltb_spec now dl); inversion E; subst; cbn [s_now s_off s_ph]; lia.
    - destruct (Z.ltb_spec now dl); inversion E; subst; cbn [s_now s_off s_ph]; lia.
    - destruct (Z.ltb_spec (cT c) (now - off)); inversion E; subst; cbn [s_now s_off s_ph]; lia.
    - inversion E; subst; cbn [s_now s_off s_ph]. lia.
  Qed.

  Lemma run_inv es : forall s s', SInv s -> sched_run c s es = Some s' -> SInv s'.
  Proof.
    induction es as [|e es IH]; simpl; intros s s' I E.
    - inversion E; subst; exact I.
    - destruct (sched_step c s e) as [s1|] eqn:S; [|discriminate].
      eapply IH; [eapply step_inv; eassumption | exact E].
  Qed.

  (* every acceptable report lies below the end of the stored window *)
  Theorem window_safe s es s' ts : SInv s -> sched_run c s es = Some s' ->
    acceptable c s' ts -> ts - s_off s' < cW c.
  Proof.
    intros I E A. pose proof (run_inv _ _ _ I E) as I'. pose proof cfg_facts as F.
    unfold SInv in I'. unfold acceptable in A. destruct (s_ph s'); lia.
  Qed.

  (* a rotation never discards an acceptable report: whatever is acceptable
     when the rotation happens lies at or above the new window start *)
  Theorem rotation_keeps_acceptable s s' ts : SInv s -> sched_step c s Rotate = Some s' ->
    acceptable c s ts -> s_off s' <= ts.
  Proof.
    pose proof cfg_facts as F. unfold SInv, sched_step, acceptable.
    destruct s as [now off ph]; cbn [s_now s_off s_ph].
    destruct ph as [dl|dl]; intros I E A; [discriminate|].
    inversion E; subst; cbn [s_now s_off s_ph]. lia.
  Qed.

  (* progress: the thread is never stuck: some thread action is always enabled *)
  Theorem sched_progress s : exists e s', sched_step c s e = Some s'.
  Proof.
    unfold sched_step. destruct s as [now off ph]; cbn [s_now s_off s_ph].
    destruct ph as [dl|dl].
    - exists Check. destruct (cT c <? now - off); eauto.
    - exists Rotate. eauto.
  Qed.
End Sched.

(* if the inequality fails the window can be overrun: a concrete schedule *)
Definition bad_cfg := {| cT := 3200; cP := 12; cD := 388; cH := 432; cW := 4032; cWk := 2016 |}.
Example bad_cfg_overrun :
  exists s es s' ts, SInv bad_cfg s /\ sched_run bad_cfg s es = Some s' /\
     acceptable bad_cfg s' ts /\ ~ ts - s_off s' < cW bad_cfg.
Proof.
  exists {| s_now := 3212; s_off := 0; s_ph := Idle 3212 |},
         (Check :: repeat Tick 388),
         {| s_now := 3600; s_off := 0; s_ph := Migrating 3600 |}, 4032.
  split; [unfold SInv; simpl; lia|]. split; [vm_compute; reflexivity|].
  split; [unfold acceptable; simpl; lia| simpl; lia].
Qed.
