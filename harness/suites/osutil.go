package suites

import "os"

func osReadFile(p string) ([]byte, error) { return os.ReadFile(p) }
