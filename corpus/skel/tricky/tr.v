From Coq Require Import String List Bool.
From GCA Require Import Skel SkelSpec.
From GCAgen Require SkelServer SkelClient.
Import ListNotations.
Open Scope string_scope.
Definition tf : list (string * fclass) := [("equipment", FGuard "mu"); ("gcaPubkey", FGuard "mu"); ("gcaServers.servers", FGuard "gcaServers.mu"); ("baseDir", FStatic)].
Definition sfns := derive tf [] SkelServer.raw_fns.
Definition cfns := derive [("shortID", FGuard "mu")] [] SkelClient.raw_fns.
Definition show (l : list (string * list violation)) :=
  map (fun p => (fst p, map (fun v => (v_kind v, v_what v)) (snd p))) l.
Eval vm_compute in show (diagnose (mk_env tf [] sfns (names sfns) strict)).
Eval vm_compute in show (diagnose (mk_env [("shortID", FGuard "mu")] [] cfns (names cfns) strict)).
