#!/usr/bin/env python3
"""mkdesign.py: refresh the generated blocks of DESIGN.md (between <!-- GEN:name --> and <!-- /GEN:name -->)
from the files that are the single source of those facts: props.d/*.py, coq/theories/Props/*.v,
known_findings.txt, seeded/*/meta.json, /repo's git log (hook and fix commits), evidence/*.json."""
import glob, json, os, re, subprocess, sys, textwrap

ROOT = os.path.dirname(os.path.abspath(__file__))
sys.path.insert(0, ROOT)
import props  # noqa


def sh(*a):
    return subprocess.run(a, capture_output=True, text=True).stdout


def wrap(s, indent=""):
    return "\n".join(textwrap.wrap(s, 96, initial_indent=indent, subsequent_indent=indent, break_long_words=False, break_on_hyphens=False))


def seeds_of(pid):
    out = []
    for f in sorted(glob.glob(os.path.join(ROOT, "seeded", pid + "-*", "meta.json"))):
        m = json.load(open(f))
        name = os.path.basename(os.path.dirname(f))
        oc = m.get("our_checks", {})
        res = []
        for k, v in sorted(oc.items()):
            if v.get("caught"):
                res.append(k + (": failing input" if v.get("with_failing_input") else ": broken obligation, no-failing-input-found"))
            else:
                res.append(k + ": MISSED")
        out.append((name, m, res))
    return out


def first_sentence(s, n=230):
    s = re.sub(r"\s+", " ", s.replace("#", " ")).strip()
    s = re.sub(r"^C\d\d change \d+\s*[-:]*\s*", "", s)
    return s[:n] + ("..." if len(s) > n else "")


def asbuilt(pid):
    P, T = props.PROPS[pid], props.TEXTS[pid]
    v = open(os.path.join(ROOT, "coq/theories", P["props_v"])).read()
    th = re.findall(r"^\s*(Theorem|Example)\s+(\w+)", v, re.M)
    lines = ["**As built.**  " + T["text"], ""]
    if T.get("note"):
        lines += ["*Trusted / not covered.*  " + T["note"], ""]
    lines += ["*Statements in `coq/theories/%s`* (each closed by `exact`, `Print Assumptions` collected per run): " % P["props_v"]
              + ", ".join("`%s`" % n for _, n in th) + ".", ""]
    gen = P.get("gen_obligations") or []
    if gen:
        lines += ["*Re-proved on regenerated input every run:* " + ", ".join("`%s`" % g for g in gen) + ".", ""]
    su = ", ".join("`%s` (%s build)" % (s, b) for b, s in P["suites"])
    if P.get("suites_thorough"):
        su += "; thorough tier: " + ", ".join("`%s` (%s build)" % (s, b) for b, s in P["suites_thorough"])
    lines += ["*Correspondence suites:* " + su + ".", ""]
    for a in P.get("assumptions", []):
        lines.append("* assumption: " + a)
    if P.get("assumptions"):
        lines.append("")
    sd = seeds_of(pid)
    if sd:
        lines.append("*Seeded changes confirmed and tried against this check* (`seeded/<name>/`):")
        for name, m, res in sd:
            lines.append("* `%s` — %s  → %s" % (name, first_sentence(m.get("needs_to_manifest", "")), "; ".join(res)))
        lines.append("")
    return "\n".join(lines)


def findings():
    rows = []
    for l in open(os.path.join(ROOT, "known_findings.txt")):
        l = l.strip()
        if not l or l.startswith("#"):
            continue
        kind, rest = l.split(":", 1)
        m = re.match(r"\s*property=(C\d\d)\s+(.*)", rest)
        pid, what = m.group(1), m.group(2)
        if kind == "fixed":
            c, what = what.split(" ", 1)
            rows.append("| %s | fixed in /repo `%s` | %s |" % (pid, c, what.replace("|", "\\|")))
        else:
            k = re.match(r"key=(\S+)\s+(.*)", what)
            rows.append("| %s | known finding `%s` | %s |" % (pid, k.group(1), k.group(2).replace("|", "\\|")))
    return "| property | disposition | what fails |\n|---|---|---|\n" + "\n".join(rows) + "\n"


def hooks():
    log = sh("git", "-C", "/repo", "log", "--reverse", "--format=%h %s")
    out = ["Hook commits (subject starts `verif:`; all files they add carry `//go:build verif`, the one-line yield calls resolve to an empty function in `verif_off.go` without the tag):", ""]
    for l in log.splitlines():
        h, s = l.split(" ", 1)
        if s.startswith("verif:"):
            files = sh("git", "-C", "/repo", "show", "--stat", "--format=", h).strip().splitlines()
            fl = ", ".join(x.split("|")[0].strip() for x in files[:-1])
            out.append("* `%s` %s — %s" % (h, s, fl))
    out += ["", "Repair commits (subject starts `fix:`; unguarded, minimal):", ""]
    for l in log.splitlines():
        h, s = l.split(" ", 1)
        if s.startswith("fix:"):
            out.append("* `%s` %s" % (h, s))
    return "\n".join(out) + "\n"


def seeds_table():
    rows = ["| seed | target | what the change is (from its author's notes) | result of our check(s) at confirmation |", "|---|---|---|---|"]
    for pid in sorted(props.PROPS):
        for name, m, res in seeds_of(pid):
            rows.append("| `%s` | %s | %s | %s |" % (name, pid, first_sentence(m.get("needs_to_manifest", ""), 200).replace("|", "\\|"), "; ".join(res)))
    return "\n".join(rows) + "\n"


def layout():
    out = []
    tot = 0
    for f in sorted(glob.glob(os.path.join(ROOT, "coq/theories/*.v")) + glob.glob(os.path.join(ROOT, "coq/theories/Props/*.v"))):
        n = sum(1 for _ in open(f))
        tot += n
    out.append("Coq development: %d files, %d lines under `coq/theories/` (+ regenerated `coq/gen/*.v`)." % (
        len(glob.glob(os.path.join(ROOT, "coq/theories/*.v"))) + len(glob.glob(os.path.join(ROOT, "coq/theories/Props/*.v"))), tot))
    g = 0
    for f in glob.glob(os.path.join(ROOT, "harness/**/*.go"), recursive=True):
        g += sum(1 for _ in open(f))
    out.append("Go harness: %d lines under `harness/`." % g)
    return "\n".join(out) + "\n"


def main():
    p = os.path.join(ROOT, "DESIGN.md")
    s = open(p).read()
    blocks = {"findings": findings, "hooks": hooks, "seeds": seeds_table, "layout": layout}
    for pid in props.PROPS:
        blocks["asbuilt:" + pid] = (lambda pid=pid: asbuilt(pid))
    for name, fn in blocks.items():
        a, b = "<!-- GEN:%s -->" % name, "<!-- /GEN:%s -->" % name
        if a not in s:
            print("marker missing:", name)
            continue
        i, j = s.index(a) + len(a), s.index(b)
        s = s[:i] + "\n" + fn() + s[j:]
    open(p, "w").write(s)


if __name__ == "__main__":
    main()
