(* C03 -- Weekly statistics equal the accepted reports and never change once archived.
   Statements only; proofs in ServerStats_lemmas.v. *)
From Coq Require Import ZArith List Bool.
From GCA Require Import Wrap Bytes Codec Amap Timeslot Server ServerInv ServerDisk ServerReach_lemmas ServerAuth_lemmas ServerStats_lemmas ServerFull_lemmas.
Import ListNotations.
Open Scope Z_scope.

Section C03.
  Variable verify : bytes -> bytes -> bytes -> bool.
  Variable sign : bytes -> bytes -> bytes.
  Variable stats_sb : list devstat -> Z -> bytes.

  Theorem c03_live_exact m0 tso s : MemInv m0 -> build_stats sign stats_sb m0 tso = BOk s ->
    st_tso s = tso /\ (tso = offset m0 \/ tso = offset m0 + week_len) /\
    st_sig s = sign (stats_sb (st_devs s) tso) (snd (skeys m0)) /\
    let x := if tso =? offset m0 + week_len then week_len else 0 in
    Forall2 (fun p d => exists rt, zget (fst p) (impact m0) = Some rt /\ d = dev_record m0 x (fst p) (snd p) rt)
            (zsort (reports m0)) (st_devs s).
  Proof. exact (build_stats_exact sign stats_sb m0 tso s). Qed.

  Theorem c03_refusals st tso : MemInv (mm st) -> 0 <= tso ->
    (tso mod week_len <> 0 -> stats_query sign stats_sb st tso = (st, Refused)) /\
    (offset (mm st) + week_len < tso -> stats_query sign stats_sb st tso = (st, Refused)) /\
    fst (stats_query sign stats_sb st tso) = st.
  Proof. exact (stats_query_refusals sign stats_sb st tso). Qed.

  Theorem c03_archived_served st k s : MemInv (mm st) ->
    nth_error (history (mm st)) k = Some s ->
    stats_query sign stats_sb st (week_len * Z.of_nat k) = (st, StatsOut s).
  Proof. exact (stats_query_archived sign stats_sb st k s). Qed.

  Theorem c03_rotation_exact st : MemInv (mm st) -> offset (mm st) + week_len <= 2^32 - 8192 ->
    exists s, rotate sign stats_sb st =
      ({| mm := {| equipment := equipment (mm st); index := index (mm st); bans := bans (mm st);
                   reports := map (fun p => (fst p, shift_window (snd p))) (reports (mm st));
                   impact := map (fun p => (fst p, shift_window (snd p))) (impact (mm st));
                   offset := offset (mm st) + week_len; history := history (mm st) ++ [s];
                   gca := gca (mm st); gca_avail := gca_avail (mm st); tempkey := tempkey (mm st);
                   skeys := skeys (mm st) |};
          dd := disk_append_stats (dd st) s |}, Quiet) /\
      build_stats sign stats_sb (mm st) (offset (mm st)) = BOk s /\
      (forall id w i, zget id (reports (mm st)) = Some w -> 0 <= i < week_len ->
         zget i (half_power 0 w) = option_map r_p (zget i w)) /\
      (forall id w j, zget id (reports (mm st)) = Some w -> 0 <= j ->
         zget j (shift_window w) = zget (j + week_len) w) /\
      (forall id rt i, zget id (impact (mm st)) = Some rt -> 0 <= i < week_len ->
         zget i (half_rates 0 rt) = zget i rt) /\
      (forall id rt j, zget id (impact (mm st)) = Some rt -> 0 <= j ->
         zget j (shift_window rt) = zget (j + week_len) rt).
  Proof. exact (rotation_exact sign stats_sb st). Qed.

  Theorem c03_contiguous m0 : MemInv m0 ->
    offset m0 = week_len * Z.of_nat (length (history m0)) /\
    forall k s, nth_error (history m0) k = Some s -> st_tso s = week_len * Z.of_nat k.
  Proof. exact (contiguous m0). Qed.

  (* once archived, identical forever: whatever requests (with any parameters), reports, bans,
     rotations or restarts follow *)
  Theorem c03_immutable ops st k s : Inv verify st -> Forall op_ok ops ->
    nth_error (history (mm st)) k = Some s ->
    nth_error (history (mm (Server.run verify sign stats_sb st ops))) k = Some s.
  Proof. exact (archive_immutable_full verify sign stats_sb ops st k s). Qed.
End C03.
