(* Theorems about the fixed-width codecs of Codec.v (report, authorization, registration),
   obtained from the generic layout theorems (Layout_lemmas.v); the prefix argument for
   the disjointness of signing bytes; the reduction of "a changed signed value is
   rejected" to injectivity of the signing bytes. *)
From Coq Require Import ZArith List Bool String Ascii Lia.
From GCA Require Import Bytes Bytes_lemmas Codec Layout Layout_lemmas.
Import ListNotations.
Open Scope Z_scope.
Notation length := List.length.

Lemma pow256_4 : 256 ^ Z.of_nat 4 = 2^32. Proof. reflexivity. Qed.
Lemma pow256_8 : 256 ^ Z.of_nat 8 = 2^64. Proof. reflexivity. Qed.
Lemma pow256_2 : 256 ^ Z.of_nat 2 = 2^16. Proof. reflexivity. Qed.

Ltac val_ok_tac :=
  unfold val_ok, F; cbn [f_kind f_width];
  first [ reflexivity
        | eexists; split; [reflexivity|]; rewrite ?pow256_4, ?pow256_8, ?pow256_2; assumption ].

Ltac inv_forall2 :=
  repeat match goal with
         | H : Forall2 _ (_ :: _) _ |- _ => inversion H; subst; clear H
         | H : Forall2 _ [] _ |- _ => inversion H; subst; clear H
         end.
Ltac inv_val_ok :=
  repeat match goal with
         | H : val_ok (F _ _ _ _) _ |- _ =>
             unfold val_ok, F in H; cbn [f_kind f_width] in H;
             first [ destruct H as (? & -> & H) | subst ]
         end.

(* ==== EquipmentReport ================================================================= *)
Lemma report_vals_ok r : report_wf r -> Forall2 val_ok report_layout (report_vals r).
Proof.
  intros (H1 & H2 & H3 & H4). unfold report_layout, report_vals.
  repeat constructor; val_ok_tac.
Qed.

Theorem report_roundtrip r : report_wf r -> report_decode (report_serialize r) = Some r.
Proof.
  intros H. rewrite report_decode_layout, report_serialize_layout.
  rewrite (layout_roundtrip 80 report_layout _ report_layout_wf (report_vals_ok r H)).
  destruct r; reflexivity.
Qed.

Theorem report_length_refused b : length b <> 80%nat -> report_decode b = None.
Proof. intros H. unfold report_decode. apply Nat.eqb_neq in H. rewrite H. reflexivity. Qed.

Theorem report_serialize_length r : length (report_serialize r) = 80%nat.
Proof. rewrite report_serialize_layout. apply (layout_encode_length 80 report_layout); reflexivity. Qed.

Theorem report_decode_encode b r : report_decode b = Some r -> report_serialize r = b /\ report_wf r.
Proof.
  rewrite report_decode_layout. intros H.
  destruct (layout_decode 80 report_layout b) as [vs|] eqn:E; [|discriminate H].
  cbn [option_map] in H. injection H as <-.
  destruct (layout_decode_encode 80 report_layout b vs report_layout_wf E) as [Ee V].
  clear E. subst b. unfold report_layout in V. inv_forall2. inv_val_ok.
  cbn [report_of_vals val_int val_bytes]. split.
  - rewrite report_serialize_layout. reflexivity.
  - unfold report_wf. cbn [r_id r_ts r_p r_sig]. rewrite <- pow256_4, <- pow256_8. auto.
Qed.

Theorem report_decode_injective b1 b2 r : report_decode b1 = Some r -> report_decode b2 = Some r -> b1 = b2.
Proof.
  intros H1 H2. apply report_decode_encode in H1 as [E1 _]. apply report_decode_encode in H2 as [E2 _]. congruence.
Qed.

Theorem report_serialize_injective r1 r2 : report_wf r1 -> report_wf r2 ->
  report_serialize r1 = report_serialize r2 -> r1 = r2.
Proof.
  intros H1 H2 E. pose proof (report_roundtrip r1 H1) as R. rewrite E, report_roundtrip in R by exact H2. congruence.
Qed.

Lemma report_signing_vals_ok r : report_wf r -> Forall2 val_ok report_signing_layout (report_signing_vals r).
Proof.
  intros (H1 & H2 & H3 & H4). unfold report_signing_layout, report_signing_vals.
  repeat constructor; val_ok_tac.
Qed.

Theorem report_signing_length r : length (report_signing_bytes r) = 31%nat.
Proof. rewrite report_signing_bytes_layout. apply (layout_encode_length 31 report_signing_layout); reflexivity. Qed.

Theorem report_signing_injective r1 r2 : report_wf r1 -> report_wf r2 ->
  report_signing_bytes r1 = report_signing_bytes r2 ->
  r_id r1 = r_id r2 /\ r_ts r1 = r_ts r2 /\ r_p r1 = r_p r2.
Proof.
  intros H1 H2 E. rewrite !report_signing_bytes_layout in E.
  pose proof (layout_injective 31 report_signing_layout _ _ report_signing_layout_wf
                (report_signing_vals_ok r1 H1) (report_signing_vals_ok r2 H2) E) as V.
  unfold report_signing_vals in V. injection V as -> -> ->. auto.
Qed.

(* ==== EquipmentAuthorization ========================================================== *)
Lemma auth_vals_ok a : auth_wf a -> Forall2 val_ok auth_layout (auth_vals a).
Proof.
  intros (H1 & H2 & H3 & H4 & H5 & H6 & H7 & H8 & H9 & H10). unfold auth_layout, auth_vals.
  repeat constructor; val_ok_tac.
Qed.

Theorem auth_roundtrip a : auth_wf a -> auth_decode (auth_serialize a) = Some a.
Proof.
  intros H. rewrite auth_decode_layout, auth_serialize_layout.
  rewrite (layout_roundtrip 148 auth_layout _ auth_layout_wf (auth_vals_ok a H)).
  destruct a; reflexivity.
Qed.

Theorem auth_length_refused b : length b <> 148%nat -> auth_decode b = None.
Proof. intros H. unfold auth_decode. apply Nat.eqb_neq in H. rewrite H. reflexivity. Qed.

Theorem auth_serialize_length a : length (auth_serialize a) = 148%nat.
Proof. rewrite auth_serialize_layout. apply (layout_encode_length 148 auth_layout); reflexivity. Qed.

Theorem auth_decode_encode b a : auth_decode b = Some a -> auth_serialize a = b /\ auth_wf a.
Proof.
  rewrite auth_decode_layout. intros H.
  destruct (layout_decode 148 auth_layout b) as [vs|] eqn:E; [|discriminate H].
  cbn [option_map] in H. injection H as <-.
  destruct (layout_decode_encode 148 auth_layout b vs auth_layout_wf E) as [Ee V].
  clear E. subst b. unfold auth_layout in V. inv_forall2. inv_val_ok.
  cbn [auth_of_vals val_int val_bytes]. split.
  - rewrite auth_serialize_layout. reflexivity.
  - unfold auth_wf. cbn [a_id a_key a_lat a_long a_cap a_debt a_exp a_init a_fee a_sig].
    rewrite <- pow256_4, <- pow256_8. repeat split; try tauto; try lia.
Qed.

Theorem auth_decode_injective b1 b2 a : auth_decode b1 = Some a -> auth_decode b2 = Some a -> b1 = b2.
Proof.
  intros H1 H2. apply auth_decode_encode in H1 as [E1 _]. apply auth_decode_encode in H2 as [E2 _]. congruence.
Qed.

Theorem auth_serialize_injective a1 a2 : auth_wf a1 -> auth_wf a2 ->
  auth_serialize a1 = auth_serialize a2 -> a1 = a2.
Proof.
  intros H1 H2 E. pose proof (auth_roundtrip a1 H1) as R. rewrite E, auth_roundtrip in R by exact H2. congruence.
Qed.

(* the signed part of an authorization: everything but the signature *)
Definition auth_unsigned (a : auth) : auth :=
  {| a_id := a_id a; a_key := a_key a; a_lat := a_lat a; a_long := a_long a; a_cap := a_cap a;
     a_debt := a_debt a; a_exp := a_exp a; a_init := a_init a; a_fee := a_fee a; a_sig := zeros 64 |}.

Lemma auth_body_length a : length (auth_body a) = 84%nat.
Proof.
  pose proof (auth_serialize_length a) as H. unfold auth_serialize in H.
  rewrite app_length, pad_length in H. lia.
Qed.

Theorem auth_signing_layout a :
  auth_signing_bytes a = ascii_bytes "EquipmentAuthorization" ++ firstn 84 (auth_serialize a) /\
  length (auth_signing_bytes a) = 106%nat.
Proof.
  unfold auth_signing_bytes, auth_serialize. split.
  - rewrite <- (auth_body_length a), firstn_app_exact. reflexivity.
  - rewrite app_length, auth_body_length. reflexivity.
Qed.

Theorem auth_signing_injective a1 a2 : auth_wf a1 -> auth_wf a2 ->
  auth_signing_bytes a1 = auth_signing_bytes a2 -> auth_unsigned a1 = auth_unsigned a2.
Proof.
  intros H1 H2 E. unfold auth_signing_bytes in E. apply app_inv_head in E.
  apply auth_serialize_injective.
  - destruct H1 as (? & ? & ? & ? & ? & ? & ? & ? & ? & ?). unfold auth_wf, auth_unsigned; cbn [a_id a_key a_lat a_long a_cap a_debt a_exp a_init a_fee a_sig]; rewrite zeros_length; tauto.
  - destruct H2 as (? & ? & ? & ? & ? & ? & ? & ? & ? & ?). unfold auth_wf, auth_unsigned; cbn [a_id a_key a_lat a_long a_cap a_debt a_exp a_init a_fee a_sig]; rewrite zeros_length; tauto.
  - unfold auth_serialize. replace (auth_body (auth_unsigned a1)) with (auth_body a1) by reflexivity.
    replace (auth_body (auth_unsigned a2)) with (auth_body a2) by reflexivity. rewrite E. reflexivity.
Qed.

(* ==== GCARegistration ================================================================= *)
Theorem reg_signing_length k : length (reg_signing_bytes k) = 47%nat.
Proof. rewrite reg_signing_bytes_layout. apply (layout_encode_length 47 reg_signing_layout); reflexivity. Qed.

Theorem reg_signing_injective k1 k2 : reg_wf k1 -> reg_wf k2 ->
  reg_signing_bytes k1 = reg_signing_bytes k2 -> k1 = k2.
Proof.
  unfold reg_wf, reg_signing_bytes. intros H1 H2 E. apply app_inv_head in E.
  rewrite !pad_exact in E by assumption. exact E.
Qed.

(* ==== prefixes ======================================================================== *)
(* two byte strings whose prefixes differ at a position inside both prefixes are different *)
Lemma prefix_differ (p1 p2 r1 r2 : bytes) (i : nat) (a b : Byte.byte) :
  nth_error p1 i = Some a -> nth_error p2 i = Some b -> a <> b -> p1 ++ r1 <> p2 ++ r2.
Proof.
  intros H1 H2 Hab E. apply (f_equal (fun l => nth_error l i)) in E.
  rewrite !nth_error_app1 in E.
  - congruence.
  - apply nth_error_Some. congruence.
  - apply nth_error_Some. congruence.
Qed.

(* ==== signatures: changed signed values are rejected ==================================== *)
Section VerifyReduction.
  (* verify key message signature *)
  Variable verify : bytes -> bytes -> bytes -> bool.
  (* what is needed of the signature scheme: under one key a signature is valid for at most
     one message (for secp256k1/Keccak: up to hash collisions; tested bit by bit against the
     real glow.Verify by the harness, not proved) *)
  Hypothesis verify_binds : forall k m1 m2 s, verify k m1 s = true -> verify k m2 s = true -> m1 = m2.

  (* any change of the signed BYTES is rejected: this is the hypothesis itself *)
  Lemma changed_bytes_rejected k m1 m2 s : verify k m1 s = true -> m1 <> m2 -> verify k m2 s = false.
  Proof.
    intros H1 Hne. destruct (verify k m2 s) eqn:E; [|reflexivity]. exfalso. apply Hne. eauto.
  Qed.

  (* any change of the signed VALUE is rejected as soon as the signing bytes are injective *)
  Variable A : Type.
  Variable signing : A -> bytes.
  Variable ok : A -> Prop.
  Variable same : A -> A -> Prop.
  Hypothesis signing_injective : forall x y, ok x -> ok y -> signing x = signing y -> same x y.

  Theorem changed_value_rejected k s x y : ok x -> ok y ->
    verify k (signing x) s = true -> ~ same x y -> verify k (signing y) s = false.
  Proof.
    intros Hx Hy Hv Hne. apply (changed_bytes_rejected k (signing x)); [exact Hv|].
    intros E. apply Hne. apply signing_injective; assumption.
  Qed.
End VerifyReduction.

(* a verify function that satisfies the hypothesis (the theorem is not vacuous) *)
Definition toy_verify (k m s : bytes) : bool := bytes_eqb s (k ++ m).
Lemma toy_verify_binds k m1 m2 s : toy_verify k m1 s = true -> toy_verify k m2 s = true -> m1 = m2.
Proof.
  unfold toy_verify. intros H1 H2. apply bytes_eqb_eq in H1, H2. subst s. apply app_inv_head in H2. auto.
Qed.
