# C09 -- see DESIGN.md section 5
PROP = {
    "props_v": "Props/C09.v",
    "extra_v": ["ClientStoreRun.v", "ServerRun.v"],
    "run_vo": "ClientStoreRun.vo",
    "suites": [("test", "history"), ("test", "meter"), ("test", "lossylite")],
    "assumptions": [
        "glow.Sign is a function of (message, key): modelled as a Section variable sign : bytes -> bytes; the meter suite re-signs every captured report with the device key and requires the identical 80 bytes (RFC 6979 determinism is checked, not proved)",
        "the device identity (short id, key pair) is fixed over the modelled life; a GCA migration installs a new short id and starts a new life",
        "wire theorems are stated for readings that fit 32 signed bits (hypothesis ev_fits); outside it the property is false: c09_k2_refuted / c09_k2_same_tick_refuted, findings k2-resend and k2-tick",
        "history theorems that speak about other slots (frame, stored_forever) assume a history file made of a header and whole 4-byte slots (hist_wf), which every file written by the client satisfies; the model itself is byte-exact for ragged files (suite history compares them)",
        "disk errors of ReadAt/WriteAt other than io.EOF are outside the model",
        "meter suite: a tick on an unchanged file is idempotent (no emission, same state), so each file content is fed to the model once; the number of times the real client has read a content is observed through its public event log",
    ],
}
TEXT = {
    "text": "Coq theorems over all history files (arbitrary byte strings), origins, timeslots and values: read-after-write, no overwrite, stored-forever over arbitrary operation lists, frame, refusal before the origin and beyond the addressable range, exact byte effect of a save (no misplacement, header untouched); over all sequences of ticks/restarts/retransmissions with arbitrary record lists: all datagrams of one slot with non-zero power are byte-identical and carry the first accepted reading (for readings fitting 32 signed bits; refutation theorems with witnesses outside). The executable model is compared with the real store (exported wrappers) on generated operation lists incl. final file bytes, and with a real client.NewClient whose datagrams are captured at a UDP sink under random edit scripts and restarts, plus a real server's sync reply for the retransmission path. Added after seeded-change rounds: storage write faults on the history file (hook VerifHistoryWriteFault), saves and loads running concurrently on one store, suite lossylite (real client retransmitting against a rotated server through a lossy relay).",
    "note": "K3 (uint32 byte offset wrap) was reproduced by the history suite and repaired in /repo (fix: commit); the pre-repair arithmetic is kept as save_reading_nocheck with c09_offset_wrap_refuted. K2 is a recorded finding (keys k2-resend, k2-tick) observed on the real wire. Trusted: Coq kernel + vm_compute, harness (generators, oracles, UDP capture), Go's os.File semantics as modelled (short read = EOF, zero-fill).",
    "technique": "Coq proof (induction over operation/event lists with a store invariant; byte-level list reasoning) + differential correspondence (vm_compute) against the real store and a live client",
}
