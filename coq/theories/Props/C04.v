(* C04 -- Restart preserves every accepted fact.
   Statements only; proofs in ServerRestart_lemmas.v / ServerFull_lemmas.v. *)
From Coq Require Import ZArith List Bool.
From GCA Require Import Wrap Bytes Codec Amap Timeslot Server ServerInv ServerDisk ServerReach_lemmas ServerFull_lemmas ServerRestart_lemmas.
Import ListNotations.
Open Scope Z_scope.

Section C04.
  Variable verify : bytes -> bytes -> bytes -> bool.
  Variable sign : bytes -> bytes -> bytes.
  Variable stats_sb : list devstat -> Z -> bytes.

  (* The invariant (memory invariant + "the disk holds exactly what start-up needs to rebuild
     the persistent part of memory") holds after the first start on a directory that only holds
     the temporary key, for every clock ... *)
  Theorem c04_first_start tk fresh now st0 : clock_ok now ->
    load verify (fresh_disk tk) fresh = LOk st0 ->
    Inv verify (fst (catch_up sign stats_sb (catchup_fuel now) st0 now)) /\
    snd (catch_up sign stats_sb (catchup_fuel now) st0 now) = Quiet.
  Proof. exact (first_start_full verify sign stats_sb tk fresh now st0). Qed.

  (* ... and after EVERY history of operations (registrations, authorizations incl. conflicts,
     reports incl. banned slots, rotations, impact data, queries, restarts), with no Panic. *)
  Theorem c04_invariant_along_histories ops st : Inv verify st -> Forall (op_ok) ops ->
    Inv verify (Server.run verify sign stats_sb st ops) /\
    Forall (fun o => o <> Panic) (outs verify sign stats_sb st ops).
  Proof. exact (run_inv verify sign stats_sb ops st). Qed.

  (* From any such state: start-up on the server's own directory SUCCEEDS and rebuilds the same
     facts -- GCA key and flag, authorized devices, key lookup, bans, every window slot, offset,
     identical archived weeks (impact rates of the live window are not persisted: only their
     domain is compared) -- and re-establishes the invariant. *)
  Theorem c04_load_equiv st fresh : Inv verify st ->
    exists st', load verify (dd st) fresh = LOk st' /\ mem_equiv (mm st') (mm st) /\ Inv verify st'.
  Proof.
    intros [I D]. destruct (load_spec verify st fresh I D) as (st' & L & ME & I' & D').
    exact (ex_intro _ st' (conj L (conj ME (conj I' D')))).
  Qed.

  (* restart = that start-up followed by the catch-up rotations the clock at start-up requires
     (zero, one or several), never a Panic or a start-up error *)
  Theorem c04_restart_equiv st fresh now : Inv verify st -> clock_ok now ->
    exists st1, load verify (dd st) fresh = LOk st1 /\ mem_equiv (mm st1) (mm st) /\ Inv verify st1 /\
      restart verify sign stats_sb st fresh now (catchup_fuel now) = catch_up sign stats_sb (catchup_fuel now) st1 now /\
      Inv verify (fst (catch_up sign stats_sb (catchup_fuel now) st1 now)) /\
      snd (catch_up sign stats_sb (catchup_fuel now) st1 now) = Quiet.
  Proof. exact (restart_spec verify sign stats_sb st fresh now). Qed.

  (* restarting any number of times in a row is idempotent *)
  Theorem c04_restart_idempotent st fresh now : Inv verify st -> clock_ok now ->
    let st1 := fst (Server.step verify sign stats_sb st (OpRestart fresh now)) in
    let st2 := fst (Server.step verify sign stats_sb st1 (OpRestart fresh now)) in
    mem_equiv (mm st2) (mm st1).
  Proof. exact (restart_idempotent verify sign stats_sb st fresh now). Qed.
End C04.
