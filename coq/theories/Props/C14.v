(* C14 -- Archive download is a consistent, public-only snapshot.
   Statements only; proofs in ArchiveEvolve_lemmas.v / Archive_lemmas.v / RateLimiter_lemmas.v. *)
From Coq Require Import ZArith List Bool String.
From GCA Require Import Wrap Bytes Codec Amap Timeslot Server ServerInv ServerDisk ServerReach_lemmas ServerFull_lemmas
                        Archive ArchiveEvolve_lemmas Archive_lemmas RateLimiter Props.C19
                        Skel SkelSpec Skel_lemmas SkelObligations.
From GCAgen Require ConstsProd ConstsTest SkelServer.
Import ListNotations.
Open Scope Z_scope.

(* the file order of the running source, regenerated on every run *)
Definition prod_tags : list (option ftag) := map ftag_of ConstsProd.PublicFiles.
Definition the_tags : list ftag := flat_map (fun o => match o with Some t => [t] | None => [] end) prod_tags.

(* every public file is one the model knows, each is read once, in reverse dependency order
   (reports before authorizations before the GCA key), and server.keys is not among them *)
Theorem c14_order_ok :
  forallb (fun o => match o with Some _ => true | None => false end) prod_tags = true /\
  tags_ok [] the_tags = true /\ fin FGca (rev the_tags) = true /\
  existsb (String.eqb "server.keys") ConstsProd.PublicFiles = false /\
  ConstsTest.PublicFiles = ConstsProd.PublicFiles.
Proof. vm_compute. repeat split. Qed.

Section C14.
  Variable verify : bytes -> bytes -> bytes -> bool.
  Variable sign : bytes -> bytes -> bytes.
  Variable stats_sb : list devstat -> Z -> bytes.

  (* prefix: whatever runs after a file was read, the file as read is a record-aligned prefix of
     the file at any later moment (logs only grow; key files, once written, never change) *)
  Theorem c14_prefix ops st : Inv verify st -> ArchInv verify sign stats_sb st -> Forall op_ok ops ->
    evolves st (Server.run verify sign stats_sb st ops) /\
    ArchInv verify sign stats_sb (Server.run verify sign stats_sb st ops) /\
    Inv verify (Server.run verify sign stats_sb st ops).
  Proof. exact (run_arch verify sign stats_sb ops st). Qed.

  (* closure: for EVERY schedule of write bursts injected in the gaps between the file reads (any
     operation lists), reading the files in an order accepted by tags_ok gives an archive in which
     every report verifies under the first archived authorization of its device, every
     authorization verifies under the archived GCA key, every weekly record verifies under the
     archived server public key -- which is exactly the public half of server.keys *)
  Theorem c14_closed st sched ops_last :
    Inv verify st -> ArchInv verify sign stats_sb st ->
    (forall m, verify (fst (skeys (mm st))) m (sign m (snd (skeys (mm st)))) = true) ->
    Forall (fun p => Forall op_ok (fst p)) sched -> Forall op_ok ops_last ->
    tags_ok [] (map snd sched) = true -> fin FGca (rev (map snd sched)) = true ->
    let r := archive_run verify sign stats_sb st empty_archive sched in
    let ar := finish_archive verify sign stats_sb (fst r) (snd r) ops_last in
    archive_closed verify stats_sb ar /\ ar_pub ar = fst (skeys (mm st)).
  Proof. exact (archive_closed_thm verify sign stats_sb st sched ops_last). Qed.

  (* the invariant the closure rests on holds from the first start on *)
  Theorem c14_first_start tk fresh now st0 : clock_ok now -> List.length (fst fresh) = 32%nat ->
    load verify (fresh_disk tk) fresh = LOk st0 ->
    ArchInv verify sign stats_sb (fst (catch_up sign stats_sb (catchup_fuel now) st0 now)).
  Proof. exact (first_start_arch verify sign stats_sb tk fresh now st0). Qed.
End C14.

(* rate: the handler asks the limiter first and serves only when admitted, so the archives served
   are the limiter's granted calls: at most apiArchiveLimit of them in any window of apiArchiveRate *)
Definition archive_limiter : rl_cfg :=
  {| r_limit := ConstsProd.server_apiArchiveLimit; r_rate := ConstsProd.server_apiArchiveRateMs |}.
(* the limiter the bound is about is ONE object per server: every field of the server structure that
   is classified static (ApiArchiveRateLimiter among them) is written only while the server is being
   constructed -- re-checked on the skeletons regenerated from the source on every run *)
Theorem c14_limiter_is_one_object :
  static_writers_ok server_fields server_fns SkelServer.field_writers = true.
Proof. exact (proj1 (proj2 (proj2 (proj2 skel_server_translated)))). Qed.

Theorem c14_rate (nows : list Z) (w : Z) : nondecr nows ->
  rl_len (filter (in_window archive_limiter w) (snd (rl_run archive_limiter nows))) <= Z.max 0 ConstsProd.server_apiArchiveLimit.
Proof. exact (c19_safety archive_limiter nows w). Qed.
