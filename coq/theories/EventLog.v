(* Model of glow/event_log.go (EventLogger: ExpireLogs, Printf, DumpLogEntries).
   Definitions only; proofs are in EventLog_lemmas.v.

   Time: every operation carries the instant the Go code reads from time.Now()
   (or receives, for ExpireLogs) as an integer [Z] in an arbitrary unit
   (nanoseconds in Go; half grid ticks in the correspondence harness).
   The map l.logs is a list of entries with pairwise different lines; Go's map
   iteration order and the unstable sort.Slice among equal keys are an input of
   the operation: a tie-break function [tb] that may permute the entries in any
   way before the (stable) sort.  Theorems hold for every such permutation.
   Panics are explicit: the slice expression key[:logMaxLineBytes], the index
   updateOrder[0], and updates[len(updates)-1]. *)
From Coq Require Import ZArith List Bool Permutation Sorted.
Import ListNotations.
Open Scope Z_scope.

Definition line := list Byte.byte.
Definition Zlen {A} (l : list A) : Z := Z.of_nat (length l).

Fixpoint line_eqb (a b : line) : bool :=
  match a, b with
  | [], [] => true
  | x :: a', y :: b' => Byte.eqb x y && line_eqb a' b'
  | _, _ => false
  end.

Record cfg := { c_expiry : Z; c_max : Z; c_maxline : Z }.
(* LogEntry *)
Record entry := { e_line : line; e_upd : list Z }.
(* EventLogger: logs, logSizeBytes *)
Record logger := { l_entries : list entry; l_size : Z }.

Inductive outcome (A : Type) : Type := Ok (a : A) | Panic.
Arguments Ok {A} a.
Arguments Panic {A}.

Definition init : logger := {| l_entries := []; l_size := 0 |}.

Definition lines (es : list entry) : list line := map e_line es.
Definition total_len (es : list entry) : Z :=
  fold_right (fun e a => Zlen (e_line e) + a) 0 es.
Definition has_upd (e : entry) : bool := match e_upd e with [] => false | _ => true end.

(* ---- ExpireLogs ----------------------------------------------------------
     for _, ts := range entry.updates { if ts.Before(expireTime) { removeIdx++ } else { break } }
     entry.updates = entry.updates[removeIdx:]                                  *)
Fixpoint drop_before (cut : Z) (ups : list Z) : list Z :=
  match ups with
  | [] => []
  | t :: r => if t <? cut then drop_before cut r else ups
  end.

Definition cut_entry (cut : Z) (e : entry) : entry :=
  {| e_line := e_line e; e_upd := drop_before cut (e_upd e) |}.

(* [dec] = true: the repaired code (each deleted key gives back 2*len(key));
   [dec] = false: the code before the repair (counter untouched) -- kept only
   for the refutation lemma. *)
Definition expire_gen (dec : bool) (c : cfg) (st : logger) (now : Z) : logger :=
  let cut := now - c_expiry c in
  let es := map (cut_entry cut) (l_entries st) in
  let dead := filter (fun e => negb (has_upd e)) es in
  {| l_entries := filter has_upd es;
     l_size := if dec then l_size st - 2 * total_len dead else l_size st |}.

(* ---- ascending order of last update ------------------------------------- *)
Fixpoint last_opt (l : list Z) : option Z :=
  match l with
  | [] => None
  | [x] => Some x
  | _ :: r => last_opt r
  end.

(* updates[len(updates)-1] of every entry: index out of range on an empty list.
   (In Printf the Go code evaluates it inside the sort's comparison only, i.e.
   only when at least two entries exist; the model panics for a single entry
   too -- this only adds panics in states that are proved unreachable.) *)
Fixpoint keyed (es : list entry) : outcome (list (Z * entry)) :=
  match es with
  | [] => Ok []
  | e :: r =>
      match last_opt (e_upd e), keyed r with
      | Some k, Ok kr => Ok ((k, e) :: kr)
      | _, _ => Panic
      end
  end.

Fixpoint insert_sorted (x : Z * entry) (l : list (Z * entry)) : list (Z * entry) :=
  match l with
  | [] => [x]
  | y :: r => if fst y <=? fst x then y :: insert_sorted x r else x :: l
  end.
Definition sort_keyed (l : list (Z * entry)) : list (Z * entry) := fold_right insert_sorted [] l.

Definition tie_break := list entry -> list entry.
Definition tb_ok (tb : tie_break) : Prop := forall l, Permutation (tb l) l.
Definition tb_id : tie_break := fun l => l.

Definition update_order (tb : tie_break) (es : list entry) : outcome (list entry) :=
  match keyed (tb es) with
  | Ok k => Ok (map snd (sort_keyed k))
  | Panic => Panic
  end.

(* ---- Printf ------------------------------------------------------------- *)
(* if len(key) > l.logMaxLineBytes { key = key[:l.logMaxLineBytes] } *)
Definition truncate (c : cfg) (l : line) : outcome line :=
  if Zlen l >? c_maxline c
  then (if c_maxline c <? 0 then Panic else Ok (firstn (Z.to_nat (c_maxline c)) l))
  else Ok l.

Definition has_line (k : line) (es : list entry) : bool :=
  existsb (fun e => line_eqb (e_line e) k) es.

Definition add_update (now : Z) (k : line) (es : list entry) : list entry :=
  map (fun e => if line_eqb (e_line e) k
                then {| e_line := e_line e; e_upd := e_upd e ++ [now] |} else e) es.

(* for sizeRequired+l.logSizeBytes > l.logMaxBytes {
     oldest := updateOrder[0]; updateOrder = updateOrder[1:]
     l.logSizeBytes -= 2 * len(oldest.line); delete(l.logs, oldest.line) }
   returns how many were removed and the counter afterwards *)
Fixpoint evict_count (need max size : Z) (order : list entry) : outcome (nat * Z) :=
  if need + size >? max then
    match order with
    | [] => Panic
    | e :: r =>
        match evict_count need max (size - 2 * Zlen (e_line e)) r with
        | Ok (n, s) => Ok (S n, s)
        | Panic => Panic
        end
    end
  else Ok (0%nat, size).

Definition remove_lines (ks : list line) (es : list entry) : list entry :=
  filter (fun e => negb (existsb (line_eqb (e_line e)) ks)) es.

Definition new_entry (now : Z) (k : line) : entry := {| e_line := k; e_upd := [now] |}.

Definition printf_gen (dec : bool) (c : cfg) (st : logger) (now : Z) (l : line) (tb : tie_break)
  : outcome logger :=
  let st1 := expire_gen dec c st now in
  match truncate c l with
  | Panic => Panic
  | Ok key =>
      let need := 2 * Zlen key in
      if need >? c_max c then Ok st1
      else if has_line key (l_entries st1)
      then Ok {| l_entries := add_update now key (l_entries st1); l_size := l_size st1 |}
      else if need + l_size st1 >? c_max c then
        match update_order tb (l_entries st1) with
        | Panic => Panic
        | Ok order =>
            match evict_count need (c_max c) (l_size st1) order with
            | Panic => Panic
            | Ok (n, s) =>
                Ok {| l_entries := remove_lines (lines (firstn n order)) (l_entries st1)
                                   ++ [new_entry now key];
                      l_size := s + need |}
            end
        end
      else Ok {| l_entries := l_entries st1 ++ [new_entry now key]; l_size := l_size st1 + need |}
  end.

(* ---- DumpLogEntries: (line, timestamps) in the order of the returned slice *)
Definition dump_out := list (line * list Z).
Definition dump_gen (dec : bool) (c : cfg) (st : logger) (now : Z) (tb : tie_break)
  : outcome (logger * dump_out) :=
  let st1 := expire_gen dec c st now in
  match update_order tb (l_entries st1) with
  | Panic => Panic
  | Ok order => Ok (st1, map (fun e => (e_line e, e_upd e)) order)
  end.

(* ---- operations, runs ---------------------------------------------------- *)
Inductive op :=
| OPrintf (now : Z) (l : line) (tb : tie_break)
| OExpire (now : Z)
| ODump (now : Z) (tb : tie_break).

Definition op_time (o : op) : Z :=
  match o with OPrintf t _ _ => t | OExpire t => t | ODump t _ => t end.
Definition op_ok (o : op) : Prop :=
  match o with OPrintf _ _ tb => tb_ok tb | OExpire _ => True | ODump _ tb => tb_ok tb end.

Definition step_gen (dec : bool) (c : cfg) (st : logger) (o : op) : outcome (logger * option dump_out) :=
  match o with
  | OPrintf now l tb =>
      match printf_gen dec c st now l tb with Ok st' => Ok (st', None) | Panic => Panic end
  | OExpire now => Ok (expire_gen dec c st now, None)
  | ODump now tb =>
      match dump_gen dec c st now tb with Ok (st', d) => Ok (st', Some d) | Panic => Panic end
  end.

Fixpoint run_gen (dec : bool) (c : cfg) (st : logger) (ops : list op) : outcome logger :=
  match ops with
  | [] => Ok st
  | o :: r =>
      match step_gen dec c st o with
      | Ok (st', _) => run_gen dec c st' r
      | Panic => Panic
      end
  end.

(* the repaired code *)
Definition expire := expire_gen true.
Definition printf := printf_gen true.
Definition dump := dump_gen true.
Definition step := step_gen true.
Definition run := run_gen true.

(* timestamps of a run never go back (time.Now() is monotonic; ExpireLogs is
   only called with such instants by the code base) *)
Fixpoint nondecreasing_from (t : Z) (ops : list op) : Prop :=
  match ops with
  | [] => True
  | o :: r => t <= op_time o /\ nondecreasing_from (op_time o) r
  end.

(* ---- vocabulary of the statements ---------------------------------------- *)
(* b was updated no earlier than a (both have a last update) *)
Definition upd_le (a b : list Z) : Prop :=
  exists ka kb, last_opt a = Some ka /\ last_opt b = Some kb /\ ka <= kb.
Definition entry_le (a b : entry) : Prop := upd_le (e_upd a) (e_upd b).
Definition dump_le (a b : line * list Z) : Prop := upd_le (snd a) (snd b).

(* what Printf stores for a line when the per-line limit is not negative *)
Definition cut_line (c : cfg) (l : line) : line := firstn (Z.to_nat (c_maxline c)) l.
