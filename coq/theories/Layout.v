(* T3: fixed-width layouts.  A layout is the list of fields of a byte buffer of known
   size: (offset, width, name, kind).  This file interprets a layout as an encoder and a
   decoder over field values (Layout_lemmas.v proves, for EVERY layout accepted by
   [layout_wf], round trip, refusal of other lengths and injectivity), and states the
   documented layouts of the repository's fixed-width structures, to which the layouts
   regenerated from the Go source (gen/Layouts.v, harness/suites/layouts.go) are compared
   in Props/C15.v.  Definitions only. *)
From Coq Require Import ZArith List Bool String Ascii.
From GCA Require Import Bytes Codec.
Import ListNotations.
Open Scope Z_scope.
Notation length := List.length.

(* how the bytes of a field are produced:
   KUintLE  binary.LittleEndian.PutUintN(b[off:], x.F)          (N = 8*width)
   KUintBE  binary.BigEndian.PutUintN(...)                       (never documented)
   KFloatLE binary.LittleEndian.PutUint64(b[off:], math.Float64bits(x.F))
   KBytes   copy(b[off:], x.F[:])                                (F a byte array)
   KPrefix  copy(b, []byte("Name"))                              (a literal) *)
Inductive kind := KUintLE | KUintBE | KFloatLE | KFloatBE | KBytes | KPrefix (s : string).
Record field := { f_off : nat; f_width : nat; f_name : string; f_kind : kind }.
Definition layout := list field.

(* what the translator emits per Go function: size of the buffer (make([]byte, K) or the
   length the decoder insists on), the fields in source order, and every statement it did
   not understand (must be empty) *)
Record glayout := { g_size : nat; g_fields : layout; g_unknown : list string }.

(* field values: integers (also float bit patterns) or byte arrays *)
Inductive val := VInt (z : Z) | VBytes (b : bytes).
Definition val_int (v : val) : Z := match v with VInt z => z | VBytes _ => 0 end.
Definition val_bytes (v : val) : bytes := match v with VBytes b => b | VInt _ => [] end.

Definition enc_field (f : field) (v : val) : bytes :=
  match f_kind f with
  | KUintLE | KFloatLE => le_enc (f_width f) (val_int v)
  | KUintBE | KFloatBE => rev (le_enc (f_width f) (val_int v))
  | KBytes => pad (f_width f) (val_bytes v)
  | KPrefix s => ascii_bytes s
  end.
(* [b] is the field's slice of the buffer *)
Definition dec_field (f : field) (b : bytes) : option val :=
  match f_kind f with
  | KUintLE | KFloatLE => Some (VInt (le_dec b))
  | KUintBE | KFloatBE => Some (VInt (le_dec (rev b)))
  | KBytes => Some (VBytes b)
  | KPrefix s => if bytes_eqb b (ascii_bytes s) then Some (VBytes b) else None
  end.

(* the encoder writes the fields one after the other (values in field order) *)
Fixpoint encode_vals (L : layout) (vs : list val) : bytes :=
  match L, vs with
  | f :: L', v :: vs' => enc_field f v ++ encode_vals L' vs'
  | _, _ => []
  end.
(* the decoder reads every field at its DECLARED offset, as the Go code does *)
Fixpoint dec_fields (L : layout) (b : bytes) : option (list val) :=
  match L with
  | [] => Some []
  | f :: L' =>
      match dec_field f (slice (f_off f) (f_width f) b), dec_fields L' b with
      | Some v, Some vs => Some (v :: vs)
      | _, _ => None
      end
  end.
Definition layout_decode (K : nat) (L : layout) (b : bytes) : option (list val) :=
  if Nat.eqb (length b) K then dec_fields L b else None.

(* over a field environment *)
Definition env := string -> val.
Definition env_vals (L : layout) (e : env) : list val := map (fun f => e (f_name f)) L.
Definition layout_encode (L : layout) (e : env) : bytes := encode_vals L (env_vals L e).
Fixpoint env_of (L : layout) (vs : list val) : env :=
  match L, vs with
  | f :: L', v :: vs' => fun n => if String.eqb n (f_name f) then v else env_of L' vs' n
  | _, _ => fun _ => VInt 0
  end.

(* ---- well-formedness: decidable, evaluated by vm_compute on regenerated layouts ---- *)
Definition width_ok (f : field) : bool :=
  match f_kind f with
  | KUintLE | KUintBE =>
      Nat.eqb (f_width f) 1 || Nat.eqb (f_width f) 2 || Nat.eqb (f_width f) 4 || Nat.eqb (f_width f) 8
  | KFloatLE | KFloatBE => Nat.eqb (f_width f) 8
  | KBytes => Nat.leb 1 (f_width f)
  | KPrefix s => Nat.eqb (f_width f) (String.length s)
  end.
(* the fields tile [off, k): each starts where the previous one ended *)
Fixpoint tiles (off : nat) (L : layout) : option nat :=
  match L with
  | [] => Some off
  | f :: L' => if Nat.eqb (f_off f) off && width_ok f then tiles (off + f_width f) L' else None
  end.
Fixpoint names_distinct (l : list string) : bool :=
  match l with
  | [] => true
  | n :: l' => negb (existsb (String.eqb n) l') && names_distinct l'
  end.
Definition layout_wf (K : nat) (L : layout) : bool :=
  match tiles 0 L with Some k => Nat.eqb k K | None => false end && names_distinct (map f_name L).

(* value in the range of its field *)
Definition val_ok (f : field) (v : val) : Prop :=
  match f_kind f with
  | KUintLE | KUintBE | KFloatLE | KFloatBE => exists z, v = VInt z /\ 0 <= z < 256 ^ Z.of_nat (f_width f)
  | KBytes => exists b, v = VBytes b /\ length b = f_width f
  | KPrefix s => v = VBytes (ascii_bytes s)
  end.

(* source order -> offset order (insertion sort; the theorems speak about layout_wf
   layouts, the sort itself needs no proof) *)
Fixpoint insert_field (f : field) (L : layout) : layout :=
  match L with
  | [] => [f]
  | g :: L' => if Nat.leb (f_off f) (f_off g) then f :: L else g :: insert_field f L'
  end.
Definition layout_norm (L : layout) : layout := fold_right insert_field [] L.

(* ==== documented layouts (README "Always use LittleEndian", struct comments) ========= *)
Definition F (off w : nat) (n : string) (k : kind) : field :=
  {| f_off := off; f_width := w; f_name := n; f_kind := k |}.

(* EquipmentReport: 80 bytes *)
Definition report_layout : layout :=
  [F 0 4 "ShortID" KUintLE; F 4 4 "Timeslot" KUintLE; F 8 8 "PowerOutput" KUintLE; F 16 64 "Signature" KBytes].
(* EquipmentReport signing bytes: 31 bytes *)
Definition report_signing_layout : layout :=
  [F 0 15 "prefix" (KPrefix "EquipmentReport"); F 15 4 "ShortID" KUintLE; F 19 4 "Timeslot" KUintLE;
   F 23 8 "PowerOutput" KUintLE].
(* EquipmentAuthorization: 148 bytes *)
Definition auth_layout : layout :=
  [F 0 4 "ShortID" KUintLE; F 4 32 "PublicKey" KBytes; F 36 8 "Latitude" KFloatLE; F 44 8 "Longitude" KFloatLE;
   F 52 8 "Capacity" KUintLE; F 60 8 "Debt" KUintLE; F 68 4 "Expiration" KUintLE; F 72 4 "Initialization" KUintLE;
   F 76 8 "ProtocolFee" KUintLE; F 84 64 "Signature" KBytes].
(* GCARegistration signing bytes: 47 bytes *)
Definition reg_signing_layout : layout :=
  [F 0 15 "prefix" (KPrefix "GCARegistration"); F 15 32 "GCAKey" KBytes].

(* records <-> field values in layout order *)
Definition report_vals (r : report) : list val :=
  [VInt (r_id r); VInt (r_ts r); VInt (r_p r); VBytes (r_sig r)].
Definition report_of_vals (vs : list val) : report :=
  match vs with
  | [a; b; c; d] => {| r_id := val_int a; r_ts := val_int b; r_p := val_int c; r_sig := val_bytes d |}
  | _ => blank_report
  end.
Definition report_signing_vals (r : report) : list val :=
  [VBytes (ascii_bytes "EquipmentReport"); VInt (r_id r); VInt (r_ts r); VInt (r_p r)].
Definition auth_vals (a : auth) : list val :=
  [VInt (a_id a); VBytes (a_key a); VInt (a_lat a); VInt (a_long a); VInt (a_cap a); VInt (a_debt a);
   VInt (a_exp a); VInt (a_init a); VInt (a_fee a); VBytes (a_sig a)].
Definition blank_auth : auth :=
  {| a_id := 0; a_key := zeros 32; a_lat := 0; a_long := 0; a_cap := 0; a_debt := 0; a_exp := 0;
     a_init := 0; a_fee := 0; a_sig := zeros 64 |}.
Definition auth_of_vals (vs : list val) : auth :=
  match vs with
  | [i; k; la; lo; c; d; e; n; f; s] =>
      {| a_id := val_int i; a_key := val_bytes k; a_lat := val_int la; a_long := val_int lo;
         a_cap := val_int c; a_debt := val_int d; a_exp := val_int e; a_init := val_int n;
         a_fee := val_int f; a_sig := val_bytes s |}
  | _ => blank_auth
  end.
Definition reg_signing_vals (gcakey : bytes) : list val :=
  [VBytes (ascii_bytes "GCARegistration"); VBytes gcakey].
